/-
C15 — model of the assembly of a simulated path (times, diffusion component, jump component).
Mathlib-free, executable.  Mirrors (faults included)

  * rpylib/process/levyprocess.py:182-204       `SimulationFixedTimes`        (fixed product dates)
  * rpylib/process/levyprocess.py:220-256       `SimulationWithJumpTimes`     (jump-time mode, direct simulation)
  * rpylib/process/levyprocess.py:271-313       `SimulationMaximumStep`       (`_build_finer_grid`, the ε-step insertion)
  * rpylib/process/markovchain/markovchain.py:172-266   CTMC versions (`helper_simulate_markov_chain`, `project`)
  * rpylib/process/coupling/helper.py:8-43      the same insertion on (times, fine values, coarse values)
  * rpylib/process/coupling/couplingmarkovchain.py:238-277, 303-352   fine/coarse stacking on shared times

The random variates are *inputs*: Poisson counts and jump sizes are the lists `incs` (one list of jump sizes per product
interval), uniforms are the sorted offsets in (0,1) of each interval, scaled Brownian increments are the list `w`
(`sqrt(dt_k)·σ·z_k`).  Theorems quantify over all of them.
-/
import RpylibModel.Basic.Proto

namespace Rpylib.Path

/-! ### elementary list functions -/

def sumL : List Rat → Rat
  | [] => 0
  | x :: r => x + sumL r

/-- `np.cumsum` continued from the accumulator `acc` -/
def cumsumFrom (acc : Rat) : List Rat → List Rat
  | [] => []
  | x :: r => (acc + x) :: cumsumFrom (acc + x) r

def cumsum (l : List Rat) : List Rat := cumsumFrom 0 l

/-- last element, `d` for the empty list (`x[-1] if x.size else d`) -/
def lastD {α} (d : α) : List α → α
  | [] => d
  | x :: r => lastD x r

/-- `np.diff(x, prepend=prev)` -/
def diffsFrom (prev : Rat) : List Rat → List Rat
  | [] => []
  | x :: r => (x - prev) :: diffsFrom x r

/-- what `simulate_one_path` returns: `StochasticJumpPath(times, diffusion_path, jump_path)` -/
structure PathOut where
  times : List Rat
  diff : List Rat
  jumps : List Rat
  deriving Repr, DecidableEq

/-! ### fixed product dates (levyprocess.py:182-204, markovchain.py:205-229) -/

/-- as coded, direct simulation: `jumps = [0] ++ [sum(increments of interval k)]`, `diff = [0] ++ cumsum(stddev * BM)`.
    The jump component at date k is the sum over interval k only (DESIGN §3.1 #17). -/
def fixedDatesCode (dates : List Rat) (incs : List (List Rat)) (w : List Rat) : PathOut :=
  ⟨dates, 0 :: cumsum w, 0 :: incs.map sumL⟩

/-- as coded, CTMC: `values[k] = cumsum(grid values of slice k)`, `project` keeps the last value of each slice (0 for an
    empty slice) -/
def fixedDatesCtmc (dates : List Rat) (incs : List (List Rat)) (w : List Rat) : PathOut :=
  ⟨dates, 0 :: cumsum w, 0 :: incs.map (fun s => lastD 0 (cumsum s))⟩

/-- as specified: running sums of both components -/
def fixedDatesSpec (dates : List Rat) (incs : List (List Rat)) (w : List Rat) : PathOut :=
  ⟨dates, 0 :: cumsum w, 0 :: cumsum (incs.map sumL)⟩

/-! ### jump-time mode (levyprocess.py:220-256, markovchain.py:240-266) -/

/-- one product interval `[a, b]` with the jumps drawn in it: `(u, size)` with `u` the *sorted* uniform offset
    (`np.sort(dt * random_sample(n))` is trusted), `size` the jump increment -/
structure Interval where
  a : Rat
  b : Rat
  js : List (Rat × Rat)

def ivTimes (I : Interval) : List Rat := I.js.map (fun p => I.a + (I.b - I.a) * p.1)   -- tm + dt * sorted uniforms
def ivSizes (I : Interval) : List Rat := I.js.map (fun p => p.2)

def jumpTimes (Is : List Interval) : List Rat := Is.flatMap ivTimes
/-- direct simulation: one cumulative sum over all increments (levyprocess.py:248) -/
def jumpValsDirect (Is : List Interval) : List Rat := cumsum (Is.flatMap ivSizes)
/-- CTMC: one cumulative sum *per interval*, concatenated (markovchain.py:189-192, 259): restarts at 0 at every
    product date (DESIGN §3.1 #17) -/
def jumpValsCtmc (Is : List Interval) : List Rat := Is.flatMap (fun I => cumsum (ivSizes I))

/-- `[0] ++ jump_times ++ [maturity]`, `[0] ++ jumps ++ [final_jump]`, `[0] ++ cumsum(scaled normals)` -/
def assemble (T : Rat) (jt jv w : List Rat) : PathOut :=
  ⟨0 :: (jt ++ [T]), 0 :: cumsum w, 0 :: (jv ++ [lastD 0 jv])⟩

def jumpTimesDirect (T : Rat) (Is : List Interval) (w : List Rat) : PathOut :=
  assemble T (jumpTimes Is) (jumpValsDirect Is) w
def jumpTimesCtmc (T : Rat) (Is : List Interval) (w : List Rat) : PathOut :=
  assemble T (jumpTimes Is) (jumpValsCtmc Is) w

/-! ### insertion of ε-steps (levyprocess.py:271-298, coupling/helper.py:8-43)

The loop works on `aug_dts` (gaps) and on one or two value arrays with the same positions.  A state of the loop is the
list of `(gap, value)` pairs; the value type `α` is `Rat` (one path), `Rat × Rat` (fine, coarse) — `z` is the value the
code writes before position 0 (`np.where(positions == 0, 0, …)`). -/

variable {α : Type}

/-- `any(aug_dts > epsilon)`, i.e. `positions.size > 0` -/
def anyGt (ε : Rat) : List (Rat × α) → Bool
  | [] => false
  | p :: r => decide (ε < p.1) || anyGt ε r

/-- one pass of the `while` body: at every position with `dts > ε`: `dts -= ε`, `np.insert(dts, pos, ε)`,
    `np.insert(values, pos, values[pos-1])` (`prev` = the value before the current position, `z` before position 0) -/
def pass (ε : Rat) : α → List (Rat × α) → List (Rat × α)
  | _, [] => []
  | prev, p :: r => if ε < p.1 then (ε, prev) :: (p.1 - ε, p.2) :: pass ε p.2 r else p :: pass ε p.2 r

/-- the `while positions.size > 0` loop, with an explicit bound on the number of passes -/
def finerLoop (ε : Rat) (z : α) : Nat → List (Rat × α) → List (Rat × α)
  | 0, l => l
  | n + 1, l => if anyGt ε l then finerLoop ε z n (pass ε z l) else l

/-- number of ε-steps still to be inserted in a gap `d`: `⌈d/ε⌉ - 1` (0 when `d ≤ ε`) -/
def need (ε d : Rat) : Nat := ((d / ε).ceil - 1).toNat

/-- **the measure of the loop**: total number of insertions still to do; it bounds the number of passes -/
def remaining (ε : Rat) : List (Rat × α) → Nat
  | [] => 0
  | p :: r => need ε p.1 + remaining ε r

/-- the loop run to completion -/
def finer (ε : Rat) (z : α) (l : List (Rat × α)) : List (Rat × α) := finerLoop ε z (remaining ε l) l

/-- what the loop computes, gap by gap (specification): every gap `d` carrying value `v` becomes `need ε d` steps of
    length ε carrying the preceding value, followed by the remainder `d - need·ε` carrying `v` -/
def block (ε : Rat) (prev : α) (p : Rat × α) : List (Rat × α) :=
  List.replicate (need ε p.1) (ε, prev) ++ [(p.1 - need ε p.1 * ε, p.2)]

def finerSpec (ε : Rat) : α → List (Rat × α) → List (Rat × α)
  | _, [] => []
  | prev, p :: r => block ε prev p ++ finerSpec ε p.2 r

/-- the same with a ghost flag `true` on the inserted points (used to state what is kept and what is inserted) -/
def blockF (ε : Rat) (prev : α) (p : Rat × α) : List (Rat × α × Bool) :=
  List.replicate (need ε p.1) (ε, prev, true) ++ [(p.1 - need ε p.1 * ε, p.2, false)]

def finerSpecF (ε : Rat) : α → List (Rat × α) → List (Rat × α × Bool)
  | _, [] => []
  | prev, p :: r => blockF ε prev p ++ finerSpecF ε p.2 r

/-- (time, value) points of a gap list, times accumulated from `acc` -/
def points (acc : Rat) : List (Rat × α) → List (Rat × α)
  | [] => []
  | p :: r => (acc + p.1, p.2) :: points (acc + p.1) r

def pointsF (acc : Rat) : List (Rat × α × Bool) → List (Rat × α × Bool)
  | [] => []
  | p :: r => (acc + p.1, p.2) :: pointsF (acc + p.1) r

/-- gap list of a (jump times, values) pair: `dts = np.diff(jump_times, prepend=0)` zipped with the values -/
def toGaps (jt : List Rat) (jv : List α) : List (Rat × α) := List.zip (diffsFrom 0 jt) jv

/-- `_build_finer_grid`: the loop, then `(np.cumsum(aug_dts), aug_values)`; `build_finer_grid(jump_times, values)` as coded (levyprocess.py:272-298): the identity when `ε ≥ maturity`, else the
    loop; returns `(np.cumsum(aug_dts), aug_values)` -/
def capAll (ε : Rat) (z : α) (jt : List Rat) (jv : List α) : List Rat × List α :=
  let g := finer ε z (toGaps jt jv)
  (cumsum (g.map (fun p => p.1)), g.map (fun p => p.2))

def buildFiner (ε T : Rat) (z : α) (jt : List Rat) (jv : List α) : List Rat × List α :=
  if T ≤ ε then (jt, jv) else capAll ε z jt jv

/-- `SimulationMaximumStep.simulate_one_path` as coded: the cap is applied to the jump times only, *then* 0 and the
    maturity are added: the gap between the last jump and the maturity — the whole path when there is no jump — is never
    capped (DESIGN §3.1 #18) -/
def maxStepCode (ε T : Rat) (jt jv w : List Rat) : PathOut :=
  if jt.isEmpty then assemble T jt jv w
  else
    let r := buildFiner ε T 0 jt jv
    assemble T r.1 r.2 w

/-- as specified: the maturity is part of the grid that is capped (the final point repeats the last value) -/
def maxStepSpec (ε T : Rat) (jt jv w : List Rat) : PathOut :=
  let r := capAll ε 0 (jt ++ [T]) (jv ++ [lastD 0 jv])
  ⟨0 :: r.1, 0 :: cumsum w, 0 :: r.2⟩

/-! ### coupled pair: fine and coarse values on shared times (couplingmarkovchain.py:261-277, 328-352) -/

structure PairOut where
  times : List Rat
  fine : List Rat
  coarse : List Rat
  deriving Repr, DecidableEq

/-- `CouplingSimulationMaximumStep`: one loop on the gaps with both value arrays (helper.py), then 0 / maturity added -/
def maxStepPair (ε T : Rat) (jt : List Rat) (jf jc : List Rat) : PairOut :=
  let r := if jt.isEmpty then (jt, List.zip jf jc) else buildFiner ε T ((0 : Rat), (0 : Rat)) jt (List.zip jf jc)
  let f := r.2.map (fun p => p.1)
  let c := r.2.map (fun p => p.2)
  ⟨0 :: (r.1 ++ [T]), 0 :: (f ++ [lastD 0 f]), 0 :: (c ++ [lastD 0 c])⟩

/-! ### the coupled Lévy-copula simulator: d coordinates, fine and coarse (couplinglevycopula.py:238-412)

The returned arrays have shape `(2, d, n)`: leading axis fine / coarse (`PT.FP`, `PT.CP`), then the coordinate, then the
time index.  A column (all d coordinates at one time) is a vector `V = Nat → Rat` used on `0..d-1`; the model works on
lists of columns exactly as the code works on the last axis (`np.cumsum(…, axis=0)` of the `(n_k, d)` slice values,
`np.concatenate(…).T`, `np.insert(…, axis=-1)`), and is generic in the value type where the code is. -/

abbrev V := Nat → Rat
def vzero : V := fun _ => 0
def vadd (a b : V) : V := fun c => a c + b c

/-- `np.cumsum(values, axis=0)` of a list of d-vectors continued from `acc` (`current_value += …` for the coarse
    values, couplinglevycopula.py:226-230) -/
def vcumsumFrom (acc : V) : List V → List V
  | [] => []
  | x :: r => vadd acc x :: vcumsumFrom (vadd acc x) r

def vcumsum (l : List V) : List V := vcumsumFrom vzero l

/-- `StochasticJumpPath(times, diff, jumps)` with `diff`, `jumps` of shape `(2, d, n)`, as lists of columns -/
structure PairOutV where
  times : List Rat
  diffF : List V
  diffC : List V
  fine : List V
  coarse : List V

/-- `CouplingLevyCopulaSimulationFixedTimes` (couplinglevycopula.py:238-283): column `k+1` is the *last* cumulative
    value of slice `k` (0 for an empty slice) — per-interval sums, for the fine and for the coarse values; the diffusion
    parts are cumulative (`np.cumsum(sqrt_dts * (D @ Z), axis=1)`, `wF`, `wC` = the scaled columns) -/
def fixedDatesCopulaPair (dates : List Rat) (incsF incsC : List (List V)) (wF wC : List V) : PairOutV :=
  ⟨dates, vzero :: vcumsum wF, vzero :: vcumsum wC,
   vzero :: incsF.map (fun s => lastD vzero (vcumsum s)), vzero :: incsC.map (fun s => lastD vzero (vcumsum s))⟩

/-- `np.concatenate(per-interval cumulative values).T` (couplinglevycopula.py:312-328): restarts at 0 at every
    product date, like `jumpValsCtmc` -/
def jumpValsCopula (ss : List (List V)) : List V := ss.flatMap vcumsum

/-- `[0] ++ jump_times ++ [maturity]`, zero column ++ values ++ final column, for both components
    (couplinglevycopula.py:335-383) -/
def assembleV (T : Rat) (jt : List Rat) (jf jc wF wC : List V) : PairOutV :=
  ⟨0 :: (jt ++ [T]), vzero :: vcumsum wF, vzero :: vcumsum wC,
   vzero :: (jf ++ [lastD vzero jf]), vzero :: (jc ++ [lastD vzero jc])⟩

/-- `CouplingLevyCopulaSimulationWithJumpTimes`: the intervals `Is` give the jump times (their own sizes are not
    used), `sF`, `sC` the fine / coarse state increments of each interval as d-vectors -/
def jumpTimesCopulaPair (T : Rat) (Is : List Interval) (sF sC : List (List V)) (wF wC : List V) : PairOutV :=
  assembleV T (jumpTimes Is) (jumpValsCopula sF) (jumpValsCopula sC) wF wC

/-- the (times, fine, coarse) triple of a coupled maximum-step simulation, generic in the value type -/
structure PairOutG (β : Type) where
  times : List Rat
  fine : List β
  coarse : List β

/-- `maxStepPair` for any value type (`z` = the zero column): one loop on the gaps with both value arrays (helper.py),
    then 0 / maturity and the zero / final columns added -/
def maxStepPairG {β : Type} (z : β) (ε T : Rat) (jt : List Rat) (jf jc : List β) : PairOutG β :=
  let r := if jt.isEmpty then (jt, List.zip jf jc) else buildFiner ε T (z, z) jt (List.zip jf jc)
  let f := r.2.map (fun p => p.1)
  let c := r.2.map (fun p => p.2)
  ⟨0 :: (r.1 ++ [T]), z :: (f ++ [lastD z f]), z :: (c ++ [lastD z c])⟩

/-- `CouplingLevyCopulaSimulationMaximumStep` (couplinglevycopula.py:386-412) -/
def maxStepCopulaPair (ε T : Rat) (jt : List Rat) (jf jc wF wC : List V) : PairOutV :=
  let p := maxStepPairG vzero ε T jt jf jc
  ⟨p.times, vzero :: vcumsum wF, vzero :: vcumsum wC, p.fine, p.coarse⟩

/-- coordinate `c` of a list of columns: row `c` of the `(d, n)` array -/
def coord (c : Nat) (l : List V) : List Rat := l.map (fun v => v c)

/-- coordinate `c` of the per-interval state increments -/
def coordSlices (c : Nat) (ss : List (List V)) : List (List Rat) := ss.map (coord c)

/-! ### deciders of the exact domains on which the code satisfies the full statements (theorems
`fixedDates_code_eq_spec_iff`, `jumpValsCtmc_eq_direct_iff` of Proofs/C15.lean) -/

/-- every entry except possibly the last is 0 -/
def zeroButLast : List Rat → Bool
  | [] => true
  | [_] => true
  | x :: y :: r => decide (x = 0) && zeroButLast (y :: r)

/-- fixed dates: every product interval except possibly the last has zero jump sum -/
def allZeroButLast (incs : List (List Rat)) : Bool := zeroButLast (incs.map sumL)

/-- jump-time mode, CTMC: every interval that has a jump starts with a zero carried total (`acc` = the sum of all
    earlier jump sizes) -/
def restartFreeB : Rat → List (List Rat) → Bool
  | _, [] => true
  | acc, s :: r => (s.isEmpty || decide (acc = 0)) && restartFreeB (acc + sumL s) r

end Rpylib.Path
