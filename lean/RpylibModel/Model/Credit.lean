/-
Model of the credit closed forms of the Garreau-Kercheval framework and of what they are benchmarked against
(property C19).  Mathlib-free, executable.

Anchors
  rpylib/numerical/closedform/cflevymodel.py:19-21     CFLevyModel._theta = model.mass(*interval_I(a)) = nu(-inf, a]
  rpylib/numerical/closedform/cflevymodel.py:23-76     survival probability, CDS spread, implied threshold / spread
  rpylib/numerical/closedform/cflevycopula.py:19-52    CFLevyCopulaModel._theta: np.sum of the upper-triangular matrix
                                                       (diagonal nu_i(-inf,a_i], entry (i,j) = -U_ij(a_i,a_j)), minus the
                                                       full tail integral U_123(a) when dim = 3
  rpylib/numerical/closedform/cflevycopula.py:54-92    survival probability, first-to-default par spread, implied spread
  rpylib/model/levycopulamodel.py:292-325              tail integrals are *signed*: U_I(x) = prod sgn(x_i) * nu(prod I(x_i));
                                                       for negative thresholds U_ij >= 0 and U_123 <= 0
  rpylib/model/levymodel/levymodel.py:124-127,152-156  TruncatedLevyMeasure.integrate clips to [l, r]
  rpylib/grid/spatial.py:316-357                       credit axis (modelled in Model/Grid.lean: `creditAxis`, `creditEps`)
  rpylib/product/underlying.py:363-499                 default times: first jump below the threshold
  rpylib/product/payoff.py:351-388                     CDS payoff of one path
  rpylib/distribution/samplingfactory.py:59-70,161-166 rates of the chain states (Model/Cells.lean: `rate`, `rateNd`)

`exp` is not computable over ℚ: every function that needs it takes the value `E = exp(-(r+θ)T)` (or the function `expf`
itself) as an argument; theorems take the few laws they need of `expf` as hypotheses.
-/
import RpylibModel.Model.Cells

namespace Rpylib.Credit
open Rpylib.Grid Rpylib.Cells

/-! ### θ in one dimension (cflevymodel.py:19-21) -/

/-- `CFLevyModel._theta(a)`: `low a` stands for `model.mass(-inf, a)` (`interval_I(a)` for `a < 0`) -/
def theta1 (low : Rat → Rat) (a : Rat) : Rat := low a

/-- `TruncatedLevyMeasure.integrate(-inf, a)` with truncations `(l, r)`:
    `_truncated_interval(-inf, a) = (max(min(-inf, r), l), min(max(a, l), r)) = (l, min(max(a, l), r))` -/
def truncLow (l r : Rat) (m : Rat → Rat → Rat) (a : Rat) : Rat := m l (min (max a l) r)

/-- the lower-orthant mass of the measure the 1-d chain works with (`chainMass` of Cells.lean) -/
def chainLow (ax : List Rat) (m : Rat → Rat → Rat) : Rat → Rat :=
  truncLow (pt ax 0) (pt ax (ax.length - 1)) m

/-! ### θ for a Lévy copula model (cflevycopula.py:19-52) -/

/-- what `_theta` reads from the model:
    `low i a`        = `models[i].mass(-inf, a)`,
    `pair i j a b`   = `margin_tail_integral(indices=[i, j], x=(a, b))`  (signed tail integral of the (i,j)-margin),
    `triple a b c`   = `tail_integrals(x=(a, b, c))`                      (signed tail integral, d = 3) -/
structure TailFamily where
  low : Nat → Rat → Rat
  pair : Nat → Nat → Rat → Rat → Rat
  triple : Rat → Rat → Rat → Rat

/-- entry (i, j) of `lambda_matrix`: `np.diag(diag)` overwritten above the diagonal by `-marginal_tail_integral` -/
def lambdaEntry (F : TailFamily) (as : List Rat) (i j : Nat) : Rat :=
  if i = j then F.low i (as.getD i 0)
  else if i < j then -(F.pair i j (as.getD i 0) (as.getD j 0))
  else 0

/-- `np.sum(lambda_matrix)` -/
def lambdaSum (F : TailFamily) (as : List Rat) (dim : Nat) : Rat :=
  ((List.range dim).map (fun i => ((List.range dim).map (lambdaEntry F as i)).sum)).sum

inductive ThetaErr where
  | notImplemented      -- dim > 3
  | levelCount          -- dim != len(levels_a)
  | nonNegativeLevel    -- any(a >= 0)
  deriving Repr, DecidableEq

/-- `CFLevyCopulaModel._theta(levels_a)` for a model of dimension `dim` -/
def thetaCopula (F : TailFamily) (dim : Nat) (as : List Rat) : Except ThetaErr Rat :=
  if dim > 3 then .error .notImplemented
  else if dim ≠ as.length then .error .levelCount
  else if as.any (fun a => decide (0 ≤ a)) then .error .nonNegativeLevel
  else .ok (lambdaSum F as dim -
    (if dim = 3 then F.triple (as.getD 0 0) (as.getD 1 0) (as.getD 2 0) else 0))

/-- the coded value for d = 2, written out: `d_i` diagonal entries, `u12` the (signed) pair tail integral -/
def theta2 (d1 d2 u12 : Rat) : Rat := d1 + d2 - u12

/-- the coded value for d = 3, written out; `u123` is the *signed* full tail integral (≤ 0 at negative thresholds),
    `theta -= tail_integrals(levels_a)` -/
def theta3 (d1 d2 d3 u12 u13 u23 u123 : Rat) : Rat := d1 + d2 + d3 - u12 - u13 - u23 - u123

/-- a family given by finite tables (driver input: values measured on the implementation) -/
def tableFamily (lows : List Rat) (pairs : List (Nat × Nat × Rat)) (triple : Rat) : TailFamily where
  low := fun i _ => lows.getD i 0
  pair := fun i j _ _ =>
    match pairs.find? (fun t => t.1 == i && t.2.1 == j) with
    | some t => t.2.2
    | none => 0
  triple := fun _ _ _ => triple

/-! ### the closed form of the model restricted to the grid's truncation box -/

/-- the truncation box `[axis[0], axis[-1]]` per axis (`grid.truncations`) -/
def truncBox (axes : List (List Rat)) : Box := axes.map (fun ax => (pt ax 0, pt ax (ax.length - 1)))

/-- replace the upper end of side `i` of a box by `a`: the default half-space `x_i ≤ a` intersected with the box -/
def setHi (box : Box) (i : Nat) (a : Rat) : Box := box.set i ((box.getD i (0, 0)).1, a)

/-- what `_theta` would read from the measure `m` restricted to `box`, at negative thresholds: the diagonal is a mass
    (`model.mass`), the pair tail integral carries the sign (−)(−) = +, the triple one the sign (−)(−)(−) = −
    (sign convention of `levycopulamodel.py:292-325`) -/
def boxFamily (m : Box → Rat) (box : Box) : TailFamily where
  low := fun i a => m (setHi box i a)
  pair := fun i j a b => m (setHi (setHi box i a) j b)
  triple := fun a b c => -(m (setHi (setHi (setHi box 0 a) 1 b) 2 c))

/-- "the closed-form default intensity of the model restricted to the grid's truncation": the coded formula applied
    to the tail integrals of the restricted measure -/
def thetaClipped (m : Box → Rat) (axes : List (List Rat)) (as : List Rat) : Except ThetaErr Rat :=
  thetaCopula (boxFamily m (truncBox axes)) axes.length as

/-! ### the default region of the chain -/

/-- the state with coordinates `cs` has at least one coordinate value below its threshold
    (`log_jump_ratio < a`, underlying.py:390,421: the jump of the chain from the origin *is* the state value) -/
def isDefault (axes : List (List Rat)) (as : List Rat) (cs : List Nat) : Bool :=
  ((axes.zip cs).zip as).any (fun p => decide (pt p.1.1 p.1.2 < p.2))

/-- total rate of the chain states in the default region, n-d (`model.mass` of the cells, Cells.lean `rateNd`) -/
def defaultRegionRate (mid : Rat → Rat → Rat) (axes : List (List Rat)) (o : Nat) (m : Box → Rat) (as : List Rat) : Rat :=
  (((states axes).filter (isDefault axes as)).map (rateNd mid axes o m)).sum

/-- total rate of the chain states below the threshold, 1-d (`create_q_vector` entries, Cells.lean `rate`) -/
def defaultRegionRate1d (mid : Rat → Rat → Rat) (ax : List Rat) (o : Nat) (m : Rat → Rat → Rat) (a : Rat) : Rat :=
  (((List.range ax.length).filter (fun k => decide (pt ax k < a))).map (rate mid ax o m)).sum

/-! ### survival probability, spreads (cflevymodel.py:23-76, cflevycopula.py:54-92) -/

/-- `np.exp(-t * theta)` -/
def survival (expf : Rat → Rat) (theta t : Rat) : Rat := expf (-t * theta)

/-- `cds_spread` / `first_to_default_par_spread`: `(1 - recovery_rate) * theta` -/
def parSpread (theta R : Rat) : Rat := (1 - R) * theta

/-- `np.exp(-(r + theta) * maturity)` -/
def discount (expf : Rat → Rat) (theta r T : Rat) : Rat := expf (-(r + theta) * T)

/-- `default_leg`, with `E = exp(-(r+theta) T)` -/
def defaultLeg (E theta r R : Rat) : Rat := (1 - R) * (1 - E) * theta / (r + theta)

/-- `fixed_leg` (per unit of spread) -/
def fixedLeg (E theta r : Rat) : Rat := (1 - E) / (r + theta)

/-- present value of the CDS (per unit notional) at running spread `s`: `default_leg - s * fixed_leg` -/
def presentValue (E theta r R s : Rat) : Rat := defaultLeg E theta r R - s * fixedLeg E theta r

/-- `fun(spread) = default_leg - spread * fixed_leg - pv`, the function handed to `brentq` -/
def spreadResidual (E theta r R pv s : Rat) : Rat := presentValue E theta r R s - pv

/-- `implied_cds_spread`: the root of the affine `fun` on the bracket `[lo, hi]` (`(-5, 10)` in cflevymodel.py:69,
    `(-10, 10)` in cflevycopula.py:86); `brentq` raises ValueError when `fun(lo)`, `fun(hi)` have the same strict sign -/
def impliedSpread (E theta r R pv lo hi : Rat) : Option Rat :=
  if 0 < spreadResidual E theta r R pv lo * spreadResidual E theta r R pv hi then none
  else some ((defaultLeg E theta r R - pv) / fixedLeg E theta r)

/-- `fun(threshold) = cds_spread(threshold) - cds_spread_target`, the function handed to `brentq` on `[-10, -h0]` -/
def thresholdResidual (low : Rat → Rat) (R s a : Rat) : Rat := parSpread (theta1 low a) R - s

/-- contract of `implied_cds_threshold`: `a` is a root of the residual inside the bracket `[-10, -h0]` -/
def IsImpliedThreshold (low : Rat → Rat) (R s h0 a : Rat) : Prop :=
  -10 ≤ a ∧ a ≤ -h0 ∧ thresholdResidual low R s a = 0

/-! ### default times (underlying.py:363-499) and the CDS payoff of one path (payoff.py:351-388) -/

/-- `np.diff(jump_path)` -/
def diffs : List Rat → List Rat
  | x :: y :: rest => (y - x) :: diffs (y :: rest)
  | _ => []

/-- index of the first increment `< a` (`np.min(np.argwhere(log_jump_ratio < a))`), if any -/
def firstBelow (a : Rat) : List Rat → Option Nat
  | [] => none
  | d :: rest => if d < a then some 0 else (firstBelow a rest).map (· + 1)

/-- `DefaultTime._value_log`: `times[idx + 1]` of the first log-jump below the threshold, `none` = `np.inf` -/
def defaultTime (times path : List Rat) (a : Rat) : Option Rat :=
  (firstBelow a (diffs path)).map (fun k => times.getD (k + 1) 0)

/-- `_DefaultTimes._value_log`: one default time per coordinate -/
def defaultTimes (times : List Rat) (paths : List (List Rat)) (as : List Rat) : List (Option Rat) :=
  (paths.zip as).map (fun p => defaultTime times p.1 p.2)

/-- minimum with `none` = +∞ -/
def minOpt : Option Rat → Option Rat → Option Rat
  | none, y => y
  | x, none => x
  | some x, some y => some (min x y)

/-- `NthDefaultTimes(index=1)`: the first default among the names -/
def firstToDefault (times : List Rat) (paths : List (List Rat)) (as : List Rat) : Option Rat :=
  (defaultTimes times paths as).foldl minOpt none

/-- `CDS.evaluate(default_time)`; `tau = none` is `np.inf`; the discounting function enters through its values
    `dfTau = df(tau)`, `dfMin = df(min(T, tau))`, `dfT = df(T)` and `r = -log(df(1))` -/
def cdsPayoff (R s r T dfT : Rat) (tau : Option Rat) (dfTau dfMin : Rat) : Rat :=
  let defaultLeg := match tau with
    | none => 0
    | some t => if T < t then 0 else (1 - R) * dfTau
  let fixedLeg := s * (1 - dfMin) / r
  defaultLeg / dfT - fixedLeg / dfT

/-! ### the legs and the payoff of one path over an arbitrary field

The same formulas as `defaultLeg` / `fixedLeg` / `presentValue` / `cdsPayoff` above, written for any carrier so that
Proofs/Lemmas/C19Legs.lean can instantiate them at ℝ with the real exponential (cflevymodel.py:58-65,
cflevycopula.py:73-80, payoff.py:379-390).  At ℚ they are the definitions above (`defaultLeg_eq_F` … in Proofs/C19.lean). -/
section generic
variable {α : Type} [Add α] [Sub α] [Mul α] [Div α] [OfNat α 0] [OfNat α 1]

def defaultLegF (E theta r R : α) : α := (1 - R) * (1 - E) * theta / (r + theta)

def fixedLegF (E theta r : α) : α := (1 - E) / (r + theta)

def presentValueF (E theta r R s : α) : α := defaultLegF E theta r R - s * fixedLegF E theta r

/-- `CDS.evaluate(t)` for a default at `t ≤ T`: both legs read the discount factor at `t` (`dfTau = df(t) = df(min(T,t))`) -/
def cdsDefaultedF (R s r dfT dfTau : α) : α := (1 - R) * dfTau / dfT - s * (1 - dfTau) / r / dfT

/-- `CDS.evaluate(t)` for `t > T` or `np.inf`: no protection payment, the premium runs until `T` (`df(min(T,t)) = df(T)`) -/
def cdsSurvivedF (s r dfT : α) : α := 0 / dfT - s * (1 - dfT) / r / dfT

end generic

end Rpylib.Credit
