/-
Model of rpylib/grid/spatial.py (CTMCGrid and its constructors) and rpylib/grid/grid.py (coordinates).
Mathlib-free, executable.  Anchors: spatial.py:35-48 (constructor), 63-108 (left_point/right_point/middle),
110-120 (refine), 161-186 (fixed-size uniform), 316-357 (credit axes).

An axis is a `List Rat`.  `mid` is the grid's own cell-boundary function (`CTMCGrid.middle`): the arithmetic
mean for every grid except `CTMCGridProbabilityStep`, whose `middle` is a probability median found by a root
search; theorems are proved for an arbitrary `mid` that lies strictly between its arguments.
-/
namespace Rpylib.Grid

/-- `CTMCGrid.middle` for floats: `0.5 * (xi + xip)` -/
def amid (a b : Rat) : Rat := (a + b) / 2

/-- `CTMCGrid.refine` on one axis: `np.insert(axis, 2k+1, middle(x_k, x_{k+1}))` for every k. -/
def refine (mid : Rat → Rat → Rat) : List Rat → List Rat
  | [] => []
  | [x] => [x]
  | x :: y :: rest => x :: mid x y :: refine mid (y :: rest)

def refineN (mid : Rat → Rat → Rat) : Nat → List Rat → List Rat
  | 0, xs => xs
  | k + 1, xs => refineN mid k (refine mid xs)

/-- strictly increasing, by adjacent pairs -/
def StrictInc : List Rat → Prop
  | [] => True
  | [_] => True
  | x :: y :: rest => x < y ∧ StrictInc (y :: rest)

instance : (xs : List Rat) → Decidable (StrictInc xs)
  | [] => isTrue trivial
  | [_] => isTrue trivial
  | x :: y :: rest =>
    match (inferInstance : Decidable (x < y)), instDecidableStrictInc (y :: rest) with
    | isTrue h1, isTrue h2 => isTrue ⟨h1, h2⟩
    | isFalse h1, _ => isFalse (fun h => h1 h.1)
    | _, isFalse h2 => isFalse (fun h => h2 h.2)

/-- the mutable part of a `CTMCGrid` -/
structure Grid where
  axes : List (List Rat)
  h : Rat
  origin : Nat            -- the same origin coordinate on every axis (spatial.py:45-47)
  deriving Repr

/-- `truncations = [(axis[0], axis[-1]) for axis in axes]`; computed once in the constructor -/
def truncation (axis : List Rat) : Option (Rat × Rat) :=
  match axis.head?, axis.getLast? with
  | some a, some b => some (a, b)
  | _, _ => none

def Grid.refine (mid : Rat → Rat → Rat) (g : Grid) : Grid :=
  { axes := g.axes.map (Rpylib.Grid.refine mid), h := g.h / 2, origin := g.origin * 2 }

def Grid.refineN (mid : Rat → Rat → Rat) : Nat → Grid → Grid
  | 0, g => g
  | k + 1, g => Grid.refineN mid k (g.refine mid)

/-- `left_point` / `right_point` (clamped neighbours) as values -/
def leftPoint (axis : List Rat) (k : Nat) : Rat := axis.getD (k - 1) 0
def rightPoint (axis : List Rat) (k : Nat) : Rat := axis.getD (min (axis.length - 1) (k + 1)) 0

/-- `CTMCUniformGrid.create_from_fixed_nb_of_points(h, nb_of_points)` : one axis
    `[-m h, …, -h, 0, h, …, m h]`, `m = nb_of_points // 2`, origin at `m`. -/
def uniformFixedAxis (h : Rat) (nb : Nat) : List Rat :=
  let m := nb / 2
  (List.range m).map (fun i => -(((m - i : Nat) : Rat) * h)) ++ [0] ++
    (List.range m).map (fun i => ((i + 1 : Nat) : Rat) * h)

def uniformFixed (h : Rat) (nb dim : Nat) : Grid :=
  { axes := List.replicate dim (uniformFixedAxis h nb), h := h, origin := nb / 2 }

/-- `eps = min(abs(l - a)/2, abs(a + h)/2)` (spatial.py:337, 342) -/
def rabs (x : Rat) : Rat := if x < 0 then -x else x
def creditEps (l a h : Rat) : Rat := min (rabs (l - a) / 2) (rabs (a + h) / 2)

/-- credit axis (spatial.py:338, 345-347); `sym` selects the 9-point symmetric variant of the n-d branch -/
def creditAxis (l a h r : Rat) (sym : Bool) : List Rat :=
  let e := creditEps l a h
  if sym then [l, a - e, a + e, -h, 0, h, -a - e, -a + e, r] else [l, a - e, a + e, -h, 0, h, r]

end Rpylib.Grid
