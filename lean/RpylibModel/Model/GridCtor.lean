/-
Model of the root-searched uniform constructor `CTMCUniformGrid.__init__` (rpylib/grid/spatial.py:134-164) *after* the
truncation bounds `(l, r) = compute_truncation(...)` are known, and of `numpy.linspace` as that constructor uses it.
Mathlib-free, executable.  Mirrors the code as it is (faults included):

    nb_of_points_left  = int(abs(l) / h)                                   spatial.py:151
    nb_of_points_right = int(r / h)                                        spatial.py:152
    if nb_of_points_left + nb_of_points_right > 1e8: raise ValueError      spatial.py:153-157
    axis_left  = np.linspace(start=l, stop=-h, num=nb_of_points_left)      spatial.py:158
    axis_right = np.linspace(start=h, stop=r,  num=nb_of_points_right)     spatial.py:159
    axis = np.concatenate((axis_left, [0.0], axis_right))                  spatial.py:160
    pivot_position = axis_left.size                                        spatial.py:161
    CTMCGrid(h, pivot_position, [axis] * model.dimension_model())          spatial.py:162-164

`numpy.linspace(start, stop, num)` (endpoint=True; numpy/_core/function_base.py): `div = num - 1`,
`step = (stop - start) / div`, `y = arange(num) * step + start`, and `y[-1] = stop` when `num > 1`; `num = 1` gives
`[start]` (the `stop` argument is ignored), `num = 0` gives `[]`, `num < 0` raises ValueError.
Floats are modelled by exact rationals: `int(abs(l) / h)` is the exact floor of the exact quotient.
`numpy.geomspace` goes through `log10`/`10**` and is not modelled (compared only, harness/props/c13.py).
-/
import RpylibModel.Model.Grid

namespace Rpylib.Grid

deriving instance DecidableEq for Grid

/-- Python `int(x)` of a real: truncation toward zero -/
def pyInt (q : Rat) : Int := if q < 0 then -((-q).floor) else q.floor

/-- `numpy.linspace(start, stop, num)` for `num ≥ 0` -/
def linspace (start stop : Rat) : Nat → List Rat
  | 0 => []
  | 1 => [start]
  | n + 2 =>
    (List.range (n + 1)).map (fun (k : Nat) => start + (k : Rat) * ((stop - start) / ((n + 1 : Nat) : Rat))) ++ [stop]

/-- the axis assembled from the two half axes (spatial.py:158-160) for given point counts -/
def uniformAxisN (l r h : Rat) (nL nR : Nat) : List Rat :=
  linspace l (-h) nL ++ [0] ++ linspace h r nR

/-- the two point counts (spatial.py:151-152) -/
def uniformCountL (l h : Rat) : Int := pyInt (rabs l / h)
def uniformCountR (r h : Rat) : Int := pyInt (r / h)

/-- `CTMCUniformGrid(h, model, truncation_probability)` once `compute_truncation` has returned `(l, r)`;
    `dim = model.dimension_model()`.  `none` = the constructor raises (division by `h = 0`, more than 1e8 points,
    a negative `num` passed to `np.linspace`). -/
def uniformCtor (l r h : Rat) (dim : Nat) : Option Grid :=
  if h = 0 then none
  else if uniformCountL l h + uniformCountR r h > 100000000 then none
  else if uniformCountL l h < 0 ∨ uniformCountR r h < 0 then none
  else some { axes := List.replicate dim (uniformAxisN l r h (uniformCountL l h).toNat (uniformCountR r h).toNat),
              h := h, origin := (uniformCountL l h).toNat }

end Rpylib.Grid
