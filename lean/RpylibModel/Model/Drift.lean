/-
Model of the drift compensation of the approximating Markov chain (property C04).  Mathlib-free, executable.

Anchors
  rpylib/process/markovchain/markovchain.py:27-41     vol_adjustment (small jumps -> Brownian motion, infinite variation only)
  rpylib/process/markovchain/markovchain.py:44-67     compute_mu_h (its own running cell boundary; neighbours from the walked axis)
  rpylib/process/markovchain/markovchain.py:96-119    constructor: truncate, then convert to the tilde representation,
                                                      equivalent_diffusion_coefficient = sqrt(sigma^2 + vol_adj^2)
  rpylib/process/markovchain/markovchain.py:137-160   initialisation: _process_drift = drift() + a + mu_tilde - mu_h
  rpylib/process/markovchain/markovchainlevycopula.py:131-167  the same per margin (compute_mu_h per axis)
  rpylib/process/markovchain/markovchainlevycopula.py:170-199  variance matrix  adj @ adj.T + diag(sigma^2)
  rpylib/model/levymodel/levymodel.py:124-174         TruncatedLevyMeasure (integrate, integrate_against_x/xx clip the interval)

The Lévy measure enters through its interval masses `m a b` (`integrate`), first moments `m1 a b` (`integrate_against_x`)
and second moments `m2 a b` (`integrate_against_xx`) of the *untruncated* measure; the truncation to the grid's
`[axis[0], axis[-1]]` is the model's (`Cells.truncate`).  The drift `aTilde` of the truncated triplet in the tilde
representation is an input (its computation is `LevyTriplet.set_representation`, property C10).
-/
import RpylibModel.Model.Cells

namespace Rpylib.Drift
open Rpylib.Grid Rpylib.Cells

/-! ### `compute_mu_h` -/

/-- one turn of the loop `for position, xi in enumerate(axis)`; state = (mid_point_left, mu_h).
    `ax0` is the axis the neighbours of a state are read from, `axis` the axis being walked.  Since /repo d8e9df9
    (`axis[min(last, position + 1)]`, `middle(axis[origin], axis[origin + 1])`, markovchain.py:56-65) the code is the instance
    `ax0 = axis` for the 1-d chain and for every margin of a copula chain; before it, `grid.left_point(k)` /
    `grid.right_point(k)` with an `int` argument read `grid.axes[0]`, i.e. `ax0 = axes[0]` whatever axis was walked (the
    two differ only for a copula grid whose axes differ: negation witness `muH_first_axis_neighbours_differ`). -/
def muHStep (mid : Rat → Rat → Rat) (ax0 axis : List Rat) (o : Nat) (m : Rat → Rat → Rat) (st : Rat × Rat) (p : Nat) :
    Rat × Rat :=
  if p ≠ o then
    let r := mid (pt axis p) (rightPoint ax0 p)                   -- mid_point_right = middle(xi, right_point(position))
    (r, st.2 + pt axis p * m st.1 r)                              -- mu_h += xi * integral(mid_point_left, mid_point_right)
  else
    (mid (leftPoint ax0 (o + 1)) (pt axis (o + 1)), st.2)         -- mid_point_left = middle(left_point(origin+1), axis[origin+1])

/-- the loop after the first p positions; starts from `middle(grid.left_point(0), axis[0])`, `mu_h = 0` -/
def muHState (mid : Rat → Rat → Rat) (ax0 axis : List Rat) (o : Nat) (m : Rat → Rat → Rat) (p : Nat) : Rat × Rat :=
  (List.range p).foldl (muHStep mid ax0 axis o m) (mid (leftPoint ax0 0) (pt axis 0), 0)

/-- `compute_mu_h(levy_measure, grid, axis, origin)` -/
def muH (mid : Rat → Rat → Rat) (ax0 axis : List Rat) (o : Nat) (m : Rat → Rat → Rat) : Rat :=
  (muHState mid ax0 axis o m axis.length).2

/-- the cell boundaries `compute_mu_h` hands to `integral`, position by position (`none` at the origin) -/
def muHCells (mid : Rat → Rat → Rat) (ax0 axis : List Rat) (o : Nat) (m : Rat → Rat → Rat) : List (Option (Rat × Rat)) :=
  (List.range axis.length).map (fun p =>
    if p ≠ o then some ((muHState mid ax0 axis o m p).1, mid (pt axis p) (rightPoint ax0 p)) else none)

/-! ### `mu_tilde`, the process drift -/

/-- `TruncatedLevyMeasure._truncated_interval(-inf, b)` and `(a, +inf)` -/
def truncLeftTail (l r b : Rat) : Rat × Rat := (l, min (max b l) r)
def truncRightTail (l r a : Rat) : Rat × Rat := (max (min a r) l, r)

/-- `v = 0.0 if jump_of_finite_variation() else 1.0` -/
def vOf (finiteVariation : Bool) : Rat := if finiteVariation then 0 else 1

/-- `mu_tilde = integrate_against_x(-inf, -v) + integrate_against_x(v, inf)` of the measure truncated to `[l, r]` -/
def muTilde (l r : Rat) (finiteVariation : Bool) (m1 : Rat → Rat → Rat) : Rat :=
  let v := vOf finiteVariation
  m1 (truncLeftTail l r (-v)).1 (truncLeftTail l r (-v)).2 + m1 (truncRightTail l r v).1 (truncRightTail l r v).2

/-- `_process_drift = model.drift() + levy_triplet.a + mu_tilde - mu_h` -/
def processDrift (modelDrift aTilde muTilde muH : Rat) : Rat := modelDrift + aTilde + muTilde - muH

/-- the chain of one axis as `MarkovChainProcess` builds it: measure truncated to `[axis[0], axis[-1]]` -/
structure Chain where
  mid : Rat → Rat → Rat
  ax : List Rat
  o : Nat
  h : Rat
  m : Rat → Rat → Rat        -- integrate            (untruncated)
  m1 : Rat → Rat → Rat       -- integrate_against_x  (untruncated)
  m2 : Rat → Rat → Rat       -- integrate_against_xx (untruncated)
  finiteVariation : Bool
  sigma : Rat
  modelDrift : Rat           -- `model.drift()`: 0 for a Lévy model, r - d + omega for the exponential of one
  aTilde : Rat               -- `levy_triplet.a` after truncation and `set_representation(TILDE)`

def Chain.lo (c : Chain) : Rat := pt c.ax 0
def Chain.hi (c : Chain) : Rat := pt c.ax (c.ax.length - 1)

def Chain.muH (c : Chain) : Rat := Drift.muH c.mid c.ax c.ax c.o (chainMass c.ax c.m)
def Chain.muTilde (c : Chain) : Rat := Drift.muTilde c.lo c.hi c.finiteVariation c.m1
def Chain.processDrift (c : Chain) : Rat := Drift.processDrift c.modelDrift c.aTilde c.muTilde c.muH

/-- mean per unit time of the jumps of the chain: Σ_k x_k q_k -/
def Chain.jumpMean (c : Chain) : Rat :=
  ((List.range c.ax.length).map (fun k => pt c.ax k * rate c.mid c.ax c.o (chainMass c.ax c.m) k)).sum

/-- mean per unit time of the simulated approximation: deterministic drift + rate-weighted grid states -/
def Chain.mean (c : Chain) : Rat := c.processDrift + c.jumpMean

/-! ### the equivalent diffusion coefficient -/

/-- `a = max(-h/2, -1)`, `b = min(h/2, 1)` -/
def centralIv (h : Rat) : Rat × Rat := (max (-h / 2) (-1), min (h / 2) 1)

/-- `vol_adjustment(model, h)²`: 0 for finite variation, else the second moment of the (truncated) measure on the
    central interval -/
def volAdjSq (l r h : Rat) (finiteVariation : Bool) (m2 : Rat → Rat → Rat) : Rat :=
  if finiteVariation then 0 else truncate l r m2 (centralIv h).1 (centralIv h).2

/-- `equivalent_diffusion_coefficient²  = diffusion_coefficient()² + vol_adj²` -/
def eqDiffSq (sigma : Rat) (l r h : Rat) (finiteVariation : Bool) (m2 : Rat → Rat → Rat) : Rat :=
  sigma ^ 2 + volAdjSq l r h finiteVariation m2

def Chain.eqDiffSq (c : Chain) : Rat := Drift.eqDiffSq c.sigma c.lo c.hi c.h c.finiteVariation c.m2

/-- variance per unit time of the jumps of the chain about 0: Σ_k x_k² q_k -/
def Chain.jumpSecondMoment (c : Chain) : Rat :=
  ((List.range c.ax.length).map (fun k => pt c.ax k ^ 2 * rate c.mid c.ax c.o (chainMass c.ax c.m) k)).sum

/-- oscillation of x² over the cell of state k -/
def oscSq (mid : Rat → Rat → Rat) (ax : List Rat) (k : Nat) : Rat :=
  max (cellLo mid ax k ^ 2) (cellHi mid ax k ^ 2) - min (cellLo mid ax k ^ 2) (cellHi mid ax k ^ 2)

/-! ### copula chain: the variance matrix (markovchainlevycopula.py:179-198) -/

abbrev Mat := List (List Rat)

def matMul (a b : Mat) : Mat :=
  a.map (fun row => (List.range ((b.headD []).length)).map (fun j =>
    ((List.range row.length).map (fun k => row.getD k 0 * (b.getD k []).getD j 0)).sum))

def transpose (a : Mat) : Mat :=
  (List.range ((a.headD []).length)).map (fun j => a.map (fun row => row.getD j 0))

def matAdd (a b : Mat) : Mat := List.zipWith (List.zipWith (· + ·)) a b

def diag (v : List Rat) : Mat :=
  (List.range v.length).map (fun i => (List.range v.length).map (fun j => if i = j then v.getD i 0 else 0))

/-- as coded: `np.dot(adj_matrix, adj_matrix.T) + model_variance` where `adj_matrix` already holds the small-jump
    *covariances* `∫∫ x_i x_j ν(dx)` -/
def varianceMatrixCoded (adj : Mat) (sigmas : List Rat) : Mat :=
  matAdd (matMul adj (transpose adj)) (diag (sigmas.map (· ^ 2)))

/-- what "the variance of the small jumps is added to the squared diffusion coefficient" asks for -/
def varianceMatrixSpec (adj : Mat) (sigmas : List Rat) : Mat :=
  matAdd adj (diag (sigmas.map (· ^ 2)))

/-! ### the intervals at which the chain evaluates the underlying integrals (driver input) -/

/-- `integrate`: the cells of the non-origin states, clipped by the truncation -/
def massQueries (mid : Rat → Rat → Rat) (ax : List Rat) (o : Nat) : List (Rat × Rat) :=
  let l := pt ax 0
  let r := pt ax (ax.length - 1)
  ((List.range ax.length).filter (fun k => k != o)).map (fun k => truncIv l r (cellLo mid ax k) (cellHi mid ax k))

/-- `integrate_against_x`: the two tails of `mu_tilde` -/
def m1Queries (l r : Rat) (finiteVariation : Bool) : List (Rat × Rat) :=
  let v := vOf finiteVariation
  [truncLeftTail l r (-v), truncRightTail l r v]

/-- `integrate_against_xx`: the central interval, clipped -/
def m2Queries (l r h : Rat) : List (Rat × Rat) := [truncIv l r (centralIv h).1 (centralIv h).2]

end Rpylib.Drift
