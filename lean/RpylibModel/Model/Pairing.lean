/-
M for C14 — index/state enumerations (rpylib/distribution/pairing.py, rpylib/tools/generic.py).
Mathlib-free, executable.  Everything is over `Nat`/`Int`; square roots are `Nat.sqrt` (the code uses `math.isqrt`)
and the d-th root is the exact `iroot` (the code corrects its float estimate with integers, pairing.py:24-31).
Truncated subtraction of `Nat` is used exactly where the code's value is provably non-negative or where the code
itself writes `max(0, ·)` (pairing.py:101).

Tuples are `List`; the Rosenberg–Strong recursion peels the *last* coordinate, so its workers (`rsPairR`, `rsProjR`)
take the tuple reversed (head = last coordinate) and `rsPair`, `rsProj` reverse at the boundary.
-/
import RpylibModel.Basic.Proto

namespace Rpylib.Pairing

/-! ## exact integer d-th root (pairing.py:24-31 `_integer_root`) -/

/-- bisection with invariant `lo^n ≤ z < hi^n` -/
def irootAux (n z lo hi : Nat) : Nat :=
  if lo + 1 < hi then
    if ((lo + hi) / 2) ^ n ≤ z then irootAux n z ((lo + hi) / 2) hi else irootAux n z lo ((lo + hi) / 2)
  else lo
termination_by hi - lo
decreasing_by all_goals omega

/-- the largest `m` with `m^n ≤ z` (for `n ≥ 1`) -/
def iroot (z n : Nat) : Nat := irootAux n z 0 (z + 1)

/-! ## the 2-d pairings -/

/-- Cantor.pairing2d, pairing.py:69-71 -/
def cantorPair (x y : Nat) : Nat := ((x + y) ^ 2 + 3 * x + y) / 2

/-- Cantor.projection2d, pairing.py:74-76 -/
def cantorProj (z : Nat) : Nat × Nat :=
  let w := (Nat.sqrt (1 + 8 * z) - 1) / 2
  (z - w * (w + 1) / 2, w * (w + 3) / 2 - z)

/-- RosenbergStrong.pairing2d, pairing.py:106-108 -/
def rs2Pair (x y : Nat) : Nat := max x y * (max x y + 1) + x - y

/-- RosenbergStrong.projection2d, pairing.py:111-117 -/
def rs2Proj (z : Nat) : Nat × Nat :=
  let m := Nat.sqrt z
  let z1 := z - m ^ 2
  if z1 < m then (z1, m) else (m, 2 * m - z1)

/-- Szudzik.pairing2d, pairing.py:122-126 -/
def szudzikPair (x y : Nat) : Nat := if x ≥ y then x ^ 2 + x + y else x + y ^ 2

/-- Szudzik.projection2d, pairing.py:129-135 -/
def szudzikProj (z : Nat) : Nat × Nat :=
  let m := Nat.sqrt z
  let z1 := z - m ^ 2
  if z1 < m then (z1, m) else (m, z1 - m)

/-- PepisKalmar._aux_k, pairing.py:198-203 -/
def pepisK (z : Nat) : Nat := if z % 2 = 0 then z / 2 else pepisK (z / 2)
termination_by z
decreasing_by omega

/-- PepisKalmar._aux_j, pairing.py:206-211 -/
def pepisJ (z : Nat) : Nat := if z % 2 = 0 then 0 else pepisJ (z / 2) + 1
termination_by z
decreasing_by omega

/-- PepisKalmar.pairing2d, pairing.py:214-215 -/
def pepisPair (x y : Nat) : Nat := 2 ^ y * (2 * x + 1) - 1

/-- PepisKalmar.projection2d, pairing.py:218-224 -/
def pepisProj (z : Nat) : Nat × Nat :=
  if z % 2 = 0 then (z / 2, 0) else (pepisK (z / 2), pepisJ (z / 2) + 1)

/-- a 2-d pairing with its projection -/
structure P2 where
  pair : Nat → Nat → Nat
  proj : Nat → Nat × Nat

def cantor : P2 := ⟨cantorPair, cantorProj⟩
def rs2 : P2 := ⟨rs2Pair, rs2Proj⟩
def szudzik : P2 := ⟨szudzikPair, szudzikProj⟩
def pepis : P2 := ⟨pepisPair, pepisProj⟩

/-! ## generic extension to d coordinates (base class `Pairing`, pairing.py:37-49) -/

/-- `Pairing.pairing`: `pairing2d(pairing(x[:-1]), x[-1])`, i.e. a left fold -/
def P2.pairN (P : P2) : List Nat → Nat
  | [] => 0
  | x :: rest => rest.foldl P.pair x

/-- `Pairing.projection(z, dim)` with `k = dim - 1`: split the head of the `(dim-1)`-projection once more -/
def P2.projN (P : P2) (z : Nat) : Nat → List Nat
  | 0 => [z]
  | k + 1 =>
    match P.projN z k with
    | p :: q => (P.proj p).1 :: (P.proj p).2 :: q
    | [] => []

def P2.projD (P : P2) (z d : Nat) : List Nat := P.projN z (d - 1)

/-! ## Rosenberg–Strong in d coordinates (pairing.py:82-103) -/

def maxL : List Nat → Nat
  | [] => 0
  | x :: t => max x (maxL t)

/-- `RosenbergStrong.pairing` on the reversed tuple (head = last coordinate `x[-1]`) -/
def rsPairR : List Nat → Nat
  | [] => 0
  | [x] => x
  | xd :: y :: rest =>
    let d := rest.length + 2
    let m := maxL (xd :: y :: rest)
    rsPairR (y :: rest) + m ^ d + (m - xd) * ((m + 1) ^ (d - 1) - m ^ (d - 1))

def rsPair (xs : List Nat) : Nat := rsPairR xs.reverse

/-- `RosenbergStrong.projection(z, dim)`, reversed result (head = last coordinate) -/
def rsProjR : (dim : Nat) → (z : Nat) → List Nat
  | 0, _ => []
  | 1, z => [z]
  | d + 2, z =>
    let m := iroot z (d + 2)
    let md1 := m ^ (d + 1)
    let md := m * md1
    let aux := (m + 1) ^ (d + 1) - md1
    let xd := m - (z - md - md1) / aux          -- `max(0, z - m_d - m_d1) // aux`
    xd :: rsProjR (d + 1) (z - md - (m - xd) * aux)

def rsProj (z dim : Nat) : List Nat := (rsProjR dim z).reverse

/-! ## ℕ ↔ ℤ folding (pairing.py:227-238) -/

/-- `mapping_to_z`: 0, 1, -1, 2, -2, … ↦ 0, 1, 2, 3, 4, … -/
def ofZ (n : Int) : Nat := if n > 0 then (2 * n - 1).toNat else (-2 * n).toNat

/-- `projection_to_z`: 0, 1, 2, 3, 4, … ↦ 0, 1, -1, 2, -2, … (`q*(2r-1)+r` with `q, r = divmod(z, 2)`) -/
def toZ (z : Nat) : Int := ((z / 2 : Nat) : Int) * (2 * ((z % 2 : Nat) : Int) - 1) + ((z % 2 : Nat) : Int)

/-! ## the pairings offered to `PairingToZd` -/

inductive Kind where
  | cantor | rs2 | rs | szudzik | pepis
  deriving DecidableEq, Repr

def Kind.pairN : Kind → List Nat → Nat
  | .cantor => Rpylib.Pairing.cantor.pairN
  | .rs2 => Rpylib.Pairing.rs2.pairN
  | .rs => Rpylib.Pairing.rsPair
  | .szudzik => Rpylib.Pairing.szudzik.pairN
  | .pepis => Rpylib.Pairing.pepis.pairN

def Kind.projD : Kind → Nat → Nat → List Nat
  | .cantor => Rpylib.Pairing.cantor.projD
  | .rs2 => Rpylib.Pairing.rs2.projD
  | .rs => Rpylib.Pairing.rsProj
  | .szudzik => Rpylib.Pairing.szudzik.projD
  | .pepis => Rpylib.Pairing.pepis.projD

/-- `PairingToZd.pair` (pairing.py:254-264); `o` = 1 when zero is omitted. The origin gets `-o`. -/
def zdPair (pairN : List Nat → Nat) (o : Nat) (xs : List Int) : Int := (pairN (xs.map ofZ) : Int) - o

/-- `PairingToZd.project` (pairing.py:251-252, 266-273) -/
def zdProject (projD : Nat → Nat → List Nat) (o d i : Nat) : List Int := (projD (i + o) d).map toZ

/-! ## `PairingToZ1d` on `[-L, R]` (pairing.py:276-329) -/

/-- `pair` (pairing.py:298-307) -/
def z1dPair (L R o : Nat) (x : Int) : Int :=
  if x.natAbs ≤ min R L then (ofZ x : Int) - o
  else if R > L then x + L - o
  else R - x - o

/-- `project` as a pure function of the index: the value the code returns when the indices are asked in increasing
order 0, 1, 2, … on a fresh object -/
def z1dProject (L R o i : Nat) : Int :=
  let x := i + o
  if L < R then (if 2 * L + 2 ≤ x then (x : Int) - L else toZ x)
  else if R < L then (if 2 * R + 1 ≤ x then (R : Int) - x else toZ x)
  else toZ x

/-- the object state of `PairingToZ1d`: `_switch`, `_kk` and the `@cache` of `project` -/
structure Z1dState where
  switch : Bool
  kk : Nat
  cache : List (Nat × Int)
  deriving Repr, DecidableEq

def Z1dState.fresh : Z1dState := ⟨false, 0, []⟩

/-- one call `project(i)` on the object as coded (pairing.py:294-296, 313-329) -/
def z1dStep (L R o : Nat) (s : Z1dState) (i : Nat) : Z1dState × Int :=
  match s.cache.lookup i with
  | some v => (s, v)
  | none =>
    let x := i + o
    let res := toZ x
    if L < R then
      if s.switch || res < -(L : Int) then
        let v : Int := (L : Int) + (s.kk + 1 : Nat) + 1
        (⟨true, s.kk + 1, (i, v) :: s.cache⟩, v)
      else (⟨s.switch, s.kk, (i, res) :: s.cache⟩, res)
    else if R < L then
      if s.switch || res > (R : Int) then
        let v : Int := -(R : Int) - (s.kk + 1 : Nat)
        (⟨true, s.kk + 1, (i, v) :: s.cache⟩, v)
      else (⟨s.switch, s.kk, (i, res) :: s.cache⟩, res)
    else (⟨s.switch, s.kk, (i, res) :: s.cache⟩, res)

/-- a history of calls on one object -/
def z1dRun (L R o : Nat) : Z1dState → List Nat → Z1dState × List Int
  | s, [] => (s, [])
  | s, i :: is =>
    let (s1, v) := z1dStep L R o s i
    let (s2, vs) := z1dRun L R o s1 is
    (s2, v :: vs)

/-! ## `lazy_indices_product` (tools/generic.py:11-33) -/

def prodL : List Nat → Nat
  | [] => 1
  | m :: ms => m * prodL ms

/-- `tuple(floor(n / denominators[k]) % moduli[k])` with `denominators = [1] + accumulate(moduli[:-1], mul)`;
`den` is the running denominator -/
def digitsFrom (den : Nat) : List Nat → Nat → List Nat
  | [], _ => []
  | m :: ms, n => (n / den) % m :: digitsFrom (den * m) ms n

def lazyNth (sizes : List Nat) (n : Nat) : List Nat := digitsFrom 1 sizes n

def lazyProduct (sizes : List Nat) : List (List Nat) := (List.range (prodL sizes)).map (lazyNth sizes)

/-! ## `StatesManager.project_index_to_state_increment` (pairing.py:521-546)

The state is `nxt = _last_projected_index + 1`.  `adm i` says that `project(i)` is inside grid and domain.
`bound` is the *exclusive* end of the search: the code's loop is `while xx <= max_frontier_indices`,
i.e. `bound = max_frontier_indices + 1`. -/

/-- first admissible index in `[a, a + fuel)` -/
def scan (adm : Nat → Bool) (a : Nat) : (fuel : Nat) → Option Nat
  | 0 => none
  | f + 1 => if adm a then some a else scan adm (a + 1) f

/-- one call with argument `x`; `none` = exhaustion (the code then returns a random frontier state and `True`).
`maxLogged` (an `Int`, default -1) resets the skip pointer when `x` equals it. -/
def smStep (adm : Nat → Bool) (bound : Nat) (maxLogged : Int) (nxt : Nat) (x : Nat) : Nat × Option Nat :=
  let nxt0 := if (x : Int) = maxLogged then 0 else nxt
  let xx := max x nxt0
  match scan adm xx (bound - xx) with
  | some j => (j + 1, some j)
  | none => (max xx bound + 1, none)

/-- the calls `x = 0, 1, …, n-1` on a fresh object (no reset): skip pointer and outputs -/
def smRun (adm : Nat → Bool) (bound : Nat) : Nat → Nat × List (Option Nat)
  | 0 => (0, [])
  | n + 1 =>
    let r := smRun adm bound n
    let s := smStep adm bound (-1) r.1 n
    (s.1, r.2 ++ [s.2])

/-- an arbitrary history of calls -/
def smRunList (adm : Nat → Bool) (bound : Nat) (maxLogged : Int) : Nat → List Nat → Nat × List (Option Nat)
  | nxt, [] => (nxt, [])
  | nxt, x :: xs =>
    let s := smStep adm bound maxLogged nxt x
    let r := smRunList adm bound maxLogged s.1 xs
    (r.1, s.2 :: r.2)

/-- `CTMCGrid.outside(origin + increment)` negated: common origin index `o`, axis sizes `ns` -/
def inBox (o : Nat) : List Nat → List Int → Bool
  | [], [] => true
  | n :: ns, v :: vs => (-(o : Int) ≤ v && v + o ≤ (n : Int) - 1) && inBox o ns vs
  | _, _ => false

def maxI : List Int → Int
  | [] => -1
  | [x] => x
  | x :: t => max x (maxI t)

/-- `max(frontier_states)` of `Domain.compute_total_number_of_states_and_frontier` without a boundary
(pairing.py:425-488): 1-d: the two end states; n-d: for every tuple of the lazy product over the first axes, shifted by
the origin index, the two states with extreme last coordinate. -/
def maxFrontier (pairZ : List Int → Int) (o : Nat) (ns : List Nat) : Int :=
  match ns.reverse with
  | [] => -1
  | [n] => max (pairZ [-(o : Int)]) (pairZ [(n : Int) - 1 - o])
  | nLast :: firstRev =>
    maxI ((lazyProduct firstRev.reverse).flatMap (fun ks =>
      let sh : List Int := ks.map (fun (k : Nat) => (k : Int) - (o : Int))
      [pairZ (sh ++ [-(o : Int)]), pairZ (sh ++ [(nLast : Int) - 1 - o])]))

end Rpylib.Pairing
