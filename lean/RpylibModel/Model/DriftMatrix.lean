/-
Model of what `MCLevyCopulaSimulation.__init__` does with the results of `vol_adjustment_ij` (property C04).
Mathlib-free, executable.  New definitions only; the matrix helpers (`Mat`, `matMul`, `transpose`, `matAdd`, `diag`,
`varianceMatrixCoded`, `varianceMatrixSpec`) are those of Model/Drift.lean.

Anchors (rpylib/process/markovchain/markovchainlevycopula.py)
  176-177   model_variance = np.diag([m.diffusion_coefficient() ** 2 for m in models]); adj_matrix = zeros_like
  179-187   if not finite variation: one `vol_adjustment_ij(i, j, h, model)` per pair `i <= j`, in the order
            `for i in range(d) for j in range(i, d)` (a process pool; `outputs` = iterator over the results in that order)
  189-192   for i: adj[i,i] = next(outputs); for j > i: adj[i,j] = adj[j,i] = next(outputs)
  194       variance_matrix = np.dot(adj_matrix, adj_matrix.T) + model_variance
  195-196   diffusion_matrix = scipy.linalg.sqrtm(variance_matrix)
  233-236   the diffusion part of a path is `sqrt(dt) * diffusion_matrix @ brownian_increments`: covariance per unit time
            `diffusion_matrix @ diffusion_matrix.T`

`sqrtm` itself (an irrational matrix function) is not executed by the model: the theorems speak about *any* matrix `D`
that is a symmetric square root (`D = Dᵀ`, `D·D = V`: what `sqrtm` returns for a symmetric positive semi-definite `V`) or a
Cholesky-type factor (`D·Dᵀ = V`).
-/
import RpylibModel.Model.Drift

namespace Rpylib.Drift

/-- entry `(i, j)`; 0 outside the stored shape -/
def entry (m : Mat) (i j : Nat) : Rat := (m.getD i []).getD j 0

/-- the iterator `outputs` as it is consumed: row `i` takes the next `d - i` results (`(i,i), (i,i+1), …, (i,d-1)`).
    `segments d n outs`: rows `d - n, …, d - 1` still to be served from `outs` -/
def segments : Nat → List Rat → List (List Rat)
  | 0, _ => []
  | n + 1, outs => outs.take (n + 1) :: segments n (outs.drop (n + 1))

/-- `adj_matrix` after the double loop (markovchainlevycopula.py:189-192): `adj[i,j] = adj[j,i] =` the `(j - i)`-th result
    served to row `i`, for `i ≤ j` -/
def assembleInf (d : Nat) (outs : List Rat) : Mat :=
  let segs := segments d outs
  (List.range d).map (fun i => (List.range d).map (fun j =>
    if i ≤ j then (segs.getD i []).getD (j - i) 0 else (segs.getD j []).getD (i - j) 0))

def zeroMat (d : Nat) : Mat := (List.range d).map (fun _ => (List.range d).map (fun _ => 0))

/-- `adj_matrix`: stays zero for finite variation (no call of `vol_adjustment_ij` at all) -/
def assembleAdj (d : Nat) (finiteVariation : Bool) (outs : List Rat) : Mat :=
  if finiteVariation then zeroMat d else assembleInf d outs

/-- position of the pair `(i, j)`, `i ≤ j`, in the order `for i in range(d) for j in range(i, d)` -/
def triIndex (d i j : Nat) : Nat := ((List.range i).map (fun r => d - r)).sum + (j - i)

/-- `variance_matrix` as coded, from the raw results -/
def varianceMatrixOfOutputs (d : Nat) (finiteVariation : Bool) (outs sigmas : List Rat) : Mat :=
  varianceMatrixCoded (assembleAdj d finiteVariation outs) sigmas

def isSymmB (d : Nat) (m : Mat) : Bool :=
  (List.range d).all (fun i => (List.range d).all (fun j => entry m i j == entry m j i))

/-- `x · M · x` for a vector given as a list -/
def quadForm (d : Nat) (m : Mat) (x : List Rat) : Rat :=
  ((List.range d).map (fun i => ((List.range d).map (fun j => x.getD i 0 * entry m i j * x.getD j 0)).sum)).sum

end Rpylib.Drift
