/-
Model of the rate assignment of the approximating Markov chain (property C01).  Mathlib-free, executable.

Anchors
  rpylib/grid/spatial.py:63-108                 left_point / right_point (clamped neighbours), middle
  rpylib/distribution/samplingfactory.py:32-56  compute_intensity_of_jumps (3^d - 1 blocks)
  rpylib/distribution/samplingfactory.py:59-70  create_q_vector
  rpylib/distribution/samplingfactory.py:161-169 probability_to_jump_to_state (inversion sampler)
  rpylib/model/levymodel/levymodel.py:113-174   TruncatedLevyMeasure._truncated_interval / integrate
  rpylib/model/levycopulamodel.py:106,121-124   the joint `mass` keeps the *untruncated* margins
  rpylib/distribution/variate/binarysearchtreeadapted.py:110-184  _pre_computation (bucket masses, axis tables)

A Lévy measure enters only through its interval masses `m a b` (= `nu.integrate(a, b)`), in n-d through its box masses
`m [(a1,b1),…,(ad,bd)]` (= `model.mass(a, b)`).  What is assumed of them (`IsMass`, `IsBoxMass2`, `IsBoxMass3`) is
assumed only for intervals strictly on one side of 0 / boxes away from the origin - the only arguments the code ever
passes - so that infinite-activity measures are instances.
-/
import RpylibModel.Model.Grid

namespace Rpylib.Cells
open Rpylib.Grid

/-! ### cells (spatial.py:63-108, samplingfactory.py:64-68) -/

/-- `axis[k]` -/
def pt (ax : List Rat) (k : Nat) : Rat := ax.getD k 0

/-- `right_point` with the clamp length as a parameter: `axis[min(n0 - 1, k + 1)]`.  The code (1-d and, since
    /repo 56f1018, every coordinate of the n-d branch, spatial.py:91-96) uses `n0 = len(axis)` (`cellHi`); before
    56f1018 the n-d branch used `len(self.axes[0])` on every axis (`cellHiOld`, kept as the negation witness). -/
def rightPointN (n0 : Nat) (ax : List Rat) (k : Nat) : Rat := ax.getD (min (n0 - 1) (k + 1)) 0

/-- `x_left = grid.middle(grid.left_point(k), x)` -/
def cellLo (mid : Rat → Rat → Rat) (ax : List Rat) (k : Nat) : Rat := mid (leftPoint ax k) (pt ax k)

/-- `x_right = grid.middle(x, grid.right_point(k))` -/
def cellHiN (mid : Rat → Rat → Rat) (n0 : Nat) (ax : List Rat) (k : Nat) : Rat := mid (pt ax k) (rightPointN n0 ax k)

def cellHi (mid : Rat → Rat → Rat) (ax : List Rat) (k : Nat) : Rat := cellHiN mid ax.length ax k

/-- the n-d upper cell end *before* /repo 56f1018: clamped with the length of the first axis -/
def cellHiOld (mid : Rat → Rat → Rat) (axes : List (List Rat)) (ax : List Rat) (k : Nat) : Rat :=
  cellHiN mid (axes.headD []).length ax k

/-- a cell-boundary function given by a finite table `(a, b, middle(a,b))` (the probability median of
    `CTMCGridProbabilityStep.middle` is a root search; the harness measures it); arithmetic mean elsewhere -/
def tableMid (tbl : List (Rat × Rat × Rat)) (a b : Rat) : Rat :=
  match tbl.find? (fun t => t.1 == a && t.2.1 == b) with
  | some t => t.2.2
  | none => amid a b

/-! ### masses -/

/-- the closed interval `[a, b]` lies strictly on one side of 0 -/
def Away (a b : Rat) : Prop := b < 0 ∨ 0 < a

/-- what is assumed of `nu.integrate`: additive and non-negative on intervals strictly on one side of 0 -/
structure IsMass (m : Rat → Rat → Rat) : Prop where
  add : ∀ a b c, a ≤ b → b ≤ c → Away a c → m a c = m a b + m b c
  nonneg : ∀ a b, a ≤ b → Away a b → 0 ≤ m a b

/-- `TruncatedLevyMeasure._truncated_interval` (levymodel.py:124-127) -/
def truncIv (l r a b : Rat) : Rat × Rat := (max (min a r) l, min (max b l) r)

/-- `TruncatedLevyMeasure.integrate` (levymodel.py:152-156); the `a > b` ValueError is not modelled -/
def truncate (l r : Rat) (m : Rat → Rat → Rat) : Rat → Rat → Rat :=
  fun a b => m (truncIv l r a b).1 (truncIv l r a b).2

/-- the measure the 1-d chain works with: `model_tilde.truncate_levy_measure(grid.truncations[0])`
    (markovchain.py:97-98) with `truncations = (axis[0], axis[-1])` -/
def chainMass (ax : List Rat) (m : Rat → Rat → Rat) : Rat → Rat → Rat :=
  truncate (pt ax 0) (pt ax (ax.length - 1)) m

/-! ### 1-d rates and intensity -/

/-- `create_q_vector` entry k -/
def rate (mid : Rat → Rat → Rat) (ax : List Rat) (o : Nat) (m : Rat → Rat → Rat) (k : Nat) : Rat :=
  if k = o then 0 else m (cellLo mid ax k) (cellHi mid ax k)

/-- `create_q_vector` -/
def qVector (mid : Rat → Rat → Rat) (ax : List Rat) (o : Nat) (m : Rat → Rat → Rat) : List Rat :=
  (List.range ax.length).map (rate mid ax o m)

/-- `h_left = grid.middle(grid.left_point(grid.origin_coordinate), grid.origin)` with `grid.origin = 0.0` -/
def hLeft (mid : Rat → Rat → Rat) (ax : List Rat) (o : Nat) : Rat := mid (leftPoint ax o) 0

/-- `h_right = grid.middle(grid.origin, grid.right_point(grid.origin_coordinate))` -/
def hRight (mid : Rat → Rat → Rat) (n0 : Nat) (ax : List Rat) (o : Nat) : Rat := mid 0 (rightPointN n0 ax o)

/-- `[[h_l, h_r], [axis[0], h_l], [h_r, axis[-1]]]` (samplingfactory.py:42-45): centre, left, right -/
def parts (mid : Rat → Rat → Rat) (n0 : Nat) (ax : List Rat) (o : Nat) : List (Rat × Rat) :=
  [(hLeft mid ax o, hRight mid n0 ax o), (pt ax 0, hLeft mid ax o), (hRight mid n0 ax o, pt ax (ax.length - 1))]

/-- `compute_intensity_of_jumps`, d = 1: the centre interval is discarded, the two others are summed -/
def intensity1d (mid : Rat → Rat → Rat) (ax : List Rat) (o : Nat) (m : Rat → Rat → Rat) : Rat :=
  (((parts mid ax.length ax o).drop 1).map (fun I => m I.1 I.2)).sum

/-- `probability_to_jump_to_state` of the inversion sampler: `max(state_mass, 0) / intensity_of_jumps` -/
def jumpProb (mid : Rat → Rat → Rat) (ax : List Rat) (o : Nat) (m : Rat → Rat → Rat) (k : Nat) : Rat :=
  max (m (cellLo mid ax k) (cellHi mid ax k)) 0 / intensity1d mid ax o m

/-! ### n-d: boxes, the 3^d - 1 blocks, intensity, per-state rates -/

abbrev Box := List (Rat × Rat)

/-- `itertools.product(*lists)`: first factor slowest -/
def cartesian {α : Type} : List (List α) → List (List α)
  | [] => [[]]
  | xs :: rest => xs.flatMap (fun x => (cartesian rest).map (fun t => x :: t))

/-- `len(grid.axes[0])` (only `_pre_computation`'s `low_nb_of_pts` test still uses it) -/
def len0 (axes : List (List Rat)) : Nat := (axes.headD []).length

/-- the 3^d - 1 products of centre/left/right intervals, the all-centre box discarded (`next(cartesian_product)`) -/
def blocks (mid : Rat → Rat → Rat) (axes : List (List Rat)) (o : Nat) : List Box :=
  (cartesian (axes.map (fun ax => parts mid ax.length ax o))).drop 1

/-- `compute_intensity_of_jumps`, any d (also `_pre_computation`'s `intensity_of_jumps`) -/
def intensityNd (mid : Rat → Rat → Rat) (axes : List (List Rat)) (o : Nat) (m : Box → Rat) : Rat :=
  ((blocks mid axes o).map m).sum

/-- cell of the state with coordinates `cs` -/
def cellBox (mid : Rat → Rat → Rat) (axes : List (List Rat)) (cs : List Nat) : Box :=
  (axes.zip cs).map (fun p => (cellLo mid p.1 p.2, cellHi mid p.1 p.2))

/-- rate of the jump to the state with coordinates `cs` (`model.mass(mid_point_left, mid_point_right)`,
    samplingfactory.py:161-166); the origin is not a jump target.  The copula model's joint mass is *not* truncated
    (levycopulamodel.py:106), all cells lie inside the grid box anyway. -/
def rateNd (mid : Rat → Rat → Rat) (axes : List (List Rat)) (o : Nat) (m : Box → Rat) (cs : List Nat) : Rat :=
  if cs = axes.map (fun _ => o) then 0 else m (cellBox mid axes cs)

/-- all states, first coordinate slowest -/
def states (axes : List (List Rat)) : List (List Nat) := cartesian (axes.map (fun ax => List.range ax.length))

def qTensor (mid : Rat → Rat → Rat) (axes : List (List Rat)) (o : Nat) (m : Box → Rat) : List Rat :=
  (states axes).map (rateNd mid axes o m)

/-- `_pre_computation`: index ranges `[origin, origin], [0, origin-1], [origin+1, len-1]` of the three pieces -/
def partsIdx (ax : List Rat) (o : Nat) : List (Nat × Nat) := [(o, o), (0, o - 1), (o + 1, ax.length - 1)]

/-- `buckets_coordinates` (binarysearchtreeadapted.py:146-154), all-centre bucket discarded -/
def bucketIdx (axes : List (List Rat)) (o : Nat) : List (List (Nat × Nat)) :=
  (cartesian (axes.map (fun ax => partsIdx ax o))).drop 1

/-- `precomputed_cum_p_for_axes[k]` before the cumulative sum: for a bucket that varies along exactly one axis (and a
    grid with `len(axes) * len(axes[0]) < 10_001`) the probabilities `mass(cell)/intensity` of its states
    (binarysearchtreeadapted.py:141-174); `[]` for the other buckets -/
def axisBucketProbs (mid : Rat → Rat → Rat) (axes : List (List Rat)) (o : Nat) (m : Box → Rat)
    (bucket : List (Nat × Nat)) : List Rat :=
  let varying := (List.range bucket.length).filter (fun i => (bucket.getD i (0, 0)).1 != (bucket.getD i (0, 0)).2)
  if axes.length * len0 axes < 10001 then
    match varying with
    | [axisNb] =>
      let lo := (bucket.getD axisNb (0, 0)).1
      let hi := (bucket.getD axisNb (0, 0)).2
      (List.range (hi + 1 - lo)).map (fun j =>
        m (cellBox mid axes ((bucket.map (fun p => p.1)).set axisNb (lo + j))) / intensityNd mid axes o m)
    | _ => []
  else []

/-! ### box masses for d = 2, 3 (curried, so that the assumptions read like those of `IsMass`) -/

def box2 (m : Rat → Rat → Rat → Rat → Rat) : Box → Rat
  | [I, J] => m I.1 I.2 J.1 J.2
  | _ => 0

def box3 (m : Rat → Rat → Rat → Rat → Rat → Rat → Rat) : Box → Rat
  | [I, J, K] => m I.1 I.2 J.1 J.2 K.1 K.2
  | _ => 0

def box1 (m : Rat → Rat → Rat) : Box → Rat
  | [I] => m I.1 I.2
  | _ => 0

/-- `model.mass` on rectangles: additive under a split of one coordinate at a point `b ≠ 0` and non-negative, on
    rectangles away from the origin (some side strictly on one side of 0).  Splits at 0 are excluded because a Lévy
    copula measure may charge the coordinate axes (independent components). -/
structure IsBoxMass2 (m : Rat → Rat → Rat → Rat → Rat) : Prop where
  add1 : ∀ a b c y z, a ≤ b → b ≤ c → y ≤ z → b ≠ 0 → (Away a c ∨ Away y z) → m a c y z = m a b y z + m b c y z
  add2 : ∀ a c x y z, a ≤ c → x ≤ y → y ≤ z → y ≠ 0 → (Away a c ∨ Away x z) → m a c x z = m a c x y + m a c y z
  nonneg : ∀ a c y z, a ≤ c → y ≤ z → (Away a c ∨ Away y z) → 0 ≤ m a c y z

structure IsBoxMass3 (m : Rat → Rat → Rat → Rat → Rat → Rat → Rat) : Prop where
  add1 : ∀ a b c y z u v, a ≤ b → b ≤ c → y ≤ z → u ≤ v → b ≠ 0 → (Away a c ∨ Away y z ∨ Away u v) →
    m a c y z u v = m a b y z u v + m b c y z u v
  add2 : ∀ a c x y z u v, a ≤ c → x ≤ y → y ≤ z → u ≤ v → y ≠ 0 → (Away a c ∨ Away x z ∨ Away u v) →
    m a c x z u v = m a c x y u v + m a c y z u v
  add3 : ∀ a c y z t u v, a ≤ c → y ≤ z → t ≤ u → u ≤ v → u ≠ 0 → (Away a c ∨ Away y z ∨ Away t v) →
    m a c y z t v = m a c y z t u + m a c y z u v
  nonneg : ∀ a c y z u v, a ≤ c → y ≤ z → u ≤ v → (Away a c ∨ Away y z ∨ Away u v) → 0 ≤ m a c y z u v

/-! ### finite tables standing for a measure (driver input: values measured on the real `integrate` / `mass`) -/

/-- interval mass given by a table `(a, b, value)`; 0 where the table is silent -/
def tableMass (tbl : List (Rat × Rat × Rat)) (a b : Rat) : Rat :=
  match tbl.find? (fun t => t.1 == a && t.2.1 == b) with
  | some t => t.2.2
  | none => 0

def tableHas (tbl : List (Rat × Rat × Rat)) (a b : Rat) : Bool :=
  (tbl.find? (fun t => t.1 == a && t.2.1 == b)).isSome

def tableBoxMass (tbl : List (Box × Rat)) (b : Box) : Rat :=
  match tbl.find? (fun t => t.1 == b) with
  | some t => t.2
  | none => 0

/-- the intervals at which the 1-d chain evaluates the underlying (untruncated) `integrate`: the cells of the n - 1
    non-origin states (the origin's cell is never integrated over: it may carry infinite mass), then the left and
    right block, each clipped by `_truncated_interval` -/
def queries1d (mid : Rat → Rat → Rat) (ax : List Rat) (o : Nat) : List (Rat × Rat) :=
  let l := pt ax 0
  let r := pt ax (ax.length - 1)
  (((List.range ax.length).filter (fun k => k != o)).map (fun k => truncIv l r (cellLo mid ax k) (cellHi mid ax k))) ++
    ((parts mid ax.length ax o).drop 1).map (fun I => truncIv l r I.1 I.2)

/-- the boxes at which the n-d chain evaluates `model.mass`: the cell of every non-origin state (first coordinate
    slowest), then the blocks -/
def queriesNd (mid : Rat → Rat → Rat) (axes : List (List Rat)) (o : Nat) : List Box :=
  ((states axes).filter (fun cs => cs != axes.map (fun _ => o))).map (cellBox mid axes) ++ blocks mid axes o

/-- piecewise-constant density `heights[i]` on `(knots[i], knots[i+1])` (harness `zoo.TableMeasure`): exact mass -/
def stepMass : List Rat → List Rat → Rat → Rat → Rat
  | k0 :: k1 :: ks, h :: hs, a, b =>
    let x0 := max k0 a
    let x1 := min k1 b
    (if x0 < x1 then h * (x1 - x0) else 0) + stepMass (k1 :: ks) hs a b
  | _, _, _, _ => 0

end Rpylib.Cells
