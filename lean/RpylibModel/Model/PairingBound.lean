/-
M for C14, part 3 — the bound of the states enumeration since /repo commit 94bedf1
(rpylib/distribution/pairing.py `Domain.compute_total_number_of_states_and_frontier`, `StatesManager.__init__`).
Mathlib-free, executable.

For a grid of dimension ≥ 2 the domain now records `max_inside_index`: it starts at 0 and is raised to the pairing index of
every state of every line that is inside the domain (without a boundary: every state of the box, the origin with its index
-1 included), and `StatesManager.max_frontier_indices = max(max(frontier_states), max_inside_index)`.  The frontier list
itself (`maxFrontier`, used by `_sample_frontier_state_increment`) is unchanged, and so is the 1-d branch, which returns
before the attribute is set (`getattr(domain, "max_inside_index", 0)`: the two end indices are never negative).
-/
import RpylibModel.Model.Pairing

namespace Rpylib.Pairing

/-- every state increment of the box: the index tuples of the axis sizes shifted by the common origin index.  (The code
walks `lazy_indices_product` over the first axes and a `range` over the last one; only the maximum over the set is used.) -/
def boxStates (o : Nat) (ns : List Nat) : List (List Int) :=
  (lazyProduct ns).map (fun ks => ks.map (fun (k : Nat) => (k : Int) - (o : Int)))

/-- running maximum started at 0 (`self.max_inside_index = 0`, then `max(self.max_inside_index, …)`) -/
def maxFrom0 : List Int → Int
  | [] => 0
  | x :: t => max x (maxFrom0 t)

/-- `Domain.max_inside_index` without a boundary -/
def maxInside (pairZ : List Int → Int) (o : Nat) (ns : List Nat) : Int := maxFrom0 ((boxStates o ns).map pairZ)

/-- `StatesManager.max_frontier_indices` as coded since 94bedf1 -/
def maxEnum (pairZ : List Int → Int) (o : Nat) (ns : List Nat) : Int :=
  if ns.length ≤ 1 then max (maxFrontier pairZ o ns) 0 else max (maxFrontier pairZ o ns) (maxInside pairZ o ns)

end Rpylib.Pairing
