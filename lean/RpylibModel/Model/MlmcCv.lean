/-
Model of the control-variate path of the multilevel engine (payoff dimension 1, any number k of controls):

* rpylib/montecarlo/statistic/statistic.py:171-182  `MCStatistics.add` writes the payoff row *and* the control row at the same
  index; `MCStatistics.extend` zero-pads the payoff array, the control array and the adjusted array to the same length;
  `create_statistic(0)` (511-548) gives a level appended by `MLMCStatistics.extend` three arrays with 0 rows.
* rpylib/montecarlo/multilevel/engine.py:160  after *every* pass of level l `cv.compute_coefficients_mlmc(statistics.mc_statistics[l], l)`
  replaces the whole adjusted array of that level.
* rpylib/product/product.py:253-300  `compute_coefficients_mlmc`: over ALL rows currently in the arrays of the level,
  separately for the fine and for the coarse column: `b = kernel(cov(X, Y))`, adjusted = `Y − Σ_j b_j (X_j − price_j)`;
  one coefficient vector per (level, column), recomputed from scratch after each pass; at level 0 the coarse controls are
  `zeros_like` (the coarse payoff is 0 there, path.py:260-278).  `np.cov(x.T, y.T)` raises when X and Y have different
  numbers of rows and `cv_stats[..., PT.FP] = adj_payoff_fine` raises when the adjusted array has another number of rows than Y:
  the model records that in the sticky flag `err` (theorem: it never happens).
* statistic.py:352-371  `price()` and (through `set_mlmc_results`, 319-333, default `no_control_variates=False`) `ml, vl, mean_level_l …`
  are read from the *adjusted* arrays when control variates are configured.

The regression kernel (`np.cov` + guard + `np.linalg.pinv`, product.py:198-227) is a parameter `coef` of the scripted process:
the bookkeeping theorems hold for every kernel; `coef1` is the exact one-control kernel (`Stats.kernel1` = `Stats.bStar`), `Stats.kernel2`
(used by the driver for two controls) the exact two-control one.  Pad rows / `np.empty` rows read as 0 (the theorems show they are never read).
Mathlib-free, executable.
-/
import RpylibModel.Model.Mlmc
import RpylibModel.Model.Stats

namespace Rpylib.MlmcCv
open Rpylib.Mlmc

/-- one row of `_control_variates_statistics.stats`: (fine, coarse) value of each of the k controls; `none` = pad row -/
abbrev CRow := Option (List Sample)

/-- scripted control variates: discounted value of control j on the i-th sample simulated at level l -/
structure CvProc where
  k : Nat
  XF : Nat → Nat → Nat → Rat          -- level, control, sample: value on the fine path
  XC : Nat → Nat → Nat → Rat          -- … on the coarse path (not simulated at level 0: zeros, product.py:265-268)
  price : Nat → Rat                   -- `ControlVariates.prices[j]`
  coef : Nat → (Nat → Nat → Rat) → (Nat → Rat) → Nat → Rat   -- regression kernel: (n, X columns, Y column) ↦ b

def CvProc.ctl (c : CvProc) (l i : Nat) : List Sample :=
  (List.range c.k).map (fun j => ⟨c.XF l j i, if l = 0 then 0 else c.XC l j i⟩)

/-- `Statistic.add` for `iteration = 0 … n-1`, any payload (same recursion as `Mlmc.writeFrom`) -/
def writeFromG {α : Type} (mk : Nat → α) : (start cnt n : Nat) → List (Option α) → List (Option α)
  | _, _, 0, rows => rows
  | start, cnt, n + 1, rows => writeFromG mk (start + 1) (cnt + 1) n (rows.set start (some (mk cnt)))

structure CvLvl where
  xrows : List CRow     -- `_control_variates_statistics.stats` of the level
  adj : List Row        -- `_payoff_statistics_with_cv.stats` of the level
  err : Bool            -- an array operation of `compute_coefficients_mlmc` has raised (row counts differ)

/-- a column of the payoff array as numpy sees it (pads are zeros) -/
def yCol (f : Row → Rat) (rows : List Row) : Nat → Rat := fun i => f (rows.getD i none)

/-- column (control j, fine/coarse) of the control array -/
def xCol (fine : Bool) (xrows : List CRow) : Nat → Nat → Rat := fun j i =>
  match xrows.getD i none with
  | none => 0
  | some cs => if fine then (cs.getD j ⟨0, 0⟩).fine else (cs.getD j ⟨0, 0⟩).coarse

/-- the coefficient vector `b_star` is computed once per (level, column) and then used for every row: its first k values -/
def coefList (c : CvProc) (n : Nat) (x : Nat → Nat → Rat) (y : Nat → Rat) : List Rat := (List.range c.k).map (c.coef n x y)

/-- `helper_compute_coefficients`: `y − b · (x − prices)` with `b` from the kernel on all `n` rows -/
def adjustCol (c : CvProc) (b : List Rat) (x : Nat → Nat → Rat) (y : Nat → Rat) : Nat → Rat :=
  Stats.adjustK c.k (fun j => b.getD j 0) c.price x y

/-- the array `compute_coefficients_mlmc` stores: one row per row of the payoff array -/
def computeAdj (c : CvProc) (rows : List Row) (xrows : List CRow) : List Row :=
  let bf := coefList c rows.length (xCol true xrows) (yCol rowFine rows)
  let bc := coefList c rows.length (xCol false xrows) (yCol rowCoarse rows)
  (List.range rows.length).map (fun i =>
    some ⟨adjustCol c bf (xCol true xrows) (yCol rowFine rows) i, adjustCol c bc (xCol false xrows) (yCol rowCoarse rows) i⟩)

/-- one pass of level l on the control side (`lv` = the payoff record *before* the pass, `rows` = the payoff array after it) -/
def passCv (c : CvProc) (l : Nat) (lv : Lvl) (rows : List Row) (cl : CvLvl) : CvLvl :=
  let xrows := writeFromG (c.ctl l) lv.N lv.sim lv.dN cl.xrows
  let bad := xrows.length != rows.length || cl.adj.length != rows.length
  { xrows := xrows, adj := if bad then cl.adj else computeAdj c rows xrows, err := cl.err || bad }

/-- `MCStatistics.extend(N + dN)` on the control array and on the adjusted array -/
def extendCv (lv : Lvl) (cl : CvLvl) : CvLvl :=
  { cl with xrows := cl.xrows ++ List.replicate (lv.N + lv.dN - cl.xrows.length) none
            adj := cl.adj ++ List.replicate (lv.N + lv.dN - cl.adj.length) none }

structure CvSt where
  base : St               -- counters and payoff arrays: the model of Mlmc.lean, unchanged
  cv : Nat → CvLvl        -- control / adjusted arrays per level

inductive StepCv where
  | cont (s : CvSt)
  | ret (s : CvSt)

def StepCv.base : StepCv → Step
  | .cont s => .cont s.base
  | .ret s => .ret s.base

/-- per-level records held as evaluated data for the levels listed, `g` elsewhere (executable form of a finite update) -/
def fromList (l : List CvLvl) (g : Nat → CvLvl) : Nat → CvLvl := fun i =>
  match l[i]? with
  | some x => x
  | none => g i

def cvAfterPasses (p : Proc) (c : CvProc) (s : CvSt) : CvSt :=
  let l := (List.range (s.base.L + 1)).map
    (fun l => passCv c l (s.base.lv l) (passLvl p l (s.base.lv l)).rows (s.cv l))
  { base := afterPasses p s.base, cv := fromList l s.cv }

def cvSetDN (Ns : List Nat) (s : CvSt) : CvSt := { s with base := setDN Ns s.base }

def cvAddLevel (s : CvSt) : CvSt :=
  { base := addLevel s.base, cv := fun l => if l = s.base.L + 1 then ⟨[], [], false⟩ else s.cv l }

def cvExtendAll (s : CvSt) : CvSt :=
  let l := (List.range (s.base.L + 1)).map (fun l => extendCv (s.base.lv l) (s.cv l))
  { base := extendAll s.base, cv := fromList l s.cv }

def cvLoopHead (s : CvSt) : StepCv := if sumDN s.base > 0 then .cont s else .ret s

/-- the part of one iteration after the passes (`s1` = state at the read point) -/
def iterCvAfter (o : Oracle) (s1 : CvSt) : StepCv :=
  let s2 := cvSetDN o.Ns s1
  if small s2.base then
    if o.conv || s2.base.L == s2.base.levelMax then .ret s2
    else cvLoopHead (cvExtendAll (cvSetDN o.Ns2 (cvAddLevel s2)))
  else cvLoopHead (cvExtendAll s2)

/-- one iteration of the `while` loop of `Engine.price` with control variates configured -/
def iterCv (p : Proc) (c : CvProc) (o : Oracle) (s : CvSt) : StepCv := iterCvAfter o (cvAfterPasses p c s)

def runCv (p : Proc) (c : CvProc) : List Oracle → CvSt → StepCv
  | [], s => .cont s
  | o :: os, s =>
    match iterCv p c o s with
    | .cont s' => runCv p c os s'
    | .ret s' => .ret s'

/-- `create_mlmc_statistics`: every initial level gets a control array and (deep copy of the payoff array) an adjusted array
    of `N0` uninitialised rows -/
def initCv (L0 N0 levelMax newInit : Nat) : CvSt :=
  { base := init L0 N0 levelMax newInit, cv := fun _ => ⟨List.replicate N0 none, List.replicate N0 none, false⟩ }

def priceCv (p : Proc) (c : CvProc) (L0 N0 levelMax newInit : Nat) (os : List Oracle) : StepCv :=
  match cvLoopHead (initCv L0 N0 levelMax newInit) with
  | .cont s => runCv p c os s
  | .ret s => .ret s

/-- fixed-level variant: `extend([mc]*(maxLevel+1))`, then one pass of `mc` paths per level -/
def fixedRunCv (p : Proc) (c : CvProc) (maxLevel mc : Nat) : CvSt :=
  cvAfterPasses p c
    { base := { L := maxLevel, lv := fun _ => ⟨List.replicate mc none, 0, mc, 0, 0⟩, levelMax := maxLevel, newInit := 0 }
      cv := fun _ => ⟨List.replicate mc none, List.replicate mc none, false⟩ }

/-! ### results with control variates: everything is read from the adjusted arrays -/

/-- the level record `set_mlmc_results` sees when control variates are configured -/
def adjLvl (s : CvSt) (l : Nat) : Lvl := { s.base.lv l with rows := (s.cv l).adj }

/-- `MLMCStatistics.price()` (default `no_control_variates=False`) -/
def priceOfCv (s : CvSt) : Rat :=
  listSum ((List.range (s.base.L + 1)).map (fun l => meanOf rowFine (s.cv l).adj - meanOf rowCoarse (s.cv l).adj))

/-- the states at the read points of a run with control variates, one per executed iteration; `ml, vl, cl` handed to the
    criteria are `Mlmc.mlFed … (adjLvl r)` etc.: read from the adjusted arrays -/
def readsCv (p : Proc) (c : CvProc) : List Oracle → CvSt → List CvSt
  | [], _ => []
  | o :: os, s =>
    cvAfterPasses p c s :: (match iterCv p c o s with
      | .cont s' => readsCv p c os s'
      | .ret _ => [])

/-- the exact one-control kernel of `helper_compute_coefficients` -/
def coef1 : Stats.Kernel := Stats.kernel1

end Rpylib.MlmcCv
