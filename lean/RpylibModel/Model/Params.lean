/-
C20 — parameter objects (constraint-checked setters, cached derived quantities, `initialisation`), the
assignment / initialisation state machine, and the calibration contract.      Mathlib-free, executable.

Anchors (as the code is NOW, i.e. after the fixes 5621114 "BlackScholesParameters.initialisation refreshes the
derived variance" and fd38e55 "calibration objective returns a scalar"):
  tools/parameter.py:9-21      `argument_with_condition`: setter stores the value iff `condition(value)`, else ValueError
  tools/parameter.py:24-72     positive (x >= 0), strictly_positive (x > 0), strictly_less_than(v) (x < v)
  model/model.py:18-25         `Parameters.initialisation` (base class: `pass`)
  mixed/blackscholes.py:20-36  sigma = positive;   variance = sigma*sigma  (constructor and initialisation)
  mixed/merton.py:20-30        sigma, mu_j, intensity = positive; sigma_j = strictly_positive; no derived attribute
  mixed/hem.py:20-50           sigma, intensity = positive; p, eta1, eta2 = strictly_positive;
                               _xi = p*eta1/(eta1-1) + (1-p)*eta2/(eta2+1) - 1
  purejump/variancegamma.py:22-42  sigma = positive; nu, theta plain attributes;
                               _c = 1/nu; _lambda_p = sqrt(theta^2 + 2 sigma^2/nu)/sigma^2 - theta/sigma^2;
                               _lambda_m = _lambda_p + 2 theta/sigma^2
  purejump/cgmy.py:21-46       c = strictly_positive; g, m = positive; y = strictly_less_than(2.0);
                               _CGammamY = c*gamma(-y); _MpowerY = m**y; _GpowerY = g**y
  model/utils.py:219-263       calibrate_model_parameter: deepcopy of the parameters, objective = setattr; initialisation();
                               rebuild; COS price - market price; brentq on [a, b]; ValueError -> ValueError
  model/utils.py:303-346       default_calibration table; run_default_calibration: second deepcopy, setattr, initialisation, rebuild

Irrational functions (Gamma, power, sqrt) are an abstract parameter `Irr` of the model: the theorems hold for every
`Irr`; the driver instantiates it with a finite table of values that the harness evaluates (scipy / numpy) at exactly
the arguments M asks for (`queries`).
-/
import RpylibModel.Basic.Proto

namespace Rpylib.Params

/-- attribute names of the five `Parameters` classes; `other k` = any other attribute name -/
inductive Attr
  | sigma | variance
  | mu_j | sigma_j | intensity
  | p | eta1 | eta2 | xi
  | nu | theta | vc | lambda_p | lambda_m
  | c | g | m | y | cGammamY | mPowerY | gPowerY
  | other (k : Nat)
  deriving DecidableEq, Repr

inductive Fam | bs | merton | hem | vg | cgmy
  deriving DecidableEq, Repr

/-- the constraint descriptors of tools/parameter.py that the five classes use; `free` = plain attribute -/
inductive Cons
  | free
  | pos            -- positive:          x >= 0
  | spos           -- strictly_positive: x > 0
  | slt (b : Rat)  -- strictly_less_than(b): x < b
  deriving Repr

def Cons.ok : Cons → Rat → Bool
  | .free, _ => true
  | .pos, x => decide (0 ≤ x)
  | .spos, x => decide (0 < x)
  | .slt b, x => decide (x < b)

/-- class-level property descriptors (everything else is a plain instance attribute) -/
def cons : Fam → Attr → Cons
  | .bs, .sigma => .pos
  | .merton, .sigma => .pos
  | .merton, .mu_j => .pos
  | .merton, .sigma_j => .spos
  | .merton, .intensity => .pos
  | .hem, .sigma => .pos
  | .hem, .p => .spos
  | .hem, .eta1 => .spos
  | .hem, .eta2 => .spos
  | .hem, .intensity => .pos
  | .vg, .sigma => .pos
  | .cgmy, .c => .spos
  | .cgmy, .g => .pos
  | .cgmy, .m => .pos
  | .cgmy, .y => .slt 2
  | _, _ => .free

/-- constructor arguments, in the order the constructor assigns them -/
def prims : Fam → List Attr
  | .bs => [.sigma]
  | .merton => [.sigma, .mu_j, .sigma_j, .intensity]
  | .hem => [.sigma, .p, .eta1, .eta2, .intensity]
  | .vg => [.sigma, .nu, .theta]
  | .cgmy => [.c, .g, .m, .y]

/-- cached attributes written by the constructor and by `initialisation` -/
def derivedNames : Fam → List Attr
  | .bs => [.variance]
  | .merton => []
  | .hem => [.xi]
  | .vg => [.vc, .lambda_p, .lambda_m]
  | .cgmy => [.cGammamY, .mPowerY, .gPowerY]

/-- instance `__dict__` -/
abbrev Dict := Attr → Option Rat

def Dict.empty : Dict := fun _ => none
def Dict.set (d : Dict) (a : Attr) (v : Rat) : Dict := fun k => if k = a then some v else d k
def Dict.get (d : Dict) (a : Attr) : Rat := (d a).getD 0

/-- irrational functions, abstract -/
structure Irr where
  gamma : Rat → Rat
  pow : Rat → Rat → Rat
  sqrt : Rat → Rat

inductive Outcome | ok | valueError | zeroDiv
  deriving DecidableEq, Repr

/-- `obj.a = v` (parameter.py:13-17): property setter if the class declares one, plain attribute otherwise -/
def assign (f : Fam) (d : Dict) (a : Attr) (v : Rat) : Dict × Outcome :=
  if (cons f a).ok v then (d.set a v, .ok) else (d, .valueError)

/-- HEM `_xi` (hem.py:36, 44-48) -/
def xiOf (p eta1 eta2 : Rat) : Rat := p * eta1 / (eta1 - 1) + (1 - p) * eta2 / (eta2 + 1) - 1

/-- VG (variancegamma.py:30-32, 41-43) -/
def vgC (nu : Rat) : Rat := 1 / nu
def vgLambdaP (irr : Irr) (sigma nu theta : Rat) : Rat :=
  irr.sqrt (theta * theta + 2 * (sigma * sigma) / nu) / (sigma * sigma) - theta / (sigma * sigma)
def vgLambdaM (irr : Irr) (sigma nu theta : Rat) : Rat :=
  vgLambdaP irr sigma nu theta + 2 * theta / (sigma * sigma)

/-- the derived attributes as functions of the primaries (what a freshly constructed object holds) -/
def deriveOf (irr : Irr) (f : Fam) (d : Dict) : Attr → Option Rat
  | .variance => if f = .bs then some (d.get .sigma * d.get .sigma) else none
  | .xi => if f = .hem then some (xiOf (d.get .p) (d.get .eta1) (d.get .eta2)) else none
  | .vc => if f = .vg then some (vgC (d.get .nu)) else none
  | .lambda_p => if f = .vg then some (vgLambdaP irr (d.get .sigma) (d.get .nu) (d.get .theta)) else none
  | .lambda_m => if f = .vg then some (vgLambdaM irr (d.get .sigma) (d.get .nu) (d.get .theta)) else none
  | .cGammamY => if f = .cgmy then some (d.get .c * irr.gamma (-(d.get .y))) else none
  | .mPowerY => if f = .cgmy then some (irr.pow (d.get .m) (d.get .y)) else none
  | .gPowerY => if f = .cgmy then some (irr.pow (d.get .g) (d.get .y)) else none
  | _ => none

/-- `initialisation()` as coded today.  A division by zero raises ZeroDivisionError (Python floats); the statements
    executed before it keep their effect (VG: `_c` is already rebound when `sigma == 0` makes `theta / sigma2` raise). -/
def initialisation (irr : Irr) (f : Fam) (d : Dict) : Dict × Outcome :=
  match f with
  | .bs => (d.set .variance (d.get .sigma * d.get .sigma), .ok)
  | .merton => (d, .ok)
  | .hem =>
    if d.get .eta1 - 1 = 0 ∨ d.get .eta2 + 1 = 0 then (d, .zeroDiv)
    else (d.set .xi (xiOf (d.get .p) (d.get .eta1) (d.get .eta2)), .ok)
  | .vg =>
    if d.get .nu = 0 then (d, .zeroDiv)
    else
      let d1 := d.set .vc (vgC (d.get .nu))
      if d.get .sigma * d.get .sigma = 0 then (d1, .zeroDiv)
      else
        let lp := vgLambdaP irr (d.get .sigma) (d.get .nu) (d.get .theta)
        ((d1.set .lambda_p lp).set .lambda_m (lp + 2 * d.get .theta / (d.get .sigma * d.get .sigma)), .ok)
  | .cgmy =>
    (((d.set .cGammamY (d.get .c * irr.gamma (-(d.get .y)))).set .mPowerY (irr.pow (d.get .m) (d.get .y))).set
        .gPowerY (irr.pow (d.get .g) (d.get .y)), .ok)

/-- Black–Scholes before fix 5621114: the class had no `initialisation`, the base-class `pass` ran -/
def initialisationBSPrefix (d : Dict) : Dict × Outcome := (d, .ok)

/-- the constructor: assigns the arguments in order through the setters (first violation raises, no object),
    then computes the cached attributes with the same expressions as `initialisation` -/
def assignAll (f : Fam) : Dict → List (Attr × Rat) → Dict × Outcome
  | d, [] => (d, .ok)
  | d, (a, v) :: rest =>
    match assign f d a v with
    | (d', .ok) => assignAll f d' rest
    | (_, o) => (d, o)

def construct (irr : Irr) (f : Fam) (args : Attr → Rat) : Dict × Outcome :=
  match assignAll f Dict.empty ((prims f).map (fun a => (a, args a))) with
  | (d, .ok) => initialisation irr f d
  | (d, o) => (d, o)

/-! ### the assignment / initialisation state machine -/

inductive Op
  | set (a : Attr) (v : Rat)
  | init
  deriving Repr

def step (irr : Irr) (f : Fam) (d : Dict) : Op → Dict × Outcome
  | .set a v => assign f d a v
  | .init => initialisation irr f d

/-- a history: exceptions are caught by the caller and the history goes on with the state the failed call left -/
def run (irr : Irr) (f : Fam) (d : Dict) (ops : List Op) : Dict :=
  ops.foldl (fun d op => (step irr f d op).1) d

def outcomes (irr : Irr) (f : Fam) : Dict → List Op → List Outcome
  | _, [] => []
  | d, op :: rest => (step irr f d op).2 :: outcomes irr f (step irr f d op).1 rest

/-! ### calibration (utils.py:219-346) -/

def rabs (x : Rat) : Rat := if x < 0 then -x else x

/-- the abstract root finder (scipy.optimize.brentq): `none` = it raised ValueError.  The objective may itself raise
    (`none`), e.g. when the setter rejects the trial value. -/
structure RootFinder where
  find : (Rat → Option Rat) → Rat → Rat → Option Rat

/-- what is assumed of it: a returned value lies in [a, b], the objective was evaluated there and is within `tol` of 0 -/
def RootFinder.Contract (rf : RootFinder) (tol : Rat) : Prop :=
  ∀ f a b x, rf.find f a b = some x → a ≤ x ∧ x ≤ b ∧ ∃ y, f x = some y ∧ rabs y ≤ tol

/-- `setattr(parameter, value); initialisation()` on the (copied) parameters: utils.py:252-253 and 335-337 -/
def rebuild (irr : Irr) (f : Fam) (d : Dict) (a : Attr) (v : Rat) : Option Dict :=
  match assign f d a v with
  | (d1, .ok) =>
    match initialisation irr f d1 with
    | (d2, .ok) => some d2
    | _ => none
  | _ => none

/-- `calibration_fun` (utils.py:251-263); `price` = COS price of the product under the model built from the parameters -/
def objective (irr : Irr) (f : Fam) (price : Dict → Rat) (d : Dict) (a : Attr) (market : Rat) (v : Rat) : Option Rat :=
  (rebuild irr f d a v).map (fun d2 => price d2 - market)

/-- `calibrate_model_parameter` -/
def calibrate (irr : Irr) (rf : RootFinder) (f : Fam) (price : Dict → Rat) (d : Dict) (a : Attr) (lo hi market : Rat) :
    Option Rat :=
  rf.find (objective irr f price d a market) lo hi

/-- `run_default_calibration`: the parameters of the returned model -/
def runDefault (irr : Irr) (rf : RootFinder) (f : Fam) (price : Dict → Rat) (d : Dict) (a : Attr) (lo hi market : Rat) :
    Option Dict :=
  match calibrate irr rf f price d a lo hi market with
  | none => none
  | some x => rebuild irr f d a x

/-! ### the copy discipline: objects live in a heap, `deepcopy` allocates, assignments mutate in place -/

structure Heap where
  obj : Nat → Dict
  next : Nat

def Heap.write (h : Heap) (i : Nat) (d : Dict) : Heap := { h with obj := fun j => if j = i then d else h.obj j }

/-- `copy.deepcopy(model.levy_model.parameters)` -/
def Heap.deepcopy (h : Heap) (src : Nat) : Heap × Nat :=
  ({ obj := fun j => if j = h.next then h.obj src else h.obj j, next := h.next + 1 }, h.next)

/-- one evaluation of the objective at `v` on the object `i`: both statements mutate `i` in place, whatever they raise -/
def Heap.evalAt (irr : Irr) (f : Fam) (h : Heap) (i : Nat) (a : Attr) (v : Rat) : Heap :=
  match assign f (h.obj i) a v with
  | (d1, .ok) => h.write i (initialisation irr f d1).1
  | (d1, _) => h.write i d1

/-- the heap after `calibrate_model_parameter` evaluated its objective at the points `trace` (chosen by the root finder);
    `useCopy = false` is the aliasing variant (no deepcopy), kept as a negation witness -/
def Heap.calibrateTrace (irr : Irr) (f : Fam) (h : Heap) (src : Nat) (a : Attr) (trace : List Rat) (useCopy : Bool) : Heap :=
  let (h1, i) := if useCopy then h.deepcopy src else (h, src)
  trace.foldl (fun h v => h.evalAt irr f i a v) h1

/-! ### helpers for the generated table (ProofsGen/C20Table) -/

/-- decidable sufficient test: the closed interval [lo, hi] is non-degenerate and inside the constraint set -/
def Cons.containsInterval : Cons → Rat → Rat → Bool
  | .free, lo, hi => decide (lo < hi)
  | .pos, lo, hi => decide (lo < hi) && decide (0 ≤ lo)
  | .spos, lo, hi => decide (lo < hi) && decide (0 < lo)
  | .slt b, lo, hi => decide (lo < hi) && decide (hi < b)

def famOfName : String → Option Fam
  | "BLACKSCHOLES" => some .bs | "MERTON" => some .merton | "HEM" => some .hem | "VG" => some .vg | "CGMY" => some .cgmy
  | _ => none

def famOfClass : String → Option Fam
  | "BlackScholesParameters" => some .bs | "MertonParameters" => some .merton | "HEMParameters" => some .hem
  | "VGParameters" => some .vg | "CGMYParameters" => some .cgmy
  | _ => none

def attrOfName : String → Attr
  | "sigma" => .sigma | "variance" => .variance | "mu_j" => .mu_j | "sigma_j" => .sigma_j | "intensity" => .intensity
  | "p" => .p | "eta1" => .eta1 | "eta2" => .eta2 | "_xi" => .xi
  | "nu" => .nu | "theta" => .theta | "_c" => .vc | "_lambda_p" => .lambda_p | "_lambda_m" => .lambda_m
  | "c" => .c | "g" => .g | "m" => .m | "y" => .y | "_CGammamY" => .cGammamY | "_MpowerY" => .mPowerY | "_GpowerY" => .gPowerY
  | s => .other s.length

def nameOfAttr : Attr → String
  | .sigma => "sigma" | .variance => "variance" | .mu_j => "mu_j" | .sigma_j => "sigma_j" | .intensity => "intensity"
  | .p => "p" | .eta1 => "eta1" | .eta2 => "eta2" | .xi => "_xi"
  | .nu => "nu" | .theta => "theta" | .vc => "_c" | .lambda_p => "_lambda_p" | .lambda_m => "_lambda_m"
  | .c => "c" | .g => "g" | .m => "m" | .y => "y" | .cGammamY => "_CGammamY" | .mPowerY => "_MpowerY" | .gPowerY => "_GpowerY"
  | .other k => "other" ++ toString k

/-- one row of `default_calibration` is acceptable: known family, the parameter is a constructor argument of that family,
    the interval is non-degenerate and inside the parameter's constraint set -/
def rowOk (row : String × String × Rat × Rat) : Bool :=
  match famOfName row.1 with
  | none => false
  | some f =>
    let a := attrOfName row.2.1
    (prims f).contains a && (cons f a).containsInterval row.2.2.1 row.2.2.2

/-- the measured derived attributes of a class are exactly the model's -/
def derivedOk (row : String × List String) : Bool :=
  match famOfClass row.1 with
  | none => false
  | some f => decide (row.2.map attrOfName = derivedNames f)

/-- the measured constructor signature of a class is M's list of primaries, in order -/
def ctorOk (row : String × List String) : Bool :=
  match famOfClass row.1 with
  | none => false
  | some f => decide (row.2.map attrOfName = prims f)

/-- measured acceptance pattern of one setter (value, stored?) agrees with M's constraint of that attribute -/
def acceptOk (row : String × String × List (Rat × Bool)) : Bool :=
  match famOfClass row.1 with
  | none => false
  | some f => row.2.2.all (fun vb => (cons f (attrOfName row.2.1)).ok vb.1 == vb.2)

/-! ### which pricer configuration the calibration uses (utils.py:251-300), measured on the running code

`calibration_fun` prices with `COSPricer(calibrated_model).price(product)`, where `calibrated_model` is rebuilt with the input
model's `spot, r, d`; the ATM target is `CFBlackScholes(bs_model(spot, r, d, bs_sigma)).call(strike = spot, maturity)`.
"Reprices its target" is a statement about the pricer a USER applies to the returned model — `COSPricer(model)` with the
default `n`, `l` — so it follows from the root finder's contract only if the objective's configuration IS that one. -/

/-- everything a COS pricing call depends on besides the parameter object -/
structure PriceCfg where
  cosTerms : Rat      -- `n` of the COSPricer
  cosCutoff : Rat     -- `l`
  spot : Rat
  rate : Rat
  dividend : Rat
  strike : Rat
  maturity : Rat
  payoff : Rat        -- 1 call, -1 put, 0 forward
  deriving DecidableEq, Repr

/-- configuration of the Black–Scholes closed-form target -/
structure TargetCfg where
  spot : Rat
  rate : Rat
  dividend : Rat
  strike : Rat
  maturity : Rat
  sigma : Rat
  deriving DecidableEq, Repr

def PriceCfg.ofList : List Rat → Option PriceCfg
  | [n, l, s, r, d, k, t, p] => some ⟨n, l, s, r, d, k, t, p⟩
  | _ => none

def TargetCfg.ofList : List Rat → Option TargetCfg
  | [s, r, d, k, t, v] => some ⟨s, r, d, k, t, v⟩
  | _ => none

/-- `calibrate_model_parameter_to_atm_call` with the configurations made explicit: the objective prices with `cfgObj`,
    the market price is the closed form evaluated at `tgt` -/
def calibrateCfg (irr : Irr) (rf : RootFinder) (f : Fam) (priceWith : PriceCfg → Dict → Rat) (bsPrice : TargetCfg → Rat)
    (cfgObj : PriceCfg) (tgt : TargetCfg) (d : Dict) (a : Attr) (lo hi : Rat) : Option Rat :=
  calibrate irr rf f (priceWith cfgObj) d a lo hi (bsPrice tgt)

/-- one measured row `(family, configurations seen inside the objective, the user's default configuration, the target
    configuration the code built, the requested target)` is acceptable: the objective used exactly one configuration, the
    user's, and the target is the requested one -/
def cfgRowOk (row : String × List (List Rat) × List Rat × List (List Rat) × List Rat) : Bool :=
  (famOfName row.1).isSome && !row.2.1.isEmpty && row.2.1.all (fun c => c == row.2.2.1) && (PriceCfg.ofList row.2.2.1).isSome
    && !row.2.2.2.1.isEmpty && row.2.2.2.1.all (fun c => c == row.2.2.2.2) && (TargetCfg.ofList row.2.2.2.2).isSome

end Rpylib.Params
