/-
Model of the bookkeeping of rpylib/montecarlo/multilevel/engine.py (`Engine.price`, lines 185-299, and
`price_with_constant_mc_paths_and_level`, 301-341) together with the zero-padded sample arrays of
rpylib/montecarlo/statistic/statistic.py (`Statistic.add` 127-128, `Statistic.extend` 131-140,
`MLMCStatistics.extend` 333-338, `create_statistic(0)` for a new level 511-548).
Mathlib-free, executable.

What is abstracted: simulation and payoff evaluation.  The k-th sample simulated by the level-l process is
`p.sample l k` for an arbitrary scripted process `p` (theorems quantify over every `p`); the optimal sample
sizes and the convergence verdict of each iteration are *oracle inputs* (`Oracle`), so every history of the
real adaptive loop is a run of this model for some oracle list.
-/
namespace Rpylib.Mlmc

structure Sample where
  fine : Rat
  coarse : Rat
  deriving DecidableEq, Repr

/-- one row of a per-level sample array: `none` = zero pad / uninitialised row -/
abbrev Row := Option Sample

/-- scripted coupling process -/
structure Proc where
  F : Nat → Nat → Rat      -- discounted fine payoff of the k-th sample simulated at level l
  C : Nat → Nat → Rat      -- discounted coarse payoff (ignored at level 0: `MLMCPath.process_l0` stores 0.0)
  cst : Nat → Rat          -- `one_simulation_cost` of the level-l process

def Proc.sample (p : Proc) (l k : Nat) : Sample := ⟨p.F l k, if l = 0 then 0 else p.C l k⟩

structure Lvl where
  rows : List Row      -- `Statistic.stats` of the level
  N : Nat              -- `Nl[level]`
  dN : Nat             -- `dNl[level]`
  sim : Nat            -- number of samples the level's process has simulated so far
  cost : Rat           -- `sum_cost[level]`

/-- `statistics.add(current_mc_paths + iteration, level, …)` for `iteration = 0 … n-1` (engine.py:119-127):
    row `start + it` receives the `(cnt + it)`-th sample the process simulates. -/
def writeFrom (mk : Nat → Sample) : (start cnt n : Nat) → List Row → List Row
  | _, _, 0, rows => rows
  | start, cnt, n + 1, rows => writeFrom mk (start + 1) (cnt + 1) n (rows.set start (some (mk cnt)))

/-- one pass of `compute_level_l` followed by `Nl[level] += dNl[level]; sum_cost[level] += …` -/
def passLvl (p : Proc) (l : Nat) (lv : Lvl) : Lvl :=
  { rows := writeFrom (p.sample l) lv.N lv.sim lv.dN lv.rows
    N := lv.N + lv.dN, dN := lv.dN, sim := lv.sim + lv.dN, cost := lv.cost + p.cst l * lv.dN }

/-- `Statistic.extend(Nl + dNl)`: zero-pad up to `N + dN` rows, never shrink -/
def extendLvl (lv : Lvl) : Lvl :=
  { lv with rows := lv.rows ++ List.replicate (lv.N + lv.dN - lv.rows.length) none }

structure Oracle where
  Ns : List Nat        -- `compute_mc_paths(rmse, vl, cl)` after the passes
  conv : Bool          -- `criteria(alpha, ml, rmse)`
  Ns2 : List Nat       -- `compute_mc_paths` again after a level has been appended
  deriving Repr

structure St where
  L : Nat                 -- current top level
  lv : Nat → Lvl          -- level records; only indices ≤ L are meaningful
  levelMax : Nat
  newInit : Nat           -- counter a freshly appended level starts with (`np.append(Nl, ·)`, engine.py:279)

inductive Step where
  | cont (s : St)         -- back to the loop head
  | ret (s : St)          -- `return self.statistics`: results are read from these arrays

def afterPasses (p : Proc) (s : St) : St :=
  { s with lv := fun l => if l ≤ s.L then passLvl p l (s.lv l) else s.lv l }

/-- `dNl = np.maximum(0, Ns - Nl)` -/
def setDN (Ns : List Nat) (s : St) : St :=
  { s with lv := fun l => { s.lv l with dN := Ns.getD l 0 - (s.lv l).N } }

/-- `np.sum(dNl[dNl > 0.01 * Nl]) == 0` -/
def small (s : St) : Bool := (List.range (s.L + 1)).all (fun l => decide (100 * (s.lv l).dN ≤ (s.lv l).N))

def addLevel (s : St) : St :=
  { s with L := s.L + 1, lv := fun l => if l = s.L + 1 then ⟨[], s.newInit, 0, 0, 0⟩ else s.lv l }

def extendAll (s : St) : St :=
  { s with lv := fun l => if l ≤ s.L then extendLvl (s.lv l) else s.lv l }

def sumDN (s : St) : Nat := ((List.range (s.L + 1)).map (fun l => (s.lv l).dN)).sum

/-- `while np.sum(dNl) > 0` at the loop head; leaving the loop also returns the statistics (engine.py:297-299) -/
def loopHead (s : St) : Step := if sumDN s > 0 then .cont s else .ret s

/-- one iteration of the `while` loop of `Engine.price` -/
def iter (p : Proc) (o : Oracle) (s : St) : Step :=
  let s2 := setDN o.Ns (afterPasses p s)
  if small s2 then
    if o.conv || s2.L == s2.levelMax then .ret s2
    else loopHead (extendAll (setDN o.Ns2 (addLevel s2)))
  else loopHead (extendAll s2)

/-- the run over a finite oracle history (`cont` = history exhausted while the loop is still going) -/
def run (p : Proc) : List Oracle → St → Step
  | [], s => .cont s
  | o :: os, s =>
    match iter p o s with
    | .cont s' => run p os s'
    | .ret s' => .ret s'

/-- state at the first loop head: `Nl = 0`, `dNl = N0`, arrays of `N0` uninitialised rows (`np.empty`) -/
def init (L0 N0 levelMax newInit : Nat) : St :=
  { L := L0, lv := fun _ => ⟨List.replicate N0 none, 0, N0, 0, 0⟩, levelMax := levelMax, newInit := newInit }

/-- the whole of `Engine.price` as far as the bookkeeping goes; `none` when the initial sample size is 0 and the
    loop body never runs -/
def price (p : Proc) (L0 N0 levelMax newInit : Nat) (os : List Oracle) : Step :=
  match loopHead (init L0 N0 levelMax newInit) with
  | .cont s => run p os s
  | .ret s => .ret s

/-! ### results (statistic.py:220-296, 319-333, 363-408): computed from *all rows* of the arrays -/

def rowFine : Row → Rat
  | none => 0
  | some s => s.fine
def rowCoarse : Row → Rat
  | none => 0
  | some s => s.coarse

def listSum (l : List Rat) : Rat := l.foldr (· + ·) 0

/-- `np.mean(stats, axis=0)` over every row, pads included -/
def meanOf (f : Row → Rat) (rows : List Row) : Rat := listSum (rows.map f) / rows.length

/-- `MLMCStatistics.price()` : Σ_levels mean(fine) − mean(coarse) over all rows -/
def priceOf (s : St) : Rat :=
  listSum ((List.range (s.L + 1)).map (fun l => meanOf rowFine (s.lv l).rows - meanOf rowCoarse (s.lv l).rows))

/-- first non-centred moment of the correction terms of level l (`ml` is its absolute value) -/
def dpMean (lv : Lvl) : Rat := meanOf (fun r => rowFine r - rowCoarse r) lv.rows
def dpSecond (lv : Lvl) : Rat := meanOf (fun r => (rowFine r - rowCoarse r) * (rowFine r - rowCoarse r)) lv.rows
/-- `vl = max(0, E[dp²] − E[dp]²)` -/
def vlOf (lv : Lvl) : Rat := max 0 (dpSecond lv - dpMean lv * dpMean lv)
/-- `cl = sum_cost / Nl` -/
def clOf (lv : Lvl) : Rat := lv.cost / lv.N
def fineMean (lv : Lvl) : Rat := meanOf rowFine lv.rows

/-! ### fixed-level variant (`price_with_constant_mc_paths_and_level`): one pass of `mc` paths per level 0…maxLevel -/
def fixedRun (p : Proc) (maxLevel mc : Nat) : St :=
  afterPasses p { L := maxLevel, lv := fun _ => ⟨List.replicate mc none, 0, mc, 0, 0⟩, levelMax := maxLevel, newInit := 0 }

/-! ### what the loop hands to the criteria at every iteration (engine.py:237-258, 281-290)

Right after the passes `set_mlmc_results(Nl, sum_cost)` is called and `ml, vl, cl` are read from it; levels ≥ 3 go through the
"work-around for possible zero values" (in place, in increasing level order, so each level sees the already corrected
previous one); `compute_mc_paths(rmse, vl, cl)` and — when every level is within the 1 % rule — `criteria(alpha, ml, rmse)`
receive these vectors; if a level is added, `compute_mc_paths` is called again with `vl`, `cl` extended by the extrapolated
entries `vl[-1]/2^beta`, `cl[-1]·2^gamma`.  `qa, qb, qg` stand for `2^alpha, 2^beta, 2^gamma`. -/

def rabs (x : Rat) : Rat := if x < 0 then -x else x

/-- `ml` = |first non-centred moment of the correction terms| -/
def mlOf (lv : Lvl) : Rat := rabs (dpMean lv)

/-- `x[l] = max(x[l], 0.5·x[l-1]/q)` for the entries after `prev`, each using the corrected predecessor -/
def fixGo (q : Rat) : Rat → List Rat → List Rat
  | _, [] => []
  | prev, x :: t => let x' := max x (prev / (2 * q)); x' :: fixGo q x' t

/-- the work-around loop `for level in range(3, L + 1)` -/
def fix3 (q : Rat) : List Rat → List Rat
  | a :: b :: c :: t => a :: b :: c :: fixGo q c t
  | xs => xs

/-- results of all levels `0 … L` as `set_mlmc_results` computes them from the arrays `rowsOf l` -/
def levelsOf (L : Nat) (lv : Nat → Lvl) : List Lvl := (List.range (L + 1)).map lv

def mlFed (qa : Rat) (L : Nat) (lv : Nat → Lvl) : List Rat := fix3 qa ((levelsOf L lv).map mlOf)
def vlFed (qb : Rat) (L : Nat) (lv : Nat → Lvl) : List Rat := fix3 qb ((levelsOf L lv).map vlOf)
def clFed (L : Nat) (lv : Nat → Lvl) : List Rat := (levelsOf L lv).map clOf

/-- `np.append(x, x[-1] · r)` -/
def extrapolate (r : Rat) (xs : List Rat) : List Rat := xs ++ [xs.getLastD 0 * r]

/-- second call of `compute_mc_paths` of an iteration that appends a level -/
def vlFed2 (qb : Rat) (L : Nat) (lv : Nat → Lvl) : List Rat := extrapolate (1 / qb) (vlFed qb L lv)
def clFed2 (qg : Rat) (L : Nat) (lv : Nat → Lvl) : List Rat := extrapolate qg (clFed L lv)

/-- the states at the read points of a run, one per executed iteration: `afterPasses` of each loop-head state -/
def reads (p : Proc) : List Oracle → St → List St
  | [], _ => []
  | o :: os, s =>
    afterPasses p s :: (match iter p o s with
      | .cont s' => reads p os s'
      | .ret _ => [])

/-- the loop-head states of a run (the first one included) -/
def heads (p : Proc) : List Oracle → St → List St
  | [], s => [s]
  | o :: os, s =>
    s :: (match iter p o s with
      | .cont s' => heads p os s'
      | .ret _ => [])

end Rpylib.Mlmc
