-- Models of the discrete state samplers (property C02), one file per sampler.
import RpylibModel.Model.Samplers.Inversion
import RpylibModel.Model.Samplers.Alias
import RpylibModel.Model.Samplers.Bst
import RpylibModel.Model.Samplers.Huffman
import RpylibModel.Model.Samplers.Table
import RpylibModel.Model.Samplers.Adapted
import RpylibModel.Model.Samplers.AdaptedNd
