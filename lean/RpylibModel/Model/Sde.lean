/-
C16 — model of the Euler scheme of a Lévy-driven SDE and of the discount curve of the rate models.
Mathlib-free, executable.  Mirrors (faults included)

  * rpylib/process/markovchain/markovchainsde.py:76-113   `MarkovChainSDE.simulate_one_path`
  * rpylib/process/coupling/couplingsde.py:87-131          `CouplingSDE.simulate_one_path_with_coupling`
  * rpylib/model/levydrivensde/levydrivensde.py:35-57      `Constant`, `DiagX`
  * rpylib/model/levydrivensde/levyforwardmodel.py:47-64, levylibormodel.py:53-70   `df`

Conventions.  A vector is an index function `Nat → Rat` used on `0..m-1` (state) or `0..d-1` (driver); a matrix
is `Nat → Nat → Rat` (row = state component, column = driver component).  The driver path the scheme consumes is an
*input*: `n+1` times `t 0 … t n`, diffusion path `W i`, jump path `L i` (what the harness captures by wrapping the
driver's `simulate_one_path`).  Theorems quantify over every such path.
-/
import RpylibModel.Basic.Proto

namespace Rpylib.Sde

abbrev Vec := Nat → Rat
abbrev Mat := Nat → Nat → Rat

/-- Σ_{i<n} f i -/
def sumTo : Nat → (Nat → Rat) → Rat
  | 0, _ => 0
  | n + 1, f => sumTo n f + f n

/-- ∏_{i<n} f i -/
def prodTo : Nat → (Nat → Rat) → Rat
  | 0, _ => 1
  | n + 1, f => prodTo n f * f n

/-- `A @ v` with `d` columns -/
def mv (d : Nat) (A : Mat) (v : Vec) : Vec := fun k => sumTo d (fun j => A k j * v j)

/-- the driver path consumed by the scheme: `mc_path.jump_times`, `.diffusion_path`, `.jump_path`
    (`n + 1` points, `n` increments) -/
structure DriverPath where
  t : Nat → Rat
  W : Nat → Vec
  L : Nat → Vec

def DriverPath.dt (P : DriverPath) (i : Nat) : Rat := P.t (i + 1) - P.t i           -- np.diff(jump_times)
def DriverPath.dW (P : DriverPath) (i : Nat) : Vec := fun j => P.W (i + 1) j - P.W i j   -- np.diff(diffusion_path)
def DriverPath.dL (P : DriverPath) (i : Nat) : Vec := fun j => P.L (i + 1) j - P.L i j   -- np.diff(jump_path)

/-- coefficients of the SDE `dX = b(t,X) dt + a(t,X) dY`: `b` = `sde_drift` (`model.drift`, or the Libor drift term),
    `a` = `model.a`, `mu` = `markov_chain.process_drift()`, `d` = dimension of the driver -/
structure Sde where
  d : Nat
  b : Rat → Vec → Vec
  a : Rat → Vec → Mat
  mu : Vec

/-- the three increments recorded by one pass of the loop body (markovchainsde.py:93-107):
    `drift_dt = (sde_drift_val + a_zi @ mc_drift) * dt`, `d_jump = a_zi @ dL`, `d_diffusion = a_zi @ dW` -/
def driftInc (S : Sde) (P : DriverPath) (z : Vec) (i : Nat) : Vec :=
  fun k => (S.b (P.t i) z k + mv S.d (S.a (P.t i) z) S.mu k) * P.dt i
def jumpInc (S : Sde) (P : DriverPath) (z : Vec) (i : Nat) : Vec := mv S.d (S.a (P.t i) z) (P.dL i)
def diffInc (S : Sde) (P : DriverPath) (z : Vec) (i : Nat) : Vec := mv S.d (S.a (P.t i) z) (P.dW i)

/-- `zi += drift_dt + d_jump + d_diffusion` (markovchainsde.py:104) -/
def eulerStep (S : Sde) (P : DriverPath) (z : Vec) (i : Nat) : Vec :=
  fun k => z k + (driftInc S P z i k + jumpInc S P z i k + diffInc S P z i k)

/-- the state `zi` after `i` passes of the loop, started at `x0` -/
def euler (S : Sde) (P : DriverPath) (x0 : Vec) : Nat → Vec
  | 0 => x0
  | i + 1 => eulerStep S P (euler S P x0 i) i

/-- the three components of the returned `StochasticSDEPath` (markovchainsde.py:109-113): cumulative sums of the
    recorded increments, column 0 being 0 -/
def driftPath (S : Sde) (P : DriverPath) (x0 : Vec) (i : Nat) : Vec :=
  fun k => sumTo i (fun l => driftInc S P (euler S P x0 l) l k)
def jumpPath (S : Sde) (P : DriverPath) (x0 : Vec) (i : Nat) : Vec :=
  fun k => sumTo i (fun l => jumpInc S P (euler S P x0 l) l k)
def diffPath (S : Sde) (P : DriverPath) (x0 : Vec) (i : Nat) : Vec :=
  fun k => sumTo i (fun l => diffInc S P (euler S P x0 l) l k)

/-- `StochasticSDEPath.value()` = drift + diffusion + jump (path.py:120-121) -/
def valuePath (S : Sde) (P : DriverPath) (x0 : Vec) (i : Nat) : Vec :=
  fun k => driftPath S P x0 i k + (diffPath S P x0 i k + jumpPath S P x0 i k)

/-! ### the coefficient functions offered (levydrivensde.py) -/

/-- `Constant`: the same matrix whatever (t, x) -/
def constA (C : Mat) : Rat → Vec → Mat := fun _ _ => C
/-- `DiagX`: diag(x_1 … x_m) -/
def diagA : Rat → Vec → Mat := fun _ x k j => if k = j then x k else 0
/-- `ForwardMarketSDEFunction` / `LiborSDEFunction`: `sigma(t) * x`, row k scaled by x_k -/
def scaleA (sigma : Rat → Mat) : Rat → Vec → Mat := fun t x k j => sigma t k j * x k
def zeroB : Rat → Vec → Vec := fun _ _ _ => 0

/-- the total driver increment of step i seen by component j: `mu_j dt_i + dW_i j + dL_i j` -/
def dY (mu : Vec) (P : DriverPath) (i : Nat) : Vec := fun j => mu j * P.dt i + P.dW i j + P.dL i j

/-! ### coupled scheme on the stacked pair (couplingsde.py:87-131)

`zi` has a leading axis of size 2 (0 = fine, 1 = coarse).  Times are shared; the driver's diffusion and jump paths
and the CTMC drift (`mc_drift_h`, `mc_drift_2h`) carry the same leading axis.  NumPy evaluates `a(t, zi)` on the
stacked array: for the coefficient functions that accept a stacked state this is `a` applied to each component. -/

structure DriverPair where
  t : Nat → Rat
  W : Nat → Nat → Vec      -- component c ∈ {0,1}, time index, driver coordinate
  L : Nat → Nat → Vec

def DriverPair.comp (P : DriverPair) (c : Nat) : DriverPath := ⟨P.t, P.W c, P.L c⟩

structure SdePair where
  d : Nat
  b : Rat → Vec → Vec
  a : Rat → Vec → Mat
  mu : Nat → Vec           -- `np.stack((mc_drift_h, mc_drift_2h))`

def SdePair.comp (S : SdePair) (c : Nat) : Sde := ⟨S.d, S.b, S.a, S.mu c⟩

/-- one pass of the loop body on the stacked state (couplingsde.py:112-121) -/
def eulerStepPair (S : SdePair) (P : DriverPair) (z : Nat → Vec) (i : Nat) : Nat → Vec :=
  fun c k =>
    let A := S.a (P.t i) (z c)                          -- a(t, zi)[c]
    let dt := P.t (i + 1) - P.t i
    let driftDt := (S.b (P.t i) (z c) k + mv S.d A (S.mu c) k) * dt
    let dJump := mv S.d A (fun j => P.L c (i + 1) j - P.L c i j) k
    let dDiff := mv S.d A (fun j => P.W c (i + 1) j - P.W c i j) k
    z c k + (driftDt + dJump + dDiff)

def eulerPair (S : SdePair) (P : DriverPair) (x0 : Vec) : Nat → Nat → Vec
  | 0 => fun _ => x0                                     -- np.stack((x0, x0))
  | i + 1 => eulerStepPair S P (eulerPair S P x0 i) i

/-! ### discount curve of `LevyForwardModel` / `LevyLiborModel` -/

/-- `np.searchsorted(tenors, t)` (side = 'left') on the sorted tenor array: the number of leading tenors `< t`,
    i.e. `tenors[pos-1] < t <= tenors[pos]` -/
def searchLeft : List Rat → Rat → Nat
  | [], _ => 0
  | T :: r, t => if T < t then searchLeft r t + 1 else 0

/-- the accumulated simple-compounding factor `aux` as coded *now* (levyforwardmodel.py:52-63 after the fix
    `aux *= …`), for a given branch index `pos` -/
def auxAt (x T : Nat → Rat) (pos : Nat) (t : Rat) : Rat :=
  if pos = 0 then 1 + x 0 * t
  else (1 + x 0 * T 0) * prodTo (pos - 1) (fun k => 1 + x k * (T (k + 1) - T k)) * (1 + x (pos - 1) * (t - T (pos - 1)))

/-- the pre-fix curve (`aux = 1 + x0[pos-1]*(t - tenors[pos-1])` overwrote the product) — kept as a negation witness -/
def auxAtOld (x T : Nat → Rat) (pos : Nat) (t : Rat) : Rat :=
  if pos = 0 then 1 + x 0 * t else 1 + x (pos - 1) * (t - T (pos - 1))

def nth (l : List Rat) (i : Nat) : Rat := l.getD i 0

def aux (x0 tenors : List Rat) (t : Rat) : Rat := auxAt (nth x0) (nth tenors) (searchLeft tenors t) t
def auxOld (x0 tenors : List Rat) (t : Rat) : Rat := auxAtOld (nth x0) (nth tenors) (searchLeft tenors t) t

/-- `model.df(t)` -/
def dfCurve (x0 tenors : List Rat) (t : Rat) : Rat := 1 / aux x0 tenors t
def dfCurveOld (x0 tenors : List Rat) (t : Rat) : Rat := 1 / auxOld x0 tenors t

/-- the call raises `IndexError` (`x0[pos-1]` with `pos-1 = len(x0)`) beyond the last tenor; `none` stands for that -/
def dfCurve? (x0 tenors : List Rat) (t : Rat) : Option Rat :=
  if searchLeft tenors t ≤ x0.length ∧ 0 < x0.length then some (dfCurve x0 tenors t) else none

/-! ### NumPy shapes: what the offered coefficient objects return on the column state `(m, 1)` of `MarkovChainSDE` and on
the stacked state `(2, m, 1)` of `CouplingSDE` (levydrivensde.py:35-120, markovchainsde.py:78-99, couplingsde.py:91-116)

An array is its shape and its entries by multi-index.  Only the NumPy rules the two schemes exercise are modelled:
broadcasting of `*`, `np.diag`, `@` of a matrix (or a stack of matrices, or a 1-d array) with a column / a stack of
columns.  `none` stands for the exception NumPy raises. -/

structure NArr where
  shape : List Nat
  get : List Nat → Rat

/-- broadcasting of two shapes written right-to-left; `none`: "operands could not be broadcast together" -/
def bshapeRev : List Nat → List Nat → Option (List Nat)
  | [], l => some l
  | a :: r, [] => some (a :: r)
  | a :: r, b :: s =>
    if a = b ∨ b = 1 then (bshapeRev r s).map (fun t => a :: t)
    else if a = 1 then (bshapeRev r s).map (fun t => b :: t) else none

def bshape (s t : List Nat) : Option (List Nat) := (bshapeRev s.reverse t.reverse).map List.reverse

/-- the index an operand of shape `sh` reads at the result index `idx` (aligned on the right, 0 along its axes of
    length 1) -/
def bidx (sh idx : List Nat) : List Nat :=
  List.zipWith (fun n i => if n = 1 then 0 else i) sh (idx.drop (idx.length - sh.length))

/-- elementwise `a * b` with broadcasting -/
def bmul (a b : NArr) : Option NArr :=
  (bshape a.shape b.shape).map (fun sh => ⟨sh, fun idx => a.get (bidx a.shape idx) * b.get (bidx b.shape idx)⟩)

/-- `np.diag`: builds the diagonal matrix of a 1-d array, *extracts* the diagonal of a 2-d array, raises
    `ValueError("Input must be 1- or 2-d.")` otherwise -/
def npDiag (x : NArr) : Option NArr :=
  match x.shape with
  | [n] => some ⟨[n, n], fun idx => match idx with | [i, j] => if i = j then x.get [i] else 0 | _ => 0⟩
  | [r, c] => some ⟨[min r c], fun idx => match idx with | [i] => x.get [i, i] | _ => 0⟩
  | _ => none

/-- `a @ b` for the operand ranks the schemes produce: 1-d @ 2-d, 2-d @ 2-d, 2-d @ stack (the matrix is broadcast
    over the leading axis), stack @ stack; a mismatch of the contracted length raises -/
def matmul (a b : NArr) : Option NArr :=
  match a.shape, b.shape with
  | [k], [k', n] =>
    if k = k' then some ⟨[n], fun idx => match idx with
      | [j] => sumTo k (fun l => a.get [l] * b.get [l, j]) | _ => 0⟩ else none
  | [m, d], [d', n] =>
    if d = d' then some ⟨[m, n], fun idx => match idx with
      | [i, j] => sumTo d (fun l => a.get [i, l] * b.get [l, j]) | _ => 0⟩ else none
  | [m, d], [c, d', n] =>
    if d = d' then some ⟨[c, m, n], fun idx => match idx with
      | [s, i, j] => sumTo d (fun l => a.get [i, l] * b.get [s, l, j]) | _ => 0⟩ else none
  | [c, m, d], [c', d', n] =>
    if d = d' ∧ c = c' then some ⟨[c, m, n], fun idx => match idx with
      | [s, i, j] => sumTo d (fun l => a.get [s, i, l] * b.get [s, l, j]) | _ => 0⟩ else none
  | _, _ => none

/-- `np.array([x]).T`: the column state `(m, 1)` -/
def colArr (m : Nat) (x : Vec) : NArr := ⟨[m, 1], fun idx => match idx with | [k, _] => x k | _ => 0⟩
/-- an `(m, d)` matrix -/
def matArr (m d : Nat) (A : Mat) : NArr := ⟨[m, d], fun idx => match idx with | [k, j] => A k j | _ => 0⟩
/-- `np.stack((a, b))`: leading axis fine / coarse -/
def stack2 (a b : NArr) : NArr :=
  ⟨2 :: a.shape, fun idx => match idx with | c :: r => if c = 0 then a.get r else b.get r | [] => 0⟩

/-- `Constant.__call__` (levydrivensde.py:44-45): the stored `(m, d)` matrix whatever the state -/
def constCall (m d : Nat) (C : Mat) (_x : NArr) : Option NArr := some (matArr m d C)
/-- `DiagX.__call__` (levydrivensde.py:56-57): `np.diag(x)` -/
def diagCall (x : NArr) : Option NArr := npDiag x
/-- `LiborSDEFunction.__call__` / `ForwardMarketSDEFunction.__call__` (levydrivensde.py:84-85, 119-120):
    `self.sigma(t) * x` with `sigma(t)` an `(m, d)` matrix (an input of the model) -/
def scaleCall (m d : Nat) (sigma : Mat) (x : NArr) : Option NArr := bmul (matArr m d sigma) x

/-- `LiborSDEFunction.sigma(t)` (levydrivensde.py:74-82): the row of a Libor rate whose tenor `T_k ≤ t` has passed is
    zero (the rate has fixed), the other rows are those of the constant matrix -/
def liborSigma (sigma : Mat) (T : Nat → Rat) : Rat → Mat := fun t k j => if T k ≤ t then 0 else sigma k j

/-- `a(t, zi) @ v` -/
def applyCoef (a : Option NArr) (v : NArr) : Option NArr := a.bind (fun A => matmul A v)

/-! ### list front-end used by the driver -/

def vecOf (l : List Rat) : Vec := fun i => l.getD i 0
def matOf (l : List (List Rat)) : Mat := fun k j => (l.getD k []).getD j 0
def toList (m : Nat) (v : Vec) : List Rat := (List.range m).map v

/-- affine family of coefficient functions executed by the driver:
    `a(t,x)[k][j] = (C[k][j] + D[k][j]·x_k)·(1 + e·t)`, `b(t,x)[k] = β·x_k + γ`.
    `Constant` is D = 0, e = 0; `DiagX` is C = 0, D = I, e = 0; `sigma * x` is C = 0, D = sigma. -/
def affA (C D : Mat) (e : Rat) : Rat → Vec → Mat := fun t x k j => (C k j + D k j * x k) * (1 + e * t)
def affB (beta gamma : Rat) : Rat → Vec → Vec := fun _ x k => beta * x k + gamma

end Rpylib.Sde
