/-
M for C14, part 2 — `HyperbolicPairing` (rpylib/distribution/pairing.py:138-192) and the number-theoretic helpers of
rpylib/numerical/numbers.py.  Mathlib-free, executable, everything over `Nat`.

What is modelled by its exact result (and said so in harness/props/c14.py NOT_PROVED / TRUSTED):
* `a_n` (numbers.py:18-28) is modelled as coded, `2 * sum_{k <= sqrt n} n // k - sqrt(n)^2`, with `floor(sqrt(n))` (a float
  square root in the code) replaced by the exact `Nat.sqrt`;
* `upper_bound_a_n(z)` (numbers.py:52-82: a Halley iteration for a guess, a heuristic bracket `z -+ 3 z^(1/4)` and a
  bisection inside it) is modelled by its exact result, the `n` with `a_n(n-1) <= z < a_n(n)`, found here by a plain
  bisection on `[0, z+1]` — exactly as `_integer_root` is modelled by `iroot`.  Whether the heuristic bracket always
  contains that `n` is a property of the float code which is compared (probe c14.hyperbolic_hard), not proved;
* `sympy.factorint(n)` + `sorted(...)` is modelled by trial division `factor n` (increasing primes with exponents);
  `sympy.multiplicity(p, m)` by `mult p m`;
* the float division `floor((z - a_n(n-1)) / np.prod(aux[:i]))` and the NumPy integer products are modelled by exact
  integer arithmetic.
-/
import RpylibModel.Model.Pairing

namespace Rpylib.Pairing

/-! ## the divisor summatory function as coded (numbers.py:18-28 `a_n`) -/

/-- `sum(n // k for k in range(1, m + 1))` -/
def sumDiv (n : Nat) : Nat → Nat
  | 0 => 0
  | m + 1 => sumDiv n m + n / (m + 1)

/-- `a_n(n)`: `2 * sum(n // k for k in range(1, sqrt_x + 1)) - sqrt_x**2` -/
def aN (n : Nat) : Nat := 2 * sumDiv n (Nat.sqrt n) - (Nat.sqrt n) ^ 2

/-! ## its inverse (numbers.py:52-82 `upper_bound_a_n`), modelled by the exact result -/

/-- bisection with invariant `aN lo ≤ z < aN hi`; answers `start + 1` as the code does -/
def ubAux (z lo hi : Nat) : Nat :=
  if lo + 1 < hi then
    if aN ((lo + hi) / 2) ≤ z then ubAux z ((lo + hi) / 2) hi else ubAux z lo ((lo + hi) / 2)
  else lo + 1
termination_by hi - lo
decreasing_by all_goals omega

/-- the `n` with `a_n(n-1) ≤ z < a_n(n)` -/
def upperBound (z : Nat) : Nat := ubAux z 0 (z + 1)

/-! ## factorisation (`sympy.factorint`, `sympy.multiplicity`) -/

/-- `multiplicity(p, m)`: the largest `r` with `p^r ∣ m` (0 when `p ≤ 1` or `m = 0`) -/
def mult (p m : Nat) : Nat :=
  if h : 1 < p ∧ 0 < m ∧ m % p = 0 then mult p (m / p) + 1 else 0
termination_by m
decreasing_by exact Nat.div_lt_self h.2.1 h.1

/-- trial division from `p` upwards with `fuel` steps left: `(prime, exponent)` with increasing primes -/
def factorFrom (n p : Nat) : Nat → List (Nat × Nat)
  | 0 => if n ≤ 1 then [] else [(n, 1)]
  | fuel + 1 =>
    if n ≤ 1 then []
    else if n < p * p then [(n, 1)]
    else if n % p = 0 then (p, mult p n) :: factorFrom (n / p ^ mult p n) (p + 1) fuel
    else factorFrom n (p + 1) fuel

/-- `sorted(factorint(n).items())` -/
def factor (n : Nat) : List (Nat × Nat) := factorFrom n 2 n

/-! ## the pairing (pairing.py:141-164) and the projection (pairing.py:166-192) -/

/-- the loop `offset += multiplicity(prime, xx) * cum; cum *= 1 + exponent` over the sorted primes -/
def hypEncode (xx : Nat) : Nat → List (Nat × Nat) → Nat
  | _, [] => 0
  | cum, (p, e) :: fs => mult p xx * cum + hypEncode xx (cum * (e + 1)) fs

/-- `prod(prime**r for prime, r in zip(sorted_primes, x_exponents))` -/
def prodPow : List (Nat × Nat) → List Nat → Nat
  | (p, _) :: fs, r :: rs => p ^ r * prodPow fs rs
  | _, _ => 1

/-- the radices `1 + exponent` (`aux` in the code) -/
def radices (fs : List (Nat × Nat)) : List Nat := fs.map (fun pe => pe.2 + 1)

/-- `HyperbolicPairing.pairing2d` -/
def hypPair (x y : Nat) : Nat :=
  let n := (x + 1) * (y + 1)
  aN (n - 1) + hypEncode (x + 1) 1 (factor n)

/-- the divisor `x` of `n` that the offset `off` stands for: digit `i` is `floor(off / prod(aux[:i])) % (t_i + 1)`,
i.e. the mixed-radix digits `lazyNth` of tools/generic (same formula) -/
def hypDivisor (n off : Nat) : Nat := prodPow (factor n) (lazyNth (radices (factor n)) off)

/-- `HyperbolicPairing.projection2d` -/
def hypProj (z : Nat) : Nat × Nat :=
  let n := upperBound z
  let x := hypDivisor n (z - aN (n - 1))
  (x - 1, n / x - 1)

/-- the hyperbolic pairing as a `P2`: `HyperbolicPairing` inherits the base-class extension to d coordinates
(`P2.pairN`, `P2.projD`) -/
def hyperbolic : P2 := ⟨hypPair, hypProj⟩

end Rpylib.Pairing
