/-
Model of the rectangle mass of `LevyCopulaModel` (rpylib/model/levycopulamodel.py): general formula `_mass_nd`
(158-196: recursion on straddling coordinates + signed volume of tail integrals), hard-coded `_mass_1d`, `_mass_2d`,
`_mass_3d` (198-274), `margin_tail_integral` / `tail_integrals` (301-329).  Mathlib-free, executable.

Everything is generic in the coordinate type `X` (only the comparisons `a < z`, `z < b` and the two infinities the
recursion inserts are used) and in the value type `V` (only `+`, `-`, `0`), over an abstract tail-integral family
`U I x` = tail integral of the I-margin at the points `x` (`margin_tail_integral(indices, x)`).  The driver runs the
very same definitions with `X = Ext Rat`, `V = EVal` (IEEE infinities), `U` either a table of the implementation's own
tail integrals or computed from marginal tail integrals through a copula model of `Copula.lean`.
-/
import RpylibModel.Basic.Proto
import RpylibModel.Model.Copula
namespace Rpylib.CopulaMass
open Rpylib Rpylib.Copula

/-- tail-integral family -/
abbrev Tail (X V : Type) := List Nat → List X → V

section generic
variable {X V : Type} [LT X] [DecidableLT X] [Add V] [Sub V] [Neg V] [Zero V]

/-- `ai < 0 < bi` -/
def straddle (z a b : X) : Bool := decide (a < z) && decide (z < b)

/-- `eps * volume(i_tail_integrals, a, b)`, `eps = -1 if len(a) % 2 else 1` (levycopulamodel.py:193-196) -/
def signedVolume (U : Tail X V) (I : List Nat) (a b : List X) : V :=
  if a.length % 2 = 1 then -(volume (U I) a b) else volume (U I) a b

/-- `_mass_nd`, scanning the coordinates from the left: `done` holds the coordinates already known not to straddle,
    the first straddling coordinate `k` of `rest` produces `j_mass - m1 - m2` with the coordinate removed, replaced
    by `(b_k, +inf)`, replaced by `(-inf, a_k)` (levycopulamodel.py:173-191).  The code re-scans from the start in
    each recursive call; since the earlier coordinates do not straddle and `(b_k, +inf)`, `(-inf, a_k)` do not either
    (`0 < b_k`, `a_k < 0`), the next straddling coordinate it finds is the next one of `rest`. -/
def massGo (U : Tail X V) (z ni pi : X) : List (Nat × X × X) → List (Nat × X × X) → V
  | done, [] => signedVolume U (done.map (·.1)) (done.map (·.2.1)) (done.map (·.2.2))
  | done, (i, a, b) :: rest =>
    if straddle z a b then
      massGo U z ni pi done rest - massGo U z ni pi (done ++ [(i, b, pi)]) rest
        - massGo U z ni pi (done ++ [(i, ni, a)]) rest
    else massGo U z ni pi (done ++ [(i, a, b)]) rest

def zip3 : List Nat → List X → List X → List (Nat × X × X)
  | i :: is, a :: as, b :: bs => (i, a, b) :: zip3 is as bs
  | _, _, _ => []

def massNd (U : Tail X V) (z ni pi : X) (I : List Nat) (a b : List X) : V := massGo U z ni pi [] (zip3 I a b)

/-- `_mass_1d(a, b, index) = u(a) - u(b)` (198-200) -/
def mass1d (U : Tail X V) (i : Nat) (a b : X) : V := U [i] [a] - U [i] [b]

/-- `_mass_2d` (202-222); note `aux = …` (not `+=`) in the second test -/
def mass2d (U : Tail X V) (z : X) : List Nat → List X → List X → V
  | [i], [a], [b] => mass1d U i a b
  | [i1, i2], [a1, a2], [b1, b2] =>
    let aux0 : V := if straddle z a1 b1 then mass1d U i2 a2 b2 else 0
    let aux : V := if straddle z a2 b2 then mass1d U i1 a1 b1 else aux0
    U [i1, i2] [a1, a2] + U [i1, i2] [b1, b2] - U [i1, i2] [a1, b2] - U [i1, i2] [b1, a2] + aux
  | _, _, _ => 0

/-- the four-corner combination `u((a,c)) - u((a,d)) - u((b,c)) + u((b,d))` used by `_mass_3d` -/
def cross (U : Tail X V) (i j : Nat) (a b c d : X) : V :=
  U [i, j] [a, c] - U [i, j] [a, d] - U [i, j] [b, c] + U [i, j] [b, d]

/-- `_mass_3d` (224-274), branch by branch (the branches the code can never reach are kept) -/
def mass3d (U : Tail X V) (z : X) : List Nat → List X → List X → V
  | [i1, i2, i3], [a1, a2, a3], [b1, b2, b3] =>
    let s1 := straddle z a1 b1
    let s2 := straddle z a2 b2
    let s3 := straddle z a3 b3
    let aux : V :=
      if s1 then
        mass2d U z [i2, i3] [a2, a3] [b2, b3] +
          (if s2 then cross U i1 i3 a1 b1 a3 b3 else if s3 then cross U i1 i2 a1 b1 a2 b2 else 0)
      else if s2 then
        mass2d U z [i1, i3] [a1, a3] [b1, b3] +
          (if s1 then cross U i2 i3 a2 b2 a3 b3 else if s3 then cross U i1 i2 a1 b1 a2 b2 else 0)
      else if s3 then
        mass2d U z [i1, i2] [a1, a2] [b1, b2] +
          (if s1 then cross U i2 i3 a2 b2 a3 b3 else if s2 then cross U i1 i3 a1 b1 a3 b3 else 0)
      else 0
    let u := U [i1, i2, i3]
    let vol : V := u [a1, a2, a3] - u [b1, b2, b3] - u [a1, a2, b3] - u [a1, b2, a3] + u [a1, b2, b3]
      - u [b1, a2, a3] + u [b1, a2, b3] + u [b1, b2, a3]
    aux + vol
  | I, a, b => mass2d U z I a b

end generic

/-! ### concrete tail-integral families for the driver (`X = Ext Rat`, `V = EVal`) -/

instance : LT (Ext Rat) := ⟨fun a b => Ext.lt a b = true⟩
instance : DecidableLT (Ext Rat) := fun a b => inferInstanceAs (Decidable (Ext.lt a b = true))

def lookup {κ ω : Type} [DecidableEq κ] (dflt : ω) : List (κ × ω) → κ → ω
  | [], _ => dflt
  | (k, v) :: rest, q => if k = q then v else lookup dflt rest q

/-- table-fed family: the implementation's own `margin_tail_integral(indices, x)` values -/
def tailOfTable (tab : List ((List Nat × List (Ext Rat)) × EVal)) : Tail (Ext Rat) EVal :=
  fun I x => lookup EVal.nan tab (I, x)

/-- `margin_tail_integral` (301-315) on top of marginal tail integrals `u i x` and a copula `F` of dimension `d` -/
def tailOfCopula (F : List (Ext Rat) → EVal) (d : Nat) (u : Nat → Ext Rat → Ext Rat) : Tail (Ext Rat) EVal :=
  fun I x =>
    if I = List.range d then F ((List.range d).zipWith u x)
    else match I, x with
      | [i], [x0] => (u i x0).toEVal
      | _, _ => margin F I d (I.zipWith u x)

end Rpylib.CopulaMass
