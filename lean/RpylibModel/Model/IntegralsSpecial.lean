/-
Model of the closed forms of C09 that involve special functions (Merton: erf; VG mass: E1; CGMY: E1 and incomplete gamma
functions).  Mathlib-free, executable, over `Rat`.

Anchors
  rpylib/model/levymodel/mixed/merton.py:61-114        `_helper_erf_aux`, `integrate`, `integrate_against_x`, `integrate_against_xx`
  rpylib/model/levymodel/purejump/variancegamma.py:118-146  `integrate`
  rpylib/model/levymodel/purejump/cgmy.py:127-190, 215-276  `integrate`, `integrate_against_x`, `integrate_against_xx`,
                                                            `__integrate_h_to_inf`, `__integrate_h_to_inf_for_xx`

As in Integrals.lean irrational values never enter the model: a closed form is the list of its terms `(c, atom)` meaning
`Σ c · value(atom)` with a rational coefficient `c` and an atom with rational arguments.  The proof files give an atom its
real value in terms of parameter functions `erf`, `E1`, `Gam` (with their defining properties as explicit hypotheses); the
harness evaluates the same atoms with mpmath's special functions and compares the sum with the implementation.
`none` = the code raises, recurses forever, or returns a non-finite value / is a numerical quadrature (not a closed form).
-/
import RpylibModel.Model.Integrals

namespace Rpylib.Integrals
open Rpylib

/-! ### Merton (merton.py:61-114): no `a > b` check, no split at zero; `erf(±inf) = ±1` -/

/-- `erfT`: Σ c · erf((u − μ)/(σ√2)) with erf(±∞) = ±1;  `gaussT`: Σ c · σ/√(2π) · exp(−(u − μ)²/(2σ²)) -/
structure MertonTerms where
  erfT : List (Rat × ExtRat)
  gaussT : List (Rat × Rat)

/-- coefficient of `_helper_erf_aux` in `fun_aux` (× intensity): merton.py:72, 88, 103-105 -/
def mertonErfCoef (k : Nat) (lam mu sigma : Rat) : Rat :=
  match k with
  | 0 => (1 / 2) * lam
  | 1 => lam * ((1 / 2) * mu)
  | _ => lam * ((1 / 2) * (mu ^ 2 + sigma ^ 2))

/-- the Gaussian term of `fun_aux(u)` times `s · intensity`: none for the mass; `−σ/√(2π)·e^{…}` for k = 1 (at an infinite
    point numpy evaluates it to 0: dropped); `−σ/√(2π)·(μ + u)·e^{…}` for k = 2, dropped explicitly at ±inf (merton.py:107-108) -/
def mertonGauss (k : Nat) (lam mu s : Rat) : ExtRat → List (Rat × Rat)
  | .fin u =>
    match k with
    | 0 => []
    | 1 => [(s * -lam, u)]
    | _ => [(s * -(lam * (mu + u)), u)]
  | _ => []

/-- merton.py:65-114: `intensity · (fun_aux(b) − fun_aux(a))`; k ≥ 3 is the base-class quadrature (`none`) -/
def mertonTerms (k : Nat) (lam mu sigma : Rat) (a b : ExtRat) : Option MertonTerms :=
  if k ≤ 2 then
    some ⟨[(mertonErfCoef k lam mu sigma, b), (-mertonErfCoef k lam mu sigma, a)],
          mertonGauss k lam mu 1 b ++ mertonGauss k lam mu (-1) a⟩
  else none

/-! ### variance-gamma mass (variancegamma.py:118-146): Σ c · E1(z) -/

/-- as coded, for a ≤ b: infinite end points first (`exp1(inf)` is never evaluated), then both positive / both negative /
    else.  `none`: (−inf, inf) (the code evaluates `exp1(-inf)`) and the shapes with a > b -/
def vgMassTerms (c lp lm : Rat) (a b : ExtRat) : Option (List (Rat × Rat)) :=
  match a, b with
  | .posInf, .posInf => some []                                   -- 129-131
  | .fin a, .posInf => some [(c, lp * a)]                         -- 132-133
  | .negInf, .negInf => some []                                   -- 135-137
  | .negInf, .fin b => some [(c, -lm * b)]                        -- 138-139
  | .fin a, .fin b =>
    if 0 < a ∧ 0 < b then some [(c, lp * a), (-c, lp * b)]        -- 141-142
    else if a < 0 ∧ b < 0 then some [(c, -lm * b), (-c, -lm * a)] -- 143-144
    else some [(c, lp * b), (-c, -lm * a)]                        -- 145-146 (`a < 0 < b` in the comment; the mass is infinite there)
  | _, _ => none

/-! ### CGMY (cgmy.py:127-190, 215-276) -/

/-- atoms of the CGMY closed forms (all arguments rational) -/
inductive CgmyAtom where
  /-- `__integrate_h_to_inf(alpha, h, u)` = ∫_h^∞ e^{−ux} x^{−1−α} dx -/
  | tailMass (alpha u h : Rat)
  /-- `__integrate_h_to_inf_for_xx(alpha, h, u)` = ∫_h^∞ e^{−ux} x^{−α} dx -/
  | tailX (alpha u h : Rat)
  /-- `gamma(s) * gammainc(s, rate*h) / rate**s` = ∫_0^h x^{s−1} e^{−rate·x} dx  (rate ≠ 0; `gammainc(s, inf) = 1`) -/
  | lowGam (s rate : Rat) (h : ExtRat)
  /-- `h ** s / s` = ∫_0^h x^{s−1} dx  (the un-tempered branch `rate == 0`) -/
  | pow (s h : Rat)

abbrev CgmyTerms := List (Rat × CgmyAtom)

/-- cgmy.py:127-140, 237-260 `integrate`.  `none`: the interval has 0 inside or as an end point (y > 0: the code returns inf;
    y ≤ 0: it evaluates the tail at h = 0 — ZeroDivisionError / inf − inf / RecursionError, see the known findings) -/
def cgmyMassTerms (c g m y : Rat) (a b : ExtRat) : Option CgmyTerms :=
  match a, b with
  | .posInf, .posInf => some []
  | .fin a, .posInf => if 0 < a then some [(c, .tailMass y m a)] else none
  | .negInf, .negInf => some []
  | .negInf, .fin b => if b < 0 then some [(c, .tailMass y g (-b))] else none
  | .fin a, .fin b =>
    if 0 < a ∧ 0 < b then some [(c, .tailMass y m a), (-c, .tailMass y m b)]
    else if a < 0 ∧ b < 0 then some [(c, .tailMass y g (-b)), (-c, .tailMass y g (-a))]
    else none
  | _, _ => none

/-- cgmy.py:142-168 `integrate_against_x`, one-sided parts away from 0 (`none` otherwise: h = 0 enters the tail) -/
def cgmyXTerms (c g m y : Rat) (a b : ExtRat) : Option CgmyTerms :=
  match a, b with
  | .fin a, .posInf => if 0 < a then some [(c, .tailX y m a)] else none
  | .negInf, .fin b => if b < 0 then some [(-c, .tailX y g (-b))] else none
  | .fin a, .fin b =>
    if 0 < a then some [(c, .tailX y m a), (-c, .tailX y m b)]                        -- `a >= 0`
    else if a < 0 ∧ b < 0 then some [(c, .tailX y g (-a)), (-c, .tailX y g (-b))]     -- `b <= 0`
    else none
  | _, _ => none

/-- one side of the straddling second moment, cgmy.py:180-188; `h` is `b` resp. `|a|` (> 0, possibly +∞).
    `none`: un-tempered side with an infinite end (`inf ** (2 - y)` = inf) -/
def cgmyXXSide (c y rate : Rat) (h : ExtRat) : Option (Rat × CgmyAtom) :=
  if rate = 0 then
    match h with
    | .fin h => some (c, .pow (2 - y) h)
    | _ => none
  else some (c, .lowGam (2 - y) rate h)

def ExtRat.neg : ExtRat → ExtRat
  | .fin a => .fin (-a)
  | .negInf => .posInf
  | .posInf => .negInf

/-- cgmy.py:170-190 `integrate_against_xx` for `a < 0 < b` (the gammainc form, infinite end points included); every other
    interval is scipy quad (`none`) -/
def cgmyXXTerms (c g m y : Rat) (a b : ExtRat) : Option CgmyTerms :=
  if ExtRat.lt a (.fin 0) && ExtRat.lt (.fin 0) b then
    match cgmyXXSide c y m b, cgmyXXSide c y g (ExtRat.neg a) with
    | some t1, some t2 => some [t1, t2]
    | _, _ => none
  else none

end Rpylib.Integrals
