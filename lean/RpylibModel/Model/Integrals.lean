/-
Model of the closed-form Lévy-measure integrals (property C09).  Mathlib-free, executable, over `Rat`.

Anchors
  rpylib/model/levymodel/levymodel.py:124-127   `_truncated_interval`
  rpylib/model/levymodel/levymodel.py:129-134   `TruncatedLevyMeasure.__call__`
  rpylib/model/levymodel/levymodel.py:152-174   `TruncatedLevyMeasure.integrate*`
  rpylib/model/levymodel/mixed/hem.py:76-166    `integrate`, `integrate_against_x`, `integrate_against_xx`
  rpylib/tools/integral.py:10-43                `_helper_sum_fact_xk`, `integral_xn_exp_minus_x`
  rpylib/model/levymodel/purejump/variancegamma.py:194-208  `integrate_against_xn`

Irrational values never enter the model: a closed form made of exponentials is returned as the list of its
terms `(c, e)`, meaning `Σ c · exp e` with rational `c`, `e` (`Terms`).  The proof file gives that list its real
value (`evalTerms`) and proves it equal to the interval integral of `x^n · density`; the harness evaluates the
same list with `mpmath` and compares it with the implementation.
-/
import RpylibModel.Basic.Proto

namespace Rpylib.Integrals
open Rpylib

/-! ### order helpers (Python's `max(a, b)` is `b if b > a else a`, `min(a, b)` is `b if b < a else a`) -/

def rmax (a b : Rat) : Rat := if a < b then b else a
def rmin (a b : Rat) : Rat := if b < a then b else a
def rabs (x : Rat) : Rat := if x < 0 then -x else x

def ExtRat.lt : ExtRat → ExtRat → Bool
  | .negInf, .negInf => false
  | .negInf, _ => true
  | .fin _, .negInf => false
  | .fin a, .fin b => decide (a < b)
  | .fin _, .posInf => true
  | .posInf, _ => false

/-- `a ≤ b` as Python evaluates it on floats without NaN: `not (b < a)` -/
def ExtRat.le (a b : ExtRat) : Bool := !(ExtRat.lt b a)

def emax (a b : ExtRat) : ExtRat := if ExtRat.lt a b then b else a
def emin (a b : ExtRat) : ExtRat := if ExtRat.lt b a then b else a

/-! ### the truncated measure -/

/-- levymodel.py:127  `max(min(a, r), l), min(max(b, l), r)` (finite end points) -/
def truncatedInterval (l r a b : Rat) : Rat × Rat := (rmax (rmin a r) l, rmin (rmax b l) r)

/-- the same expression on extended end points (what the driver runs; `support()` calls it with ±inf) -/
def truncatedIntervalE (l r a b : ExtRat) : ExtRat × ExtRat := (emax (emin a r) l, emin (emax b l) r)

/-- an inner measure as the truncated wrapper sees it: its `integrate_against_xn(a, b, n)` and its density -/
structure Inner where
  integ : Nat → Rat → Rat → Rat
  dens : Rat → Rat

/-- levymodel.py:152-174: `a > b` raises (`none`), otherwise the inner integral over the clipped interval -/
def truncIntegrate (μ : Inner) (l r : Rat) (n : Nat) (a b : Rat) : Option Rat :=
  if b < a then none
  else
    let p := truncatedInterval l r a b
    some (μ.integ n p.1 p.2)

/-- levymodel.py:129-134 -/
def truncDensity (μ : Inner) (l r x : Rat) : Rat := if r < x ∨ x < l then 0 else μ.dens x

/-! ### the split-at-zero pattern over abstract one-sided antiderivatives

All four families code a one-sided integral as a difference of one function of the end point (a "tail"):
`tp u` stands for ∫_u^∞ (u ≥ 0), `tn u` for ∫_{-∞}^u (u ≤ 0); an infinite end point contributes 0
(hem.py:104,116,142,155; variancegamma.py:129-139; cgmy.py:128-138; integral.py:37-41). -/

/-- `β` is the type of the values (`Rat` in the driver, `ℝ` or any ordered field in the theorems) -/
structure OneSided (β : Type) where
  tp : Rat → β
  tn : Rat → β

section
variable {β : Type} [Zero β] [Add β] [Sub β]

def OneSided.tpE (F : OneSided β) : ExtRat → β
  | .fin u => F.tp u
  | _ => 0

def OneSided.tnE (F : OneSided β) : ExtRat → β
  | .fin u => F.tn u
  | _ => 0

def posForm (F : OneSided β) (a b : ExtRat) : β := F.tpE a - F.tpE b
def negForm (F : OneSided β) (a b : ExtRat) : β := F.tnE b - F.tnE a

/-- hem.py:80-92 (and 98-128, 134-166): `a > b` raises; `b <= 0` negative form; `a >= 0` positive form; else split at 0 -/
def integrate (F : OneSided β) (a b : ExtRat) : Option β :=
  if ExtRat.lt b a then none
  else if ExtRat.le b (.fin 0) then some (negForm F a b)
  else if ExtRat.le (.fin 0) a then some (posForm F a b)
  else some (negForm F a (.fin 0) + posForm F (.fin 0) b)
end

/-- table-driven instance for the driver: tails known at finitely many knots (0 elsewhere) -/
def lookup (ks vs : List Rat) (u : Rat) : Rat :=
  match ks, vs with
  | k :: ks', v :: vs' => if k = u then v else lookup ks' vs' u
  | _, _ => 0

def tableFamily (ks tps tns : List Rat) : OneSided Rat := ⟨lookup ks tps, lookup ks tns⟩

/-! ### `_helper_sum_fact_xk` and `integral_xn_exp_minus_x` (tools/integral.py) -/

def fact : Nat → Nat
  | 0 => 1
  | n + 1 => (n + 1) * fact n

/-- Σ_{k ≤ n} y^k / k! -/
def expPartial : Nat → Rat → Rat
  | 0, _ => 1
  | n + 1, y => expPartial n y + y ^ (n + 1) / (fact (n + 1) : Rat)

/-- integral.py:10-17 (as fixed): `n! · Σ_{k ≤ n} |x|^k / k!` -/
def helperSum (n : Nat) (x : Rat) : Rat := (fact n : Rat) * expPartial n (rabs x)

/-- Σ_{k ≤ n} y^k · k!  — the polynomial of the code before commit 673f3df, kept for the negation witness -/
def oldPartial : Nat → Rat → Rat
  | 0, _ => 1
  | n + 1, y => oldPartial n y + y ^ (n + 1) * (fact (n + 1) : Rat)

def helperSumOld (n : Nat) (x : Rat) : Rat := (fact n : Rat) * oldPartial n (rabs x)

/-- a closed form `Σ c · exp e` with rational coefficients and exponents -/
abbrev Terms := List (Rat × Rat)

def negTerm (t : Rat × Rat) : Rat × Rat := (-t.1, t.2)

/-- integral.py:32  `(-1) ** (n + 1) if a < 0 else 1` -/
def xnSign (n : Nat) (a : ExtRat) : Rat := if ExtRat.lt a (.fin 0) then (-1) ^ (n + 1) else 1

/-- integral.py:34-35  `sign * _helper_sum_fact_xk(n, u * alpha) * exp(-abs(u) * alpha) / alpha ** (n + 1)` -/
def xnHelper (hs : Nat → Rat → Rat) (n : Nat) (alpha sign u : Rat) : Rat × Rat :=
  (sign * hs n (u * alpha) / alpha ^ (n + 1), -(rabs u * alpha))

/-- integral.py:30-43, one-sided part.  `none`: a helper evaluated at an infinite point (`inf * 0 = nan` in the code). -/
def xnExpOneSided (hs : Nat → Rat → Rat) (n : Nat) (alpha : Rat) (a b : ExtRat) : Option Terms :=
  let s := xnSign n a
  match a, b with
  | .negInf, .fin b => some [negTerm (xnHelper hs n alpha s b)]
  | .fin a, .posInf => some [xnHelper hs n alpha s a]
  | .fin a, .fin b => some [xnHelper hs n alpha s a, negTerm (xnHelper hs n alpha s b)]
  | _, _ => none

/-- integral.py:20-43.  `alpha <= 0` raises (`none`); `a < 0 < b` splits at 0; no `a > b` check in the code. -/
def xnExpTermsWith (hs : Nat → Rat → Rat) (n : Nat) (alpha : Rat) (a b : ExtRat) : Option Terms :=
  if alpha ≤ 0 then none
  else if ExtRat.lt a (.fin 0) && ExtRat.lt (.fin 0) b then
    match xnExpOneSided hs n alpha a (.fin 0), xnExpOneSided hs n alpha (.fin 0) b with
    | some t1, some t2 => some (t1 ++ t2)
    | _, _ => none
  else xnExpOneSided hs n alpha a b

def xnExpTerms := xnExpTermsWith helperSum
def xnExpTermsOld := xnExpTermsWith helperSumOld

/-- multiply every coefficient -/
def scaleTerms (k : Rat) (t : Terms) : Terms := t.map (fun p => (k * p.1, p.2))

/-- variancegamma.py:194-208 for n ≥ 1 (n = 0 is `integrate`, exponential integrals, not modelled):
    split at 0; `b <= 0`: `-c · I_{n-1}(a, b; λ₋)`; else `c · I_{n-1}(a, b; λ₊)` -/
def vgXnTerms (c lp lm : Rat) (n : Nat) (a b : ExtRat) : Option Terms :=
  if n = 0 then none
  else if ExtRat.lt a (.fin 0) && ExtRat.lt (.fin 0) b then
    match xnExpTerms (n - 1) lm a (.fin 0), xnExpTerms (n - 1) lp (.fin 0) b with
    | some t1, some t2 => some (scaleTerms (-c) t1 ++ scaleTerms c t2)
    | _, _ => none
  else if ExtRat.le b (.fin 0) then (xnExpTerms (n - 1) lm a b).map (scaleTerms (-c))
  else (xnExpTerms (n - 1) lp a b).map (scaleTerms c)

/-! ### HEM closed forms (hem.py:76-166); `lam` = intensity -/

/-- one term `(c, e)` of the negative-side HEM forms at the end point `u` (`w` = λ(1−p)); `k` = power of x -/
def hemNegTerm (k : Nat) (w eta2 u : Rat) : Rat × Rat :=
  match k with
  | 0 => (w, eta2 * u)                                                  -- hem.py:87
  | 1 => (w * (u - 1 / eta2), eta2 * u)                                 -- hem.py:105-113
  | _ => (w * ((u * eta2) * (u * eta2 - 2) + 2) / eta2 ^ 2, u * eta2)   -- hem.py:140-151

/-- one term of the positive-side HEM forms (`w` = λp) -/
def hemPosTerm (k : Nat) (w eta1 u : Rat) : Rat × Rat :=
  match k with
  | 0 => (w, -eta1 * u)                                                 -- hem.py:90
  | 1 => (w * (u + 1 / eta1), -eta1 * u)                                -- hem.py:117-126
  | _ => (w * ((u * eta1) * (u * eta1 + 2) + 2) / eta1 ^ 2, -(u * eta1))  -- hem.py:153-164

/-- negative side (`b ≤ 0`), as coded: value at b minus value at a; `a = -inf` contributes nothing -/
def hemNeg (k : Nat) (lam p eta2 : Rat) (a b : ExtRat) : Option Terms :=
  let w := lam * (1 - p)
  match a, b with
  | .negInf, .fin b => some [hemNegTerm k w eta2 b]
  | .fin a, .fin b => some [hemNegTerm k w eta2 b, negTerm (hemNegTerm k w eta2 a)]
  | _, _ => none

/-- positive side (`a ≥ 0`), as coded: value at a minus value at b; `b = inf` contributes nothing -/
def hemPos (k : Nat) (lam p eta1 : Rat) (a b : ExtRat) : Option Terms :=
  let w := lam * p
  match a, b with
  | .fin a, .posInf => some [hemPosTerm k w eta1 a]
  | .fin a, .fin b => some [hemPosTerm k w eta1 a, negTerm (hemPosTerm k w eta1 b)]
  | _, _ => none

/-- hem.py:76-166: `a > b` raises; `b <= 0` negative form; `a >= 0` positive form; else split at 0 -/
def hemTerms (k : Nat) (lam p eta1 eta2 : Rat) (a b : ExtRat) : Option Terms :=
  if ExtRat.lt b a then none
  else if ExtRat.le b (.fin 0) then hemNeg k lam p eta2 a b
  else if ExtRat.le (.fin 0) a then hemPos k lam p eta1 a b
  else
    match hemNeg k lam p eta2 a (.fin 0), hemPos k lam p eta1 (.fin 0) b with
    | some t1, some t2 => some (t1 ++ t2)
    | _, _ => none

end Rpylib.Integrals
