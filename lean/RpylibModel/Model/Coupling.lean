/-
Model of the level coupling of the multilevel scheme (property C03).  Mathlib-free, executable.

Anchors
  rpylib/process/coupling/couplingmarkovchain.py:171-188  probability_to_right_jump
  rpylib/process/coupling/couplingmarkovchain.py:190-209  coupling_state (1-d)
  rpylib/process/coupling/couplingmarkovchain.py:85-141   next_level (grid refined in place, coefficients shifted)
  rpylib/process/coupling/couplingmarkovchain.py:153-166  simulate_diffusion_with_coupling (one `w` for both components)
  rpylib/process/coupling/couplinglevycopula.py:157-216   __coupling_state (n-d corner probabilities from I-margin masses)
  rpylib/process/coupling/couplinglevycopula.py:90-125    next_level (diffusion matrices shifted)
  rpylib/process/process.py:52-57                         deterministic_path = x0 + process_drift * t
  rpylib/grid/spatial.py:110-120                          refine (Model/Grid.lean)
  rpylib/process/coupling/couplingsde.py:21-52,66-73,133-146  CouplingSDE: constructor, initialisation, next_level (`SdeLevel`)
  rpylib/process/coupling/couplingsde.py:87-111           which driver drift / driver path each Euler component reads (`sdeUses`)

The coarse grid is the set of even indices of the refined (fine) grid.  A fine jump with an even increment is copied, a
fine jump with an odd increment is moved to one of the two neighbours (1-d) / one of the 2^|S| corners (n-d, S = the odd
coordinates).  The measure enters through interval masses `m a b` (1-d: `fine_process.model.mass`) and, in n-d, through
`m indices box` (= `model.mass(a, b, indices)`, the I-margin of the Lévy measure for `indices`).
-/
import RpylibModel.Model.Cells

namespace Rpylib.Coupling
open Rpylib.Grid Rpylib.Cells

/-! ### 1-d: `CouplingSimulation` -/

/-- `position = grid.origin_coordinate + increment` (increments are index offsets, possibly negative) -/
def posOf (o : Nat) (inc : Int) : Nat := ((o : Int) + inc).toNat

/-- `val_right = mass(state_value, mid_point_right)` -/
def valRight (mid : Rat → Rat → Rat) (ax : List Rat) (m : Rat → Rat → Rat) (k : Nat) : Rat :=
  m (pt ax k) (cellHi mid ax k)

/-- `val_left = mass(mid_point_left, state_value)` -/
def valLeft (mid : Rat → Rat → Rat) (ax : List Rat) (m : Rat → Rat → Rat) (k : Nat) : Rat :=
  m (cellLo mid ax k) (pt ax k)

/-- `probability_to_right_jump` at position k: `val_right / (val_left + val_right)`.  For a cell of mass 0 the
    implementation divides 0 by 0 (NaN with a RuntimeWarning); such a state has rate 0 and is never drawn, see `sentRight`.
    (`Rat` division by 0 is 0; no theorem below relies on that.) -/
def pRight (mid : Rat → Rat → Rat) (ax : List Rat) (m : Rat → Rat → Rat) (k : Nat) : Rat :=
  valRight mid ax m k / (valLeft mid ax m k + valRight mid ax m k)

/-- index of the state `coupling_state` returns for the fine position k (`right` = outcome of `u < probability`);
    `increment % 2` is Python's non-negative remainder = `Int.emod` -/
def couple1dIdx (n k : Nat) (inc : Int) (right : Bool) : Nat :=
  if inc % 2 = 0 then k else if right then min (n - 1) (k + 1) else k - 1

/-- `coupling_state(increment)` as a function of the coupling uniform: the *value* of the coarse jump -/
def couple1d (mid : Rat → Rat → Rat) (ax : List Rat) (o : Nat) (m : Rat → Rat → Rat) (inc : Int) (u : Rat) : Rat :=
  let k := posOf o inc
  if inc % 2 = 0 then pt ax k
  else if u < pRight mid ax m k then rightPoint ax k else leftPoint ax k

/-- `coupling_states_for_a_slice`: running sums of the coupled jumps of one time slice (one uniform per odd *or even*
    increment is not drawn: `uniform.sample()` is only called for odd increments; `us` lists the uniforms consumed) -/
def coupleSlice (mid : Rat → Rat → Rat) (ax : List Rat) (o : Nat) (m : Rat → Rat → Rat) :
    List Int → List Rat → Rat → List Rat
  | [], _, _ => []
  | inc :: rest, us, cur =>
    if inc % 2 = 0 then
      let v := cur + couple1d mid ax o m inc 0
      v :: coupleSlice mid ax o m rest us v
    else
      let v := cur + couple1d mid ax o m inc (us.headD 0)
      v :: coupleSlice mid ax o m rest us.tail v

/-- rate at which the fine state k is sent to its right neighbour.  A state of rate 0 is never drawn by the sampler, so
    it sends nothing whatever `probability_to_right_jump` would evaluate to there (0/0). -/
def sentRight (mid : Rat → Rat → Rat) (ax : List Rat) (o : Nat) (m : Rat → Rat → Rat) (k : Nat) : Rat :=
  if rate mid ax o m k = 0 then 0 else rate mid ax o m k * pRight mid ax m k

def sentLeft (mid : Rat → Rat → Rat) (ax : List Rat) (o : Nat) (m : Rat → Rat → Rat) (k : Nat) : Rat :=
  if rate mid ax o m k = 0 then 0 else rate mid ax o m k * (1 - pRight mid ax m k)

/-- rate at which the fine state k is sent to the state y by the coupling (`coupling_state` with a uniform `u`):
    even k: copied; odd k: to k+1 with probability pRight, to k-1 otherwise -/
def flow1d (mid : Rat → Rat → Rat) (ax : List Rat) (o : Nat) (m : Rat → Rat → Rat) (k y : Nat) : Rat :=
  if k % 2 = 0 then (if k = y then rate mid ax o m k else 0)
  else (if k + 1 = y then sentRight mid ax o m k else 0) + (if k = y + 1 then sentLeft mid ax o m k else 0)

/-- jump rate of the coarse component of the coupled pair to the fine-grid index y: sum over all fine states of
    (fine rate) x (probability that the coupling sends that state to y) -/
def coupledRate (mid : Rat → Rat → Rat) (ax : List Rat) (o : Nat) (m : Rat → Rat → Rat) (y : Nat) : Rat :=
  ((List.range ax.length).map (fun k => flow1d mid ax o m k y)).sum

/-- the coarse grid inside the fine one: the states with even index -/
def coarsen : List Rat → List Rat
  | [] => []
  | [x] => [x]
  | x :: _ :: rest => x :: coarsen rest

/-! ### levels: `next_level` -/

/-- what `next_level` reads off the chain built on a grid: `equivalent_diffusion_coefficient` (a matrix in the copula
    case), `process_drift()` after `initialisation`, `model.x0_value()` -/
structure ChainParams (D : Type) where
  diff : D
  drift : Rat
  x0 : Rat

/-- `deterministic_path(t) = x0 + process_drift * t` -/
def ChainParams.detPath {D : Type} (c : ChainParams D) (t : Rat) : Rat := c.x0 + c.drift * t

/-- the mutable state of `CouplingMarkovChain` / `CouplingProcessLevyCopula` -/
structure Level (D : Type) where
  level : Nat
  grid : Grid
  diffFine : D
  diffCoarse : D
  fine : ChainParams D
  /-- `(freeze_spots, freeze_process_drift)` of `coarse_deterministic_path`; `none` before the first `next_level` -/
  frozen : Option (Rat × Rat)

/-- constructor: level 0, `equivalent_diffusion_coefficient_coarse = 0` (`zero : D`) -/
def initLevel {D : Type} (zero : D) (chain : Grid → ChainParams D) (g : Grid) : Level D :=
  { level := 0, grid := g, diffFine := (chain g).diff, diffCoarse := zero, fine := chain g, frozen := none }

/-- `next_level`: freeze the deterministic path of the current fine process, refine the grid in place, the fine
    coefficient becomes the coarse one, a new fine process is built on the refined grid -/
def nextLevel {D : Type} (mid : Rat → Rat → Rat) (chain : Grid → ChainParams D) (L : Level D) : Level D :=
  let g' := L.grid.refine mid
  { level := L.level + 1, grid := g', diffFine := (chain g').diff, diffCoarse := L.diffFine, fine := chain g',
    frozen := some (L.fine.detPath 0, L.fine.detPath 1 - L.fine.detPath 0) }

def levelAt {D : Type} (zero : D) (mid : Rat → Rat → Rat) (chain : Grid → ChainParams D) (g : Grid) : Nat → Level D
  | 0 => initLevel zero chain g
  | l + 1 => nextLevel mid chain (levelAt zero mid chain g l)

/-- `coarse_deterministic_path(t) = freeze_spots + freeze_process_drift * t` -/
def coarsePath {D : Type} (L : Level D) (t : Rat) : Option Rat := L.frozen.map (fun f => f.1 + f.2 * t)

/-- running sums -/
def cumsum : List Rat → Rat → List Rat
  | [], _ => []
  | x :: rest, acc => (acc + x) :: cumsum rest (acc + x)

/-- `np.cumsum((sqrt_dts * coefficient) * w)` -/
def diffPath (coef : Rat) (sqrtDts w : List Rat) : List Rat :=
  cumsum (List.zipWith (fun s x => s * coef * x) sqrtDts w) 0

/-- `simulate_diffusion_with_coupling`: the *same* Brownian increments `w` scaled by the two coefficients -/
def diffPaths (L : Level Rat) (sqrtDts w : List Rat) : List Rat × List Rat :=
  (diffPath L.diffFine sqrtDts w, diffPath L.diffCoarse sqrtDts w)

/-! ### n-d: `CouplingLevyCopulaSimulation.__coupling_state` -/

/-- `model.mass(a, b, indices)`: mass of the box under the I-margin (`indices`) of the Lévy measure -/
abbrev MarginMass := List Nat → Box → Rat

/-- the coordinates left in `axis_coordinates` once every even one has been removed (the recursion removes the first
    even coordinate and calls itself again): the odd coordinates, in increasing order -/
def oddAxes (inc : List Int) : List Nat := (List.range inc.length).filter (fun i => inc.getD i 0 % 2 != 0)

/-- `grid.origin_coordinate + increment` -/
def posNd (o : Nat) (inc : List Int) : List Nat := inc.map (posOf o)

/-- `grid[CoordinateND(cs)] = tuple(axes[k][c] for k, c in enumerate(cs))`: the axis is chosen by the *position in the
    tuple* -/
def valuesAt (axes : List (List Rat)) (cs : List Nat) : List Rat :=
  (List.range cs.length).map (fun k => pt (axes.getD k []) (cs.getD k 0))

/-- `projected_position` -/
def projPos (S : List Nat) (pos : List Nat) : List Nat := S.map (fun s => pos.getD s 0)

/-- `projected_value = tuple(value[k] for k in axis_coordinates)` (taken from the right axes) -/
def projVal (axes : List (List Rat)) (S : List Nat) (pos : List Nat) : List Rat :=
  S.map (fun s => pt (axes.getD s []) (pos.getD s 0))

/-- `grid.left_point(projected_position)`: `axes[k][max(0, c-1)]` with k the position in the *projected* tuple, i.e.
    axis 0 for the first odd coordinate whichever coordinate that is (same thing on grids whose axes are all equal) -/
def projLeftPt (axes : List (List Rat)) (pp : List Nat) : List Rat :=
  (List.range pp.length).map (fun k => leftPoint (axes.getD k []) (pp.getD k 0))

/-- `grid.right_point(projected_position)`: `axes[k][min(len(axes[k]) - 1, c + 1)]`, same indexing (spatial.py:91-96) -/
def projRightPt (axes : List (List Rat)) (pp : List Nat) : List Rat :=
  (List.range pp.length).map (fun k => rightPoint (axes.getD k []) (pp.getD k 0))

/-- `CTMCGrid.middle` on tuples -/
def midT (a b : List Rat) : List Rat := List.zipWith amid a b

/-- the box `[projected_mid_left_value, projected_mid_right_value]` whose I-margin mass is `total_mass` -/
def totalBox (axes : List (List Rat)) (S pos : List Nat) : Box :=
  let pv := projVal axes S pos
  let pp := projPos S pos
  List.zip (midT (projLeftPt axes pp) pv) (midT pv (projRightPt axes pp))

/-- `product([-1, 1], repeat=r)`: first factor slowest -/
def signs (r : Nat) : List (List Int) := cartesian (List.replicate r [-1, 1])

/-- `p_value = grid[projected_position + p]` -/
def cornerVal (axes : List (List Rat)) (pp : List Nat) (p : List Int) : List Rat :=
  (List.range pp.length).map (fun k => pt (axes.getD k []) (posOf (pp.getD k 0) (p.getD k 0)))

/-- the box between `projected_value` and `middle(p_value, projected_value)` -/
def cornerBox (axes : List (List Rat)) (S pos : List Nat) (p : List Int) : Box :=
  let pv := projVal axes S pos
  let pm := midT (cornerVal axes (projPos S pos) p) pv
  List.zipWith (fun v q => (min v q, max v q)) pv pm

/-- `p_mass / total_mass` -/
def cornerProb (axes : List (List Rat)) (m : MarginMass) (S pos : List Nat) (p : List Int) : Rat :=
  m S (cornerBox axes S pos p) / m S (totalBox axes S pos)

/-- the value returned for corner p: `p_value[axis_coordinates.index(k)] if k in axis_coordinates else value[k]` -/
def cornerRes (axes : List (List Rat)) (S pos : List Nat) (p : List Int) : List Rat :=
  let pval := cornerVal axes (projPos S pos) p
  let value := valuesAt axes pos
  (List.range pos.length).map (fun k => if S.contains k then pval.getD (S.idxOf k) 0 else value.getD k 0)

/-- the coordinates of the state corner p stands for -/
def cornerIdx (S pos : List Nat) (p : List Int) : List Nat :=
  (List.range pos.length).map (fun k =>
    if S.contains k then posOf (pos.getD k 0) (p.getD (S.idxOf k) 0) else pos.getD k 0)

/-- the corner probabilities in the order of the loop -/
def cornerProbs (axes : List (List Rat)) (o : Nat) (m : MarginMass) (inc : List Int) : List Rat :=
  let S := oddAxes inc
  (signs S.length).map (cornerProb axes m S (posNd o inc))

/-- first corner whose cumulated probability reaches u (`if u <= probability: return`); `none` = the
    `raise ValueError("… Numerical error? …")` after the loop -/
def pickCorner (u : Rat) : List (Rat × List Rat) → Rat → Option (List Rat)
  | [], _ => none
  | (p, res) :: rest, acc => if u ≤ acc + p then some res else pickCorner u rest (acc + p)

/-- `__coupling_state(increment)` as a function of the coupling uniform -/
def coupleNd (axes : List (List Rat)) (o : Nat) (m : MarginMass) (inc : List Int) (u : Rat) : Option (List Rat) :=
  let S := oddAxes inc
  let pos := posNd o inc
  if S.isEmpty then some (valuesAt axes pos)
  else pickCorner u ((signs S.length).map (fun p => (cornerProb axes m S pos p, cornerRes axes S pos p))) 0

/-- probability that the coupling sends the fine state with coordinates `cs` to the state with coordinates `ys` -/
def sendProbNd (axes : List (List Rat)) (o : Nat) (m : MarginMass) (cs ys : List Nat) : Rat :=
  let inc : List Int := cs.map (fun (c : Nat) => (c : Int) - (o : Int))
  let S := oddAxes inc
  if S.isEmpty then (if cs = ys then 1 else 0)
  else (((signs S.length).filter (fun p => cornerIdx S cs p == ys)).map (cornerProb axes m S cs)).sum

/-- the joint measure: `mass(a, b)` = `mass(a, b, [0,…,d-1])` -/
def joint (d : Nat) (m : MarginMass) : Box → Rat := m (List.range d)

/-- rate x probability for one fine state; a state of rate 0 is never drawn (its `total_mass` may be 0) -/
def flowNd (axes : List (List Rat)) (o : Nat) (m : MarginMass) (cs ys : List Nat) : Rat :=
  let r := rateNd amid axes o (joint axes.length m) cs
  if r = 0 then 0 else r * sendProbNd axes o m cs ys

/-- 2-d: jump rate of the coarse component of the coupled pair to the state with fine-grid coordinates `ys` -/
def coupledRate2 (axes : List (List Rat)) (o : Nat) (m : MarginMass) (ys : List Nat) : Rat :=
  ((List.range (axes.getD 0 []).length).map (fun i =>
    ((List.range (axes.getD 1 []).length).map (fun j => flowNd axes o m [i, j] ys)).sum)).sum

/-- any d (executable; used by the driver) -/
def coupledRateNd (axes : List (List Rat)) (o : Nat) (m : MarginMass) (ys : List Nat) : Rat :=
  ((states axes).map (fun cs => flowNd axes o m cs ys)).sum

/-! ### what the coupling asks of `mass` (driver input: values measured on the implementation) -/

/-- 1-d: the two half cells of every odd position, then the cells of all non-origin states of the fine grid -/
def queries1d (mid : Rat → Rat → Rat) (ax : List Rat) (o : Nat) : List (Rat × Rat) :=
  let odd := (List.range ax.length).filter (fun k => k % 2 == 1)
  odd.flatMap (fun k => [(cellLo mid ax k, pt ax k), (pt ax k, cellHi mid ax k)]) ++
    ((List.range ax.length).filter (fun k => k != o)).map (fun k => (cellLo mid ax k, cellHi mid ax k))

/-- n-d: for one fine state the (index set, box) pairs `__coupling_state` evaluates: total, then the corners -/
def queriesState (axes : List (List Rat)) (o : Nat) (cs : List Nat) : List (List Nat × Box) :=
  let inc : List Int := cs.map (fun (c : Nat) => (c : Int) - (o : Int))
  let S := oddAxes inc
  if S.isEmpty then [] else (S, totalBox axes S cs) :: (signs S.length).map (fun p => (S, cornerBox axes S cs p))

def tableMargin (tbl : List ((List Nat × Box) × Rat)) (S : List Nat) (b : Box) : Rat :=
  match tbl.find? (fun t => t.1.1 == S && t.1.2 == b) with
  | some t => t.2
  | none => 0

/-! ### a concrete dependent 2-d measure (negation witness of the n-d telescoping, Proofs/C03.lean) -/

/-- length of `[a, b] ∩ [k0, k1]` -/
def ov (k0 k1 a b : Rat) : Rat := max 0 (min k1 b - max k0 a)

/-- the Lévy measure "Lebesgue measure of x on the segment {(x, 2x) : 0 ≤ x ≤ 1/2}" (complete dependence): its joint box
    mass and its two margins (density 1 on [0, 1/2]; density 1/2 on [0, 1]).  On the implementation: `TableMeasure`
    margins with `DependentComponents` copula. -/
def lineMargin : MarginMass := fun S box =>
  match S, box with
  | [0], [(a, b)] => ov 0 (1/2) a b
  | [1], [(c, d)] => ov 0 1 c d / 2
  | [0, 1], [(a, b), (c, d)] => ov 0 (1/2) (max a (c / 2)) (min b (d / 2))
  | _, _ => 0

def cexCoarse : List Rat := [-1, 0, 1]
def cexFine : List Rat := refine amid cexCoarse

/-! ### d = 3 and measures carried by the coordinate axes (Proofs/C03.lean, non-vacuity of the independent case) -/

/-- 3-d: jump rate of the coarse component of the coupled pair to the state with fine-grid coordinates `ys` -/
def coupledRate3 (axes : List (List Rat)) (o : Nat) (m : MarginMass) (ys : List Nat) : Rat :=
  ((List.range (axes.getD 0 []).length).map (fun i =>
    ((List.range (axes.getD 1 []).length).map (fun j =>
      ((List.range (axes.getD 2 []).length).map (fun k => flowNd axes o m [i, j, k] ys)).sum)).sum)).sum

/-- 0 lies strictly inside `[a, b]` -/
def straddles (a b : Rat) : Bool := decide (a < 0) && decide (0 < b)

/-- independent components with Lebesgue margins: the measure `dx ⊗ δ0 (⊗ δ0) + δ0 ⊗ dx (⊗ δ0) (+ δ0 ⊗ δ0 ⊗ dx)`, on the boxes
    the chain uses (every side strictly on one side of 0 or strictly straddling it), and its margins -/
def indepMargin : MarginMass := fun S box =>
  match S, box with
  | [_], [(a, b)] => b - a
  | [0, 1], [(a, b), (c, d)] => (if straddles c d then b - a else 0) + (if straddles a b then d - c else 0)
  | [0, 1, 2], [(a, b), (c, d), (e, f)] =>
    (if straddles c d && straddles e f then b - a else 0) + (if straddles a b && straddles e f then d - c else 0) +
      (if straddles a b && straddles c d then f - e else 0)
  | _, _ => 0

/-- the coarse axis of the non-vacuity examples -/
def exCoarse : List Rat := [-2, -1, 0, 1, 3]
def exFine : List Rat := refine amid exCoarse

/-- Lebesgue measure on every index set (a product measure: all margins are Lebesgue): non-vacuity of the hypotheses of
    `corner_probs_sum_one_3d` -/
def lebMargin : MarginMass := fun _ box => (box.map (fun p => p.2 - p.1)).foldr (· * ·) 1

/-! ### two different axes (negation witness of the d = 2 statements without the equal-axes hypothesis) -/

def cexCoarseA : List Rat := [-2, -1, 0, 1, 2]
def cexCoarseB : List Rat := [-1, -1/2, 0, 1/4, 1/2]
/-- `[-2, -3/2, -1, -1/2, 0, 1/2, 1, 3/2, 2]` -/
def cexFineA : List Rat := refine amid cexCoarseA
/-- `[-1, -3/4, -1/2, -1/4, 0, 1/8, 1/4, 3/8, 1/2]` -/
def cexFineB : List Rat := refine amid cexCoarseB

/-! ### `CouplingSDE`: the record kept by `next_level` (couplingsde.py)

The Euler recursion of the coupled SDE (C16) reads, for the component c ∈ {fine, coarse}: the driver's CTMC drift
`mc_drift[c]` (`mc_drift_h`, `mc_drift_2h`), the c-th component of the coupled driver path produced by
`driver_coupling_process` (jumps coupled as above, diffusion `diffFine * w` / `diffCoarse * w` from the same `w`), the one
coefficient function `model.a` and the one `sde_drift`.  `next_level` shifts these quantities. -/

structure SdeLevel where
  level : Nat
  /-- `driver_coupling_process` (a `CouplingMarkovChain` / `CouplingProcessLevyCopula`); `path_managers=None` is passed to its
      `next_level`, so no frozen deterministic path is created there -/
  drv : Level Rat
  /-- `mc_drift_h` -/
  mcDriftH : Rat
  /-- `mc_drift_2h` (`None` before the first `next_level`) -/
  mcDrift2H : Option Rat
  /-- the spatial step whose Blumenthal-Getoor power is `epsilon` (the maximum time step handed to the driver) -/
  epsH : Rat

/-- constructor + `initialisation` at level 0: `mc_drift_h = fine_process.markov_chain.process_drift()`, `epsilon = grid.h ** BG` -/
def sdeInit (chain : Grid → ChainParams Rat) (g : Grid) : SdeLevel :=
  { level := 0, drv := initLevel 0 chain g, mcDriftH := (chain g).drift, mcDrift2H := none, epsH := g.h }

/-- `CouplingSDE.next_level`: `epsilon = (driver.grid.h / 2) ** BG`, `mc_drift_2h = deepcopy(mc_drift_h)`, the driver coupling
    moves to its next level, `mc_drift_h = driver_coupling_process.fine_process.process_drift()` -/
def sdeNext (mid : Rat → Rat → Rat) (chain : Grid → ChainParams Rat) (S : SdeLevel) : SdeLevel :=
  let drv' := { nextLevel mid chain S.drv with frozen := none }
  { level := S.level + 1, drv := drv', mcDriftH := drv'.fine.drift, mcDrift2H := some S.mcDriftH, epsH := S.drv.grid.h / 2 }

def sdeLevelAt (mid : Rat → Rat → Rat) (chain : Grid → ChainParams Rat) (g : Grid) : Nat → SdeLevel
  | 0 => sdeInit chain g
  | l + 1 => sdeNext mid chain (sdeLevelAt mid chain g l)

/-- the driver quantities the Euler recursion of component c (0 = fine, 1 = coarse) reads: (CTMC drift of the driver,
    diffusion coefficient applied to the shared Brownian increments); `none`: no coarse component before the first `next_level` -/
def sdeUses (S : SdeLevel) (c : Nat) : Option (Rat × Rat) :=
  if c = 0 then some (S.mcDriftH, S.drv.diffFine) else S.mcDrift2H.map (fun mu => (mu, S.drv.diffCoarse))

end Rpylib.Coupling
