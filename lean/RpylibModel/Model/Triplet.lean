/-
C10 — Lévy triplet: drift conversion between the Lévy–Khintchine representations, the martingale correction `omega`
and the per-family direct-simulation drifts.                                         Mathlib-free, executable.

Anchors (as the code is NOW, i.e. after fix 203f837 "direct-simulation drift of the exponential HEM model includes the
-sigma^2/2 correction"):
  levymodel/levymodel.py:21-29    LevyRepresentation ZERO (h = 0) | CENTER (h = x) | ONEONE (h = x 1_{|x|<1}) | TILDE
  levymodel/levymodel.py:215-247  canonical_drift: from the *current* representation to ONEONE
                                    ONEONE: a;  ZERO, or TILDE with finite variation: a + m1(-1,1);
                                    CENTER: a - (m1(-inf,-1) + m1(1,inf));  TILDE with infinite variation: a
  levymodel/levymodel.py:249-275  zero_drift = canonical - m1(-1,1);  center_drift = canonical + tails;
                                  tilde_drift = canonical - m1(-1,1) if finite variation else canonical
  levymodel/levymodel.py:277-286  set_representation: nothing if unchanged, else a := drift_mapping[new](), then rep := new
  levymodel/levymodel.py:402-410  levy_exponent(x) = i x a - (x sigma)^2/2 + levy_exponent_pure_jump(i x)
                                  (at x = -i:  a + sigma^2/2 + kappa(1))
  exponentialoflevymodel.py:118   omega = -levy_exponent(-i).real;   :137 drift() = r - d + omega
  mixed/blackscholes.py:133-134   process_drift = r - d - sigma^2/2
  mixed/merton.py:193-210         _process_drift = r - d - sigma^2/2 - intensity*(exp(mu_j + sigma_j^2/2) - 1)
  mixed/hem.py:216-219            levy_exponent_pure_jump(x) = intensity*(p eta1/(eta1-x) + (1-p) eta2/(eta2+x) - 1)
  mixed/hem.py:240-245            _process_drift = r - d - sigma^2/2 - intensity*_xi      (before 203f837: r - d - intensity*_xi)

`m1 (-1,1)` and the two tails are abstract numbers (the measure's own `integrate_against_x` values), so is the finite-variation
flag: the theorems hold for every measure.
-/
import RpylibModel.Basic.Proto

namespace Rpylib.Triplet

inductive Rep | zero | center | oneone | tilde
  deriving DecidableEq, Repr

/-- what the conversions read from the Lévy measure -/
structure Meas where
  mid : Rat      -- integrate_against_x(-1, +1)
  tails : Rat    -- integrate_against_x(-inf, -1) + integrate_against_x(+1, inf)
  fv : Bool      -- jump_of_finite_variation()

structure Trip where
  a : Rat
  rep : Rep
  deriving DecidableEq, Repr

/-- levymodel.py:215-247 -/
def canonicalDrift (m : Meas) (t : Trip) : Rat :=
  match t.rep with
  | .oneone => t.a
  | .zero => t.a + m.mid
  | .tilde => if m.fv then t.a + m.mid else t.a + 0
  | .center => t.a + -(m.tails)

def zeroDrift (m : Meas) (t : Trip) : Rat := canonicalDrift m t + -(m.mid)
def centerDrift (m : Meas) (t : Trip) : Rat := canonicalDrift m t + m.tails
def tildeDrift (m : Meas) (t : Trip) : Rat := canonicalDrift m t + (if m.fv then -(m.mid) else 0)

def driftMapping (m : Meas) (t : Trip) : Rep → Rat
  | .oneone => canonicalDrift m t
  | .tilde => tildeDrift m t
  | .center => centerDrift m t
  | .zero => zeroDrift m t

/-- levymodel.py:277-286 -/
def setRep (m : Meas) (t : Trip) (r : Rep) : Trip :=
  if r = t.rep then t else { a := driftMapping m t r, rep := r }

/-- a history of representation changes -/
def walk (m : Meas) (t : Trip) (rs : List Rep) : Trip := rs.foldl (setRep m) t

/-- offset of a representation's drift from the canonical (ONEONE) drift -/
def cRep (m : Meas) : Rep → Rat
  | .oneone => 0
  | .zero => -(m.mid)
  | .center => m.tails
  | .tilde => if m.fv then -(m.mid) else 0

/-- variant kept as a mutation / negation witness: CENTER conversion with the sign of the tails flipped -/
def centerDriftFlipped (m : Meas) (t : Trip) : Rat := canonicalDrift m t - m.tails

def setRepFlipped (m : Meas) (t : Trip) (r : Rep) : Trip :=
  if r = t.rep then t else { a := (if r = .center then centerDriftFlipped m t else driftMapping m t r), rep := r }

/-- the jump part of the exponent at -i in representation `r`, i.e. ∫ (e^x - 1 - x h_r(x)) ν(dx), given its value `j11` in
    the ONEONE representation: changing the cut-off moves exactly the first-moment integrals that `cRep` holds -/
def jumpExp (m : Meas) (j11 : Rat) (r : Rep) : Rat := j11 - cRep m r

/-! ### exponential models -/

/-- value of `levy_exponent` at -i, given the pure-jump cumulant `kappa1 = levy_exponent_pure_jump(1)` -/
def psiMinusI (a sigma kappa1 : Rat) : Rat := a + sigma * sigma / 2 + kappa1

/-- exponentialoflevymodel.py:118 -/
def omega (a sigma kappa1 : Rat) : Rat := -(psiMinusI a sigma kappa1)

/-- exponentialoflevymodel.py:137: drift of log S in the characteristic-function route -/
def expDrift (r d om : Rat) : Rat := r - d + om

/-- HEM pure-jump exponent as coded (a rational function) and `_xi` -/
def hemKappa (lam p eta1 eta2 x : Rat) : Rat := lam * (p * eta1 / (eta1 - x) + (1 - p) * eta2 / (eta2 + x) - 1)
def hemXi (p eta1 eta2 : Rat) : Rat := p * eta1 / (eta1 - 1) + (1 - p) * eta2 / (eta2 + 1) - 1
/-- Merton pure-jump exponent at 1, `e` = exp(mu_j + sigma_j^2/2) abstract -/
def mertonKappa1 (lam e : Rat) : Rat := lam * (e - 1)

def processDriftDirectBS (r d sigma : Rat) : Rat := r - d - sigma * sigma / 2
def processDriftDirectMerton (r d sigma lam e : Rat) : Rat := r - d - sigma * sigma / 2 - lam * (e - 1)
def processDriftDirectHEM (r d sigma lam p eta1 eta2 : Rat) : Rat := r - d - sigma * sigma / 2 - lam * hemXi p eta1 eta2
/-- before fix 203f837 -/
def processDriftDirectHEMPrefix (r d lam p eta1 eta2 : Rat) : Rat := r - d - lam * hemXi p eta1 eta2

/-- triplet drifts as constructed (ZERO representation): hem.py:205-207, merton.py:160 -/
def hemTripletA (lam p eta1 eta2 : Rat) : Rat := -lam * (p / eta1 - (1 - p) / eta2)
def mertonTripletA (lam muJ : Rat) : Rat := -lam * muJ

/-- Markov-chain route (markovchain.py:155-171): `drift() + a_tilde + mu_tilde - mu_h` -/
def ctmcDrift (modelDrift aTilde muTilde muH : Rat) : Rat := modelDrift + aTilde + muTilde - muH

/-! ### exponent at a real (moment-generating) argument and the coded cumulants

`levy_exponent(-i s) = a s + (s sigma)^2/2 + levy_exponent_pure_jump(s)` (levymodel.py:402-410 at x = -i s): the cumulant
generating exponent.  For HEM it is a rational function of rational parameters and a rational `s`; for Merton the only
non-rational operation is one `exp`, whose argument `mertonKappaArg` is rational. -/

/-- levymodel.py:408 at x = -i s, with the pure-jump value `kappa = levy_exponent_pure_jump(s)` -/
def cgfOf (a sigma s kappa : Rat) : Rat := s * a + (s * sigma) * (s * sigma) / 2 + kappa

def hemCgf (a sigma lam p eta1 eta2 s : Rat) : Rat := cgfOf a sigma s (hemKappa lam p eta1 eta2 s)

/-- merton.py:183-186: `levy_exponent_pure_jump(x) = intensity * (exp(mertonKappaArg) - 1)` -/
def mertonKappaArg (muJ sigmaJ x : Rat) : Rat := muJ * x + (sigmaJ * x) * (sigmaJ * x) / 2

/-- x², x⁴, x⁶ as explicit products (core `Rat`, no Mathlib power) -/
def p2 (x : Rat) : Rat := x * x
def p4 (x : Rat) : Rat := x * x * x * x
def p6 (x : Rat) : Rat := x * x * x * x * x * x

/-- hem.py:177-200 `_HEMCumulant.cumulant{1,2,4,6}(t)` -/
def hemCumulant1 (drift lam p eta1 eta2 t : Rat) : Rat := (drift + lam * (p / eta1 - (1 - p) / eta2)) * t
def hemCumulant2 (sigma lam p eta1 eta2 t : Rat) : Rat := (p2 sigma + 2 * lam * (p / p2 eta1 + (1 - p) / p2 eta2)) * t
def hemCumulant4 (lam p eta1 eta2 t : Rat) : Rat := 24 * lam * (p / p4 eta1 + (1 - p) / p4 eta2) * t
def hemCumulant6 (lam p eta1 eta2 t : Rat) : Rat := 720 * lam * (p / p6 eta1 + (1 - p) / p6 eta2) * t

/-- merton.py:118-157 `_MertonCumulant.cumulant{1,2,4,6}(t)` -/
def mertonCumulant1 (drift lam muJ t : Rat) : Rat := (drift + lam * muJ) * t
def mertonCumulant2 (sigma lam muJ sigmaJ t : Rat) : Rat := (p2 sigma + lam * (p2 muJ + p2 sigmaJ)) * t
def mertonCumulant4 (lam muJ sigmaJ t : Rat) : Rat := lam * (p4 muJ + 3 * p4 sigmaJ + 6 * p2 muJ * p2 sigmaJ) * t
def mertonCumulant6 (lam muJ sigmaJ t : Rat) : Rat :=
  lam * (45 * p4 sigmaJ * p2 muJ + 15 * p2 sigmaJ * p4 muJ + p6 muJ + 15 * p6 sigmaJ) * t

/-! ### exponent at a complex argument, as exact rational real / imaginary parts

`levy_exponent_pure_jump(z)` at z = x + i y (hem.py:216-219: each fraction multiplied by the conjugate of its denominator),
the argument of Merton's `exp` (merton.py:186), and `levy_exponent(w)` at w = u + i v (levymodel.py:408: i w = −v + i u). -/

def hemKappaRe (lam p eta1 eta2 x y : Rat) : Rat :=
  lam * (p * eta1 * (eta1 - x) / ((eta1 - x) * (eta1 - x) + y * y)
    + (1 - p) * eta2 * (eta2 + x) / ((eta2 + x) * (eta2 + x) + y * y) - 1)
def hemKappaIm (lam p eta1 eta2 x y : Rat) : Rat :=
  lam * (p * eta1 * y / ((eta1 - x) * (eta1 - x) + y * y) - (1 - p) * eta2 * y / ((eta2 + x) * (eta2 + x) + y * y))

def mertonArgRe (muJ sigmaJ x y : Rat) : Rat := muJ * x + sigmaJ * sigmaJ * (x * x - y * y) / 2
def mertonArgIm (muJ sigmaJ x y : Rat) : Rat := muJ * y + sigmaJ * sigmaJ * (x * y)

/-- levymodel.py:408 at w = u + i v, given the pure-jump value κ(i w) = kre + i kim -/
def levyExpRe (a sigma u v kre : Rat) : Rat := -(v * a) - sigma * sigma * (u * u - v * v) / 2 + kre
def levyExpIm (a sigma u v kim : Rat) : Rat := u * a - sigma * sigma * (u * v) + kim

/-- blackscholes.py:66-88 `_BlackScholesCumulant` (cumulants 3..6 are 0) -/
def bsCumulant1 (drift t : Rat) : Rat := drift * t
def bsCumulant2 (sigma t : Rat) : Rat := sigma * sigma * t

end Rpylib.Triplet
