/-
Model of the estimators of the standard Monte-Carlo engine: rpylib/montecarlo/statistic/tools.py (mean, stddev with
ddof=1, mc_stddev = stddev / sqrt(number of paths), lines 11-30), the path loop of rpylib/montecarlo/standard/engine.py
(114-124: simulate, evaluate, discount, store at the iteration index) and the control-variate adjustment of
rpylib/product/product.py (198-250: b* = Σ_X⁻¹ Σ_XY on *biased* covariances, fallback b* = 0 when an entry of Σ_X is
below 1e-12 in absolute value, adjusted sample Y − b*(X − price_X)).  Mathlib-free, executable.
Standard errors are handled as their squares (no sqrt in ℚ).
-/
namespace Rpylib.Stats

def listSum (l : List Rat) : Rat := l.foldr (· + ·) 0

/-- Σ_{i<n} f i -/
def sumTo (n : Nat) (f : Nat → Rat) : Rat := listSum ((List.range n).map f)

/-- `np.mean(simulations, axis=0)` for one payoff component -/
def mean (n : Nat) (y : Nat → Rat) : Rat := sumTo n y / n

/-- `np.cov(…, bias=True)` entry -/
def covB (n : Nat) (x y : Nat → Rat) : Rat := sumTo n (fun i => (x i - mean n x) * (y i - mean n y)) / n
def varB (n : Nat) (y : Nat → Rat) : Rat := covB n y y

/-- `np.std(…, ddof=1)²` -/
def varU (n : Nat) (y : Nat → Rat) : Rat := sumTo n (fun i => (y i - mean n y) * (y i - mean n y)) / (n - 1)

/-- `mc_stddev²` per payoff component: unbiased variance over the number of paths (`simulations.shape[0]`) -/
def stderrSq (n : Nat) (y : Nat → Rat) : Rat := varU n y / n

/-- what the code computed before the fix (`simulations.size` = n·d for a payoff of dimension d) -/
def stderrSqOld (n d : Nat) (y : Nat → Rat) : Rat := varU n y / (n * d)

def rabs (x : Rat) : Rat := if x < 0 then -x else x
def guard : Rat := 1 / 1000000000000

/-- one control: `b* = cov(X,Y)/var(X)`, or 0 when `|var X| < 1e-12` -/
def bStar (n : Nat) (x y : Nat → Rat) : Rat := if rabs (varB n x) < guard then 0 else covB n x y / varB n x

/-- adjusted sample `Y_i − b (X_i − price_X)` -/
def adjust (b c : Rat) (x y : Nat → Rat) : Nat → Rat := fun i => y i - b * (x i - c)

/-- k controls with a given coefficient vector -/
def adjustK (k : Nat) (b c : Nat → Rat) (x : Nat → Nat → Rat) (y : Nat → Rat) : Nat → Rat :=
  fun i => y i - sumTo k (fun j => b j * (x j i - c j))

/-- the path loop: iteration `i` stores `df · (notional · payoff(path i))` at index `i` of an array of `n` rows -/
def storeLoop (mk : Nat → Rat) : (start n : Nat) → List (Option Rat) → List (Option Rat)
  | _, 0, rows => rows
  | start, n + 1, rows => storeLoop mk (start + 1) n (rows.set start (some (mk start)))

def stdRows (n : Nat) (df notional : Rat) (payoff : Nat → Rat) : List (Option Rat) :=
  storeLoop (fun i => df * (notional * payoff i)) 0 n (List.replicate n none)

end Rpylib.Stats
