/-
Model of the estimators of the standard Monte-Carlo engine: rpylib/montecarlo/statistic/tools.py (mean, stddev with
ddof=1, mc_stddev = stddev / sqrt(number of paths), lines 11-30), the path loop of rpylib/montecarlo/standard/engine.py
(114-124: simulate, evaluate, discount, store at the iteration index) and the control-variate adjustment of
rpylib/product/product.py (198-250: b* = Σ_X⁻¹ Σ_XY on *biased* covariances, fallback b* = 0 when an entry of Σ_X is
below 1e-12 in absolute value, adjusted sample Y − b*(X − price_X)).  Mathlib-free, executable.
Standard errors are handled as their squares (no sqrt in ℚ).
-/
namespace Rpylib.Stats

def listSum (l : List Rat) : Rat := l.foldr (· + ·) 0

/-- Σ_{i<n} f i -/
def sumTo (n : Nat) (f : Nat → Rat) : Rat := listSum ((List.range n).map f)

/-- `np.mean(simulations, axis=0)` for one payoff component -/
def mean (n : Nat) (y : Nat → Rat) : Rat := sumTo n y / n

/-- `np.cov(…, bias=True)` entry -/
def covB (n : Nat) (x y : Nat → Rat) : Rat :=
  let mx := mean n x      -- the means are computed once (as numpy does), not once per term
  let my := mean n y
  sumTo n (fun i => (x i - mx) * (y i - my)) / n
def varB (n : Nat) (y : Nat → Rat) : Rat := covB n y y

/-- `np.std(…, ddof=1)²` -/
def varU (n : Nat) (y : Nat → Rat) : Rat :=
  let m := mean n y
  sumTo n (fun i => (y i - m) * (y i - m)) / (n - 1)

/-- `mc_stddev²` per payoff component: unbiased variance over the number of paths (`simulations.shape[0]`) -/
def stderrSq (n : Nat) (y : Nat → Rat) : Rat := varU n y / n

/-- what the code computed before the fix (`simulations.size` = n·d for a payoff of dimension d) -/
def stderrSqOld (n d : Nat) (y : Nat → Rat) : Rat := varU n y / (n * d)

def rabs (x : Rat) : Rat := if x < 0 then -x else x
def guard : Rat := 1 / 1000000000000

/-- one control: `b* = cov(X,Y)/var(X)`, or 0 when `|var X| < 1e-12` -/
def bStar (n : Nat) (x y : Nat → Rat) : Rat := if rabs (varB n x) < guard then 0 else covB n x y / varB n x

/-- adjusted sample `Y_i − b (X_i − price_X)` -/
def adjust (b c : Rat) (x y : Nat → Rat) : Nat → Rat := fun i => y i - b * (x i - c)

/-- k controls with a given coefficient vector -/
def adjustK (k : Nat) (b c : Nat → Rat) (x : Nat → Nat → Rat) (y : Nat → Rat) : Nat → Rat :=
  fun i => y i - sumTo k (fun j => b j * (x j i - c j))

/-- the path loop: iteration `i` stores `df · (notional · payoff(path i))` at index `i` of an array of `n` rows -/
def storeLoop (mk : Nat → Rat) : (start n : Nat) → List (Option Rat) → List (Option Rat)
  | _, 0, rows => rows
  | start, n + 1, rows => storeLoop mk (start + 1) n (rows.set start (some (mk start)))

def stdRows (n : Nat) (df notional : Rat) (payoff : Nat → Rat) : List (Option Rat) :=
  storeLoop (fun i => df * (notional * payoff i)) 0 n (List.replicate n none)

/-! ### vector payoffs and k controls: the shapes `compute_coefficients` works with (product.py:229-251)

`Y` has shape (n, d) (d = payoff dimension), the control array `X` shape (n, k, d): a control with a scalar payoff is
broadcast to all d components, a control with vector strikes contributes its own component.  The loop
`for k, (xx, yy) in enumerate(zip(X.T, Y.T))` runs over the d payoff components: **one coefficient vector (of length k) per
payoff component**, computed from column c of Y and the k columns `X[:, :, c]`, over all n rows; prices: scalar prices are
shared by all components, vector prices are indexed by the component.  The regression kernel
(`helper_compute_coefficients`, product.py:198-227): biased covariances; if the smallest absolute entry of Σ_X — diagonal
or off-diagonal — is below 1e-12 the coefficients are 0; otherwise `pinv(Σ_X) Σ_XY`. -/

/-- a regression kernel: (n, the k control columns, the payoff column) ↦ coefficient vector -/
abbrev Kernel := Nat → (Nat → Nat → Rat) → (Nat → Rat) → Nat → Rat

def kernel1 : Kernel := fun n x y _ => bStar n (x 0) y

/-- the exact two-control kernel: guard on all four entries of Σ_X, inverse of Σ_X when it is regular, Moore–Penrose
    pseudo-inverse `Σ_X / (tr Σ_X)²` of the (rank one, positive semi-definite) matrix when it is singular -/
def kernel2 : Kernel := fun n x y j =>
  let a := varB n (x 0)
  let d := varB n (x 1)
  let c := covB n (x 0) (x 1)
  let s0 := covB n (x 0) y
  let s1 := covB n (x 1) y
  if rabs a < guard ∨ rabs d < guard ∨ rabs c < guard then 0
  else
    let det := a * d - c * c
    if det = 0 then
      let t := (a + d) * (a + d)
      if j = 0 then (a * s0 + c * s1) / t else if j = 1 then (c * s0 + d * s1) / t else 0
    else
      if j = 0 then (d * s0 - c * s1) / det else if j = 1 then (a * s1 - c * s0) / det else 0

/-- the code's kernel for k ≤ 2 controls (k ≥ 3: `numpy.linalg.pinv` is not modelled; the theorems take the kernel as a parameter) -/
def kernelOf (k : Nat) : Kernel := if k = 1 then kernel1 else if k = 2 then kernel2 else fun _ _ _ _ => 0

/-- the adjusted array of a vector payoff: component c of path i.  `y c i`, `x j c i` (control j), `pr j c` (price of
    control j for component c: constant in c for scalar prices) -/
def adjustVec (k : Nat) (ker : Kernel) (pr : Nat → Nat → Rat) (x : Nat → Nat → Nat → Rat) (y : Nat → Nat → Rat) (n : Nat) :
    Nat → Nat → Rat :=
  fun c => adjustK k (ker n (fun j => x j c) (y c)) (fun j => pr j c) (fun j => x j c) (y c)

/-- the coefficient vector used for component c -/
def coefVec (k : Nat) (ker : Kernel) (x : Nat → Nat → Nat → Rat) (y : Nat → Nat → Rat) (n c : Nat) : List Rat :=
  (List.range k).map (ker n (fun j => x j c) (y c))

/-- column c of the adjusted array as the code builds it: the coefficient vector of the component is computed ONCE from all
    n rows (`b_star`), then applied to every row (= `(List.range n).map (adjustVec … c)`, theorem `adjustVecRow_eq`) -/
def adjustVecRow (k : Nat) (ker : Kernel) (pr : Nat → Nat → Rat) (x : Nat → Nat → Nat → Rat) (y : Nat → Nat → Rat) (n c : Nat) :
    List Rat :=
  let b := coefVec k ker x y n c
  (List.range n).map (adjustK k (fun j => b.getD j 0) (fun j => pr j c) (fun j => x j c) (y c))

end Rpylib.Stats
