/-
Model of the randomness discipline of the two Monte-Carlo engines (rpylib/montecarlo/configuration.py:87-101
`initialisation_seed`; standard/engine.py `initialisation` + path loop; multilevel/engine.py `initialisation`,
`compute_level_l`, the pass/level loop; process/levyprocess.py:158-204 pre-drawn Brownian rows and Poisson counts popped
from the left of two deques).  Mathlib-free, executable.

A *token* is one unit of randomness: `(src, pos)` = the `pos`-th variate produced by the generator since it was put into
state `src`.  Seeding with `s` puts the generator into state `seeded s` at position 0 — *whatever it did before*: this is
what makes re-seeding with an already used seed visible as a duplicated token.  The unseeded start-up state of a process is
`ambient id`; distinct worker processes get pairwise distinct ambient ids (assumption on `pid*time` seeding, see DESIGN §6).

One *pass* (a standard-engine run, or one call of `compute_level_l`) with `n` paths in fixed-date mode:
  Poisson counts for the n paths are drawn first (n tokens), then the Brownian rows (n tokens)            — `pre_computation`
  path i pops row i of each deque and then draws `fly i` variates on the fly (jump sizes / sampler uniforms).
In jump-time mode nothing is pre-drawn (`predraw = false`): every variate of path i is drawn on the fly.
-/
namespace Rpylib.Rng

inductive Src where
  | ambient (id : Nat)
  | seeded (s : Nat)
  deriving DecidableEq, Repr

structure Tok where
  src : Src
  pos : Nat
  deriving DecidableEq, Repr

structure Pass where
  rows : Nat              -- rows pre-drawn by `pre_computation(mc_paths = rows)` (per deque)
  n : Nat                 -- number of paths simulated before the next `pre_computation` (0 for a batch that is replaced unused)
  fly : Nat → Nat         -- on-the-fly draws of path i
  predraw : Bool          -- fixed-date mode pre-draws two rows per path

/-- never more paths than pre-drawn rows (otherwise the real code pops from an empty deque and raises) -/
def Pass.ok (p : Pass) : Prop := p.predraw = true → p.n ≤ p.rows

/-- Σ_{k<i} fly k -/
def pre (fly : Nat → Nat) : Nat → Nat
  | 0 => 0
  | i + 1 => pre fly i + fly i

/-- number of tokens a pass draws -/
def Pass.size (p : Pass) : Nat := (if p.predraw then 2 * p.rows else 0) + pre p.fly p.n

/-- tokens consumed by path `i` of a pass whose first draw has position `base` in generator state `src`,
    when the path pops row `row` of the pre-drawn deques (`row = i` in a single process) -/
def pathToks (src : Src) (base : Nat) (p : Pass) (row i : Nat) : List Tok :=
  (if p.predraw then [⟨src, base + row⟩, ⟨src, base + p.rows + row⟩] else []) ++
    (List.range (p.fly i)).map (fun j => ⟨src, base + (if p.predraw then 2 * p.rows else 0) + pre p.fly i + j⟩)

/-- all consumption events of a single-process pass, path by path -/
def passToks (src : Src) (base : Nat) (p : Pass) : List Tok :=
  (List.range p.n).flatMap (fun i => pathToks src base p i i)

/-- single-process run over a list of passes; `reseed = some s` re-applies the seed at the start of every pass
    (the pre-fix multilevel engine), `none` never re-seeds after the start -/
def runToks (reseed : Option Nat) (src : Src) : Nat → List Pass → List Tok
  | _, [] => []
  | base, p :: ps =>
    match reseed with
    | none => passToks src base p ++ runToks none src (base + p.size) ps
    | some s => passToks (.seeded s) 0 p ++ runToks (some s) (.seeded s) 0 ps

/-- generator state a run starts its draws in: seeded if a seed is configured, else the process's ambient state -/
def startSrc (seed : Option Nat) (ambient : Nat) : Src :=
  match seed with
  | some s => .seeded s
  | none => .ambient ambient

/-- the engines after the fixes: seed once in `initialisation`, before the pre-computation draws anything -/
def engineToks (seed : Option Nat) (ambient : Nat) (passes : List Pass) : List Tok :=
  runToks none (startSrc seed ambient) 0 passes

/-- the standard engine before the fix: the pre-computation drew from the ambient state (position `a0` of it), the seed was
    applied afterwards, on-the-fly draws came from the seeded state -/
def oldStandardToks (seed : Nat) (ambient a0 : Nat) (p : Pass) : List Tok :=
  (List.range p.n).flatMap (fun i =>
    [⟨.ambient ambient, a0 + i⟩, ⟨.ambient ambient, a0 + p.rows + i⟩] ++
      (List.range (p.fly i)).map (fun j => ⟨.seeded seed, pre p.fly i + j⟩))

/-- multi-process pass: the pool forks after the pre-computation, so every worker owns a *copy* of the deques and pops
    it from the left: the k-th path a worker simulates pops row k.  `sched` lists, per worker, the path indices it
    simulates in order (any partition into ordered chunks); on-the-fly draws come from the worker's own ambient state. -/
def workerToks (src : Src) (p : Pass) (w : Nat) (paths : List Nat) : List Tok :=
  let rec go : Nat → Nat → List Nat → List Tok
    | _, _, [] => []
    | k, off, i :: rest =>
      (if p.predraw then [⟨src, k⟩, ⟨src, p.rows + k⟩] else []) ++
        (List.range (p.fly i)).map (fun j => ⟨.ambient (w + 1), off + j⟩) ++ go (k + 1) (off + p.fly i) rest
  go 0 0 paths

def multiToks (src : Src) (p : Pass) (sched : List (List Nat)) : List Tok :=
  (List.range sched.length).flatMap (fun w => workerToks src p w (sched.getD w []))

end Rpylib.Rng
