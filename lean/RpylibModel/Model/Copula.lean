/-
Model of rpylib/distribution/levycopula.py (Clayton, independent, completely dependent Lévy copulas) and of the
`volume` / `margin` operators of rpylib/model/levycopulamodel.py:24-72.  Mathlib-free, executable.

Anchors: levycopula.py:64-81 (Clayton `__call__`), 89-106 (conditional distribution, 2-d), 114-136 (its closed-form
inverse), 138-154 (`x_first_derivative`), 162-174 (independent), 185-194 (dependent); levycopulamodel.py:24-44
(`volume`), 47-72 (`margin`).

Numbers.  Arguments are extended numbers `Ext α` (−∞, finite, +∞).  Values are either elements of an abstract carrier
(abstract-generator Clayton `claytonOf`, used by the theorems for every θ: `g u = |u|^(-θ)`, `psi s = s^(-1/θ)`) or
`EVal` — rationals extended by ±∞ and NaN with the IEEE rules the implementation is subject to (`inf − inf = nan`,
`inf · 0 = nan`) — for the three concrete copulas that are exactly computable in ℚ: Clayton with θ = 1
(F = 2^(2-d) · (Σ 1/|u_i|)^(-1) · weight), independent, dependent.  The model mirrors the code, faults included
(see `indep` at all-infinite corners, and η ∈ {0,1} in `clayton1`).
-/
import RpylibModel.Basic.Proto
namespace Rpylib.Copula
open Rpylib

/-! ### extended arguments and IEEE-like values -/

inductive Ext (α : Type) where
  | negInf | fin (a : α) | posInf
  deriving DecidableEq, Repr

def ofExtRat : ExtRat → Ext Rat
  | .negInf => .negInf | .fin r => .fin r | .posInf => .posInf

/-- value of a float expression: NaN, −∞, a rational, +∞ -/
inductive EVal where
  | nan | negInf | fin (r : Rat) | posInf
  deriving DecidableEq, Repr

namespace EVal
def add : EVal → EVal → EVal
  | nan, _ => nan
  | _, nan => nan
  | fin a, fin b => fin (a + b)
  | posInf, negInf => nan
  | negInf, posInf => nan
  | posInf, _ => posInf
  | _, posInf => posInf
  | negInf, _ => negInf
  | _, negInf => negInf
def neg : EVal → EVal
  | nan => nan | negInf => posInf | fin r => fin (-r) | posInf => negInf
/-- float product `c * v` with a finite `c` (`0 * inf = nan`) -/
def smul (c : Rat) : EVal → EVal
  | nan => nan
  | fin r => fin (c * r)
  | posInf => if 0 < c then posInf else if c < 0 then negInf else nan
  | negInf => if 0 < c then negInf else if c < 0 then posInf else nan
instance : Add EVal := ⟨add⟩
instance : Neg EVal := ⟨neg⟩
instance : Sub EVal := ⟨fun a b => add a (neg b)⟩
instance : Zero EVal := ⟨fin 0⟩
/-- "the value is a non-negative number or +∞" — the only admissible volumes of a rectangle -/
def Nonneg : EVal → Prop
  | fin r => 0 ≤ r
  | posInf => True
  | _ => False
def toString : EVal → String
  | nan => "nan" | negInf => "-inf" | posInf => "inf" | fin r => showRat r
end EVal

def rabs (x : Rat) : Rat := if x < 0 then -x else x

namespace Ext
def isZero : Ext Rat → Bool
  | fin r => r == 0
  | _ => false
/-- `u < 0` -/
def isNeg : Ext Rat → Bool
  | negInf => true
  | fin r => r < 0
  | posInf => false
/-- `u > 0` -/
def isPos : Ext Rat → Bool
  | posInf => true
  | fin r => 0 < r
  | negInf => false
def isInf {α : Type} : Ext α → Bool
  | fin _ => false
  | _ => true
def isPosInf {α : Type} : Ext α → Bool
  | posInf => true
  | _ => false
def toEVal : Ext Rat → EVal
  | negInf => .negInf | fin r => .fin r | posInf => .posInf
/-- order of the extended line (`min`/`max` of the dependent copula) -/
def le : Ext Rat → Ext Rat → Bool
  | negInf, _ => true
  | _, posInf => true
  | fin a, fin b => a ≤ b
  | _, _ => false
/-- strict order of the extended line (`ai < 0 < bi` in the mass formulas) -/
def lt : Ext Rat → Ext Rat → Bool
  | negInf, negInf => false
  | negInf, _ => true
  | posInf, _ => false
  | _, posInf => true
  | fin a, fin b => a < b
  | fin _, negInf => false
def min (a b : Ext Rat) : Ext Rat := if le a b then a else b
def max (a b : Ext Rat) : Ext Rat := if le a b then b else a
end Ext

/-! ### `volume` and `margin` (levycopulamodel.py:24-72), generic in argument and value type -/

/-- the 2^n corners of `[a1,b1]×…×[an,bn]` in the order of `itertools.product([0,1], repeat=n)`, each with the
    number of coordinates taken from `b` (`sum(p)`) -/
def corners {α : Type} : List α → List α → List (Nat × List α)
  | a :: as, b :: bs =>
    (corners as bs).map (fun kc => (kc.1, a :: kc.2)) ++ (corners as bs).map (fun kc => (kc.1 + 1, b :: kc.2))
  | _, _ => [(0, [])]

def sumList {V : Type} [Add V] [Zero V] : List V → V
  | [] => 0
  | x :: xs => x + sumList xs

/-- `volume(f, a, b)`: `Σ_p (-1)^(n - sum p) f(corner p)` (levycopulamodel.py:36-44) -/
def volume {α V : Type} [Add V] [Neg V] [Zero V] (f : List α → V) (a b : List α) : V :=
  sumList ((corners a b).map (fun kc => if (a.length - kc.1) % 2 = 1 then -(f kc.2) else f kc.2))

def findIdx (i : Nat) : List Nat → Nat → Option Nat
  | [], _ => none
  | j :: js, k => if j = i then some k else findIdx i js (k + 1)

/-- position `i` of `u_array`: `some u[j]` if `indices[j] = i`, `none` if the position belongs to the complement -/
def slot {α : Type} (idx : List Nat) (u : List (Ext α)) (i : Nat) : Option (Ext α) :=
  match findIdx i idx 0 with
  | some j => u[j]?
  | none => none

/-- the argument vectors `u_array` visited by `margin` for positions `i, i+1, …, i+k-1`: a given position holds its
    `u`, a complement position runs through `{-inf, +inf}`; each vector comes with the parity of the number of
    `-inf` entries (`true` = the product of signs is −1) (levycopulamodel.py:58-68) -/
def marginArgs {α : Type} (sl : Nat → Option (Ext α)) : Nat → Nat → List (Bool × List (Ext α))
  | 0, _ => [(false, [])]
  | k + 1, i =>
    match sl i with
    | some x => (marginArgs sl k (i + 1)).map (fun sc => (sc.1, x :: sc.2))
    | none =>
      (marginArgs sl k (i + 1)).map (fun sc => (!sc.1, Ext.negInf :: sc.2)) ++
        (marginArgs sl k (i + 1)).map (fun sc => (sc.1, Ext.posInf :: sc.2))

/-- `margin(f, indices, dimension)(u)` -/
def margin {α V : Type} [Add V] [Neg V] [Zero V] (f : List (Ext α) → V) (idx : List Nat) (d : Nat)
    (u : List (Ext α)) : V :=
  sumList ((marginArgs (slot idx u) d 0).map (fun sc => if sc.1 then -(f sc.2) else f sc.2))

/-! ### Clayton -/

def sumG {α : Type} [Add α] [Zero α] : List (Bool × α) → α
  | [] => 0
  | p :: ps => p.2 + sumG ps

def countNeg {α : Type} : List (Bool × α) → Nat
  | [] => 0
  | p :: ps => (if p.1 then 1 else 0) + countNeg ps

/-- Clayton in generator coordinates: every (non-zero) argument `u` is given as (`u < 0`, `x = |u|^(-θ)`), `x = 0`
    for `u = ±∞`.  `2 ** (2 - d) * (sum_elmts ** (-1/θ)) * factor`, `factor = η` if the product of signs is ≥ 0 else
    `-(1 - η)` (levycopula.py:68-81) -/
def claytonG {α : Type} [Add α] [Sub α] [Mul α] [Neg α] [Zero α] [One α] (psi : α → α) (scale eta : α)
    (args : List (Bool × α)) : α :=
  scale * psi (sumG args) * (if countNeg args % 2 = 0 then eta else -(1 - eta))

/-- an abstract generator pair for `θ`, with the two tests the code performs on an argument -/
structure Gen (α : Type) where
  g : α → α          -- u ↦ |u|^(-θ), finite non-zero u
  psi : α → α        -- s ↦ s^(-1/θ)
  isZero : α → Bool
  isNeg : α → Bool

def Gen.arg {α : Type} [Zero α] (G : Gen α) : Ext α → Bool × α
  | .negInf => (true, 0)
  | .posInf => (false, 0)
  | .fin a => (G.isNeg a, G.g a)

def Gen.argZero {α : Type} (G : Gen α) : Ext α → Bool
  | .fin a => G.isZero a
  | _ => false

/-- abstract-generator Clayton copula on extended arguments (`if 0 in us: return 0.0` first, levycopula.py:65) -/
def claytonOf {α : Type} [Add α] [Sub α] [Mul α] [Neg α] [Zero α] [One α] (G : Gen α) (scale eta : α)
    (us : List (Ext α)) : α :=
  if us.any G.argZero then 0 else claytonG G.psi scale eta (us.map G.arg)

/-- the generator pair of θ = 1 over ℚ -/
def gen1 : Gen Rat := { g := fun a => 1 / rabs a, psi := fun s => 1 / s, isZero := fun a => a == 0, isNeg := fun a => a < 0 }

/-- `2 ** (2 - d)` -/
def scalePow (d : Nat) : Rat := 4 / (2 : Rat) ^ d

/-- Clayton, θ = 1, as the floats compute it: at a corner whose entries are all infinite `sum_elmts = 0`,
    `0 ** (-1) = inf` and the result is `inf * factor` — NaN when the factor is 0 (η ∈ {0,1}) -/
def clayton1 (eta : Rat) (us : List (Ext Rat)) : EVal :=
  if us.any gen1.argZero then .fin 0
  else if sumG (us.map gen1.arg) = 0 then
    EVal.smul (if countNeg (us.map gen1.arg) % 2 = 0 then eta else -(1 - eta)) .posInf
  else .fin (claytonOf gen1 (scalePow us.length) eta us)

/-- `ClaytonCopula._condition_distribution_2d(eps, [x])` over abstract powers `p = (·)^θ`, `q = (·)^(-1-1/θ)`
    (levycopula.py:89-106) -/
def condDist {α : Type} [Add α] [Sub α] [Mul α] [Zero α] [One α] [LT α] [DecidableLT α] [LE α] [DecidableLE α]
    (p q : α → α) (absDiv : α → α → α) (eta e x : α) : α :=
  if 0 ≤ e then 1 - eta + q (1 + p (absDiv e x)) * (eta - (if x < 0 then 1 else 0))
  else eta + q (1 + p (absDiv e x)) * ((if 0 ≤ x then 1 else 0) - eta)

/-- `_inverse_conditional_distribution_2d(eps, u)` over abstract powers `q' = (·)^(-θ/(θ+1))`, `r' = (·)^(-1/θ)`
    (levycopula.py:114-136); `sgn` is `np.sign`, `absE = |eps|` -/
def invCondDist {α : Type} [Add α] [Sub α] [Mul α] [Div α] [Zero α] [One α] [LE α] [DecidableLE α]
    (q' r' sgn : α → α) (absE : α) (eta e u : α) : α :=
  let b := if 0 ≤ e then sgn (u - 1 + eta) else sgn (u - eta)
  let c := if 0 ≤ e then (if 1 - eta ≤ u then (u - 1 + eta) / eta else (1 - eta - u) / (1 - eta))
           else (if eta ≤ u then (u - eta) / (1 - eta) else (eta - u) / eta)
  b * absE * r' (q' c - 1)

/-- θ = 1 instance of `condDist` (rational) -/
def condDist1 (eta e x : Rat) : Rat :=
  condDist (fun r => r) (fun y => 1 / (y * y)) (fun a b => rabs (a / b)) eta e x

def prodAbs : List Rat → Rat
  | [] => 1
  | x :: xs => rabs x * prodAbs xs

def sumInvAbs : List Rat → Rat
  | [] => 0
  | x :: xs => 1 / rabs x + sumInvAbs xs

def negCount : List Rat → Nat
  | [] => 0
  | x :: xs => (if x < 0 then 1 else 0) + negCount xs

/-- `x_first_derivative(u)` for θ = 1 and finite `u` (levycopula.py:138-154):
    `2^(2-d) · Π_{k<d}(1+kθ) · factor · |Π u|^(-θ-1) · (Σ|u_i|^(-θ))^(-1/θ-d)` -/
def mixedDeriv1 (eta : Rat) (us : List Rat) : Rat :=
  if us.any (· == 0) then 0 else
  let d := us.length
  let thetaProd : Rat := ((List.range d).map (fun (k : Nat) => (1 : Rat) + (k : Rat))).foldl (· * ·) 1
  let factor := if negCount us % 2 = 0 then eta else -(1 - eta)
  scalePow d * thetaProd * factor * (1 / (prodAbs us) ^ 2 * (1 / (sumInvAbs us) ^ (1 + d)))

/-! ### independent and completely dependent copulas -/

def allPosInfExcept : List (Ext Rat) → Nat → Nat → Bool
  | [], _, _ => true
  | u :: us, k, i => (i == k || u.isPosInf) && allPosInfExcept us k (i + 1)

def indepTerms (all : List (Ext Rat)) : List (Ext Rat) → Nat → Rat
  | [], _ => 0
  | .fin r :: us, k => (if allPosInfExcept all k 0 then r else 0) + indepTerms all us (k + 1)
  | _ :: us, k => indepTerms all us (k + 1)

/-- `IndependentComponentsCopula.__call__`: `Σ_{k : u_k finite} u_k · Π_{j≠k} 1{u_j = +inf}` (levycopula.py:162-174).
    The code skips *both* infinities in the sum, so `F(+inf,…,+inf) = 0` (not +∞) and `F(-inf,+inf,…) = 0` (not −∞). -/
def indep (us : List (Ext Rat)) : EVal := .fin (indepTerms us us 0)

def extMin : List (Ext Rat) → Ext Rat
  | [] => .posInf
  | [u] => u
  | u :: us => Ext.min u (extMin us)

def extMax : List (Ext Rat) → Ext Rat
  | [] => .negInf
  | [u] => u
  | u :: us => Ext.max u (extMax us)

/-- `DependentComponentsCopula.__call__` (levycopula.py:185-194): `min(us)` if all positive;
    `-max(us) * eps`, `eps = -1` for odd `d`, if all negative; 0 otherwise -/
def dep (us : List (Ext Rat)) : EVal :=
  if us.all Ext.isPos then (extMin us).toEVal
  else if us.all Ext.isNeg then
    (if us.length % 2 = 1 then (extMax us).toEVal else EVal.neg (extMax us).toEVal)
  else .fin 0

end Rpylib.Copula
