/-
Model of the table sampler: 256 slots + alias method on the residual (property C02).  Mathlib-free, executable.

Anchors
  rpylib/distribution/variate/table.py:36-45  _sample_one (`i = getrandbits(32); ji = J[i & 255]; ji >= 0 ? ji : alias._draw_with_u(i * 2^-32)`)
  rpylib/distribution/variate/table.py:48-73  create_table (`k_i = int(256 p_i)`, `theta_i = 256 p_i - k_i`, `J = k_i copies of i … then -1`,
                                              residual alias on `theta / sum(theta)`)

The sampler consumes a 32-bit integer `i`, not a uniform: the low byte selects the slot, the whole integer scaled by
2^-32 feeds the residual alias.  `draw` below is the exact function of `i`; the *law* is stated for the idealisation
(DESIGN §4 C02 "L."): slot uniform on 256 values, residual uniform on [0,1) and independent of it.
-/
import RpylibModel.Model.Samplers.Alias

namespace Rpylib.Table
open Rpylib.Alias

structure Tables where
  slots : List Int          -- length 256 in the implementation; -1 = fall through to the residual alias
  resid : Alias.Tables

def ks (n : Nat) (p : Nat → Rat) : List Nat := (List.range n).map (fun i => ((256 : Rat) * p i).floor.toNat)
def theta (p : Nat → Rat) (i : Nat) : Rat := (256 : Rat) * p i - (((256 : Rat) * p i).floor.toNat : Rat)
def thetaSum (n : Nat) (p : Nat → Rat) : Rat := ((List.range n).map (theta p)).sum

/-- `J` of create_table: `k_i` copies of `i`, then `abs(256 - len)` times `-1` -/
def slotsOf (n : Nat) (p : Nat → Rat) : List Int :=
  let body : List Int := (List.range n).flatMap (fun i => List.replicate (((256 : Rat) * p i).floor.toNat) (i : Int))
  body ++ List.replicate (if body.length ≤ 256 then 256 - body.length else body.length - 256) (-1)

/-- `create_table(p)`; `none` is the `ValueError("probabilities is an array of 0s")` branch -/
def build (n : Nat) (p : Nat → Rat) : Option Tables :=
  let s := thetaSum n p
  if 0 < s then some ⟨slotsOf n p, Alias.build n (fun i => theta p i / s)⟩ else none

/-- `_sample_one` as a function of the 32-bit integer `i` -/
def draw (t : Tables) (i : Nat) : Nat :=
  let ji := t.slots.getD (i % 256) (-1)
  if 0 ≤ ji then ji.toNat else Alias.draw t.resid ((i : Rat) / 4294967296)

/-- number of slots holding state `k` / holding `-1` -/
def slotCount (t : Tables) (k : Int) : Nat := (t.slots.filter (· == k)).length

/-- law of the idealised sampler: `(#slots = k + #slots = -1 · residual law k) / 256` -/
def lawOfTables (t : Tables) (k : Nat) : Rat :=
  ((slotCount t (k : Int) : Rat) + (slotCount t (-1) : Rat) * Alias.lawOfTables t.resid k) / 256

end Rpylib.Table
