/-
Model of the sequential inversion sampler (property C02).  Mathlib-free, executable.

Anchors
  rpylib/distribution/variate/inversion.py:21-36   constructor (memo = [p_0], states = [state_0], `_max_storage`)
  rpylib/distribution/variate/inversion.py:48-75   sample_with_u (cached branch `bisect_left`, extension loop `while u > s`)
  rpylib/distribution/pairing.py:521-546           StatesManager.project_index_to_state_increment (skip pointer
                                                   `_last_projected_index`, reset when `x == max_logged`, loop
                                                   `while xx <= max_frontier_indices`, exhaustion -> random frontier state)

A state is identified with its *pairing index* `xx` (`pairing.project(xx)` is a pure function of `xx` as long as the
sampler is its only caller: it asks for indices in increasing order, so the `@cache` of `PairingToZ1d.project` is
filled in canonical order; the call-order dependence of `PairingToZ1d` itself is C14's subject).
`adm[xx]` says whether `project(xx)` is inside the grid/domain (`not is_outside`), `prob[xx]` is
`probability_to_jump_to_state(project(xx))`.  The answer `none` of a draw stands for "enumeration exhausted: the code
returns a *randomly chosen* frontier state" (pairing.py:516-519, 545).
-/
namespace Rpylib.Inversion

structure Env where
  adm : List Bool
  maxFrontier : Nat
  prob : List Rat
  maxStorage : Nat
  deriving Repr

def Env.inside (e : Env) (xx : Nat) : Bool := e.adm.getD xx false
def Env.p (e : Env) (xx : Nat) : Rat := e.prob.getD xx 0

/-- `while xx <= max_frontier: if not is_outside(project(xx)): return xx; xx += 1`; answer `(found?, final xx)`.
    `fuel` is the number of loop tests still allowed (`maxFrontier + 1 - xx` are needed). -/
def scanF (e : Env) : Nat → Nat → Option Nat × Nat
  | 0, xx => (none, xx)
  | fuel + 1, xx =>
    if xx ≤ e.maxFrontier then
      if e.inside xx then (some xx, xx) else scanF e fuel (xx + 1)
    else (none, xx)

def scan (e : Env) (xx : Nat) : Option Nat × Nat := scanF e (e.maxFrontier + 1 - xx) xx

/-- `project_index_to_state_increment(x, max_logged)`.  `last1 = _last_projected_index + 1`.
    Answer: new `last1`, and `some xx` (state found, `break_here = False`) or `none` (`break_here = True`). -/
def projectIndex (e : Env) (last1 x : Nat) (maxLogged : Option Nat) : Nat × Option Nat :=
  let last1 := if maxLogged = some x then 0 else last1          -- pairing.py:532-534
  let xx := max x last1                                          -- pairing.py:536
  match scan e xx with
  | (some k, _) => (k + 1, some k)                               -- pairing.py:540-541
  | (none, xx') => (xx' + 1, none)                               -- pairing.py:544-546

/-- mutable state of an `InversionMethod` instance together with its `StatesManager` -/
structure St where
  cum : List Rat      -- `_cumulative_probabilities`
  sts : List Nat      -- `_simulated_state_increments` (as pairing indices)
  last1 : Nat         -- `_last_projected_index + 1`
  deriving Repr, DecidableEq

/-- constructor (inversion.py:31-36): `project_index_to_state_increment(0)` with the default `max_logged = -1`.
    `none` when the grid has no admissible state (then the code stores a random frontier state; not modelled). -/
def init (e : Env) : Option St :=
  match projectIndex e 0 0 none with
  | (l1, some k) => some ⟨[e.p k], [k], l1⟩
  | (_, none) => none

/-- `bisect_left(cum, u)` on a non-decreasing list: the first index whose entry is `>= u` (`len` if none) -/
def bisectLeft : List Rat → Rat → Nat
  | [], _ => 0
  | c :: cs, u => if u ≤ c then 0 else bisectLeft cs u + 1

/-- the extension loop (inversion.py:58-70); `x`, `s`, `res` are the loop variables, `fuel` bounds the number of
    iterations (`maxFrontier + 2` always suffice: `x` grows by one per iteration and an iteration with
    `x > maxFrontier` breaks). -/
def extend (e : Env) (u : Rat) : Nat → St → Nat → Rat → Option Nat → St × Option Nat
  | 0, st, _, _, res => (st, res)
  | fuel + 1, st, x, s, res =>
    if u > s then
      let x := x + 1
      match projectIndex e st.last1 x (some e.maxStorage) with
      | (l1, none) => ({ st with last1 := l1 }, none)                          -- `break_here`
      | (l1, some k) =>
        let s := s + e.p k
        let st := if st.cum.length < e.maxStorage
                  then { cum := st.cum ++ [s], sts := st.sts ++ [k], last1 := l1 }
                  else { st with last1 := l1 }
        extend e u fuel st x s (some k)
    else (st, res)

def lastD (l : List Rat) : Rat := l.getLastD 0

/-- `sample_with_u(u)` : new state and the state increment returned (`none` = random frontier state) -/
def step (e : Env) (st : St) (u : Rat) : St × Option Nat :=
  if u > lastD st.cum then
    extend e u (e.maxFrontier + 2) st (st.cum.length - 1) (lastD st.cum) none
  else (st, st.sts[bisectLeft st.cum u]?)

/-- a history of draws -/
def run (e : Env) (st : St) (us : List Rat) : St := us.foldl (fun s u => (step e s u).1) st

/-! ### specification side (used by theorems and by `cells`) -/

/-- canonical cumulative sums when no index is skipped: `c_k = p_0 + … + p_k` -/
def csum (e : Env) : Nat → Rat
  | 0 => e.p 0
  | k + 1 => csum e k + e.p (k + 1)

/-- the u-cells of a sampler without skipped indices: state `k` gets `(c_{k-1}, c_k]` (`[0, c_0]` for k = 0) -/
def cells (e : Env) : List (Nat × Rat × Rat) :=
  (List.range (e.maxFrontier + 1)).map (fun k => (k, (if k = 0 then 0 else csum e (k - 1)), csum e k))

/-- cells for the general case (skipped indices allowed), by one pass: `(state, lo, hi)` -/
def cellsFrom (e : Env) : Nat → Nat → Rat → List (Nat × Rat × Rat)
  | 0, _, _ => []
  | fuel + 1, xx, lo =>
    if xx ≤ e.maxFrontier then
      if e.inside xx then (xx, lo, lo + e.p xx) :: cellsFrom e fuel (xx + 1) (lo + e.p xx)
      else cellsFrom e fuel (xx + 1) lo
    else []

def cellsGen (e : Env) : List (Nat × Rat × Rat) := cellsFrom e (e.maxFrontier + 1) 0 0

end Rpylib.Inversion
