/-
Model of the n-dimensional adapted binary search (bucket search, then axis-cycling bisection on box masses computed on
the fly; property C02).  Mathlib-free, executable.

Anchors
  rpylib/distribution/variate/binarysearchtreeadapted.py:88-105   constructor (`_cum_ps = cumsum(ps)`, `Uniform(high=sum(ps))`)
  rpylib/distribution/variate/binarysearchtreeadapted.py:107-190  _pre_computation (3^d - 1 buckets = products of the pieces
                                                                  {origin}, [0, o-1], [o+1, n-1] of every axis without the
                                                                  all-origin one; `is_axis` buckets get a precomputed
                                                                  cumulative vector of their cell probabilities)
  rpylib/distribution/variate/binarysearchtreeadapted.py:206-241  sample_with_us (`searchsorted(_cum_ps, u)`, `u -= _cum_ps[b-1]`
                                                                  if `b > 0`; axis bucket: `searchsorted(precomputed, prob)`,
                                                                  state `l + pos` on the one axis with `l != r`)
  rpylib/distribution/variate/binarysearchtreeadapted.py:243-270  sample_one_bucket (`while any(l != r)`: `for k` over the axes:
                                                                  if `left != right`: `middle = (left+right)//2`, mass `p` of the box
                                                                  with axis `k` cut to `[left, middle]`; `current_p > p` -> go right,
                                                                  `current_p -= p`)

A box is a list of inclusive index ranges `(l, r)`, one per axis.  The measure enters through the abstract table
`M : Box → Rat` = `_compute_probability(a, b)` for the box whose corners are the cell edges of the index box (mass /
intensity; the lru cache is a memo of this pure function and is not modelled).  A state is the list of axis indices (the
code returns `index - origin_coordinate`).
-/
namespace Rpylib.AdaptedNd

abbrev Box := List (Nat × Nat)
/-- `(state, lo, hi)`: the uniforms `lo < u ≤ hi` -/
abbrev Cell := List Nat × Rat × Rat

def allDeg (b : Box) : Bool := b.all (fun lr => lr.1 == lr.2)
/-- `tuple(c[0] for c in result)` -/
def corner (b : Box) : List Nat := b.map (·.1)

/-- body of the `for k` loop for one axis (binarysearchtreeadapted.py:252-264) -/
def stepAxis (M : Box → Rat) (k : Nat) (res : Box) (cp : Rat) : Box × Rat :=
  match res[k]? with
  | none => (res, cp)
  | some (l, r) =>
    if l = r then (res, cp) else
      let m := (l + r) / 2
      let resL := res.set k (l, m)
      let p := M resL
      if cp > p then (res.set k (min r (m + 1), r), cp - p) else (resL, cp)

/-- the `for k, … in enumerate(zip(result, axes))` loop over the axes `ks` -/
def sweep (M : Box → Rat) : List Nat → Box → Rat → Box × Rat
  | [], res, cp => (res, cp)
  | k :: ks, res, cp => sweep M ks (stepAxis M k res cp).1 (stepAxis M k res cp).2

/-- the `while any(l != r for l, r in result)` loop; `fuel` bounds the number of sweeps (`Σ (r - l)` suffice: every
    sweep of a non-degenerate box halves at least one axis) -/
def search (M : Box → Rat) : Nat → Box → Rat → Box
  | 0, res, _ => res
  | fuel + 1, res, cp =>
    if allDeg res then res
    else search M fuel (sweep M (List.range res.length) res cp).1 (sweep M (List.range res.length) res cp).2

def fuelOf (b : Box) : Nat := (b.map (fun lr => lr.2 - lr.1)).sum

/-- `sample_one_bucket(coordinates, probability)` as axis indices -/
def sampleBucket (M : Box → Rat) (b : Box) (prob : Rat) : List Nat := corner (search M (fuelOf b) b prob)

/-- `searchsorted(c, u)` (side left) on a sorted list: first index whose entry is `>= u`, `len` if none -/
def bisectLeft : List Rat → Rat → Nat
  | [], _ => 0
  | c :: cs, u => if u ≤ c then 0 else bisectLeft cs u + 1

/-- axis bucket: `tuple(l if l == r else l + pos for l, r in zip(a_c, b_c))` -/
def axisState (b : Box) (pos : Nat) : List Nat := b.map (fun lr => if lr.1 = lr.2 then lr.1 else lr.1 + pos)

structure Bucket where
  box : Box
  cumP : Rat             -- `_cum_ps[b]`
  isAxis : Bool          -- `_is_axis[b]`
  axisCum : List Rat     -- `_precomputed_cum_p_for_axes[b]` (unused when `isAxis = false`)

structure Tables where
  buckets : List Bucket
  M : Box → Rat

/-- `searchsorted(_cum_ps, u)` together with the amount subtracted from `u` (`_cum_ps[b-1]`, nothing for `b = 0`);
    `none` = index `len(_cum_ps)`, for which `_buckets_coordinates[...]` raises IndexError -/
def findBucket : List Bucket → Rat → Rat → Option (Bucket × Rat)
  | [], _, _ => none
  | bk :: bks, u, base => if u ≤ bk.cumP then some (bk, base) else findBucket bks u bk.cumP

def drawBucket (M : Box → Rat) (bk : Bucket) (prob : Rat) : List Nat :=
  if bk.isAxis then axisState bk.box (bisectLeft bk.axisCum prob) else sampleBucket M bk.box prob

/-- `sample_with_us([u])[0]` as axis indices -/
def draw (t : Tables) (u : Rat) : Option (List Nat) :=
  match findBucket t.buckets u 0 with
  | none => none
  | some (bk, base) => some (drawBucket t.M bk (u - base))

/-! ### the explicit u-cells (half-open on the left: `lo < u ≤ hi`; empty ones are dropped) -/

def leaf (st : List Nat) (lo hi : Rat) : List Cell := if lo < hi then [(st, lo, hi)] else []

/-- cells of one sweep; `base` is what has been subtracted from `u` so far (`cp = u - base`), `cont` gives the cells of
    whatever follows the sweep -/
def cellsSweep (M : Box → Rat) : List Nat → Box → Rat → Rat → Rat → (Box → Rat → Rat → Rat → List Cell) → List Cell
  | [], res, base, lo, hi, cont => cont res base lo hi
  | k :: ks, res, base, lo, hi, cont =>
    match res[k]? with
    | none => cellsSweep M ks res base lo hi cont
    | some (l, r) =>
      if l = r then cellsSweep M ks res base lo hi cont else
        let m := (l + r) / 2
        let resL := res.set k (l, m)
        let p := M resL
        cellsSweep M ks resL base lo (min hi (base + p)) cont ++
          cellsSweep M ks (res.set k (min r (m + 1), r)) (base + p) (max lo (base + p)) hi cont

def cellsSearch (M : Box → Rat) : Nat → Box → Rat → Rat → Rat → List Cell
  | 0, res, _, lo, hi => leaf (corner res) lo hi
  | fuel + 1, res, base, lo, hi =>
    if allDeg res then leaf (corner res) lo hi
    else cellsSweep M (List.range res.length) res base lo hi (cellsSearch M fuel)

/-- cells of `searchsorted(cum, u - base)`: position `j` for `base + cum[j-1] < u ≤ base + cum[j]`, position `len` above -/
def cellsBisect (st : Nat → List Nat) : List Rat → Nat → Rat → Rat → Rat → List Cell
  | [], j, _, lo, hi => leaf (st j) lo hi
  | c :: cs, j, base, lo, hi => leaf (st j) lo (min hi (base + c)) ++ cellsBisect st cs (j + 1) base (max lo (base + c)) hi

def cellsBucket (M : Box → Rat) (bk : Bucket) (base lo hi : Rat) : List Cell :=
  if bk.isAxis then cellsBisect (axisState bk.box) bk.axisCum 0 base lo hi
  else cellsSearch M (fuelOf bk.box) bk.box base lo hi

def cellsFrom (M : Box → Rat) : List Bucket → Rat → Rat → List Cell
  | [], _, _ => []
  | bk :: bks, base, lo => cellsBucket M bk base lo bk.cumP ++ cellsFrom M bks bk.cumP (max lo bk.cumP)

/-- all cells, for `u > 0` -/
def cells (t : Tables) : List Cell := cellsFrom t.M t.buckets 0 0

/-- total length of the cells of state `s` -/
def lengthOf (cs : List Cell) (s : List Nat) : Rat := (cs.map (fun c => if c.1 = s then c.2.2 - c.2.1 else 0)).sum

/-! ### specification side: boxes, points -/

/-- the one-cell box of a state -/
def point (s : List Nat) : Box := s.map (fun x => (x, x))

/-- `s` lies in the index box `b` -/
def inBox : List Nat → Box → Bool
  | [], [] => true
  | x :: xs, (l, r) :: b => decide (l ≤ x) && decide (x ≤ r) && inBox xs b
  | _, _ => false

/-! ### `_pre_computation`: the buckets (binarysearchtreeadapted.py:107-190) -/

/-- the three pieces of an axis with origin index `o` and `n` points, in the code's order: origin, left, right -/
def pieces (o n : Nat) : List (Nat × Nat) := [(o, o), (0, o - 1), (o + 1, n - 1)]

/-- `itertools.product(*intervals)` (last axis varies fastest) -/
def product : List (List (Nat × Nat)) → List Box
  | [] => [[]]
  | ps :: rest => ps.flatMap (fun p => (product rest).map (fun b => p :: b))

/-- the bucket boxes for axes given as `(origin index, number of points)`: the product of the pieces without its first
    element (`next(cartesian_product)` discards the all-origin box) -/
def bucketBoxes (axes : List (Nat × Nat)) : List Box := (product (axes.map (fun on => pieces on.1 on.2))).tail

/-- `low_nb_of_pts and sum(l != r for l, r in zip(a_c, b_c)) == 1` -/
def isAxisBox (low : Bool) (b : Box) : Bool := low && (b.filter (fun lr => lr.1 != lr.2)).length == 1

/-- `numpy.cumsum` -/
def cumsum : Rat → List Rat → List Rat
  | _, [] => []
  | acc, x :: xs => (acc + x) :: cumsum (acc + x) xs

/-- the precomputed vector of an axis bucket: cumulated probabilities of the cells `c = l … r` along its one
    non-degenerate axis (`fuelOf b = r - l` for such a box) -/
def axisVector (M : Box → Rat) (b : Box) : List Rat :=
  cumsum 0 ((List.range (fuelOf b + 1)).map (fun j => M (point (axisState b j))))

def buildFrom (M : Box → Rat) (low : Bool) : List Box → Rat → List Bucket
  | [], _ => []
  | b :: bs, prev =>
    ⟨b, prev + M b, isAxisBox low b, if isAxisBox low b then axisVector M b else []⟩ :: buildFrom M low bs (prev + M b)

/-- the tables of `BinarySearchTreeAdapted(model, grid)` for the normalised box mass `M` (mass / intensity of jumps) -/
def build (M : Box → Rat) (low : Bool) (axes : List (Nat × Nat)) : Tables := ⟨buildFrom M low (bucketBoxes axes) 0, M⟩

end Rpylib.AdaptedNd
