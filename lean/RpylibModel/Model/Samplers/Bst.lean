/-
Model of the binary-search-tree sampler on an implicit heap of cumulative sums (property C02).  Mathlib-free.

Anchors
  rpylib/distribution/variate/binarysearchtree.py:29-38  sample_with_u  (`ptr = 2ptr if u < bst[ptr-1] else 2ptr+1` while ptr <= K)
  rpylib/distribution/variate/binarysearchtree.py:41-62  create_binary_search_tree (in-order walk with an explicit stack,
                                                         every internal node receives the running cumulative probability)

Nodes are numbered 1 … 2K+1 (`K = len(p) - 1`): internal nodes 1 … K, leaves K+1 … 2K+1; leaf `ptr` is state `ptr - K - 1`.
-/
namespace Rpylib.Bst

/-- the in-order walk of the subtree rooted at `ptr`: returns the thresholds assigned to its internal nodes (as
    `(node, value)` pairs, in in-order) and the running cumulative probability after the subtree.  The code's explicit
    stack is the recursion stack of this function; `fuel` bounds the depth (`K + 1` is enough, depth ≤ log2(2K+1)+1). -/
def walk (K : Nat) (p : Nat → Rat) : Nat → Nat → Rat → List (Nat × Rat) × Rat
  | 0, _, acc => ([], acc)
  | fuel + 1, ptr, acc =>
    if ptr ≤ K then
      let (tl, a1) := walk K p fuel (2 * ptr) acc
      let (tr, a2) := walk K p fuel (2 * ptr + 1) a1
      (tl ++ (ptr, a1) :: tr, a2)
    else ([], acc + p (ptr - K - 1))            -- leaf: `cum_probability += bst[ptr - 1]`

/-- `create_binary_search_tree(p)` for `len(p) = K + 1`: threshold of node `ptr` (0 for nodes never assigned) -/
def build (K : Nat) (p : Nat → Rat) : Nat → Rat :=
  let tbl := (walk K p (K + 1) 1 0).1
  fun ptr => match tbl.find? (fun e => e.1 == ptr) with
    | some e => e.2
    | none => 0

/-- `sample_with_u` for an arbitrary threshold table `bst` (node ↦ threshold); `fuel` bounds the depth -/
def descend (K : Nat) (bst : Nat → Rat) (u : Rat) : Nat → Nat → Nat
  | 0, ptr => ptr - K - 1
  | fuel + 1, ptr =>
    if ptr ≤ K then descend K bst u fuel (if u < bst ptr then 2 * ptr else 2 * ptr + 1)
    else ptr - K - 1

def draw (K : Nat) (bst : Nat → Rat) (u : Rat) : Nat := descend K bst u (K + 1) 1

/-- the u-cells induced by an arbitrary threshold table below node `ptr`, restricted to `[lo, hi)`:
    going left keeps `u < bst ptr`, going right keeps `bst ptr ≤ u`; empty intervals are dropped -/
def cellsFrom (K : Nat) (bst : Nat → Rat) : Nat → Nat → Rat → Rat → List (Nat × Rat × Rat)
  | 0, ptr, lo, hi => if lo < hi then [(ptr - K - 1, lo, hi)] else []
  | fuel + 1, ptr, lo, hi =>
    if ptr ≤ K then
      cellsFrom K bst fuel (2 * ptr) lo (min hi (bst ptr)) ++ cellsFrom K bst fuel (2 * ptr + 1) (max lo (bst ptr)) hi
    else if lo < hi then [(ptr - K - 1, lo, hi)] else []

def cells (K : Nat) (bst : Nat → Rat) : List (Nat × Rat × Rat) := cellsFrom K bst (K + 1) 1 0 1

end Rpylib.Bst
