/-
Model of the Huffman-tree sampler (property C02).  Mathlib-free, executable.

Anchors
  rpylib/distribution/variate/huffmantree.py:35-48   sample_with_u (subtract-and-descend: `u < left.value` ? left : (u -= left.value; right))
  rpylib/distribution/variate/huffmantree.py:82-100  Heap: `nodes` sorted by decreasing value (stable), `_values` increasing;
                                                     `pop` removes the *last* of both lists (smallest node, but largest value:
                                                     the two lists go out of step after the first pop); `insert` bisects `_values`
  rpylib/distribution/variate/huffmantree.py:102-112 create_huffman_tree (K merges, `heap.nodes[0]` is the head)
-/
namespace Rpylib.Huffman

inductive Tree where
  | leaf (state : Nat) (value : Rat)
  | node (value : Rat) (l r : Tree)
  deriving Repr, Inhabited

def Tree.value : Tree → Rat
  | .leaf _ v => v
  | .node v _ _ => v

/-- `sample_with_u(u, head)` -/
def draw : Tree → Rat → Nat
  | .leaf s _, _ => s
  | .node _ l r, u => if u < l.value then draw l u else draw r (u - l.value)

/-- u-cells of a tree entered with offset `lo`: a leaf gets `[lo, lo + value)`, the right child of a node is
    entered with offset `lo + left.value` -/
def cellsFrom : Tree → Rat → List (Nat × Rat × Rat)
  | .leaf s v, lo => [(s, lo, lo + v)]
  | .node _ l r, lo => cellsFrom l lo ++ cellsFrom r (lo + l.value)

def cells (t : Tree) : List (Nat × Rat × Rat) := cellsFrom t 0

/-- stable insertion into a list sorted by decreasing value, used from the right end (`List.foldr`): the new element
    comes *before* elements of equal value, so that equal values keep their original order (Python's stable
    `sort(reverse=True)`) -/
def insertDesc (t : Tree) : List Tree → List Tree
  | [] => [t]
  | x :: xs => if x.value ≤ t.value then t :: x :: xs else x :: insertDesc t xs

def sortDesc (l : List Tree) : List Tree := l.foldr insertDesc []

structure Heap where
  nodes : List Tree     -- decreasing at the start
  values : List Rat     -- `_values`: increasing

/-- `list.insert(i, x)` (an index beyond the end appends) -/
def insertAt {α} (x : α) : Nat → List α → List α
  | 0, l => x :: l
  | _ + 1, [] => [x]
  | i + 1, y :: ys => y :: insertAt x i ys

/-- `bisect_left` on the increasing list `_values` -/
def bisectLeft : List Rat → Rat → Nat
  | [], _ => 0
  | c :: cs, v => if v ≤ c then 0 else bisectLeft cs v + 1

def Heap.pop (h : Heap) : Option (Tree × Heap) :=
  match h.nodes.getLast? with
  | none => none
  | some n => some (n, ⟨h.nodes.dropLast, h.values.dropLast⟩)

def Heap.insert (h : Heap) (n : Tree) : Heap :=
  let i := bisectLeft h.values n.value
  let values := insertAt n.value i h.values
  ⟨insertAt n (values.length - i) h.nodes, values⟩

def mkHeap (leaves : List Tree) : Heap :=
  let nodes := sortDesc leaves
  ⟨nodes, (nodes.map Tree.value).reverse⟩

def merges : Nat → Heap → Heap
  | 0, h => h
  | k + 1, h =>
    match h.pop with
    | none => h
    | some (n1, h1) =>
      match h1.pop with
      | none => h
      | some (n2, h2) => merges k (h2.insert (.node (n1.value + n2.value) n1 n2))

def leavesOf (p : List Rat) : List Tree := (List.range p.length).map (fun i => .leaf i (p.getD i 0))

/-- `create_huffman_tree(p)` -/
def build (p : List Rat) : Option Tree := (merges (p.length - 1) (mkHeap (leavesOf p))).nodes.head?

/-- prefix serialisation of the shape: `-1` for an internal node, the state for a leaf -/
def shape : Tree → List Int
  | .leaf s _ => [(s : Int)]
  | .node _ l r => (-1) :: (shape l ++ shape r)

end Rpylib.Huffman
