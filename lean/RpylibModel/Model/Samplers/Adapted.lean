/-
Model of the one-dimensional adapted binary search (bisection on cell masses computed on the fly; property C02).
Mathlib-free, executable.

Anchors
  rpylib/distribution/variate/binarysearchtreeadapted.py:38-52  constructor (`_proba_left_axis = mass(-inf, -h/2)/lambda`,
                                                                 left side `[0, o-1]`, right side `[o+1, n-1]`)
  rpylib/distribution/variate/binarysearchtreeadapted.py:54-56  `_compute_probability(a, b)` (lru_cache of a pure function)
  rpylib/distribution/variate/binarysearchtreeadapted.py:62-85  sample_with_u (side choice `u > proba_left`, bisection with
                                                                 `current_p > p`, **arithmetic** midpoints `0.5*(axis[l-1]+axis[l])` hard-coded)

The measure enters through the table `w i` = mass of the *arithmetic-midpoint* cell of state `i` divided by the intensity
(what `_compute_probability(a_l, b_l)` returns for `l = r`); the probability of an index range is `P l r = Σ_{l ≤ i ≤ r} w i`
(additivity of the mass is C01/C09's subject).  The lru cache is a memo of this pure function and is not modelled.
-/
namespace Rpylib.Adapted

/-- `Σ_{l ≤ i ≤ r} w i` -/
def rangeMass (w : Nat → Rat) (l r : Nat) : Rat := ((List.range (r + 1 - l)).map (fun i => w (l + i))).sum

/-- the `while left != right` loop; `fuel` bounds the number of halvings (`right - left` always suffices) -/
def bisect (w : Nat → Rat) : Nat → Nat → Nat → Rat → Nat
  | 0, left, _, _ => left
  | fuel + 1, left, right, cp =>
    if left = right then left else
      let middle := (left + right) / 2
      let p := rangeMass w left middle
      if cp > p then bisect w fuel (min right (middle + 1)) right (cp - p)
      else bisect w fuel left middle cp

/-- `sample_with_u(u)`: the *index* on the axis (the code returns `index - origin`).  `n` = number of axis points,
    `o` = origin index, `pLeft = _proba_left_axis`. -/
def draw (w : Nat → Rat) (n o : Nat) (pLeft : Rat) (u : Rat) : Nat :=
  if u > pLeft then bisect w n (o + 1) (n - 1) (u - pLeft)
  else bisect w n 0 (o - 1) u

/-- u-cells: left side `(Σ_{i<k} w i, Σ_{i≤k} w i]`, right side shifted by `pLeft`; the last index of each side also
    receives everything above (the bisection never rejects) -/
def cells (w : Nat → Rat) (n o : Nat) (pLeft : Rat) : List (Nat × Rat × Rat) :=
  (List.range o).map (fun k => (k, rangeMass w 0 k - w k, rangeMass w 0 k)) ++
  (List.range (n - 1 - o)).map (fun i => (o + 1 + i, pLeft + rangeMass w (o + 1) (o + 1 + i) - w (o + 1 + i),
                                          pLeft + rangeMass w (o + 1) (o + 1 + i)))

end Rpylib.Adapted
