/-
Model of the alias sampler (property C02).  Mathlib-free, executable.

Anchors
  rpylib/distribution/variate/alias.py:45-52   _draw_with_u  (`ku = K*u; x = int(ku); v = ku - x; x if v < q[x] else J[x]`)
  rpylib/distribution/variate/alias.py:55-94   create_alias  (Walker/Vose with LIFO stacks, two clean-up loops)

Tables are index functions `q : Nat → Rat`, `J : Nat → Nat` together with the size `K` (DESIGN §1.2a); the driver
prints `(List.range K).map q`.
-/
namespace Rpylib.Alias

/-- functional update -/
def upd {α} (f : Nat → α) (i : Nat) (v : α) : Nat → α := fun j => if j = i then v else f j

structure Tables where
  K : Nat
  q : Nat → Rat
  J : Nat → Nat

/-- `_draw_with_u` for `0 ≤ u` (then `int(ku)` is the floor) -/
def draw (t : Tables) (u : Rat) : Nat :=
  let ku := (t.K : Rat) * u
  let x := ku.floor.toNat
  let v := ku - (x : Rat)
  if v < t.q x then x else t.J x

/-- cut-off of a column as it acts on `v ∈ [0,1)` -/
def clamp01 (x : Rat) : Rat := if x < 0 then 0 else if 1 < x then 1 else x

/-- the explicit half-open u-intervals: column `x` sends `[x/K, (x+c)/K)` to `x` and `[(x+c)/K, (x+1)/K)` to `J x`,
    `c = clamp01 (q x)` -/
def cells (t : Tables) : List (Nat × Rat × Rat) :=
  (List.range t.K).flatMap (fun x =>
    let c := clamp01 (t.q x)
    [(x, (x : Rat) / t.K, ((x : Rat) + c) / t.K), (t.J x, ((x : Rat) + c) / t.K, ((x : Rat) + 1) / t.K)])

/-- total length of the cells of state `k` in a list of cells -/
def lengthOf (cs : List (Nat × Rat × Rat)) (k : Nat) : Rat :=
  (cs.map (fun c => if c.1 = k then c.2.2 - c.2.1 else 0)).sum

/-- the law induced by arbitrary tables: `(Σ_x [x = k]·c_x + [J x = k]·(1 - c_x)) / K` -/
def lawOfTables (t : Tables) (k : Nat) : Rat :=
  ((List.range t.K).map (fun x =>
      (if x = k then clamp01 (t.q x) else 0) + (if t.J x = k then 1 - clamp01 (t.q x) else 0))).sum / t.K

/-! ### construction -/

structure BState where
  q : Nat → Rat
  J : Nat → Nat
  smaller : List Nat      -- LIFO: head = top of the deque (`append` / `pop` on the right)
  greater : List Nat

/-- the classification loop alias.py:65-70 (index `l` ascending; the last appended is on top) -/
def classify (q : Nat → Rat) : Nat → List Nat × List Nat
  | 0 => ([], [])
  | l + 1 =>
    let (sm, gr) := classify q l
    if q l < 1 then (l :: sm, gr) else (sm, l :: gr)

/-- main loop alias.py:72-81; at most `K` iterations (each removes one index from the two stacks) -/
def mainLoop : Nat → BState → BState
  | 0, s => s
  | fuel + 1, s =>
    match s.greater, s.smaller with
    | great :: gs, small :: ss =>
      let qg := (s.q great + s.q small) - 1
      let q := upd s.q great qg
      let J := upd s.J small great
      if qg < 1 then mainLoop fuel ⟨q, J, great :: ss, gs⟩
      else mainLoop fuel ⟨q, J, ss, great :: gs⟩
    | _, _ => s

/-- the two clean-up loops alias.py:84-92 -/
def setOnes (q : Nat → Rat) : List Nat → Nat → Rat
  | [] => q
  | i :: is => setOnes (upd q i 1) is

/-- `create_alias(p)` with `dim = K` -/
def build (K : Nat) (p : Nat → Rat) : Tables :=
  let q0 : Nat → Rat := fun l => p l * K
  let (sm, gr) := classify q0 K
  let s := mainLoop K ⟨q0, fun _ => 0, sm, gr⟩
  ⟨K, setOnes (setOnes s.q s.greater) s.smaller, s.J⟩

def ofLists (q : List Rat) (J : List Nat) : Tables := ⟨q.length, fun i => q.getD i 0, fun i => J.getD i 0⟩

end Rpylib.Alias
