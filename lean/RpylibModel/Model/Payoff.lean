/-
Model of rpylib/product/payoff.py, rpylib/product/underlying.py and of `Product.update / underlying_value / __call__`
(rpylib/product/product.py:43-73).  Mathlib-free, executable, over ℚ.

Anchors
  payoff.py:132-237   FixedCoupon, Forward, Vanilla (scalar / vector strike), CallSpread, Butterfly, Digital
  payoff.py:240-299   Barrier: `barrier_event` is (re)computed by `process(times, path)` for the path being processed
  payoff.py:324-532   Rainbow, CDS, Bond, Cap, Ratchet, Swaption (stateless)
  underlying.py:97-102  `Underlying.update`: LOG binds `value := _value_log`, anything else restores the class' `value`
  underlying.py:143-502 Spot/Libors, LogSpot, Asian, Mean, Performances, MaximumOfPerformances, NthSpot, Indicators,
                        DefaultTime, DefaultTimeNthUnderlying, NthDefaultTimes in both representations
  product.py:43-73    underlying_value (underlying first, then `payoff.process`), update, __call__ (notional * payoff)

`exp` / `log` are an abstract pair of functions ℚ → ℚ (`ExpLog`); what the theorems need of them is stated as
hypotheses in Proofs/C17.lean.  The driver instantiates the pair with tables of the values numpy returned.

Not modelled (excluded from the generators, see harness/props/c17.py): `LookBack` (its `process` raises ValueError by
design), `PayoffOnTheFly` (a user function), payoffs applied to shapes they were not written for.
-/
namespace Rpylib.Payoff

/-! ### small helpers -/

/-- `np.maximum(a, b)` -/
def rmax (a b : Rat) : Rat := if a < b then b else a

def listSum (l : List Rat) : Rat := l.foldr (· + ·) 0
def listProd (l : List Rat) : Rat := l.foldr (· * ·) 1

/-- Σ_{i<n} f i -/
def sumTo (n : Nat) (f : Nat → Rat) : Rat := listSum ((List.range n).map f)

/-- `x[..., -1]` of one row (0 for an empty row; rows are never empty in the compared inputs) -/
def lastOf : List Rat → Rat
  | [] => 0
  | [x] => x
  | _ :: y :: r => lastOf (y :: r)

/-! ### payoff formulas (payoff.py:146-237) -/

/-- `Forward.evaluate`: `underlying - strike` -/
def forward (u K : Rat) : Rat := u - K

/-- `Vanilla.evaluate`: `np.maximum(_call_put * (underlying - strike), 0.0)` -/
def vanilla (isCall : Bool) (u K : Rat) : Rat := rmax ((if isCall then 1 else -1) * (u - K)) 0

def call (u K : Rat) : Rat := vanilla true u K
def put (u K : Rat) : Rat := vanilla false u K

/-- vector of strikes, scalar underlying: one payoff per strike -/
def vanillaVec (isCall : Bool) (u : Rat) (Ks : List Rat) : List Rat := Ks.map (vanilla isCall u)

/-- `CallSpread.evaluate`: `strike2 - strike1` above `strike2`, else `max(0, u - strike1)` -/
def callSpread (u K1 K2 : Rat) : Rat := if K2 < u then K2 - K1 else rmax 0 (u - K1)

/-- `Butterfly.evaluate`: `calls[0] - 2 calls[1] + calls[2]` with `calls = max(0, u - strikes)` -/
def butterfly (u K1 K2 K3 : Rat) : Rat := rmax 0 (u - K1) - 2 * rmax 0 (u - K2) + rmax 0 (u - K3)

/-- `Digital.evaluate`: call = 1 above the strike (strictly), put = 1 - call -/
def digital (isCall : Bool) (u K : Rat) : Rat :=
  let c : Rat := if K < u then 1 else 0
  if isCall then c else 1 - c

/-- `Barrier._evaluate_knockin / _evaluate_knockout` given the event flag of the processed path -/
def barrierEval (isCall : Bool) (K : Rat) (isIn flag : Bool) (u : Rat) : Rat :=
  if isIn then (if flag then vanilla isCall u K else 0) else (if flag then 0 else vanilla isCall u K)

/-- `__barrier_event_up / __barrier_event_down`: some value of the path strictly beyond the barrier -/
def knocked (up : Bool) (B : Rat) (row : List Rat) : Bool :=
  row.any (fun v => if up then decide (B < v) else decide (v < B))

/-! ### stateless multi-underlying payoffs (payoff.py:324-532) -/

def leB (a b : Rat) : Bool := decide (a ≤ b)

/-- `Rainbow.evaluate`: weights (given best to worst) are flipped and applied to the ascending performances -/
def rainbow (w : List Rat) (K : Rat) (isCall : Bool) (u : List Rat) : Rat :=
  let v := listSum (List.zipWith (· * ·) w.reverse (u.mergeSort leB))
  rmax 0 ((if isCall then 1 else -1) * (v - K))

/-- `1 + deltas * rates`, component-wise -/
def accr (deltas rates : List Rat) : List Rat := List.zipWith (fun d l => 1 + d * l) deltas rates

/-- `np.cumprod` -/
def cumprodFrom : Rat → List Rat → List Rat
  | _, [] => []
  | a, x :: xs => (a * x) :: cumprodFrom (a * x) xs
def cumprod (l : List Rat) : List Rat := cumprodFrom 1 l

/-- `_factor = 1 / prod(1 + deltas * underlying_rates)` for today's rates -/
def factorOf (deltas L0 : List Rat) : Rat := 1 / listProd (accr deltas L0)

def bond (deltas L0 L : List Rat) : Rat := listProd (accr deltas L) * factorOf deltas L0

def cap (deltas L0 : List Rat) (K : Rat) (L : List Rat) : Rat :=
  let adj := (cumprod (accr deltas L)).reverse
  let res := List.zipWith (· * ·) (List.zipWith (fun d l => d * rmax (l - K) 0) deltas L) adj
  listSum res * factorOf deltas L0

/-- coupons `c_k = min(max(delta (L_k + spread), c_{k-1}), c_{k-1} + increment)` -/
def ratchetCoupons (spread inc : Rat) : Rat → List Rat → List Rat → List Rat
  | cp, l :: ls, d :: ds =>
    let aux := d * (l + spread)
    let c := let m := rmax aux cp; if cp + inc < m then cp + inc else m
    c :: ratchetCoupons spread inc c ls ds
  | _, _, _ => []

def ratchet (deltas : List Rat) (g m spread inc first : Rat) (L : List Rat) : Rat :=
  let adj := (cumprod (accr deltas L)).reverse
  let c := ratchetCoupons spread inc first L deltas
  let funding := List.zipWith (fun d l => d * (g * l + m)) deltas L
  listSum (List.zipWith (· * ·) (List.zipWith (· - ·) c funding) adj)

def swaption (deltas L0 : List Rat) (K : Rat) (payer : Bool) (L : List Rat) : Rat :=
  let aux := cumprod (accr deltas L)
  let payerPayoff := lastOf aux - 1 - K * listSum (List.zipWith (· * ·) deltas aux.reverse)
  rmax ((if payer then 1 else -1) * payerPayoff) 0 * factorOf deltas L0

/-- `CDS.evaluate` for the affine discounting function `df t = d0 + d1 t` the harness passes in; `r` is the value of
`-log(df(1))` the constructor computed; `tau = none` is a default time of +∞ -/
def cds (R spread T r d0 d1 : Rat) (tau : Option Rat) : Rat :=
  let df := fun t : Rat => d0 + d1 * t
  let defaulted := match tau with | none => false | some t => !(decide (T < t))
  let tmin := match tau with | none => T | some t => if T < t then T else t
  let dl : Rat := if defaulted then (1 - R) * df (tau.getD 0) else 0
  let fl : Rat := spread * (1 - df tmin) / r
  dl / df T - fl / df T

/-! ### values and payoffs as objects -/

/-- what flows between `underlying_value` and `__call__`: an array (a scalar is a one-entry array), a default time
(`none` = +∞), or "the implementation raises" -/
inductive Val where
  | vec (l : List Rat)
  | time (t : Option Rat)
  | err
  deriving DecidableEq, Repr

inductive PayoffT where
  | fixedCoupon (c : Rat)
  | forward (K : Rat)
  | vanilla (isCall : Bool) (K : Rat)
  | vanillaVec (isCall : Bool) (Ks : List Rat)
  | callSpread (K1 K2 : Rat)
  | butterfly (K1 K2 K3 : Rat)
  | digital (isCall : Bool) (K : Rat)
  | barrier (isCall : Bool) (K : Rat) (up isIn : Bool) (B : Rat)
  | rainbow (w : List Rat) (K : Rat) (isCall : Bool)
  | cds (R spread T r d0 d1 : Rat)
  | bond (deltas L0 : List Rat)
  | cap (deltas L0 : List Rat) (K : Rat)
  | ratchet (deltas : List Rat) (g m spread inc first : Rat)
  | swaption (deltas L0 : List Rat) (K : Rat) (payer : Bool)
  deriving DecidableEq, Repr

/-- `payoff(underlying)` for the payoffs that hold no state.  Scalar payoffs written with `if` are defined on one-entry
arrays only (a longer array makes the `if` raise); the `np.maximum` ones broadcast. -/
def evalStateless (P : PayoffT) (v : Val) : Val :=
  match P, v with
  | _, .err => .err
  | .fixedCoupon c, _ => .vec [c]
  | .forward K, .vec l => .vec (l.map (forward · K))
  | .vanilla c K, .vec l => .vec (l.map (vanilla c · K))
  | .vanillaVec c Ks, .vec [u] => .vec (vanillaVec c u Ks)
  | .vanillaVec c Ks, .vec l => if l.length = Ks.length then .vec (List.zipWith (vanilla c) l Ks) else .err
  | .callSpread K1 K2, .vec [u] => .vec [callSpread u K1 K2]
  | .butterfly K1 K2 K3, .vec [u] => .vec [butterfly u K1 K2 K3]
  | .digital c K, .vec [u] => .vec [digital c u K]
  | .digital c _, .time none => .vec [if c then 1 else 0]
  | .digital c K, .time (some t) => .vec [digital c t K]
  | .rainbow w K c, .vec l => .vec [rainbow w K c l]
  | .cds R s T r d0 d1, .time t => .vec [cds R s T r d0 d1 t]
  | .bond d L0, .vec l => .vec [bond d L0 l]
  | .cap d L0 K, .vec l => .vec [cap d L0 K l]
  | .ratchet d g m s i f, .vec l => .vec [ratchet d g m s i f l]
  | .swaption d L0 K p, .vec l => .vec [swaption d L0 K p l]
  | _, _ => .err

/-- `payoff(underlying)` given the barrier flag the payoff object holds (only `Barrier` reads it) -/
def evalPay (P : PayoffT) (flag : Bool) (v : Val) : Val :=
  match P with
  | .barrier c K _ isIn _ =>
    match v with
    | .vec [u] => .vec [barrierEval c K isIn flag u]
    | _ => .err
  | P => evalStateless P v

/-- `notional * value` -/
def scale (n : Rat) : Val → Val
  | .vec l => .vec (l.map (n * ·))
  | _ => .err

/-! ### underlyings (underlying.py:143-502) -/

/-- the abstract `exp` / `log` pair -/
structure ExpLog where
  exp : Rat → Rat
  log : Rat → Rat

inductive Rep where
  | identity | log
  deriving DecidableEq, Repr

/-- one simulated path as handed to `Product.underlying_value`: `rows` is the d × (n+1) array `path` (`flat` = it is
the 1-d array of a one-dimensional process), `jrows` the pure-jump component, in the process' representation -/
structure Path where
  times : List Rat
  rows : List (List Rat)
  jrows : List (List Rat)
  flat : Bool
  deriving DecidableEq, Repr

inductive UnderlyingT where
  | spot                                   -- Spot, Libors
  | logSpot
  | asian
  | mean
  | performances (s0 : List Rat)
  | maxPerf (s0 : List Rat)
  | nthSpot (i : Nat)
  | indicators (thr : List Rat)
  | defaultTime (a : Rat)
  | defaultTimeNth (as : List Rat) (k : Nat)
  | nthDefault (as : List Rat) (k : Nat)
  deriving DecidableEq, Repr

/-- `path[..., -1]` -/
def terminals (rows : List (List Rat)) : List Rat := rows.map lastOf

/-- numpy broadcasting of a one-entry array against `n` entries -/
def bcast (l : List Rat) (n : Nat) : List Rat :=
  match l with
  | [x] => List.replicate n x
  | _ => l

/-- `Asian.value` on one row, as an index-function formula: Σ_{k≤n} S_k (t_k − t_{k−1}) / t_n with `t_{−1} := 0`
(`res, last_t = 0, 0; for k, t: res += S_k (t − last_t); last_t = t; return res / last_t`).  With `t_0 = 0` the
time-0 value gets weight 0. -/
def asianIdx (n : Nat) (t s : Nat → Rat) : Rat :=
  sumTo (n + 1) (fun k => s k * (t k - (if k = 0 then 0 else t (k - 1)))) / t n

def asianRow (times row : List Rat) : Rat :=
  asianIdx (times.length - 1) (fun k => times.getD k 0) (fun k => row.getD k 0)

/-- least `k` in `[s, s+n)` with `p k` -/
def firstIdx (p : Nat → Bool) : Nat → Nat → Option Nat
  | _, 0 => none
  | s, n + 1 => if p s then some s else firstIdx p (s + 1) n

/-- `_value_log` of the default-time underlyings on one row of log jump values `j_0 … j_n`:
`idx = argwhere(diff(j) < a); times[min(idx) + 1]` if any, else +∞ (`none`) -/
def defaultTimeIdx (a : Rat) (n : Nat) (j t : Nat → Rat) : Option Rat :=
  (firstIdx (fun k => decide (j (k + 1) - j k < a)) 0 n).map (fun k => t (k + 1))

def defaultTimeRow (a : Rat) (times jrow : List Rat) : Option Rat :=
  defaultTimeIdx a (jrow.length - 1) (fun k => jrow.getD k 0) (fun k => times.getD k 0)

/-- order on default times, `none` = +∞ -/
def extLe : Option Rat → Option Rat → Bool
  | _, none => true
  | none, some _ => false
  | some a, some b => decide (a ≤ b)

/-- `np.amax(default_times[np.argpartition(default_times, k)[:k+1]])`: the (k+1)-th smallest default time;
`none` when `k` is out of range (argpartition raises) -/
def kthSmallest (dts : List (Option Rat)) (k : Nat) : Option (Option Rat) := (dts.mergeSort extLe)[k]?

def maxList : List Rat → Option Rat
  | [] => none
  | x :: xs => some (xs.foldl rmax x)

def timeVal : Option (Option Rat) → Val
  | none => .err
  | some t => .time t

/-- the class' own `value` (identity representation: the path holds spot values) -/
def undId (E : ExpLog) (U : UnderlyingT) (p : Path) : Val :=
  match U with
  | .spot => .vec (terminals p.rows)
  | .logSpot => .vec ((terminals p.rows).map E.log)
  | .asian => .vec (p.rows.map (asianRow p.times))
  | .mean => .vec [listSum (terminals p.rows) / (terminals p.rows).length]
  | .performances s0 => .vec (List.zipWith (· / ·) (bcast (terminals p.rows) s0.length) s0)
  | .maxPerf s0 =>
    match maxList (List.zipWith (· / ·) (bcast (terminals p.rows) s0.length) s0) with
    | some m => .vec [m]
    | none => .err
  | .nthSpot i => if p.flat then .err else match p.rows[i - 1]? with | some r => .vec [lastOf r] | none => .err
  | .indicators thr =>
    .vec [if (List.zipWith (fun x t => decide (t < x)) (bcast (terminals p.rows) thr.length) thr).all id then 1 else 0]
  | .defaultTime a => if p.flat then .time (defaultTimeRow a p.times ((p.jrows.headD []).map E.log)) else .err
  | .defaultTimeNth as k =>
    if p.flat then .err else
    match p.jrows[k - 1]?, as[k - 1]? with
    | some r, some a => .time (defaultTimeRow a p.times (r.map E.log))
    | _, _ => .err
  -- `NthDefaultTimes.value`: `_DefaultTimes.value` takes logs of the jump path and calls `_DefaultTimes._value_log`
  -- explicitly (6ac83d2), then the (k+1)-th smallest of the individual default times
  | .nthDefault as k =>
    if p.flat then .err else
    if p.jrows.length = as.length then
      timeVal (kthSmallest (List.zipWith (fun r a => defaultTimeRow a p.times (r.map E.log)) p.jrows as) (k - 1))
    else .err

/-- `_value_log` (LOG representation: the path holds log-spot values) -/
def undLog (E : ExpLog) (U : UnderlyingT) (p : Path) : Val :=
  match U with
  | .spot => .vec ((terminals p.rows).map E.exp)
  | .logSpot => .vec (terminals p.rows)
  -- Asian / Mean only forward `update` to their inner Spot: `value` runs with `_spot.value = exp(path[..., -1])`
  | .asian => .vec (p.rows.map (fun r => asianRow p.times (r.map E.exp)))
  | .mean => .vec [listSum ((terminals p.rows).map E.exp) / (terminals p.rows).length]
  | .performances s0 => .vec (List.zipWith (fun x s => E.exp (x - E.log s)) (bcast (terminals p.rows) s0.length) s0)
  | .maxPerf s0 =>
    match maxList (List.zipWith (fun x s => x - E.log s) (bcast (terminals p.rows) s0.length) s0) with
    | some m => .vec [E.exp m]
    | none => .err
  | .nthSpot i => if p.flat then .err else match p.rows[i - 1]? with | some r => .vec [E.exp (lastOf r)] | none => .err
  | .indicators thr =>
    .vec [if (List.zipWith (fun x t => decide (E.log t < x)) (bcast (terminals p.rows) thr.length) thr).all id then 1 else 0]
  | .defaultTime a => if p.flat then .time (defaultTimeRow a p.times (p.jrows.headD [])) else .err
  | .defaultTimeNth as k =>
    if p.flat then .err else
    match p.jrows[k - 1]?, as[k - 1]? with
    | some r, some a => .time (defaultTimeRow a p.times r)
    | _, _ => .err
  | .nthDefault as k =>
    if p.flat then .err else
    if p.jrows.length = as.length then
      timeVal (kthSmallest (List.zipWith (fun r a => defaultTimeRow a p.times r) p.jrows as) (k - 1))
    else .err

/-- the implementation the instance is currently bound to -/
def undValue (E : ExpLog) (rep : Rep) (U : UnderlyingT) (p : Path) : Val :=
  match rep with
  | .identity => undId E U p
  | .log => undLog E U p

/-! ### the product object: state machine -/

structure Terms where
  und : UnderlyingT
  pay : PayoffT
  notional : Rat
  deriving DecidableEq, Repr

/-- mutable state of one `Product` object: `payoff.barrier_event` and which implementation `payoff_underlying.value`
is bound to -/
structure Obj where
  flag : Bool
  bind : Rep
  deriving DecidableEq, Repr

def Obj.init : Obj := ⟨false, .identity⟩

inductive Op where
  | update (r : Rep)
  | uv (p : Path)
  | call (v : Val)
  deriving DecidableEq, Repr

inductive Out where
  | unit
  | val (v : Val)
  deriving DecidableEq, Repr

/-- `payoff.process(times, path)`: the barrier event of *this* path (payoff.py:275-287, flag reset first); every other
payoff's `process` does nothing.  The raw path is scanned, in whatever representation the process uses. -/
def processFlag (P : PayoffT) (p : Path) (old : Bool) : Bool :=
  match P with
  | .barrier _ _ up _ B => knocked up B (p.rows.headD [])
  | _ => old

/-- does `payoff.process` raise?  `for value in path` over a 2-d array compares whole rows -/
def processRaises (P : PayoffT) (p : Path) : Bool :=
  match P with
  | .barrier .. => !p.flat
  | _ => false

def outVal : Out → Val
  | .val v => v
  | .unit => .err

/-- `Product.underlying_value`: the underlying first (if it raises, `process` is not reached), then `payoff.process` -/
def stepUv (E : ExpLog) (T : Terms) (s : Obj) (p : Path) : Obj × Out :=
  let v := undValue E s.bind T.und p
  if v = .err then (s, .val .err)
  else if processRaises T.pay p then ({ s with flag := false }, .val .err)
  else ({ s with flag := processFlag T.pay p s.flag }, .val v)

def step (E : ExpLog) (T : Terms) (s : Obj) : Op → Obj × Out
  | .update r => ({ s with bind := r }, .unit)
  | .uv p => stepUv E T s p
  | .call v => (s, .val (scale T.notional (evalPay T.pay s.flag v)))

def run (E : ExpLog) (T : Terms) (ops : List Op) (s : Obj) : Obj := ops.foldl (fun s o => (step E T s o).1) s

/-- what the engine does with one path: `u = product.underlying_value(times, path, jump_path); product(u)` -/
def valueOn (E : ExpLog) (T : Terms) (s : Obj) (p : Path) : Val :=
  let r := step E T s (.uv p)
  if outVal r.2 = .err then .err else outVal (step E T r.1 (.call (outVal r.2))).2

/-- the pure function of (path, terms, representation) the property speaks of -/
def pureValue (E : ExpLog) (T : Terms) (rep : Rep) (p : Path) : Val :=
  let u := undValue E rep T.und p
  if u = .err then .err
  else if processRaises T.pay p then .err
  else scale T.notional (evalPay T.pay (processFlag T.pay p false) u)

/-- representation set by the last `update` of a history (the constructor leaves the identity implementation) -/
def lastRep (r0 : Rep) : List Op → Rep
  | [] => r0
  | .update r :: ops => lastRep r ops
  | _ :: ops => lastRep r0 ops

/-! ### the object before the three fixes (negation witnesses only) -/

/-- before b43cade: the flag was only ever set -/
def processFlagOld (P : PayoffT) (p : Path) (old : Bool) : Bool :=
  match P with
  | .barrier _ _ up _ B => old || knocked up B (p.rows.headD [])
  | _ => old

/-- before b43b997: `update(IDENDITY)` did nothing; before dcab1cf: `Asian.value` replaced the path by the terminal
spot and iterated over it (TypeError for the 1-d path of a one-dimensional process) -/
def stepUvOld (E : ExpLog) (T : Terms) (s : Obj) (p : Path) : Obj × Out :=
  let v := if T.und = .asian ∧ p.flat then Val.err else undValue E s.bind T.und p
  if v = .err then (s, .val .err)
  else if processRaises T.pay p then (s, .val .err)
  else ({ s with flag := processFlagOld T.pay p s.flag }, .val v)

def stepOld (E : ExpLog) (T : Terms) (s : Obj) : Op → Obj × Out
  | .update r => ((if r = .log then { s with bind := .log } else s), .unit)
  | .uv p => stepUvOld E T s p
  | .call v => (s, .val (scale T.notional (evalPay T.pay s.flag v)))

def runOld (E : ExpLog) (T : Terms) (ops : List Op) (s : Obj) : Obj := ops.foldl (fun s o => (stepOld E T s o).1) s

def valueOnOld (E : ExpLog) (T : Terms) (s : Obj) (p : Path) : Val :=
  let r := stepOld E T s (.uv p)
  if outVal r.2 = .err then .err else outVal (stepOld E T r.1 (.call (outVal r.2))).2

/-- before 6ac83d2: `_DefaultTimes.value` called `self._value_log`, which for `NthDefaultTimes` dispatched back to the
subclass and returned the already reduced scalar; indexing it again raised IndexError / ValueError on every path -/
def undIdOld (E : ExpLog) (U : UnderlyingT) (p : Path) : Val :=
  match U with
  | .nthDefault _ _ => .err
  | U => undId E U p

/-- a rational strictly increasing bijection ℚ → ℚ_{>0} with its inverse: shows that the hypotheses made of the
abstract pair are satisfiable, and serves the literal negation witnesses -/
def ratExpLog : ExpLog :=
  { exp := fun x => if 0 ≤ x then 1 + x else 1 / (1 - x)
    log := fun s => if 1 ≤ s then s - 1 else 1 - 1 / s }

end Rpylib.Payoff
