/-
Model of the *composition logic* of the Fourier / closed-form pricers (Mathlib-free, executable).

Anchors
  rpylib/numerical/cosmethod.py:38-40   weights (first term halved)
  rpylib/numerical/cosmethod.py:85-93   cdf = 1 - digital
  rpylib/numerical/cosmethod.py:95-128  psi, xi (= chi of Fang-Oosterlee), u_put
  rpylib/numerical/cosmethod.py:130-141 _pricing_formula = df * Re(sum)
  rpylib/numerical/cosmethod.py:143-182 forward, put, call (= forward + put)
  rpylib/numerical/cosmethod.py:184-208 butterfly, digital
  rpylib/numerical/fft.py:82-92         put = call - df*(fwd - strike)
  rpylib/numerical/closedform/cfblackscholes.py:39-122  Black-Scholes formulas, degenerate branch, digital

What is abstracted: every transcendental value (the real part of the transform series, cos/sin/exp values, the
normal distribution function, log(fwd/strike), sqrt(T)) is a *parameter*.  The model is what the code does with
those values.  The definitions of the first section are generic over the carrier so that the very same definition is
executed over `Rat` by the driver and reasoned about over `ℝ` (coefficient integrals) in the proof files.
-/
namespace Rpylib.Pricers

section generic
variable {α : Type} [Add α] [Sub α] [Mul α] [Div α] [Neg α]

/-! ### COS pricer -/

/-- `COSPricer.forward`: `df * (fwd - strikes)`  (cosmethod.py:156) -/
def cosForward (df fwd K : α) : α := df * (fwd - K)

/-- `COSPricer._pricing_formula`: `df * sum_term.real`  (cosmethod.py:141) -/
def cosPricing (df series : α) : α := df * series

/-- `COSPricer.put`: `strikes * _pricing_formula(...)`  (cosmethod.py:168-170) -/
def cosPut (df K series : α) : α := K * cosPricing df series

/-- `COSPricer.call`: `forward(strikes) + put(strikes)`  (cosmethod.py:181) -/
def cosCall (df fwd K series : α) : α := cosForward df fwd K + cosPut df K series

/-- `COSPricer.butterfly` / `CFBlackScholes.butterfly`: `calls[0] - 2*calls[1] + calls[2]` -/
def butterfly [OfNat α 2] (c1 c2 c3 : α) : α := c1 - 2 * c2 + c3

/-- call spread `call(K1) - call(K2)` (payoff.py CallSpread priced with two calls) -/
def callSpread (c1 c2 : α) : α := c1 - c2

/-- `COSPricer.digital`: `_pricing_formula` without the strike factor: `df * series` (cosmethod.py:204-208) -/
def cosDigital (df series : α) : α := cosPricing df series

/-- `COSPricer.cdf`: `1 - digital(...)`  (cosmethod.py:93).  NB: the digital is *discounted*. -/
def cosCdf [OfNat α 1] (digital : α) : α := 1 - digital

/-- `COSPricer.xi(k,a,b,c,d)` (cosmethod.py:105-118) with `u = k*pi/(b-a)`; the six transcendental values are
parameters: `cd = cos(u*(d-a))`, `sd = sin(u*(d-a))`, `ed = exp(d)`, and `cc, sc, ec` the same at `c`.
`num = aux1(d) - aux1(c) + aux2(d) - aux2(c)`, `aux1(x) = cos*exp`, `aux2(x) = u*sin*exp`, `den = 1 + u^2`. -/
def chiOf [OfNat α 1] (u cd sd ed cc sc ec : α) : α :=
  (cd * ed - cc * ec + u * sd * ed - u * sc * ec) / (1 + u * u)

/-- `COSPricer.psi(k,a,b,c,d)` (cosmethod.py:95-103): `(sin(u(d-a)) - sin(u(c-a)))/u`, and `d - c` for `k = 0` -/
def psiOf (kIsZero : Bool) (u sd sc c d : α) : α :=
  if kIsZero then d - c else (sd - sc) / u

/-- `COSPricer.u_put(k,a,b)` (cosmethod.py:120-127): `2/(b-a) * (-xi + psi)` -/
def uPut [OfNat α 2] (a b chi psi : α) : α := 2 / (b - a) * (-chi + psi)

/-- digital coefficients (cosmethod.py:207): `2/(b-a) * psi(k,a,b,0,b)` -/
def vDigital [OfNat α 2] (a b psi : α) : α := 2 / (b - a) * psi

/-! ### FFT pricer -/

/-- `FFTPricer.put`: `call - df*(fwd - strike)` (fft.py:90-92) -/
def fftPut (call df fwd K : α) : α := call - df * (fwd - K)

/-! ### COS series with the first term halved (cosmethod.py:38-40, 137-139)

Generic over the carrier: executed over ℚ by the driver (`cosPutOfTerms`), reasoned about over ℝ in
Proofs/Lemmas/C18Exact.lean (the series of the real transform values). -/

/-- `sum(weights * terms)` with `weights = (1/2, 1, 1, …)` -/
def halfFirstSum [Zero α] [OfNat α 2] : List α → α
  | [] => 0
  | t0 :: rest => t0 / 2 + rest.sum

end generic

/-- put price from the list of real parts of the series terms -/
def cosPutOfTerms (df K : Rat) (terms : List Rat) : Rat := cosPut df K (halfFirstSum terms)

/-! ### Black–Scholes closed form (cfblackscholes.py:39-122)

`Φ` is the normal distribution function (abstract), `lg = log(fwd/strike)` and `sd = sigma*sqrt(maturity)` are
parameters.  `flag = 1` call, `flag = -1` put.  The regular branch is generic over the carrier (executed over ℚ by the
driver, differentiated in the strike over ℝ in Proofs/Lemmas/C18BS.lean); the threshold test and the degenerate branch
are over ℚ. -/

section bsgeneric
variable {α : Type} [Add α] [Sub α] [Mul α] [Div α] [OfNat α 1] [OfNat α 2]

/-- `d1 = np.log(fwd / strike) / stddev + 0.5 * stddev`  (cfblackscholes.py:58) -/
def bsD1 (lg sd : α) : α := lg / sd + (1 / 2) * sd
/-- `d2 = d1 - stddev`  (cfblackscholes.py:59) -/
def bsD2 (lg sd : α) : α := bsD1 lg sd - sd

/-- regular branch of `_call_put`: `df * flag * (fwd * norm.cdf(d1 * flag) - strike * norm.cdf(d2 * flag))` (line 61) -/
def bsRegular (Φ : α → α) (flag df fwd K lg sd : α) : α :=
  df * flag * (fwd * Φ (bsD1 lg sd * flag) - K * Φ (bsD2 lg sd * flag))

/-- the argument of `norm.cdf` in `CFBlackScholes.digital`: `d2 = np.log(fwd / strike) / stddev - 0.5 * stddev` (line 120),
computed there independently of `_call_put`'s `d2` -/
def bsDigitalArg (lg sd : α) : α := lg / sd - (1 / 2) * sd

/-- regular branch of `digital`: `df * norm.cdf(d2)` (line 122) -/
def bsDigitalRegular (Φ : α → α) (df lg sd : α) : α := df * Φ (bsDigitalArg lg sd)

end bsgeneric

def rmax (a b : Rat) : Rat := if a ≤ b then b else a

/-- the threshold test of cfblackscholes.py:49-53 (`eps = 1e-8` is passed in) -/
def bsDegenerate (eps sigma spot T : Rat) : Bool :=
  decide (sigma < eps) || decide (spot < eps) || decide (T < eps)

/-- `CFBlackScholes._call_put` -/
def bsCallPut (Φ : Rat → Rat) (degenerate : Bool) (flag df fwd K lg sd : Rat) : Rat :=
  if degenerate then df * rmax 0 (flag * (fwd - K))
  else bsRegular Φ flag df fwd K lg sd

def bsCall (Φ : Rat → Rat) (deg : Bool) (df fwd K lg sd : Rat) : Rat := bsCallPut Φ deg 1 df fwd K lg sd
def bsPut (Φ : Rat → Rat) (deg : Bool) (df fwd K lg sd : Rat) : Rat := bsCallPut Φ deg (-1) df fwd K lg sd

/-- `CFBlackScholes.forward`: `spot*exp(-d T) - strike*exp(-r T)`; the two exponentials are parameters -/
def bsForward (spot dfDiv K df : Rat) : Rat := spot * dfDiv - K * df

/-- `CFBlackScholes.digital`: `df * Φ(d2)` with `d2 = lg/sd - sd/2`; degenerate: `df * [fwd > k]` -/
def bsDigital (Φ : Rat → Rat) (degenerate : Bool) (df fwd K lg sd : Rat) : Rat :=
  if degenerate then df * (if fwd > K then 1 else 0)
  else bsDigitalRegular Φ df lg sd

end Rpylib.Pricers
