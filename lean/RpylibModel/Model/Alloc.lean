/-
Model of rpylib/montecarlo/multilevel/criteria.py: the Giles sample allocation (`compute_mc_paths_giles`, 25-42)
and the bias test (`criteria_giles`, 45-54).  Mathlib-free, executable.

Square roots: the model works with the *roots* as inputs.  For variances V_l = v_l² and costs C_l = c_l² (which is how
the correspondence check chooses its inputs: float `sqrt` of the square of a small dyadic is exact)
√(V_l/C_l) = v_l/c_l and √(V_l·C_l) = v_l·c_l.  A zero cost is replaced by 1e30 inside the first root only
(criteria.py:36-39), i.e. c_l = 1e15 there, while √(V_l·C_l) = 0.
-/
namespace Rpylib.Alloc

def listSum (l : List Rat) : Rat := l.foldr (· + ·) 0

/-- `np.ceil(a_l · S / B)` for every level, `S = Σ b_j` -/
def allocFromRoots (a b : List Rat) (B : Rat) : List Int :=
  let S := listSum b
  a.map (fun al => (al * S / B).ceil)

/-- roots as the code forms them from `v_l = √V_l`, `c_l = √C_l` -/
def rootA (v c : Rat) : Rat := if c = 0 then v / 1000000000000000 else v / c
def rootB (v c : Rat) : Rat := v * c

/-- `compute_mc_paths_giles(rmse, v², c²)` with variance share `1 - theta` -/
def giles (theta rmse : Rat) (v c : List Rat) : List Int :=
  allocFromRoots (List.zipWith rootA v c) (List.zipWith rootB v c) ((1 - theta) * rmse * rmse)

/-- `criteria_giles` with `2^alpha = q` (> 1): `rem = max(m₁, m₂/q, m₃/q²)/(q − 1) ≤ sqrtTheta · rmse`
    (`m₁ = ml[-1]`, `m₂ = ml[-2]`, `m₃ = ml[-3]`) -/
def criteria (sqrtTheta q m1 m2 m3 rmse : Rat) : Bool :=
  decide (max m1 (max (m2 / q) (m3 / (q * q))) / (q - 1) ≤ sqrtTheta * rmse)

end Rpylib.Alloc
