/-
C16 — The SDE scheme is the Euler scheme of its driver; rate models discount sanely.   Property theorems only.
Model: RpylibModel/Model/Sde.lean.  Every theorem about the scheme is stated for an arbitrary driver path
(times, diffusion path, jump path), an arbitrary initial value and an arbitrary number of steps.
-/
import RpylibModel.Model.Sde
import RpylibModel.Proofs.Lemmas.C16Sum
import RpylibModel.Proofs.Lemmas.C16Shape
import RpylibModel.Proofs.Lemmas.C16Real
import Mathlib.Tactic.Linarith
import Mathlib.Tactic.Ring
import Mathlib.Tactic.FieldSimp
import Mathlib.Tactic.Positivity
import Mathlib.Algebra.Order.Field.Rat

namespace Rpylib.Sde

/-! ### the single process -/

/-- **Euler recurrence**: on the driver's own time grid
    `X_{i+1} = X_i + (sde drift + a(t_i,X_i)·driver drift)·dt_i + a(t_i,X_i)·(dW_i + dL_i)`, for every coefficient
    pair `(b, a)`, every driver path, every component. -/
theorem euler_step (S : Sde) (P : DriverPath) (x0 : Vec) (i k : Nat) :
    euler S P x0 (i + 1) k
      = euler S P x0 i k
        + (S.b (P.t i) (euler S P x0 i) k + mv S.d (S.a (P.t i) (euler S P x0 i)) S.mu k) * (P.t (i + 1) - P.t i)
        + mv S.d (S.a (P.t i) (euler S P x0 i)) (fun j => P.dW i j + P.dL i j) k := by
  rw [mv_add]
  simp only [euler, eulerStep, driftInc, jumpInc, diffInc, DriverPath.dt]
  ring

/-- the returned path object carries the scheme: `x0 + StochasticSDEPath.value()[:, i] = X_i` -/
theorem euler_value (S : Sde) (P : DriverPath) (x0 : Vec) (i k : Nat) :
    x0 k + valuePath S P x0 i k = euler S P x0 i k := by
  induction i with
  | zero => simp [valuePath, driftPath, diffPath, jumpPath, euler]
  | succ i ih =>
    simp only [valuePath, driftPath, diffPath, jumpPath, sumTo_succ] at ih ⊢
    simp only [euler, eulerStep]
    rw [← ih]; ring

/-- the three returned components start at 0 (column 0 of `z_drift`, `z_diffusion`, `z_jump` is never written) -/
theorem path_starts_at_zero (S : Sde) (P : DriverPath) (x0 : Vec) (k : Nat) :
    driftPath S P x0 0 k = 0 ∧ diffPath S P x0 0 k = 0 ∧ jumpPath S P x0 0 k = 0 := ⟨rfl, rfl, rfl⟩

/-- **constant coefficient**: `X_i = x0 + C·(Y_{t_i} − Y_{t_0})` with `Y_t = mu·t + W_t + L_t`, for every path -/
theorem euler_constant (d : Nat) (C : Mat) (mu : Vec) (P : DriverPath) (x0 : Vec) (i k : Nat) :
    euler ⟨d, zeroB, constA C, mu⟩ P x0 i k
      = x0 k + mv d C (fun j => mu j * (P.t i - P.t 0) + (P.W i j - P.W 0 j) + (P.L i j - P.L 0 j)) k := by
  induction i with
  | zero =>
    have h : (fun j => mu j * (P.t 0 - P.t 0) + (P.W 0 j - P.W 0 j) + (P.L 0 j - P.L 0 j)) = (fun j => 0 * mu j) := by
      funext j; ring
    rw [h, mv_smul]; simp [euler]
  | succ i ih =>
    have h : (fun j => mu j * (P.t (i + 1) - P.t 0) + (P.W (i + 1) j - P.W 0 j) + (P.L (i + 1) j - P.L 0 j))
        = (fun j => (mu j * (P.t i - P.t 0) + (P.W i j - P.W 0 j) + (P.L i j - P.L 0 j))
            + ((P.t (i + 1) - P.t i) * mu j + (P.dL i j + P.dW i j))) := by
      funext j; simp only [DriverPath.dL, DriverPath.dW]; ring
    rw [h, mv_add d C (fun j => mu j * (P.t i - P.t 0) + (P.W i j - P.W 0 j) + (P.L i j - P.L 0 j))
      (fun j => (P.t (i + 1) - P.t i) * mu j + (P.dL i j + P.dW i j)),
      mv_add d C (fun j => (P.t (i + 1) - P.t i) * mu j) (fun j => P.dL i j + P.dW i j),
      mv_add d C (P.dL i) (P.dW i), mv_smul]
    simp only [euler, eulerStep, driftInc, jumpInc, diffInc, DriverPath.dt, constA, zeroB] at ih ⊢
    rw [ih]; ring

/-- scalar reading of the previous theorem (`Constant(m=1, d=1, constant=c)`): `X_T = x0 + c·Y_T` -/
theorem euler_constant_1d (c mu0 : Rat) (P : DriverPath) (x0 : Vec) (i : Nat) :
    euler ⟨1, zeroB, constA (fun _ _ => c), fun _ => mu0⟩ P x0 i 0
      = x0 0 + c * (mu0 * (P.t i - P.t 0) + (P.W i 0 - P.W 0 0) + (P.L i 0 - P.L 0 0)) := by
  rw [euler_constant]; simp [mv, sumTo]

/-- **a(x) = diag(x)**: `X_i = x0 · ∏_{l<i} (1 + ΔY_l)` componentwise, `ΔY_l = mu·dt_l + dW_l + dL_l`, for every path -/
theorem euler_diag (d : Nat) (mu : Vec) (P : DriverPath) (x0 : Vec) (i k : Nat) (hk : k < d) :
    euler ⟨d, zeroB, diagA, mu⟩ P x0 i k = x0 k * prodTo i (fun l => 1 + dY mu P l k) := by
  induction i with
  | zero => simp [euler]
  | succ i ih =>
    rw [prodTo_succ, ← mul_assoc, ← ih]
    simp only [euler, eulerStep, driftInc, jumpInc, diffInc, zeroB, dY]
    rw [mv_diag _ _ _ _ _ hk, mv_diag _ _ _ _ _ hk, mv_diag _ _ _ _ _ hk]
    ring

/-! ### the coupled pair -/

/-- **each component of the stacked scheme is the single-process scheme** driven by its own component of the
    coupled driver path (shared times, own diffusion/jump path, own CTMC drift) -/
theorem coupled_component (S : SdePair) (P : DriverPair) (x0 : Vec) (i c : Nat) :
    eulerPair S P x0 i c = euler (S.comp c) (P.comp c) x0 i := by
  induction i with
  | zero => rfl
  | succ i ih =>
    funext k
    simp only [eulerPair, eulerStepPair, euler, eulerStep, driftInc, jumpInc, diffInc, DriverPath.dt,
      SdePair.comp, DriverPair.comp] at ih ⊢
    rw [ih]; rfl

/-- Euler recurrence for both components (c = 0 fine, c = 1 coarse) -/
theorem coupled_euler_step (S : SdePair) (P : DriverPair) (x0 : Vec) (i c k : Nat) :
    eulerPair S P x0 (i + 1) c k
      = eulerPair S P x0 i c k
        + (S.b (P.t i) (eulerPair S P x0 i c) k + mv S.d (S.a (P.t i) (eulerPair S P x0 i c)) (S.mu c) k)
            * (P.t (i + 1) - P.t i)
        + mv S.d (S.a (P.t i) (eulerPair S P x0 i c))
            (fun j => (P.W c (i + 1) j - P.W c i j) + (P.L c (i + 1) j - P.L c i j)) k := by
  rw [coupled_component, coupled_component, euler_step]
  rfl

theorem coupled_constant (d : Nat) (C : Mat) (mu : Nat → Vec) (P : DriverPair) (x0 : Vec) (i c k : Nat) :
    eulerPair ⟨d, zeroB, constA C, mu⟩ P x0 i c k
      = x0 k + mv d C (fun j => mu c j * (P.t i - P.t 0) + (P.W c i j - P.W c 0 j) + (P.L c i j - P.L c 0 j)) k := by
  rw [coupled_component]
  exact euler_constant d C (mu c) (P.comp c) x0 i k

theorem coupled_diag (d : Nat) (mu : Nat → Vec) (P : DriverPair) (x0 : Vec) (i c k : Nat) (hk : k < d) :
    eulerPair ⟨d, zeroB, diagA, mu⟩ P x0 i c k = x0 k * prodTo i (fun l => 1 + dY (mu c) (P.comp c) l k) := by
  rw [coupled_component]
  exact euler_diag d (mu c) (P.comp c) x0 i k hk

/-! ### shapes: which of the offered coefficient objects commute with the stacking of `CouplingSDE`

`eulerStepPair` reads `a(t, zi)` on the stacked `(2, m, 1)` state as "`a` applied to each component".  With the NumPy
rules of `Model/Sde.lean` (`bmul`, `npDiag`, `matmul`) this is a theorem for `Constant` and for `sigma(t) * x`
(`LiborSDEFunction`, `ForwardMarketSDEFunction`), and false for `DiagX`, which raises on the stacked state and extracts
one entry from the column state. -/

private theorem ite_vec (c : Nat) (u0 u1 : Vec) (l : Nat) :
    (if c = 0 then u0 else u1) l = if c = 0 then u0 l else u1 l := by split <;> rfl

/-- **`Constant` commutes with stacking**: the `(m, d)` matrix is broadcast over the leading axis; entry `[c, k, 0]` of
    `a(t, zi) @ v` (`v` = stacked driver drift / increment, shape `(2, d, 1)`) is `(C v_c)_k` — the term of
    `eulerStepPair`; on the column state the result is the `(m, 1)` column `C v` -/
theorem constant_commutes_with_stacking (m d : Nat) (C : Mat) (z : NArr) (u0 u1 : Vec) :
    (∃ R, applyCoef (constCall m d C z) (stack2 (colArr d u0) (colArr d u1)) = some R ∧ R.shape = [2, m, 1] ∧
      ∀ c k, R.get [c, k, 0] = mv d (constA C 0 (fun _ => 0)) (if c = 0 then u0 else u1) k) ∧
    (∃ R, applyCoef (constCall m d C z) (colArr d u0) = some R ∧ R.shape = [m, 1] ∧
      ∀ k, R.get [k, 0] = mv d (constA C 0 (fun _ => 0)) u0 k) := by
  constructor
  · let B : NArr := stack2 (colArr d u0) (colArr d u1)
    let R : NArr := ⟨[2, m, 1], fun idx => match idx with
      | [s, i, j] => sumTo d (fun l => (matArr m d C).get [i, l] * B.get [s, l, j]) | _ => 0⟩
    have e : applyCoef (constCall m d C z) B = some R := by
      show (if d = d then some R else none) = some R
      simp
    refine ⟨R, e, rfl, ?_⟩
    intro c k
    show sumTo d (fun l => (matArr m d C).get [k, l] * B.get [c, l, 0]) = _
    simp only [mv, constA, ite_vec]
    apply sumTo_congr; intro l _
    simp only [matArr, B, stack2, colArr]
  · let R : NArr := ⟨[m, 1], fun idx => match idx with
      | [i, j] => sumTo d (fun l => (matArr m d C).get [i, l] * (colArr d u0).get [l, j]) | _ => 0⟩
    have e : applyCoef (constCall m d C z) (colArr d u0) = some R := by
      show (if d = d then some R else none) = some R
      simp
    refine ⟨R, e, rfl, ?_⟩
    intro k
    show sumTo d (fun l => (matArr m d C).get [k, l] * (colArr d u0).get [l, 0]) = _
    simp only [mv, constA, matArr, colArr]

/-- **`sigma(t) * x` commutes with stacking** (`LiborSDEFunction`, `ForwardMarketSDEFunction`): on the stacked state
    broadcasting gives the `(2, m, d)` array whose `[c, k, j]` entry is `sigma_kj · x_{c,k}` = `scaleA` applied to
    component `c`, and `a(t, zi) @ v` has entry `[c, k, 0]` = the term of `eulerStepPair` -/
theorem scale_commutes_with_stacking (m d : Nat) (sigma : Mat) (x0 x1 u0 u1 : Vec) :
    ∃ A R, scaleCall m d sigma (stack2 (colArr m x0) (colArr m x1)) = some A ∧ A.shape = [2, m, d] ∧
      (∀ c k j, k < m → j < d → A.get [c, k, j] = scaleA (fun _ => sigma) 0 (if c = 0 then x0 else x1) k j) ∧
      matmul A (stack2 (colArr d u0) (colArr d u1)) = some R ∧ R.shape = [2, m, 1] ∧
      ∀ c k, k < m → R.get [c, k, 0]
        = mv d (scaleA (fun _ => sigma) 0 (if c = 0 then x0 else x1)) (if c = 0 then u0 else u1) k := by
  have hA : ∀ c k j, k < m → j < d →
      (matArr m d sigma).get (bidx [m, d] [c, k, j]) * (stack2 (colArr m x0) (colArr m x1)).get (bidx [2, m, 1] [c, k, j])
        = scaleA (fun _ => sigma) 0 (if c = 0 then x0 else x1) k j := by
    intro c k j hk hj
    rw [bidx_mat3 m d c k j hk hj, bidx_stack3 m c k j hk]
    simp only [matArr, stack2, colArr, scaleA, ite_vec]
  let A : NArr := ⟨[2, m, d], fun idx => (matArr m d sigma).get (bidx [m, d] idx)
    * (stack2 (colArr m x0) (colArr m x1)).get (bidx [2, m, 1] idx)⟩
  let B : NArr := stack2 (colArr d u0) (colArr d u1)
  let R : NArr := ⟨[2, m, 1], fun idx => match idx with
    | [s, i, j] => sumTo d (fun l => A.get [s, i, l] * B.get [s, l, j]) | _ => 0⟩
  have e1 : scaleCall m d sigma (stack2 (colArr m x0) (colArr m x1)) = some A := by
    show (bshape [m, d] [2, m, 1]).map _ = _
    rw [bshape_mat_stack]; rfl
  have e2 : matmul A B = some R := by
    show (if d = d ∧ 2 = 2 then some R else none) = some R
    simp
  refine ⟨A, R, e1, rfl, hA, e2, rfl, ?_⟩
  intro c k hk
  show sumTo d (fun l => ((matArr m d sigma).get (bidx [m, d] [c, k, l])
      * (stack2 (colArr m x0) (colArr m x1)).get (bidx [2, m, 1] [c, k, l]))
      * (stack2 (colArr d u0) (colArr d u1)).get [c, l, 0]) = _
  simp only [mv]
  apply sumTo_congr; intro l hl
  rw [hA c k l hk hl]
  simp only [stack2, colArr, ite_vec]

/-- the same object on the column state of `MarkovChainSDE`: the `(m, d)` matrix `sigma_kj · x_k` -/
theorem scale_on_column_state (m d : Nat) (sigma : Mat) (x u : Vec) :
    ∃ A R, scaleCall m d sigma (colArr m x) = some A ∧ A.shape = [m, d] ∧
      (∀ k j, k < m → j < d → A.get [k, j] = scaleA (fun _ => sigma) 0 x k j) ∧
      matmul A (colArr d u) = some R ∧ R.shape = [m, 1] ∧
      ∀ k, k < m → R.get [k, 0] = mv d (scaleA (fun _ => sigma) 0 x) u k := by
  have hA : ∀ k j, k < m → j < d →
      (matArr m d sigma).get (bidx [m, d] [k, j]) * (colArr m x).get (bidx [m, 1] [k, j]) = scaleA (fun _ => sigma) 0 x k j := by
    intro k j hk hj
    rw [bidx_mat2 m d k j hk hj, bidx_col2 m k j hk]
    simp only [matArr, colArr, scaleA]
  let A : NArr := ⟨[m, d], fun idx => (matArr m d sigma).get (bidx [m, d] idx) * (colArr m x).get (bidx [m, 1] idx)⟩
  let R : NArr := ⟨[m, 1], fun idx => match idx with
    | [i, j] => sumTo d (fun l => A.get [i, l] * (colArr d u).get [l, j]) | _ => 0⟩
  have e1 : scaleCall m d sigma (colArr m x) = some A := by
    show (bshape [m, d] [m, 1]).map _ = _
    rw [bshape_mat_col]; rfl
  have e2 : matmul A (colArr d u) = some R := by
    show (if d = d then some R else none) = some R
    simp
  refine ⟨A, R, e1, rfl, hA, e2, rfl, ?_⟩
  intro k hk
  show sumTo d (fun l => ((matArr m d sigma).get (bidx [m, d] [k, l]) * (colArr m x).get (bidx [m, 1] [k, l]))
      * (colArr d u).get [l, 0]) = _
  simp only [mv]
  apply sumTo_congr; intro l hl
  rw [hA k l hk hl]
  simp only [colArr]

/-- **`DiagX` does not commute with stacking**: `np.diag` of the 3-d stacked state raises (known finding
    C16-diagx-stacked-state) — for every dimension -/
theorem diag_rejects_stacked_state (m : Nat) (x0 x1 : Vec) :
    diagCall (stack2 (colArr m x0) (colArr m x1)) = none := rfl

/-- … and on the column state `(m, 1)` it *extracts* the one-entry diagonal `[x_0]` instead of building `diag(x)`;
    for `m ≥ 2` the product with the `(m, 1)` driver column then raises (known finding C16-diagx-column-state) -/
theorem diag_on_column_state (m : Nat) (x mu : Vec) (hm : 2 ≤ m) :
    (∃ A, diagCall (colArr m x) = some A ∧ A.shape = [1] ∧ A.get [0] = x 0) ∧
    applyCoef (diagCall (colArr m x)) (colArr m mu) = none := by
  have h1 : min m 1 = 1 := by omega
  have h2 : ¬ (1 = m) := by omega
  constructor
  · refine ⟨_, rfl, ?_, rfl⟩
    simp [h1]
  · simp [applyCoef, diagCall, npDiag, colArr, matmul, h1, h2]

/-- for `m = d = 1` the extraction happens to give `[x]` and the product is `x·mu` = `diagA`: the scheme is correct -/
theorem diag_on_column_state_1d (x mu : Vec) :
    ∃ R, applyCoef (diagCall (colArr 1 x)) (colArr 1 mu) = some R ∧ R.shape = [1] ∧
      R.get [0] = mv 1 (diagA 0 x) mu 0 := by
  refine ⟨_, by simp [applyCoef, diagCall, npDiag, colArr, matmul]; rfl, rfl, ?_⟩
  simp [mv, sumTo, diagA]

theorem sumTo_zero_fun (n : Nat) (f : Nat → Rat) (h : ∀ i, i < n → f i = 0) : sumTo n f = 0 := by
  induction n with
  | zero => rfl
  | succ n ih => rw [sumTo_succ, ih (fun i hi => h i (by omega)), h n (by omega)]; ring

/-- **a Libor rate that has fixed no longer moves with the driver**: with `sigma(t)` of `LiborSDEFunction` the Euler
    step of component `k` at a time `t_i ≥ T_k` has no jump and no diffusion increment, and no driver-drift term — for
    every driver path and state (only the sde drift `b·dt` remains) -/
theorem libor_fixed_rate_frozen (d : Nat) (b : Rat → Vec → Vec) (sigma : Mat) (T : Nat → Rat) (mu : Vec)
    (P : DriverPath) (z : Vec) (i k : Nat) (hfix : T k ≤ P.t i) :
    eulerStep ⟨d, b, scaleA (liborSigma sigma T), mu⟩ P z i k = z k + b (P.t i) z k * P.dt i := by
  have h0 : ∀ v : Vec, mv d (scaleA (liborSigma sigma T) (P.t i) z) v k = 0 := by
    intro v
    unfold mv
    apply sumTo_zero_fun
    intro j _
    simp [scaleA, liborSigma, hfix]
  simp only [eulerStep, driftInc, jumpInc, diffInc, h0]
  ring

/-! ### the discount curve -/

/-- what the constructor guarantees of the tenor array (`np.array(sorted(tenors))`) -/
def SortedT (tenors : List Rat) : Prop := ∀ i, i + 1 < tenors.length → nth tenors i ≤ nth tenors (i + 1)

theorem sortedT_of_pairwise (tenors : List Rat) (h : tenors.Pairwise (· ≤ ·)) : SortedT tenors := by
  intro i hi
  have h1 : i < tenors.length := by omega
  have := (List.pairwise_iff_getElem.mp h) i (i + 1) h1 hi (by omega)
  simpa [nth, List.getD_eq_getElem?_getD, List.getElem?_eq_getElem h1, List.getElem?_eq_getElem hi] using this

theorem nth_nonneg (l : List Rat) (h : ∀ r ∈ l, 0 ≤ r) (i : Nat) : 0 ≤ nth l i := by
  unfold nth
  by_cases hi : i < l.length
  · rw [List.getD_eq_getElem?_getD, List.getElem?_eq_getElem hi]; exact h _ (List.getElem_mem hi)
  · rw [List.getD_eq_getElem?_getD, List.getElem?_eq_none (by omega)]; simp

/-! facts about `np.searchsorted(tenors, t)` -/

theorem searchLeft_le_length (l : List Rat) (t : Rat) : searchLeft l t ≤ l.length := by
  induction l with
  | nil => simp [searchLeft]
  | cons a r ih => simp only [searchLeft]; split <;> simp; omega

/-- `tenors[i] < t` for every `i < pos` -/
theorem searchLeft_lt (l : List Rat) (t : Rat) (i : Nat) (hi : i < searchLeft l t) : nth l i < t := by
  induction l generalizing i with
  | nil => simp [searchLeft] at hi
  | cons a r ih =>
    simp only [searchLeft] at hi
    split at hi
    · cases i with
      | zero => simpa [nth]
      | succ i => have := ih i (by omega); simpa [nth] using this
    · omega

/-- `t ≤ tenors[pos]` when `pos` is an index of the array -/
theorem searchLeft_ge (l : List Rat) (t : Rat) (h : searchLeft l t < l.length) : t ≤ nth l (searchLeft l t) := by
  induction l with
  | nil => simp at h
  | cons a r ih =>
    simp only [searchLeft] at h ⊢
    split
    · rename_i hlt
      simp only [hlt, if_true, List.length_cons] at h
      have := ih (by omega); simpa [nth] using this
    · rename_i hlt
      simp only [nth, List.getD_cons_zero]; exact not_lt.mp hlt

theorem searchLeft_mono (l : List Rat) (s t : Rat) (h : s ≤ t) : searchLeft l s ≤ searchLeft l t := by
  induction l with
  | nil => simp [searchLeft]
  | cons a r ih =>
    simp only [searchLeft]
    by_cases h1 : a < s
    · have h2 : a < t := lt_of_lt_of_le h1 h
      simp [h1, h2]; exact ih
    · simp [h1]

/-! the compounding factor, branch by branch -/

theorem auxAt_succ (x T : Nat → Rat) (q : Nat) (t : Rat) :
    auxAt x T (q + 1) t
      = (1 + x 0 * T 0) * prodTo q (fun k => 1 + x k * (T (k + 1) - T k)) * (1 + x q * (t - T q)) := by
  simp [auxAt]

/-- **continuity at the tenors**: the formula used on `(T_{p-1}, T_p]` and the one used on `(T_p, T_{p+1}]` agree at
    `T_p` — for every curve, every tenor index (pure algebra, no hypothesis) -/
theorem aux_continuous_at_tenors (x T : Nat → Rat) (p : Nat) : auxAt x T (p + 1) (T p) = auxAt x T p (T p) := by
  cases p with
  | zero => simp [auxAt]
  | succ q => rw [auxAt_succ, auxAt_succ, prodTo_succ]; ring

/-- each branch is affine in `t`: together with the previous theorem the factor is a continuous piecewise-affine
    function of time -/
theorem aux_affine_on_piece (x T : Nat → Rat) (p : Nat) (s t : Rat) :
    auxAt x T p t = auxAt x T p s
      + (if p = 0 then x 0
         else (1 + x 0 * T 0) * prodTo (p - 1) (fun k => 1 + x k * (T (k + 1) - T k)) * x (p - 1)) * (t - s) := by
  cases p with
  | zero => simp [auxAt]; ring
  | succ q => rw [auxAt_succ, auxAt_succ]; simp; ring

/-- hypotheses on a curve: non-negative rates, first tenor ≥ 0, tenors sorted up to index `n` -/
structure Curve (x T : Nat → Rat) (n : Nat) : Prop where
  rate_nonneg : ∀ i, 0 ≤ x i
  first_nonneg : 0 ≤ T 0
  sorted : ∀ i, i + 1 < n → T i ≤ T (i + 1)

theorem head_ge_one {x T : Nat → Rat} {n : Nat} (h : Curve x T n) (q : Nat) (hq : q + 1 ≤ n) :
    1 ≤ (1 + x 0 * T 0) * prodTo q (fun k => 1 + x k * (T (k + 1) - T k)) := by
  have h0 : 1 ≤ 1 + x 0 * T 0 := by have := mul_nonneg (h.rate_nonneg 0) h.first_nonneg; linarith
  have h1 : 1 ≤ prodTo q (fun k => 1 + x k * (T (k + 1) - T k)) := by
    apply prodTo_ge_one; intro i hi
    have := h.sorted i (by omega)
    have := mul_nonneg (h.rate_nonneg i) (sub_nonneg.mpr this); linarith
  nlinarith

theorem auxAt_mono_t {x T : Nat → Rat} {n : Nat} (h : Curve x T n) (p : Nat) (hp : p ≤ n) (s t : Rat) (hst : s ≤ t) :
    auxAt x T p s ≤ auxAt x T p t := by
  cases p with
  | zero =>
    simp only [auxAt, if_true]
    have := mul_le_mul_of_nonneg_left hst (h.rate_nonneg 0); linarith
  | succ q =>
    rw [auxAt_succ, auxAt_succ]
    have hA := head_ge_one h q hp
    have hx := h.rate_nonneg q
    have : x q * (s - T q) ≤ x q * (t - T q) := mul_le_mul_of_nonneg_left (by linarith) hx
    apply mul_le_mul_of_nonneg_left (by linarith) (by linarith)

theorem auxAt_ge_one {x T : Nat → Rat} {n : Nat} (h : Curve x T n) (p : Nat) (hp : p ≤ n) (t : Rat) (ht : 0 ≤ t)
    (hlt : ∀ i, i < p → T i ≤ t) : 1 ≤ auxAt x T p t := by
  cases p with
  | zero =>
    simp only [auxAt, if_true]
    have := mul_nonneg (h.rate_nonneg 0) ht; linarith
  | succ q =>
    rw [auxAt_succ]
    have hA := head_ge_one h q hp
    have hl : 1 ≤ 1 + x q * (t - T q) := by
      have := mul_nonneg (h.rate_nonneg q) (sub_nonneg.mpr (hlt q (by omega))); linarith
    nlinarith

/-- crossing `k` tenors: `aux` on branch `p` at `s` is at most `aux` on branch `p + k` at `t` -/
theorem auxAt_chain {x T : Nat → Rat} {n : Nat} (h : Curve x T n) (k : Nat) :
    ∀ (p : Nat) (s t : Rat), p + k ≤ n → s ≤ t → (0 < k → s ≤ T p) → (∀ i, i < p + k → T i ≤ t) →
      auxAt x T p s ≤ auxAt x T (p + k) t := by
  induction k with
  | zero => intro p s t hp hst _ _; exact auxAt_mono_t h p hp s t hst
  | succ k ih =>
    intro p s t hp hst hs hlt
    have h1 : auxAt x T p s ≤ auxAt x T p (T p) := auxAt_mono_t h p (by omega) s (T p) (hs (by omega))
    have h2 : auxAt x T (p + 1) (T p) ≤ auxAt x T (p + 1 + k) t := by
      apply ih (p + 1) (T p) t (by omega) (hlt p (by omega))
      · intro hk; exact h.sorted p (by omega)
      · intro i hi; exact hlt i (by omega)
    rw [aux_continuous_at_tenors] at h2
    have e : p + (k + 1) = p + 1 + k := by omega
    rw [e]; linarith

theorem curve_of_lists (x0 tenors : List Rat) (hx : ∀ r ∈ x0, 0 ≤ r) (hT : ∀ T ∈ tenors, 0 ≤ T)
    (hs : SortedT tenors) : Curve (nth x0) (nth tenors) tenors.length :=
  ⟨nth_nonneg x0 hx, nth_nonneg tenors hT 0, hs⟩

theorem aux_ge_one (x0 tenors : List Rat) (hx : ∀ r ∈ x0, 0 ≤ r) (hT : ∀ T ∈ tenors, 0 ≤ T) (hs : SortedT tenors)
    (t : Rat) (ht : 0 ≤ t) : 1 ≤ aux x0 tenors t := by
  unfold aux
  exact auxAt_ge_one (curve_of_lists x0 tenors hx hT hs) _ (searchLeft_le_length _ _) t ht
    (fun i hi => le_of_lt (searchLeft_lt tenors t i hi))

theorem aux_mono (x0 tenors : List Rat) (hx : ∀ r ∈ x0, 0 ≤ r) (hT : ∀ T ∈ tenors, 0 ≤ T) (hs : SortedT tenors)
    (s t : Rat) (hst : s ≤ t) : aux x0 tenors s ≤ aux x0 tenors t := by
  unfold aux
  have hm := searchLeft_mono tenors s t hst
  obtain ⟨k, hk⟩ : ∃ k, searchLeft tenors t = searchLeft tenors s + k := ⟨_, (Nat.add_sub_cancel' hm).symm⟩
  rw [hk]
  apply auxAt_chain (curve_of_lists x0 tenors hx hT hs) k _ s t
  · rw [← hk]; exact searchLeft_le_length _ _
  · exact hst
  · intro hk0
    apply searchLeft_ge
    have := searchLeft_le_length tenors t; omega
  · intro i hi; rw [← hk] at hi; exact le_of_lt (searchLeft_lt tenors t i hi)

/-- **df(0) = 1** (first tenor ≥ 0) -/
theorem df_zero (x0 tenors : List Rat) (hT : ∀ T ∈ tenors, 0 ≤ T) : dfCurve x0 tenors 0 = 1 := by
  have h0 : searchLeft tenors 0 = 0 := by
    cases tenors with
    | nil => rfl
    | cons a r =>
      have : ¬ a < 0 := not_lt.mpr (hT a (by simp))
      simp [searchLeft, this]
  simp [dfCurve, aux, h0, auxAt]

/-- **df > 0** (indeed `0 < df ≤ 1`) at every time ≥ 0, for non-negative rates, every sorted tenor list -/
theorem df_pos (x0 tenors : List Rat) (hx : ∀ r ∈ x0, 0 ≤ r) (hT : ∀ T ∈ tenors, 0 ≤ T) (hs : SortedT tenors)
    (t : Rat) (ht : 0 ≤ t) : 0 < dfCurve x0 tenors t ∧ dfCurve x0 tenors t ≤ 1 := by
  have h := aux_ge_one x0 tenors hx hT hs t ht
  unfold dfCurve
  constructor
  · apply div_pos one_pos; linarith
  · rw [div_le_one (by linarith)]; exact h

/-- **continuity at the tenors** in terms of the discount factor itself: the value the code returns at `T_p` (left
    branch, `pos = p`) equals the right branch's formula evaluated at `T_p` -/
theorem df_continuous_at_tenors (x0 tenors : List Rat) (p : Nat) :
    1 / auxAt (nth x0) (nth tenors) (p + 1) (nth tenors p) = 1 / auxAt (nth x0) (nth tenors) p (nth tenors p) := by
  rw [aux_continuous_at_tenors]

/-- **df is non-increasing** over all times ≥ 0 (in particular up to the last tenor), for non-negative rates, every
    tenor list (sorted, as the constructor makes it) and every rate list -/
theorem df_antitone (x0 tenors : List Rat) (hx : ∀ r ∈ x0, 0 ≤ r) (hT : ∀ T ∈ tenors, 0 ≤ T) (hs : SortedT tenors)
    (s t : Rat) (h0 : 0 ≤ s) (hst : s ≤ t) : dfCurve x0 tenors t ≤ dfCurve x0 tenors s := by
  have h1 := aux_ge_one x0 tenors hx hT hs s h0
  have h2 := aux_mono x0 tenors hx hT hs s t hst
  unfold dfCurve
  exact one_div_le_one_div_of_le (by linarith) h2

/-- the model's `none` is exactly "beyond the last tenor" (where the code raises IndexError), so the theorems above
    cover every time at which `df` returns -/
theorem dfCurve?_some (x0 tenors : List Rat) (t : Rat) (hlen : tenors.length = x0.length + 1) :
    dfCurve? x0 tenors t = some (dfCurve x0 tenors t) ↔ searchLeft tenors t < tenors.length ∧ 0 < x0.length := by
  unfold dfCurve?
  by_cases h : searchLeft tenors t ≤ x0.length ∧ 0 < x0.length
  · rw [if_pos h]
    constructor
    · intro _; exact ⟨by omega, h.2⟩
    · intro _; rfl
  · rw [if_neg h]
    constructor
    · intro h'; cases h'
    · intro h'; exact absurd ⟨by omega, h'.2⟩ h

/-! ### continuity over all times: the Lipschitz bound, and the ε-δ statement it gives -/

/-- pure algebra: if `B = A + σ·δ` with `σ ≤ R·A`, `A > 0`, `B ≥ 1`, then `1/A − 1/B ≤ R·δ` -/
theorem inv_sub_inv_le {A B σ R δ : Rat} (hA : 0 < A) (hB : 1 ≤ B) (hAB : B = A + σ * δ) (hσ : σ ≤ R * A)
    (hδ : 0 ≤ δ) (hR : 0 ≤ R) : 1 / A - 1 / B ≤ R * δ := by
  have hB0 : 0 < B := by linarith
  rw [div_sub_div _ _ hA.ne' hB0.ne', div_le_iff₀ (mul_pos hA hB0)]
  have h1 : σ * δ ≤ R * A * δ := mul_le_mul_of_nonneg_right hσ hδ
  have h2 : 0 ≤ R * A * δ := mul_nonneg (mul_nonneg hR hA.le) hδ
  have h3 : R * A * δ ≤ R * A * δ * B := le_mul_of_one_le_right h2 hB
  have e : R * δ * (A * B) = R * A * δ * B := by ring
  rw [e]; linarith

/-- on one branch (between two tenors) the discount factor drops by at most `R·(t − s)`, `R` a bound of the rates -/
theorem df_lipschitz_on_piece {x T : Nat → Rat} {n : Nat} (h : Curve x T n) {R : Rat} (hR : ∀ i, x i ≤ R) (p : Nat)
    (hp : p ≤ n) (s t : Rat) (h0 : 0 ≤ s) (hst : s ≤ t) (hlow : ∀ i, i < p → T i ≤ s) :
    1 / auxAt x T p s - 1 / auxAt x T p t ≤ R * (t - s) := by
  have hR0 : 0 ≤ R := le_trans (h.rate_nonneg 0) (hR 0)
  have hA1 : 1 ≤ auxAt x T p s := auxAt_ge_one h p hp s h0 hlow
  have hB1 : 1 ≤ auxAt x T p t := le_trans hA1 (auxAt_mono_t h p hp s t hst)
  refine inv_sub_inv_le (by linarith) hB1 (aux_affine_on_piece x T p s t) ?_ (sub_nonneg.mpr hst) hR0
  cases p with
  | zero =>
    simp only [if_true]
    have := mul_le_mul_of_nonneg_left hA1 hR0
    have := hR 0; linarith
  | succ q =>
    simp only [Nat.succ_ne_zero, if_false, Nat.add_sub_cancel]
    rw [auxAt_succ]
    have hH := head_ge_one h q hp
    set H := (1 + x 0 * T 0) * prodTo q (fun k => 1 + x k * (T (k + 1) - T k)) with hHd
    have ha : 1 ≤ 1 + x q * (s - T q) := by
      have := mul_nonneg (h.rate_nonneg q) (sub_nonneg.mpr (hlow q (by omega))); linarith
    have h1 : H * x q ≤ H * R := mul_le_mul_of_nonneg_left (hR q) (by linarith)
    have h2 : H * R ≤ H * R * (1 + x q * (s - T q)) := le_mul_of_one_le_right (mul_nonneg (by linarith) hR0) ha
    have e : R * (H * (1 + x q * (s - T q))) = H * R * (1 + x q * (s - T q)) := by ring
    rw [e]; linarith

/-- crossing `k` tenors -/
theorem df_lipschitz_chain {x T : Nat → Rat} {n : Nat} (h : Curve x T n) {R : Rat} (hR : ∀ i, x i ≤ R) (k : Nat) :
    ∀ (p : Nat) (s t : Rat), p + k ≤ n → 0 ≤ s → s ≤ t → (∀ i, i < p → T i ≤ s) → (0 < k → s ≤ T p) →
      (∀ i, i < p + k → T i ≤ t) → 1 / auxAt x T p s - 1 / auxAt x T (p + k) t ≤ R * (t - s) := by
  induction k with
  | zero => intro p s t hp h0 hst hlow _ _; exact df_lipschitz_on_piece h hR p hp s t h0 hst hlow
  | succ k ih =>
    intro p s t hp h0 hst hlow hs hlt
    have hsT : s ≤ T p := hs (by omega)
    have h1 := df_lipschitz_on_piece h hR p (by omega) s (T p) h0 hsT hlow
    have hTt : T p ≤ t := hlt p (by omega)
    have h2 := ih (p + 1) (T p) t (by omega) (le_trans h0 hsT) hTt
      (by
        intro i hi
        by_cases hip : i < p
        · exact le_trans (hlow i hip) hsT
        · have : i = p := by omega
          subst this; exact le_refl _)
      (fun _ => h.sorted p (by omega)) (fun i hi => hlt i (by omega))
    rw [aux_continuous_at_tenors] at h2
    have e : p + (k + 1) = p + 1 + k := by omega
    rw [e]
    have e2 : R * (t - s) = R * (T p - s) + R * (t - T p) := by ring
    rw [e2]; linarith

theorem nth_le_of_forall (l : List Rat) (R : Rat) (h : ∀ r ∈ l, r ≤ R) (hR : 0 ≤ R) (i : Nat) : nth l i ≤ R := by
  unfold nth
  by_cases hi : i < l.length
  · rw [List.getD_eq_getElem?_getD, List.getElem?_eq_getElem hi]; exact h _ (List.getElem_mem hi)
  · rw [List.getD_eq_getElem?_getD, List.getElem?_eq_none (by omega)]; simpa using hR

/-- **df is Lipschitz in time with constant the largest rate** — over all times ≥ 0, through every tenor: for `s ≤ t`,
    `0 ≤ df(s) − df(t) ≤ R·(t − s)` -/
theorem df_lipschitz (x0 tenors : List Rat) (hx : ∀ r ∈ x0, 0 ≤ r) (hT : ∀ T ∈ tenors, 0 ≤ T) (hs : SortedT tenors)
    (R : Rat) (hR0 : 0 ≤ R) (hR : ∀ r ∈ x0, r ≤ R) (s t : Rat) (h0 : 0 ≤ s) (hst : s ≤ t) :
    0 ≤ dfCurve x0 tenors s - dfCurve x0 tenors t ∧ dfCurve x0 tenors s - dfCurve x0 tenors t ≤ R * (t - s) := by
  constructor
  · have := df_antitone x0 tenors hx hT hs s t h0 hst; linarith
  · unfold dfCurve aux
    have hm := searchLeft_mono tenors s t hst
    obtain ⟨k, hk⟩ : ∃ k, searchLeft tenors t = searchLeft tenors s + k := ⟨_, (Nat.add_sub_cancel' hm).symm⟩
    rw [hk]
    apply df_lipschitz_chain (curve_of_lists x0 tenors hx hT hs) (nth_le_of_forall x0 R hR hR0) k _ s t
    · rw [← hk]; exact searchLeft_le_length _ _
    · exact h0
    · exact hst
    · intro i hi; exact le_of_lt (searchLeft_lt tenors s i hi)
    · intro hk0
      apply searchLeft_ge
      have := searchLeft_le_length tenors t; omega
    · intro i hi; rw [← hk] at hi; exact le_of_lt (searchLeft_lt tenors t i hi)

/-- `|df(s) − df(t)| ≤ R·|s − t|` for all times `s, t ≥ 0` -/
theorem df_lipschitz_abs (x0 tenors : List Rat) (hx : ∀ r ∈ x0, 0 ≤ r) (hT : ∀ T ∈ tenors, 0 ≤ T) (hs : SortedT tenors)
    (R : Rat) (hR0 : 0 ≤ R) (hR : ∀ r ∈ x0, r ≤ R) (s t : Rat) (hs0 : 0 ≤ s) (ht0 : 0 ≤ t) :
    |dfCurve x0 tenors s - dfCurve x0 tenors t| ≤ R * |s - t| := by
  rcases le_total s t with hst | hts
  · obtain ⟨h1, h2⟩ := df_lipschitz x0 tenors hx hT hs R hR0 hR s t hs0 hst
    rw [abs_of_nonneg h1, abs_of_nonpos (by linarith)]; linarith
  · obtain ⟨h1, h2⟩ := df_lipschitz x0 tenors hx hT hs R hR0 hR t s ht0 hts
    rw [abs_of_nonpos (by linarith), abs_of_nonneg (by linarith)]; linarith

/-- **df is (uniformly) continuous, ε-δ**: for every ε > 0 there is δ > 0 such that any two times ≥ 0 closer than δ
    have discount factors closer than ε — for every curve with non-negative rates and sorted non-negative tenors -/
theorem df_continuous_eps_delta (x0 tenors : List Rat) (hx : ∀ r ∈ x0, 0 ≤ r) (hT : ∀ T ∈ tenors, 0 ≤ T)
    (hs : SortedT tenors) (ε : Rat) (hε : 0 < ε) :
    ∃ δ : Rat, 0 < δ ∧ ∀ s t : Rat, 0 ≤ s → 0 ≤ t → |s - t| < δ →
      |dfCurve x0 tenors s - dfCurve x0 tenors t| < ε := by
  -- a bound of the rates: their sum + 1 (positive)
  obtain ⟨R, hRpos, hR⟩ : ∃ R : Rat, 0 < R ∧ ∀ r ∈ x0, r ≤ R := by
    clear hs hT
    induction x0 with
    | nil => exact ⟨1, one_pos, by simp⟩
    | cons a l ih =>
      obtain ⟨R, hRp, hRl⟩ := ih (fun r hr => hx r (by simp [hr]))
      have ha : 0 ≤ a := hx a (by simp)
      refine ⟨R + a, by linarith, ?_⟩
      intro r hr
      simp only [List.mem_cons] at hr
      rcases hr with rfl | hr
      · linarith
      · have := hRl r hr; linarith
  refine ⟨ε / R, div_pos hε hRpos, ?_⟩
  intro s t hs0 ht0 hd
  have hl := df_lipschitz_abs x0 tenors hx hT hs R hRpos.le hR s t hs0 ht0
  have : R * |s - t| < R * (ε / R) := mul_lt_mul_of_pos_left hd hRpos
  have e : R * (ε / R) = ε := by field_simp
  linarith

/-! ### df at the tenors: the product of the simple compounding factors of the initial curve, unequal accrual periods -/

/-- `np.searchsorted(tenors, tenors[p]) = p` for strictly increasing tenors -/
theorem searchLeft_nth (tenors : List Rat) (h : tenors.Pairwise (· < ·)) (p : Nat) (hp : p < tenors.length) :
    searchLeft tenors (nth tenors p) = p := by
  induction tenors generalizing p with
  | nil => simp at hp
  | cons a r ih =>
    rw [List.pairwise_cons] at h
    cases p with
    | zero => simp [searchLeft, nth]
    | succ q =>
      have hq : q < r.length := by simpa using hp
      have hmem : nth r q ∈ r := by
        unfold nth; rw [List.getD_eq_getElem?_getD, List.getElem?_eq_getElem hq]; exact List.getElem_mem hq
      have hlt : a < nth r q := h.1 _ hmem
      have e : nth (a :: r) (q + 1) = nth r q := by simp [nth]
      rw [e]
      simp only [searchLeft, hlt, if_true]
      rw [ih h.2 q hq]

/-- **at the `p`-th tenor the compounding factor is `(1 + x_0 T_0) · ∏_{k<p} (1 + x_k (T_{k+1} − T_k))`** — each
    accrual period with its own length; pure algebra of the coded branch formula (both rate models share it) -/
theorem aux_at_tenor_is_product (x T : Nat → Rat) (p : Nat) :
    auxAt x T p (T p) = (1 + x 0 * T 0) * prodTo p (fun k => 1 + x k * (T (k + 1) - T k)) := by
  cases p with
  | zero => simp [auxAt]
  | succ q => rw [auxAt_succ, prodTo_succ]; ring

/-- the same for `model.df` of `LevyForwardModel` / `LevyLiborModel` on a strictly increasing tenor array -/
theorem df_at_tenor_is_product (x0 tenors : List Rat) (h : tenors.Pairwise (· < ·)) (p : Nat) (hp : p < tenors.length) :
    dfCurve x0 tenors (nth tenors p)
      = 1 / ((1 + nth x0 0 * nth tenors 0)
          * prodTo p (fun k => 1 + nth x0 k * (nth tenors (k + 1) - nth tenors k))) := by
  unfold dfCurve aux
  rw [searchLeft_nth tenors h p hp, aux_at_tenor_is_product]

/-- non-vacuity with unequal accrual periods (1/2, 3/2, 1/4) and a zero rate -/
example : dfCurve [1/50, 0, 1/20] [1/2, 2, 9/4, 3] (9/4)
    = 1 / ((1 + 1/50 * (1/2)) * ((1 + 1/50 * (3/2)) * (1 + 0 * (1/4)))) := by
  have h := df_at_tenor_is_product [1/50, 0, 1/20] [1/2, 2, 9/4, 3] (by simp; norm_num) 2 (by simp)
  simp only [nth, List.getD_cons_succ, List.getD_cons_zero, prodTo] at h
  rw [h]; ring

/-! ### the same over the real numbers

`Lemmas/C16Real.lean` restates the curve over an arbitrary linearly ordered field (`dfCurveK`; `dfCurveK_rat`: at ℚ it is
the executable `dfCurve`) and proves the Lipschitz bound and the ε-δ statement there.  Instantiated at ℝ: -/

/-- **`df` with real times, rates, tenors is continuous on `[0, ∞)`** (ε-δ, uniformly), and Lipschitz with the largest
    rate as constant -/
theorem df_continuous_over_reals (x0 tenors : List ℝ) (hx : ∀ r ∈ x0, 0 ≤ r) (hT : ∀ T ∈ tenors, 0 ≤ T)
    (hs : SortedTK tenors) :
    (∀ ε : ℝ, 0 < ε → ∃ δ : ℝ, 0 < δ ∧ ∀ s t : ℝ, 0 ≤ s → 0 ≤ t → |s - t| < δ →
      |dfCurveK x0 tenors s - dfCurveK x0 tenors t| < ε) ∧
    (∀ R : ℝ, 0 ≤ R → (∀ r ∈ x0, r ≤ R) → ∀ s t : ℝ, 0 ≤ s → 0 ≤ t →
      |dfCurveK x0 tenors s - dfCurveK x0 tenors t| ≤ R * |s - t|) :=
  ⟨fun ε hε => df_real_continuous_eps_delta x0 tenors hx hT hs ε hε,
   fun R hR0 hR s t hs0 ht0 => df_real_lipschitz x0 tenors hx hT hs R hR0 hR s t hs0 ht0⟩

/-- the field-generic curve at ℚ is the model the driver executes -/
theorem dfCurveK_is_model (x0 tenors : List Rat) (t : Rat) : dfCurveK x0 tenors t = dfCurve x0 tenors t :=
  dfCurveK_rat x0 tenors t

/-- non-vacuity over ℝ: the default curve (rates 2 %, tenors 5, 6, 7) -/
example : SortedTK ([5, 6, 7] : List ℝ) := by
  intro i hi
  have : i = 0 ∨ i = 1 := by simp at hi; omega
  rcases this with rfl | rfl <;> norm_num [nthK]

/-! ### the curve before the fix (levyforwardmodel.py:63 `aux = …`): negation witnesses -/

/-- with the default curve (rates 2 %, tenors 5, 6, …) the old discount factor *increases* from 10/11 at t = 5 to
    ≈ 1 just after: not non-increasing -/
theorem df_jump_counterexample :
    ∃ (x0 tenors : List Rat) (s t : Rat), (∀ r ∈ x0, 0 ≤ r) ∧ tenors.Pairwise (· ≤ ·) ∧ 0 ≤ s ∧ s ≤ t ∧
      dfCurveOld x0 tenors s < dfCurveOld x0 tenors t := by
  refine ⟨[1/50, 1/50], [5, 6, 7], 5, 5 + 1/10000, ?_, ?_, ?_, ?_, ?_⟩
  · intro r hr; simp at hr; subst hr; norm_num
  · simp; norm_num
  · norm_num
  · norm_num
  · simp [dfCurveOld, auxOld, auxAtOld, searchLeft, nth]; norm_num

/-- and its two one-sided formulas disagree at the tenor: not continuous -/
theorem df_old_discontinuous_at_tenor :
    auxAtOld (nth [1/50, 1/50]) (nth [5, 6, 7]) 1 5 ≠ auxAtOld (nth [1/50, 1/50]) (nth [5, 6, 7]) 0 5 := by
  norm_num [auxAtOld, nth]

/-! ### non-vacuity -/

example : dfCurve [1/50, 1/50] [5, 6, 7] 6 = 1 / ((1 + 1/50 * 5) * (1 + 1/50)) := by
  simp [dfCurve, aux, auxAt, searchLeft, nth]; norm_num

example : SortedT [5, 6, 7] := sortedT_of_pairwise _ (by simp; norm_num)

end Rpylib.Sde
