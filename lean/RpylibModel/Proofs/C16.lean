/-
C16 — The SDE scheme is the Euler scheme of its driver; rate models discount sanely.   Property theorems only.
Model: RpylibModel/Model/Sde.lean.  Every theorem about the scheme is stated for an arbitrary driver path
(times, diffusion path, jump path), an arbitrary initial value and an arbitrary number of steps.
-/
import RpylibModel.Model.Sde
import RpylibModel.Proofs.Lemmas.C16Sum
import Mathlib.Tactic.Linarith
import Mathlib.Tactic.Ring
import Mathlib.Tactic.FieldSimp
import Mathlib.Tactic.Positivity
import Mathlib.Algebra.Order.Field.Rat

namespace Rpylib.Sde

/-! ### the single process -/

/-- **Euler recurrence**: on the driver's own time grid
    `X_{i+1} = X_i + (sde drift + a(t_i,X_i)·driver drift)·dt_i + a(t_i,X_i)·(dW_i + dL_i)`, for every coefficient
    pair `(b, a)`, every driver path, every component. -/
theorem euler_step (S : Sde) (P : DriverPath) (x0 : Vec) (i k : Nat) :
    euler S P x0 (i + 1) k
      = euler S P x0 i k
        + (S.b (P.t i) (euler S P x0 i) k + mv S.d (S.a (P.t i) (euler S P x0 i)) S.mu k) * (P.t (i + 1) - P.t i)
        + mv S.d (S.a (P.t i) (euler S P x0 i)) (fun j => P.dW i j + P.dL i j) k := by
  rw [mv_add]
  simp only [euler, eulerStep, driftInc, jumpInc, diffInc, DriverPath.dt]
  ring

/-- the returned path object carries the scheme: `x0 + StochasticSDEPath.value()[:, i] = X_i` -/
theorem euler_value (S : Sde) (P : DriverPath) (x0 : Vec) (i k : Nat) :
    x0 k + valuePath S P x0 i k = euler S P x0 i k := by
  induction i with
  | zero => simp [valuePath, driftPath, diffPath, jumpPath, euler]
  | succ i ih =>
    simp only [valuePath, driftPath, diffPath, jumpPath, sumTo_succ] at ih ⊢
    simp only [euler, eulerStep]
    rw [← ih]; ring

/-- the three returned components start at 0 (column 0 of `z_drift`, `z_diffusion`, `z_jump` is never written) -/
theorem path_starts_at_zero (S : Sde) (P : DriverPath) (x0 : Vec) (k : Nat) :
    driftPath S P x0 0 k = 0 ∧ diffPath S P x0 0 k = 0 ∧ jumpPath S P x0 0 k = 0 := ⟨rfl, rfl, rfl⟩

/-- **constant coefficient**: `X_i = x0 + C·(Y_{t_i} − Y_{t_0})` with `Y_t = mu·t + W_t + L_t`, for every path -/
theorem euler_constant (d : Nat) (C : Mat) (mu : Vec) (P : DriverPath) (x0 : Vec) (i k : Nat) :
    euler ⟨d, zeroB, constA C, mu⟩ P x0 i k
      = x0 k + mv d C (fun j => mu j * (P.t i - P.t 0) + (P.W i j - P.W 0 j) + (P.L i j - P.L 0 j)) k := by
  induction i with
  | zero =>
    have h : (fun j => mu j * (P.t 0 - P.t 0) + (P.W 0 j - P.W 0 j) + (P.L 0 j - P.L 0 j)) = (fun j => 0 * mu j) := by
      funext j; ring
    rw [h, mv_smul]; simp [euler]
  | succ i ih =>
    have h : (fun j => mu j * (P.t (i + 1) - P.t 0) + (P.W (i + 1) j - P.W 0 j) + (P.L (i + 1) j - P.L 0 j))
        = (fun j => (mu j * (P.t i - P.t 0) + (P.W i j - P.W 0 j) + (P.L i j - P.L 0 j))
            + ((P.t (i + 1) - P.t i) * mu j + (P.dL i j + P.dW i j))) := by
      funext j; simp only [DriverPath.dL, DriverPath.dW]; ring
    rw [h, mv_add d C (fun j => mu j * (P.t i - P.t 0) + (P.W i j - P.W 0 j) + (P.L i j - P.L 0 j))
      (fun j => (P.t (i + 1) - P.t i) * mu j + (P.dL i j + P.dW i j)),
      mv_add d C (fun j => (P.t (i + 1) - P.t i) * mu j) (fun j => P.dL i j + P.dW i j),
      mv_add d C (P.dL i) (P.dW i), mv_smul]
    simp only [euler, eulerStep, driftInc, jumpInc, diffInc, DriverPath.dt, constA, zeroB] at ih ⊢
    rw [ih]; ring

/-- scalar reading of the previous theorem (`Constant(m=1, d=1, constant=c)`): `X_T = x0 + c·Y_T` -/
theorem euler_constant_1d (c mu0 : Rat) (P : DriverPath) (x0 : Vec) (i : Nat) :
    euler ⟨1, zeroB, constA (fun _ _ => c), fun _ => mu0⟩ P x0 i 0
      = x0 0 + c * (mu0 * (P.t i - P.t 0) + (P.W i 0 - P.W 0 0) + (P.L i 0 - P.L 0 0)) := by
  rw [euler_constant]; simp [mv, sumTo]

/-- **a(x) = diag(x)**: `X_i = x0 · ∏_{l<i} (1 + ΔY_l)` componentwise, `ΔY_l = mu·dt_l + dW_l + dL_l`, for every path -/
theorem euler_diag (d : Nat) (mu : Vec) (P : DriverPath) (x0 : Vec) (i k : Nat) (hk : k < d) :
    euler ⟨d, zeroB, diagA, mu⟩ P x0 i k = x0 k * prodTo i (fun l => 1 + dY mu P l k) := by
  induction i with
  | zero => simp [euler]
  | succ i ih =>
    rw [prodTo_succ, ← mul_assoc, ← ih]
    simp only [euler, eulerStep, driftInc, jumpInc, diffInc, zeroB, dY]
    rw [mv_diag _ _ _ _ _ hk, mv_diag _ _ _ _ _ hk, mv_diag _ _ _ _ _ hk]
    ring

/-! ### the coupled pair -/

/-- **each component of the stacked scheme is the single-process scheme** driven by its own component of the
    coupled driver path (shared times, own diffusion/jump path, own CTMC drift) -/
theorem coupled_component (S : SdePair) (P : DriverPair) (x0 : Vec) (i c : Nat) :
    eulerPair S P x0 i c = euler (S.comp c) (P.comp c) x0 i := by
  induction i with
  | zero => rfl
  | succ i ih =>
    funext k
    simp only [eulerPair, eulerStepPair, euler, eulerStep, driftInc, jumpInc, diffInc, DriverPath.dt,
      SdePair.comp, DriverPair.comp] at ih ⊢
    rw [ih]; rfl

/-- Euler recurrence for both components (c = 0 fine, c = 1 coarse) -/
theorem coupled_euler_step (S : SdePair) (P : DriverPair) (x0 : Vec) (i c k : Nat) :
    eulerPair S P x0 (i + 1) c k
      = eulerPair S P x0 i c k
        + (S.b (P.t i) (eulerPair S P x0 i c) k + mv S.d (S.a (P.t i) (eulerPair S P x0 i c)) (S.mu c) k)
            * (P.t (i + 1) - P.t i)
        + mv S.d (S.a (P.t i) (eulerPair S P x0 i c))
            (fun j => (P.W c (i + 1) j - P.W c i j) + (P.L c (i + 1) j - P.L c i j)) k := by
  rw [coupled_component, coupled_component, euler_step]
  rfl

theorem coupled_constant (d : Nat) (C : Mat) (mu : Nat → Vec) (P : DriverPair) (x0 : Vec) (i c k : Nat) :
    eulerPair ⟨d, zeroB, constA C, mu⟩ P x0 i c k
      = x0 k + mv d C (fun j => mu c j * (P.t i - P.t 0) + (P.W c i j - P.W c 0 j) + (P.L c i j - P.L c 0 j)) k := by
  rw [coupled_component]
  exact euler_constant d C (mu c) (P.comp c) x0 i k

theorem coupled_diag (d : Nat) (mu : Nat → Vec) (P : DriverPair) (x0 : Vec) (i c k : Nat) (hk : k < d) :
    eulerPair ⟨d, zeroB, diagA, mu⟩ P x0 i c k = x0 k * prodTo i (fun l => 1 + dY (mu c) (P.comp c) l k) := by
  rw [coupled_component]
  exact euler_diag d (mu c) (P.comp c) x0 i k hk

/-! ### the discount curve -/

/-- what the constructor guarantees of the tenor array (`np.array(sorted(tenors))`) -/
def SortedT (tenors : List Rat) : Prop := ∀ i, i + 1 < tenors.length → nth tenors i ≤ nth tenors (i + 1)

theorem sortedT_of_pairwise (tenors : List Rat) (h : tenors.Pairwise (· ≤ ·)) : SortedT tenors := by
  intro i hi
  have h1 : i < tenors.length := by omega
  have := (List.pairwise_iff_getElem.mp h) i (i + 1) h1 hi (by omega)
  simpa [nth, List.getD_eq_getElem?_getD, List.getElem?_eq_getElem h1, List.getElem?_eq_getElem hi] using this

theorem nth_nonneg (l : List Rat) (h : ∀ r ∈ l, 0 ≤ r) (i : Nat) : 0 ≤ nth l i := by
  unfold nth
  by_cases hi : i < l.length
  · rw [List.getD_eq_getElem?_getD, List.getElem?_eq_getElem hi]; exact h _ (List.getElem_mem hi)
  · rw [List.getD_eq_getElem?_getD, List.getElem?_eq_none (by omega)]; simp

/-! facts about `np.searchsorted(tenors, t)` -/

theorem searchLeft_le_length (l : List Rat) (t : Rat) : searchLeft l t ≤ l.length := by
  induction l with
  | nil => simp [searchLeft]
  | cons a r ih => simp only [searchLeft]; split <;> simp; omega

/-- `tenors[i] < t` for every `i < pos` -/
theorem searchLeft_lt (l : List Rat) (t : Rat) (i : Nat) (hi : i < searchLeft l t) : nth l i < t := by
  induction l generalizing i with
  | nil => simp [searchLeft] at hi
  | cons a r ih =>
    simp only [searchLeft] at hi
    split at hi
    · cases i with
      | zero => simpa [nth]
      | succ i => have := ih i (by omega); simpa [nth] using this
    · omega

/-- `t ≤ tenors[pos]` when `pos` is an index of the array -/
theorem searchLeft_ge (l : List Rat) (t : Rat) (h : searchLeft l t < l.length) : t ≤ nth l (searchLeft l t) := by
  induction l with
  | nil => simp at h
  | cons a r ih =>
    simp only [searchLeft] at h ⊢
    split
    · rename_i hlt
      simp only [hlt, if_true, List.length_cons] at h
      have := ih (by omega); simpa [nth] using this
    · rename_i hlt
      simp only [nth, List.getD_cons_zero]; exact not_lt.mp hlt

theorem searchLeft_mono (l : List Rat) (s t : Rat) (h : s ≤ t) : searchLeft l s ≤ searchLeft l t := by
  induction l with
  | nil => simp [searchLeft]
  | cons a r ih =>
    simp only [searchLeft]
    by_cases h1 : a < s
    · have h2 : a < t := lt_of_lt_of_le h1 h
      simp [h1, h2]; exact ih
    · simp [h1]

/-! the compounding factor, branch by branch -/

theorem auxAt_succ (x T : Nat → Rat) (q : Nat) (t : Rat) :
    auxAt x T (q + 1) t
      = (1 + x 0 * T 0) * prodTo q (fun k => 1 + x k * (T (k + 1) - T k)) * (1 + x q * (t - T q)) := by
  simp [auxAt]

/-- **continuity at the tenors**: the formula used on `(T_{p-1}, T_p]` and the one used on `(T_p, T_{p+1}]` agree at
    `T_p` — for every curve, every tenor index (pure algebra, no hypothesis) -/
theorem aux_continuous_at_tenors (x T : Nat → Rat) (p : Nat) : auxAt x T (p + 1) (T p) = auxAt x T p (T p) := by
  cases p with
  | zero => simp [auxAt]
  | succ q => rw [auxAt_succ, auxAt_succ, prodTo_succ]; ring

/-- each branch is affine in `t`: together with the previous theorem the factor is a continuous piecewise-affine
    function of time -/
theorem aux_affine_on_piece (x T : Nat → Rat) (p : Nat) (s t : Rat) :
    auxAt x T p t = auxAt x T p s
      + (if p = 0 then x 0
         else (1 + x 0 * T 0) * prodTo (p - 1) (fun k => 1 + x k * (T (k + 1) - T k)) * x (p - 1)) * (t - s) := by
  cases p with
  | zero => simp [auxAt]; ring
  | succ q => rw [auxAt_succ, auxAt_succ]; simp; ring

/-- hypotheses on a curve: non-negative rates, first tenor ≥ 0, tenors sorted up to index `n` -/
structure Curve (x T : Nat → Rat) (n : Nat) : Prop where
  rate_nonneg : ∀ i, 0 ≤ x i
  first_nonneg : 0 ≤ T 0
  sorted : ∀ i, i + 1 < n → T i ≤ T (i + 1)

theorem head_ge_one {x T : Nat → Rat} {n : Nat} (h : Curve x T n) (q : Nat) (hq : q + 1 ≤ n) :
    1 ≤ (1 + x 0 * T 0) * prodTo q (fun k => 1 + x k * (T (k + 1) - T k)) := by
  have h0 : 1 ≤ 1 + x 0 * T 0 := by have := mul_nonneg (h.rate_nonneg 0) h.first_nonneg; linarith
  have h1 : 1 ≤ prodTo q (fun k => 1 + x k * (T (k + 1) - T k)) := by
    apply prodTo_ge_one; intro i hi
    have := h.sorted i (by omega)
    have := mul_nonneg (h.rate_nonneg i) (sub_nonneg.mpr this); linarith
  nlinarith

theorem auxAt_mono_t {x T : Nat → Rat} {n : Nat} (h : Curve x T n) (p : Nat) (hp : p ≤ n) (s t : Rat) (hst : s ≤ t) :
    auxAt x T p s ≤ auxAt x T p t := by
  cases p with
  | zero =>
    simp only [auxAt, if_true]
    have := mul_le_mul_of_nonneg_left hst (h.rate_nonneg 0); linarith
  | succ q =>
    rw [auxAt_succ, auxAt_succ]
    have hA := head_ge_one h q hp
    have hx := h.rate_nonneg q
    have : x q * (s - T q) ≤ x q * (t - T q) := mul_le_mul_of_nonneg_left (by linarith) hx
    apply mul_le_mul_of_nonneg_left (by linarith) (by linarith)

theorem auxAt_ge_one {x T : Nat → Rat} {n : Nat} (h : Curve x T n) (p : Nat) (hp : p ≤ n) (t : Rat) (ht : 0 ≤ t)
    (hlt : ∀ i, i < p → T i ≤ t) : 1 ≤ auxAt x T p t := by
  cases p with
  | zero =>
    simp only [auxAt, if_true]
    have := mul_nonneg (h.rate_nonneg 0) ht; linarith
  | succ q =>
    rw [auxAt_succ]
    have hA := head_ge_one h q hp
    have hl : 1 ≤ 1 + x q * (t - T q) := by
      have := mul_nonneg (h.rate_nonneg q) (sub_nonneg.mpr (hlt q (by omega))); linarith
    nlinarith

/-- crossing `k` tenors: `aux` on branch `p` at `s` is at most `aux` on branch `p + k` at `t` -/
theorem auxAt_chain {x T : Nat → Rat} {n : Nat} (h : Curve x T n) (k : Nat) :
    ∀ (p : Nat) (s t : Rat), p + k ≤ n → s ≤ t → (0 < k → s ≤ T p) → (∀ i, i < p + k → T i ≤ t) →
      auxAt x T p s ≤ auxAt x T (p + k) t := by
  induction k with
  | zero => intro p s t hp hst _ _; exact auxAt_mono_t h p hp s t hst
  | succ k ih =>
    intro p s t hp hst hs hlt
    have h1 : auxAt x T p s ≤ auxAt x T p (T p) := auxAt_mono_t h p (by omega) s (T p) (hs (by omega))
    have h2 : auxAt x T (p + 1) (T p) ≤ auxAt x T (p + 1 + k) t := by
      apply ih (p + 1) (T p) t (by omega) (hlt p (by omega))
      · intro hk; exact h.sorted p (by omega)
      · intro i hi; exact hlt i (by omega)
    rw [aux_continuous_at_tenors] at h2
    have e : p + (k + 1) = p + 1 + k := by omega
    rw [e]; linarith

theorem curve_of_lists (x0 tenors : List Rat) (hx : ∀ r ∈ x0, 0 ≤ r) (hT : ∀ T ∈ tenors, 0 ≤ T)
    (hs : SortedT tenors) : Curve (nth x0) (nth tenors) tenors.length :=
  ⟨nth_nonneg x0 hx, nth_nonneg tenors hT 0, hs⟩

theorem aux_ge_one (x0 tenors : List Rat) (hx : ∀ r ∈ x0, 0 ≤ r) (hT : ∀ T ∈ tenors, 0 ≤ T) (hs : SortedT tenors)
    (t : Rat) (ht : 0 ≤ t) : 1 ≤ aux x0 tenors t := by
  unfold aux
  exact auxAt_ge_one (curve_of_lists x0 tenors hx hT hs) _ (searchLeft_le_length _ _) t ht
    (fun i hi => le_of_lt (searchLeft_lt tenors t i hi))

theorem aux_mono (x0 tenors : List Rat) (hx : ∀ r ∈ x0, 0 ≤ r) (hT : ∀ T ∈ tenors, 0 ≤ T) (hs : SortedT tenors)
    (s t : Rat) (hst : s ≤ t) : aux x0 tenors s ≤ aux x0 tenors t := by
  unfold aux
  have hm := searchLeft_mono tenors s t hst
  obtain ⟨k, hk⟩ : ∃ k, searchLeft tenors t = searchLeft tenors s + k := ⟨_, (Nat.add_sub_cancel' hm).symm⟩
  rw [hk]
  apply auxAt_chain (curve_of_lists x0 tenors hx hT hs) k _ s t
  · rw [← hk]; exact searchLeft_le_length _ _
  · exact hst
  · intro hk0
    apply searchLeft_ge
    have := searchLeft_le_length tenors t; omega
  · intro i hi; rw [← hk] at hi; exact le_of_lt (searchLeft_lt tenors t i hi)

/-- **df(0) = 1** (first tenor ≥ 0) -/
theorem df_zero (x0 tenors : List Rat) (hT : ∀ T ∈ tenors, 0 ≤ T) : dfCurve x0 tenors 0 = 1 := by
  have h0 : searchLeft tenors 0 = 0 := by
    cases tenors with
    | nil => rfl
    | cons a r =>
      have : ¬ a < 0 := not_lt.mpr (hT a (by simp))
      simp [searchLeft, this]
  simp [dfCurve, aux, h0, auxAt]

/-- **df > 0** (indeed `0 < df ≤ 1`) at every time ≥ 0, for non-negative rates, every sorted tenor list -/
theorem df_pos (x0 tenors : List Rat) (hx : ∀ r ∈ x0, 0 ≤ r) (hT : ∀ T ∈ tenors, 0 ≤ T) (hs : SortedT tenors)
    (t : Rat) (ht : 0 ≤ t) : 0 < dfCurve x0 tenors t ∧ dfCurve x0 tenors t ≤ 1 := by
  have h := aux_ge_one x0 tenors hx hT hs t ht
  unfold dfCurve
  constructor
  · apply div_pos one_pos; linarith
  · rw [div_le_one (by linarith)]; exact h

/-- **continuity at the tenors** in terms of the discount factor itself: the value the code returns at `T_p` (left
    branch, `pos = p`) equals the right branch's formula evaluated at `T_p` -/
theorem df_continuous_at_tenors (x0 tenors : List Rat) (p : Nat) :
    1 / auxAt (nth x0) (nth tenors) (p + 1) (nth tenors p) = 1 / auxAt (nth x0) (nth tenors) p (nth tenors p) := by
  rw [aux_continuous_at_tenors]

/-- **df is non-increasing** over all times ≥ 0 (in particular up to the last tenor), for non-negative rates, every
    tenor list (sorted, as the constructor makes it) and every rate list -/
theorem df_antitone (x0 tenors : List Rat) (hx : ∀ r ∈ x0, 0 ≤ r) (hT : ∀ T ∈ tenors, 0 ≤ T) (hs : SortedT tenors)
    (s t : Rat) (h0 : 0 ≤ s) (hst : s ≤ t) : dfCurve x0 tenors t ≤ dfCurve x0 tenors s := by
  have h1 := aux_ge_one x0 tenors hx hT hs s h0
  have h2 := aux_mono x0 tenors hx hT hs s t hst
  unfold dfCurve
  exact one_div_le_one_div_of_le (by linarith) h2

/-- the model's `none` is exactly "beyond the last tenor" (where the code raises IndexError), so the theorems above
    cover every time at which `df` returns -/
theorem dfCurve?_some (x0 tenors : List Rat) (t : Rat) (hlen : tenors.length = x0.length + 1) :
    dfCurve? x0 tenors t = some (dfCurve x0 tenors t) ↔ searchLeft tenors t < tenors.length ∧ 0 < x0.length := by
  unfold dfCurve?
  by_cases h : searchLeft tenors t ≤ x0.length ∧ 0 < x0.length
  · rw [if_pos h]
    constructor
    · intro _; exact ⟨by omega, h.2⟩
    · intro _; rfl
  · rw [if_neg h]
    constructor
    · intro h'; cases h'
    · intro h'; exact absurd ⟨by omega, h'.2⟩ h

/-! ### the curve before the fix (levyforwardmodel.py:63 `aux = …`): negation witnesses -/

/-- with the default curve (rates 2 %, tenors 5, 6, …) the old discount factor *increases* from 10/11 at t = 5 to
    ≈ 1 just after: not non-increasing -/
theorem df_jump_counterexample :
    ∃ (x0 tenors : List Rat) (s t : Rat), (∀ r ∈ x0, 0 ≤ r) ∧ tenors.Pairwise (· ≤ ·) ∧ 0 ≤ s ∧ s ≤ t ∧
      dfCurveOld x0 tenors s < dfCurveOld x0 tenors t := by
  refine ⟨[1/50, 1/50], [5, 6, 7], 5, 5 + 1/10000, ?_, ?_, ?_, ?_, ?_⟩
  · intro r hr; simp at hr; subst hr; norm_num
  · simp; norm_num
  · norm_num
  · norm_num
  · simp [dfCurveOld, auxOld, auxAtOld, searchLeft, nth]; norm_num

/-- and its two one-sided formulas disagree at the tenor: not continuous -/
theorem df_old_discontinuous_at_tenor :
    auxAtOld (nth [1/50, 1/50]) (nth [5, 6, 7]) 1 5 ≠ auxAtOld (nth [1/50, 1/50]) (nth [5, 6, 7]) 0 5 := by
  norm_num [auxAtOld, nth]

/-! ### non-vacuity -/

example : dfCurve [1/50, 1/50] [5, 6, 7] 6 = 1 / ((1 + 1/50 * 5) * (1 + 1/50)) := by
  simp [dfCurve, aux, auxAt, searchLeft, nth]; norm_num

example : SortedT [5, 6, 7] := sortedT_of_pairwise _ (by simp; norm_num)

end Rpylib.Sde
