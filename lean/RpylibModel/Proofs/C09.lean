/-
C09 — Closed-form Lévy-measure integrals equal integrals of the model's own density.   Property theorems only.
Model: RpylibModel/Model/Integrals.lean.  Lemmas: Proofs/Lemmas/C09Abstract.lean (order / split pattern),
C09XnExp.lean (antiderivative of x^n e^{-αx}), C09Terms.lean (real value of a closed form), C09Hem.lean.

(a) abstract (ℚ, or any ordered field for the values): the truncated wrapper integrates over the intersection, its
    density vanishes outside; every family coded as "a > b error / negative form / positive form / split at 0" over
    one-sided tails is additive over adjacent intervals and obeys the sign rules when its tails are monotone.
(b) `integral_xn_exp_minus_x` as coded now (M's `xnExpTerms`) is ∫_a^b x^n e^{-α|x|} dx for all n, α > 0 and all
    rational a ≤ b (one side or straddling 0); the polynomial of the code before 673f3df is not.
(c) the HEM closed forms (M's `hemTerms`) are ∫_a^b x^k · density for k = 0, 1, 2 and all rational a ≤ b.
(d) VG `integrate_against_xn` (M's `vgXnTerms`, n ≥ 1) is ∫_a^b x^n · density; Merton mass / x / x² and VG mass on one
    side of 0 equal the integrals of their densities for every function `erf` / `E1` satisfying the stated derivative
    hypothesis (a theorem parameter, never a global assumption; both hypotheses are shown satisfiable).
    Half-lines [a,∞), a ≥ 0 and (−∞,b], b ≤ 0 for (b) and (c) as improper integrals; Merton / VG mass on half-lines with the
    limit of erf / E1 at infinity as one more hypothesis.  CGMY mass (every branch y < 2) and first moment (y ≠ 1, y = 1)
    on one side of 0 for every `E1`, `Gam` satisfying the derivative hypotheses of E1 and of z ↦ Γ(2−α, z).
(e) every proper pair of extended end points a ≤ b (`eSet a b` = (a, b], (−∞, b], (a, ∞) or ℝ), one side of zero or straddling
    it, as the coded split-at-zero composition: `xn_exp_correct_ext`, `hem_correct_ext`, `vg_xn_correct_ext` (Lemmas/C09Ext*.lean).
(f) the special-function closed forms as lists of (rational coefficient, atom) (Model/IntegralsSpecial.lean, compared with the
    code through the driver): `merton_correct_ext` (mass, x, x², every end-point shape), `vg_mass_correct_ext`,
    `cgmy_mass_correct_ext`, `cgmy_x_correct_ext` (one side of zero, infinite end points included), `cgmy_xx_correct` (the
    gammainc form on a < 0 < b, un-tempered branches included), `cgmy_xx_correct_ext` (infinite end points); the limits at
    infinity are explicit hypotheses, shown jointly satisfiable with the derivative hypotheses (Lemmas/C09Satisfiable.lean).
Real end points: the real-analysis statements behind (b), (c) hold for real a, b, α (lemma files); here they are
specialised to the rationals that floats are.
-/
import RpylibModel.Proofs.Lemmas.C09Abstract
import RpylibModel.Proofs.Lemmas.C09Terms
import RpylibModel.Proofs.Lemmas.C09Hem
import RpylibModel.Proofs.Lemmas.C09Vg
import RpylibModel.Proofs.Lemmas.C09Special
import RpylibModel.Proofs.Lemmas.C09Improper
import RpylibModel.Proofs.Lemmas.C09SpecialInf
import RpylibModel.Proofs.Lemmas.C09Cgmy
import RpylibModel.Proofs.Lemmas.C09ExtFam
import RpylibModel.Proofs.Lemmas.C09SpecTerms
import RpylibModel.Proofs.Lemmas.C09Satisfiable

set_option linter.unusedVariables false

namespace Rpylib.Integrals
open Real

/-! ## (a) truncation -/

/-- `_truncated_interval` returns the intersection of [a,b] with [l,r] when that is non-empty -/
theorem trunc_is_intersection (l r a b : ℚ) (hne : max a l ≤ min b r) :
    truncatedInterval l r a b = (max a l, min b r) := by
  have har : a ≤ r := le_trans (le_max_left a l) (le_trans hne (min_le_right b r))
  have hlb : l ≤ b := le_trans (le_max_right a l) (le_trans hne (min_le_left b r))
  simp only [truncatedInterval, rmax_eq, rmin_eq, min_eq_left har, max_eq_left hlb]

/-- … and a degenerate interval (a single point of {l, r}) when the intersection is empty -/
theorem trunc_empty_degenerate (l r a b : ℚ) (hlr : l ≤ r) (hab : a ≤ b) (hem : min b r < max a l) :
    truncatedInterval l r a b = (l, l) ∨ truncatedInterval l r a b = (r, r) := by
  simp only [truncatedInterval, rmax_eq, rmin_eq]
  by_cases h1 : b < l
  · left
    have har : a ≤ r := by linarith
    rw [min_eq_left har, max_eq_right (by linarith : a ≤ l), max_eq_right h1.le, min_eq_left hlr]
  · right
    have hlb : l ≤ b := not_lt.mp h1
    have hra : r < a := by
      by_contra h
      have har : a ≤ r := not_lt.mp h
      exact absurd hem (not_lt.mpr (max_le (le_min hab har) (le_min hlb hlr)))
    rw [min_eq_right hra.le, max_eq_left hlr, max_eq_left hlb, min_eq_right (by linarith : r ≤ b)]

/-- `TruncatedLevyMeasure.integrate*`: the inner integral over the intersection, 0 when it is empty
    (for an inner measure whose integral over a degenerate interval is 0) -/
theorem truncIntegrate_is_intersection (μ : Inner) (hdeg : ∀ n p, μ.integ n p p = 0) (l r : ℚ) (n : ℕ) (a b : ℚ)
    (hlr : l ≤ r) (hab : a ≤ b) :
    truncIntegrate μ l r n a b = some (if max a l ≤ min b r then μ.integ n (max a l) (min b r) else 0) := by
  have hnlt : ¬ b < a := not_lt.mpr hab
  simp only [truncIntegrate, hnlt, if_false]
  split_ifs with h
  · rw [trunc_is_intersection l r a b h]
  · rcases trunc_empty_degenerate l r a b hlr hab (not_le.mp h) with e | e <;> (rw [e]; simp [hdeg])

theorem truncIntegrate_a_gt_b (μ : Inner) (l r : ℚ) (n : ℕ) (a b : ℚ) (h : b < a) :
    truncIntegrate μ l r n a b = none := by
  simp [truncIntegrate, h]

theorem density_zero_outside (μ : Inner) (l r x : ℚ) (h : x < l ∨ r < x) : truncDensity μ l r x = 0 := by
  have : r < x ∨ x < l := h.symm
  simp [truncDensity, this]

theorem density_inside (μ : Inner) (l r x : ℚ) (h1 : l ≤ x) (h2 : x ≤ r) : truncDensity μ l r x = μ.dens x := by
  have : ¬ (r < x ∨ x < l) := by rintro (h | h) <;> linarith
  simp [truncDensity, this]

/-- extended end points, as `support()` and the half-line integrals call it: finite truncation, any a ≤ b -/
theorem truncE_line (l r : ℚ) :
    truncatedIntervalE (.fin l) (.fin r) .negInf .posInf = (.fin l, .fin r) := by
  simp [truncatedIntervalE, emax, emin, ExtRat.lt]

theorem truncE_fin (l r a b : ℚ) :
    truncatedIntervalE (.fin l) (.fin r) (.fin a) (.fin b)
      = (.fin (truncatedInterval l r a b).1, .fin (truncatedInterval l r a b).2) := by
  simp only [truncatedIntervalE, truncatedInterval, emax, emin, ExtRat.lt, rmax, rmin, decide_eq_true_eq]
  split_ifs <;> simp_all

/-! ## (a) additivity and signs of the split-at-zero pattern -/

/-- additivity over adjacent intervals, for every position of a ≤ b ≤ c relative to 0 and infinite ends -/
theorem additive_adjacent {β : Type} [AddCommGroup β] (F : OneSided β) (a b c : ExtRat) (hab : ELe a b) (hbc : ELe b c) :
    ∃ x y, integrate F a b = some x ∧ integrate F b c = some y ∧ integrate F a c = some (x + y) := by
  have hac : ELe a c := by
    cases a <;> cases b <;> cases c <;> simp_all [ELe, ExtRat.le, ExtRat.lt]
    linarith
  refine ⟨G F b - G F a, G F c - G F b, integrate_eq_G F a b hab, integrate_eq_G F b c hbc, ?_⟩
  rw [integrate_eq_G F a c hac]; congr 1; abel

/-- the split at zero itself: for a ≤ 0 ≤ b the value is (value on [a,0]) + (value on [0,b]) -/
theorem additive_split_at_zero {β : Type} [AddCommGroup β] (F : OneSided β) (a b : ExtRat)
    (ha : ELe a (.fin 0)) (hb : ELe (.fin 0) b) :
    ∃ x y, integrate F a (.fin 0) = some x ∧ integrate F (.fin 0) b = some y ∧ integrate F a b = some (x + y) :=
  additive_adjacent F a (.fin 0) b ha hb

theorem a_gt_b_is_error {β : Type} [AddCommGroup β] (F : OneSided β) (a b : ExtRat) (h : ¬ ELe a b) :
    integrate F a b = none := integrate_a_gt_b F a b h

section
variable {β : Type} [Field β] [LinearOrder β] [IsStrictOrderedRing β]

/-- even n: non-negative on every interval -/
theorem sign_even_nonneg (F : OneSided β) (h : EvenTails F) (a b : ExtRat) (hab : ELe a b) (v : β)
    (hv : integrate F a b = some v) : 0 ≤ v := by
  rw [integrate_eq_G F a b hab] at hv
  have := G_mono_even F h a b hab
  cases hv; linarith

/-- odd n on an interval of the negative half-line: non-positive -/
theorem sign_odd_neg_halfline (F : OneSided β) (h : OddTails F) (a b : ExtRat) (hab : ELe a b) (hb : ELe b (.fin 0))
    (v : β) (hv : integrate F a b = some v) : v ≤ 0 := by
  rw [integrate_eq_G F a b hab] at hv
  have := G_anti_odd_neg F h a b hab hb
  cases hv; linarith

/-- odd n on an interval of the positive half-line: non-negative -/
theorem sign_odd_pos_halfline (F : OneSided β) (h : OddTails F) (a b : ExtRat) (hab : ELe a b) (ha : ELe (.fin 0) a)
    (v : β) (hv : integrate F a b = some v) : 0 ≤ v := by
  rw [integrate_eq_G F a b hab] at hv
  have := G_mono_pos F h.tp_nonneg h.tp_anti a b hab ha
  cases hv; linarith

end

/-! ## (b) `integral_xn_exp_minus_x` -/

/-- the antiderivative: `d/du [ e^{-αu} · n!/α^(n+1) · Σ_{k≤n} (αu)^k/k! ] = −u^n e^{-αu}` for every n and α ≠ 0 -/
theorem xn_exp_antiderivative (n : ℕ) (α : ℝ) (hα : α ≠ 0) (u : ℝ) :
    HasDerivAt (fun u => exp (-(α * u)) * ((n.factorial : ℝ) / α ^ (n + 1)) * ∑ k ∈ Finset.range (n + 1), (α * u) ^ k / (k.factorial : ℝ))
      (-(u ^ n * exp (-(α * u)))) u := by
  have h := hasDerivAt_H n α hα u
  have hfun : H n α = fun u => exp (-(α * u)) * ((n.factorial : ℝ) / α ^ (n + 1)) * ∑ k ∈ Finset.range (n + 1), (α * u) ^ k / (k.factorial : ℝ) := by
    funext v; simp only [H, SR_eq_sum, fact_eq_factorial]
  rwa [hfun] at h

/-- fundamental theorem of calculus on [a,b] ⊂ [0,∞) (real end points) -/
theorem xn_exp_integral_pos (n : ℕ) (α : ℝ) (hα : α ≠ 0) (a b : ℝ) (ha : 0 ≤ a) (hab : a ≤ b) :
    ∫ x in a..b, x ^ n * exp (-(α * |x|)) = H n α a - H n α b :=
  integral_xn_exp_abs_pos n α hα a b ha hab

/-- … and on [a,b] ⊂ (−∞,0], with the sign (−1)^(n+1) of the fixed code -/
theorem xn_exp_integral_neg (n : ℕ) (α : ℝ) (hα : α ≠ 0) (a b : ℝ) (hb : b ≤ 0) (hab : a ≤ b) :
    ∫ x in a..b, x ^ n * exp (-(α * |x|)) = (-1) ^ (n + 1) * (H n α (-a) - H n α (-b)) :=
  integral_xn_exp_abs_neg n α hα a b hb hab

private theorem eval_oneSided (n : ℕ) (α a b : ℚ) (hα : 0 < α) :
    ∃ ts, xnExpOneSided helperSum n α (.fin a) (.fin b) = some ts ∧
      evalTerms ts = (xnSign n (.fin a) : ℝ) * (H n α |(a : ℝ)| - H n α |(b : ℝ)|) := by
  refine ⟨_, rfl, ?_⟩
  rw [eval_pair_neg, eval_xnHelper n α _ a hα, eval_xnHelper n α _ b hα]; ring

/-- M's `integral_xn_exp_minus_x` (code as it is now) equals ∫_a^b x^n e^{-α|x|} dx:
    all n, all rational α > 0, all rational a ≤ b — positive side, negative side, straddling 0 -/
theorem xn_exp_correct (n : ℕ) (α a b : ℚ) (hα : 0 < α) (hab : a ≤ b) :
    ∃ ts, xnExpTerms n α (.fin a) (.fin b) = some ts ∧
      evalTerms ts = ∫ x in (a : ℝ)..(b : ℝ), x ^ n * exp (-((α : ℝ) * |x|)) := by
  have hαR : ((α : ℚ) : ℝ) ≠ 0 := by exact_mod_cast hα.ne'
  have hnα : ¬ α ≤ 0 := not_le.mpr hα
  have habR : (a : ℝ) ≤ b := by exact_mod_cast hab
  by_cases ha : 0 ≤ a
  · -- positive side
    have haR : (0 : ℝ) ≤ a := by exact_mod_cast ha
    have hbR : (0 : ℝ) ≤ b := le_trans haR habR
    obtain ⟨ts, hts, hev⟩ := eval_oneSided n α a b hα
    refine ⟨ts, ?_, ?_⟩
    · simp [xnExpTerms, xnExpTermsWith, hnα, ExtRat.lt, not_lt.mpr ha, hts]
    · have hs : xnSign n (.fin a) = 1 := by simp [xnSign, ExtRat.lt, not_lt.mpr ha]
      rw [hev, hs, abs_of_nonneg haR, abs_of_nonneg hbR, integral_xn_exp_abs_pos n α hαR a b haR habR]
      push_cast; ring
  · have ha' : a < 0 := not_le.mp ha
    have haR : (a : ℝ) < 0 := by exact_mod_cast ha'
    have hs : xnSign n (.fin a) = (-1) ^ (n + 1) := by simp [xnSign, ExtRat.lt, ha']
    by_cases hb : b ≤ 0
    · -- negative side
      have hbR : (b : ℝ) ≤ 0 := by exact_mod_cast hb
      obtain ⟨ts, hts, hev⟩ := eval_oneSided n α a b hα
      refine ⟨ts, ?_, ?_⟩
      · simp [xnExpTerms, xnExpTermsWith, hnα, ExtRat.lt, not_lt.mpr hb, hts]
      · rw [hev, hs, abs_of_neg haR, abs_of_nonpos hbR, integral_xn_exp_abs_neg n α hαR a b hbR habR]
        push_cast; ring
    · -- straddling zero: split
      have hb' : 0 < b := not_le.mp hb
      have hbR : (0 : ℝ) < b := by exact_mod_cast hb'
      obtain ⟨t1, ht1, hev1⟩ := eval_oneSided n α a 0 hα
      obtain ⟨t2, ht2, hev2⟩ := eval_oneSided n α 0 b hα
      refine ⟨t1 ++ t2, ?_, ?_⟩
      · simp [xnExpTerms, xnExpTermsWith, hnα, ExtRat.lt, ha', hb', ht1, ht2]
      · have hs0 : xnSign n (.fin 0) = 1 := by simp [xnSign, ExtRat.lt]
        rw [evalTerms_append, hev1, hev2, hs, hs0, integral_xn_exp_abs_split n α a b,
          integral_xn_exp_abs_neg n α hαR a 0 le_rfl haR.le,
          integral_xn_exp_abs_pos n α hαR 0 b le_rfl hbR.le,
          abs_of_neg haR, abs_of_pos hbR]
        push_cast; simp

/-- `alpha <= 0` raises -/
theorem xn_exp_alpha_nonpos_is_error (n : ℕ) (α : ℚ) (a b : ExtRat) (hα : α ≤ 0) : xnExpTerms n α a b = none := by
  simp [xnExpTerms, xnExpTermsWith, hα]

/-- the polynomial of the code before commit 673f3df (`n! · Σ |x|^k · k!`) is wrong: for n = 2, α = 1 on [1, 2]
    the old closed form is 8e⁻¹ − 22e⁻², the integral is 5e⁻¹ − 10e⁻² -/
theorem xn_exp_old_wrong :
    ∃ ts, xnExpTermsOld 2 1 (.fin 1) (.fin 2) = some ts ∧
      evalTerms ts ≠ ∫ x in ((1 : ℚ) : ℝ)..((2 : ℚ) : ℝ), x ^ 2 * exp (-(((1 : ℚ) : ℝ) * |x|)) := by
  refine ⟨[(8, -1), (-22, -2)], ?_, ?_⟩
  · simp [xnExpTermsOld, xnExpTermsWith, xnExpOneSided, xnHelper, xnSign, negTerm, helperSumOld, oldPartial, fact, rabs,
      ExtRat.lt]
    norm_num
  · obtain ⟨ts, hts, hev⟩ := xn_exp_correct 2 1 1 2 (by norm_num) (by norm_num)
    rw [← hev]
    have hts' : ts = [(5, -1), (-10, -2)] := by
      have : xnExpTerms 2 1 (.fin 1) (.fin 2) = some [(5, -1), (-10, -2)] := by
        simp [xnExpTerms, xnExpTermsWith, xnExpOneSided, xnHelper, xnSign, negTerm, helperSum, expPartial, fact, rabs,
          ExtRat.lt]
        norm_num
      rw [this] at hts; exact (Option.some.inj hts).symm
    subst hts'
    simp only [evalTerms_cons, evalTerms_nil]
    push_cast
    -- 8t − 22t² ≠ 5t − 10t² with t = e⁻¹ > 1/4
    have ht : (1 : ℝ) / 2 < exp (-(1 / 2)) := by
      have := add_one_lt_exp (x := -(1 / 2 : ℝ)) (by norm_num)
      linarith
    have hsq : exp (-(1 / 2 : ℝ)) * exp (-(1 / 2 : ℝ)) = exp (-1) := by rw [← exp_add]; norm_num
    have h2 : exp (-1 : ℝ) * exp (-1 : ℝ) = exp (-2) := by rw [← exp_add]; norm_num
    have ht4 : (1 : ℝ) / 4 < exp (-1) := by nlinarith
    intro h
    nlinarith

/-! ## (c) HEM closed forms (hem.py:76-166) -/

/-- M's HEM mass / first / second moment closed forms equal ∫_a^b x^k · density(x) dx, density as `__call__`
    computes it: k = 0, 1, 2, all rational parameters with η₁, η₂ ≠ 0, all rational a ≤ b (negative side,
    positive side, straddling 0) -/
theorem hem_correct (k : ℕ) (hk : k ≤ 2) (lam p eta1 eta2 a b : ℚ) (h1 : eta1 ≠ 0) (h2 : eta2 ≠ 0) (hab : a ≤ b) :
    ∃ ts, hemTerms k lam p eta1 eta2 (.fin a) (.fin b) = some ts ∧
      evalTerms ts = ∫ x in (a : ℝ)..(b : ℝ), x ^ k * hemDensity lam p eta1 eta2 x := by
  have h1R : ((eta1 : ℚ) : ℝ) ≠ 0 := by exact_mod_cast h1
  have h2R : ((eta2 : ℚ) : ℝ) ≠ 0 := by exact_mod_cast h2
  have habR : (a : ℝ) ≤ b := by exact_mod_cast hab
  have hnlt : ¬ b < a := not_lt.mpr hab
  by_cases hb : b ≤ 0
  · -- negative side
    have hbR : (b : ℝ) ≤ 0 := by exact_mod_cast hb
    refine ⟨[hemNegTerm k (lam * (1 - p)) eta2 b, negTerm (hemNegTerm k (lam * (1 - p)) eta2 a)], ?_, ?_⟩
    · simp only [hemTerms, ExtRat.lt, ExtRat.le, hemNeg, decide_eq_true_eq, hnlt, not_lt.mpr hb]
      simp
    · rw [eval_pair_neg, cast_hemNegTerm k hk, cast_hemNegTerm k hk, integral_hem_neg k hk _ _ _ _ h2R a b hbR habR]
      push_cast; ring
  · have hb' : 0 < b := not_le.mp hb
    have hbR : (0 : ℝ) < b := by exact_mod_cast hb'
    by_cases ha : 0 ≤ a
    · -- positive side
      have haR : (0 : ℝ) ≤ a := by exact_mod_cast ha
      refine ⟨[hemPosTerm k (lam * p) eta1 a, negTerm (hemPosTerm k (lam * p) eta1 b)], ?_, ?_⟩
      · simp only [hemTerms, ExtRat.lt, ExtRat.le, hemPos, decide_eq_true_eq, hnlt, hb', not_lt.mpr ha]
        simp
      · rw [eval_pair_neg, cast_hemPosTerm k hk, cast_hemPosTerm k hk, integral_hem_pos k hk _ _ _ _ h1R a b haR habR]
        push_cast; ring
    · -- straddling zero
      have ha' : a < 0 := not_le.mp ha
      have haR : (a : ℝ) < 0 := by exact_mod_cast ha'
      refine ⟨[hemNegTerm k (lam * (1 - p)) eta2 0, negTerm (hemNegTerm k (lam * (1 - p)) eta2 a)]
          ++ [hemPosTerm k (lam * p) eta1 0, negTerm (hemPosTerm k (lam * p) eta1 b)], ?_, ?_⟩
      · simp only [hemTerms, ExtRat.lt, ExtRat.le, hemNeg, hemPos, decide_eq_true_eq, hnlt, hb', ha']
        simp
      · rw [evalTerms_append, eval_pair_neg, eval_pair_neg, cast_hemNegTerm k hk, cast_hemNegTerm k hk,
          cast_hemPosTerm k hk, cast_hemPosTerm k hk, integral_hem_split k _ _ _ _ a b haR.le hbR.le,
          integral_hem_neg k hk _ _ _ _ h2R a 0 le_rfl haR.le, integral_hem_pos k hk _ _ _ _ h1R 0 b le_rfl hbR.le]
        push_cast; ring

/-- `a > b` raises in every HEM integral -/
theorem hem_a_gt_b_is_error (k : ℕ) (lam p eta1 eta2 a b : ℚ) (h : b < a) :
    hemTerms k lam p eta1 eta2 (.fin a) (.fin b) = none := by
  simp [hemTerms, ExtRat.lt, h]

/-- HEM mass is non-negative on every interval when λ ≥ 0, 0 ≤ p ≤ 1, η₁, η₂ > 0 (integral of a non-negative density) -/
theorem hem_even_nonneg (k : ℕ) (hk : k ≤ 2) (hev : Even k) (lam p eta1 eta2 a b : ℚ) (hl : 0 ≤ lam) (hp0 : 0 ≤ p) (hp1 : p ≤ 1)
    (h1 : 0 < eta1) (h2 : 0 < eta2) (hab : a ≤ b) :
    ∃ ts, hemTerms k lam p eta1 eta2 (.fin a) (.fin b) = some ts ∧ 0 ≤ evalTerms ts := by
  obtain ⟨ts, hts, hv⟩ := hem_correct k hk lam p eta1 eta2 a b h1.ne' h2.ne' hab
  refine ⟨ts, hts, ?_⟩
  rw [hv]
  have habR : (a : ℝ) ≤ b := by exact_mod_cast hab
  apply intervalIntegral.integral_nonneg habR
  intro x _
  have hlR : (0 : ℝ) ≤ lam := by exact_mod_cast hl
  have hp0R : (0 : ℝ) ≤ p := by exact_mod_cast hp0
  have hp1R : (0 : ℝ) ≤ 1 - p := by have : (p : ℝ) ≤ 1 := by exact_mod_cast hp1
                                    linarith
  have h1R : (0 : ℝ) ≤ eta1 := by exact_mod_cast h1.le
  have h2R : (0 : ℝ) ≤ eta2 := by exact_mod_cast h2.le
  have hd : 0 ≤ hemDensity lam p eta1 eta2 x := by
    unfold hemDensity
    apply mul_nonneg hlR
    apply add_nonneg <;> split_ifs <;> positivity
  exact mul_nonneg (hev.pow_nonneg x) hd

/-! ## (d) variance gamma, n ≥ 1 (variancegamma.py:194-208, as fixed by 938858c) -/

/-- M's VG `integrate_against_xn` for n ≥ 1 equals ∫_a^b x^n · density(x) dx, density as `__call__` computes it
    (c e^{-λ₋|x|}/|x| for x < 0, c e^{-λ₊x}/x for x > 0): all rational c, λ₊, λ₋ > 0, all rational a ≤ b -/
theorem vg_xn_correct (m : ℕ) (c lp lm a b : ℚ) (hlp : 0 < lp) (hlm : 0 < lm) (hab : a ≤ b) :
    ∃ ts, vgXnTerms c lp lm (m + 1) (.fin a) (.fin b) = some ts ∧
      evalTerms ts = ∫ x in (a : ℝ)..(b : ℝ), x ^ (m + 1) * vgDensity c lp lm x := by
  have habR : (a : ℝ) ≤ b := by exact_mod_cast hab
  by_cases hb : b ≤ 0
  · -- negative side: -c · I_m(a, b; λ₋)
    have hbR : (b : ℝ) ≤ 0 := by exact_mod_cast hb
    obtain ⟨ts, hts, hev⟩ := xn_exp_correct m lm a b hlm hab
    refine ⟨scaleTerms (-c) ts, ?_, ?_⟩
    · simp [vgXnTerms, ExtRat.lt, ExtRat.le, not_lt.mpr hb, hts]
    · rw [evalTerms_scale, hev, integral_vg_neg m c lp lm a b hbR habR]; push_cast; ring
  · have hb' : 0 < b := not_le.mp hb
    have hbR : (0 : ℝ) < b := by exact_mod_cast hb'
    by_cases ha : 0 ≤ a
    · -- positive side: c · I_m(a, b; λ₊)
      have haR : (0 : ℝ) ≤ a := by exact_mod_cast ha
      obtain ⟨ts, hts, hev⟩ := xn_exp_correct m lp a b hlp hab
      refine ⟨scaleTerms c ts, ?_, ?_⟩
      · simp [vgXnTerms, ExtRat.lt, ExtRat.le, not_lt.mpr ha, hb', hts]
      · rw [evalTerms_scale, hev, integral_vg_pos m c lp lm a b haR habR]
    · -- straddling zero: split, λ₋ on the left and λ₊ on the right
      have ha' : a < 0 := not_le.mp ha
      have haR : (a : ℝ) < 0 := by exact_mod_cast ha'
      obtain ⟨t1, ht1, hev1⟩ := xn_exp_correct m lm a 0 hlm ha'.le
      obtain ⟨t2, ht2, hev2⟩ := xn_exp_correct m lp 0 b hlp hb'.le
      refine ⟨scaleTerms (-c) t1 ++ scaleTerms c t2, ?_, ?_⟩
      · simp [vgXnTerms, ExtRat.lt, ha', hb', ht1, ht2]
      · rw [evalTerms_append, evalTerms_scale, evalTerms_scale, hev1, hev2,
          integral_vg_split m c lp lm a b haR.le hbR.le,
          integral_vg_neg m c lp lm a 0 le_rfl haR.le, integral_vg_pos m c lp lm 0 b le_rfl hbR.le]
        push_cast; ring

/-! ## (d) closed forms with special functions: the function is a parameter, its ODE an explicit hypothesis -/

/-- Merton mass (merton.py:65-78) = ∫_a^b density, for every `erf` with `erf' x = 2/√π · e^{-x²}` -/
theorem merton_mass (erf : ℝ → ℝ) (herf : ∀ x, HasDerivAt erf (2 / √π * exp (-x ^ 2)) x)
    (lam mu sigma : ℝ) (hs : sigma ≠ 0) (a b : ℝ) :
    mertonMass erf lam mu sigma a b = ∫ x in a..b, mertonDensity lam mu sigma x :=
  (integral_merton_mass erf herf lam mu sigma hs a b).symm

/-- Merton first moment (merton.py:80-92) -/
theorem merton_x (erf : ℝ → ℝ) (herf : ∀ x, HasDerivAt erf (2 / √π * exp (-x ^ 2)) x)
    (lam mu sigma : ℝ) (hs : sigma ≠ 0) (a b : ℝ) :
    lam * (mertonAuxX erf mu sigma b - mertonAuxX erf mu sigma a) = ∫ x in a..b, x ^ 1 * mertonDensity lam mu sigma x :=
  (integral_merton_x erf herf lam mu sigma hs a b).symm

/-- Merton second moment (merton.py:94-114, finite end points) -/
theorem merton_xx (erf : ℝ → ℝ) (herf : ∀ x, HasDerivAt erf (2 / √π * exp (-x ^ 2)) x)
    (lam mu sigma : ℝ) (hs : sigma ≠ 0) (a b : ℝ) :
    lam * (mertonAuxXX erf mu sigma b - mertonAuxXX erf mu sigma a) = ∫ x in a..b, x ^ 2 * mertonDensity lam mu sigma x :=
  (integral_merton_xx erf herf lam mu sigma hs a b).symm

/-- the hypothesis on erf is satisfiable (so the three theorems are not vacuous) -/
theorem erf_hypothesis_satisfiable : ∃ erf : ℝ → ℝ, ∀ x, HasDerivAt erf (2 / √π * exp (-x ^ 2)) x := by
  have hc : Continuous fun t : ℝ => 2 / √π * exp (-t ^ 2) := by fun_prop
  refine ⟨fun x => ∫ t in (0:ℝ)..x, 2 / √π * exp (-t ^ 2), fun x => ?_⟩
  exact intervalIntegral.integral_hasDerivAt_right (hc.intervalIntegrable 0 x)
    (hc.stronglyMeasurableAtFilter _ _) hc.continuousAt

/-- VG mass on [a,b] ⊂ (0,∞) (variancegamma.py:141-142), for every `E1` with `E1' x = −e^{-x}/x` on x > 0 -/
theorem vg_mass_pos (E1 : ℝ → ℝ) (hE1 : ∀ x, 0 < x → HasDerivAt E1 (-exp (-x) / x) x)
    (c lp lm : ℝ) (hlp : 0 < lp) (a b : ℝ) (ha : 0 < a) (hab : a ≤ b) :
    c * (E1 (lp * a) - E1 (lp * b)) = ∫ x in a..b, vgDensity c lp lm x :=
  (integral_vg_mass_pos E1 hE1 c lp lm hlp a b ha hab).symm

/-- VG mass on [a,b] ⊂ (−∞,0) (variancegamma.py:143-144) -/
theorem vg_mass_neg (E1 : ℝ → ℝ) (hE1 : ∀ x, 0 < x → HasDerivAt E1 (-exp (-x) / x) x)
    (c lp lm : ℝ) (hlm : 0 < lm) (a b : ℝ) (hb : b < 0) (hab : a ≤ b) :
    c * (E1 (-lm * b) - E1 (-lm * a)) = ∫ x in a..b, vgDensity c lp lm x :=
  (integral_vg_mass_neg E1 hE1 c lp lm hlm a b hb hab).symm

/-- the hypothesis on E1 is satisfiable -/
theorem E1_hypothesis_satisfiable : ∃ E1 : ℝ → ℝ, ∀ x, 0 < x → HasDerivAt E1 (-exp (-x) / x) x := by
  refine ⟨fun x => ∫ t in (1:ℝ)..x, -exp (-t) / t, fun x hx => ?_⟩
  have hcont : ContinuousOn (fun t : ℝ => -exp (-t) / t) (Set.Ioi 0) :=
    ContinuousOn.div (Continuous.continuousOn (by fun_prop)) continuousOn_id (fun t ht => ne_of_gt ht)
  have hint : IntervalIntegrable (fun t : ℝ => -exp (-t) / t) MeasureTheory.volume 1 x := by
    apply ContinuousOn.intervalIntegrable
    apply hcont.mono
    intro t ht
    exact lt_of_lt_of_le (lt_min one_pos hx) ht.1
  exact intervalIntegral.integral_hasDerivAt_right hint
    (hcont.stronglyMeasurableAtFilter isOpen_Ioi x hx) (hcont.continuousAt (Ioi_mem_nhds hx))

/-! ## infinite end points (one side of zero) -/

/-- `integral_xn_exp_minus_x(n, a, inf, α)` for a ≥ 0 is the improper integral over (a, ∞) -/
theorem xn_exp_correct_pos_inf (n : ℕ) (α a : ℚ) (hα : 0 < α) (ha : 0 ≤ a) :
    ∃ ts, xnExpTerms n α (.fin a) .posInf = some ts ∧
      evalTerms ts = ∫ x in Set.Ioi (a : ℝ), x ^ n * exp (-((α : ℝ) * |x|)) := by
  have hαR : (0 : ℝ) < α := by exact_mod_cast hα
  have haR : (0 : ℝ) ≤ a := by exact_mod_cast ha
  refine ⟨[xnHelper helperSum n α 1 a], ?_, ?_⟩
  · simp [xnExpTerms, xnExpTermsWith, xnExpOneSided, xnSign, not_le.mpr hα, ExtRat.lt, not_lt.mpr ha]
  · rw [evalTerms_cons, evalTerms_nil, eval_xnHelper n α 1 a hα, abs_of_nonneg haR, integral_Ioi_xn_exp n α hαR a haR]
    push_cast; ring

/-- `integral_xn_exp_minus_x(n, -inf, b, α)` for b ≤ 0 is the improper integral over (−∞, b] -/
theorem xn_exp_correct_neg_inf (n : ℕ) (α b : ℚ) (hα : 0 < α) (hb : b ≤ 0) :
    ∃ ts, xnExpTerms n α .negInf (.fin b) = some ts ∧
      evalTerms ts = ∫ x in Set.Iic (b : ℝ), x ^ n * exp (-((α : ℝ) * |x|)) := by
  have hαR : (0 : ℝ) < α := by exact_mod_cast hα
  have hbR : (b : ℝ) ≤ 0 := by exact_mod_cast hb
  refine ⟨[negTerm (xnHelper helperSum n α ((-1) ^ (n + 1)) b)], ?_, ?_⟩
  · simp [xnExpTerms, xnExpTermsWith, xnExpOneSided, xnSign, not_le.mpr hα, ExtRat.lt, not_lt.mpr hb]
  · have e := eval_xnHelper n α ((-1) ^ (n + 1)) b hα
    simp only [evalTerms_cons, evalTerms_nil, negTerm, add_zero]
    push_cast at e ⊢
    rw [neg_mul, e, abs_of_nonpos hbR, integral_Iic_xn_exp n α hαR b hbR]
    ring

/-- HEM on [a, ∞), a ≥ 0 -/
theorem hem_correct_pos_inf (k : ℕ) (hk : k ≤ 2) (lam p eta1 eta2 a : ℚ) (hl : 0 ≤ lam) (hp : 0 ≤ p) (h1 : 0 < eta1)
    (ha : 0 ≤ a) :
    ∃ ts, hemTerms k lam p eta1 eta2 (.fin a) .posInf = some ts ∧
      evalTerms ts = ∫ x in Set.Ioi (a : ℝ), x ^ k * hemDensity lam p eta1 eta2 x := by
  have hlR : (0 : ℝ) ≤ lam := by exact_mod_cast hl
  have hpR : (0 : ℝ) ≤ p := by exact_mod_cast hp
  have h1R : (0 : ℝ) < eta1 := by exact_mod_cast h1
  have haR : (0 : ℝ) ≤ a := by exact_mod_cast ha
  refine ⟨[hemPosTerm k (lam * p) eta1 a], ?_, ?_⟩
  · simp [hemTerms, hemPos, ExtRat.lt, ExtRat.le, not_lt.mpr ha]
  · rw [evalTerms_cons, evalTerms_nil, cast_hemPosTerm k hk, integral_Ioi_hem k hk _ _ _ _ hlR hpR h1R a haR]
    push_cast; ring

/-- HEM on (−∞, b], b ≤ 0 -/
theorem hem_correct_neg_inf (k : ℕ) (hk : k ≤ 2) (lam p eta1 eta2 b : ℚ) (hl : 0 ≤ lam) (hp : p ≤ 1) (h2 : 0 < eta2)
    (hb : b ≤ 0) :
    ∃ ts, hemTerms k lam p eta1 eta2 .negInf (.fin b) = some ts ∧
      evalTerms ts = ∫ x in Set.Iic (b : ℝ), x ^ k * hemDensity lam p eta1 eta2 x := by
  have hlR : (0 : ℝ) ≤ lam := by exact_mod_cast hl
  have hpR : (p : ℝ) ≤ 1 := by exact_mod_cast hp
  have h2R : (0 : ℝ) < eta2 := by exact_mod_cast h2
  have hbR : (b : ℝ) ≤ 0 := by exact_mod_cast hb
  refine ⟨[hemNegTerm k (lam * (1 - p)) eta2 b], ?_, ?_⟩
  · simp [hemTerms, hemNeg, ExtRat.lt, ExtRat.le, not_lt.mpr hb]
  · rw [evalTerms_cons, evalTerms_nil, cast_hemNegTerm k hk, integral_Iic_hem k hk _ _ _ _ hlR hpR h2R b hbR]
    push_cast; ring

/-! ## every proper pair of extended end points: one side of zero, straddling it, finite or infinite — as the coded
    split-at-zero composition of the half-line and finite pieces.  `eSet a b` is (a, b], (−∞, b], (a, ∞) or ℝ. -/

private theorem ELe_zero_cases_neg {a b : ExtRat} (hab : ELe a b) (hb : ELe b (.fin 0)) (hpr : Proper a b) :
    (∃ b' : ℚ, a = .negInf ∧ b = .fin b' ∧ b' ≤ 0) ∨ (∃ a' b' : ℚ, a = .fin a' ∧ b = .fin b' ∧ a' ≤ b' ∧ b' ≤ 0) := by
  obtain ⟨h1, h2⟩ := hpr
  cases a <;> cases b <;> simp_all [ELe, ExtRat.le, ExtRat.lt]

private theorem ELe_zero_cases_pos {a b : ExtRat} (hab : ELe a b) (ha : ELe (.fin 0) a) (hpr : Proper a b) :
    (∃ a' : ℚ, a = .fin a' ∧ b = .posInf ∧ 0 ≤ a') ∨ (∃ a' b' : ℚ, a = .fin a' ∧ b = .fin b' ∧ a' ≤ b' ∧ 0 ≤ a') := by
  obtain ⟨h1, h2⟩ := hpr
  cases a <;> cases b <;> simp_all [ELe, ExtRat.le, ExtRat.lt]

private theorem lt00 : ExtRat.lt (.fin 0) (.fin 0) = false := by simp [ExtRat.lt]

/-- M's `integral_xn_exp_minus_x` equals the integral of x^n e^{-α|x|} over the interval its end points denote, for every
    n, rational α > 0 and every proper pair of extended end points a ≤ b: [a,b], (−∞,b], [a,∞), (−∞,∞), on one side of
    zero or straddling it (e.g. (−∞, b] with b > 0 is the coded sum of the half-line (−∞, 0] and the finite piece [0, b]) -/
theorem xn_exp_correct_ext (n : ℕ) (α : ℚ) (hα : 0 < α) (a b : ExtRat) (hab : ELe a b) (hpr : Proper a b) :
    ∃ ts, xnExpTerms n α a b = some ts ∧ evalTerms ts = ∫ x in eSet a b, x ^ n * exp (-((α : ℝ) * |x|)) := by
  have hαR : (0 : ℝ) < α := by exact_mod_cast hα
  have hnα : ¬ α ≤ 0 := not_le.mpr hα
  refine ext_of_sides (xnExpTerms n α) _ (integrableOn_Iic_xn_exp n α hαR) (integrableOn_Ioi_xn_exp n α hαR) ?_ ?_ ?_ a b hab hpr
  · intro a b ha hb
    have ha' : ExtRat.lt a (.fin 0) = true := by simpa [ELe, ExtRat.le] using ha
    have hb' : ExtRat.lt (.fin 0) b = true := by simpa [ELe, ExtRat.le] using hb
    cases e1 : xnExpOneSided helperSum n α a (.fin 0) <;> cases e2 : xnExpOneSided helperSum n α (.fin 0) b <;>
      simp [xnExpTerms, xnExpTermsWith, hnα, ha', hb', lt00, e1, e2]
  · intro a b hab hb hpr
    rcases ELe_zero_cases_neg hab hb hpr with ⟨b', rfl, rfl, hb'⟩ | ⟨a', b', rfl, rfl, hab', hb'⟩
    · exact xn_exp_correct_neg_inf n α b' hα hb'
    · rw [← intervalIntegral_eq_eSet _ a' b' hab']; exact xn_exp_correct n α a' b' hα hab'
  · intro a b hab ha hpr
    rcases ELe_zero_cases_pos hab ha hpr with ⟨a', rfl, rfl, ha'⟩ | ⟨a', b', rfl, rfl, hab', ha'⟩
    · exact xn_exp_correct_pos_inf n α a' hα ha'
    · rw [← intervalIntegral_eq_eSet _ a' b' hab']; exact xn_exp_correct n α a' b' hα hab'

/-- M's HEM mass / first / second moment closed forms equal the integral of x^k · density over the interval the end points
    denote: k = 0, 1, 2, all rational parameters with η₁, η₂ > 0 (no sign condition on λ, p), every proper pair of extended
    end points a ≤ b — one side of zero or straddling it, finite or infinite -/
theorem hem_correct_ext (k : ℕ) (hk : k ≤ 2) (lam p eta1 eta2 : ℚ) (h1 : 0 < eta1) (h2 : 0 < eta2) (a b : ExtRat)
    (hab : ELe a b) (hpr : Proper a b) :
    ∃ ts, hemTerms k lam p eta1 eta2 a b = some ts ∧
      evalTerms ts = ∫ x in eSet a b, x ^ k * hemDensity lam p eta1 eta2 x := by
  have h1R : (0 : ℝ) < eta1 := by exact_mod_cast h1
  have h2R : (0 : ℝ) < eta2 := by exact_mod_cast h2
  refine ext_of_sides (hemTerms k lam p eta1 eta2) _ (integrableOn_Iic_hem k lam p eta1 eta2 h2R)
    (integrableOn_Ioi_hem k lam p eta1 eta2 h1R) ?_ ?_ ?_ a b hab hpr
  · intro a b ha hb
    have ha' : ExtRat.lt a (.fin 0) = true := by simpa [ELe, ExtRat.le] using ha
    have hb' : ExtRat.lt (.fin 0) b = true := by simpa [ELe, ExtRat.le] using hb
    have hba : ExtRat.lt b a = false := by
      cases a <;> cases b <;> simp_all [ExtRat.lt]
      linarith
    have ha0 : ExtRat.lt (.fin 0) a = false := by cases a <;> simp_all [ExtRat.lt]; linarith
    have hb0 : ExtRat.lt b (.fin 0) = false := by cases b <;> simp_all [ExtRat.lt]; linarith
    cases e1 : hemNeg k lam p eta2 a (.fin 0) <;> cases e2 : hemPos k lam p eta1 (.fin 0) b <;>
      simp [hemTerms, ExtRat.le, ha', hb', hba, ha0, hb0, lt00, e1, e2]
  · intro a b hab hb hpr
    rcases ELe_zero_cases_neg hab hb hpr with ⟨b', rfl, rfl, hb'⟩ | ⟨a', b', rfl, rfl, hab', hb'⟩
    · have hbR : (b' : ℝ) ≤ 0 := by exact_mod_cast hb'
      refine ⟨[hemNegTerm k (lam * (1 - p)) eta2 b'], ?_, ?_⟩
      · simp [hemTerms, hemNeg, ExtRat.lt, ExtRat.le, not_lt.mpr hb']
      · rw [evalTerms_cons, evalTerms_nil, cast_hemNegTerm k hk]
        simp only [eSet]
        rw [integral_Iic_hem' k hk _ _ _ _ h2R b' hbR]
        push_cast; ring
    · rw [← intervalIntegral_eq_eSet _ a' b' hab']; exact hem_correct k hk lam p eta1 eta2 a' b' h1.ne' h2.ne' hab'
  · intro a b hab ha hpr
    rcases ELe_zero_cases_pos hab ha hpr with ⟨a', rfl, rfl, ha'⟩ | ⟨a', b', rfl, rfl, hab', ha'⟩
    · have haR : (0 : ℝ) ≤ a' := by exact_mod_cast ha'
      refine ⟨[hemPosTerm k (lam * p) eta1 a'], ?_, ?_⟩
      · simp [hemTerms, hemPos, ExtRat.lt, ExtRat.le, not_lt.mpr ha']
      · rw [evalTerms_cons, evalTerms_nil, cast_hemPosTerm k hk]
        simp only [eSet]
        rw [integral_Ioi_hem' k hk _ _ _ _ h1R a' haR]
        push_cast; ring
    · rw [← intervalIntegral_eq_eSet _ a' b' hab']; exact hem_correct k hk lam p eta1 eta2 a' b' h1.ne' h2.ne' hab'

/-- M's VG `integrate_against_xn` for n ≥ 1 equals the integral of x^n · density over the interval the end points denote,
    for every proper pair of extended end points a ≤ b (infinite end points included, one side of zero or straddling it) -/
theorem vg_xn_correct_ext (m : ℕ) (c lp lm : ℚ) (hlp : 0 < lp) (hlm : 0 < lm) (a b : ExtRat) (hab : ELe a b)
    (hpr : Proper a b) :
    ∃ ts, vgXnTerms c lp lm (m + 1) a b = some ts ∧
      evalTerms ts = ∫ x in eSet a b, x ^ (m + 1) * vgDensity c lp lm x := by
  have hlpR : (0 : ℝ) < lp := by exact_mod_cast hlp
  have hlmR : (0 : ℝ) < lm := by exact_mod_cast hlm
  refine ext_of_sides (vgXnTerms c lp lm (m + 1)) _ (integrableOn_Iic_vg m c lp lm hlmR) (integrableOn_Ioi_vg m c lp lm hlpR)
    ?_ ?_ ?_ a b hab hpr
  · intro a b ha hb
    have ha' : ExtRat.lt a (.fin 0) = true := by simpa [ELe, ExtRat.le] using ha
    have hb' : ExtRat.lt (.fin 0) b = true := by simpa [ELe, ExtRat.le] using hb
    cases h1 : xnExpTerms m lm a (.fin 0) <;> cases h2 : xnExpTerms m lp (.fin 0) b <;>
      simp [vgXnTerms, ha', hb', ExtRat.le, lt00, h1, h2]
  · intro a b hab hb hpr
    obtain ⟨ts, hts, hev⟩ := xn_exp_correct_ext m lm hlm a b hab hpr
    have hb0 : ExtRat.lt (.fin 0) b = false := by simpa [ELe, ExtRat.le] using hb
    refine ⟨scaleTerms (-c) ts, ?_, ?_⟩
    · have hb1 : ExtRat.le b (.fin 0) = true := hb
      simp [vgXnTerms, hb0, hb1, hts]
    · rw [evalTerms_scale, hev, setIntegral_vg_neg m c lp lm _ (measurableSet_eSet a b) (eSet_subset_Iic a b hb)]
      push_cast; ring
  · intro a b hab ha hpr
    obtain ⟨ts, hts, hev⟩ := xn_exp_correct_ext m lp hlp a b hab hpr
    have ha0 : ExtRat.lt a (.fin 0) = false := by simpa [ELe, ExtRat.le] using ha
    by_cases hb : ELe b (.fin 0)
    · -- a = b = 0: the code takes the `b <= 0` branch; both sides are 0
      have hab0 : a = .fin 0 ∧ b = .fin 0 := by
        obtain ⟨h1, h2⟩ := hpr
        cases a <;> cases b <;> simp_all [ELe, ExtRat.le, ExtRat.lt]
        constructor <;> linarith
      obtain ⟨rfl, rfl⟩ := hab0
      obtain ⟨ts', hts', hev'⟩ := xn_exp_correct_ext m lm hlm (.fin 0) (.fin 0) hab hpr
      refine ⟨scaleTerms (-c) ts', ?_, ?_⟩
      · simp [vgXnTerms, ExtRat.lt, ExtRat.le, hts']
      · rw [evalTerms_scale, hev']; simp [eSet]
    · have hb1 : ExtRat.le b (.fin 0) = false := by simpa [ELe] using hb
      refine ⟨scaleTerms c ts, ?_, ?_⟩
      · simp [vgXnTerms, ha0, hb1, hts]
      · rw [evalTerms_scale, hev, setIntegral_vg_pos m c lp lm _ (measurableSet_eSet a b) (eSet_subset_Ioi a b ha)]

/-! ## (d) infinite end points for the special-function families: the limit at infinity is one more hypothesis -/
open Filter Topology in
/-- Merton `integrate(a, inf)` (scipy: erf(inf) = 1) -/
theorem merton_mass_Ioi (erf : ℝ → ℝ) (herf : ∀ x, HasDerivAt erf (2 / √π * exp (-x ^ 2)) x)
    (hlim : Tendsto erf atTop (𝓝 1)) (lam mu sigma : ℝ) (hl : 0 ≤ lam) (hs : 0 < sigma) (a : ℝ) :
    0.5 * lam * (1 - erfAux erf mu sigma a) = ∫ x in Set.Ioi a, mertonDensity lam mu sigma x :=
  (integral_Ioi_merton_mass erf herf hlim lam mu sigma hl hs a).symm

open Filter Topology in
/-- Merton `integrate(-inf, b)` (scipy: erf(-inf) = -1) -/
theorem merton_mass_Iic (erf : ℝ → ℝ) (herf : ∀ x, HasDerivAt erf (2 / √π * exp (-x ^ 2)) x)
    (hlim : Tendsto erf atBot (𝓝 (-1))) (lam mu sigma : ℝ) (hl : 0 ≤ lam) (hs : 0 < sigma) (b : ℝ) :
    0.5 * lam * (erfAux erf mu sigma b - (-1)) = ∫ x in Set.Iic b, mertonDensity lam mu sigma x :=
  (integral_Iic_merton_mass erf herf hlim lam mu sigma hl hs b).symm

open Filter Topology in
/-- VG `integrate(a, inf)`, a > 0 (variancegamma.py:129-133) -/
theorem vg_mass_Ioi (E1 : ℝ → ℝ) (hE1 : ∀ x, 0 < x → HasDerivAt E1 (-exp (-x) / x) x) (hlim : Tendsto E1 atTop (𝓝 0))
    (c lp lm : ℝ) (hc : 0 ≤ c) (hlp : 0 < lp) (a : ℝ) (ha : 0 < a) :
    c * E1 (lp * a) = ∫ x in Set.Ioi a, vgDensity c lp lm x :=
  (integral_Ioi_vg_mass E1 hE1 hlim c lp lm hc hlp a ha).symm

open Filter Topology in
/-- VG `integrate(-inf, b)`, b < 0 (variancegamma.py:135-139) -/
theorem vg_mass_Iic (E1 : ℝ → ℝ) (hE1 : ∀ x, 0 < x → HasDerivAt E1 (-exp (-x) / x) x) (hlim : Tendsto E1 atTop (𝓝 0))
    (c lp lm : ℝ) (hc : 0 ≤ c) (hlm : 0 < lm) (b : ℝ) (hb : b < 0) :
    c * E1 (-lm * b) = ∫ x in Set.Iic b, vgDensity c lp lm x :=
  (integral_Iic_vg_mass E1 hE1 hlim c lp lm hc hlm b hb).symm

/-! ## (d) Merton with every proper pair of extended end points, tied to the model's terms -/

open Filter Topology in
/-- M's Merton closed forms (`mertonTerms`: mass, first and second moment as lists of erf- and Gaussian terms with rational
    coefficients, erf(±∞) = ±1, the Gaussian term dropped at an infinite end point as the code does) equal the integral of
    x^k · density over the interval the end points denote — finite, (−∞, b], (a, ∞) and ℝ — for every function `erf` with
    erf' x = 2/√π·e^{−x²}, erf → 1 at +∞ and erf → −1 at −∞ (all three hypotheses jointly satisfiable:
    `erf_hypotheses_satisfiable`) -/
theorem merton_correct_ext (erf : ℝ → ℝ) (herf : ∀ x, HasDerivAt erf (2 / √π * exp (-x ^ 2)) x)
    (hlimT : Tendsto erf atTop (𝓝 1)) (hlimB : Tendsto erf atBot (𝓝 (-1)))
    (k : ℕ) (hk : k ≤ 2) (lam mu sigma : ℚ) (hs : 0 < sigma) (a b : ExtRat) (hab : ELe a b) (hpr : Proper a b) :
    ∃ t, mertonTerms k lam mu sigma a b = some t ∧
      evalMerton erf mu sigma t = ∫ x in eSet a b, x ^ k * mertonDensity lam mu sigma x := by
  have hsR : (0 : ℝ) < sigma := by exact_mod_cast hs
  obtain ⟨t, ht, hv⟩ := evalMerton_terms erf k hk lam mu sigma a b
  exact ⟨t, ht, by rw [hv, integral_eSet_merton erf herf hlimT hlimB k hk lam mu sigma hsR a b hab hpr]⟩

open Filter Topology in
/-- Merton first moment over (a, ∞): `λ (μ/2 · 1 − fun_aux(a))` (merton.py:80-92 with erf(inf) = 1, exp(−inf) = 0) -/
theorem merton_x_Ioi (erf : ℝ → ℝ) (herf : ∀ x, HasDerivAt erf (2 / √π * exp (-x ^ 2)) x)
    (hlim : Tendsto erf atTop (𝓝 1)) (lam mu sigma : ℝ) (hs : 0 < sigma) (a : ℝ) :
    lam * (0.5 * mu * 1) - lam * mertonAuxX erf mu sigma a = ∫ x in Set.Ioi a, x ^ 1 * mertonDensity lam mu sigma x :=
  (integral_Ioi_merton erf herf hlim 1 (by norm_num) lam mu sigma hs a).symm

open Filter Topology in
/-- Merton second moment over (−∞, b]: `λ (fun_aux(b) − (μ²+σ²)/2 · (−1))` (merton.py:94-114, the `x == -inf` branch) -/
theorem merton_xx_Iic (erf : ℝ → ℝ) (herf : ∀ x, HasDerivAt erf (2 / √π * exp (-x ^ 2)) x)
    (hlim : Tendsto erf atBot (𝓝 (-1))) (lam mu sigma : ℝ) (hs : 0 < sigma) (b : ℝ) :
    lam * mertonAuxXX erf mu sigma b - lam * (0.5 * (mu ^ 2 + sigma ^ 2) * -1)
      = ∫ x in Set.Iic b, x ^ 2 * mertonDensity lam mu sigma x :=
  (integral_Iic_merton erf herf hlim 2 (by norm_num) lam mu sigma hs b).symm

open Filter Topology in
/-- Merton moments over ℝ: mass λ, first moment λμ, second moment λ(μ² + σ²) -/
theorem merton_line (erf : ℝ → ℝ) (herf : ∀ x, HasDerivAt erf (2 / √π * exp (-x ^ 2)) x)
    (hlimT : Tendsto erf atTop (𝓝 1)) (hlimB : Tendsto erf atBot (𝓝 (-1))) (lam mu sigma : ℝ) (hs : 0 < sigma) :
    (∫ x, x ^ 0 * mertonDensity lam mu sigma x) = lam ∧ (∫ x, x ^ 1 * mertonDensity lam mu sigma x) = lam * mu ∧
      (∫ x, x ^ 2 * mertonDensity lam mu sigma x) = lam * (mu ^ 2 + sigma ^ 2) := by
  refine ⟨?_, ?_, ?_⟩
  · rw [integral_univ_merton erf herf hlimT hlimB 0 (by norm_num) lam mu sigma hs]; simp only [mertonFInf]; ring
  · rw [integral_univ_merton erf herf hlimT hlimB 1 (by norm_num) lam mu sigma hs]; simp only [mertonFInf]; ring
  · rw [integral_univ_merton erf herf hlimT hlimB 2 (by norm_num) lam mu sigma hs]; simp only [mertonFInf]; ring

/-! ## (d) CGMY on one side of zero (cgmy.py:127-168, 215-276), `E1` and `Gam a z` = Γ(2−a)·gammaincc(2−a, z) as parameters -/

/-- CGMY mass on [a,b] ⊂ (0,∞), every branch y < 2 of the activity index (E1 for y = 0, closed branch for y < 1,
    one recursion step for 1 ≤ y < 2) -/
theorem cgmy_mass_pos (E1 : ℝ → ℝ) (Gam : ℝ → ℝ → ℝ) (hE1 : ∀ x, 0 < x → HasDerivAt E1 (-exp (-x) / x) x)
    (hG : ∀ a z, 0 < z → HasDerivAt (Gam a) (-(z ^ (1 - a) * exp (-z))) z)
    (c g m y : ℝ) (hy : y < 2) (hm : 0 < m) (a b : ℝ) (ha : 0 < a) (hab : a ≤ b) :
    c * (cgmyTailMass E1 Gam y m a - cgmyTailMass E1 Gam y m b) = ∫ x in a..b, cgmyDensity c g m y x :=
  (integral_cgmy_mass_pos E1 Gam hE1 hG c g m y hy hm a b ha hab).symm

/-- CGMY mass on [a,b] ⊂ (−∞,0) -/
theorem cgmy_mass_neg (E1 : ℝ → ℝ) (Gam : ℝ → ℝ → ℝ) (hE1 : ∀ x, 0 < x → HasDerivAt E1 (-exp (-x) / x) x)
    (hG : ∀ a z, 0 < z → HasDerivAt (Gam a) (-(z ^ (1 - a) * exp (-z))) z)
    (c g m y : ℝ) (hy : y < 2) (hg : 0 < g) (a b : ℝ) (hb : b < 0) (hab : a ≤ b) :
    c * (cgmyTailMass E1 Gam y g (-b) - cgmyTailMass E1 Gam y g (-a)) = ∫ x in a..b, cgmyDensity c g m y x :=
  (integral_cgmy_mass_neg E1 Gam hE1 hG c g m y hy hg a b hb hab).symm

/-- CGMY first moment on [a,b] ⊂ (0,∞), y ≠ 1 (cgmy.py:150-157, 268-274) -/
theorem cgmy_x_pos (Gam : ℝ → ℝ) (c g m y : ℝ) (hy : y ≠ 1) (hm : 0 < m)
    (hG : ∀ z, 0 < z → HasDerivAt Gam (-(z ^ (1 - y) * exp (-z))) z) (a b : ℝ) (ha : 0 < a) (hab : a ≤ b) :
    c * (cgmyTailX Gam y m a - cgmyTailX Gam y m b) = ∫ x in a..b, x ^ 1 * cgmyDensity c g m y x :=
  (integral_cgmy_x_pos Gam c g m y hy hm hG a b ha hab).symm

/-- CGMY first moment on [a,b] ⊂ (−∞,0), y ≠ 1 (cgmy.py:159-166) -/
theorem cgmy_x_neg (Gam : ℝ → ℝ) (c g m y : ℝ) (hy : y ≠ 1) (hg : 0 < g)
    (hG : ∀ z, 0 < z → HasDerivAt Gam (-(z ^ (1 - y) * exp (-z))) z) (a b : ℝ) (hb : b < 0) (hab : a ≤ b) :
    c * (cgmyTailX Gam y g (-a) - cgmyTailX Gam y g (-b)) = ∫ x in a..b, x ^ 1 * cgmyDensity c g m y x :=
  (integral_cgmy_x_neg Gam c g m y hy hg hG a b hb hab).symm

/-- CGMY first moment for y = 1 on [a,b] ⊂ (0,∞): the exp1 branch (cgmy.py:266-267) -/
theorem cgmy_x_y1_pos (E1 : ℝ → ℝ) (hE1 : ∀ x, 0 < x → HasDerivAt E1 (-exp (-x) / x) x)
    (c g m : ℝ) (hm : 0 < m) (a b : ℝ) (ha : 0 < a) (hab : a ≤ b) :
    c * (E1 (m * a) - E1 (m * b)) = ∫ x in a..b, x ^ 1 * cgmyDensity c g m 1 x :=
  (integral_cgmy_x_y1_pos E1 hE1 c g m hm a b ha hab).symm

/-! ## (d) VG mass and CGMY mass / first moment with extended end points on one side of zero, CGMY second moment over an
    interval straddling zero — tied to the model's terms (Model/IntegralsSpecial.lean) -/

/-- the interval lies on one side of zero and away from it: 0 < a or b < 0 -/
def AwayFromZero (a b : ExtRat) : Prop := ExtRat.lt (.fin 0) a = true ∨ ExtRat.lt b (.fin 0) = true

private theorem away_cases {a b : ExtRat} (hab : ELe a b) (hpr : Proper a b) (hz : AwayFromZero a b) :
    (∃ a' : ℚ, a = .fin a' ∧ b = .posInf ∧ 0 < a') ∨ (∃ b' : ℚ, a = .negInf ∧ b = .fin b' ∧ b' < 0) ∨
      (∃ a' b' : ℚ, a = .fin a' ∧ b = .fin b' ∧ 0 < a' ∧ a' ≤ b') ∨ (∃ a' b' : ℚ, a = .fin a' ∧ b = .fin b' ∧ b' < 0 ∧ a' ≤ b') := by
  obtain ⟨h1, h2⟩ := hpr
  cases a <;> cases b <;> simp_all [ELe, ExtRat.le, ExtRat.lt, AwayFromZero]

open Filter Topology in
/-- M's VG mass (`vgMassTerms`, Σ c·E1(z) with rational c, z) equals the integral of the density over every interval on one
    side of zero and away from it, infinite end points included, for every `E1` with E1' x = −e^{−x}/x on x > 0 and E1 → 0 at +∞ -/
theorem vg_mass_correct_ext (E1 : ℝ → ℝ) (hE1 : ∀ x, 0 < x → HasDerivAt E1 (-exp (-x) / x) x)
    (hlim : Tendsto E1 atTop (𝓝 0)) (c lp lm : ℚ) (hc : 0 ≤ c) (hlp : 0 < lp) (hlm : 0 < lm) (a b : ExtRat)
    (hab : ELe a b) (hpr : Proper a b) (hz : AwayFromZero a b) :
    ∃ t, vgMassTerms c lp lm a b = some t ∧ evalE1Terms E1 t = ∫ x in eSet a b, vgDensity c lp lm x := by
  have hcR : (0 : ℝ) ≤ c := by exact_mod_cast hc
  have hlpR : (0 : ℝ) < lp := by exact_mod_cast hlp
  have hlmR : (0 : ℝ) < lm := by exact_mod_cast hlm
  rcases away_cases hab hpr hz with ⟨a', rfl, rfl, ha⟩ | ⟨b', rfl, rfl, hb⟩ | ⟨a', b', rfl, rfl, ha, hab'⟩ | ⟨a', b', rfl, rfl, hb, hab'⟩
  · have haR : (0 : ℝ) < a' := by exact_mod_cast ha
    refine ⟨[(c, lp * a')], by simp [vgMassTerms], ?_⟩
    simp only [evalE1Terms_cons, evalE1Terms_nil, eSet, add_zero]
    rw [← vg_mass_Ioi E1 hE1 hlim c lp lm hcR hlpR a' haR]; push_cast; ring
  · have hbR : (b' : ℝ) < 0 := by exact_mod_cast hb
    refine ⟨[(c, -lm * b')], by simp [vgMassTerms], ?_⟩
    simp only [evalE1Terms_cons, evalE1Terms_nil, eSet, add_zero]
    rw [← vg_mass_Iic E1 hE1 hlim c lp lm hcR hlmR b' hbR]; push_cast; ring
  · have haR : (0 : ℝ) < a' := by exact_mod_cast ha
    have habR : (a' : ℝ) ≤ b' := by exact_mod_cast hab'
    have hb : 0 < b' := lt_of_lt_of_le ha hab'
    refine ⟨[(c, lp * a'), (-c, lp * b')], by simp [vgMassTerms, ha, hb], ?_⟩
    rw [← intervalIntegral_eq_eSet _ a' b' hab', ← vg_mass_pos E1 hE1 c lp lm hlpR a' b' haR habR]
    simp only [evalE1Terms_cons, evalE1Terms_nil]; push_cast; ring
  · have hbR : (b' : ℝ) < 0 := by exact_mod_cast hb
    have habR : (a' : ℝ) ≤ b' := by exact_mod_cast hab'
    have ha : a' < 0 := lt_of_le_of_lt hab' hb
    have hna : ¬ 0 < a' := not_lt.mpr ha.le
    refine ⟨[(c, -lm * b'), (-c, -lm * a')], by simp [vgMassTerms, ha, hb, hna], ?_⟩
    rw [← intervalIntegral_eq_eSet _ a' b' hab', ← vg_mass_neg E1 hE1 c lp lm hlmR a' b' hbR habR]
    simp only [evalE1Terms_cons, evalE1Terms_nil]; push_cast; ring

open Filter Topology in
/-- M's CGMY mass (`cgmyMassTerms`: ±c · `__integrate_h_to_inf`(y, ·, rate) atoms) equals the integral of the density over
    every interval on one side of zero and away from it — finite, (a, ∞) with a > 0, (−∞, b] with b < 0 — for every branch
    y < 2 of the activity index, under the derivative hypotheses on E1 and Γ(2−a, ·) and the limits E1 → 0, Γ(2−a, ·) → 0 at +∞ -/
theorem cgmy_mass_correct_ext (E1 : ℝ → ℝ) (Gam gl : ℝ → ℝ → ℝ) (GamC : ℝ → ℝ)
    (hE1 : ∀ x, 0 < x → HasDerivAt E1 (-exp (-x) / x) x)
    (hG : ∀ a z, 0 < z → HasDerivAt (Gam a) (-(z ^ (1 - a) * exp (-z))) z)
    (hE1lim : Tendsto E1 atTop (𝓝 0)) (hGlim : ∀ a, Tendsto (Gam a) atTop (𝓝 0))
    (c g m y : ℚ) (hc : 0 ≤ c) (hg : 0 < g) (hm : 0 < m) (hy : y < 2) (a b : ExtRat)
    (hab : ELe a b) (hpr : Proper a b) (hz : AwayFromZero a b) :
    ∃ t, cgmyMassTerms c g m y a b = some t ∧
      evalCgmyTerms E1 Gam gl GamC t = ∫ x in eSet a b, cgmyDensity c g m y x := by
  have hcR : (0 : ℝ) ≤ c := by exact_mod_cast hc
  have hgR : (0 : ℝ) < g := by exact_mod_cast hg
  have hmR : (0 : ℝ) < m := by exact_mod_cast hm
  have hyR : (y : ℝ) < 2 := by exact_mod_cast hy
  rcases away_cases hab hpr hz with ⟨a', rfl, rfl, ha⟩ | ⟨b', rfl, rfl, hb⟩ | ⟨a', b', rfl, rfl, ha, hab'⟩ | ⟨a', b', rfl, rfl, hb, hab'⟩
  · have haR : (0 : ℝ) < a' := by exact_mod_cast ha
    refine ⟨[(c, .tailMass y m a')], by simp [cgmyMassTerms, ha], ?_⟩
    simp only [evalCgmyTerms_cons, evalCgmyTerms_nil, evalCgmyAtom, eSet, add_zero]
    rw [integral_Ioi_cgmy_mass E1 Gam hE1 hG hE1lim hGlim c g m y hcR hyR hmR a' haR]
  · have hbR : (b' : ℝ) < 0 := by exact_mod_cast hb
    refine ⟨[(c, .tailMass y g (-b'))], by simp [cgmyMassTerms, hb], ?_⟩
    simp only [evalCgmyTerms_cons, evalCgmyTerms_nil, evalCgmyAtom, eSet, add_zero]
    rw [integral_Iic_cgmy_mass E1 Gam hE1 hG hE1lim hGlim c g m y hcR hyR hgR b' hbR]; push_cast; ring
  · have haR : (0 : ℝ) < a' := by exact_mod_cast ha
    have habR : (a' : ℝ) ≤ b' := by exact_mod_cast hab'
    have hb : 0 < b' := lt_of_lt_of_le ha hab'
    refine ⟨[(c, .tailMass y m a'), (-c, .tailMass y m b')], by simp [cgmyMassTerms, ha, hb], ?_⟩
    rw [← intervalIntegral_eq_eSet _ a' b' hab', integral_cgmy_mass_pos E1 Gam hE1 hG c g m y hyR hmR a' b' haR habR]
    simp only [evalCgmyTerms_cons, evalCgmyTerms_nil, evalCgmyAtom]; push_cast; ring
  · have hbR : (b' : ℝ) < 0 := by exact_mod_cast hb
    have habR : (a' : ℝ) ≤ b' := by exact_mod_cast hab'
    have ha : a' < 0 := lt_of_le_of_lt hab' hb
    have hna : ¬ 0 < a' := not_lt.mpr ha.le
    refine ⟨[(c, .tailMass y g (-b')), (-c, .tailMass y g (-a'))], by simp [cgmyMassTerms, ha, hb, hna], ?_⟩
    rw [← intervalIntegral_eq_eSet _ a' b' hab', integral_cgmy_mass_neg E1 Gam hE1 hG c g m y hyR hgR a' b' hbR habR]
    simp only [evalCgmyTerms_cons, evalCgmyTerms_nil, evalCgmyAtom]; push_cast; ring

open Filter Topology in
/-- M's CGMY first moment (`cgmyXTerms`: ±c · `__integrate_h_to_inf_for_xx`(y, ·, rate) atoms, exp1 branch for y = 1) equals
    the integral of x · density over every interval on one side of zero and away from it, infinite end points included -/
theorem cgmy_x_correct_ext (E1 : ℝ → ℝ) (Gam gl : ℝ → ℝ → ℝ) (GamC : ℝ → ℝ)
    (hE1 : ∀ x, 0 < x → HasDerivAt E1 (-exp (-x) / x) x)
    (hG : ∀ a z, 0 < z → HasDerivAt (Gam a) (-(z ^ (1 - a) * exp (-z))) z)
    (hE1lim : Tendsto E1 atTop (𝓝 0)) (hGlim : ∀ a, Tendsto (Gam a) atTop (𝓝 0))
    (c g m y : ℚ) (hc : 0 ≤ c) (hg : 0 < g) (hm : 0 < m) (a b : ExtRat)
    (hab : ELe a b) (hpr : Proper a b) (hz : AwayFromZero a b) :
    ∃ t, cgmyXTerms c g m y a b = some t ∧
      evalCgmyTerms E1 Gam gl GamC t = ∫ x in eSet a b, x ^ 1 * cgmyDensity c g m y x := by
  have hcR : (0 : ℝ) ≤ c := by exact_mod_cast hc
  have hgR : (0 : ℝ) < g := by exact_mod_cast hg
  have hmR : (0 : ℝ) < m := by exact_mod_cast hm
  rcases away_cases hab hpr hz with ⟨a', rfl, rfl, ha⟩ | ⟨b', rfl, rfl, hb⟩ | ⟨a', b', rfl, rfl, ha, hab'⟩ | ⟨a', b', rfl, rfl, hb, hab'⟩
  · have haR : (0 : ℝ) < a' := by exact_mod_cast ha
    refine ⟨[(c, .tailX y m a')], by simp [cgmyXTerms, ha], ?_⟩
    simp only [evalCgmyTerms_cons, evalCgmyTerms_nil, evalCgmyAtom, eSet, add_zero]
    rw [integral_Ioi_cgmy_x E1 Gam hE1 hG hE1lim hGlim c g m y hcR hmR a' haR]
  · have hbR : (b' : ℝ) < 0 := by exact_mod_cast hb
    refine ⟨[(-c, .tailX y g (-b'))], by simp [cgmyXTerms, hb], ?_⟩
    simp only [evalCgmyTerms_cons, evalCgmyTerms_nil, evalCgmyAtom, eSet, add_zero]
    rw [integral_Iic_cgmy_x E1 Gam hE1 hG hE1lim hGlim c g m y hcR hgR b' hbR]; push_cast; ring
  · have haR : (0 : ℝ) < a' := by exact_mod_cast ha
    have habR : (a' : ℝ) ≤ b' := by exact_mod_cast hab'
    refine ⟨[(c, .tailX y m a'), (-c, .tailX y m b')], by simp [cgmyXTerms, ha], ?_⟩
    rw [← intervalIntegral_eq_eSet _ a' b' hab', integral_cgmy_xall_pos E1 Gam hE1 hG c g m y hmR a' b' haR habR]
    simp only [evalCgmyTerms_cons, evalCgmyTerms_nil, evalCgmyAtom]; push_cast; ring
  · have hbR : (b' : ℝ) < 0 := by exact_mod_cast hb
    have habR : (a' : ℝ) ≤ b' := by exact_mod_cast hab'
    have ha : a' < 0 := lt_of_le_of_lt hab' hb
    have hna : ¬ 0 < a' := not_lt.mpr ha.le
    refine ⟨[(c, .tailX y g (-a')), (-c, .tailX y g (-b'))], by simp [cgmyXTerms, ha, hb, hna], ?_⟩
    rw [← intervalIntegral_eq_eSet _ a' b' hab', integral_cgmy_xall_neg E1 Gam hE1 hG c g m y hgR a' b' hbR habR]
    simp only [evalCgmyTerms_cons, evalCgmyTerms_nil, evalCgmyAtom]; push_cast; ring

/-- M's CGMY second moment over an interval straddling zero (`cgmyXXTerms`, the gammainc form of cgmy.py:170-190, the
    un-tempered branches g = 0 / m = 0 included) equals the integral of x² · density, for every `gl` with
    d/dz gl(s, z) = z^(s−1) e^{−z} on z > 0, gl(s, 0) = 0 and gl(s, ·) continuous at 0 from the right (s = 2 − y > 0) -/
theorem cgmy_xx_correct (E1 : ℝ → ℝ) (Gam gl : ℝ → ℝ → ℝ) (GamC : ℝ → ℝ)
    (hgl : ∀ s, 0 < s → ∀ z, 0 < z → HasDerivAt (gl s) (z ^ (s - 1) * exp (-z)) z)
    (hgl0 : ∀ s, 0 < s → gl s 0 = 0) (hglc : ∀ s, 0 < s → ContinuousWithinAt (gl s) (Set.Ici 0) 0)
    (c g m y : ℚ) (hg : 0 ≤ g) (hm : 0 ≤ m) (hy : y < 2) (a b : ℚ) (ha : a < 0) (hb : 0 < b) :
    ∃ t, cgmyXXTerms c g m y (.fin a) (.fin b) = some t ∧
      evalCgmyTerms E1 Gam gl GamC t = ∫ x in (a : ℝ)..(b : ℝ), x ^ 2 * cgmyDensity c g m y x := by
  have hgR : (0 : ℝ) ≤ g := by exact_mod_cast hg
  have hmR : (0 : ℝ) ≤ m := by exact_mod_cast hm
  have hyR : (y : ℝ) < 2 := by exact_mod_cast hy
  have haR : (a : ℝ) ≤ 0 := by exact_mod_cast ha.le
  have hbR : (0 : ℝ) ≤ b := by exact_mod_cast hb.le
  have hs : (0 : ℝ) < ((2 - y : ℚ) : ℝ) := by push_cast; linarith
  obtain ⟨t1, ht1, hv1⟩ := eval_cgmyXXSide E1 Gam gl GamC c y m b
  obtain ⟨t2, ht2, hv2⟩ := eval_cgmyXXSide E1 Gam gl GamC c y g (-a)
  refine ⟨[t1, t2], ?_, ?_⟩
  · simp [cgmyXXTerms, ExtRat.lt, ExtRat.neg, ha, hb, ht1, ht2]
  · have e : ((2 - y : ℚ) : ℝ) = 2 - (y : ℝ) := by push_cast; ring
    have hgl' := hgl _ hs
    rw [e] at hgl' hv1 hv2
    have h0 := hgl0 _ hs
    have hc' := hglc _ hs
    rw [e] at h0 hc'
    rw [integral_cgmy_xx_straddle (gl (2 - (y : ℝ))) c g m y hyR hgR hmR hgl' h0 hc' a b haR hbR]
    simp only [evalCgmyTerms_cons, evalCgmyTerms_nil, hv1, hv2]
    push_cast; ring

open Filter Topology in
/-- … and with infinite end points (`gammainc(s, inf) = 1` in the code, the hypothesis gl(s, ·) → GamC(s) here), for g, m > 0:
    every extended pair a < 0 < b, e.g. (−∞, ∞) gives c·Γ(2−y)·(m^(y−2) + g^(y−2)) -/
theorem cgmy_xx_correct_ext (E1 : ℝ → ℝ) (Gam gl : ℝ → ℝ → ℝ) (GamC : ℝ → ℝ)
    (hgl : ∀ s, 0 < s → ∀ z, 0 < z → HasDerivAt (gl s) (z ^ (s - 1) * exp (-z)) z)
    (hgl0 : ∀ s, 0 < s → gl s 0 = 0) (hglc : ∀ s, 0 < s → ContinuousWithinAt (gl s) (Set.Ici 0) 0)
    (hlim : ∀ s, 0 < s → Tendsto (gl s) atTop (𝓝 (GamC s)))
    (c g m y : ℚ) (hg : 0 < g) (hm : 0 < m) (hy : y < 2) (a b : ExtRat)
    (ha : ExtRat.lt a (.fin 0) = true) (hb : ExtRat.lt (.fin 0) b = true) :
    ∃ t, cgmyXXTerms c g m y a b = some t ∧
      evalCgmyTerms E1 Gam gl GamC t = ∫ x in eSet a b, x ^ 2 * cgmyDensity c g m y x := by
  have hgR : (0 : ℝ) < g := by exact_mod_cast hg
  have hmR : (0 : ℝ) < m := by exact_mod_cast hm
  have hyR : (y : ℝ) < 2 := by exact_mod_cast hy
  have hs : (0 : ℝ) < ((2 - y : ℚ) : ℝ) := by push_cast; linarith
  have e : ((2 - y : ℚ) : ℝ) = 2 - (y : ℝ) := by push_cast; ring
  have hgl' := hgl _ hs
  have h0 := hgl0 _ hs
  have hc' := hglc _ hs
  have hl' := hlim _ hs
  rw [e] at hgl' h0 hc' hl'
  obtain ⟨hp, vp⟩ := integrableOn_Ioi_cgmy_xx (gl (2 - (y : ℝ))) (GamC (2 - (y : ℝ))) c g m y hyR hmR hgl' h0 hc' hl'
  obtain ⟨hn, vn⟩ := integrableOn_Iic_cgmy_xx (gl (2 - (y : ℝ))) (GamC (2 - (y : ℝ))) c g m y hyR hgR hgl' h0 hc' hl'
  have hna : ¬ ELe (.fin 0) a := by simp [ELe, ExtRat.le, ha]
  have hnb : ¬ ELe b (.fin 0) := by simp [ELe, ExtRat.le, hb]
  have hm0 : m ≠ 0 := hm.ne'
  have hg0 : g ≠ 0 := hg.ne'
  have hmR0 : ((m : ℚ) : ℝ) ≠ 0 := hmR.ne'
  have hgR0 : ((g : ℚ) : ℝ) ≠ 0 := hgR.ne'
  refine ⟨[(c, .lowGam (2 - y) m b), (c, .lowGam (2 - y) g (ExtRat.neg a))], by simp [cgmyXXTerms, cgmyXXSide, ha, hb, hm0, hg0], ?_⟩
  rw [setIntegral_eSet_split hn hp a b hna hnb]
  simp only [evalCgmyTerms_cons, evalCgmyTerms_nil, add_zero]
  have hR : (c : ℝ) * evalCgmyAtom E1 Gam gl GamC (.lowGam (2 - y) m b)
      = ∫ x in eSet (.fin 0) b, x ^ 2 * cgmyDensity c g m y x := by
    cases b with
    | negInf => simp [ExtRat.lt] at hb
    | posInf => simp only [evalCgmyAtom, eSet, Rat.cast_zero]; rw [vp, e]
    | fin b' =>
      have hb' : (0 : ℚ) < b' := by simpa [ExtRat.lt] using hb
      have hbR : (0 : ℝ) ≤ b' := by exact_mod_cast hb'.le
      have h := intervalIntegral_eq_eSet (fun x => x ^ 2 * cgmyDensity c g m y x) 0 b' hb'.le
      simp only [Rat.cast_zero] at h
      rw [← h, integral_cgmy_xx_pos (gl (2 - (y : ℝ))) c g m y hyR hmR.le hgl' h0 hc' b' hbR]
      simp [evalCgmyAtom, cgmyLow, hmR0, e]
  have hL : (c : ℝ) * evalCgmyAtom E1 Gam gl GamC (.lowGam (2 - y) g (ExtRat.neg a))
      = ∫ x in eSet a (.fin 0), x ^ 2 * cgmyDensity c g m y x := by
    cases a with
    | posInf => simp [ExtRat.lt] at ha
    | negInf => simp only [evalCgmyAtom, ExtRat.neg, eSet, Rat.cast_zero]; rw [vn, e]
    | fin a' =>
      have ha' : a' < (0 : ℚ) := by simpa [ExtRat.lt] using ha
      have haR : (a' : ℝ) ≤ 0 := by exact_mod_cast ha'.le
      have h := intervalIntegral_eq_eSet (fun x => x ^ 2 * cgmyDensity c g m y x) a' 0 ha'.le
      simp only [Rat.cast_zero] at h
      rw [← h, integral_cgmy_xx_neg (gl (2 - (y : ℝ))) c g m y hyR hgR.le hgl' h0 hc' a' haR]
      simp [evalCgmyAtom, ExtRat.neg, cgmyLow, hgR0, e]
  rw [hR, hL]; ring

/-- the hypothesis on the incomplete gamma function is satisfiable, for every index a at once -/
theorem Gam_hypothesis_satisfiable :
    ∃ Gam : ℝ → ℝ → ℝ, ∀ a z, 0 < z → HasDerivAt (Gam a) (-(z ^ (1 - a) * exp (-z))) z := by
  refine ⟨fun a z => ∫ t in (1:ℝ)..z, -(t ^ (1 - a) * exp (-t)), fun a z hz => ?_⟩
  have hcont : ContinuousOn (fun t : ℝ => -(t ^ (1 - a) * exp (-t))) (Set.Ioi 0) :=
    (ContinuousOn.mul (continuousOn_id.rpow_const (fun t ht => Or.inl (ne_of_gt ht)))
      (Continuous.continuousOn (by fun_prop))).neg
  have hint : IntervalIntegrable (fun t : ℝ => -(t ^ (1 - a) * exp (-t))) MeasureTheory.volume 1 z := by
    apply ContinuousOn.intervalIntegrable
    apply hcont.mono
    intro t ht
    exact lt_of_lt_of_le (lt_min one_pos hz) ht.1
  exact intervalIntegral.integral_hasDerivAt_right hint
    (hcont.stronglyMeasurableAtFilter isOpen_Ioi z hz) (hcont.continuousAt (Ioi_mem_nhds hz))

/-! ## non-vacuity of the theorems with extended end points / special-function hypotheses -/

example : ∃ ts, xnExpTerms 2 1 .negInf (.fin 1) = some ts ∧
    evalTerms ts = ∫ x in Set.Iic (((1 : ℚ) : ℝ)), x ^ 2 * exp (-(((1 : ℚ) : ℝ) * |x|)) :=
  xn_exp_correct_ext 2 1 (by norm_num) .negInf (.fin 1) (by simp [ELe, ExtRat.le, ExtRat.lt]) ⟨by simp, by simp⟩

example : ∃ ts, hemTerms 1 3 (1 / 2) 10 20 .negInf .posInf = some ts ∧
    evalTerms ts = ∫ x in Set.univ, x ^ 1 * hemDensity ((3 : ℚ) : ℝ) ((1 / 2 : ℚ) : ℝ) ((10 : ℚ) : ℝ) ((20 : ℚ) : ℝ) x :=
  hem_correct_ext 1 (by norm_num) 3 (1 / 2) 10 20 (by norm_num) (by norm_num) .negInf .posInf
    (by simp [ELe, ExtRat.le, ExtRat.lt]) ⟨by simp, by simp⟩

example : ∃ ts, vgXnTerms 5 20 30 3 (.fin (-1)) .posInf = some ts ∧
    evalTerms ts = ∫ x in Set.Ioi (((-1 : ℚ)) : ℝ), x ^ 3 * vgDensity ((5 : ℚ) : ℝ) ((20 : ℚ) : ℝ) ((30 : ℚ) : ℝ) x :=
  vg_xn_correct_ext 2 5 20 30 (by norm_num) (by norm_num) (.fin (-1)) .posInf (by simp [ELe, ExtRat.le, ExtRat.lt])
    ⟨by simp, by simp⟩

example : ∃ erf : ℝ → ℝ, ∃ t, mertonTerms 2 3 (1 / 10) (1 / 5) .negInf (.fin 1) = some t ∧
    evalMerton erf ((1 / 10 : ℚ) : ℝ) ((1 / 5 : ℚ) : ℝ) t
      = ∫ x in Set.Iic (((1 : ℚ)) : ℝ), x ^ 2 * mertonDensity ((3 : ℚ) : ℝ) ((1 / 10 : ℚ) : ℝ) ((1 / 5 : ℚ) : ℝ) x := by
  obtain ⟨erf, h1, h2, h3⟩ := erf_hypotheses_satisfiable
  exact ⟨erf, merton_correct_ext erf h1 h2 h3 2 (by norm_num) 3 (1 / 10) (1 / 5) (by norm_num) .negInf (.fin 1)
    (by simp [ELe, ExtRat.le, ExtRat.lt]) ⟨by simp, by simp⟩⟩

example : ∃ E1 : ℝ → ℝ, ∃ t, vgMassTerms 5 20 30 .negInf (.fin (-1 / 4)) = some t ∧
    evalE1Terms E1 t = ∫ x in Set.Iic (((-1 / 4 : ℚ)) : ℝ), vgDensity ((5 : ℚ) : ℝ) ((20 : ℚ) : ℝ) ((30 : ℚ) : ℝ) x := by
  obtain ⟨E1, h1, h2⟩ := E1_hypotheses_satisfiable
  exact ⟨E1, vg_mass_correct_ext E1 h1 h2 5 20 30 (by norm_num) (by norm_num) (by norm_num) .negInf (.fin (-1 / 4))
    (by simp [ELe, ExtRat.le, ExtRat.lt]) ⟨by simp, by simp⟩ (Or.inr (by simp [ExtRat.lt]; norm_num))⟩

example : ∃ (E1 : ℝ → ℝ) (Gam : ℝ → ℝ → ℝ), ∃ t, cgmyMassTerms 1 5 6 (3 / 2) (.fin (1 / 10)) .posInf = some t ∧
    evalCgmyTerms E1 Gam (fun _ _ => 0) (fun _ => 0) t
      = ∫ x in Set.Ioi (((1 / 10 : ℚ)) : ℝ), cgmyDensity ((1 : ℚ) : ℝ) ((5 : ℚ) : ℝ) ((6 : ℚ) : ℝ) ((3 / 2 : ℚ) : ℝ) x := by
  obtain ⟨E1, h1, h2⟩ := E1_hypotheses_satisfiable
  obtain ⟨Gam, g1, g2⟩ := Gam_hypotheses_satisfiable
  exact ⟨E1, Gam, cgmy_mass_correct_ext E1 Gam _ _ h1 g1 h2 g2 1 5 6 (3 / 2) (by norm_num) (by norm_num) (by norm_num)
    (by norm_num) (.fin (1 / 10)) .posInf (by simp [ELe, ExtRat.le, ExtRat.lt]) ⟨by simp, by simp⟩
    (Or.inl (by simp [ExtRat.lt]))⟩

example : ∃ (E1 : ℝ → ℝ) (Gam : ℝ → ℝ → ℝ), ∃ t, cgmyXTerms 1 5 6 1 .negInf (.fin (-1 / 10)) = some t ∧
    evalCgmyTerms E1 Gam (fun _ _ => 0) (fun _ => 0) t
      = ∫ x in Set.Iic (((-1 / 10 : ℚ)) : ℝ), x ^ 1 * cgmyDensity ((1 : ℚ) : ℝ) ((5 : ℚ) : ℝ) ((6 : ℚ) : ℝ) ((1 : ℚ) : ℝ) x := by
  obtain ⟨E1, h1, h2⟩ := E1_hypotheses_satisfiable
  obtain ⟨Gam, g1, g2⟩ := Gam_hypotheses_satisfiable
  exact ⟨E1, Gam, cgmy_x_correct_ext E1 Gam _ _ h1 g1 h2 g2 1 5 6 1 (by norm_num) (by norm_num) (by norm_num)
    .negInf (.fin (-1 / 10)) (by simp [ELe, ExtRat.le, ExtRat.lt]) ⟨by simp, by simp⟩
    (Or.inr (by simp [ExtRat.lt]; norm_num))⟩

example : ∃ gl : ℝ → ℝ → ℝ, ∃ t, cgmyXXTerms 1 0 6 (1 / 2) (.fin (-1 / 10)) (.fin (1 / 5)) = some t ∧
    evalCgmyTerms (fun _ => 0) (fun _ _ => 0) gl (fun _ => 0) t
      = ∫ x in (((-1 / 10 : ℚ)) : ℝ)..(((1 / 5 : ℚ)) : ℝ),
          x ^ 2 * cgmyDensity ((1 : ℚ) : ℝ) ((0 : ℚ) : ℝ) ((6 : ℚ) : ℝ) ((1 / 2 : ℚ) : ℝ) x := by
  obtain ⟨gl, h1, h2, h3⟩ := gl_hypotheses_satisfiable
  exact ⟨gl, cgmy_xx_correct _ _ gl _ h1 h2 h3 1 0 6 (1 / 2) (by norm_num) (by norm_num) (by norm_num) (-1 / 10) (1 / 5)
    (by norm_num) (by norm_num)⟩

example : ∃ (gl : ℝ → ℝ → ℝ) (GamC : ℝ → ℝ), ∃ t, cgmyXXTerms 1 5 6 (1 / 2) .negInf .posInf = some t ∧
    evalCgmyTerms (fun _ => 0) (fun _ _ => 0) gl GamC t
      = ∫ x in Set.univ, x ^ 2 * cgmyDensity ((1 : ℚ) : ℝ) ((5 : ℚ) : ℝ) ((6 : ℚ) : ℝ) ((1 / 2 : ℚ) : ℝ) x := by
  obtain ⟨gl, GamC, h1, h2, h3, h4⟩ := gl_GamC_hypotheses_satisfiable
  exact ⟨gl, GamC, cgmy_xx_correct_ext _ _ gl GamC h1 h2 h3 h4 1 5 6 (1 / 2) (by norm_num) (by norm_num) (by norm_num)
    .negInf .posInf (by simp [ExtRat.lt]) (by simp [ExtRat.lt])⟩

end Rpylib.Integrals
