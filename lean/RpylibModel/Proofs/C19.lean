/-
C19 — Credit closed forms equal the default-region jump rate of the benchmarked chain.   Property theorems only.
Model: RpylibModel/Model/Credit.lean (+ Model/Cells.lean for the chain's rates, Model/Grid.lean for the credit axis).
Helper lemmas: Proofs/Lemmas/C19Sets.lean, C19Region.lean, C19Legs.lean (the legs as integrals over ℝ); the telescoping / grid-sum lemmas are those of C01.

Quantification: every finitely additive non-negative set function on the subsets of the union of the default
half-spaces (`AdditiveOn`), every family of sets `H i a` (monotone in `a` for the monotonicity statement; the
half-spaces `{x | x i < a}` are an instance); every axis / cell-boundary function / interval or rectangle mass as
in C01 (`AxisOK`, `Between`, `MidIdem`, `IsMass`, `IsBoxMass2/3`; axes of different lengths allowed); thresholds on any cell boundary left of the
origin's cell (`0 < t ≤ o`; the credit grid uses `t = 2`); every `expf : ℚ → ℚ` with the laws named in each statement.
-/
import RpylibModel.Proofs.Lemmas.C19Sets
import RpylibModel.Proofs.Lemmas.C19Region
import RpylibModel.Proofs.Lemmas.C19Legs
import Mathlib.Tactic.FieldSimp
import Mathlib.Algebra.Order.Field.Basic

set_option linter.dupNamespace false
set_option linter.unusedVariables false
set_option linter.unusedSectionVars false

namespace Rpylib.Credit
open Rpylib.Grid Rpylib.Cells Finset

/-! ### the coded θ, written out -/

theorem thetaCopula_one (F : TailFamily) (a : ℚ) (ha : a < 0) : thetaCopula F 1 [a] = .ok (theta1 (F.low 0) a) := by
  have : ¬ (0 ≤ a) := not_le.mpr ha
  simp [thetaCopula, lambdaSum, lambdaEntry, theta1, this, List.range_succ]

theorem thetaCopula_two (F : TailFamily) (a1 a2 : ℚ) (h1 : a1 < 0) (h2 : a2 < 0) :
    thetaCopula F 2 [a1, a2] = .ok (theta2 (F.low 0 a1) (F.low 1 a2) (F.pair 0 1 a1 a2)) := by
  have n1 : ¬ (0 ≤ a1) := not_le.mpr h1
  have n2 : ¬ (0 ≤ a2) := not_le.mpr h2
  simp [thetaCopula, lambdaSum, lambdaEntry, theta2, n1, n2, List.range_succ]
  ring

theorem thetaCopula_three (F : TailFamily) (a1 a2 a3 : ℚ) (h1 : a1 < 0) (h2 : a2 < 0) (h3 : a3 < 0) :
    thetaCopula F 3 [a1, a2, a3] = .ok (theta3 (F.low 0 a1) (F.low 1 a2) (F.low 2 a3) (F.pair 0 1 a1 a2)
      (F.pair 0 2 a1 a3) (F.pair 1 2 a2 a3) (F.triple a1 a2 a3)) := by
  have n1 : ¬ (0 ≤ a1) := not_le.mpr h1
  have n2 : ¬ (0 ≤ a2) := not_le.mpr h2
  have n3 : ¬ (0 ≤ a3) := not_le.mpr h3
  simp [thetaCopula, lambdaSum, lambdaEntry, theta3, n1, n2, n3, List.range_succ]
  ring

/-- the guards of `_theta`: a non-negative level, a wrong number of levels, more than three names are rejected -/
theorem thetaCopula_guards (F : TailFamily) (dim : ℕ) (as : List ℚ) :
    (3 < dim → thetaCopula F dim as = .error .notImplemented) ∧
    (dim ≤ 3 → dim ≠ as.length → thetaCopula F dim as = .error .levelCount) ∧
    (dim ≤ 3 → dim = as.length → (∃ a ∈ as, 0 ≤ a) → thetaCopula F dim as = .error .nonNegativeLevel) := by
  refine ⟨fun h => by simp [thetaCopula, h], fun h1 h2 => ?_, fun h1 h2 h3 => ?_⟩
  · have : ¬ (3 < dim) := by omega
    simp [thetaCopula, this, h2]
  · have : ¬ (3 < dim) := by omega
    obtain ⟨a, ha, ha0⟩ := h3
    have hany : as.any (fun a => decide (0 ≤ a)) = true := List.any_eq_true.mpr ⟨a, ha, by simpa using ha0⟩
    subst h2
    simp only [thetaCopula, gt_iff_lt, this, if_false, ne_eq, not_true_eq_false, hany, if_true]

/-! ### inclusion–exclusion: the coded θ is the mass of the union of the default half-spaces -/

/-- `F` holds the tail integrals of `μ` at the thresholds `as` for the default sets `H i a` ("name i jumps below a"),
    with the sign convention of `levycopulamodel.py:292-325` at negative arguments: the diagonal is the mass of `H i`,
    the pair tail integral `+μ(H i ∩ H j)`, the triple tail integral `−μ(H 0 ∩ H 1 ∩ H 2)`. -/
structure IsTailFamilyOf {α : Type} (F : TailFamily) (μ : Set α → ℚ) (H : ℕ → ℚ → Set α) : Prop where
  low : ∀ i a, F.low i a = μ (H i a)
  pair : ∀ i j a b, F.pair i j a b = μ (H i a ∩ H j b)
  triple : ∀ a b c, F.triple a b c = -μ (H 0 a ∩ H 1 b ∩ H 2 c)

section incl_excl
variable {α : Type} (F : TailFamily) (μ : Set α → ℚ) (H : ℕ → ℚ → Set α) (hF : IsTailFamilyOf F μ H)
include hF

theorem theta_incl_excl_d1 (a : ℚ) (ha : a < 0) : thetaCopula F 1 [a] = .ok (μ (H 0 a)) := by
  rw [thetaCopula_one F a ha, theta1, hF.low]

theorem theta_incl_excl_d2 (a1 a2 : ℚ) (h1 : a1 < 0) (h2 : a2 < 0) (hμ : AdditiveOn μ (H 0 a1 ∪ H 1 a2)) :
    thetaCopula F 2 [a1, a2] = .ok (μ (H 0 a1 ∪ H 1 a2)) := by
  rw [thetaCopula_two F a1 a2 h1 h2, theta2, hF.low, hF.low, hF.pair,
    hμ.union _ _ Set.subset_union_left Set.subset_union_right]

theorem theta_incl_excl_d3 (a1 a2 a3 : ℚ) (h1 : a1 < 0) (h2 : a2 < 0) (h3 : a3 < 0)
    (hμ : AdditiveOn μ (H 0 a1 ∪ H 1 a2 ∪ H 2 a3)) :
    thetaCopula F 3 [a1, a2, a3] = .ok (μ (H 0 a1 ∪ H 1 a2 ∪ H 2 a3)) := by
  rw [thetaCopula_three F a1 a2 a3 h1 h2 h3, theta3, hF.low, hF.low, hF.low, hF.pair, hF.pair, hF.pair, hF.triple,
    hμ.union3 _ _ _ (Set.subset_union_left.trans Set.subset_union_left)
      (Set.subset_union_right.trans Set.subset_union_left) Set.subset_union_right]
  congr 1; ring

/-- **inclusion–exclusion, d = 1, 2, 3**: for every finitely additive `μ` on the subsets of the union of the default
    sets, the coded θ (diagonal − pair tail integrals − signed triple tail integral) is the mass of that union -/
theorem theta_incl_excl :
    (∀ a, a < 0 → thetaCopula F 1 [a] = .ok (μ (H 0 a))) ∧
    (∀ a1 a2, a1 < 0 → a2 < 0 → AdditiveOn μ (H 0 a1 ∪ H 1 a2) →
      thetaCopula F 2 [a1, a2] = .ok (μ (H 0 a1 ∪ H 1 a2))) ∧
    (∀ a1 a2 a3, a1 < 0 → a2 < 0 → a3 < 0 → AdditiveOn μ (H 0 a1 ∪ H 1 a2 ∪ H 2 a3) →
      thetaCopula F 3 [a1, a2, a3] = .ok (μ (H 0 a1 ∪ H 1 a2 ∪ H 2 a3))) :=
  ⟨theta_incl_excl_d1 F μ H hF, theta_incl_excl_d2 F μ H hF, theta_incl_excl_d3 F μ H hF⟩

/-- **θ is increasing in each threshold** (d = 1, 2, 3), for default sets that grow with their threshold and a
    non-negative finitely additive `μ` on the subsets of the larger union -/
theorem theta_monotone (hH : ∀ i a a', a ≤ a' → H i a ⊆ H i a') :
    (∀ a a', a ≤ a' → a' < 0 → AdditiveOn μ (H 0 a') →
      ∃ θ θ', thetaCopula F 1 [a] = .ok θ ∧ thetaCopula F 1 [a'] = .ok θ' ∧ θ ≤ θ') ∧
    (∀ a1 a2 a1' a2', a1 ≤ a1' → a2 ≤ a2' → a1' < 0 → a2' < 0 → AdditiveOn μ (H 0 a1' ∪ H 1 a2') →
      ∃ θ θ', thetaCopula F 2 [a1, a2] = .ok θ ∧ thetaCopula F 2 [a1', a2'] = .ok θ' ∧ θ ≤ θ') ∧
    (∀ a1 a2 a3 a1' a2' a3', a1 ≤ a1' → a2 ≤ a2' → a3 ≤ a3' → a1' < 0 → a2' < 0 → a3' < 0 →
      AdditiveOn μ (H 0 a1' ∪ H 1 a2' ∪ H 2 a3') →
      ∃ θ θ', thetaCopula F 3 [a1, a2, a3] = .ok θ ∧ thetaCopula F 3 [a1', a2', a3'] = .ok θ' ∧ θ ≤ θ') := by
  refine ⟨?_, ?_, ?_⟩
  · intro a a' h hn hμ
    exact ⟨_, _, theta_incl_excl_d1 F μ H hF a (by linarith), theta_incl_excl_d1 F μ H hF a' hn,
      hμ.mono _ _ (hH 0 a a' h) (le_refl _)⟩
  · intro a1 a2 a1' a2' h1 h2 n1 n2 hμ
    have hsub : H 0 a1 ∪ H 1 a2 ⊆ H 0 a1' ∪ H 1 a2' := Set.union_subset_union (hH 0 _ _ h1) (hH 1 _ _ h2)
    exact ⟨_, _, theta_incl_excl_d2 F μ H hF a1 a2 (by linarith) (by linarith) (hμ.mono_set hsub),
      theta_incl_excl_d2 F μ H hF a1' a2' n1 n2 hμ, hμ.mono _ _ hsub (le_refl _)⟩
  · intro a1 a2 a3 a1' a2' a3' h1 h2 h3 n1 n2 n3 hμ
    have hsub : H 0 a1 ∪ H 1 a2 ∪ H 2 a3 ⊆ H 0 a1' ∪ H 1 a2' ∪ H 2 a3' :=
      Set.union_subset_union (Set.union_subset_union (hH 0 _ _ h1) (hH 1 _ _ h2)) (hH 2 _ _ h3)
    exact ⟨_, _, theta_incl_excl_d3 F μ H hF a1 a2 a3 (by linarith) (by linarith) (by linarith) (hμ.mono_set hsub),
      theta_incl_excl_d3 F μ H hF a1' a2' a3' n1 n2 n3 hμ, hμ.mono _ _ hsub (le_refl _)⟩

end incl_excl

/-- the default half-spaces of the jump space `ℕ → ℚ` ("coordinate i of the jump is below a", underlying.py:390,421)
    grow with their threshold: `theta_monotone` applies to them -/
def halfSpace (i : ℕ) (a : ℚ) : Set (ℕ → ℚ) := {x | x i < a}

theorem halfSpace_mono (i : ℕ) (a a' : ℚ) (h : a ≤ a') : halfSpace i a ⊆ halfSpace i a' :=
  fun x hx => lt_of_lt_of_le hx h

/-- a jump lies in the union of the half-spaces iff some name defaults on it -/
theorem mem_union_halfSpace (x : ℕ → ℚ) (a1 a2 a3 : ℚ) :
    x ∈ halfSpace 0 a1 ∪ halfSpace 1 a2 ∪ halfSpace 2 a3 ↔ (x 0 < a1 ∨ x 1 < a2 ∨ x 2 < a3) := by
  simp [halfSpace, or_assoc]

/-! ### one axis: the rate of the states below a threshold placed on a cell boundary -/

section one_axis
variable (mid : ℚ → ℚ → ℚ) (hm : Between mid) (hi : MidIdem mid) (ax : List ℚ) (o : ℕ) (hax : AxisOK ax o)
include hm hi hax

omit hm hi hax in
theorem defaultRegionRate1d_sum (m : ℚ → ℚ → ℚ) (a : ℚ) :
    defaultRegionRate1d mid ax o m a = ∑ k ∈ range ax.length, if pt ax k < a then rate mid ax o m k else 0 := by
  unfold defaultRegionRate1d
  rw [sum_filter_map, sum_map_range]
  simp only [decide_eq_true_eq]

/-- the lower-orthant mass of the chain's truncated measure at a threshold inside `[axis[0], axis[-1]]` is the mass of
    `[axis[0], a]` under the original measure (`TruncatedLevyMeasure.integrate(-inf, a)`) -/
theorem chainLow_at_boundary (m : ℚ → ℚ → ℚ) (t : ℕ) (ht : t ≤ ax.length) :
    theta1 (chainLow ax m) (bnd mid ax.length ax t) = m (pt ax 0) (bnd mid ax.length ax t) := by
  have hn : 0 < ax.length := by have := hax.hi; omega
  have h0 := bnd_mono mid hm hi ax hax.inc 0 t (by omega) ht
  have h1 := bnd_mono mid hm hi ax hax.inc t ax.length ht (le_refl _)
  rw [bnd_zero mid hm hi ax hax.inc hn] at h0
  rw [bnd_last mid hm hi ax hax.inc hn] at h1
  unfold theta1 chainLow truncLow
  rw [max_eq_left h0, min_eq_left h1]

/-- **d = 1**: with the threshold on the boundary below cell `t` (`0 < t ≤ o`), the rates of the chain states whose
    value lies below the threshold add up to the closed-form θ of the truncated model, which is the mass of
    `[axis[0], a]` (telescoping of C01 over the cells `0 … t−1`) -/
theorem region_rate_eq_theta_1d (m : ℚ → ℚ → ℚ) (hM : IsMass m) (t : ℕ) (ht0 : 0 < t) (hto : t ≤ o) :
    defaultRegionRate1d mid ax o (chainMass ax m) (bnd mid ax.length ax t) =
      theta1 (chainLow ax m) (bnd mid ax.length ax t) := by
  have hon : o < ax.length := by have := hax.hi; omega
  have hn : 0 < ax.length := by omega
  have hlo := hax.lo
  have hhi := hax.hi
  rw [chainLow_at_boundary mid hm hi ax o hax m t (by omega), defaultRegionRate1d_sum]
  set f := bnd mid ax.length ax with hf
  have hterm : ∀ k ∈ range ax.length,
      (if pt ax k < f t then rate mid ax o (chainMass ax m) k else 0) = if k < t then m (f k) (f (k + 1)) else 0 := by
    intro k hk
    have hk' := mem_range.mp hk
    have hiff := pt_lt_bnd_iff mid hm hi ax hax.inc t k (by omega) hk'
    by_cases h : k < t
    · rw [if_pos (hiff.mpr h), if_pos h, rate_chainMass mid hm hi ax o hax m k hk']
      unfold rate cellHi
      rw [if_neg (by omega), cellLo_eq_bnd mid _ ax k hk', cellHiN_eq_bnd mid _ ax k hk']
    · rw [if_neg (fun hc => h (hiff.mp hc)), if_neg h]
  rw [sum_congr rfl hterm, sum_range_ite_zero _ t _ (by omega), ← bnd_zero mid hm hi ax hax.inc hn]
  have hmono := bnd_mono mid hm hi ax hax.inc
  apply tele m f 0 t ht0
  intro k hk1 hk2
  exact hM.add _ _ _ (hmono 0 k (by omega) (by omega)) (hmono k (k + 1) (by omega) (by omega))
    (Or.inl (bnd_neg mid hm hi ax hax.inc o hlo hon hax.zero (k + 1) (by omega)))

end one_axis

/-! ### the credit grid puts each threshold exactly on a cell boundary -/

/-- **credit grid** (spatial.py:316-357), 7-point axis: for `l < a < −h < 0 < h < r` the axis satisfies the hypotheses
    of C01 with the origin at index 4, and the boundary between its 2nd and 3rd cell (`bnd … 2`) is exactly `a`;
    so are the symmetric 9-point axes of the n-d branch whenever the mirrored block fits below `r` -/
theorem credit_grid_threshold_on_boundary (l a h r : ℚ) (hla : l < a) (hah : a < -h) (hh : 0 < h) :
    (h < r → AxisOK (creditAxis l a h r false) 4 ∧ bnd amid 7 (creditAxis l a h r false) 2 = a ∧
      (creditAxis l a h r false).length = 7 ∧ truncBox [creditAxis l a h r false] = [(l, r)]) ∧
    (-a + creditEps l a h < r → AxisOK (creditAxis l a h r true) 4 ∧ bnd amid 9 (creditAxis l a h r true) 2 = a ∧
      (creditAxis l a h r true).length = 9 ∧ truncBox [creditAxis l a h r true] = [(l, r)]) := by
  constructor
  · intro hr
    obtain ⟨hs, _, _, _, hmid, _⟩ := creditAxis_wellFormed l a h r hla hah hh hr
    refine ⟨⟨hs, by norm_num, by simp [creditAxis], by simp [creditAxis, pt]⟩, ?_, by simp [creditAxis],
      by simp [truncBox, creditAxis, pt]⟩
    refine Eq.trans ?_ hmid
    simp [bnd, cellLo, leftPoint, pt, creditAxis]
  · intro hr
    obtain ⟨hs, _, hmid⟩ := creditAxis_sym_wellFormed l a h r hla hah hh hr
    refine ⟨⟨hs, by norm_num, by simp [creditAxis], by simp [creditAxis, pt]⟩, ?_, by simp [creditAxis],
      by simp [truncBox, creditAxis, pt]⟩
    refine Eq.trans ?_ hmid
    simp [bnd, cellLo, leftPoint, pt, creditAxis]

/-- the property on the 1-d credit chain as built: the rates of the two states below the threshold add up to
    `ν[l, a]`, the closed-form default intensity of the model truncated to the grid -/
theorem credit_chain_region_rate_1d (l a h r : ℚ) (hla : l < a) (hah : a < -h) (hh : 0 < h) (hr : h < r)
    (m : ℚ → ℚ → ℚ) (hM : IsMass m) :
    defaultRegionRate1d amid (creditAxis l a h r false) 4 (chainMass (creditAxis l a h r false) m) a =
      theta1 (chainLow (creditAxis l a h r false) m) a ∧
    theta1 (chainLow (creditAxis l a h r false) m) a = m l a := by
  obtain ⟨hax, hb, hlen, _⟩ := (credit_grid_threshold_on_boundary l a h r hla hah hh).1 hr
  have h1 := region_rate_eq_theta_1d amid amid_between amid_idem _ 4 hax m hM 2 (by norm_num) (by norm_num)
  have h2 := chainLow_at_boundary amid amid_between amid_idem _ 4 hax m 2 (by rw [hlen]; norm_num)
  rw [hlen, hb] at h1 h2
  refine ⟨h1, ?_⟩
  rw [h2]; simp [creditAxis, pt]

/-! ### d = 2: default region of the product grid -/

theorem isDefault_two (ax1 ax2 : List ℚ) (a1 a2 : ℚ) (i j : ℕ) :
    isDefault [ax1, ax2] [a1, a2] [i, j] = (decide (pt ax1 i < a1) || decide (pt ax2 j < a2)) := by
  simp [isDefault]

theorem defaultRegionRate_two_sum (mid : ℚ → ℚ → ℚ) (ax1 ax2 : List ℚ) (o : ℕ) (m : Box → ℚ) (a1 a2 : ℚ) :
    defaultRegionRate mid [ax1, ax2] o m [a1, a2] =
      ∑ i ∈ range ax1.length, ∑ j ∈ range ax2.length,
        if pt ax1 i < a1 ∨ pt ax2 j < a2 then rateNd mid [ax1, ax2] o m [i, j] else 0 := by
  unfold defaultRegionRate states
  simp only [List.map_cons, List.map_nil]
  rw [sum_filter_map, sum_states_2d]
  apply sum_congr rfl; intro i _
  apply sum_congr rfl; intro j _
  rw [isDefault_two]
  simp only [Bool.or_eq_true, decide_eq_true_eq]

section two_axes
variable (mid : ℚ → ℚ → ℚ) (hm : Between mid) (hi : MidIdem mid) (ax1 ax2 : List ℚ) (o : ℕ)
  (hax1 : AxisOK ax1 o) (hax2 : AxisOK ax2 o)
  (m : ℚ → ℚ → ℚ → ℚ → ℚ) (hM : IsBoxMass2 m)
include hm hi hax1 hax2 hM

/-- the default region `{i < t1} ∪ {j < t2}` is the disjoint union of the blocks `[0,t1) × all` and
    `[t1,n1) × [0,t2)`; each carries the mass of its hull (grid-sum lemma of C01) -/
theorem region_rate_2d_blocks (t1 t2 : ℕ) (h1 : 0 < t1) (h1o : t1 ≤ o) (h2 : 0 < t2) (h2o : t2 ≤ o) :
    let f := bnd mid ax1.length ax1
    let g := bnd mid ax2.length ax2
    defaultRegionRate mid [ax1, ax2] o (box2 m) [f t1, g t2] =
      m (f 0) (f t1) (g 0) (g ax2.length) + m (f t1) (f ax1.length) (g 0) (g t2) := by
  intro f g
  have hon1 : o < ax1.length := by have := hax1.hi; omega
  have hon2 : o < ax2.length := by have := hax2.hi; omega
  rw [defaultRegionRate_two_sum]
  have hterm : ∀ i ∈ range ax1.length, (∑ j ∈ range ax2.length,
        if pt ax1 i < f t1 ∨ pt ax2 j < g t2 then rateNd mid [ax1, ax2] o (box2 m) [i, j] else 0) =
      if i < t1 then ∑ j ∈ Ico 0 ax2.length, rateNd mid [ax1, ax2] o (box2 m) [i, j]
      else ∑ j ∈ Ico 0 t2, rateNd mid [ax1, ax2] o (box2 m) [i, j] := by
    intro i hi'
    have hi'' := mem_range.mp hi'
    have hiff1 := pt_lt_bnd_iff mid hm hi ax1 hax1.inc t1 i (by omega) hi''
    by_cases h : i < t1
    · rw [if_pos h, range_eq_Ico]
      apply sum_congr rfl; intro j _
      rw [if_pos (Or.inl (hiff1.mpr h))]
    · rw [if_neg h, ← sum_range_ite_zero _ t2 ax2.length (by omega)]
      apply sum_congr rfl; intro j hj
      have hiff2 := pt_lt_bnd_iff mid hm hi ax2 hax2.inc t2 j (by omega) (mem_range.mp hj)
      by_cases h' : j < t2
      · rw [if_pos (Or.inr (hiff2.mpr h')), if_pos h']
      · rw [if_neg (by rintro (hc | hc); exact h (hiff1.mp hc); exact h' (hiff2.mp hc)), if_neg h']
  rw [sum_congr rfl hterm, sum_range_ite _ _ t1 _ (by omega)]
  have B := block_sum_2d mid hm hi ax1 ax2 o hax1 hax2 m hM
  rw [B 0 t1 0 ax2.length h1 (by omega) (by omega) (le_refl _) (Or.inl (by omega)),
    B t1 ax1.length 0 t2 (by omega) (le_refl _) h2 (by omega) (Or.inr (by omega))]

/-- the coded closed form on the measure restricted to the truncation box, at thresholds on cell boundaries -/
theorem thetaClipped_two (t1 t2 : ℕ) (h1o : t1 ≤ o) (h2o : t2 ≤ o) :
    let f := bnd mid ax1.length ax1
    let g := bnd mid ax2.length ax2
    thetaClipped (box2 m) [ax1, ax2] [f t1, g t2] =
      .ok (theta2 (m (f 0) (f t1) (g 0) (g ax2.length)) (m (f 0) (f ax1.length) (g 0) (g t2))
        (m (f 0) (f t1) (g 0) (g t2))) := by
  intro f g
  have hon1 : o < ax1.length := by have := hax1.hi; omega
  have hon2 : o < ax2.length := by have := hax2.hi; omega
  have hn1 : 0 < ax1.length := by omega
  have hn2 : 0 < ax2.length := by omega
  have n1 : f t1 < 0 := bnd_neg mid hm hi ax1 hax1.inc o hax1.lo hon1 hax1.zero t1 h1o
  have n2 : g t2 < 0 := bnd_neg mid hm hi ax2 hax2.inc o hax2.lo hon2 hax2.zero t2 h2o
  have b1 := bnd_zero mid hm hi ax1 hax1.inc hn1
  have b2 := bnd_last mid hm hi ax1 hax1.inc hn1
  have b3 := bnd_zero mid hm hi ax2 hax2.inc hn2
  have b4 := bnd_last mid hm hi ax2 hax2.inc hn2
  unfold thetaClipped
  simp only [List.length_cons, List.length_nil]
  rw [thetaCopula_two _ _ _ n1 n2]
  simp only [boxFamily, setHi, truncBox, box2, List.map_cons, List.map_nil, List.set_cons_zero, List.set_cons_succ,
    List.getD_cons_zero, List.getD_cons_succ]
  rw [← b1, ← b2, ← b3, ← b4]

/-- **d = 2**: thresholds on cell boundaries ⇒ the total rate of the chain states with at least one coordinate below
    its threshold equals the closed-form default intensity of the model restricted to the grid's truncation box -/
theorem region_rate_eq_theta_2d (t1 t2 : ℕ) (h1 : 0 < t1) (h1o : t1 ≤ o) (h2 : 0 < t2) (h2o : t2 ≤ o) :
    thetaClipped (box2 m) [ax1, ax2] [bnd mid ax1.length ax1 t1, bnd mid ax2.length ax2 t2] =
      .ok (defaultRegionRate mid [ax1, ax2] o (box2 m) [bnd mid ax1.length ax1 t1, bnd mid ax2.length ax2 t2]) := by
  have hon1 : o < ax1.length := by have := hax1.hi; omega
  have hon2 : o < ax2.length := by have := hax2.hi; omega
  rw [thetaClipped_two mid hm hi ax1 ax2 o hax1 hax2 m hM t1 t2 h1o h2o,
    region_rate_2d_blocks mid hm hi ax1 ax2 o hax1 hax2 m hM t1 t2 h1 h1o h2 h2o]
  congr 1
  have mf := bnd_mono mid hm hi ax1 hax1.inc
  have mg := bnd_mono mid hm hi ax2 hax2.inc
  have hz := bnd_ne_zero mid hm hi ax1 o hax1 t1 (by omega)
  have ha2 := range_away mid hm hi ax2 o hax2 0 t2 (by omega) (by omega)
  have := hM.add1 _ (bnd mid ax1.length ax1 t1) (bnd mid ax1.length ax1 ax1.length) (bnd mid ax2.length ax2 0)
    (bnd mid ax2.length ax2 t2) (mf 0 t1 (by omega) (by omega)) (mf t1 _ (by omega) (le_refl _))
    (mg 0 t2 (by omega) (by omega)) hz (Or.inr ha2)
  unfold theta2
  rw [this]; ring

end two_axes

/-! ### d = 3 -/

theorem defaultRegionRate_three_sum (mid : ℚ → ℚ → ℚ) (ax1 ax2 ax3 : List ℚ) (o : ℕ) (m : Box → ℚ) (a1 a2 a3 : ℚ) :
    defaultRegionRate mid [ax1, ax2, ax3] o m [a1, a2, a3] =
      ∑ i ∈ range ax1.length, ∑ j ∈ range ax2.length, ∑ k ∈ range ax3.length,
        if pt ax1 i < a1 ∨ pt ax2 j < a2 ∨ pt ax3 k < a3 then rateNd mid [ax1, ax2, ax3] o m [i, j, k] else 0 := by
  unfold defaultRegionRate states
  simp only [List.map_cons, List.map_nil]
  rw [sum_filter_map, sum_states_3d]
  apply sum_congr rfl; intro i _
  apply sum_congr rfl; intro j _
  apply sum_congr rfl; intro k _
  simp [isDefault]

section three_axes
variable (mid : ℚ → ℚ → ℚ) (hm : Between mid) (hi : MidIdem mid) (ax1 ax2 ax3 : List ℚ) (o : ℕ)
  (hax1 : AxisOK ax1 o) (hax2 : AxisOK ax2 o) (hax3 : AxisOK ax3 o)
  (m : ℚ → ℚ → ℚ → ℚ → ℚ → ℚ → ℚ) (hM : IsBoxMass3 m)
include hm hi hax1 hax2 hax3 hM

/-- the default region `{i < t1} ∪ {j < t2} ∪ {k < t3}` as three disjoint blocks -/
theorem region_rate_3d_blocks (t1 t2 t3 : ℕ) (h1 : 0 < t1) (h1o : t1 ≤ o) (h2 : 0 < t2) (h2o : t2 ≤ o)
    (h3 : 0 < t3) (h3o : t3 ≤ o) :
    let f := bnd mid ax1.length ax1
    let g := bnd mid ax2.length ax2
    let h := bnd mid ax3.length ax3
    defaultRegionRate mid [ax1, ax2, ax3] o (box3 m) [f t1, g t2, h t3] =
      m (f 0) (f t1) (g 0) (g ax2.length) (h 0) (h ax3.length) +
        m (f t1) (f ax1.length) (g 0) (g t2) (h 0) (h ax3.length) +
        m (f t1) (f ax1.length) (g t2) (g ax2.length) (h 0) (h t3) := by
  intro f g h
  have hon1 : o < ax1.length := by have := hax1.hi; omega
  have hon2 : o < ax2.length := by have := hax2.hi; omega
  have hon3 : o < ax3.length := by have := hax3.hi; omega
  rw [defaultRegionRate_three_sum]
  set R := fun i j k => rateNd mid [ax1, ax2, ax3] o (box3 m) [i, j, k] with hR
  have hterm : ∀ i ∈ range ax1.length, (∑ j ∈ range ax2.length, ∑ k ∈ range ax3.length,
        if pt ax1 i < f t1 ∨ pt ax2 j < g t2 ∨ pt ax3 k < h t3 then R i j k else 0) =
      if i < t1 then ∑ j ∈ Ico 0 ax2.length, ∑ k ∈ Ico 0 ax3.length, R i j k
      else ∑ j ∈ range ax2.length,
        if j < t2 then ∑ k ∈ Ico 0 ax3.length, R i j k else ∑ k ∈ Ico 0 t3, R i j k := by
    intro i hi'
    have hiff1 := pt_lt_bnd_iff mid hm hi ax1 hax1.inc t1 i (by omega) (mem_range.mp hi')
    by_cases c1 : i < t1
    · rw [if_pos c1, range_eq_Ico, range_eq_Ico]
      apply sum_congr rfl; intro j _
      apply sum_congr rfl; intro k _
      rw [if_pos (Or.inl (hiff1.mpr c1))]
    · rw [if_neg c1]
      apply sum_congr rfl; intro j hj
      have hiff2 := pt_lt_bnd_iff mid hm hi ax2 hax2.inc t2 j (by omega) (mem_range.mp hj)
      by_cases c2 : j < t2
      · rw [if_pos c2, range_eq_Ico]
        apply sum_congr rfl; intro k _
        rw [if_pos (Or.inr (Or.inl (hiff2.mpr c2)))]
      · rw [if_neg c2, ← sum_range_ite_zero _ t3 ax3.length (by omega)]
        apply sum_congr rfl; intro k hk
        have hiff3 := pt_lt_bnd_iff mid hm hi ax3 hax3.inc t3 k (by omega) (mem_range.mp hk)
        by_cases c3 : k < t3
        · rw [if_pos (Or.inr (Or.inr (hiff3.mpr c3))), if_pos c3]
        · rw [if_neg (by rintro (hc | hc | hc); exact c1 (hiff1.mp hc); exact c2 (hiff2.mp hc); exact c3 (hiff3.mp hc)),
            if_neg c3]
  rw [sum_congr rfl hterm, sum_range_ite _ _ t1 _ (by omega)]
  have hinner : ∀ i ∈ Ico t1 ax1.length, (∑ j ∈ range ax2.length,
        if j < t2 then ∑ k ∈ Ico 0 ax3.length, R i j k else ∑ k ∈ Ico 0 t3, R i j k) =
      ∑ j ∈ Ico 0 t2, ∑ k ∈ Ico 0 ax3.length, R i j k + ∑ j ∈ Ico t2 ax2.length, ∑ k ∈ Ico 0 t3, R i j k := by
    intro i _
    exact sum_range_ite _ _ t2 _ (by omega)
  rw [sum_congr rfl hinner, sum_add_distrib]
  have B := block_sum_3d mid hm hi ax1 ax2 ax3 o hax1 hax2 hax3 m hM
  rw [B 0 t1 0 ax2.length 0 ax3.length h1 (by omega) (by omega) (le_refl _) (by omega) (le_refl _) (Or.inl (by omega)),
    B t1 ax1.length 0 t2 0 ax3.length (by omega) (le_refl _) h2 (by omega) (by omega) (le_refl _)
      (Or.inr (Or.inl (by omega))),
    B t1 ax1.length t2 ax2.length 0 t3 (by omega) (le_refl _) (by omega) (le_refl _) h3 (by omega)
      (Or.inr (Or.inr (by omega)))]
  ring

/-- the coded closed form (with its signed triple tail integral) on the measure restricted to the truncation box -/
theorem thetaClipped_three (t1 t2 t3 : ℕ) (h1o : t1 ≤ o) (h2o : t2 ≤ o) (h3o : t3 ≤ o) :
    let f := bnd mid ax1.length ax1
    let g := bnd mid ax2.length ax2
    let h := bnd mid ax3.length ax3
    let n1 := ax1.length
    let n2 := ax2.length
    let n3 := ax3.length
    thetaClipped (box3 m) [ax1, ax2, ax3] [f t1, g t2, h t3] =
      .ok (theta3 (m (f 0) (f t1) (g 0) (g n2) (h 0) (h n3)) (m (f 0) (f n1) (g 0) (g t2) (h 0) (h n3))
        (m (f 0) (f n1) (g 0) (g n2) (h 0) (h t3)) (m (f 0) (f t1) (g 0) (g t2) (h 0) (h n3))
        (m (f 0) (f t1) (g 0) (g n2) (h 0) (h t3)) (m (f 0) (f n1) (g 0) (g t2) (h 0) (h t3))
        (-(m (f 0) (f t1) (g 0) (g t2) (h 0) (h t3)))) := by
  intro f g h n1' n2' n3'
  have hon1 : o < ax1.length := by have := hax1.hi; omega
  have hon2 : o < ax2.length := by have := hax2.hi; omega
  have hon3 : o < ax3.length := by have := hax3.hi; omega
  have hn1 : 0 < ax1.length := by omega
  have hn2 : 0 < ax2.length := by omega
  have hn3 : 0 < ax3.length := by omega
  have n1 : f t1 < 0 := bnd_neg mid hm hi ax1 hax1.inc o hax1.lo hon1 hax1.zero t1 h1o
  have n2 : g t2 < 0 := bnd_neg mid hm hi ax2 hax2.inc o hax2.lo hon2 hax2.zero t2 h2o
  have n3 : h t3 < 0 := bnd_neg mid hm hi ax3 hax3.inc o hax3.lo hon3 hax3.zero t3 h3o
  have b1 := bnd_zero mid hm hi ax1 hax1.inc hn1
  have b2 := bnd_last mid hm hi ax1 hax1.inc hn1
  have b3 := bnd_zero mid hm hi ax2 hax2.inc hn2
  have b4 := bnd_last mid hm hi ax2 hax2.inc hn2
  have b5 := bnd_zero mid hm hi ax3 hax3.inc hn3
  have b6 := bnd_last mid hm hi ax3 hax3.inc hn3
  unfold thetaClipped
  simp only [List.length_cons, List.length_nil]
  rw [thetaCopula_three _ _ _ _ n1 n2 n3]
  simp only [boxFamily, setHi, truncBox, box3, List.map_cons, List.map_nil, List.set_cons_zero, List.set_cons_succ,
    List.getD_cons_zero, List.getD_cons_succ]
  rw [← b1, ← b2, ← b3, ← b4, ← b5, ← b6]

/-- **d = 3**: thresholds on cell boundaries ⇒ the total rate of the chain states with at least one coordinate below
    its threshold equals the closed-form default intensity (pair and triple terms included) of the model restricted
    to the grid's truncation box -/
theorem region_rate_eq_theta_3d (t1 t2 t3 : ℕ) (h1 : 0 < t1) (h1o : t1 ≤ o) (h2 : 0 < t2) (h2o : t2 ≤ o)
    (h3 : 0 < t3) (h3o : t3 ≤ o) :
    thetaClipped (box3 m) [ax1, ax2, ax3]
        [bnd mid ax1.length ax1 t1, bnd mid ax2.length ax2 t2, bnd mid ax3.length ax3 t3] =
      .ok (defaultRegionRate mid [ax1, ax2, ax3] o (box3 m)
        [bnd mid ax1.length ax1 t1, bnd mid ax2.length ax2 t2, bnd mid ax3.length ax3 t3]) := by
  have hon1 : o < ax1.length := by have := hax1.hi; omega
  have hon2 : o < ax2.length := by have := hax2.hi; omega
  have hon3 : o < ax3.length := by have := hax3.hi; omega
  rw [thetaClipped_three mid hm hi ax1 ax2 ax3 o hax1 hax2 hax3 m hM t1 t2 t3 h1o h2o h3o,
    region_rate_3d_blocks mid hm hi ax1 ax2 ax3 o hax1 hax2 hax3 m hM t1 t2 t3 h1 h1o h2 h2o h3 h3o]
  congr 1
  have mf := bnd_mono mid hm hi ax1 hax1.inc
  have mg := bnd_mono mid hm hi ax2 hax2.inc
  have mh := bnd_mono mid hm hi ax3 hax3.inc
  have hz1 := bnd_ne_zero mid hm hi ax1 o hax1 t1 (by omega)
  have hz2 := bnd_ne_zero mid hm hi ax2 o hax2 t2 (by omega)
  have ha2 := range_away mid hm hi ax2 o hax2 0 t2 (by omega) (by omega)
  have ha3 := range_away mid hm hi ax3 o hax3 0 t3 (by omega) (by omega)
  set f := bnd mid ax1.length ax1
  set g := bnd mid ax2.length ax2
  set h := bnd mid ax3.length ax3
  have f01 := mf 0 t1 (by omega) (by omega)
  have f1n := mf t1 ax1.length (by omega) (le_refl _)
  have g02 := mg 0 t2 (by omega) (by omega)
  have g2n := mg t2 ax2.length (by omega) (le_refl _)
  have g0n := mg 0 ax2.length (by omega) (le_refl _)
  have h03 := mh 0 t3 (by omega) (by omega)
  have h0n := mh 0 ax3.length (by omega) (le_refl _)
  -- H2 = H12 + B2,  H3 = H13 + (X + B3),  H23 = H123 + X
  have A := hM.add1 (f 0) (f t1) (f ax1.length) (g 0) (g t2) (h 0) (h ax3.length) f01 f1n g02 h0n hz1
    (Or.inr (Or.inl ha2))
  have Bq := hM.add1 (f 0) (f t1) (f ax1.length) (g 0) (g ax2.length) (h 0) (h t3) f01 f1n g0n h03 hz1
    (Or.inr (Or.inr ha3))
  have C := hM.add2 (f t1) (f ax1.length) (g 0) (g t2) (g ax2.length) (h 0) (h t3) f1n g02 g2n h03 hz2
    (Or.inr (Or.inr ha3))
  have D := hM.add1 (f 0) (f t1) (f ax1.length) (g 0) (g t2) (h 0) (h t3) f01 f1n g02 h03 hz1
    (Or.inr (Or.inr ha3))
  unfold theta3
  linarith

end three_axes

/-! ### the benchmarked chains: credit grids in two and three dimensions -/

/-- the constructor's situation: `l < a < −h < 0 < h`, and the right end beyond the last inner point -/
def CreditOK (l a h r : ℚ) (sym : Bool) : Prop :=
  l < a ∧ a < -h ∧ 0 < h ∧ (if sym then -a + creditEps l a h < r else h < r)

theorem creditAxis_ok (l a h r : ℚ) (sym : Bool) (hc : CreditOK l a h r sym) :
    AxisOK (creditAxis l a h r sym) 4 ∧
    bnd amid (creditAxis l a h r sym).length (creditAxis l a h r sym) 2 = a ∧
    (creditAxis l a h r sym).length = (if sym then 9 else 7) ∧
    truncBox [creditAxis l a h r sym] = [(l, r)] := by
  obtain ⟨hla, hah, hh, hr⟩ := hc
  cases sym with
  | false =>
    obtain ⟨h1, h2, h3, h4⟩ := (credit_grid_threshold_on_boundary l a h r hla hah hh).1 (by simpa using hr)
    exact ⟨h1, by rw [h3]; exact h2, by simp [h3], h4⟩
  | true =>
    obtain ⟨h1, h2, h3, h4⟩ := (credit_grid_threshold_on_boundary l a h r hla hah hh).2 (by simpa using hr)
    exact ⟨h1, by rw [h3]; exact h2, by simp [h3], h4⟩

/-- **the 2-d credit chain as built** (common truncation `(l, r)`, one threshold per axis, symmetric or not) -/
theorem credit_chain_region_rate_2d (l h r a1 a2 : ℚ) (sym : Bool) (c1 : CreditOK l a1 h r sym)
    (c2 : CreditOK l a2 h r sym) (m : ℚ → ℚ → ℚ → ℚ → ℚ) (hM : IsBoxMass2 m) :
    thetaClipped (box2 m) [creditAxis l a1 h r sym, creditAxis l a2 h r sym] [a1, a2] =
      .ok (defaultRegionRate amid [creditAxis l a1 h r sym, creditAxis l a2 h r sym] 4 (box2 m) [a1, a2]) := by
  obtain ⟨x1, b1, _, _⟩ := creditAxis_ok l a1 h r sym c1
  obtain ⟨x2, b2, _, _⟩ := creditAxis_ok l a2 h r sym c2
  have := region_rate_eq_theta_2d amid amid_between amid_idem _ _ 4 x1 x2 m hM 2 2 (by norm_num) (by norm_num)
    (by norm_num) (by norm_num)
  rw [b1, b2] at this
  exact this

/-- **the 3-d credit chain as built** -/
theorem credit_chain_region_rate_3d (l h r a1 a2 a3 : ℚ) (sym : Bool) (c1 : CreditOK l a1 h r sym)
    (c2 : CreditOK l a2 h r sym) (c3 : CreditOK l a3 h r sym) (m : ℚ → ℚ → ℚ → ℚ → ℚ → ℚ → ℚ) (hM : IsBoxMass3 m) :
    thetaClipped (box3 m) [creditAxis l a1 h r sym, creditAxis l a2 h r sym, creditAxis l a3 h r sym] [a1, a2, a3] =
      .ok (defaultRegionRate amid [creditAxis l a1 h r sym, creditAxis l a2 h r sym, creditAxis l a3 h r sym] 4
        (box3 m) [a1, a2, a3]) := by
  obtain ⟨x1, b1, _, _⟩ := creditAxis_ok l a1 h r sym c1
  obtain ⟨x2, b2, _, _⟩ := creditAxis_ok l a2 h r sym c2
  obtain ⟨x3, b3, _, _⟩ := creditAxis_ok l a3 h r sym c3
  have := region_rate_eq_theta_3d amid amid_between amid_idem _ _ _ 4 x1 x2 x3 m hM 2 2 2
    (by norm_num) (by norm_num) (by norm_num) (by norm_num) (by norm_num) (by norm_num)
  rw [b1, b2, b3] at this
  exact this

/-! ### survival probability, par spread, implied spread, implied threshold: the stated functions of θ, and inverses -/

/-- the par spread makes the present value vanish: `default_leg = (1−R)·θ·fixed_leg` -/
theorem presentValue_parSpread (E θ r R : ℚ) (h : r + θ ≠ 0) : presentValue E θ r R (parSpread θ R) = 0 := by
  unfold presentValue defaultLeg fixedLeg parSpread
  field_simp
  ring

/-- the function handed to `brentq` is affine in the spread with slope `−fixed_leg` -/
theorem spreadResidual_affine (E θ r R pv s : ℚ) (hF : fixedLeg E θ r ≠ 0) :
    spreadResidual E θ r R pv s = ((defaultLeg E θ r R - pv) / fixedLeg E θ r - s) * fixedLeg E θ r := by
  unfold spreadResidual presentValue
  field_simp
  ring

/-- what `implied_cds_spread` returns: the unique root, provided it lies in the bracket (else `brentq` raises) -/
theorem impliedSpread_eq_some_iff (E θ r R pv lo hi s : ℚ) (hF : fixedLeg E θ r ≠ 0) (hlh : lo ≤ hi) :
    impliedSpread E θ r R pv lo hi = some s ↔
      (s = (defaultLeg E θ r R - pv) / fixedLeg E θ r ∧ lo ≤ s ∧ s ≤ hi) := by
  unfold impliedSpread
  rw [spreadResidual_affine E θ r R pv lo hF, spreadResidual_affine E θ r R pv hi hF]
  set root := (defaultLeg E θ r R - pv) / fixedLeg E θ r with hroot
  set F := fixedLeg E θ r with hFdef
  have hF2 : 0 < F * F := mul_self_pos.mpr hF
  have hprod : (root - lo) * F * ((root - hi) * F) = (root - lo) * (root - hi) * (F * F) := by ring
  rw [hprod]
  by_cases hp : 0 < (root - lo) * (root - hi) * (F * F)
  · rw [if_pos hp]
    constructor
    · intro h; exact absurd h (by simp)
    · rintro ⟨hs, h1, h2⟩
      rw [hs] at h1 h2
      have : (root - lo) * (root - hi) ≤ 0 := mul_nonpos_of_nonneg_of_nonpos (by linarith) (by linarith)
      have := mul_nonpos_of_nonpos_of_nonneg this (le_of_lt hF2)
      linarith
  · rw [if_neg hp]
    have hq : (root - lo) * (root - hi) ≤ 0 := by
      by_contra hc
      exact hp (mul_pos (not_le.mp hc) hF2)
    have h1 : lo ≤ root := by
      by_contra hc
      have : 0 < (root - lo) * (root - hi) := mul_pos_of_neg_of_neg (by linarith) (by linarith)
      linarith
    have h2 : root ≤ hi := by
      by_contra hc
      have : 0 < (root - lo) * (root - hi) := mul_pos (by linarith) (by linarith)
      linarith
    constructor
    · intro h
      have : root = s := by simpa using h
      subst this; exact ⟨rfl, h1, h2⟩
    · rintro ⟨hs, _, _⟩; rw [hs]

/-- `brentq` raises exactly when the root lies outside the bracket -/
theorem impliedSpread_eq_none_iff (E θ r R pv lo hi : ℚ) (hF : fixedLeg E θ r ≠ 0) (hlh : lo ≤ hi) :
    impliedSpread E θ r R pv lo hi = none ↔
      ((defaultLeg E θ r R - pv) / fixedLeg E θ r < lo ∨ hi < (defaultLeg E θ r R - pv) / fixedLeg E θ r) := by
  have h := impliedSpread_eq_some_iff E θ r R pv lo hi ((defaultLeg E θ r R - pv) / fixedLeg E θ r) hF hlh
  constructor
  · intro hn
    by_contra hc
    rw [not_or, not_lt, not_lt] at hc
    have := h.mpr ⟨rfl, hc.1, hc.2⟩
    rw [hn] at this; exact absurd this (by simp)
  · intro ho
    cases hs : impliedSpread E θ r R pv lo hi with
    | none => rfl
    | some s =>
      have := (impliedSpread_eq_some_iff E θ r R pv lo hi s hF hlh).mp hs
      obtain ⟨rfl, h1, h2⟩ := this
      rcases ho with ho | ho <;> linarith

/-- `fixed_leg > 0` for a strictly increasing `exp` with `exp 0 = 1`, a positive hazard-plus-discount rate and a
    positive maturity — the hypothesis `fixedLeg ≠ 0` of the statements above is met by every real input -/
theorem fixedLeg_pos (expf : ℚ → ℚ) (hmono : StrictMono expf) (h0 : expf 0 = 1) (θ r T : ℚ) (hr : 0 < r + θ)
    (hT : 0 < T) : 0 < fixedLeg (discount expf θ r T) θ r := by
  unfold fixedLeg discount
  have : expf (-(r + θ) * T) < 1 := by
    rw [← h0]; apply hmono
    have := mul_pos hr hT
    linarith
  exact div_pos (by linarith) hr

/-- **spread ↔ present value, spread ↔ threshold, survival ↔ θ: the maps are the stated functions of θ and invert each
    other.**  (1) the par spread `(1−R)θ` is the spread of zero present value; (2) implied spread of the present value
    of `s` is `s`; (3) present value at the implied spread of `pv` is `pv`; (4) the implied spread of a zero present
    value is the par spread; (5) a threshold is implied by its own CDS spread, (6) and for a strictly increasing
    lower-tail mass it is the only one in the bracket; (7) θ is recovered from the par spread; (8) the survival
    probability is a strictly decreasing (hence injective) function of θ for `t > 0`. -/
theorem spread_maps_inverse :
    (∀ E θ r R : ℚ, r + θ ≠ 0 → presentValue E θ r R (parSpread θ R) = 0) ∧
    (∀ E θ r R s lo hi : ℚ, fixedLeg E θ r ≠ 0 → lo ≤ s → s ≤ hi →
      impliedSpread E θ r R (presentValue E θ r R s) lo hi = some s) ∧
    (∀ E θ r R pv lo hi s : ℚ, fixedLeg E θ r ≠ 0 → lo ≤ hi → impliedSpread E θ r R pv lo hi = some s →
      presentValue E θ r R s = pv) ∧
    (∀ E θ r R lo hi : ℚ, fixedLeg E θ r ≠ 0 → r + θ ≠ 0 → lo ≤ parSpread θ R → parSpread θ R ≤ hi →
      impliedSpread E θ r R 0 lo hi = some (parSpread θ R)) ∧
    (∀ (low : ℚ → ℚ) (R h0 a : ℚ), -10 ≤ a → a ≤ -h0 → IsImpliedThreshold low R (parSpread (theta1 low a) R) h0 a) ∧
    (∀ (low : ℚ → ℚ) (R h0 a a' : ℚ), R ≠ 1 →
      (∀ x y, -10 ≤ x → x < y → y ≤ -h0 → low x < low y) → -10 ≤ a → a ≤ -h0 →
      IsImpliedThreshold low R (parSpread (theta1 low a) R) h0 a' → a' = a) ∧
    (∀ θ R : ℚ, R ≠ 1 → parSpread θ R / (1 - R) = θ) ∧
    (∀ (expf : ℚ → ℚ), StrictMono expf → ∀ θ θ' t : ℚ, 0 < t → θ < θ' →
      survival expf θ' t < survival expf θ t) := by
  refine ⟨presentValue_parSpread, ?_, ?_, ?_, ?_, ?_, ?_, ?_⟩
  · intro E θ r R s lo hi hF h1 h2
    rw [impliedSpread_eq_some_iff E θ r R _ lo hi s hF (le_trans h1 h2)]
    refine ⟨?_, h1, h2⟩
    unfold presentValue; field_simp; ring
  · intro E θ r R pv lo hi s hF hlh h
    obtain ⟨rfl, _, _⟩ := (impliedSpread_eq_some_iff E θ r R pv lo hi s hF hlh).mp h
    unfold presentValue; field_simp; ring
  · intro E θ r R lo hi hF hr h1 h2
    rw [impliedSpread_eq_some_iff E θ r R 0 lo hi _ hF (le_trans h1 h2)]
    refine ⟨?_, h1, h2⟩
    have := presentValue_parSpread E θ r R hr
    unfold presentValue at this
    field_simp
    linarith
  · intro low R h0 a h1 h2
    exact ⟨h1, h2, by unfold thresholdResidual; ring⟩
  · intro low R h0 a a' hR hmono h1 h2 ⟨g1, g2, g3⟩
    unfold thresholdResidual parSpread theta1 at g3
    have hR' : (1 - R) ≠ 0 := sub_ne_zero.mpr (Ne.symm hR)
    have : low a' = low a := by
      have : (1 - R) * (low a' - low a) = 0 := by linarith
      rcases mul_eq_zero.mp this with h | h
      · exact absurd h hR'
      · linarith
    rcases lt_trichotomy a' a with h | h | h
    · have := hmono a' a g1 h h2; linarith
    · exact h
    · have := hmono a a' h1 h g2; linarith
  · intro θ R hR
    have hR' : (1 - R) ≠ 0 := sub_ne_zero.mpr (Ne.symm hR)
    unfold parSpread; field_simp
  · intro expf hmono θ θ' t ht hθ
    unfold survival
    apply hmono
    have := mul_lt_mul_of_pos_left hθ ht
    linarith

/-- survival probability under the laws of `exp` that the closed form relies on: `S(0) = 1`, values in `(0, 1]` for
    `θ, t ≥ 0`, the semigroup law `S(t₁+t₂) = S(t₁)·S(t₂)` (from `e^{x+y} = e^x e^y`), `e^{a}·e^{−a} = 1`, and the factorisation
    of the risky discount factor `e^{−(r+θ)T} = e^{−rT}·S(T)` used by both legs -/
theorem survival_laws (expf : ℚ → ℚ) (hmono : StrictMono expf) (h0 : expf 0 = 1) (hpos : ∀ x, 0 < expf x)
    (hadd : ∀ x y, expf (x + y) = expf x * expf y) (θ r t t' : ℚ) :
    survival expf θ 0 = 1 ∧ survival expf 0 t = 1 ∧ 0 < survival expf θ t ∧
    (0 ≤ θ → 0 ≤ t → survival expf θ t ≤ 1) ∧
    survival expf θ (t + t') = survival expf θ t * survival expf θ t' ∧
    expf (t * θ) * survival expf θ t = 1 ∧
    discount expf θ r t = expf (-r * t) * survival expf θ t := by
  unfold survival discount
  refine ⟨by simp [h0], by simp [h0], hpos _, ?_, ?_, ?_, ?_⟩
  · intro h1 h2
    rw [← h0]
    apply hmono.monotone
    have := mul_nonneg h2 h1
    linarith
  · rw [← hadd]; congr 1; ring
  · rw [← hadd, ← h0]; congr 1; ring
  · rw [← hadd]; congr 1; ring

/-! ### default times: the first jump below the threshold (underlying.py:363-499) -/

/-- `firstBelow a ds = some k` iff `ds[k]` is the first increment below `a` -/
theorem firstBelow_spec (a : ℚ) (ds : List ℚ) (k : ℕ) :
    firstBelow a ds = some k ↔ (∃ d, ds[k]? = some d ∧ d < a) ∧ ∀ j < k, ∀ d, ds[j]? = some d → ¬ d < a := by
  induction ds generalizing k with
  | nil => simp [firstBelow]
  | cons x t ih =>
    unfold firstBelow
    by_cases hx : x < a
    · rw [if_pos hx]
      constructor
      · intro h
        have : k = 0 := by simpa using h.symm
        subst this
        exact ⟨⟨x, by simp, hx⟩, by intro j hj; omega⟩
      · rintro ⟨_, h2⟩
        cases k with
        | zero => rfl
        | succ k => exact absurd hx (h2 0 (by omega) x (by simp))
    · rw [if_neg hx]
      cases k with
      | zero =>
        constructor
        · intro h
          cases hfb : firstBelow a t with
          | none => rw [hfb] at h; simp at h
          | some j => rw [hfb] at h; simp at h
        · rintro ⟨⟨d, hd, hda⟩, _⟩
          have : x = d := by simpa using hd
          subst this; exact absurd hda hx
      | succ k =>
        have e : (firstBelow a t).map (· + 1) = some (k + 1) ↔ firstBelow a t = some k := by
          cases firstBelow a t with
          | none => simp
          | some j => simp
        rw [e, ih k]
        constructor
        · rintro ⟨⟨d, hd, hda⟩, h2⟩
          refine ⟨⟨d, by simpa using hd, hda⟩, ?_⟩
          intro j hj d' hd'
          cases j with
          | zero => have : x = d' := by simpa using hd'
                    subst this; exact hx
          | succ j => exact h2 j (by omega) d' (by simpa using hd')
        · rintro ⟨⟨d, hd, hda⟩, h2⟩
          refine ⟨⟨d, by simpa using hd, hda⟩, ?_⟩
          intro j hj d' hd'
          exact h2 (j + 1) (by omega) d' (by simpa using hd')

/-- no default (`np.inf`) iff no increment of the path is below the threshold -/
theorem defaultTime_none_iff (times path : List ℚ) (a : ℚ) :
    defaultTime times path a = none ↔ ∀ d ∈ diffs path, ¬ d < a := by
  unfold defaultTime
  rw [Option.map_eq_none_iff]
  generalize diffs path = ds
  induction ds with
  | nil => simp [firstBelow]
  | cons x t ih =>
    unfold firstBelow
    by_cases hx : x < a
    · simp [hx]
    · simp [hx, ih]
      intro _; exact not_lt.mp hx

/-- first-to-default of two names: the earlier of the two default times; nobody defaults iff no jump of either path
    enters its default half-space, i.e. iff no jump enters the union whose mass θ is -/
theorem firstToDefault_two (times p1 p2 : List ℚ) (a1 a2 : ℚ) :
    firstToDefault times [p1, p2] [a1, a2] = minOpt (defaultTime times p1 a1) (defaultTime times p2 a2) ∧
    (firstToDefault times [p1, p2] [a1, a2] = none ↔
      (∀ d ∈ diffs p1, ¬ d < a1) ∧ (∀ d ∈ diffs p2, ¬ d < a2)) := by
  have e : firstToDefault times [p1, p2] [a1, a2] = minOpt (defaultTime times p1 a1) (defaultTime times p2 a2) := by
    simp [firstToDefault, defaultTimes, minOpt]
  refine ⟨e, ?_⟩
  rw [e, ← defaultTime_none_iff times p1 a1, ← defaultTime_none_iff times p2 a2]
  cases defaultTime times p1 a1 <;> cases defaultTime times p2 a2 <;> simp [minOpt]

/-! ### the closed-form legs are expectations of the pathwise payoff under an exponential default time (ℝ, FTC) -/

/-- at ℚ the carrier-generic formulas are the model's executable ones (what `Drivers/C19 spreads` / `cds` run) -/
theorem legs_eq_F (E θ r R s : ℚ) :
    defaultLeg E θ r R = defaultLegF E θ r R ∧ fixedLeg E θ r = fixedLegF E θ r ∧
    presentValue E θ r R s = presentValueF E θ r R s := ⟨rfl, rfl, rfl⟩

/-- … and casting the executable value to ℝ gives the real formula at the cast arguments -/
theorem presentValue_cast (E θ r R s : ℚ) :
    ((presentValue E θ r R s : ℚ) : ℝ) = presentValueF (E : ℝ) (θ : ℝ) (r : ℝ) (R : ℝ) (s : ℝ) := by
  unfold presentValue defaultLeg fixedLeg presentValueF defaultLegF fixedLegF
  push_cast
  ring

/-- `CDS.evaluate` of a default at `t ≤ T` (the harness hands in `dfTau = dfMin = df(t)`) -/
theorem cdsPayoff_defaulted (R s r T dfT t dfTau : ℚ) (ht : ¬ T < t) :
    cdsPayoff R s r T dfT (some t) dfTau dfTau = cdsDefaultedF R s r dfT dfTau := by
  simp [cdsPayoff, cdsDefaultedF, ht]

/-- `CDS.evaluate` of a default after maturity or of no default (`dfMin = df(T)`) -/
theorem cdsPayoff_survived (R s r T dfT dfTau : ℚ) (tau : Option ℚ) (h : ∀ t, tau = some t → T < t) :
    cdsPayoff R s r T dfT tau dfTau dfT = cdsSurvivedF s r dfT := by
  cases tau with
  | none => simp [cdsPayoff, cdsSurvivedF]
  | some t => simp [cdsPayoff, cdsSurvivedF, h t rfl]

/-- **the closed-form legs are the expectations of the pathwise legs under τ ~ Exp(θ)**, for the discounting function
    `df(t) = e^{−rt}`, every recovery rate, spread, maturity, hazard rate θ and rate r with `r ≠ 0`, `r + θ ≠ 0`:
    (1) P(τ ≤ T) = ∫₀ᵀ θe^{−θt}dt = 1 − e^{−θT}, i.e. `survival_probability = e^{−θT}` is the tail of that law;
    (2) default leg ∫₀ᵀ (1−R)e^{−rt}·θe^{−θt}dt = `default_leg`;
    (3) premium leg per unit spread, pathwise `(1 − df(min(T,τ)))/r` as in `CDS.evaluate`: its expectation = `fixed_leg`,
    (4) which is also ∫₀ᵀ e^{−rt}P(τ>t)dt;
    (5) `E[CDS.evaluate(τ)] = (default_leg − s·fixed_leg)/df(T)` — the identity the spread round trip of the benchmark
    (Monte-Carlo mean of the payoff → `implied_cds_spread`) rests on. -/
theorem cds_legs_are_expectations (θ r R s T : ℝ) (hr : r ≠ 0) (h : r + θ ≠ 0) :
    (∫ t in (0:ℝ)..T, θ * Real.exp (-θ * t)) = 1 - Real.exp (-θ * T) ∧
    (∫ t in (0:ℝ)..T, (1 - R) * Real.exp (-r * t) * (θ * Real.exp (-θ * t)))
      = defaultLegF (Real.exp (-(r + θ) * T)) θ r R ∧
    (∫ t in (0:ℝ)..T, (1 - Real.exp (-r * t)) / r * (θ * Real.exp (-θ * t)))
        + (1 - Real.exp (-r * T)) / r * Real.exp (-θ * T) = fixedLegF (Real.exp (-(r + θ) * T)) θ r ∧
    (∫ t in (0:ℝ)..T, Real.exp (-r * t) * Real.exp (-θ * t)) = fixedLegF (Real.exp (-(r + θ) * T)) θ r ∧
    (∫ t in (0:ℝ)..T, cdsDefaultedF R s r (Real.exp (-r * T)) (Real.exp (-r * t)) * (θ * Real.exp (-θ * t)))
        + cdsSurvivedF s r (Real.exp (-r * T)) * Real.exp (-θ * T)
      = presentValueF (Real.exp (-(r + θ) * T)) θ r R s / Real.exp (-r * T) :=
  ⟨Legs.default_probability θ T, Legs.default_leg_integral θ r R T h, Legs.fixed_leg_integral θ r T hr h,
   Legs.fixed_leg_survival_form θ r T h, Legs.expected_payoff θ r R s T hr h⟩

/-- non-vacuity: θ = 1/10, r = 1/50 -/
example : (∫ t in (0:ℝ)..5, (1 - (2/5 : ℝ)) * Real.exp (-(1/50) * t) * ((1/10) * Real.exp (-(1/10) * t)))
    = defaultLegF (Real.exp (-((1/50 : ℝ) + 1/10) * 5)) (1/10) (1/50) (2/5) :=
  (cds_legs_are_expectations (1/10) (1/50) (2/5) (1/100) 5 (by norm_num) (by norm_num)).2.1

/-- the par spread is the spread at which the *expected payoff* vanishes (real legs): with (5), E[CDS.evaluate] = 0 at
    `s = (1−R)θ` -/
theorem expected_payoff_zero_at_par (θ r R T : ℝ) (hr : r ≠ 0) (h : r + θ ≠ 0) :
    (∫ t in (0:ℝ)..T, cdsDefaultedF R ((1 - R) * θ) r (Real.exp (-r * T)) (Real.exp (-r * t)) * (θ * Real.exp (-θ * t)))
        + cdsSurvivedF ((1 - R) * θ) r (Real.exp (-r * T)) * Real.exp (-θ * T) = 0 := by
  rw [(cds_legs_are_expectations θ r R ((1 - R) * θ) T hr h).2.2.2.2]
  unfold presentValueF defaultLegF fixedLegF
  field_simp
  ring

/-! ### non-vacuity: instances of every hypothesis, concrete runs; negation witnesses -/

/-- a Dirac mass is finitely additive and non-negative on the subsets of any set -/
noncomputable def dirac {α : Type} (x0 : α) (S : Set α) : ℚ := by
  classical exact if x0 ∈ S then 1 else 0

theorem dirac_additiveOn {α : Type} (x0 : α) (U : Set α) : AdditiveOn (dirac x0) U := by
  classical
  constructor
  · intro A B _ _ hd
    unfold dirac
    by_cases hA : x0 ∈ A
    · have hB : x0 ∉ B := fun hB => (Set.disjoint_left.mp hd) hA hB
      simp [hA, hB]
    · by_cases hB : x0 ∈ B
      · simp [hA, hB]
      · simp [hA, hB]
  · intro A _
    unfold dirac
    split <;> norm_num

/-- the tail family of a set function (sign convention of the code) exists for every `μ`, `H` -/
noncomputable def familyOf {α : Type} (μ : Set α → ℚ) (H : ℕ → ℚ → Set α) : TailFamily where
  low := fun i a => μ (H i a)
  pair := fun i j a b => μ (H i a ∩ H j b)
  triple := fun a b c => -μ (H 0 a ∩ H 1 b ∩ H 2 c)

theorem familyOf_isTailFamilyOf {α : Type} (μ : Set α → ℚ) (H : ℕ → ℚ → Set α) : IsTailFamilyOf (familyOf μ H) μ H :=
  ⟨fun _ _ => rfl, fun _ _ _ _ => rfl, fun _ _ _ => rfl⟩

/-- a jump that sends all three names below their thresholds counts once: θ = 1 (masses 1,1,1, pairs 1,1,1, signed
    triple tail integral −1) -/
example : thetaCopula (familyOf (dirac (fun _ : ℕ => (-1 : ℚ))) halfSpace) 3 [-1/2, -1/2, -1/2] = .ok 1 := by
  rw [theta_incl_excl_d3 _ _ _ (familyOf_isTailFamilyOf _ _) _ _ _ (by norm_num) (by norm_num) (by norm_num)
    (dirac_additiveOn _ _)]
  congr 1
  unfold dirac
  classical
  rw [if_pos]
  simp [halfSpace]; norm_num

/-- **negation witness (`theta -= tail_integrals` → `+=`, or the term dropped)**: on that same measure the mutated
    formulas give −1 and 0 instead of the mass 1 of the union -/
theorem triple_term_sign_matters :
    theta3 1 1 1 1 1 1 (-1) = 1 ∧ (1 : ℚ) + 1 + 1 - 1 - 1 - 1 + (-1) ≠ 1 ∧ (1 : ℚ) + 1 + 1 - 1 - 1 - 1 ≠ 1 := by
  unfold theta3; norm_num

def leb1 (a b : ℚ) : ℚ := b - a
def leb2 (a c y z : ℚ) : ℚ := (c - a) * (z - y)
def leb3 (a c y z u v : ℚ) : ℚ := (c - a) * (z - y) * (v - u)

/-- concrete run, 1-d credit chain under Lebesgue measure: the two states left of the threshold −1/2 carry ν[l, a] -/
example : creditAxis (-1) (-1/2) (1/10) 1 false = [-1, -7/10, -3/10, -1/10, 0, 1/10, 1] ∧
    defaultRegionRate1d amid (creditAxis (-1) (-1/2) (1/10) 1 false) 4
      (chainMass (creditAxis (-1) (-1/2) (1/10) 1 false) leb1) (-1/2) = 1/2 ∧
    theta1 (chainLow (creditAxis (-1) (-1/2) (1/10) 1 false) leb1) (-1/2) = 1/2 := by decide +kernel

/-- concrete runs, 2-d (asymmetric, 7×7) and 3-d (symmetric, 9×9×9) credit chains under Lebesgue measure -/
example : defaultRegionRate amid [creditAxis (-1) (-1/2) (1/10) 1 false, creditAxis (-1) (-2/5) (1/10) 1 false] 4
    (box2 leb2) [-1/2, -2/5] = 19/10 := by decide +kernel

example : thetaClipped (box2 leb2) [creditAxis (-1) (-1/2) (1/10) 1 false, creditAxis (-1) (-2/5) (1/10) 1 false]
    [-1/2, -2/5] = .ok (19/10) := by decide +kernel

example : defaultRegionRate amid [creditAxis (-1) (-1/2) (1/10) 1 true, creditAxis (-1) (-2/5) (1/10) 1 true,
    creditAxis (-1) (-3/10) (1/10) 1 true] 4 (box3 leb3) [-1/2, -2/5, -3/10] = 527/100 := by decide +kernel

example : thetaClipped (box3 leb3) [creditAxis (-1) (-1/2) (1/10) 1 true, creditAxis (-1) (-2/5) (1/10) 1 true,
    creditAxis (-1) (-3/10) (1/10) 1 true] [-1/2, -2/5, -3/10] = .ok (527/100) := by decide +kernel

example : CreditOK (-1) (-1/2) (1/10) 1 true ∧ CreditOK (-1) (-2/5) (1/10) 1 false := by
  unfold CreditOK creditEps rabs; norm_num

/-- **negation witness (threshold off the cell boundaries)**: on the axis `[-4,-2,-1,0,1,3,7]` (boundaries at −3, −3/2)
    with the threshold at −5/2 the only state below it carries the cell `[-4,-3]` (mass 1), the closed form `ν[-4,-5/2]`
    is 3/2: the hypothesis "threshold on a cell boundary" of `region_rate_eq_theta_1d` cannot be dropped -/
theorem off_boundary_threshold_breaks :
    defaultRegionRate1d amid [-4, -2, -1, 0, 1, 3, 7] 3 (chainMass [-4, -2, -1, 0, 1, 3, 7] leb1) (-5/2) = 1 ∧
    theta1 (chainLow [-4, -2, -1, 0, 1, 3, 7] leb1) (-5/2) = 3/2 := by decide +kernel

/-- the spread maps on numbers: E = 1/2, θ = 1/10, r = 1/50, R = 2/5: par spread 3/50 has present value 0 and is the
    implied spread of 0; a root outside the bracket is refused -/
example : parSpread (1/10) (2/5) = 3/50 ∧ presentValue (1/2) (1/10) (1/50) (2/5) (3/50) = 0 ∧
    impliedSpread (1/2) (1/10) (1/50) (2/5) 0 (-5) 10 = some (3/50) ∧
    impliedSpread (1/2) (1/10) (1/50) (2/5) (-100) (-5) 10 = none := by decide +kernel

/-- an `exp` over ℚ with every law the theorems ask for except additivity: strictly increasing, positive, `f 0 = 1`,
    `f a · f (−a) = 1` -/
def qexp (x : ℚ) : ℚ := if 0 ≤ x then 1 + x else 1 / (1 - x)

theorem qexp_laws : StrictMono qexp ∧ qexp 0 = 1 ∧ (∀ x, 0 < qexp x) ∧ (∀ a, qexp a * qexp (-a) = 1) := by
  have hpos : ∀ x, 0 < qexp x := by
    intro x; unfold qexp
    split
    · linarith
    · exact div_pos one_pos (by linarith)
  refine ⟨?_, by simp [qexp], hpos, ?_⟩
  · intro x y hxy
    unfold qexp
    by_cases hx : 0 ≤ x
    · rw [if_pos hx, if_pos (by linarith)]; linarith
    · by_cases hy : 0 ≤ y
      · rw [if_neg hx, if_pos hy]
        have : 1 / (1 - x) < 1 := by rw [div_lt_one (by linarith)]; linarith
        linarith
      · rw [if_neg hx, if_neg hy]
        exact one_div_lt_one_div_of_lt (by linarith) (by linarith)
  · intro a
    unfold qexp
    rcases lt_trichotomy a 0 with h | h | h
    · rw [if_neg (by linarith), if_pos (by linarith)]
      have : (1 - a) ≠ 0 := by linarith
      field_simp; ring
    · subst h; simp
    · rw [if_pos (by linarith), if_neg (by linarith)]
      have : (1 + a) ≠ 0 := by linarith
      have e : (1 : ℚ) - -a = 1 + a := by ring
      rw [e]; field_simp

/-- default times on a concrete path: increments −1/10, −2/5, −1/2 against the threshold −3/10 -/
example : defaultTime [0, 1, 2, 3] [0, -1/10, -1/2, -1] (-3/10) = some 2 ∧
    firstToDefault [0, 1, 2, 3] [[0, -1/10, -1/2, -1], [0, 0, 0, 0]] [-3/10, -1] = some 2 ∧
    defaultTime [0, 1, 2, 3] [0, 0, 0, 0] (-1) = none := by decide +kernel

end Rpylib.Credit
