/-
C11 — the Lévy copulas are Lévy copulas: grounded, d-increasing (d = 2, 3), uniform margins.   Property theorems only.
Model: RpylibModel/Model/Copula.lean.  Helper lemmas: Proofs/Lemmas/C11*.lean.

Two layers.  (i) `claytonOf G scale η`: the Clayton formula over an abstract generator pair `G` (`g u = |u|^(-θ)`,
`psi s = s^(-1/θ)`) on an arbitrary linearly ordered field, arguments in the extended line — theorems for every θ
whose generator pair satisfies `ClaytonGen` (the only analytic hypotheses: `psi ∘ g = id`, `g`, `psi` antitone and the
slope (convexity) property of `psi`).  (ii) `clayton1`, `indep`, `dep`: the executable models the driver runs
(θ = 1 over ℚ with IEEE infinities/NaN), for which `gen1_clayton` discharges every hypothesis.

New in round 2: dependent copula on the whole extended plane (`dep_two_increasing_all`); d = 3: Clayton
(`claytonOf_three_increasing` under `Slope3`, `clayton1_three_increasing`, `clayton_real_three_increasing`), dependent
(`dep_three_increasing`, `dep_three_increasing_all`), independent (`indep_three_increasing`); the conditional distribution is a
distribution function (`cond_dist_is_monotone`, `clayton_real_cond_monotone`, `clayton_real_cond_limits`).

Not proved here (see NOT_PROVED in harness/props/c11.py): Clayton boxes with an all-infinite corner in d = 3; the mixed
derivative; the conditional distribution as a derivative of F.
-/
import RpylibModel.Model.Copula
import RpylibModel.Proofs.Lemmas.C11Vol
import RpylibModel.Proofs.Lemmas.C11Clayton
import RpylibModel.Proofs.Lemmas.C11Theta1
import RpylibModel.Proofs.Lemmas.C11Margin
import RpylibModel.Proofs.Lemmas.C11IndepDep
import RpylibModel.Proofs.Lemmas.C11Convex
import RpylibModel.Proofs.Lemmas.C11Real
import RpylibModel.Proofs.Lemmas.C11Inf
import RpylibModel.Proofs.Lemmas.C11Dep3
import RpylibModel.Proofs.Lemmas.C11Indep3
import RpylibModel.Proofs.Lemmas.C11DepInf
import RpylibModel.Proofs.Lemmas.C11Cond
import RpylibModel.Proofs.Lemmas.C11Clayton3
import RpylibModel.Proofs.Lemmas.C11Real3
import RpylibModel.Proofs.Lemmas.C11Theta1D3
import RpylibModel.Proofs.Lemmas.C11Dep3Inf
import Mathlib.Data.Real.Sign
import Mathlib.Tactic.Linarith
import Mathlib.Tactic.Ring
import Mathlib.Tactic.FieldSimp
import Mathlib.Algebra.Order.Field.Rat

set_option linter.unusedSectionVars false

namespace Rpylib.Copula

/-! ## Groundedness: F vanishes as soon as one argument is 0 -/

/-- abstract-generator Clayton, every θ (`ClaytonGen`), any dimension, any scale and η -/
theorem claytonOf_is_grounded {K : Type} [Field K] [LinearOrder K] [IsStrictOrderedRing K] {G : Gen K}
    (hG : ClaytonGen G) (scale eta : K) (us : List (Ext K)) (h : Ext.fin 0 ∈ us) :
    claytonOf G scale eta us = 0 := claytonOf_grounded hG scale eta us h

/-- Clayton θ = 1 as the floats compute it — any dimension, any η (also η ∈ {0,1}, also with infinite entries) -/
theorem clayton1_grounded (eta : Rat) (us : List (Ext Rat)) (h : Ext.fin 0 ∈ us) : clayton1 eta us = .fin 0 := by
  have : us.any gen1.argZero = true := List.any_eq_true.mpr ⟨_, h, by simp [Gen.argZero, gen1]⟩
  simp [clayton1, this]

/-- completely dependent copula, any dimension -/
theorem dep_grounded (us : List (Ext Rat)) (h : Ext.fin 0 ∈ us) : dep us = .fin 0 := by
  have h1 : us.all Ext.isPos = false := by
    rw [List.all_eq_false]; exact ⟨_, h, by simp [Ext.isPos]⟩
  have h2 : us.all Ext.isNeg = false := by
    rw [List.all_eq_false]; exact ⟨_, h, by simp [Ext.isNeg]⟩
  simp [dep, h1, h2]

/-- independent copula, d = 2 -/
theorem indep_grounded_d2 (u v : Ext Rat) (h : u = .fin 0 ∨ v = .fin 0) : indep [u, v] = .fin 0 := by
  rcases h with rfl | rfl
  · rcases v with _ | v | _ <;> simp [indep, indepTerms, allPosInfExcept, Ext.isPosInf]
  · rcases u with _ | u | _ <;> simp [indep, indepTerms, allPosInfExcept, Ext.isPosInf]

/-- independent copula, d = 3 -/
theorem indep_grounded_d3 (u v w : Ext Rat) (h : u = .fin 0 ∨ v = .fin 0 ∨ w = .fin 0) :
    indep [u, v, w] = .fin 0 := by
  rcases h with rfl | rfl | rfl
  · rcases v with _ | v | _ <;> rcases w with _ | w | _ <;> simp [indep, indepTerms, allPosInfExcept, Ext.isPosInf]
  · rcases u with _ | u | _ <;> rcases w with _ | w | _ <;> simp [indep, indepTerms, allPosInfExcept, Ext.isPosInf]
  · rcases u with _ | u | _ <;> rcases v with _ | v | _ <;> simp [indep, indepTerms, allPosInfExcept, Ext.isPosInf]

/-! ## Margins: every one-dimensional margin is the identity (d = 2, 3; every sign of the argument) -/

/-- abstract-generator Clayton, every θ (`ClaytonGen`), d = 2 -/
theorem claytonOf_margins_identity_d2 {K : Type} [Field K] [LinearOrder K] [IsStrictOrderedRing K] {G : Gen K}
    (hG : ClaytonGen G) (eta a : K) (i : Nat) (hi : i < 2) : margin (claytonOf G 1 eta) [i] 2 [.fin a] = a :=
  claytonOf_margin_d2 hG eta a i hi

/-- abstract-generator Clayton, every θ (`ClaytonGen`), d = 3 with the coded scale 2^(2-3) -/
theorem claytonOf_margins_identity_d3 {K : Type} [Field K] [LinearOrder K] [IsStrictOrderedRing K] {G : Gen K}
    (hG : ClaytonGen G) (eta a : K) (i : Nat) (hi : i < 3) : margin (claytonOf G (1 / 2) eta) [i] 3 [.fin a] = a :=
  claytonOf_margin_d3 hG eta a i hi

set_option linter.unusedSimpArgs false in
/-- Clayton θ = 1 as the floats compute it (values in `EVal`): margins in d = 2 and d = 3, every η, every finite u -/
theorem clayton1_margins_identity (eta a : Rat) (d i : Nat) (hd : d = 2 ∨ d = 3) (hi : i < d) :
    margin (clayton1 eta) [i] d [.fin a] = .fin a := by
  have cases_i : (d = 2 ∧ (i = 0 ∨ i = 1)) ∨ (d = 3 ∧ (i = 0 ∨ i = 1 ∨ i = 2)) := by omega
  rcases lt_trichotomy a 0 with h | h | h
  · have h2 : a ≠ 0 := h.ne
    rcases cases_i with ⟨rfl, rfl | rfl⟩ | ⟨rfl, rfl | rfl | rfl⟩ <;>
      simp [margin, marginArgs, slot, findIdx, sumList, clayton1, claytonOf, claytonG, sumG, countNeg, Gen.arg,
        Gen.argZero, gen1, scalePow, rabs_of_neg h, h, h2] <;> ring
  · subst h
    rcases cases_i with ⟨rfl, rfl | rfl⟩ | ⟨rfl, rfl | rfl | rfl⟩ <;>
      simp [margin, marginArgs, slot, findIdx, sumList, clayton1, Gen.argZero, gen1]
  · have h1 : ¬ a < 0 := not_lt.mpr h.le
    have h2 : a ≠ 0 := h.ne'
    rcases cases_i with ⟨rfl, rfl | rfl⟩ | ⟨rfl, rfl | rfl | rfl⟩ <;>
      simp [margin, marginArgs, slot, findIdx, sumList, clayton1, claytonOf, claytonG, sumG, countNeg, Gen.arg,
        Gen.argZero, gen1, scalePow, rabs_pos h, h1, h2] <;> ring

/-- at an infinite argument the margin of the float Clayton is that infinity when 0 < η < 1 … -/
theorem clayton1_margin_at_inf (eta : Rat) (h0 : 0 < eta) (h1 : eta < 1) :
    margin (clayton1 eta) [0] 2 [.posInf] = .posInf ∧ margin (clayton1 eta) [0] 2 [.negInf] = .negInf := by
  have : ¬ (1 < eta) := not_lt.mpr h1.le
  have h1' : 0 < 1 - eta := by linarith
  constructor <;>
    simp [margin, marginArgs, slot, findIdx, sumList, clayton1, sumG, countNeg, Gen.arg, Gen.argZero, gen1, EVal.smul,
      h0, h1, h1', this] <;> rfl

/-- … and NaN for η ∈ {0,1} (finding #31: `inf * 0`): negation witnesses of "margins are the identity" and of
    "non-negative volume" for the two η the constructor accepts at the boundary -/
theorem clayton1_eta0_allinf_nan :
    clayton1 0 [.posInf, .posInf] = .nan ∧ margin (clayton1 0) [0] 2 [.posInf] = .nan ∧
      volume (clayton1 0) [.fin 1, .fin 1] [.posInf, .posInf] = .nan := by decide +kernel

theorem clayton1_eta1_allinf_nan :
    clayton1 1 [.negInf, .posInf] = .nan ∧ margin (clayton1 1) [0] 2 [.posInf] = .nan ∧
      volume (clayton1 1) [.negInf, .fin 1] [.fin 1, .posInf] = .nan := by decide +kernel

/-- independent copula: margins, d = 2, 3, finite u -/
theorem indep_margins_identity (a : Rat) (d i : Nat) (hd : d = 2 ∨ d = 3) (hi : i < d) :
    margin indep [i] d [.fin a] = .fin a := by
  have cases_i : (d = 2 ∧ (i = 0 ∨ i = 1)) ∨ (d = 3 ∧ (i = 0 ∨ i = 1 ∨ i = 2)) := by omega
  rcases cases_i with ⟨rfl, rfl | rfl⟩ | ⟨rfl, rfl | rfl | rfl⟩ <;>
    simp [margin, marginArgs, slot, findIdx, sumList, indep, indepTerms, allPosInfExcept, Ext.isPosInf]

/-- the coded independent copula returns 0 at corners with all entries infinite (finding): its margin at ±∞ is 0,
    and the rectangle (1,∞]×(2,∞] gets volume −3 — negation witnesses for the full property -/
theorem indep_margin_at_inf_is_zero :
    margin indep [0] 2 [.posInf] = .fin 0 ∧ margin indep [0] 2 [.negInf] = .fin 0 := by
  constructor <;> simp [margin, marginArgs, slot, findIdx, sumList, indep, indepTerms, allPosInfExcept, Ext.isPosInf]

theorem indep_allinf_corner_negative_volume :
    volume indep [.fin 1, .fin 2] [.posInf, .posInf] = .fin (-3) := by decide +kernel

set_option linter.unusedSimpArgs false in
/-- completely dependent copula: margins, d = 2, 3, finite u -/
theorem dep_margins_identity (a : Rat) (d i : Nat) (hd : d = 2 ∨ d = 3) (hi : i < d) :
    margin dep [i] d [.fin a] = .fin a := by
  have cases_i : (d = 2 ∧ (i = 0 ∨ i = 1)) ∨ (d = 3 ∧ (i = 0 ∨ i = 1 ∨ i = 2)) := by omega
  rcases lt_trichotomy a 0 with h | h | h
  · have h1 : ¬ 0 < a := not_lt.mpr h.le
    rcases cases_i with ⟨rfl, rfl | rfl⟩ | ⟨rfl, rfl | rfl | rfl⟩ <;>
      simp [margin, marginArgs, slot, findIdx, sumList, dep, Ext.isPos, Ext.isNeg, extMin, extMax, Ext.min, Ext.max,
        Ext.le, Ext.toEVal, EVal.neg, h, h1]
  · subst h
    rcases cases_i with ⟨rfl, rfl | rfl⟩ | ⟨rfl, rfl | rfl | rfl⟩ <;>
      simp [margin, marginArgs, slot, findIdx, sumList, dep, Ext.isPos, Ext.isNeg]
  · have h1 : ¬ a < 0 := not_lt.mpr h.le
    rcases cases_i with ⟨rfl, rfl | rfl⟩ | ⟨rfl, rfl | rfl | rfl⟩ <;>
      simp [margin, marginArgs, slot, findIdx, sumList, dep, Ext.isPos, Ext.isNeg, extMin, extMax, Ext.min, Ext.max,
        Ext.le, Ext.toEVal, EVal.neg, h, h1]

/-! ## 2-increasing (d = 2): non-negative volume of every rectangle -/

/-- **Abstract-generator Clayton, every θ whose generator pair satisfies `ClaytonGen`, every 0 ≤ η ≤ 1**: every
    rectangle `(a1,b1] × (a2,b2]` of the extended plane — any sign pattern, straddling zero or not, infinite end
    points included — that has no corner with two infinite entries gets non-negative volume. -/
theorem claytonOf_two_increasing {K : Type} [Field K] [LinearOrder K] [IsStrictOrderedRing K] {G : Gen K}
    (hG : ClaytonGen G) (eta : K) (h0 : 0 ≤ eta) (h1 : eta ≤ 1) (a1 b1 a2 b2 : Ext K) (hP : Adm a1 b1 a2 b2)
    (l1 : Ext.LE a1 b1) (l2 : Ext.LE a2 b2) : 0 ≤ volume (claytonOf G 1 eta) [a1, a2] [b1, b2] := by
  rw [volume_two]; exact F2_two_increasing hG eta h0 h1 a1 b1 a2 b2 hP l1 l2

/-- the slope hypothesis `ClaytonGen.psi_slope` is implied by convexity of `psi` on (0,∞) — for s ↦ s^(-1/θ), θ > 0,
    that is the classical convexity of a negative power -/
theorem psi_slope_of_convexOn {K : Type} [Field K] [LinearOrder K] [IsStrictOrderedRing K] (G : Gen K)
    (hc : ConvexOn K (Set.Ioi 0) G.psi) :
    ∀ s t δ, 0 < s → s ≤ t → 0 ≤ δ → G.psi (s + δ) - G.psi s ≤ G.psi (t + δ) - G.psi t :=
  fun s t δ => slope_of_convexOn G.psi hc s t δ

/-- θ = 1 satisfies every hypothesis (in particular s ↦ 1/s has the slope/convexity property) -/
theorem clayton_theta1_generator : ClaytonGen gen1 := gen1_clayton

/-- **Clayton θ = 1 as the floats compute it**: the model's `volume` of every admissible rectangle of the extended
    plane is a finite non-negative number, for every η ∈ [0,1] (η ∈ {0,1} included) -/
theorem clayton1_two_increasing (eta : Rat) (h0 : 0 ≤ eta) (h1 : eta ≤ 1) (a1 b1 a2 b2 : Ext Rat)
    (hP : Adm a1 b1 a2 b2) (l1 : Ext.LE a1 b1) (l2 : Ext.LE a2 b2) :
    EVal.Nonneg (volume (clayton1 eta) [a1, a2] [b1, b2]) := by
  rw [clayton1_volume_two eta a1 a2 b1 b2 hP]
  exact F2_two_increasing gen1_clayton eta h0 h1 a1 b1 a2 b2 hP l1 l2

/-- **Clayton θ = 1 as the floats compute it, 0 < η < 1: every rectangle of (−∞,∞]²** (sides `(a,b]` with `a ≠ +∞`,
    `b ≠ −∞`) gets a non-negative volume — a finite number, or +∞ exactly when a corner has two infinite entries;
    never NaN.  (For η ∈ {0,1} the second case is NaN: `clayton1_eta0_allinf_nan`, `clayton1_eta1_allinf_nan`.) -/
theorem clayton1_two_increasing_all (eta : Rat) (h0 : 0 < eta) (h1 : eta < 1) (a1 b1 a2 b2 : Ext Rat)
    (l1 : Ext.LE a1 b1) (l2 : Ext.LE a2 b2) (na1 : a1 ≠ .posInf) (na2 : a2 ≠ .posInf) (nb1 : b1 ≠ .negInf)
    (nb2 : b2 ≠ .negInf) : EVal.Nonneg (volume (clayton1 eta) [a1, a2] [b1, b2]) := by
  by_cases hP : Adm a1 b1 a2 b2
  · exact clayton1_two_increasing eta h0.le h1.le a1 b1 a2 b2 hP l1 l2
  · rw [(clayton1_volume_finOrPos eta h0 h1 a1 a2 b1 b2 na1 na2 nb1 nb2).2 hP]; trivial

/-- independent copula: every rectangle of the extended plane without one of the corners at which the code deviates
    from Kallsen–Tankov (`indepBad`) gets non-negative volume -/
theorem indep_two_increasing (a1 b1 a2 b2 : Ext Rat) (l1 : Ext.LE a1 b1) (l2 : Ext.LE a2 b2)
    (n1 : a1 ≠ .posInf) (n2 : a2 ≠ .posInf) (hb : ¬ indepBad a1 b1 a2 b2) :
    EVal.Nonneg (volume indep [a1, a2] [b1, b2]) := indep_two_increasing_aux a1 b1 a2 b2 l1 l2 n1 n2 hb

/-- completely dependent copula: every finite rectangle (any sign pattern) gets non-negative volume -/
theorem dep_two_increasing (a1 b1 a2 b2 : Rat) (h1 : a1 ≤ b1) (h2 : a2 ≤ b2) :
    EVal.Nonneg (volume dep [.fin a1, .fin a2] [.fin b1, .fin b2]) := by
  simp only [volume, corners, List.map, List.length_cons, List.length_nil, sumList, List.cons_append,
    List.nil_append, dep_fin_two]
  simp [EVal.Nonneg]
  have := depq_two_increasing a1 b1 a2 b2 h1 h2
  linarith

/-- **completely dependent copula, d = 2, every rectangle of (−∞,∞]²** (sides `(a,b]` with `a ≠ +∞`, `b ≠ −∞`; infinite
    end points included): the volume the code computes is a non-negative number or +∞ (exactly when `b1 = b2 = +∞` or
    `a1 = a2 = −∞`), never NaN -/
theorem dep_two_increasing_all (a1 b1 a2 b2 : Ext Rat) (l1 : Ext.LE a1 b1) (l2 : Ext.LE a2 b2)
    (na1 : a1 ≠ .posInf) (na2 : a2 ≠ .posInf) (nb1 : b1 ≠ .negInf) (nb2 : b2 ≠ .negInf) :
    EVal.Nonneg (volume dep [a1, a2] [b1, b2]) := dep_two_increasing_all_aux a1 b1 a2 b2 l1 l2 na1 na2 nb1 nb2

/-- the excluded sides are excluded for a reason: on `(+∞, +∞]` the code evaluates `inf − inf` -/
theorem dep_empty_side_at_inf_nan : volume dep [.posInf, .fin 1] [.posInf, .posInf] = .nan := by decide +kernel

/-! ## 3-increasing (d = 3): non-negative volume of every box -/

/-- **completely dependent copula, d = 3**: every finite box (any sign pattern of the six end points) gets a
    non-negative volume.  `dep = min(u⁺,v⁺,w⁺) − min(u⁻,v⁻,w⁻)` and `min` of three is 3-increasing. -/
theorem dep_three_increasing (a1 b1 a2 b2 a3 b3 : Rat) (h1 : a1 ≤ b1) (h2 : a2 ≤ b2) (h3 : a3 ≤ b3) :
    EVal.Nonneg (volume dep [.fin a1, .fin a2, .fin a3] [.fin b1, .fin b2, .fin b3]) := by
  simp only [volume, corners, List.map, List.length_cons, List.length_nil, sumList, List.cons_append,
    List.nil_append, dep_fin_three]
  simp [EVal.Nonneg]
  have := depq3_three_increasing a1 b1 a2 b2 a3 b3 h1 h2 h3
  linarith

/-- **completely dependent copula, d = 3, every box of (−∞,∞]³** (sides `(a,b]` with `a ≠ +∞`, `b ≠ −∞`; infinite end
    points included): the volume the code computes is a non-negative number or +∞ (exactly when the box has the corner
    (+∞,+∞,+∞) or (−∞,−∞,−∞)), never NaN.  Truncation at ±M beyond all finite end points. -/
theorem dep_three_increasing_all (a1 b1 a2 b2 a3 b3 : Ext Rat) (l1 : Ext.LE a1 b1) (l2 : Ext.LE a2 b2)
    (l3 : Ext.LE a3 b3) (na1 : a1 ≠ .posInf) (na2 : a2 ≠ .posInf) (na3 : a3 ≠ .posInf) (nb1 : b1 ≠ .negInf)
    (nb2 : b2 ≠ .negInf) (nb3 : b3 ≠ .negInf) : EVal.Nonneg (volume dep [a1, a2, a3] [b1, b2, b3]) :=
  dep_three_increasing_all_aux a1 b1 a2 b2 a3 b3 l1 l2 l3 na1 na2 na3 nb1 nb2 nb3

/-- **independent copula, d = 3, extended line**: every box of (−∞,∞]³ without one of the corners at which the code
    deviates from Kallsen–Tankov (`indepBad3`: all entries infinite, at least two of them +∞) gets a non-negative
    volume (finite boxes have volume 0; the mass sits on the axes, i.e. on boxes with two sides reaching +∞) -/
theorem indep_three_increasing (a1 b1 a2 b2 a3 b3 : Ext Rat) (l1 : Ext.LE a1 b1) (l2 : Ext.LE a2 b2)
    (l3 : Ext.LE a3 b3) (n1 : a1 ≠ .posInf) (n2 : a2 ≠ .posInf) (n3 : a3 ≠ .posInf)
    (hb : ¬ indepBad3 a1 b1 a2 b2 a3 b3) : EVal.Nonneg (volume indep [a1, a2, a3] [b1, b2, b3]) :=
  indep_three_increasing_aux a1 b1 a2 b2 a3 b3 l1 l2 l3 n1 n2 n3 hb

/-- non-vacuity: a box carrying mass of the first axis -/
example : volume indep [.fin 1, .fin (-2), .fin 3] [.fin 4, .posInf, .posInf] = .fin 3 := by decide +kernel

/-- d = 3 negation witness at the excluded corners (finding): the box (1,∞]×(1,∞]×(2,∞] gets volume −4 -/
theorem indep_allinf_corner_negative_volume_d3 :
    volume indep [.fin 1, .fin 1, .fin 2] [.posInf, .posInf, .posInf] = .fin (-4) := by decide +kernel

/-- **Abstract-generator Clayton, d = 3 with the coded scale 2^(2-3)**, every θ whose generator pair satisfies
    `ClaytonGen` and `Slope3` (third-order differences of `psi` ≤ 0: complete monotonicity of `s^(-1/θ)` up to order
    3), every 0 ≤ η ≤ 1: every box of the extended space — any sign pattern of the six end points, straddling or not,
    infinite end points included — that has no corner with three infinite entries gets non-negative volume -/
theorem claytonOf_three_increasing {K : Type} [Field K] [LinearOrder K] [IsStrictOrderedRing K] {G : Gen K}
    (hG : ClaytonGen G) (h3 : Slope3 G.psi) (eta : K) (h0 : 0 ≤ eta) (h1 : eta ≤ 1) (a1 b1 a2 b2 a3 b3 : Ext K)
    (hP : Adm3 a1 b1 a2 b2 a3 b3) (l1 : Ext.LE a1 b1) (l2 : Ext.LE a2 b2) (l3 : Ext.LE a3 b3) :
    0 ≤ volume (claytonOf G (1 / 2) eta) [a1, a2, a3] [b1, b2, b3] := by
  rw [volume_three]; exact F3_three_increasing hG h3 eta h0 h1 a1 b1 a2 b2 a3 b3 hP l1 l2 l3

/-- θ = 1 over ℚ has the third-order property (`1/s`), as has every θ > 0 over ℝ (`s^(-1/θ)`, Real.rpow) -/
theorem clayton_theta1_slope3 : Slope3 gen1.psi := slope3_gen1

theorem clayton_real_slope3 (θ : ℝ) (hθ : 0 < θ) : Slope3 (genReal θ).psi := slope3_genReal θ hθ

/-- **Clayton θ = 1 as the floats compute it, d = 3**: the model's `volume` of every admissible box of the extended
    space is a finite non-negative number, for every η ∈ [0,1] -/
theorem clayton1_three_increasing (eta : Rat) (h0 : 0 ≤ eta) (h1 : eta ≤ 1) (a1 b1 a2 b2 a3 b3 : Ext Rat)
    (hP : Adm3 a1 b1 a2 b2 a3 b3) (l1 : Ext.LE a1 b1) (l2 : Ext.LE a2 b2) (l3 : Ext.LE a3 b3) :
    EVal.Nonneg (volume (clayton1 eta) [a1, a2, a3] [b1, b2, b3]) := by
  rw [clayton1_volume_three eta a1 a2 a3 b1 b2 b3 hP]
  exact F3_three_increasing gen1_clayton slope3_gen1 eta h0 h1 a1 b1 a2 b2 a3 b3 hP l1 l2 l3

/-- non-vacuity / sanity of the d = 3 float model: one straddling side, one side reaching +∞ -/
example : EVal.Nonneg (volume (clayton1 (1/2)) [.fin (-1), .fin 1, .fin 1] [.fin 1, .fin 2, .posInf]) :=
  clayton1_three_increasing (1/2) (by norm_num) (by norm_num) _ _ _ _ _ _ (Or.inl ⟨rfl, rfl⟩)
    (by simp [Ext.LE]) (by simp [Ext.LE]) trivial

/-- **Clayton copula, every θ > 0, every η ∈ [0,1], real arithmetic, d = 3**: non-negative volume of every box of the
    extended space that has no corner with three infinite entries -/
theorem clayton_real_three_increasing (θ : ℝ) (hθ : 0 < θ) (eta : ℝ) (h0 : 0 ≤ eta) (h1 : eta ≤ 1)
    (a1 b1 a2 b2 a3 b3 : Ext ℝ) (hP : Adm3 a1 b1 a2 b2 a3 b3) (l1 : Ext.LE a1 b1) (l2 : Ext.LE a2 b2)
    (l3 : Ext.LE a3 b3) : 0 ≤ volume (claytonOf (genReal θ) (1 / 2) eta) [a1, a2, a3] [b1, b2, b3] :=
  claytonOf_three_increasing (genReal_clayton θ hθ) (slope3_genReal θ hθ) eta h0 h1 a1 b1 a2 b2 a3 b3 hP l1 l2 l3

/-! ## The conditional distribution and its stated inverse (levycopula.py:89-136), over abstract powers -/

/-- `p = (·)^θ`, `q = (·)^(-1-1/θ)`, `q' = (·)^(-θ/(θ+1))`, `r' = (·)^(-1/θ)` enter only through
    `q'(q y) = y`, `r'(p t) = 1/t` and positivity; `sgn` is `np.sign`.  For 0 < η < 1, ε ≠ 0, x ≠ 0:
    `inverse_conditional_distribution(ε, conditional_distribution(ε, x)) = x`. -/
theorem cond_dist_inverse {K : Type} [Field K] [LinearOrder K] [IsStrictOrderedRing K]
    (p q q' r' sgn : K → K)
    (hq : ∀ y, 1 ≤ y → q' (q y) = y) (hqpos : ∀ y, 1 ≤ y → 0 < q y)
    (hr : ∀ t, 0 < t → r' (p t) = 1 / t) (hp : ∀ t, 0 < t → 0 < p t)
    (hs1 : ∀ v, 0 < v → sgn v = 1) (hs2 : ∀ v, v < 0 → sgn v = -1)
    (eta e x : K) (h0 : 0 < eta) (h1 : eta < 1) (he : e ≠ 0) (hx : x ≠ 0) :
    invCondDist q' r' sgn |e| eta e (condDist p q (fun a b => |a / b|) eta e x) = x := by
  have ht : 0 < |e / x| := abs_pos.mpr (div_ne_zero he hx)
  have hy : 1 ≤ 1 + p |e / x| := by have := hp _ ht; linarith
  have hQ := hqpos _ hy
  have hqq := hq _ hy
  have hrr := hr _ ht
  have hae : 0 < |e| := abs_pos.mpr he
  have h1' : 0 < 1 - eta := by linarith
  have habs : |e| * (1 / |e / x|) = |x| := by
    rw [abs_div]; field_simp
  set Q := q (1 + p |e / x|) with hQdef
  unfold invCondDist condDist
  simp only []
  by_cases hepos : 0 ≤ e
  · simp only [hepos, if_true]
    by_cases hxneg : x < 0
    · simp only [hxneg, if_true]
      have e1 : 1 - eta + Q * (eta - 1) - 1 + eta = -((1 - eta) * Q) := by ring
      have hlt : ¬ (1 - eta ≤ 1 - eta + Q * (eta - 1)) := by
        have : 0 < (1 - eta) * Q := mul_pos h1' hQ
        intro hh; nlinarith
      have e2 : (1 - eta - (1 - eta + Q * (eta - 1))) / (1 - eta) = Q := by field_simp; ring
      rw [e1, hs2 _ (by have := mul_pos h1' hQ; linarith), if_neg hlt, e2, hqq]
      have : 1 + p |e / x| - 1 = p |e / x| := by ring
      rw [this, hrr, mul_assoc, habs, abs_of_neg hxneg]; ring
    · have hxpos : 0 < x := lt_of_le_of_ne (not_lt.mp hxneg) (Ne.symm hx)
      simp only [hxneg, if_false]
      have e1 : 1 - eta + Q * (eta - 0) - 1 + eta = eta * Q := by ring
      have hle : 1 - eta ≤ 1 - eta + Q * (eta - 0) := by have := mul_pos h0 hQ; nlinarith
      have e2 : (eta * Q) / eta = Q := by field_simp
      rw [e1, hs1 _ (mul_pos h0 hQ), if_pos hle, e2, hqq]
      have : 1 + p |e / x| - 1 = p |e / x| := by ring
      rw [this, hrr, mul_assoc, habs, abs_of_pos hxpos]; ring
  · simp only [hepos, if_false]
    by_cases hxnn : 0 ≤ x
    · have hxpos : 0 < x := lt_of_le_of_ne hxnn (Ne.symm hx)
      simp only [hxnn, if_true]
      have e1 : eta + Q * (1 - eta) - eta = (1 - eta) * Q := by ring
      have hle : eta ≤ eta + Q * (1 - eta) := by have := mul_pos h1' hQ; nlinarith
      have e2 : ((1 - eta) * Q) / (1 - eta) = Q := by field_simp
      rw [e1, hs1 _ (mul_pos h1' hQ), if_pos hle, e2, hqq]
      have : 1 + p |e / x| - 1 = p |e / x| := by ring
      rw [this, hrr, mul_assoc, habs, abs_of_pos hxpos]; ring
    · have hxneg : x < 0 := not_le.mp hxnn
      simp only [hxnn, if_false]
      have e1 : eta + Q * (0 - eta) - eta = -(eta * Q) := by ring
      have hlt : ¬ (eta ≤ eta + Q * (0 - eta)) := by
        have : 0 < eta * Q := mul_pos h0 hQ
        intro hh; nlinarith
      have e2 : (eta - (eta + Q * (0 - eta))) / eta = Q := by field_simp; ring
      rw [e1, hs2 _ (by have := mul_pos h0 hQ; linarith), if_neg hlt, e2, hqq]
      have : 1 + p |e / x| - 1 = p |e / x| := by ring
      rw [this, hrr, mul_assoc, habs, abs_of_neg hxneg]; ring

/-! ## Every θ > 0 over ℝ: the hypotheses `ClaytonGen` are theorems (Real.rpow) -/

/-- `|u|^(-θ)`, `s^(-1/θ)` is a Clayton generator pair for every θ > 0 (convexity of the negative power included) -/
theorem clayton_real_generator (θ : ℝ) (hθ : 0 < θ) : ClaytonGen (genReal θ) := genReal_clayton θ hθ

/-- **Clayton copula, every θ > 0, every η ∈ [0,1], real arithmetic, d = 2**: non-negative volume of every rectangle of
    the extended plane that has no corner with two infinite entries -/
theorem clayton_real_two_increasing (θ : ℝ) (hθ : 0 < θ) (eta : ℝ) (h0 : 0 ≤ eta) (h1 : eta ≤ 1)
    (a1 b1 a2 b2 : Ext ℝ) (hP : Adm a1 b1 a2 b2) (l1 : Ext.LE a1 b1) (l2 : Ext.LE a2 b2) :
    0 ≤ volume (claytonOf (genReal θ) 1 eta) [a1, a2] [b1, b2] :=
  claytonOf_two_increasing (genReal_clayton θ hθ) eta h0 h1 a1 b1 a2 b2 hP l1 l2

/-- every θ > 0: margins are the identity in d = 2 and d = 3, every η, every sign of the argument -/
theorem clayton_real_margins_identity (θ : ℝ) (hθ : 0 < θ) (eta a : ℝ) :
    (∀ i, i < 2 → margin (claytonOf (genReal θ) 1 eta) [i] 2 [.fin a] = a) ∧
    (∀ i, i < 3 → margin (claytonOf (genReal θ) (1 / 2) eta) [i] 3 [.fin a] = a) :=
  ⟨fun i hi => claytonOf_margin_d2 (genReal_clayton θ hθ) eta a i hi,
   fun i hi => claytonOf_margin_d3 (genReal_clayton θ hθ) eta a i hi⟩

/-- every θ > 0: grounded, any dimension -/
theorem clayton_real_grounded (θ : ℝ) (hθ : 0 < θ) (scale eta : ℝ) (us : List (Ext ℝ)) (h : Ext.fin 0 ∈ us) :
    claytonOf (genReal θ) scale eta us = 0 := claytonOf_grounded (genReal_clayton θ hθ) scale eta us h

/-- what `claytonOf (genReal θ)` is on finite non-zero arguments in d = 2: the coded formula (levycopula.py:68-81) -/
theorem claytonOf_genReal_formula (θ eta u v : ℝ) (hu : u ≠ 0) (hv : v ≠ 0) :
    claytonOf (genReal θ) 1 eta [.fin u, .fin v] =
      (|u| ^ (-θ) + |v| ^ (-θ)) ^ (-(1 / θ)) * (if 0 ≤ u * v then eta else -(1 - eta)) := by
  rcases lt_or_gt_of_ne hu with hu' | hu' <;> rcases lt_or_gt_of_ne hv with hv' | hv'
  · have : 0 ≤ u * v := le_of_lt (mul_pos_of_neg_of_neg hu' hv')
    simp [claytonOf, claytonG, sumG, countNeg, Gen.arg, Gen.argZero, genReal, hu, hv, hu', hv', this]
  · have : ¬ 0 ≤ u * v := not_le.mpr (mul_neg_of_neg_of_pos hu' hv')
    simp [claytonOf, claytonG, sumG, countNeg, Gen.arg, Gen.argZero, genReal, hu, hv, hu', not_lt.mpr hv'.le, this]
  · have : ¬ 0 ≤ u * v := not_le.mpr (mul_neg_of_pos_of_neg hu' hv')
    simp [claytonOf, claytonG, sumG, countNeg, Gen.arg, Gen.argZero, genReal, hu, hv, hv', not_lt.mpr hu'.le, this]
  · have : 0 ≤ u * v := le_of_lt (mul_pos hu' hv')
    simp [claytonOf, claytonG, sumG, countNeg, Gen.arg, Gen.argZero, genReal, hu, hv, not_lt.mpr hu'.le,
      not_lt.mpr hv'.le, this]

/-- every θ > 0, 0 < η < 1: the coded inverse inverts the coded conditional distribution (real powers) -/
theorem clayton_real_cond_inverse (θ : ℝ) (hθ : 0 < θ) (eta e x : ℝ) (h0 : 0 < eta) (h1 : eta < 1) (he : e ≠ 0)
    (hx : x ≠ 0) :
    invCondDist (fun c => c ^ (-θ / (θ + 1))) (fun s => s ^ (-(1 / θ))) Real.sign |e| eta e
      (condDist (fun t => t ^ θ) (fun y => y ^ (-1 - 1 / θ)) (fun a b => |a / b|) eta e x) = x := by
  have hθ1 : 0 < θ + 1 := by linarith
  apply cond_dist_inverse (fun t => t ^ θ) (fun y => y ^ (-1 - 1 / θ)) (fun c => c ^ (-θ / (θ + 1)))
    (fun s => s ^ (-(1 / θ))) Real.sign
  · intro y hy
    have hy0 : 0 ≤ y := by linarith
    show (y ^ (-1 - 1 / θ)) ^ (-θ / (θ + 1)) = y
    rw [← Real.rpow_mul hy0]
    have : (-1 - 1 / θ) * (-θ / (θ + 1)) = 1 := by field_simp; ring
    rw [this, Real.rpow_one]
  · intro y hy
    exact Real.rpow_pos_of_pos (by linarith) _
  · intro t ht
    show (t ^ θ) ^ (-(1 / θ)) = 1 / t
    rw [← Real.rpow_mul ht.le]
    have : θ * -(1 / θ) = -1 := by field_simp
    rw [this, Real.rpow_neg_one, one_div]
  · intro t ht
    exact Real.rpow_pos_of_pos ht _
  · intro v hv; exact Real.sign_of_pos hv
  · intro v hv; exact Real.sign_of_neg hv
  all_goals assumption

/-! ## The conditional distribution is a distribution function in its second argument -/

/-- abstract powers (`CondPowers`: `p` non-decreasing and ≥ 0 on [0,∞), `q` non-increasing with values in [0,1] on
    [1,∞)), 0 ≤ η ≤ 1, every ε: `x ↦ F_ε(x)` takes values in [0,1] and is non-decreasing on `x ≠ 0`
    (at `x = 0` the code divides by zero; jumps are never 0) -/
theorem cond_dist_is_monotone {K : Type} [Field K] [LinearOrder K] [IsStrictOrderedRing K] {p q : K → K}
    (h : CondPowers p q) (eta e : K) (h0 : 0 ≤ eta) (h1 : eta ≤ 1) :
    (∀ x, 0 ≤ condDist p q (fun a b => |a / b|) eta e x ∧ condDist p q (fun a b => |a / b|) eta e x ≤ 1) ∧
    (∀ x y, x ≠ 0 → y ≠ 0 → x ≤ y →
      condDist p q (fun a b => |a / b|) eta e x ≤ condDist p q (fun a b => |a / b|) eta e y) :=
  ⟨fun x => cond_dist_range h eta e x h0 h1, fun x y hx hy hxy => cond_dist_mono h eta e x y h0 h1 hx hy hxy⟩

/-- Clayton θ = 1, the executable model the driver runs (`condDist1`, compared exactly with the implementation):
    values in [0,1], non-decreasing on x ≠ 0 -/
theorem condDist1_is_monotone (eta e : Rat) (h0 : 0 ≤ eta) (h1 : eta ≤ 1) :
    (∀ x, 0 ≤ condDist1 eta e x ∧ condDist1 eta e x ≤ 1) ∧
    (∀ x y, x ≠ 0 → y ≠ 0 → x ≤ y → condDist1 eta e x ≤ condDist1 eta e y) := by
  simp only [condDist1_eq]
  exact cond_dist_is_monotone condPowers_theta1 eta e h0 h1

/-- **every θ > 0, every η ∈ [0,1], every ε, real powers**: the coded conditional distribution takes values in [0,1]
    and is non-decreasing in x on x ≠ 0 -/
theorem clayton_real_cond_monotone (θ : ℝ) (hθ : 0 < θ) (eta e : ℝ) (h0 : 0 ≤ eta) (h1 : eta ≤ 1) :
    (∀ x, 0 ≤ condDist (fun t => t ^ θ) (fun y => y ^ (-1 - 1 / θ)) (fun a b => |a / b|) eta e x ∧
          condDist (fun t => t ^ θ) (fun y => y ^ (-1 - 1 / θ)) (fun a b => |a / b|) eta e x ≤ 1) ∧
    (∀ x y, x ≠ 0 → y ≠ 0 → x ≤ y →
      condDist (fun t => t ^ θ) (fun y => y ^ (-1 - 1 / θ)) (fun a b => |a / b|) eta e x ≤
        condDist (fun t => t ^ θ) (fun y => y ^ (-1 - 1 / θ)) (fun a b => |a / b|) eta e y) :=
  cond_dist_is_monotone (condPowers_real θ hθ) eta e h0 h1

/-- **every θ > 0, every η, every ε**: `F_ε(x) → 0` as `x → −∞` and `F_ε(x) → 1` as `x → +∞` -/
theorem clayton_real_cond_limits (θ : ℝ) (hθ : 0 < θ) (eta e : ℝ) :
    Filter.Tendsto (fun x => condDist (fun t : ℝ => t ^ θ) (fun y => y ^ (-1 - 1 / θ)) (fun a b => |a / b|) eta e x)
      Filter.atBot (nhds 0) ∧
    Filter.Tendsto (fun x => condDist (fun t : ℝ => t ^ θ) (fun y => y ^ (-1 - 1 / θ)) (fun a b => |a / b|) eta e x)
      Filter.atTop (nhds 1) :=
  ⟨cond_real_tendsto_atBot θ hθ eta e, cond_real_tendsto_atTop θ hθ eta e⟩

/-- θ = 1 sanity values of the executable model: ε = 1, η = 1/4: F(−1) = 9/16 ≤ F(1) = 13/16 -/
example : condDist1 (1/4) 1 (-1) = 9/16 ∧ condDist1 (1/4) 1 1 = 13/16 := by
  constructor <;> norm_num [condDist1, condDist, rabs]

end Rpylib.Copula
