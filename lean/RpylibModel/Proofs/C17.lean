/-
C17 — Payoffs and underlyings are pure functions of the path obeying static identities.
Property theorems about RpylibModel/Model/Payoff.lean, for all strikes, barriers, thresholds, paths, time grids and
all histories of operations on one product object.  Helper lemmas: Proofs/Lemmas/C17Basic.lean, C17Real.lean.

Not at full strength (kept visible below, listed in harness/props/c17.py NOT_PROVED):
  * `butterfly_nonneg_partial`: the property says "butterfly … non-negative" for all strikes; the constructor accepts
    any K1 < K2 < K3 and the value is negative above 2 K2 − K1 when K2 lies below the midpoint
    (`butterfly_negative_witness`, `butterfly_neg_of_low_mid`).  Proved for K1 + K3 ≤ 2 K2.
  * `log_identity_agree`: for Performances / MaximumOfPerformances under the explicit hypothesis
    exp(x − log s) = exp(x)/s (a theorem for the real pair, `real_exp_sub_log`; no strictly monotone ℚ → ℚ pair has
    it).  NthDefaultTimes is covered since 6ac83d2; `nthDefault_identity_raises` / `nthDefault_disagree_witness` are about the
    pre-fix implementation `undIdOld`.
-/
import RpylibModel.Model.Payoff
import RpylibModel.Proofs.Lemmas.C17Basic
import RpylibModel.Proofs.Lemmas.C17Real
import Mathlib.Tactic.Linarith
import Mathlib.Tactic.Ring
import Mathlib.Tactic.FieldSimp
import Mathlib.Algebra.Order.Field.Rat

namespace Rpylib.Payoff

/-! ### static identities of the payoff formulas -/

/-- **call − put = forward**, every underlying value and strike -/
theorem call_put_parity (u K : Rat) : call u K - put u K = forward u K := by
  unfold call put vanilla forward rmax
  simp only [Bool.false_eq_true, if_true, if_false]
  split_ifs <;> linarith

/-- … per component for a vector of strikes -/
theorem call_put_parity_vec (u : Rat) (Ks : List Rat) :
    List.zipWith (· - ·) (vanillaVec true u Ks) (vanillaVec false u Ks) = Ks.map (forward u) := by
  induction Ks with
  | nil => rfl
  | cons K Ks ih =>
    simp only [vanillaVec, List.map_cons, List.zipWith_cons_cons] at ih ⊢
    rw [ih]
    congr 1
    unfold vanilla forward rmax
    simp only [Bool.false_eq_true, if_true, if_false]
    split_ifs <;> linarith

/-- **call spread = call(K1) − call(K2)** (the constructor enforces K1 < K2) -/
theorem callspread_eq (u K1 K2 : Rat) (h : K1 < K2) : callSpread u K1 K2 = call u K1 - call u K2 := by
  unfold callSpread call vanilla rmax
  simp only [if_true]
  split_ifs <;> linarith

/-- … **non-negative**, and capped by the strike difference -/
theorem callspread_nonneg (u K1 K2 : Rat) (h : K1 < K2) : 0 ≤ callSpread u K1 K2 ∧ callSpread u K1 K2 ≤ K2 - K1 := by
  unfold callSpread rmax
  constructor <;> split_ifs <;> linarith

/-- **butterfly = call(K1) − 2 call(K2) + call(K3)** -/
theorem butterfly_eq (u K1 K2 K3 : Rat) : butterfly u K1 K2 K3 = call u K1 - 2 * call u K2 + call u K3 := by
  unfold butterfly call vanilla rmax
  simp only [if_true]
  split_ifs <;> linarith

/- full statement (false of the code): `∀ u K1 K2 K3, K1 < K2 → K2 < K3 → 0 ≤ butterfly u K1 K2 K3`. -/
/-- butterfly **non-negative** when the middle strike is not below the midpoint of the wings -/
theorem butterfly_nonneg_partial (u K1 K2 K3 : Rat) (h12 : K1 < K2) (_h23 : K2 < K3) (hm : K1 + K3 ≤ 2 * K2) :
    0 ≤ butterfly u K1 K2 K3 := by
  unfold butterfly rmax
  split_ifs <;> linarith

/-- with a low middle strike the accepted butterfly is negative at and above the upper wing -/
theorem butterfly_neg_of_low_mid (u K1 K2 K3 : Rat) (h12 : K1 < K2) (_h23 : K2 < K3) (hm : 2 * K2 < K1 + K3)
    (hu : K3 ≤ u) : butterfly u K1 K2 K3 < 0 := by
  unfold butterfly rmax
  split_ifs <;> linarith

theorem butterfly_negative_witness : butterfly 3 1 (3 / 2) 3 < 0 := by decide +kernel

/-- **digital call + digital put = 1**, the strike itself included -/
theorem digital_sum_one (u K : Rat) : digital true u K + digital false u K = 1 := by
  unfold digital; simp

/-- **knock-in + knock-out = vanilla** for the same event flag (same path, same barrier), call or put -/
theorem ki_plus_ko_eq_vanilla (c : Bool) (K : Rat) (flag : Bool) (u : Rat) :
    barrierEval c K true flag u + barrierEval c K false flag u = vanilla c u K := by
  unfold barrierEval; cases flag <;> simp

/-- … at the level of products: an up/down-and-in, the matching -out and the vanilla product on the same path -/
theorem ki_plus_ko_product (E : ExpLog) (U : UnderlyingT) (c : Bool) (K : Rat) (up : Bool) (B n : Rat) (rep : Rep)
    (p : Path) (u : Rat) (hf : p.flat = true) (hu : undValue E rep U p = .vec [u]) :
    ∃ a b, pureValue E ⟨U, .barrier c K up true B, n⟩ rep p = .vec [a] ∧
           pureValue E ⟨U, .barrier c K up false B, n⟩ rep p = .vec [b] ∧
           pureValue E ⟨U, .vanilla c K, n⟩ rep p = .vec [a + b] := by
  refine ⟨n * barrierEval c K true (knocked up B (p.rows.headD [])) u,
          n * barrierEval c K false (knocked up B (p.rows.headD [])) u, ?_, ?_, ?_⟩
  · simp [pureValue, hu, processRaises, hf, processFlag, evalPay, scale]
  · simp [pureValue, hu, processRaises, hf, processFlag, evalPay, scale]
  · simp [pureValue, hu, processRaises, evalPay, evalStateless, scale]
    rw [← mul_add, ki_plus_ko_eq_vanilla]

/-- **notional scales linearly** -/
theorem notional_linear (E : ExpLog) (U : UnderlyingT) (P : PayoffT) (c n : Rat) (rep : Rep) (p : Path) :
    pureValue E ⟨U, P, c * n⟩ rep p = scale c (pureValue E ⟨U, P, n⟩ rep p) := by
  have hs : ∀ v, scale (c * n) v = scale c (scale n v) := by
    intro v; cases v with
    | vec l => simp only [scale, List.map_map]; congr 1; apply List.map_congr_left; intro x _; simp [mul_assoc]
    | time t => rfl
    | err => rfl
  unfold pureValue
  dsimp only
  split_ifs <;> first | rfl | exact hs _

/-! ### the Asian average -/

/-- time grid of an averaging underlying: starts at 0, strictly increasing -/
def TimeGrid (n : Nat) (t : Nat → Rat) : Prop := t 0 = 0 ∧ ∀ k, k < n → t k < t (k + 1)

theorem timeGrid_pos (n : Nat) (t : Nat → Rat) (h : TimeGrid n t) : ∀ k, 1 ≤ k → k ≤ n → 0 < t k := by
  intro k h1 hk
  induction k with
  | zero => omega
  | succ k ih =>
    by_cases hk0 : k = 0
    · subst hk0; have := h.2 0 (by omega); rw [h.1] at this; exact this
    · have := ih (by omega) (by omega); have := h.2 k (by omega); linarith

def asianWeight (n : Nat) (t : Nat → Rat) (k : Nat) : Rat := dt t k / t n

/-- the coded value is the weighted average with weights `(t_k − t_{k−1}) / t_n` -/
theorem asian_is_weighted_average (n : Nat) (t s : Nat → Rat) :
    asianIdx n t s = sumTo (n + 1) (fun k => asianWeight n t k * s k) := by
  unfold asianIdx asianWeight
  have : (fun k => dt t k / t n * s k) = (fun k => (1 / t n) * (s k * dt t k)) := by
    funext k; ring
  rw [this, sumTo_mul]; unfold dt; ring

theorem dt_nonneg (n : Nat) (t : Nat → Rat) (h : TimeGrid n t) (k : Nat) (hk : k ≤ n) : 0 ≤ dt t k := by
  unfold dt
  by_cases hk0 : k = 0
  · simp [hk0, h.1]
  · simp only [hk0, if_false]
    have := h.2 (k - 1) (by omega)
    have e : k - 1 + 1 = k := by omega
    rw [e] at this; linarith

theorem asian_weights_nonneg (n : Nat) (t : Nat → Rat) (hn : 1 ≤ n) (h : TimeGrid n t) (k : Nat) (hk : k ≤ n) :
    0 ≤ asianWeight n t k :=
  div_nonneg (dt_nonneg n t h k hk) (timeGrid_pos n t h n hn (le_refl _)).le

/-- the time-0 value carries weight 0 (right-endpoint rule) -/
theorem asian_weight_zero (n : Nat) (t : Nat → Rat) (h : TimeGrid n t) : asianWeight n t 0 = 0 := by
  simp [asianWeight, dt, h.1]

theorem asian_weights_sum_one (n : Nat) (t : Nat → Rat) (hn : 1 ≤ n) (h : TimeGrid n t) :
    sumTo (n + 1) (asianWeight n t) = 1 := by
  have hT := timeGrid_pos n t h n hn (le_refl _)
  have : asianWeight n t = (fun k => (1 / t n) * dt t k) := by funext k; unfold asianWeight; ring
  rw [this, sumTo_mul, sumTo_dt]; field_simp

/-- **the average lies between the path's extremes** (bounds are only needed on the values that carry weight,
`k = 1 … n`; a fortiori between the minimum and the maximum of the whole path) -/
theorem asian_between_extremes (n : Nat) (t s : Nat → Rat) (hn : 1 ≤ n) (h : TimeGrid n t) (lo hi : Rat)
    (hlo : ∀ k, 1 ≤ k → k ≤ n → lo ≤ s k) (hhi : ∀ k, 1 ≤ k → k ≤ n → s k ≤ hi) :
    lo ≤ asianIdx n t s ∧ asianIdx n t s ≤ hi := by
  have hT := timeGrid_pos n t h n hn (le_refl _)
  have hw : ∀ k, k ≤ n → 0 ≤ dt t k := dt_nonneg n t h
  have h0 : dt t 0 = 0 := by simp [dt, h.1]
  have key : ∀ c : Rat, sumTo (n + 1) (fun k => c * dt t k) = c * t n := by
    intro c; rw [sumTo_mul, sumTo_dt]
  unfold asianIdx
  have e : (fun k => s k * (t k - (if k = 0 then 0 else t (k - 1)))) = (fun k => s k * dt t k) := rfl
  rw [e]
  constructor
  · rw [le_div_iff₀ hT, ← key lo]
    apply sumTo_le
    intro i hi
    by_cases hi0 : i = 0
    · subst hi0; simp [h0]
    · exact mul_le_mul_of_nonneg_right (hlo i (by omega) (by omega)) (hw i (by omega))
  · rw [div_le_iff₀ hT, ← key hi]
    apply sumTo_le
    intro i hi
    by_cases hi0 : i = 0
    · subst hi0; simp [h0]
    · exact mul_le_mul_of_nonneg_right (hhi i (by omega) (by omega)) (hw i (by omega))

theorem getD_mem (row : List Rat) (k : Nat) (hk : k < row.length) : row.getD k 0 ∈ row := by
  rw [List.getD_eq_getElem?_getD, List.getElem?_eq_getElem hk]; simp

/-- the same on the lists the driver executes: every row of the path, any bounds of its entries -/
theorem asianRow_between_extremes (times row : List Rat) (hlen : row.length = times.length) (h2 : 2 ≤ times.length)
    (hg : TimeGrid (times.length - 1) (fun k => times.getD k 0)) (lo hi : Rat)
    (hlo : ∀ x ∈ row, lo ≤ x) (hhi : ∀ x ∈ row, x ≤ hi) :
    lo ≤ asianRow times row ∧ asianRow times row ≤ hi := by
  unfold asianRow
  apply asian_between_extremes _ _ _ (by omega) hg
  · intro k _ hk; exact hlo _ (getD_mem row k (by omega))
  · intro k _ hk; exact hhi _ (getD_mem row k (by omega))

/-! ### default times -/

/-- **a default time is the first time a jump falls below the threshold** -/
theorem default_time_first_below (a : Rat) (n : Nat) (j t : Nat → Rat) (τ : Rat) :
    defaultTimeIdx a n j t = some τ ↔
      ∃ k, k < n ∧ j (k + 1) - j k < a ∧ (∀ i, i < k → ¬ (j (i + 1) - j i < a)) ∧ τ = t (k + 1) := by
  unfold defaultTimeIdx
  constructor
  · intro h
    rw [Option.map_eq_some_iff] at h
    obtain ⟨k, hk, hτ⟩ := h
    rw [firstIdx_some] at hk
    obtain ⟨_, h2, h3, h4⟩ := hk
    refine ⟨k, by omega, by simpa using h3, fun i hi => ?_, hτ.symm⟩
    have := h4 i (by omega) hi
    simpa using this
  · rintro ⟨k, hk, h1, h2, rfl⟩
    rw [Option.map_eq_some_iff]
    refine ⟨k, ?_, rfl⟩
    rw [firstIdx_some]
    refine ⟨by omega, by omega, by simpa using h1, fun i _ hi => ?_⟩
    have := h2 i hi
    simpa using this

/-- … **and it is infinite exactly when no jump does** -/
theorem default_time_infinite_iff (a : Rat) (n : Nat) (j t : Nat → Rat) :
    defaultTimeIdx a n j t = none ↔ ∀ k, k < n → ¬ (j (k + 1) - j k < a) := by
  unfold defaultTimeIdx
  rw [Option.map_eq_none_iff, firstIdx_none]
  constructor
  · intro h k hk; have := h k (by omega) (by omega); simpa using this
  · intro h i _ hi; have := h i (by omega); simpa using this

/-- the n-th-to-default times are the order statistics of the individual default times … -/
theorem kthSmallest_perm (dts : List (Option Rat)) : (dts.mergeSort extLe).Perm dts := List.mergeSort_perm dts extLe

/-- … hence **non-decreasing in n** -/
theorem nth_default_monotone (dts : List (Option Rat)) (k k' : Nat) (a b : Option Rat) (hk : k ≤ k')
    (ha : kthSmallest dts k = some a) (hb : kthSmallest dts k' = some b) : extLe a b = true := by
  unfold kthSmallest at ha hb
  have hs := List.pairwise_mergeSort extLe_trans extLe_total dts
  rw [List.pairwise_iff_getElem] at hs
  obtain ⟨h1, e1⟩ := List.getElem?_eq_some_iff.mp ha
  obtain ⟨h2, e2⟩ := List.getElem?_eq_some_iff.mp hb
  by_cases hkk : k = k'
  · subst hkk; rw [← e1, ← e2]
    have := extLe_total (dts.mergeSort extLe)[k] (dts.mergeSort extLe)[k]; simpa using this
  · have := hs k k' h1 h2 (by omega); rw [e1, e2] at this; exact this

/-! ### identity and log representation agree on the same spot path -/

/-- what is assumed of the abstract pair: inverse of each other, `exp` strictly increasing -/
structure InversePair (E : ExpLog) : Prop where
  exp_log : ∀ s, 0 < s → E.exp (E.log s) = s
  log_exp : ∀ x, E.log (E.exp x) = x
  mono : ∀ x y, x < y → E.exp x < E.exp y

/-- non-vacuity: a rational pair satisfies the hypotheses -/
theorem ratExpLog_inversePair : InversePair ratExpLog := by
  refine ⟨fun s hs => ?_, fun x => ?_, fun x y hxy => ?_⟩
  · unfold ratExpLog; dsimp only
    by_cases h1 : 1 ≤ s
    · have : (0 : Rat) ≤ s - 1 := by linarith
      simp [h1, this]
    · have hs1 : s < 1 := not_le.mp h1
      have h2 : 1 < 1 / s := by rw [lt_div_iff₀ hs]; linarith
      have h3 : ¬ (0 : Rat) ≤ 1 - 1 / s := by linarith
      simp only [h1, h3, if_false]
      field_simp; ring
  · unfold ratExpLog; dsimp only
    by_cases h0 : 0 ≤ x
    · have : (1 : Rat) ≤ 1 + x := by linarith
      simp [h0, this]
    · have hx : x < 0 := not_le.mp h0
      have hp : (0 : Rat) < 1 - x := by linarith
      have h2 : 1 / (1 - x) < 1 := by rw [div_lt_iff₀ hp]; linarith
      have h3 : ¬ (1 : Rat) ≤ 1 / (1 - x) := by linarith
      simp only [h0, h3, if_false]
      field_simp; ring
  · unfold ratExpLog; dsimp only
    by_cases hx : 0 ≤ x
    · have hy : 0 ≤ y := by linarith
      simp only [hx, hy, if_true]; linarith
    · have hx' : x < 0 := not_le.mp hx
      have hp : (0 : Rat) < 1 - x := by linarith
      have h2 : 1 / (1 - x) < 1 := by rw [div_lt_iff₀ hp]; linarith
      by_cases hy : 0 ≤ y
      · simp only [hx, hy, if_true, if_false]; linarith
      · have hy' : y < 0 := not_le.mp hy
        have hq : (0 : Rat) < 1 - y := by linarith
        simp only [hx, hy, if_false]
        rw [div_lt_div_iff₀ hp hq]; linarith

/-- the spot path that a log path denotes -/
def Path.mapExp (E : ExpLog) (x : Path) : Path :=
  { x with rows := x.rows.map (fun r => r.map E.exp), jrows := x.jrows.map (fun r => r.map E.exp) }

theorem terminals_map (f : Rat → Rat) (rows : List (List Rat)) (h : ∀ r ∈ rows, r ≠ []) :
    terminals (rows.map (fun r => r.map f)) = (terminals rows).map f := by
  unfold terminals
  rw [List.map_map, List.map_map]
  apply List.map_congr_left
  intro r hr
  exact lastOf_map f r (h r hr)

theorem bcast_map (f : Rat → Rat) (l : List Rat) (n : Nat) : bcast (l.map f) n = (bcast l n).map f := by
  unfold bcast
  match l with
  | [] => simp
  | [x] => simp
  | x :: y :: r => simp

theorem zipWith_congr_right {γ : Type} (f g : Rat → Rat → γ) (l s : List Rat) (h : ∀ t ∈ s, ∀ x, f x t = g x t) :
    List.zipWith f l s = List.zipWith g l s := by
  induction l generalizing s with
  | nil => simp
  | cons a l ih =>
    cases s with
    | nil => simp
    | cons b s =>
      simp only [List.zipWith_cons_cons]
      rw [h b (by simp) a, ih s (fun t ht x => h t (by simp [ht]) x)]

theorem map_log_exp (E : ExpLog) (hE : InversePair E) (r : List Rat) : (r.map E.exp).map E.log = r := by
  rw [List.map_map]
  have : (E.log ∘ E.exp) = id := by funext x; simp [hE.log_exp]
  rw [this, List.map_id]

theorem lt_exp_iff (E : ExpLog) (hE : InversePair E) (t x : Rat) (ht : 0 < t) : t < E.exp x ↔ E.log t < x := by
  constructor
  · intro h
    by_contra hn
    have hle : x ≤ E.log t := not_lt.mp hn
    rcases lt_or_eq_of_le hle with h1 | h1
    · have := hE.mono _ _ h1; rw [hE.exp_log t ht] at this; linarith
    · rw [h1, hE.exp_log t ht] at h; exact lt_irrefl _ h
  · intro h; have := hE.mono _ _ h; rwa [hE.exp_log t ht] at this

theorem rmax_exp (E : ExpLog) (hE : InversePair E) (a b : Rat) : rmax (E.exp a) (E.exp b) = E.exp (rmax a b) := by
  unfold rmax
  by_cases h : a < b
  · simp [h, hE.mono a b h]
  · have hle : b ≤ a := not_lt.mp h
    have : ¬ E.exp a < E.exp b := by
      rcases lt_or_eq_of_le hle with h1 | h1
      · have := hE.mono _ _ h1; linarith
      · rw [h1]; exact lt_irrefl _
    simp [h, this]

theorem foldl_rmax_exp (E : ExpLog) (hE : InversePair E) (l : List Rat) :
    ∀ x, (l.map E.exp).foldl rmax (E.exp x) = E.exp (l.foldl rmax x) := by
  induction l with
  | nil => intro x; rfl
  | cons a l ih => intro x; simp only [List.map_cons, List.foldl_cons]; rw [rmax_exp E hE, ih]

theorem maxList_exp (E : ExpLog) (hE : InversePair E) (l : List Rat) :
    maxList (l.map E.exp) = (maxList l).map E.exp := by
  cases l with
  | nil => rfl
  | cons a l => simp only [List.map_cons, maxList, Option.map_some]; rw [foldl_rmax_exp E hE]

/-- which underlyings the agreement theorem covers, with the side conditions it needs: positive thresholds for the
indicators; the homomorphism property for the performance underlyings (see the header) -/
def Agreeable (E : ExpLog) : UnderlyingT → Prop
  | .indicators thr => ∀ t ∈ thr, 0 < t
  | .performances s0 => ∀ s ∈ s0, ∀ x, E.exp (x - E.log s) = E.exp x / s
  | .maxPerf s0 => ∀ s ∈ s0, ∀ x, E.exp (x - E.log s) = E.exp x / s
  | _ => True

/- full statement: `∀ U x, undId E U (x.mapExp E) = undLog E U x` — open for the performance underlyings without the
homomorphism hypothesis. -/
/-- **identity and log representations give the same underlying value for the same spot path**: evaluating the class'
identity implementation on the spot path `exp(x)` equals evaluating its log implementation on the log path `x` -/
theorem log_identity_agree (E : ExpLog) (hE : InversePair E) (U : UnderlyingT) (hU : Agreeable E U) (x : Path)
    (hx : ∀ r ∈ x.rows, r ≠ []) : undId E U (x.mapExp E) = undLog E U x := by
  have ht := terminals_map E.exp x.rows hx
  cases U with
  | spot => simp only [undId, undLog, Path.mapExp, ht]
  | logSpot => simp only [undId, undLog, Path.mapExp, ht, map_log_exp E hE]
  | asian => simp only [undId, undLog, Path.mapExp, List.map_map]; rfl
  | mean => simp only [undId, undLog, Path.mapExp, ht, List.length_map]
  | performances s0 =>
    simp only [undId, undLog, Path.mapExp, ht, bcast_map]
    rw [List.zipWith_map_left]
    congr 1
    apply zipWith_congr_right
    intro s hs y; exact (hU s hs y).symm
  | maxPerf s0 =>
    simp only [undId, undLog, Path.mapExp, ht, bcast_map]
    have : List.zipWith (· / ·) ((bcast (terminals x.rows) s0.length).map E.exp) s0
        = (List.zipWith (fun y s => y - E.log s) (bcast (terminals x.rows) s0.length) s0).map E.exp := by
      rw [List.zipWith_map_left, List.map_zipWith]
      apply zipWith_congr_right
      intro s hs y; exact (hU s hs y).symm
    rw [this, maxList_exp E hE]
    cases maxList (List.zipWith (fun y s => y - E.log s) (bcast (terminals x.rows) s0.length) s0) <;> rfl
  | nthSpot i =>
    simp only [undId, undLog, Path.mapExp]
    by_cases hf : x.flat = true
    · simp [hf]
    · simp only [hf, List.getElem?_map]
      cases hr : x.rows[i - 1]? with
      | none => rfl
      | some r =>
        have : r ∈ x.rows := List.mem_of_getElem? hr
        simp [lastOf_map E.exp r (hx r this)]
  | indicators thr =>
    simp only [undId, undLog, Path.mapExp, ht, bcast_map]
    rw [List.zipWith_map_left]
    have : List.zipWith (fun a t => decide (t < E.exp a)) (bcast (terminals x.rows) thr.length) thr
        = List.zipWith (fun a t => decide (E.log t < a)) (bcast (terminals x.rows) thr.length) thr := by
      apply zipWith_congr_right
      intro t htm y
      simp only [decide_eq_decide]
      exact lt_exp_iff E hE t y (hU t htm)
    rw [this]
  | defaultTime a =>
    simp only [undId, undLog, Path.mapExp]
    cases x.jrows with
    | nil => rfl
    | cons r rs => simp only [List.map_cons, List.headD_cons, map_log_exp E hE]
  | defaultTimeNth as k =>
    simp only [undId, undLog, Path.mapExp, List.getElem?_map]
    by_cases hf : x.flat = true
    · simp [hf]
    · simp only [hf]
      cases x.jrows[k - 1]? with
      | none => rfl
      | some r =>
        cases as[k - 1]? with
        | none => rfl
        | some a => simp only [Option.map_some, map_log_exp E hE]
  | nthDefault as k =>
    simp only [undId, undLog, Path.mapExp, List.length_map]
    by_cases hf : x.flat = true
    · simp [hf]
    · simp only [hf]
      rw [List.zipWith_map_left]
      have : (fun (r : List Rat) (a : Rat) => defaultTimeRow a x.times ((r.map E.exp).map E.log))
          = (fun r a => defaultTimeRow a x.times r) := by
        funext r a; rw [map_log_exp E hE]
      rw [this]

/-- before 6ac83d2 `NthDefaultTimes` in the identity representation raised on every path (`undIdOld`) … -/
theorem nthDefault_identity_raises (E : ExpLog) (as : List Rat) (k : Nat) (p : Path) :
    undIdOld E (.nthDefault as k) p = .err := rfl

/-- … while the log representation of the same spot path had (and has) a value: the agreement failed for this class -/
theorem nthDefault_disagree_witness :
    undLog ratExpLog (.nthDefault [-1] 1) ⟨[0, 1], [[0, 0]], [[0, -2]], false⟩ = .time (some 1) := by
  have h : defaultTimeRow (-1) [0, 1] [0, -2] = some 1 := by decide +kernel
  simp [undLog, kthSmallest, timeVal, h]

/-! ### the value of a product is a pure function of the path -/

theorem stepUv_bind (E : ExpLog) (T : Terms) (s : Obj) (p : Path) : (stepUv E T s p).1.bind = s.bind := by
  unfold stepUv
  dsimp only
  split_ifs <;> rfl

/-- invariant: the binding is the representation of the last `update` -/
theorem run_bind (E : ExpLog) (T : Terms) (ops : List Op) :
    ∀ s : Obj, (run E T ops s).bind = lastRep s.bind ops := by
  induction ops with
  | nil => intro s; rfl
  | cons o ops ih =>
    intro s
    have : run E T (o :: ops) s = run E T ops (step E T s o).1 := rfl
    rw [this, ih]
    cases o with
    | update r => rfl
    | uv p => show lastRep (stepUv E T s p).1.bind ops = _; rw [stepUv_bind]; rfl
    | call v => rfl

/-- the flag the payoff evaluates with after `process` does not depend on the flag it held before -/
theorem evalPay_processFlag (P : PayoffT) (p : Path) (f f' : Bool) (v : Val) :
    evalPay P (processFlag P p f) v = evalPay P (processFlag P p f') v := by
  cases P <;> rfl

theorem stepUv_err (E : ExpLog) (T : Terms) (s : Obj) (p : Path) (h : undValue E s.bind T.und p = .err) :
    stepUv E T s p = (s, .val .err) := by
  unfold stepUv; simp [h]

theorem stepUv_raises (E : ExpLog) (T : Terms) (s : Obj) (p : Path) (h : undValue E s.bind T.und p ≠ .err)
    (hr : processRaises T.pay p = true) : stepUv E T s p = ({ s with flag := false }, .val .err) := by
  unfold stepUv; simp [h, hr]

theorem stepUv_ok (E : ExpLog) (T : Terms) (s : Obj) (p : Path) (h : undValue E s.bind T.und p ≠ .err)
    (hr : ¬ processRaises T.pay p = true) :
    stepUv E T s p = ({ s with flag := processFlag T.pay p s.flag }, .val (undValue E s.bind T.und p)) := by
  unfold stepUv; simp [h, hr]

/-- in any state of the object the value obtained for a path is the pure function of the path, the terms and the
current binding: the barrier flag left by earlier paths is irrelevant -/
theorem valueOn_eq_pure (E : ExpLog) (T : Terms) (s : Obj) (p : Path) :
    valueOn E T s p = pureValue E T s.bind p := by
  have e : step E T s (.uv p) = stepUv E T s p := rfl
  unfold valueOn pureValue
  rw [e]
  by_cases h : undValue E s.bind T.und p = Val.err
  · rw [stepUv_err E T s p h]; simp [h, outVal]
  · by_cases hr : processRaises T.pay p = true
    · rw [stepUv_raises E T s p h hr]; simp [h, hr, outVal]
    · rw [stepUv_ok E T s p h hr]
      simp only [outVal, h, hr, step, if_false]
      rw [evalPay_processFlag T.pay p s.flag false]
      simp

/-- **pure_in_path**: after *every* history of operations on one product object (updates, earlier paths, earlier payoff
evaluations, in any order), the value obtained for a path equals the pure function of that path, the product's terms
and the representation set by the last `update` -/
theorem pure_in_path (E : ExpLog) (T : Terms) (ops : List Op) (p : Path) :
    valueOn E T (run E T ops Obj.init) p = pureValue E T (lastRep .identity ops) p := by
  rw [valueOn_eq_pure, run_bind]; rfl

/-- two histories that end in the same representation give the same value: no dependence on earlier paths or on
earlier `update` calls; in particular a used object behaves like a fresh one -/
theorem pure_in_path_history_irrelevant (E : ExpLog) (T : Terms) (ops ops' : List Op) (p : Path)
    (h : lastRep .identity ops = lastRep .identity ops') :
    valueOn E T (run E T ops Obj.init) p = valueOn E T (run E T ops' Obj.init) p := by
  rw [pure_in_path, pure_in_path, h]

/-! ### negation witnesses: the object before the three fixes -/

def wBarrier : Terms := ⟨.spot, .barrier true 1 true false 2, 1⟩
def wKnock : Path := ⟨[0, 1], [[1, 3]], [[0, 0]], true⟩
def wQuiet : Path := ⟨[0, 1], [[1, 3 / 2]], [[0, 0]], true⟩

/-- before b43cade (sticky flag): after one knocking path an up-and-out call is worth 0 on a path that never touches
the barrier; the pure value is 1/2 -/
theorem sticky_flag_witness :
    valueOnOld ratExpLog wBarrier (runOld ratExpLog wBarrier [.uv wKnock] Obj.init) wQuiet
      ≠ pureValue ratExpLog wBarrier .identity wQuiet := by
  decide +kernel

/-- the same history on the object as coded now -/
theorem sticky_flag_fixed :
    valueOn ratExpLog wBarrier (run ratExpLog wBarrier [.uv wKnock] Obj.init) wQuiet = .vec [1 / 2] := by
  decide +kernel

def wForward : Terms := ⟨.spot, .forward 0, 1⟩

/-- before b43b997 (sticky binding): `update(LOG); update(IDENDITY)` left the log implementation bound -/
theorem sticky_binding_witness :
    valueOnOld ratExpLog wForward (runOld ratExpLog wForward [.update .log, .update .identity] Obj.init) wQuiet
      ≠ pureValue ratExpLog wForward (lastRep .identity [.update .log, .update .identity]) wQuiet := by
  decide +kernel

def wAsian : Terms := ⟨.asian, .forward 0, 1⟩

/-- before dcab1cf: the Asian underlying raised on the path of a one-dimensional process; now it is the average -/
theorem asian_old_witness :
    valueOnOld ratExpLog wAsian Obj.init wQuiet = .err ∧ pureValue ratExpLog wAsian .identity wQuiet = .vec [3 / 2] := by
  decide +kernel

/-! ### a representation dependence that remains (known finding C17-barrier-raw-path) -/

/-- `Barrier.process` scans the raw path: priced with a log-represented process the barrier level is compared with
log-spot values.  Same spot path (1, 3), barrier 2: knocked in the identity representation, not knocked in the log
representation (log-spot path (0, 2) under the rational pair) -/
theorem barrier_flag_depends_on_representation :
    pureValue ratExpLog wBarrier .identity wKnock = .vec [0] ∧
    pureValue ratExpLog wBarrier .log ⟨[0, 1], [[0, 2]], [[0, 0]], true⟩ = .vec [2] := by
  decide +kernel

end Rpylib.Payoff
