/-
C17 — Payoffs and underlyings are pure functions of the path obeying static identities.
Property theorems about RpylibModel/Model/Payoff.lean, for all strikes, barriers, thresholds, paths, time grids and
all histories of operations on one product object.  Helper lemmas: Proofs/Lemmas/C17Basic.lean, C17Lists.lean, C17Real.lean.
Last section: identities of the stateless multi-underlying payoffs (Rainbow, Bond, Cap, Swaption, Ratchet, CDS) — parity,
sign, monotonicity in strike / first coupon / margin / recovery, bond chain rule, swaption–bond relation, ratchet property.

Not at full strength (kept visible below, listed in harness/props/c17.py NOT_PROVED):
  * `butterfly_nonneg_partial`: the property says "butterfly … non-negative" for all strikes; the constructor accepts
    any K1 < K2 < K3 and the value is negative above 2 K2 − K1 when K2 lies below the midpoint
    (`butterfly_negative_witness`, `butterfly_neg_of_low_mid`).  Proved for K1 + K3 ≤ 2 K2.
  * `log_identity_agree`: for Performances / MaximumOfPerformances under the explicit hypothesis
    exp(x − log s) = exp(x)/s (a theorem for the real pair, `real_exp_sub_log`; no strictly monotone ℚ → ℚ pair has
    it).  NthDefaultTimes is covered since 6ac83d2; `nthDefault_identity_raises` / `nthDefault_disagree_witness` are about the
    pre-fix implementation `undIdOld`.
-/
import RpylibModel.Model.Payoff
import RpylibModel.Proofs.Lemmas.C17Basic
import RpylibModel.Proofs.Lemmas.C17Lists
import RpylibModel.Proofs.Lemmas.C17Real
import Mathlib.Tactic.Linarith
import Mathlib.Tactic.Ring
import Mathlib.Tactic.FieldSimp
import Mathlib.Algebra.Order.Field.Rat

namespace Rpylib.Payoff

/-! ### static identities of the payoff formulas -/

/-- **call − put = forward**, every underlying value and strike -/
theorem call_put_parity (u K : Rat) : call u K - put u K = forward u K := by
  unfold call put vanilla forward rmax
  simp only [Bool.false_eq_true, if_true, if_false]
  split_ifs <;> linarith

/-- … per component for a vector of strikes -/
theorem call_put_parity_vec (u : Rat) (Ks : List Rat) :
    List.zipWith (· - ·) (vanillaVec true u Ks) (vanillaVec false u Ks) = Ks.map (forward u) := by
  induction Ks with
  | nil => rfl
  | cons K Ks ih =>
    simp only [vanillaVec, List.map_cons, List.zipWith_cons_cons] at ih ⊢
    rw [ih]
    congr 1
    unfold vanilla forward rmax
    simp only [Bool.false_eq_true, if_true, if_false]
    split_ifs <;> linarith

/-- **call spread = call(K1) − call(K2)** (the constructor enforces K1 < K2) -/
theorem callspread_eq (u K1 K2 : Rat) (h : K1 < K2) : callSpread u K1 K2 = call u K1 - call u K2 := by
  unfold callSpread call vanilla rmax
  simp only [if_true]
  split_ifs <;> linarith

/-- … **non-negative**, and capped by the strike difference -/
theorem callspread_nonneg (u K1 K2 : Rat) (h : K1 < K2) : 0 ≤ callSpread u K1 K2 ∧ callSpread u K1 K2 ≤ K2 - K1 := by
  unfold callSpread rmax
  constructor <;> split_ifs <;> linarith

/-- **butterfly = call(K1) − 2 call(K2) + call(K3)** -/
theorem butterfly_eq (u K1 K2 K3 : Rat) : butterfly u K1 K2 K3 = call u K1 - 2 * call u K2 + call u K3 := by
  unfold butterfly call vanilla rmax
  simp only [if_true]
  split_ifs <;> linarith

/- full statement (false of the code): `∀ u K1 K2 K3, K1 < K2 → K2 < K3 → 0 ≤ butterfly u K1 K2 K3`. -/
/-- butterfly **non-negative** when the middle strike is not below the midpoint of the wings -/
theorem butterfly_nonneg_partial (u K1 K2 K3 : Rat) (h12 : K1 < K2) (_h23 : K2 < K3) (hm : K1 + K3 ≤ 2 * K2) :
    0 ≤ butterfly u K1 K2 K3 := by
  unfold butterfly rmax
  split_ifs <;> linarith

/-- with a low middle strike the accepted butterfly is negative at and above the upper wing -/
theorem butterfly_neg_of_low_mid (u K1 K2 K3 : Rat) (h12 : K1 < K2) (_h23 : K2 < K3) (hm : 2 * K2 < K1 + K3)
    (hu : K3 ≤ u) : butterfly u K1 K2 K3 < 0 := by
  unfold butterfly rmax
  split_ifs <;> linarith

theorem butterfly_negative_witness : butterfly 3 1 (3 / 2) 3 < 0 := by decide +kernel

/-- **digital call + digital put = 1**, the strike itself included -/
theorem digital_sum_one (u K : Rat) : digital true u K + digital false u K = 1 := by
  unfold digital; simp

/-- **knock-in + knock-out = vanilla** for the same event flag (same path, same barrier), call or put -/
theorem ki_plus_ko_eq_vanilla (c : Bool) (K : Rat) (flag : Bool) (u : Rat) :
    barrierEval c K true flag u + barrierEval c K false flag u = vanilla c u K := by
  unfold barrierEval; cases flag <;> simp

/-- … at the level of products: an up/down-and-in, the matching -out and the vanilla product on the same path -/
theorem ki_plus_ko_product (E : ExpLog) (U : UnderlyingT) (c : Bool) (K : Rat) (up : Bool) (B n : Rat) (rep : Rep)
    (p : Path) (u : Rat) (hf : p.flat = true) (hu : undValue E rep U p = .vec [u]) :
    ∃ a b, pureValue E ⟨U, .barrier c K up true B, n⟩ rep p = .vec [a] ∧
           pureValue E ⟨U, .barrier c K up false B, n⟩ rep p = .vec [b] ∧
           pureValue E ⟨U, .vanilla c K, n⟩ rep p = .vec [a + b] := by
  refine ⟨n * barrierEval c K true (knocked up B (p.rows.headD [])) u,
          n * barrierEval c K false (knocked up B (p.rows.headD [])) u, ?_, ?_, ?_⟩
  · simp [pureValue, hu, processRaises, hf, processFlag, evalPay, scale]
  · simp [pureValue, hu, processRaises, hf, processFlag, evalPay, scale]
  · simp [pureValue, hu, processRaises, evalPay, evalStateless, scale]
    rw [← mul_add, ki_plus_ko_eq_vanilla]

/-- **notional scales linearly** -/
theorem notional_linear (E : ExpLog) (U : UnderlyingT) (P : PayoffT) (c n : Rat) (rep : Rep) (p : Path) :
    pureValue E ⟨U, P, c * n⟩ rep p = scale c (pureValue E ⟨U, P, n⟩ rep p) := by
  have hs : ∀ v, scale (c * n) v = scale c (scale n v) := by
    intro v; cases v with
    | vec l => simp only [scale, List.map_map]; congr 1; apply List.map_congr_left; intro x _; simp [mul_assoc]
    | time t => rfl
    | err => rfl
  unfold pureValue
  dsimp only
  split_ifs <;> first | rfl | exact hs _

/-! ### the Asian average -/

/-- time grid of an averaging underlying: starts at 0, strictly increasing -/
def TimeGrid (n : Nat) (t : Nat → Rat) : Prop := t 0 = 0 ∧ ∀ k, k < n → t k < t (k + 1)

theorem timeGrid_pos (n : Nat) (t : Nat → Rat) (h : TimeGrid n t) : ∀ k, 1 ≤ k → k ≤ n → 0 < t k := by
  intro k h1 hk
  induction k with
  | zero => omega
  | succ k ih =>
    by_cases hk0 : k = 0
    · subst hk0; have := h.2 0 (by omega); rw [h.1] at this; exact this
    · have := ih (by omega) (by omega); have := h.2 k (by omega); linarith

def asianWeight (n : Nat) (t : Nat → Rat) (k : Nat) : Rat := dt t k / t n

/-- the coded value is the weighted average with weights `(t_k − t_{k−1}) / t_n` -/
theorem asian_is_weighted_average (n : Nat) (t s : Nat → Rat) :
    asianIdx n t s = sumTo (n + 1) (fun k => asianWeight n t k * s k) := by
  unfold asianIdx asianWeight
  have : (fun k => dt t k / t n * s k) = (fun k => (1 / t n) * (s k * dt t k)) := by
    funext k; ring
  rw [this, sumTo_mul]; unfold dt; ring

theorem dt_nonneg (n : Nat) (t : Nat → Rat) (h : TimeGrid n t) (k : Nat) (hk : k ≤ n) : 0 ≤ dt t k := by
  unfold dt
  by_cases hk0 : k = 0
  · simp [hk0, h.1]
  · simp only [hk0, if_false]
    have := h.2 (k - 1) (by omega)
    have e : k - 1 + 1 = k := by omega
    rw [e] at this; linarith

theorem asian_weights_nonneg (n : Nat) (t : Nat → Rat) (hn : 1 ≤ n) (h : TimeGrid n t) (k : Nat) (hk : k ≤ n) :
    0 ≤ asianWeight n t k :=
  div_nonneg (dt_nonneg n t h k hk) (timeGrid_pos n t h n hn (le_refl _)).le

/-- the time-0 value carries weight 0 (right-endpoint rule) -/
theorem asian_weight_zero (n : Nat) (t : Nat → Rat) (h : TimeGrid n t) : asianWeight n t 0 = 0 := by
  simp [asianWeight, dt, h.1]

theorem asian_weights_sum_one (n : Nat) (t : Nat → Rat) (hn : 1 ≤ n) (h : TimeGrid n t) :
    sumTo (n + 1) (asianWeight n t) = 1 := by
  have hT := timeGrid_pos n t h n hn (le_refl _)
  have : asianWeight n t = (fun k => (1 / t n) * dt t k) := by funext k; unfold asianWeight; ring
  rw [this, sumTo_mul, sumTo_dt]; field_simp

/-- **the average lies between the path's extremes** (bounds are only needed on the values that carry weight,
`k = 1 … n`; a fortiori between the minimum and the maximum of the whole path) -/
theorem asian_between_extremes (n : Nat) (t s : Nat → Rat) (hn : 1 ≤ n) (h : TimeGrid n t) (lo hi : Rat)
    (hlo : ∀ k, 1 ≤ k → k ≤ n → lo ≤ s k) (hhi : ∀ k, 1 ≤ k → k ≤ n → s k ≤ hi) :
    lo ≤ asianIdx n t s ∧ asianIdx n t s ≤ hi := by
  have hT := timeGrid_pos n t h n hn (le_refl _)
  have hw : ∀ k, k ≤ n → 0 ≤ dt t k := dt_nonneg n t h
  have h0 : dt t 0 = 0 := by simp [dt, h.1]
  have key : ∀ c : Rat, sumTo (n + 1) (fun k => c * dt t k) = c * t n := by
    intro c; rw [sumTo_mul, sumTo_dt]
  unfold asianIdx
  have e : (fun k => s k * (t k - (if k = 0 then 0 else t (k - 1)))) = (fun k => s k * dt t k) := rfl
  rw [e]
  constructor
  · rw [le_div_iff₀ hT, ← key lo]
    apply sumTo_le
    intro i hi
    by_cases hi0 : i = 0
    · subst hi0; simp [h0]
    · exact mul_le_mul_of_nonneg_right (hlo i (by omega) (by omega)) (hw i (by omega))
  · rw [div_le_iff₀ hT, ← key hi]
    apply sumTo_le
    intro i hi
    by_cases hi0 : i = 0
    · subst hi0; simp [h0]
    · exact mul_le_mul_of_nonneg_right (hhi i (by omega) (by omega)) (hw i (by omega))

theorem getD_mem (row : List Rat) (k : Nat) (hk : k < row.length) : row.getD k 0 ∈ row := by
  rw [List.getD_eq_getElem?_getD, List.getElem?_eq_getElem hk]; simp

/-- the same on the lists the driver executes: every row of the path, any bounds of its entries -/
theorem asianRow_between_extremes (times row : List Rat) (hlen : row.length = times.length) (h2 : 2 ≤ times.length)
    (hg : TimeGrid (times.length - 1) (fun k => times.getD k 0)) (lo hi : Rat)
    (hlo : ∀ x ∈ row, lo ≤ x) (hhi : ∀ x ∈ row, x ≤ hi) :
    lo ≤ asianRow times row ∧ asianRow times row ≤ hi := by
  unfold asianRow
  apply asian_between_extremes _ _ _ (by omega) hg
  · intro k _ hk; exact hlo _ (getD_mem row k (by omega))
  · intro k _ hk; exact hhi _ (getD_mem row k (by omega))

/-! ### default times -/

/-- **a default time is the first time a jump falls below the threshold** -/
theorem default_time_first_below (a : Rat) (n : Nat) (j t : Nat → Rat) (τ : Rat) :
    defaultTimeIdx a n j t = some τ ↔
      ∃ k, k < n ∧ j (k + 1) - j k < a ∧ (∀ i, i < k → ¬ (j (i + 1) - j i < a)) ∧ τ = t (k + 1) := by
  unfold defaultTimeIdx
  constructor
  · intro h
    rw [Option.map_eq_some_iff] at h
    obtain ⟨k, hk, hτ⟩ := h
    rw [firstIdx_some] at hk
    obtain ⟨_, h2, h3, h4⟩ := hk
    refine ⟨k, by omega, by simpa using h3, fun i hi => ?_, hτ.symm⟩
    have := h4 i (by omega) hi
    simpa using this
  · rintro ⟨k, hk, h1, h2, rfl⟩
    rw [Option.map_eq_some_iff]
    refine ⟨k, ?_, rfl⟩
    rw [firstIdx_some]
    refine ⟨by omega, by omega, by simpa using h1, fun i _ hi => ?_⟩
    have := h2 i hi
    simpa using this

/-- … **and it is infinite exactly when no jump does** -/
theorem default_time_infinite_iff (a : Rat) (n : Nat) (j t : Nat → Rat) :
    defaultTimeIdx a n j t = none ↔ ∀ k, k < n → ¬ (j (k + 1) - j k < a) := by
  unfold defaultTimeIdx
  rw [Option.map_eq_none_iff, firstIdx_none]
  constructor
  · intro h k hk; have := h k (by omega) (by omega); simpa using this
  · intro h i _ hi; have := h i (by omega); simpa using this

/-- the n-th-to-default times are the order statistics of the individual default times … -/
theorem kthSmallest_perm (dts : List (Option Rat)) : (dts.mergeSort extLe).Perm dts := List.mergeSort_perm dts extLe

/-- … hence **non-decreasing in n** -/
theorem nth_default_monotone (dts : List (Option Rat)) (k k' : Nat) (a b : Option Rat) (hk : k ≤ k')
    (ha : kthSmallest dts k = some a) (hb : kthSmallest dts k' = some b) : extLe a b = true := by
  unfold kthSmallest at ha hb
  have hs := List.pairwise_mergeSort extLe_trans extLe_total dts
  rw [List.pairwise_iff_getElem] at hs
  obtain ⟨h1, e1⟩ := List.getElem?_eq_some_iff.mp ha
  obtain ⟨h2, e2⟩ := List.getElem?_eq_some_iff.mp hb
  by_cases hkk : k = k'
  · subst hkk; rw [← e1, ← e2]
    have := extLe_total (dts.mergeSort extLe)[k] (dts.mergeSort extLe)[k]; simpa using this
  · have := hs k k' h1 h2 (by omega); rw [e1, e2] at this; exact this

/-! ### identity and log representation agree on the same spot path -/

/-- what is assumed of the abstract pair: inverse of each other, `exp` strictly increasing -/
structure InversePair (E : ExpLog) : Prop where
  exp_log : ∀ s, 0 < s → E.exp (E.log s) = s
  log_exp : ∀ x, E.log (E.exp x) = x
  mono : ∀ x y, x < y → E.exp x < E.exp y

/-- non-vacuity: a rational pair satisfies the hypotheses -/
theorem ratExpLog_inversePair : InversePair ratExpLog := by
  refine ⟨fun s hs => ?_, fun x => ?_, fun x y hxy => ?_⟩
  · unfold ratExpLog; dsimp only
    by_cases h1 : 1 ≤ s
    · have : (0 : Rat) ≤ s - 1 := by linarith
      simp [h1, this]
    · have hs1 : s < 1 := not_le.mp h1
      have h2 : 1 < 1 / s := by rw [lt_div_iff₀ hs]; linarith
      have h3 : ¬ (0 : Rat) ≤ 1 - 1 / s := by linarith
      simp only [h1, h3, if_false]
      field_simp; ring
  · unfold ratExpLog; dsimp only
    by_cases h0 : 0 ≤ x
    · have : (1 : Rat) ≤ 1 + x := by linarith
      simp [h0, this]
    · have hx : x < 0 := not_le.mp h0
      have hp : (0 : Rat) < 1 - x := by linarith
      have h2 : 1 / (1 - x) < 1 := by rw [div_lt_iff₀ hp]; linarith
      have h3 : ¬ (1 : Rat) ≤ 1 / (1 - x) := by linarith
      simp only [h0, h3, if_false]
      field_simp; ring
  · unfold ratExpLog; dsimp only
    by_cases hx : 0 ≤ x
    · have hy : 0 ≤ y := by linarith
      simp only [hx, hy, if_true]; linarith
    · have hx' : x < 0 := not_le.mp hx
      have hp : (0 : Rat) < 1 - x := by linarith
      have h2 : 1 / (1 - x) < 1 := by rw [div_lt_iff₀ hp]; linarith
      by_cases hy : 0 ≤ y
      · simp only [hx, hy, if_true, if_false]; linarith
      · have hy' : y < 0 := not_le.mp hy
        have hq : (0 : Rat) < 1 - y := by linarith
        simp only [hx, hy, if_false]
        rw [div_lt_div_iff₀ hp hq]; linarith

/-- the spot path that a log path denotes -/
def Path.mapExp (E : ExpLog) (x : Path) : Path :=
  { x with rows := x.rows.map (fun r => r.map E.exp), jrows := x.jrows.map (fun r => r.map E.exp) }

theorem terminals_map (f : Rat → Rat) (rows : List (List Rat)) (h : ∀ r ∈ rows, r ≠ []) :
    terminals (rows.map (fun r => r.map f)) = (terminals rows).map f := by
  unfold terminals
  rw [List.map_map, List.map_map]
  apply List.map_congr_left
  intro r hr
  exact lastOf_map f r (h r hr)

theorem bcast_map (f : Rat → Rat) (l : List Rat) (n : Nat) : bcast (l.map f) n = (bcast l n).map f := by
  unfold bcast
  match l with
  | [] => simp
  | [x] => simp
  | x :: y :: r => simp

theorem zipWith_congr_right {γ : Type} (f g : Rat → Rat → γ) (l s : List Rat) (h : ∀ t ∈ s, ∀ x, f x t = g x t) :
    List.zipWith f l s = List.zipWith g l s := by
  induction l generalizing s with
  | nil => simp
  | cons a l ih =>
    cases s with
    | nil => simp
    | cons b s =>
      simp only [List.zipWith_cons_cons]
      rw [h b (by simp) a, ih s (fun t ht x => h t (by simp [ht]) x)]

theorem map_log_exp (E : ExpLog) (hE : InversePair E) (r : List Rat) : (r.map E.exp).map E.log = r := by
  rw [List.map_map]
  have : (E.log ∘ E.exp) = id := by funext x; simp [hE.log_exp]
  rw [this, List.map_id]

theorem lt_exp_iff (E : ExpLog) (hE : InversePair E) (t x : Rat) (ht : 0 < t) : t < E.exp x ↔ E.log t < x := by
  constructor
  · intro h
    by_contra hn
    have hle : x ≤ E.log t := not_lt.mp hn
    rcases lt_or_eq_of_le hle with h1 | h1
    · have := hE.mono _ _ h1; rw [hE.exp_log t ht] at this; linarith
    · rw [h1, hE.exp_log t ht] at h; exact lt_irrefl _ h
  · intro h; have := hE.mono _ _ h; rwa [hE.exp_log t ht] at this

theorem rmax_exp (E : ExpLog) (hE : InversePair E) (a b : Rat) : rmax (E.exp a) (E.exp b) = E.exp (rmax a b) := by
  unfold rmax
  by_cases h : a < b
  · simp [h, hE.mono a b h]
  · have hle : b ≤ a := not_lt.mp h
    have : ¬ E.exp a < E.exp b := by
      rcases lt_or_eq_of_le hle with h1 | h1
      · have := hE.mono _ _ h1; linarith
      · rw [h1]; exact lt_irrefl _
    simp [h, this]

theorem foldl_rmax_exp (E : ExpLog) (hE : InversePair E) (l : List Rat) :
    ∀ x, (l.map E.exp).foldl rmax (E.exp x) = E.exp (l.foldl rmax x) := by
  induction l with
  | nil => intro x; rfl
  | cons a l ih => intro x; simp only [List.map_cons, List.foldl_cons]; rw [rmax_exp E hE, ih]

theorem maxList_exp (E : ExpLog) (hE : InversePair E) (l : List Rat) :
    maxList (l.map E.exp) = (maxList l).map E.exp := by
  cases l with
  | nil => rfl
  | cons a l => simp only [List.map_cons, maxList, Option.map_some]; rw [foldl_rmax_exp E hE]

/-- which underlyings the agreement theorem covers, with the side conditions it needs: positive thresholds for the
indicators; the homomorphism property for the performance underlyings (see the header) -/
def Agreeable (E : ExpLog) : UnderlyingT → Prop
  | .indicators thr => ∀ t ∈ thr, 0 < t
  | .performances s0 => ∀ s ∈ s0, ∀ x, E.exp (x - E.log s) = E.exp x / s
  | .maxPerf s0 => ∀ s ∈ s0, ∀ x, E.exp (x - E.log s) = E.exp x / s
  | _ => True

/- full statement: `∀ U x, undId E U (x.mapExp E) = undLog E U x` — open for the performance underlyings without the
homomorphism hypothesis. -/
/-- **identity and log representations give the same underlying value for the same spot path**: evaluating the class'
identity implementation on the spot path `exp(x)` equals evaluating its log implementation on the log path `x` -/
theorem log_identity_agree (E : ExpLog) (hE : InversePair E) (U : UnderlyingT) (hU : Agreeable E U) (x : Path)
    (hx : ∀ r ∈ x.rows, r ≠ []) : undId E U (x.mapExp E) = undLog E U x := by
  have ht := terminals_map E.exp x.rows hx
  cases U with
  | spot => simp only [undId, undLog, Path.mapExp, ht]
  | logSpot => simp only [undId, undLog, Path.mapExp, ht, map_log_exp E hE]
  | asian => simp only [undId, undLog, Path.mapExp, List.map_map]; rfl
  | mean => simp only [undId, undLog, Path.mapExp, ht, List.length_map]
  | performances s0 =>
    simp only [undId, undLog, Path.mapExp, ht, bcast_map]
    rw [List.zipWith_map_left]
    congr 1
    apply zipWith_congr_right
    intro s hs y; exact (hU s hs y).symm
  | maxPerf s0 =>
    simp only [undId, undLog, Path.mapExp, ht, bcast_map]
    have : List.zipWith (· / ·) ((bcast (terminals x.rows) s0.length).map E.exp) s0
        = (List.zipWith (fun y s => y - E.log s) (bcast (terminals x.rows) s0.length) s0).map E.exp := by
      rw [List.zipWith_map_left, List.map_zipWith]
      apply zipWith_congr_right
      intro s hs y; exact (hU s hs y).symm
    rw [this, maxList_exp E hE]
    cases maxList (List.zipWith (fun y s => y - E.log s) (bcast (terminals x.rows) s0.length) s0) <;> rfl
  | nthSpot i =>
    simp only [undId, undLog, Path.mapExp]
    by_cases hf : x.flat = true
    · simp [hf]
    · simp only [hf, List.getElem?_map]
      cases hr : x.rows[i - 1]? with
      | none => rfl
      | some r =>
        have : r ∈ x.rows := List.mem_of_getElem? hr
        simp [lastOf_map E.exp r (hx r this)]
  | indicators thr =>
    simp only [undId, undLog, Path.mapExp, ht, bcast_map]
    rw [List.zipWith_map_left]
    have : List.zipWith (fun a t => decide (t < E.exp a)) (bcast (terminals x.rows) thr.length) thr
        = List.zipWith (fun a t => decide (E.log t < a)) (bcast (terminals x.rows) thr.length) thr := by
      apply zipWith_congr_right
      intro t htm y
      simp only [decide_eq_decide]
      exact lt_exp_iff E hE t y (hU t htm)
    rw [this]
  | defaultTime a =>
    simp only [undId, undLog, Path.mapExp]
    cases x.jrows with
    | nil => rfl
    | cons r rs => simp only [List.map_cons, List.headD_cons, map_log_exp E hE]
  | defaultTimeNth as k =>
    simp only [undId, undLog, Path.mapExp, List.getElem?_map]
    by_cases hf : x.flat = true
    · simp [hf]
    · simp only [hf]
      cases x.jrows[k - 1]? with
      | none => rfl
      | some r =>
        cases as[k - 1]? with
        | none => rfl
        | some a => simp only [Option.map_some, map_log_exp E hE]
  | nthDefault as k =>
    simp only [undId, undLog, Path.mapExp, List.length_map]
    by_cases hf : x.flat = true
    · simp [hf]
    · simp only [hf]
      rw [List.zipWith_map_left]
      have : (fun (r : List Rat) (a : Rat) => defaultTimeRow a x.times ((r.map E.exp).map E.log))
          = (fun r a => defaultTimeRow a x.times r) := by
        funext r a; rw [map_log_exp E hE]
      rw [this]

/-- before 6ac83d2 `NthDefaultTimes` in the identity representation raised on every path (`undIdOld`) … -/
theorem nthDefault_identity_raises (E : ExpLog) (as : List Rat) (k : Nat) (p : Path) :
    undIdOld E (.nthDefault as k) p = .err := rfl

/-- … while the log representation of the same spot path had (and has) a value: the agreement failed for this class -/
theorem nthDefault_disagree_witness :
    undLog ratExpLog (.nthDefault [-1] 1) ⟨[0, 1], [[0, 0]], [[0, -2]], false⟩ = .time (some 1) := by
  have h : defaultTimeRow (-1) [0, 1] [0, -2] = some 1 := by decide +kernel
  simp [undLog, kthSmallest, timeVal, h]

/-! ### the value of a product is a pure function of the path -/

theorem stepUv_bind (E : ExpLog) (T : Terms) (s : Obj) (p : Path) : (stepUv E T s p).1.bind = s.bind := by
  unfold stepUv
  dsimp only
  split_ifs <;> rfl

/-- invariant: the binding is the representation of the last `update` -/
theorem run_bind (E : ExpLog) (T : Terms) (ops : List Op) :
    ∀ s : Obj, (run E T ops s).bind = lastRep s.bind ops := by
  induction ops with
  | nil => intro s; rfl
  | cons o ops ih =>
    intro s
    have : run E T (o :: ops) s = run E T ops (step E T s o).1 := rfl
    rw [this, ih]
    cases o with
    | update r => rfl
    | uv p => show lastRep (stepUv E T s p).1.bind ops = _; rw [stepUv_bind]; rfl
    | call v => rfl

/-- the flag the payoff evaluates with after `process` does not depend on the flag it held before -/
theorem evalPay_processFlag (P : PayoffT) (p : Path) (f f' : Bool) (v : Val) :
    evalPay P (processFlag P p f) v = evalPay P (processFlag P p f') v := by
  cases P <;> rfl

theorem stepUv_err (E : ExpLog) (T : Terms) (s : Obj) (p : Path) (h : undValue E s.bind T.und p = .err) :
    stepUv E T s p = (s, .val .err) := by
  unfold stepUv; simp [h]

theorem stepUv_raises (E : ExpLog) (T : Terms) (s : Obj) (p : Path) (h : undValue E s.bind T.und p ≠ .err)
    (hr : processRaises T.pay p = true) : stepUv E T s p = ({ s with flag := false }, .val .err) := by
  unfold stepUv; simp [h, hr]

theorem stepUv_ok (E : ExpLog) (T : Terms) (s : Obj) (p : Path) (h : undValue E s.bind T.und p ≠ .err)
    (hr : ¬ processRaises T.pay p = true) :
    stepUv E T s p = ({ s with flag := processFlag T.pay p s.flag }, .val (undValue E s.bind T.und p)) := by
  unfold stepUv; simp [h, hr]

/-- in any state of the object the value obtained for a path is the pure function of the path, the terms and the
current binding: the barrier flag left by earlier paths is irrelevant -/
theorem valueOn_eq_pure (E : ExpLog) (T : Terms) (s : Obj) (p : Path) :
    valueOn E T s p = pureValue E T s.bind p := by
  have e : step E T s (.uv p) = stepUv E T s p := rfl
  unfold valueOn pureValue
  rw [e]
  by_cases h : undValue E s.bind T.und p = Val.err
  · rw [stepUv_err E T s p h]; simp [h, outVal]
  · by_cases hr : processRaises T.pay p = true
    · rw [stepUv_raises E T s p h hr]; simp [h, hr, outVal]
    · rw [stepUv_ok E T s p h hr]
      simp only [outVal, h, hr, step, if_false]
      rw [evalPay_processFlag T.pay p s.flag false]
      simp

/-- **pure_in_path**: after *every* history of operations on one product object (updates, earlier paths, earlier payoff
evaluations, in any order), the value obtained for a path equals the pure function of that path, the product's terms
and the representation set by the last `update` -/
theorem pure_in_path (E : ExpLog) (T : Terms) (ops : List Op) (p : Path) :
    valueOn E T (run E T ops Obj.init) p = pureValue E T (lastRep .identity ops) p := by
  rw [valueOn_eq_pure, run_bind]; rfl

/-- two histories that end in the same representation give the same value: no dependence on earlier paths or on
earlier `update` calls; in particular a used object behaves like a fresh one -/
theorem pure_in_path_history_irrelevant (E : ExpLog) (T : Terms) (ops ops' : List Op) (p : Path)
    (h : lastRep .identity ops = lastRep .identity ops') :
    valueOn E T (run E T ops Obj.init) p = valueOn E T (run E T ops' Obj.init) p := by
  rw [pure_in_path, pure_in_path, h]

/-! ### negation witnesses: the object before the three fixes -/

def wBarrier : Terms := ⟨.spot, .barrier true 1 true false 2, 1⟩
def wKnock : Path := ⟨[0, 1], [[1, 3]], [[0, 0]], true⟩
def wQuiet : Path := ⟨[0, 1], [[1, 3 / 2]], [[0, 0]], true⟩

/-- before b43cade (sticky flag): after one knocking path an up-and-out call is worth 0 on a path that never touches
the barrier; the pure value is 1/2 -/
theorem sticky_flag_witness :
    valueOnOld ratExpLog wBarrier (runOld ratExpLog wBarrier [.uv wKnock] Obj.init) wQuiet
      ≠ pureValue ratExpLog wBarrier .identity wQuiet := by
  decide +kernel

/-- the same history on the object as coded now -/
theorem sticky_flag_fixed :
    valueOn ratExpLog wBarrier (run ratExpLog wBarrier [.uv wKnock] Obj.init) wQuiet = .vec [1 / 2] := by
  decide +kernel

def wForward : Terms := ⟨.spot, .forward 0, 1⟩

/-- before b43b997 (sticky binding): `update(LOG); update(IDENDITY)` left the log implementation bound -/
theorem sticky_binding_witness :
    valueOnOld ratExpLog wForward (runOld ratExpLog wForward [.update .log, .update .identity] Obj.init) wQuiet
      ≠ pureValue ratExpLog wForward (lastRep .identity [.update .log, .update .identity]) wQuiet := by
  decide +kernel

def wAsian : Terms := ⟨.asian, .forward 0, 1⟩

/-- before dcab1cf: the Asian underlying raised on the path of a one-dimensional process; now it is the average -/
theorem asian_old_witness :
    valueOnOld ratExpLog wAsian Obj.init wQuiet = .err ∧ pureValue ratExpLog wAsian .identity wQuiet = .vec [3 / 2] := by
  decide +kernel

/-! ### a representation dependence that remains (known finding C17-barrier-raw-path) -/

/-- `Barrier.process` scans the raw path: priced with a log-represented process the barrier level is compared with
log-spot values.  Same spot path (1, 3), barrier 2: knocked in the identity representation, not knocked in the log
representation (log-spot path (0, 2) under the rational pair) -/
theorem barrier_flag_depends_on_representation :
    pureValue ratExpLog wBarrier .identity wKnock = .vec [0] ∧
    pureValue ratExpLog wBarrier .log ⟨[0, 1], [[0, 2]], [[0, 0]], true⟩ = .vec [2] := by
  decide +kernel

/-! ### Rainbow, Bond, Cap, Swaption, Ratchet, CDS: static identities (payoff.py:324-532) -/

/-- side conditions met by every Libor curve the payoffs are used with: accrual periods `δ ≥ 0`, rates `≥ 0` (then all
accrual factors `1 + δL` are positive) -/
def CurveOK (deltas rates : List Rat) : Prop := (∀ d ∈ deltas, 0 ≤ d) ∧ (∀ l ∈ rates, 0 ≤ l)

theorem factorOf_pos (deltas L0 : List Rat) (h : CurveOK deltas L0) : 0 < factorOf deltas L0 := by
  unfold factorOf
  exact div_pos one_pos (listProd_pos _ (mem_accr_pos deltas L0 h.1 h.2))

/-- the weights `adj[::-1]` every rate payoff multiplies its cash flows with -/
def adjRev (deltas L : List Rat) : List Rat := (cumprod (accr deltas L)).reverse

theorem adjRev_nonneg (deltas L : List Rat) (h : CurveOK deltas L) : ∀ y ∈ adjRev deltas L, 0 ≤ y := by
  intro y hy
  unfold adjRev at hy
  rw [List.mem_reverse] at hy
  exact cumprod_nonneg _ (fun x hx => (mem_accr_pos deltas L h.1 h.2 x hx).le) y hy

/-- the annuity `Σ δ_k adj[::-1][k]` of the swaption is non-negative -/
theorem annuity_nonneg (deltas L : List Rat) (h : CurveOK deltas L) :
    0 ≤ listSum (List.zipWith (· * ·) deltas (adjRev deltas L)) :=
  dot_nonneg deltas _ h.1 (adjRev_nonneg deltas L h)

/-! #### Bond -/

/-- **bond on today's curve is worth 1** (`_factor` normalises by today's accruals) -/
theorem bond_today (deltas L0 : List Rat) (h : listProd (accr deltas L0) ≠ 0) : bond deltas L0 L0 = 1 := by
  unfold bond factorOf; field_simp

/-- **bond positive** on admissible curves -/
theorem bond_pos (deltas L0 L : List Rat) (h0 : CurveOK deltas L0) (h : CurveOK deltas L) : 0 < bond deltas L0 L := by
  unfold bond
  exact mul_pos (listProd_pos _ (mem_accr_pos deltas L h.1 h.2)) (factorOf_pos deltas L0 h0)

/-- **bond values chain**: re-basing on an intermediate curve -/
theorem bond_chain (deltas L0 L1 L2 : List Rat) (h : listProd (accr deltas L1) ≠ 0) :
    bond deltas L0 L1 * bond deltas L1 L2 = bond deltas L0 L2 := by
  unfold bond factorOf; field_simp

/-- **bond increasing in every rate** -/
theorem bond_monotone_rates (deltas L0 L L' : List Rat) (h0 : CurveOK deltas L0) (h : CurveOK deltas L)
    (hLL : List.Forall₂ (· ≤ ·) L L') : bond deltas L0 L ≤ bond deltas L0 L' := by
  unfold bond
  exact mul_le_mul_of_nonneg_right (listProd_accr_le deltas L L' hLL h.1 h.2) (factorOf_pos deltas L0 h0).le

/-! #### Swaption -/

/-- the payer swap value the swaption is written on, in units of the terminal bond -/
def payerSwap (deltas : List Rat) (K : Rat) (L : List Rat) : Rat :=
  lastOf (cumprod (accr deltas L)) - 1 - K * listSum (List.zipWith (· * ·) deltas (adjRev deltas L))

theorem swaption_eq (deltas L0 : List Rat) (K : Rat) (payer : Bool) (L : List Rat) :
    swaption deltas L0 K payer L = rmax ((if payer then 1 else -1) * payerSwap deltas K L) 0 * factorOf deltas L0 := rfl

/-- **payer − receiver = swap** (the swaption analogue of call − put = forward), every curve and strike -/
theorem swaption_parity (deltas L0 : List Rat) (K : Rat) (L : List Rat) :
    swaption deltas L0 K true L - swaption deltas L0 K false L = payerSwap deltas K L * factorOf deltas L0 := by
  rw [swaption_eq, swaption_eq]
  simp only [Bool.false_eq_true, if_true, if_false]
  have e : ∀ x : Rat, rmax (1 * x) 0 - rmax (-1 * x) 0 = x := by
    intro x; unfold rmax; split_ifs <;> linarith
  rw [← sub_mul, e]

/-- **swaption non-negative** -/
theorem swaption_nonneg (deltas L0 : List Rat) (K : Rat) (payer : Bool) (L : List Rat) (h0 : CurveOK deltas L0) :
    0 ≤ swaption deltas L0 K payer L := by
  rw [swaption_eq]
  exact mul_nonneg (rmax_nonneg_right _) (factorOf_pos deltas L0 h0).le

/-- **payer swaption decreasing, receiver swaption increasing in the strike** -/
theorem swaption_monotone_strike (deltas L0 : List Rat) (K K' : Rat) (L : List Rat) (hK : K ≤ K')
    (h0 : CurveOK deltas L0) (h : CurveOK deltas L) :
    swaption deltas L0 K' true L ≤ swaption deltas L0 K true L ∧
    swaption deltas L0 K false L ≤ swaption deltas L0 K' false L := by
  have hA := annuity_nonneg deltas L h
  have hf := (factorOf_pos deltas L0 h0).le
  have hs : payerSwap deltas K' L ≤ payerSwap deltas K L := by
    unfold payerSwap; nlinarith
  constructor
  · rw [swaption_eq, swaption_eq]
    apply mul_le_mul_of_nonneg_right _ hf
    apply rmax_mono_left; simp only [if_true]; linarith
  · rw [swaption_eq, swaption_eq]
    apply mul_le_mul_of_nonneg_right _ hf
    apply rmax_mono_left; simp only [Bool.false_eq_true, if_false]; linarith

/-- **swaption / bond relation**: at strike 0 the payer swaption pays `(bond − today's discount factor)⁺` -/
theorem swaption_zero_strike_bond (deltas L0 L : List Rat) (h0 : CurveOK deltas L0) (hne : accr deltas L ≠ []) :
    swaption deltas L0 0 true L = rmax (bond deltas L0 L - factorOf deltas L0) 0 := by
  rw [swaption_eq, rmax_mul_nonneg _ _ (factorOf_pos deltas L0 h0).le]
  unfold payerSwap bond
  rw [lastOf_cumprod _ hne]
  congr 1
  simp only [if_true]; ring

/-! #### Cap -/

theorem cap_eq (deltas L0 : List Rat) (K : Rat) (L : List Rat) :
    cap deltas L0 K L =
      listSum (List.zipWith (· * ·) (List.zipWith (fun d l => d * rmax (l - K) 0) deltas L) (adjRev deltas L))
        * factorOf deltas L0 := rfl

theorem caplet_intrinsic_nonneg (deltas L : List Rat) (K : Rat) (hd : ∀ d ∈ deltas, 0 ≤ d) :
    ∀ x ∈ List.zipWith (fun d l => d * rmax (l - K) 0) deltas L, 0 ≤ x := by
  induction deltas generalizing L with
  | nil => intro x hx; simp at hx
  | cons d t ih =>
    cases L with
    | nil => intro x hx; simp at hx
    | cons l s =>
      intro x hx
      simp only [List.zipWith_cons_cons, List.mem_cons] at hx
      rcases hx with rfl | hx
      · exact mul_nonneg (hd d (by simp)) (rmax_nonneg_right _)
      · exact ih s (fun d' hd' => hd d' (by simp [hd'])) x hx

/-- **cap non-negative** -/
theorem cap_nonneg (deltas L0 : List Rat) (K : Rat) (L : List Rat) (h0 : CurveOK deltas L0) (h : CurveOK deltas L) :
    0 ≤ cap deltas L0 K L := by
  rw [cap_eq]
  exact mul_nonneg (dot_nonneg _ _ (caplet_intrinsic_nonneg deltas L K h.1) (adjRev_nonneg deltas L h))
    (factorOf_pos deltas L0 h0).le

/-- **cap decreasing in the strike** -/
theorem cap_antitone_strike (deltas L0 : List Rat) (K K' : Rat) (L : List Rat) (hK : K ≤ K')
    (h0 : CurveOK deltas L0) (h : CurveOK deltas L) : cap deltas L0 K' L ≤ cap deltas L0 K L := by
  rw [cap_eq, cap_eq]
  apply mul_le_mul_of_nonneg_right _ (factorOf_pos deltas L0 h0).le
  apply dot_zipWith_le _ _ deltas L _ _ (adjRev_nonneg deltas L h)
  intro d hd l
  exact mul_le_mul_of_nonneg_left (rmax_mono_left _ _ (by linarith)) (h.1 d hd)

/-- **cap worthless when no rate fixes above the strike** -/
theorem cap_zero_of_rates_le (deltas L0 : List Rat) (K : Rat) (L : List Rat) (hL : ∀ l ∈ L, l ≤ K) :
    cap deltas L0 K L = 0 := by
  rw [cap_eq]
  have hz : ∀ x ∈ List.zipWith (fun d l => d * rmax (l - K) 0) deltas L, x = 0 := by
    induction deltas generalizing L with
    | nil => intro x hx; simp at hx
    | cons d t ih =>
      cases L with
      | nil => intro x hx; simp at hx
      | cons l s =>
        intro x hx
        simp only [List.zipWith_cons_cons, List.mem_cons] at hx
        rcases hx with rfl | hx
        · have : ¬ (l - K < 0) ∨ l - K < 0 := by tauto
          have hl := hL l (by simp)
          unfold rmax
          split_ifs with h1
          · simp
          · have : l - K = 0 := by linarith [not_lt.mp h1]
            rw [this]; simp
        · exact ih s (fun l' hl' => hL l' (by simp [hl'])) x hx
  have : ∀ (a b : List Rat), (∀ x ∈ a, x = 0) → listSum (List.zipWith (· * ·) a b) = 0 := by
    intro a
    induction a with
    | nil => intro b _; simp [listSum_nil]
    | cons x t ih =>
      intro b ha
      cases b with
      | nil => simp [listSum_nil]
      | cons y s =>
        simp only [List.zipWith_cons_cons, listSum_cons]
        rw [ha x (by simp), ih s (fun z hz => ha z (by simp [hz]))]; simp
  rw [this _ _ hz]; simp

/-- the caplets of the cap: `δ_k (L_k − K)⁺ · adj[::-1][k] · _factor`, one per period -/
def capletTerms (deltas L0 : List Rat) (K : Rat) (L : List Rat) : List Rat :=
  (List.zipWith (· * ·) (List.zipWith (fun d l => d * rmax (l - K) 0) deltas L) (adjRev deltas L)).map
    (· * factorOf deltas L0)

/-- **cap = sum of its caplets, each of them non-negative** (a one-period cap is its single caplet: `cap_single_period`) -/
theorem cap_eq_sum_caplets (deltas L0 : List Rat) (K : Rat) (L : List Rat) :
    cap deltas L0 K L = listSum (capletTerms deltas L0 K L) ∧
    (CurveOK deltas L0 → CurveOK deltas L → ∀ x ∈ capletTerms deltas L0 K L, 0 ≤ x) := by
  refine ⟨by rw [cap_eq]; unfold capletTerms; rw [listSum_map_mul], ?_⟩
  intro h0 h x hx
  unfold capletTerms at hx
  obtain ⟨y, hy, rfl⟩ := List.mem_map.mp hx
  exact mul_nonneg (zipWith_mul_nonneg _ _ (caplet_intrinsic_nonneg deltas L K h.1) (adjRev_nonneg deltas L h) y hy)
    (factorOf_pos deltas L0 h0).le

/-- **a one-period cap is a caplet**: `δ (L − K)⁺ (1 + δL) / (1 + δL₀)` -/
theorem cap_single_period (d l0 K l : Rat) :
    cap [d] [l0] K [l] = d * rmax (l - K) 0 * (1 + d * l) / (1 + d * l0) := by
  simp [cap, factorOf, accr, cumprod, cumprodFrom, listSum, listProd]
  ring

/-! #### Rainbow -/

/-- the weighted basket the rainbow option is written on: flipped weights against the ascending performances -/
def rainbowBasket (w u : List Rat) : Rat := listSum (List.zipWith (· * ·) w.reverse (u.mergeSort leB))

theorem rainbow_eq (w : List Rat) (K : Rat) (c : Bool) (u : List Rat) :
    rainbow w K c u = rmax 0 ((if c then 1 else -1) * (rainbowBasket w u - K)) := rfl

/-- **rainbow non-negative** -/
theorem rainbow_nonneg (w : List Rat) (K : Rat) (c : Bool) (u : List Rat) : 0 ≤ rainbow w K c u := by
  rw [rainbow_eq]; exact rmax_nonneg_left _

/-- **rainbow call − put = basket − strike** -/
theorem rainbow_parity (w : List Rat) (K : Rat) (u : List Rat) :
    rainbow w K true u - rainbow w K false u = rainbowBasket w u - K := by
  rw [rainbow_eq, rainbow_eq]
  simp only [Bool.false_eq_true, if_true, if_false]
  unfold rmax
  split_ifs <;> linarith

/-- **rainbow call decreasing, put increasing in the strike** -/
theorem rainbow_monotone_strike (w : List Rat) (K K' : Rat) (u : List Rat) (hK : K ≤ K') :
    rainbow w K' true u ≤ rainbow w K true u ∧ rainbow w K false u ≤ rainbow w K' false u := by
  rw [rainbow_eq, rainbow_eq, rainbow_eq, rainbow_eq]
  simp only [Bool.false_eq_true, if_true, if_false]
  unfold rmax
  constructor <;> split_ifs <;> linarith

theorem leB_trans (a b c : Rat) (h1 : leB a b = true) (h2 : leB b c = true) : leB a c = true := by
  simp only [leB, decide_eq_true_eq] at *; exact le_trans h1 h2
theorem leB_total (a b : Rat) : (leB a b || leB b a) = true := by
  simp only [leB, Bool.or_eq_true, decide_eq_true_eq]; exact le_total a b

/-- **rainbow is symmetric in the underlyings**: it depends on the performances only through their multiset -/
theorem rainbow_perm (w : List Rat) (K : Rat) (c : Bool) (u u' : List Rat) (h : u.Perm u') :
    rainbow w K c u = rainbow w K c u' := by
  have hs : u.mergeSort leB = u'.mergeSort leB := by
    have p : (u.mergeSort leB).Perm (u'.mergeSort leB) :=
      (List.mergeSort_perm u leB).trans (h.trans (List.mergeSort_perm u' leB).symm)
    have s1 := List.pairwise_mergeSort leB_trans leB_total u
    have s2 := List.pairwise_mergeSort leB_trans leB_total u'
    refine List.Perm.eq_of_pairwise (le := fun a b => leB a b = true) ?_ s1 s2 p
    intro a b _ _ h1 h2
    simp only [leB, decide_eq_true_eq] at h1 h2
    exact le_antisymm h1 h2
  rw [rainbow_eq, rainbow_eq]; unfold rainbowBasket; rw [hs]

/-- a one-asset rainbow with weight 1 is the vanilla option -/
theorem rainbow_single (K : Rat) (c : Bool) (u : Rat) : rainbow [1] K c [u] = vanilla c u K := by
  simp [rainbow, vanilla, listSum]
  unfold rmax
  cases c <;> simp <;> split_ifs <;> linarith

/-- **rainbow positively homogeneous**: scaling performances and strike by `c > 0` scales the payoff -/
theorem rainbow_homogeneous (w : List Rat) (K c : Rat) (cl : Bool) (u : List Rat) (hc : 0 < c) :
    rainbow w (c * K) cl (u.map (c * ·)) = c * rainbow w K cl u := by
  have hs : (u.map (c * ·)).mergeSort leB = (u.mergeSort leB).map (c * ·) := by
    symm
    apply List.map_mergeSort
    intro a _ b _
    simp only [leB, decide_eq_decide]
    constructor
    · intro h; exact mul_le_mul_of_nonneg_left h hc.le
    · intro h; exact le_of_mul_le_mul_left h hc
  rw [rainbow_eq, rainbow_eq]
  unfold rainbowBasket
  rw [hs, dot_map_mul]
  set v := listSum (List.zipWith (· * ·) w.reverse (u.mergeSort leB))
  have e : (if cl then (1 : Rat) else -1) * (c * v - c * K) = c * ((if cl then 1 else -1) * (v - K)) := by ring
  rw [e]
  generalize (if cl then (1 : Rat) else -1) * (v - K) = x
  unfold rmax
  by_cases h : 0 < x
  · rw [if_pos h, if_pos (mul_pos hc h)]
  · rw [if_neg h, if_neg (not_lt.mpr (mul_nonpos_of_nonneg_of_nonpos hc.le (not_lt.mp h)))]; simp

/-! #### Ratchet -/

/-- the ratchet property of a coupon sequence started at `p`: every coupon is at least the previous one and exceeds it by
at most the increment -/
def Ratcheting (inc : Rat) : Rat → List Rat → Prop
  | _, [] => True
  | p, c :: cs => p ≤ c ∧ c ≤ p + inc ∧ Ratcheting inc c cs

/-- **the coupons of the structured leg ratchet** (non-negative increment), every curve, spread and first coupon -/
theorem ratchetCoupons_ratcheting (spread inc : Rat) (hinc : 0 ≤ inc) (L : List Rat) :
    ∀ (ds : List Rat) (cp : Rat), Ratcheting inc cp (ratchetCoupons spread inc cp L ds) := by
  induction L with
  | nil => intro ds cp; simp [ratchetCoupons, Ratcheting]
  | cons l ls ih =>
    intro ds cp
    cases ds with
    | nil => simp [ratchetCoupons, Ratcheting]
    | cons d ds =>
      simp only [ratchetCoupons, Ratcheting]
      refine ⟨?_, ?_, ih ds _⟩
      · unfold rmax; split_ifs <;> linarith
      · unfold rmax; split_ifs <;> linarith

/-- with a negative increment (the constructor accepts it) the coupons fall instead: hypothesis `0 ≤ inc` is needed -/
example : ratchetCoupons 0 (-1) 1 [0] [1] = [0] := by decide +kernel

theorem Ratcheting.bounds (inc : Rat) (hinc : 0 ≤ inc) (cs : List Rat) : ∀ p, Ratcheting inc p cs →
    ∀ c ∈ cs, p ≤ c ∧ c ≤ p + cs.length * inc := by
  induction cs with
  | nil => intro p _ c hc; simp at hc
  | cons x t ih =>
    intro p h c hc
    obtain ⟨h1, h2, h3⟩ := h
    have hl : ((x :: t).length : Rat) = t.length + 1 := by simp
    rw [hl]
    have ht : (0 : Rat) ≤ t.length * inc := mul_nonneg (by positivity) hinc
    rcases List.mem_cons.mp hc with rfl | hc
    · constructor
      · exact h1
      · nlinarith
    · obtain ⟨g1, g2⟩ := ih x h3 c hc
      constructor
      · linarith
      · nlinarith

/-- **every coupon lies between the first coupon and first + n·increment** -/
theorem ratchetCoupons_bounds (spread inc first : Rat) (hinc : 0 ≤ inc) (L ds : List Rat) :
    ∀ c ∈ ratchetCoupons spread inc first L ds,
      first ≤ c ∧ c ≤ first + (ratchetCoupons spread inc first L ds).length * inc :=
  Ratcheting.bounds inc hinc _ first (ratchetCoupons_ratcheting spread inc hinc L ds first)

theorem ratchetCoupons_length (spread inc : Rat) (L : List Rat) :
    ∀ (ds : List Rat) (cp : Rat), (ratchetCoupons spread inc cp L ds).length = min ds.length L.length := by
  induction L with
  | nil => intro ds cp; simp [ratchetCoupons]
  | cons l ls ih =>
    intro ds cp
    cases ds with
    | nil => simp [ratchetCoupons]
    | cons d ds => simp [ratchetCoupons, ih ds]

/-- the coupons are non-decreasing functions of the first coupon -/
theorem ratchetCoupons_mono_first (spread inc : Rat) (L : List Rat) :
    ∀ (ds : List Rat) (cp cp' : Rat), cp ≤ cp' →
      List.Forall₂ (· ≤ ·) (ratchetCoupons spread inc cp L ds) (ratchetCoupons spread inc cp' L ds) := by
  induction L with
  | nil => intro ds cp cp' _; simp [ratchetCoupons]
  | cons l ls ih =>
    intro ds cp cp' h
    cases ds with
    | nil => simp [ratchetCoupons]
    | cons d ds =>
      simp only [ratchetCoupons]
      have hc : (let m := rmax (d * (l + spread)) cp; if cp + inc < m then cp + inc else m)
          ≤ (let m := rmax (d * (l + spread)) cp'; if cp' + inc < m then cp' + inc else m) := by
        simp only; unfold rmax; split_ifs <;> linarith
      exact List.Forall₂.cons hc (ih ds _ _ hc)

theorem ratchet_eq (deltas : List Rat) (g m spread inc first : Rat) (L : List Rat) :
    ratchet deltas g m spread inc first L =
      listSum (List.zipWith (· * ·) (ratchetCoupons spread inc first L deltas) (adjRev deltas L))
        - listSum (List.zipWith (· * ·) (List.zipWith (fun d l => d * (g * l + m)) deltas L) (adjRev deltas L)) := by
  unfold ratchet adjRev
  simp only
  rw [dot_sub]
  rw [ratchetCoupons_length]; simp

/-- **structured leg − funding leg**: the funding leg `Σ δ(gL + m)·adj` enters linearly, it is the only place where
gearing and margin occur -/
theorem ratchet_funding_split (deltas : List Rat) (g m spread inc first : Rat) (L : List Rat) :
    ratchet deltas g m spread inc first L = ratchet deltas 0 0 spread inc first L
      - listSum (List.zipWith (· * ·) (List.zipWith (fun d l => d * (g * l + m)) deltas L) (adjRev deltas L)) := by
  rw [ratchet_eq, ratchet_eq deltas 0 0]
  have : ∀ (ds ls b : List Rat), listSum (List.zipWith (· * ·) (List.zipWith (fun d l => d * (0 * l + 0)) ds ls) b) = 0 := by
    intro ds
    induction ds with
    | nil => intro ls b; simp [listSum_nil]
    | cons d t ih =>
      intro ls b
      cases ls with
      | nil => simp [listSum_nil]
      | cons l s =>
        cases b with
        | nil => simp [listSum_nil]
        | cons y r => simp only [List.zipWith_cons_cons, listSum_cons]; rw [ih s r]; ring
  rw [this]; ring

/-- **ratchet increasing in the first coupon**, decreasing in the funding margin -/
theorem ratchet_monotone (deltas : List Rat) (g m m' spread inc first first' : Rat) (L : List Rat)
    (h : CurveOK deltas L) (hf : first ≤ first') (hm : m ≤ m') :
    ratchet deltas g m spread inc first L ≤ ratchet deltas g m spread inc first' L ∧
    ratchet deltas g m' spread inc first L ≤ ratchet deltas g m spread inc first L := by
  have ha := adjRev_nonneg deltas L h
  constructor
  · rw [ratchet_eq, ratchet_eq]
    have := dot_le_of_forall₂ _ _ (ratchetCoupons_mono_first spread inc L deltas first first' hf) _ ha
    linarith
  · rw [ratchet_eq, ratchet_eq]
    have := dot_zipWith_le (fun d l => d * (g * l + m')) (fun d l => d * (g * l + m)) deltas L _
      (fun d hd l => mul_le_mul_of_nonneg_left (by linarith) (h.1 d hd)) ha
    linarith

/-- Σ cᵢ aᵢ between p·Σaᵢ and q·Σaᵢ for p ≤ cᵢ ≤ q, aᵢ ≥ 0, equal lengths -/
theorem dot_between (c : List Rat) : ∀ (a : List Rat) (p q : Rat), c.length = a.length → (∀ x ∈ c, p ≤ x ∧ x ≤ q) →
    (∀ y ∈ a, 0 ≤ y) → p * listSum a ≤ listSum (List.zipWith (· * ·) c a) ∧
      listSum (List.zipWith (· * ·) c a) ≤ q * listSum a := by
  induction c with
  | nil => intro a p q h _ _; cases a with
    | nil => simp [listSum_nil]
    | cons _ _ => simp at h
  | cons x t ih =>
    intro a p q h hc ha
    cases a with
    | nil => simp at h
    | cons y r =>
      simp only [List.zipWith_cons_cons, listSum_cons]
      obtain ⟨i1, i2⟩ := ih r p q (by simpa using h) (fun z hz => hc z (by simp [hz])) (fun z hz => ha z (by simp [hz]))
      obtain ⟨b1, b2⟩ := hc x (by simp)
      have hy := ha y (by simp)
      constructor <;> nlinarith

/-- **bounds of the structured leg** (gearing and margin 0, one rate per period): between `first · Σ adj` and
`(first + n·increment) · Σ adj` -/
theorem ratchet_structured_bounds (deltas : List Rat) (spread inc first : Rat) (L : List Rat) (h : CurveOK deltas L)
    (hinc : 0 ≤ inc) (hlen : deltas.length = L.length) :
    first * listSum (adjRev deltas L) ≤ ratchet deltas 0 0 spread inc first L ∧
    ratchet deltas 0 0 spread inc first L ≤ (first + L.length * inc) * listSum (adjRev deltas L) := by
  have hz := ratchet_funding_split deltas 0 0 spread inc first L
  rw [ratchet_eq] at hz ⊢
  have hl : (ratchetCoupons spread inc first L deltas).length = L.length := by
    rw [ratchetCoupons_length]; simp [hlen]
  have hal : (adjRev deltas L).length = L.length := by
    unfold adjRev cumprod accr; simp [cumprodFrom_length, hlen]
  have hb := ratchetCoupons_bounds spread inc first hinc L deltas
  rw [hl] at hb
  have := dot_between _ (adjRev deltas L) first (first + L.length * inc) (by rw [hl, hal]) hb (adjRev_nonneg deltas L h)
  constructor <;> linarith [this.1, this.2]

/-! #### CDS (one path) -/

/-- the premium annuity of one path: `(1 − df(min(T,τ)))/r/df(T)` -/
def cdsAnnuity (T r d0 d1 : Rat) (tau : Option Rat) : Rat :=
  let tmin := match tau with | none => T | some t => if T < t then T else t
  (1 - (d0 + d1 * tmin)) / r / (d0 + d1 * T)

/-- **the CDS payoff is affine in the spread** with slope minus the premium annuity -/
theorem cds_affine_spread (R s T r d0 d1 : Rat) (tau : Option Rat) :
    cds R s T r d0 d1 tau = cds R 0 T r d0 d1 tau - s * cdsAnnuity T r d0 d1 tau := by
  cases tau with
  | none => simp only [cds, cdsAnnuity]; ring
  | some t => by_cases h : T < t <;> simp only [cds, cdsAnnuity, h] <;> ring

/-- **a default after maturity is no default** -/
theorem cds_after_maturity (R s T r d0 d1 t : Rat) (h : T < t) :
    cds R s T r d0 d1 (some t) = cds R s T r d0 d1 none := by
  simp [cds, h]

/-- **protection leg**: with zero spread the payoff is `(1−R)·df(τ)/df(T)` for a default up to maturity and 0 after -/
theorem cds_protection (R T r d0 d1 : Rat) (tau : Option Rat) :
    cds R 0 T r d0 d1 tau = match tau with
      | none => 0
      | some t => if T < t then 0 else (1 - R) * (d0 + d1 * t) / (d0 + d1 * T) := by
  cases tau with
  | none => simp [cds]
  | some t => by_cases h : T < t <;> simp [cds, h]

/-- **protection decreasing in the recovery rate** (discount factors of equal sign) -/
theorem cds_antitone_recovery (R R' s T r d0 d1 : Rat) (tau : Option Rat) (hR : R ≤ R')
    (hdf : ∀ t, tau = some t → 0 ≤ (d0 + d1 * t) / (d0 + d1 * T)) :
    cds R' s T r d0 d1 tau ≤ cds R s T r d0 d1 tau := by
  rw [cds_affine_spread R', cds_affine_spread R, cds_protection, cds_protection]
  cases tau with
  | none => simp
  | some t =>
    by_cases h : T < t
    · simp [h]
    · simp only [h, if_false]
      have := hdf t rfl
      have e : ∀ x : Rat, (1 - x) * (d0 + d1 * t) / (d0 + d1 * T) = (1 - x) * ((d0 + d1 * t) / (d0 + d1 * T)) := by
        intro x; ring
      rw [e, e]; nlinarith

/-! #### non-vacuity: an admissible curve, and the literal values the harness replays on the implementation -/

example : CurveOK [1/2, 1] [1/32, 1/16] ∧ CurveOK [1/2, 1] [1/16, 1/8] := by
  refine ⟨⟨?_, ?_⟩, ⟨?_, ?_⟩⟩ <;> intro x hx <;> simp at hx <;> rcases hx with rfl | rfl <;> norm_num

/-- numerator / denominator of a value (literal denominators above a few hundred do not reduce in the kernel once the
field instances of Mathlib are in scope) -/
def nd (q : Rat) : Int × Nat := (q.num, q.den)

example : nd (bond [1/2, 1] [1/32, 1/16] [1/16, 1/8]) = (1188, 1105) := by decide +kernel
example : nd (cap [1/2, 1] [1/32, 1/16] (1/16) [1/16, 1/8]) = (66, 1105) := by decide +kernel
example : nd (swaption [1/2, 1] [1/32, 1/16] (1/16) true [1/16, 1/8]) = (487, 8840) := by decide +kernel
example : swaption [1/2, 1] [1/32, 1/16] (1/16) false [1/16, 1/8] = 0 := by decide +kernel
example : nd (ratchet [1/2, 1] 1 (1/16) (1/8) (1/16) (1/4) [1/16, 1/8]) = (1155, 4096) := by decide +kernel
example : rainbow [1] 1 true [3/2] = 1/2 := by rw [rainbow_single]; decide +kernel
example : nd (cds (1/4) (1/64) 2 (1/32) 1 (-1/32) (some 1)) = (91, 120) ∧
    nd (cds (1/4) (1/64) 2 (1/32) 1 (-1/32) none) = (-1, 30) := by decide +kernel

end Rpylib.Payoff
