/-
C18 — Fourier and closed-form pricers are mutually consistent and arbitrage-free.   Property theorems only.
Model: RpylibModel/Model/Pricers.lean (composition logic of COS / FFT / Black–Scholes as coded, transform values
abstract).  Spec-level shape theorems (finitely supported terminal laws, ℝ) and the COS coefficient integrals live in
Proofs/Lemmas/C18Shape.lean and Proofs/Lemmas/C18Integrals.lean and are re-exported here under their property names.

NOT proved (compared numerically by harness/props/c18.py only): the truncation error of the COS interval [a,b], the
series truncation error of COS, the discretisation / damping / interpolation error of the FFT pricer, the
characteristic functions themselves, `norm.cdf`.
-/
import RpylibModel.Model.Pricers
import RpylibModel.Proofs.Lemmas.C18Basic
import RpylibModel.Proofs.Lemmas.C18Shape
import RpylibModel.Proofs.Lemmas.C18Integrals
import Mathlib.Tactic.Linarith
import Mathlib.Tactic.Ring
import Mathlib.Tactic.FieldSimp
import Mathlib.Algebra.Order.Field.Rat

set_option linter.dupNamespace false

namespace Rpylib.Pricers

/-! ## (a) parity by construction -/

/-- COS: `call - put = df*(fwd - K)` whatever the value of the series (any commutative ring). -/
theorem cos_parity_by_construction {α : Type} [Field α] (df fwd K series : α) :
    cosCall df fwd K series - cosPut df K series = df * (fwd - K) := by
  unfold cosCall cosForward; ring

/-- COS: the forward the pricer reports is exactly `call - put`. -/
theorem cos_call_sub_put_eq_forward {α : Type} [Field α] (df fwd K series : α) :
    cosCall df fwd K series - cosPut df K series = cosForward df fwd K := by
  unfold cosCall; ring

/-- FFT: `call - put = df*(fwd - K)` whatever the interpolated call value. -/
theorem fft_parity_by_construction {α : Type} [Field α] (call df fwd K : α) :
    call - fftPut call df fwd K = df * (fwd - K) := by
  unfold fftPut; ring

/-- COS and FFT puts built from the same call value and the same (df, fwd) coincide: the two parity constructions are
the same map. -/
theorem cos_fft_put_consistent {α : Type} [Field α] (df fwd K series : α) :
    fftPut (cosCall df fwd K series) df fwd K = cosPut df K series := by
  unfold fftPut cosCall cosForward; ring

/-- the digital is `df` times the (undiscounted) series value: a discounted probability when the series is one -/
theorem cos_digital_eq {α : Type} [Field α] (df p : α) : cosDigital df p = df * p := rfl

/-- the put is linear in the strike-normalised series value -/
theorem cos_put_eq {α : Type} [Field α] (df K s : α) : cosPut df K s = K * (df * s) := rfl

/-- Full statement wanted: `cosCdf (cosDigital df p) = 1 - p` (the cdf is one minus the *undiscounted* exceedance
probability, docstring "P(S_t < x)").  It holds only without discounting: -/
theorem cos_cdf_is_probability_partial (df p : Rat) (h : df = 1) : cosCdf (cosDigital df p) = 1 - p := by
  subst h; unfold cosCdf cosDigital cosPricing; ring

/-- … and fails as soon as `df < 1`: witness `df = 1/2`, exceedance probability `1/2`: reported cdf `3/4 ≠ 1/2`
(replayed on the implementation by probe `c18.cdf_probability`). -/
theorem cos_cdf_not_probability_witness :
    ∃ df p : Rat, 0 < df ∧ df < 1 ∧ 0 ≤ p ∧ p ≤ 1 ∧ cosCdf (cosDigital df p) ≠ 1 - p :=
  ⟨1/2, 1/2, by norm_num, by norm_num, by norm_num, by norm_num, by
    unfold cosCdf cosDigital cosPricing; norm_num⟩

/-- exact size of the cdf defect: `(1 - df) * p` -/
theorem cos_cdf_defect (df p : Rat) : cosCdf (cosDigital df p) - (1 - p) = (1 - df) * p := by
  unfold cosCdf cosDigital cosPricing; ring

/-- butterfly of three calls is the second difference -/
theorem butterfly_eq (c1 c2 c3 : Rat) : butterfly c1 c2 c3 = (c1 - c2) - (c2 - c3) := by
  unfold butterfly; ring

/-! ### Black–Scholes closed form -/

/-- degenerate branch (σ, spot or T below `eps`): intrinsic values -/
theorem bs_degenerate_intrinsic (Φ : Rat → Rat) (df fwd K lg sd : Rat) :
    bsCall Φ true df fwd K lg sd = df * rmax 0 (fwd - K) ∧ bsPut Φ true df fwd K lg sd = df * rmax 0 (K - fwd) := by
  unfold bsCall bsPut bsCallPut
  constructor
  · simp
  · simp only [if_true]; congr 2; ring

/-- degenerate prices are non-negative for `df ≥ 0` -/
theorem bs_degenerate_nonneg (Φ : Rat → Rat) (flag df fwd K lg sd : Rat) (hdf : 0 ≤ df) :
    0 ≤ bsCallPut Φ true flag df fwd K lg sd := by
  unfold bsCallPut; simp only [if_true]; exact mul_nonneg hdf (rmax_nonneg _)

/-- degenerate branch still satisfies parity -/
theorem bs_degenerate_parity (Φ : Rat → Rat) (df fwd K lg sd : Rat) :
    bsCall Φ true df fwd K lg sd - bsPut Φ true df fwd K lg sd = df * (fwd - K) := by
  obtain ⟨h1, h2⟩ := bs_degenerate_intrinsic Φ df fwd K lg sd
  rw [h1, h2]
  have := rmax_sub_rmax_neg (fwd - K)
  have e : -(fwd - K) = K - fwd := by ring
  rw [e] at this
  rw [← mul_sub, this]

/-- regular branch: parity from `Φ(x) + Φ(-x) = 1` -/
theorem bs_parity (Φ : Rat → Rat) (hΦ : ∀ x, Φ x + Φ (-x) = 1) (df fwd K lg sd : Rat) :
    bsCall Φ false df fwd K lg sd - bsPut Φ false df fwd K lg sd = df * (fwd - K) := by
  unfold bsCall bsPut bsCallPut
  have h1 := hΦ (bsD1 lg sd)
  have h2 := hΦ (bsD2 lg sd)
  simp only [Bool.false_eq_true, if_false, mul_one, mul_neg, mul_one]
  have e1 : Φ (-bsD1 lg sd) = 1 - Φ (bsD1 lg sd) := by linarith
  have e2 : Φ (-bsD2 lg sd) = 1 - Φ (bsD2 lg sd) := by linarith
  rw [e1, e2]; ring

/-- non-vacuity of the hypothesis on `Φ` -/
example : ∃ Φ : Rat → Rat, (∀ x, Φ x + Φ (-x) = 1) ∧ (∀ x, 0 ≤ Φ x) ∧ (∀ x, Φ x ≤ 1) :=
  ⟨fun _ => 1/2, fun _ => by norm_num, fun _ => by norm_num, fun _ => by norm_num⟩

/-- both branches -/
theorem bs_parity_all (Φ : Rat → Rat) (hΦ : ∀ x, Φ x + Φ (-x) = 1) (deg : Bool) (df fwd K lg sd : Rat) :
    bsCall Φ deg df fwd K lg sd - bsPut Φ deg df fwd K lg sd = df * (fwd - K) := by
  cases deg
  · exact bs_parity Φ hΦ df fwd K lg sd
  · exact bs_degenerate_parity Φ df fwd K lg sd

/-- `CFBlackScholes.forward` equals `df*(fwd - K)` when `spot*exp(-dT) = df*fwd` (i.e. fwd = spot*exp((r-d)T)) -/
theorem bs_forward_eq (spot dfDiv K df fwd : Rat) (h : spot * dfDiv = df * fwd) :
    bsForward spot dfDiv K df = df * (fwd - K) := by
  unfold bsForward; rw [h]; ring

/-- `d2 = d1 - σ√T` and `d1 + d2 = 2·log(F/K)/σ√T` -/
theorem bs_d1_d2 (lg sd : Rat) : bsD1 lg sd - bsD2 lg sd = sd ∧ bsD1 lg sd + bsD2 lg sd = 2 * (lg / sd) := by
  unfold bsD2 bsD1; constructor <;> ring

/-- regular branch: `call ≤ df*fwd` and `put ≤ df*K` for any `Φ` with values in [0,1] -/
theorem bs_upper_bounds (Φ : Rat → Rat) (h0 : ∀ x, 0 ≤ Φ x) (h1 : ∀ x, Φ x ≤ 1)
    (df fwd K lg sd : Rat) (hdf : 0 ≤ df) (hK : 0 ≤ K) (hF : 0 ≤ fwd) :
    bsCall Φ false df fwd K lg sd ≤ df * fwd ∧ bsPut Φ false df fwd K lg sd ≤ df * K := by
  unfold bsCall bsPut bsCallPut
  simp only [Bool.false_eq_true, if_false, mul_one, mul_neg]
  have a1 := h0 (bsD1 lg sd); have a2 := h0 (bsD2 lg sd)
  have b1 := h1 (bsD1 lg sd); have b2 := h1 (bsD2 lg sd)
  have c1 := h0 (-bsD1 lg sd); have c2 := h0 (-bsD2 lg sd)
  have e1 := h1 (-bsD1 lg sd); have e2 := h1 (-bsD2 lg sd)
  constructor
  · have : fwd * Φ (bsD1 lg sd) - K * Φ (bsD2 lg sd) ≤ fwd := by nlinarith
    nlinarith
  · have : -(fwd * Φ (-bsD1 lg sd) - K * Φ (-bsD2 lg sd)) ≤ K := by nlinarith
    nlinarith

/-- the Black–Scholes digital is a discounted probability: in `[0, df]`, both branches -/
theorem bs_digital_range (Φ : Rat → Rat) (h0 : ∀ x, 0 ≤ Φ x) (h1 : ∀ x, Φ x ≤ 1) (deg : Bool)
    (df fwd K lg sd : Rat) (hdf : 0 ≤ df) :
    0 ≤ bsDigital Φ deg df fwd K lg sd ∧ bsDigital Φ deg df fwd K lg sd ≤ df := by
  unfold bsDigital
  cases deg
  · simp only [Bool.false_eq_true, if_false]
    have a := h0 (lg / sd - 1 / 2 * sd); have b := h1 (lg / sd - 1 / 2 * sd)
    constructor <;> nlinarith
  · simp only [if_true]
    split <;> constructor <;> linarith

/-! ## (b) spec-level no-arbitrage shape: finitely supported terminal laws over ℝ

`Spec.FinLaw ι`: atoms `x i ≥ 0`, weights `w i ≥ 0`, `Σ w = 1` (Finset sums).  `Spec.call L df K = df·Σ wᵢ·max(xᵢ-K,0)`,
`Spec.put`, `Spec.digital L df K = df·Σ wᵢ·[xᵢ > K]`, `Spec.fwd L = Σ wᵢ xᵢ`. -/

section spec
open Spec Finset
variable {ι : Type} (L : FinLaw ι)

/-- call prices decrease in the strike -/
theorem spec_call_antitone (df : ℝ) (hdf : 0 ≤ df) {K1 K2 : ℝ} (h : K1 ≤ K2) : call L df K2 ≤ call L df K1 := by
  unfold call
  exact mul_le_mul_of_nonneg_left (sum_w_mul_le L fun i _ => atom_antitone (L.x i) K1 K2 h) hdf

/-- call prices are convex in the strike -/
theorem spec_call_convex (df : ℝ) (hdf : 0 ≤ df) (K1 K2 t : ℝ) (h0 : 0 ≤ t) (h1 : t ≤ 1) :
    call L df (t * K1 + (1 - t) * K2) ≤ t * call L df K1 + (1 - t) * call L df K2 := by
  unfold call
  have h := sum_w_mul_le L (f := fun i => max (L.x i - (t * K1 + (1 - t) * K2)) 0)
    (g := fun i => t * max (L.x i - K1) 0 + (1 - t) * max (L.x i - K2) 0)
    (fun i _ => atom_convex (L.x i) K1 K2 t h0 h1)
  have e : ∑ i ∈ L.s, L.w i * (t * max (L.x i - K1) 0 + (1 - t) * max (L.x i - K2) 0)
      = t * ∑ i ∈ L.s, L.w i * max (L.x i - K1) 0 + (1 - t) * ∑ i ∈ L.s, L.w i * max (L.x i - K2) 0 := by
    rw [mul_sum, mul_sum, ← sum_add_distrib]
    exact sum_congr rfl fun i _ => by ring
  rw [e] at h
  have := mul_le_mul_of_nonneg_left h hdf
  linarith

/-- put–call parity at the spec level -/
theorem spec_parity (df K : ℝ) : call L df K - put L df K = df * (fwd L - K) := by
  unfold call put
  rw [← mul_sub, sum_parity]

/-- `df·max(F-K, 0) ≤ call` -/
theorem spec_call_lower (df : ℝ) (hdf : 0 ≤ df) (K : ℝ) : df * max (fwd L - K) 0 ≤ call L df K := by
  unfold call
  apply mul_le_mul_of_nonneg_left _ hdf
  apply max_le
  · have := sum_parity L K
    have := put_sum_nonneg L K
    linarith
  · exact call_sum_nonneg L K

/-- `call ≤ df·F` for non-negative strikes -/
theorem spec_call_upper (df : ℝ) (hdf : 0 ≤ df) (K : ℝ) (hK : 0 ≤ K) : call L df K ≤ df * fwd L := by
  unfold call fwd
  apply mul_le_mul_of_nonneg_left _ hdf
  exact sum_w_mul_le L fun i hi => max_le (by linarith) (L.x_nonneg i hi)

/-- the whole band of the property statement: intrinsic ≤ call ≤ discounted forward -/
theorem spec_call_band (df : ℝ) (hdf : 0 ≤ df) (K : ℝ) (hK : 0 ≤ K) :
    df * max (fwd L - K) 0 ≤ call L df K ∧ call L df K ≤ df * fwd L :=
  ⟨spec_call_lower L df hdf K, spec_call_upper L df hdf K hK⟩

/-- call spread: `0 ≤ call(K1) - call(K2) ≤ df·(K2 - K1)` for `K1 ≤ K2` (slope of the call in [-df, 0]) -/
theorem spec_call_spread (df : ℝ) (hdf : 0 ≤ df) {K1 K2 : ℝ} (h : K1 ≤ K2) :
    0 ≤ callSpread (call L df K1) (call L df K2) ∧ callSpread (call L df K1) (call L df K2) ≤ df * (K2 - K1) := by
  unfold callSpread
  constructor
  · have := spec_call_antitone L df hdf h; linarith
  · unfold call
    rw [← mul_sub, ← sum_sub_distrib]
    apply mul_le_mul_of_nonneg_left _ hdf
    calc ∑ i ∈ L.s, (L.w i * max (L.x i - K1) 0 - L.w i * max (L.x i - K2) 0)
        = ∑ i ∈ L.s, L.w i * (max (L.x i - K1) 0 - max (L.x i - K2) 0) := sum_congr rfl fun i _ => by ring
      _ ≤ ∑ i ∈ L.s, L.w i * (K2 - K1) := sum_w_mul_le L fun i _ => atom_slope (L.x i) K1 K2 h
      _ = K2 - K1 := sum_w_const L _

/-- butterflies (the model's own `butterfly` combination) on equally spaced strikes are non-negative -/
theorem spec_butterfly_nonneg (df : ℝ) (hdf : 0 ≤ df) (K h : ℝ) :
    0 ≤ butterfly (call L df (K - h)) (call L df K) (call L df (K + h)) := by
  have c := spec_call_convex L df hdf (K - h) (K + h) (1 / 2) (by norm_num) (by norm_num)
  have e : (1 / 2 : ℝ) * (K - h) + (1 - 1 / 2) * (K + h) = K := by ring
  rw [e] at c
  unfold butterfly
  linarith

/-- the digital price decreases in the strike -/
theorem spec_digital_antitone (df : ℝ) (hdf : 0 ≤ df) {K1 K2 : ℝ} (h : K1 ≤ K2) :
    digital L df K2 ≤ digital L df K1 := by
  unfold digital
  apply mul_le_mul_of_nonneg_left _ hdf
  apply sum_w_mul_le L
  intro i _
  by_cases h2 : K2 < L.x i
  · have h1 : K1 < L.x i := lt_of_le_of_lt h h2
    simp [h1, h2]
  · simp only [h2, if_false]
    split <;> norm_num

/-- the digital price is a discounted probability: in `[0, df]` -/
theorem spec_digital_range (df : ℝ) (hdf : 0 ≤ df) (K : ℝ) : 0 ≤ digital L df K ∧ digital L df K ≤ df := by
  unfold digital
  constructor
  · apply mul_nonneg hdf
    exact sum_nonneg fun i hi => mul_nonneg (L.w_nonneg i hi) (by split <;> norm_num)
  · have : ∑ i ∈ L.s, L.w i * (if K < L.x i then (1:ℝ) else 0) ≤ ∑ i ∈ L.s, L.w i * 1 :=
      sum_w_mul_le L fun i _ => by split <;> norm_num
    rw [sum_w_const] at this
    calc df * _ ≤ df * 1 := mul_le_mul_of_nonneg_left this hdf
      _ = df := mul_one df

/-- the spec prices satisfy the same parity identity the COS pricer is built on: given the spec put and the spec
forward/df, the model's `cosCall` composition returns the spec call (with `series = Σ wᵢ max(K-xᵢ,0)/K`). -/
theorem spec_cos_composition (df K : ℝ) (hK : K ≠ 0) :
    cosCall df (fwd L) K ((∑ i ∈ L.s, L.w i * max (K - L.x i) 0) / K) = call L df K := by
  have hp : cosPut df K ((∑ i ∈ L.s, L.w i * max (K - L.x i) 0) / K) = put L df K := by
    unfold cosPut cosPricing put; field_simp
  have := spec_parity L df K
  unfold cosCall cosForward
  rw [hp]; linarith

/-- … and the FFT pricer's put composition returns the spec put when fed the spec call -/
theorem spec_fft_composition (df K : ℝ) : fftPut (call L df K) df (fwd L) K = put L df K := by
  have := spec_parity L df K
  unfold fftPut; linarith

/-- packaged: `K ↦ call` is antitone and convex on ℝ -/
theorem spec_call_antitone_fn (df : ℝ) (hdf : 0 ≤ df) : Antitone (call L df) :=
  fun _ _ h => spec_call_antitone L df hdf h

theorem spec_call_convexOn (df : ℝ) (hdf : 0 ≤ df) : ConvexOn ℝ Set.univ (call L df) := by
  refine ⟨convex_univ, ?_⟩
  intro x _ y _ a b ha hb hab
  have hb' : b = 1 - a := by linarith
  subst hb'
  simpa [smul_eq_mul] using spec_call_convex L df hdf x y a ha (by linarith)

theorem spec_digital_antitone_fn (df : ℝ) (hdf : 0 ≤ df) : Antitone (digital L df) :=
  fun _ _ h => spec_digital_antitone L df hdf h

/-- non-vacuity: a two-atom law -/
example : ∃ L : FinLaw Bool, fwd L = 100 ∧ call L 1 100 = 10 := by
  refine ⟨⟨Finset.univ, fun _ => 1/2, fun b => if b then 120 else 80, ?_, ?_, ?_⟩, ?_, ?_⟩
  · intro i _; norm_num
  · simp
  · intro i _; split <;> norm_num
  · simp [fwd]; norm_num
  · simp [call]; norm_num

end spec

/-! ## (c) COS coefficients are their defining integrals (ℝ instance of the model's own `chiOf`, `psiOf`, `uPut`) -/

section integrals
open Real Integrals intervalIntegral

/-- χ_k(c,d) = ∫_c^d e^y cos(u (y-a)) dy  with u = kπ/(b-a): the closed form coded in `COSPricer.xi` -/
theorem cos_chi_integral (u a c d : ℝ) :
    ∫ y in c..d, exp y * cos (u * (y - a))
      = chiOf u (cos (u * (d - a))) (sin (u * (d - a))) (exp d) (cos (u * (c - a))) (sin (u * (c - a))) (exp c) := by
  have hint : IntervalIntegrable (fun y => exp y * cos (u * (y - a))) MeasureTheory.volume c d :=
    (by fun_prop : Continuous fun y => exp y * cos (u * (y - a))).intervalIntegrable c d
  rw [integral_eq_sub_of_hasDerivAt (fun y _ => hasDerivAt_chiPrim u a y) hint]
  unfold chiPrim chiOf
  ring

/-- ψ_k(c,d) = ∫_c^d cos(u (y-a)) dy for k ≠ 0 -/
theorem cos_psi_integral (u a c d : ℝ) (hu : u ≠ 0) :
    ∫ y in c..d, cos (u * (y - a)) = psiOf false u (sin (u * (d - a))) (sin (u * (c - a))) c d := by
  have hint : IntervalIntegrable (fun y => cos (u * (y - a))) MeasureTheory.volume c d :=
    (by fun_prop : Continuous fun y => cos (u * (y - a))).intervalIntegrable c d
  rw [integral_eq_sub_of_hasDerivAt (fun y _ => hasDerivAt_psiPrim u a y hu) hint]
  unfold psiOf
  simp only [Bool.false_eq_true, if_false]
  ring

/-- ψ_0(c,d) = ∫_c^d 1 dy = d - c (the `k = 0` branch) -/
theorem cos_psi_integral_zero (a c d sd sc : ℝ) :
    ∫ y in c..d, cos (0 * (y - a)) = psiOf true 0 sd sc c d := by
  simp [psiOf]

/-- the put coefficient `u_put(k,a,b)` is `2/(b-a) ∫_a^0 (1 - e^y) cos(u (y-a)) dy` — the cosine coefficient of the
strike-normalised put payoff `(1 - e^y)^+` on `[a, b]` (a ≤ 0 ≤ b) — for k ≠ 0 -/
theorem cos_uput_integral (u a b : ℝ) (hu : u ≠ 0) :
    2 / (b - a) * ∫ y in a..(0:ℝ), (1 - exp y) * cos (u * (y - a))
      = uPut a b
          (chiOf u (cos (u * (0 - a))) (sin (u * (0 - a))) (exp 0) (cos (u * (a - a))) (sin (u * (a - a))) (exp a))
          (psiOf false u (sin (u * (0 - a))) (sin (u * (a - a))) a 0) := by
  have h1 : IntervalIntegrable (fun y => cos (u * (y - a))) MeasureTheory.volume a 0 :=
    (by fun_prop : Continuous fun y => cos (u * (y - a))).intervalIntegrable a 0
  have h2 : IntervalIntegrable (fun y => exp y * cos (u * (y - a))) MeasureTheory.volume a 0 :=
    (by fun_prop : Continuous fun y => exp y * cos (u * (y - a))).intervalIntegrable a 0
  have e : (fun y => (1 - exp y) * cos (u * (y - a))) = fun y => cos (u * (y - a)) - exp y * cos (u * (y - a)) := by
    funext y; ring
  rw [e, integral_sub h1 h2, cos_psi_integral u a a 0 hu, cos_chi_integral u a a 0]
  unfold uPut
  ring

/-- the digital coefficient is `2/(b-a) ∫_0^b cos(u (y-a)) dy` for k ≠ 0 -/
theorem cos_vdigital_integral (u a b : ℝ) (hu : u ≠ 0) :
    2 / (b - a) * ∫ y in (0:ℝ)..b, cos (u * (y - a))
      = vDigital a b (psiOf false u (sin (u * (b - a))) (sin (u * (0 - a))) 0 b) := by
  rw [cos_psi_integral u a 0 b hu]; rfl

end integrals

end Rpylib.Pricers
