/-
C18 — Fourier and closed-form pricers are mutually consistent and arbitrage-free.   Property theorems only.
Model: RpylibModel/Model/Pricers.lean (composition logic of COS / FFT / Black–Scholes as coded, transform values
abstract).  Spec-level shape theorems (finitely supported terminal laws, ℝ) and the COS coefficient integrals live in
Proofs/Lemmas/C18Shape.lean and Proofs/Lemmas/C18Integrals.lean and are re-exported here under their property names.

Proved in addition (sections d–f): the COS formula is EXACT — `cosPut`/`cosCall`/`cosDigital` fed with the series the code
evaluates equal the discounted expectations — for a log-moneyness density that (T) vanishes outside [a,b] and (S) equals
an N-term cosine expansion there; for any density the series equals the integral against the N-term partial sum
(`cos_series_is_partial_sum`), so (T) and (S) are the ONLY two error terms; the no-arbitrage shape for a general terminal
law and its transfer to any price function within ε of it; the Black–Scholes closed form as a function of the strike.

NOT proved (compared numerically by harness/props/c18.py only): a BOUND on the truncation error (T) of the cumulant
interval [a,b] and on the series error (S) of N terms for the five families, the discretisation / damping /
interpolation error of the FFT pricer, the characteristic functions themselves, `norm.cdf` (hypotheses `NormalLike`).
-/
import RpylibModel.Model.Pricers
import RpylibModel.Proofs.Lemmas.C18Basic
import RpylibModel.Proofs.Lemmas.C18Shape
import RpylibModel.Proofs.Lemmas.C18Integrals
import RpylibModel.Proofs.Lemmas.C18Ortho
import RpylibModel.Proofs.Lemmas.C18Exact
import RpylibModel.Proofs.Lemmas.C18Law
import RpylibModel.Proofs.Lemmas.C18CosLaw
import RpylibModel.Proofs.Lemmas.C18BS
import RpylibModel.Proofs.Lemmas.C18Cf
import Mathlib.MeasureTheory.Integral.IntervalIntegral.FundThmCalculus
import Mathlib.Tactic.Linarith
import Mathlib.Tactic.Ring
import Mathlib.Tactic.FieldSimp
import Mathlib.Algebra.Order.Field.Rat

set_option linter.dupNamespace false

namespace Rpylib.Pricers

/-! ## (a) parity by construction -/

/-- COS: `call - put = df*(fwd - K)` whatever the value of the series (any commutative ring). -/
theorem cos_parity_by_construction {α : Type} [Field α] (df fwd K series : α) :
    cosCall df fwd K series - cosPut df K series = df * (fwd - K) := by
  unfold cosCall cosForward; ring

/-- COS: the forward the pricer reports is exactly `call - put`. -/
theorem cos_call_sub_put_eq_forward {α : Type} [Field α] (df fwd K series : α) :
    cosCall df fwd K series - cosPut df K series = cosForward df fwd K := by
  unfold cosCall; ring

/-- FFT: `call - put = df*(fwd - K)` whatever the interpolated call value. -/
theorem fft_parity_by_construction {α : Type} [Field α] (call df fwd K : α) :
    call - fftPut call df fwd K = df * (fwd - K) := by
  unfold fftPut; ring

/-- COS and FFT puts built from the same call value and the same (df, fwd) coincide: the two parity constructions are
the same map. -/
theorem cos_fft_put_consistent {α : Type} [Field α] (df fwd K series : α) :
    fftPut (cosCall df fwd K series) df fwd K = cosPut df K series := by
  unfold fftPut cosCall cosForward; ring

/-- the digital is `df` times the (undiscounted) series value: a discounted probability when the series is one -/
theorem cos_digital_eq {α : Type} [Field α] (df p : α) : cosDigital df p = df * p := rfl

/-- the put is linear in the strike-normalised series value -/
theorem cos_put_eq {α : Type} [Field α] (df K s : α) : cosPut df K s = K * (df * s) := rfl

/-- Full statement wanted: `cosCdf (cosDigital df p) = 1 - p` (the cdf is one minus the *undiscounted* exceedance
probability, docstring "P(S_t < x)").  It holds only without discounting: -/
theorem cos_cdf_is_probability_partial (df p : Rat) (h : df = 1) : cosCdf (cosDigital df p) = 1 - p := by
  subst h; unfold cosCdf cosDigital cosPricing; ring

/-- … and fails as soon as `df < 1`: witness `df = 1/2`, exceedance probability `1/2`: reported cdf `3/4 ≠ 1/2`
(replayed on the implementation by probe `c18.cdf_probability`). -/
theorem cos_cdf_not_probability_witness :
    ∃ df p : Rat, 0 < df ∧ df < 1 ∧ 0 ≤ p ∧ p ≤ 1 ∧ cosCdf (cosDigital df p) ≠ 1 - p :=
  ⟨1/2, 1/2, by norm_num, by norm_num, by norm_num, by norm_num, by
    unfold cosCdf cosDigital cosPricing; norm_num⟩

/-- exact size of the cdf defect: `(1 - df) * p` -/
theorem cos_cdf_defect (df p : Rat) : cosCdf (cosDigital df p) - (1 - p) = (1 - df) * p := by
  unfold cosCdf cosDigital cosPricing; ring

/-- butterfly of three calls is the second difference -/
theorem butterfly_eq (c1 c2 c3 : Rat) : butterfly c1 c2 c3 = (c1 - c2) - (c2 - c3) := by
  unfold butterfly; ring

/-! ### Black–Scholes closed form -/

/-- degenerate branch (σ, spot or T below `eps`): intrinsic values -/
theorem bs_degenerate_intrinsic (Φ : Rat → Rat) (df fwd K lg sd : Rat) :
    bsCall Φ true df fwd K lg sd = df * rmax 0 (fwd - K) ∧ bsPut Φ true df fwd K lg sd = df * rmax 0 (K - fwd) := by
  unfold bsCall bsPut bsCallPut
  constructor
  · simp
  · simp only [if_true]; congr 2; ring

/-- degenerate prices are non-negative for `df ≥ 0` -/
theorem bs_degenerate_nonneg (Φ : Rat → Rat) (flag df fwd K lg sd : Rat) (hdf : 0 ≤ df) :
    0 ≤ bsCallPut Φ true flag df fwd K lg sd := by
  unfold bsCallPut; simp only [if_true]; exact mul_nonneg hdf (rmax_nonneg _)

/-- degenerate branch still satisfies parity -/
theorem bs_degenerate_parity (Φ : Rat → Rat) (df fwd K lg sd : Rat) :
    bsCall Φ true df fwd K lg sd - bsPut Φ true df fwd K lg sd = df * (fwd - K) := by
  obtain ⟨h1, h2⟩ := bs_degenerate_intrinsic Φ df fwd K lg sd
  rw [h1, h2]
  have := rmax_sub_rmax_neg (fwd - K)
  have e : -(fwd - K) = K - fwd := by ring
  rw [e] at this
  rw [← mul_sub, this]

/-- regular branch: parity from `Φ(x) + Φ(-x) = 1` -/
theorem bs_parity (Φ : Rat → Rat) (hΦ : ∀ x, Φ x + Φ (-x) = 1) (df fwd K lg sd : Rat) :
    bsCall Φ false df fwd K lg sd - bsPut Φ false df fwd K lg sd = df * (fwd - K) := by
  unfold bsCall bsPut bsCallPut bsRegular
  have h1 := hΦ (bsD1 lg sd)
  have h2 := hΦ (bsD2 lg sd)
  simp only [Bool.false_eq_true, if_false, mul_one, mul_neg, mul_one]
  have e1 : Φ (-bsD1 lg sd) = 1 - Φ (bsD1 lg sd) := by linarith
  have e2 : Φ (-bsD2 lg sd) = 1 - Φ (bsD2 lg sd) := by linarith
  rw [e1, e2]; ring

/-- non-vacuity of the hypothesis on `Φ` -/
example : ∃ Φ : Rat → Rat, (∀ x, Φ x + Φ (-x) = 1) ∧ (∀ x, 0 ≤ Φ x) ∧ (∀ x, Φ x ≤ 1) :=
  ⟨fun _ => 1/2, fun _ => by norm_num, fun _ => by norm_num, fun _ => by norm_num⟩

/-- both branches -/
theorem bs_parity_all (Φ : Rat → Rat) (hΦ : ∀ x, Φ x + Φ (-x) = 1) (deg : Bool) (df fwd K lg sd : Rat) :
    bsCall Φ deg df fwd K lg sd - bsPut Φ deg df fwd K lg sd = df * (fwd - K) := by
  cases deg
  · exact bs_parity Φ hΦ df fwd K lg sd
  · exact bs_degenerate_parity Φ df fwd K lg sd

/-- `CFBlackScholes.forward` equals `df*(fwd - K)` when `spot*exp(-dT) = df*fwd` (i.e. fwd = spot*exp((r-d)T)) -/
theorem bs_forward_eq (spot dfDiv K df fwd : Rat) (h : spot * dfDiv = df * fwd) :
    bsForward spot dfDiv K df = df * (fwd - K) := by
  unfold bsForward; rw [h]; ring

/-- `d2 = d1 - σ√T` and `d1 + d2 = 2·log(F/K)/σ√T` -/
theorem bs_d1_d2 (lg sd : Rat) : bsD1 lg sd - bsD2 lg sd = sd ∧ bsD1 lg sd + bsD2 lg sd = 2 * (lg / sd) := by
  unfold bsD2 bsD1; constructor <;> ring

/-- regular branch: `call ≤ df*fwd` and `put ≤ df*K` for any `Φ` with values in [0,1] -/
theorem bs_upper_bounds (Φ : Rat → Rat) (h0 : ∀ x, 0 ≤ Φ x) (h1 : ∀ x, Φ x ≤ 1)
    (df fwd K lg sd : Rat) (hdf : 0 ≤ df) (hK : 0 ≤ K) (hF : 0 ≤ fwd) :
    bsCall Φ false df fwd K lg sd ≤ df * fwd ∧ bsPut Φ false df fwd K lg sd ≤ df * K := by
  unfold bsCall bsPut bsCallPut bsRegular
  simp only [Bool.false_eq_true, if_false, mul_one, mul_neg]
  have a1 := h0 (bsD1 lg sd); have a2 := h0 (bsD2 lg sd)
  have b1 := h1 (bsD1 lg sd); have b2 := h1 (bsD2 lg sd)
  have c1 := h0 (-bsD1 lg sd); have c2 := h0 (-bsD2 lg sd)
  have e1 := h1 (-bsD1 lg sd); have e2 := h1 (-bsD2 lg sd)
  constructor
  · have : fwd * Φ (bsD1 lg sd) - K * Φ (bsD2 lg sd) ≤ fwd := by nlinarith
    nlinarith
  · have : -(fwd * Φ (-bsD1 lg sd) - K * Φ (-bsD2 lg sd)) ≤ K := by nlinarith
    nlinarith

/-- the Black–Scholes digital is a discounted probability: in `[0, df]`, both branches -/
theorem bs_digital_range (Φ : Rat → Rat) (h0 : ∀ x, 0 ≤ Φ x) (h1 : ∀ x, Φ x ≤ 1) (deg : Bool)
    (df fwd K lg sd : Rat) (hdf : 0 ≤ df) :
    0 ≤ bsDigital Φ deg df fwd K lg sd ∧ bsDigital Φ deg df fwd K lg sd ≤ df := by
  unfold bsDigital bsDigitalRegular bsDigitalArg
  cases deg
  · simp only [Bool.false_eq_true, if_false]
    have a := h0 (lg / sd - 1 / 2 * sd); have b := h1 (lg / sd - 1 / 2 * sd)
    constructor <;> nlinarith
  · simp only [if_true]
    split <;> constructor <;> linarith

/-! ## (b) spec-level no-arbitrage shape: finitely supported terminal laws over ℝ

`Spec.FinLaw ι`: atoms `x i ≥ 0`, weights `w i ≥ 0`, `Σ w = 1` (Finset sums).  `Spec.call L df K = df·Σ wᵢ·max(xᵢ-K,0)`,
`Spec.put`, `Spec.digital L df K = df·Σ wᵢ·[xᵢ > K]`, `Spec.fwd L = Σ wᵢ xᵢ`. -/

section spec
open Spec Finset
variable {ι : Type} (L : FinLaw ι)

/-- call prices decrease in the strike -/
theorem spec_call_antitone (df : ℝ) (hdf : 0 ≤ df) {K1 K2 : ℝ} (h : K1 ≤ K2) : call L df K2 ≤ call L df K1 := by
  unfold call
  exact mul_le_mul_of_nonneg_left (sum_w_mul_le L fun i _ => atom_antitone (L.x i) K1 K2 h) hdf

/-- call prices are convex in the strike -/
theorem spec_call_convex (df : ℝ) (hdf : 0 ≤ df) (K1 K2 t : ℝ) (h0 : 0 ≤ t) (h1 : t ≤ 1) :
    call L df (t * K1 + (1 - t) * K2) ≤ t * call L df K1 + (1 - t) * call L df K2 := by
  unfold call
  have h := sum_w_mul_le L (f := fun i => max (L.x i - (t * K1 + (1 - t) * K2)) 0)
    (g := fun i => t * max (L.x i - K1) 0 + (1 - t) * max (L.x i - K2) 0)
    (fun i _ => atom_convex (L.x i) K1 K2 t h0 h1)
  have e : ∑ i ∈ L.s, L.w i * (t * max (L.x i - K1) 0 + (1 - t) * max (L.x i - K2) 0)
      = t * ∑ i ∈ L.s, L.w i * max (L.x i - K1) 0 + (1 - t) * ∑ i ∈ L.s, L.w i * max (L.x i - K2) 0 := by
    rw [mul_sum, mul_sum, ← sum_add_distrib]
    exact sum_congr rfl fun i _ => by ring
  rw [e] at h
  have := mul_le_mul_of_nonneg_left h hdf
  linarith

/-- put–call parity at the spec level -/
theorem spec_parity (df K : ℝ) : call L df K - put L df K = df * (fwd L - K) := by
  unfold call put
  rw [← mul_sub, sum_parity]

/-- `df·max(F-K, 0) ≤ call` -/
theorem spec_call_lower (df : ℝ) (hdf : 0 ≤ df) (K : ℝ) : df * max (fwd L - K) 0 ≤ call L df K := by
  unfold call
  apply mul_le_mul_of_nonneg_left _ hdf
  apply max_le
  · have := sum_parity L K
    have := put_sum_nonneg L K
    linarith
  · exact call_sum_nonneg L K

/-- `call ≤ df·F` for non-negative strikes -/
theorem spec_call_upper (df : ℝ) (hdf : 0 ≤ df) (K : ℝ) (hK : 0 ≤ K) : call L df K ≤ df * fwd L := by
  unfold call fwd
  apply mul_le_mul_of_nonneg_left _ hdf
  exact sum_w_mul_le L fun i hi => max_le (by linarith) (L.x_nonneg i hi)

/-- the whole band of the property statement: intrinsic ≤ call ≤ discounted forward -/
theorem spec_call_band (df : ℝ) (hdf : 0 ≤ df) (K : ℝ) (hK : 0 ≤ K) :
    df * max (fwd L - K) 0 ≤ call L df K ∧ call L df K ≤ df * fwd L :=
  ⟨spec_call_lower L df hdf K, spec_call_upper L df hdf K hK⟩

/-- call spread: `0 ≤ call(K1) - call(K2) ≤ df·(K2 - K1)` for `K1 ≤ K2` (slope of the call in [-df, 0]) -/
theorem spec_call_spread (df : ℝ) (hdf : 0 ≤ df) {K1 K2 : ℝ} (h : K1 ≤ K2) :
    0 ≤ callSpread (call L df K1) (call L df K2) ∧ callSpread (call L df K1) (call L df K2) ≤ df * (K2 - K1) := by
  unfold callSpread
  constructor
  · have := spec_call_antitone L df hdf h; linarith
  · unfold call
    rw [← mul_sub, ← sum_sub_distrib]
    apply mul_le_mul_of_nonneg_left _ hdf
    calc ∑ i ∈ L.s, (L.w i * max (L.x i - K1) 0 - L.w i * max (L.x i - K2) 0)
        = ∑ i ∈ L.s, L.w i * (max (L.x i - K1) 0 - max (L.x i - K2) 0) := sum_congr rfl fun i _ => by ring
      _ ≤ ∑ i ∈ L.s, L.w i * (K2 - K1) := sum_w_mul_le L fun i _ => atom_slope (L.x i) K1 K2 h
      _ = K2 - K1 := sum_w_const L _

/-- butterflies (the model's own `butterfly` combination) on equally spaced strikes are non-negative -/
theorem spec_butterfly_nonneg (df : ℝ) (hdf : 0 ≤ df) (K h : ℝ) :
    0 ≤ butterfly (call L df (K - h)) (call L df K) (call L df (K + h)) := by
  have c := spec_call_convex L df hdf (K - h) (K + h) (1 / 2) (by norm_num) (by norm_num)
  have e : (1 / 2 : ℝ) * (K - h) + (1 - 1 / 2) * (K + h) = K := by ring
  rw [e] at c
  unfold butterfly
  linarith

/-- the digital price decreases in the strike -/
theorem spec_digital_antitone (df : ℝ) (hdf : 0 ≤ df) {K1 K2 : ℝ} (h : K1 ≤ K2) :
    digital L df K2 ≤ digital L df K1 := by
  unfold digital
  apply mul_le_mul_of_nonneg_left _ hdf
  apply sum_w_mul_le L
  intro i _
  by_cases h2 : K2 < L.x i
  · have h1 : K1 < L.x i := lt_of_le_of_lt h h2
    simp [h1, h2]
  · simp only [h2, if_false]
    split <;> norm_num

/-- the digital price is a discounted probability: in `[0, df]` -/
theorem spec_digital_range (df : ℝ) (hdf : 0 ≤ df) (K : ℝ) : 0 ≤ digital L df K ∧ digital L df K ≤ df := by
  unfold digital
  constructor
  · apply mul_nonneg hdf
    exact sum_nonneg fun i hi => mul_nonneg (L.w_nonneg i hi) (by split <;> norm_num)
  · have : ∑ i ∈ L.s, L.w i * (if K < L.x i then (1:ℝ) else 0) ≤ ∑ i ∈ L.s, L.w i * 1 :=
      sum_w_mul_le L fun i _ => by split <;> norm_num
    rw [sum_w_const] at this
    calc df * _ ≤ df * 1 := mul_le_mul_of_nonneg_left this hdf
      _ = df := mul_one df

/-- the spec prices satisfy the same parity identity the COS pricer is built on: given the spec put and the spec
forward/df, the model's `cosCall` composition returns the spec call (with `series = Σ wᵢ max(K-xᵢ,0)/K`). -/
theorem spec_cos_composition (df K : ℝ) (hK : K ≠ 0) :
    cosCall df (fwd L) K ((∑ i ∈ L.s, L.w i * max (K - L.x i) 0) / K) = call L df K := by
  have hp : cosPut df K ((∑ i ∈ L.s, L.w i * max (K - L.x i) 0) / K) = put L df K := by
    unfold cosPut cosPricing put; field_simp
  have := spec_parity L df K
  unfold cosCall cosForward
  rw [hp]; linarith

/-- … and the FFT pricer's put composition returns the spec put when fed the spec call -/
theorem spec_fft_composition (df K : ℝ) : fftPut (call L df K) df (fwd L) K = put L df K := by
  have := spec_parity L df K
  unfold fftPut; linarith

/-- packaged: `K ↦ call` is antitone and convex on ℝ -/
theorem spec_call_antitone_fn (df : ℝ) (hdf : 0 ≤ df) : Antitone (call L df) :=
  fun _ _ h => spec_call_antitone L df hdf h

theorem spec_call_convexOn (df : ℝ) (hdf : 0 ≤ df) : ConvexOn ℝ Set.univ (call L df) := by
  refine ⟨convex_univ, ?_⟩
  intro x _ y _ a b ha hb hab
  have hb' : b = 1 - a := by linarith
  subst hb'
  simpa [smul_eq_mul] using spec_call_convex L df hdf x y a ha (by linarith)

theorem spec_digital_antitone_fn (df : ℝ) (hdf : 0 ≤ df) : Antitone (digital L df) :=
  fun _ _ h => spec_digital_antitone L df hdf h

/-- non-vacuity: a two-atom law -/
example : ∃ L : FinLaw Bool, fwd L = 100 ∧ call L 1 100 = 10 := by
  refine ⟨⟨Finset.univ, fun _ => 1/2, fun b => if b then 120 else 80, ?_, ?_, ?_⟩, ?_, ?_⟩
  · intro i _; norm_num
  · simp
  · intro i _; split <;> norm_num
  · simp [fwd]; norm_num
  · simp [call]; norm_num

end spec

/-! ## (c) COS coefficients are their defining integrals (ℝ instance of the model's own `chiOf`, `psiOf`, `uPut`)
(proofs in Lemmas/C18Integrals.lean) -/

section integrals
open Real Integrals intervalIntegral

/-- χ_k(c,d) = ∫_c^d e^y cos(u (y-a)) dy  with u = kπ/(b-a): the closed form coded in `COSPricer.xi` -/
theorem cos_chi_integral (u a c d : ℝ) :
    ∫ y in c..d, exp y * cos (u * (y - a))
      = chiOf u (cos (u * (d - a))) (sin (u * (d - a))) (exp d) (cos (u * (c - a))) (sin (u * (c - a))) (exp c) :=
  chi_integral u a c d

/-- ψ_k(c,d) = ∫_c^d cos(u (y-a)) dy for k ≠ 0 -/
theorem cos_psi_integral (u a c d : ℝ) (hu : u ≠ 0) :
    ∫ y in c..d, cos (u * (y - a)) = psiOf false u (sin (u * (d - a))) (sin (u * (c - a))) c d :=
  psi_integral u a c d hu

/-- ψ_0(c,d) = ∫_c^d 1 dy = d - c (the `k = 0` branch) -/
theorem cos_psi_integral_zero (a c d sd sc : ℝ) :
    ∫ y in c..d, cos (0 * (y - a)) = psiOf true 0 sd sc c d :=
  psi_integral_zero a c d sd sc

/-- the put coefficient `u_put(k,a,b)` is `2/(b-a) ∫_a^0 (1 - e^y) cos(u (y-a)) dy` — the cosine coefficient of the
strike-normalised put payoff `(1 - e^y)^+` on `[a, b]` (a ≤ 0 ≤ b) — for k ≠ 0 -/
theorem cos_uput_integral (u a b : ℝ) (hu : u ≠ 0) :
    2 / (b - a) * ∫ y in a..(0:ℝ), (1 - exp y) * cos (u * (y - a))
      = uPut a b
          (chiOf u (cos (u * (0 - a))) (sin (u * (0 - a))) (exp 0) (cos (u * (a - a))) (sin (u * (a - a))) (exp a))
          (psiOf false u (sin (u * (0 - a))) (sin (u * (a - a))) a 0) :=
  uput_integral u a b hu

/-- the digital coefficient is `2/(b-a) ∫_0^b cos(u (y-a)) dy` for k ≠ 0 -/
theorem cos_vdigital_integral (u a b : ℝ) (hu : u ≠ 0) :
    2 / (b - a) * ∫ y in (0:ℝ)..b, cos (u * (y - a))
      = vDigital a b (psiOf false u (sin (u * (b - a))) (sin (u * (0 - a))) 0 b) :=
  vdigital_integral u a b hu

end integrals

/-! ## (d) the COS formula is exact when there is no truncation error and no series error

`Cos.ExactOn a b N f`: (T) `f = 0` outside `[a,b]`, (S) `f = Σ'_{k<N} A_k cos(kπ(y-a)/(b-a))` on `[a,b]`.
`Cos.reCoef a b f k = ∫_a^b f(y) cos(u_k (y-a)) dy` is the number `Re(φ(u_k) e^{-i u_k a})` the code takes from the
characteristic function (under (T)), `Cos.cosSeries a b N f V = halfFirstSum [reCoef k * V k | k < N]` is the model's own
first-term-halved sum of the code's terms, `Cos.uPutR` / `Cos.vDigR` are the model's `uPut`/`chiOf`/`psiOf`/`vDigital`
at the real transcendental values. -/

section exact
open Cos MeasureTheory

/-- orthogonality of the cosine system of the COS method on `[a,b]` -/
theorem cos_orthogonality (a b : ℝ) (hab : a < b) (k j : ℕ) :
    ∫ y in a..b, cosK a b k y * cosK a b j y = if k = j then (if k = 0 then b - a else (b - a) / 2) else 0 :=
  Cos.cos_orthogonality a b hab k j

/-- the density coefficients `F_k = 2/(b-a)·Re(φ(u_k)e^{-i u_k a})` are the coefficients of the expansion (no aliasing) -/
theorem cos_density_coefficients (a b : ℝ) (hab : a < b) (N : ℕ) (A : ℕ → ℝ) (f : ℝ → ℝ)
    (hA : ∀ y ∈ Set.Icc a b, f y = cosPoly a b N A y) (k : ℕ) (hk : k < N) : fCoef a b f k = A k :=
  fCoef_exact a b hab N A f hA k hk

/-- `u_put(k,a,b)` (model's closed form, every k) is the cosine coefficient of the put payoff `(1-e^y)^+` on `[a,b]` -/
theorem cos_uput_is_coefficient (a b : ℝ) (hab : a < b) (ha : a ≤ 0) (hb : 0 ≤ b) (k : ℕ) :
    uPutR a b k = 2 / (b - a) * ∫ y in a..b, max (1 - Real.exp y) 0 * cosK a b k y :=
  uPutR_eq_integral a b hab ha hb k

/-- the digital coefficients (every k) are the cosine coefficients of `1_{y>0}` on `[a,b]` -/
theorem cos_vdigital_is_coefficient (a b : ℝ) (hab : a < b) (ha : a ≤ 0) (hb : 0 ≤ b) (k : ℕ) :
    vDigR a b k = 2 / (b - a) * ∫ y in a..b, (if 0 < y then 1 else 0) * cosK a b k y :=
  vDigR_eq_integral a b hab ha hb k

/-- for ANY `f`: the COS series is the integral over `[a,b]` of the payoff against the N-term cosine partial sum of `f` -/
theorem cos_series_is_partial_sum (a b : ℝ) (hab : a < b) (N : ℕ) (f v : ℝ → ℝ)
    (hv : IntervalIntegrable v volume a b) (V : ℕ → ℝ)
    (hV : ∀ k < N, V k = 2 / (b - a) * ∫ y in a..b, v y * cosK a b k y) :
    cosSeries a b N f V = ∫ y in a..b, v y * cosPoly a b N (fCoef a b f) y :=
  cosSeries_eq_partialSum a b hab N f v hv V hV

/-- **the only two error terms**: for any `f` (interval-integrable against the payoff), COS series − `∫ payoff·f` is
`(S)` the payoff integrated against (N-term cosine partial sum − f) over `[a,b]`, minus `(T)` the payoff integral outside
`[a,b]`.  (`reCoef` is the transform restricted to `[a,b]`; by `cos_transform_real_part` the code's transform value differs
from it by `∫_{ℝ∖[a,b]} f cos_k`, again a truncation term that vanishes under (T).)  Bounds on (S) and (T) are NOT proved. -/
theorem cos_error_decomposition (a b : ℝ) (hab : a < b) (N : ℕ) (f v : ℝ → ℝ)
    (hv : IntervalIntegrable v volume a b) (hvf : IntervalIntegrable (fun y => v y * f y) volume a b) (V : ℕ → ℝ)
    (hV : ∀ k < N, V k = 2 / (b - a) * ∫ y in a..b, v y * cosK a b k y) :
    cosSeries a b N f V - ∫ y, v y * f y
      = (∫ y in a..b, v y * (cosPoly a b N (fCoef a b f) y - f y))
        - ((∫ y, v y * f y) - ∫ y in a..b, v y * f y) := by
  rw [cosSeries_eq_partialSum a b hab N f v hv V hV]
  have hP : IntervalIntegrable (fun y => v y * cosPoly a b N (fCoef a b f) y) volume a b :=
    hv.mul_continuousOn (continuous_cosPoly a b N _).continuousOn
  have e : ∀ y, v y * (cosPoly a b N (fCoef a b f) y - f y) = v y * cosPoly a b N (fCoef a b f) y - v y * f y := fun y => by ring
  simp_rw [e]
  rw [intervalIntegral.integral_sub hP hvf]
  have : (fun k => 2 / (b - a) * reCoef a b f k) = fCoef a b f := rfl
  rw [this]
  ring

/-- **COS series = ∫ payoff · density** under (T) and (S), any interval-integrable payoff -/
theorem cos_series_exact (a b : ℝ) (hab : a < b) (N : ℕ) (f : ℝ → ℝ) (hf : ExactOn a b N f)
    (v : ℝ → ℝ) (hv : IntervalIntegrable v volume a b) (V : ℕ → ℝ)
    (hV : ∀ k < N, V k = 2 / (b - a) * ∫ y in a..b, v y * cosK a b k y) :
    cosSeries a b N f V = ∫ y, v y * f y :=
  cosSeries_exact a b hab N f hf v hv V hV

/-- **COS put = df·E[(K − S_T)^+]**, `S_T = K e^y`, `y` with density `f`: the model's `cosPut` applied to the series -/
theorem cos_put_exact (a b : ℝ) (hab : a < b) (ha : a ≤ 0) (hb : 0 ≤ b) (N : ℕ) (f : ℝ → ℝ) (hf : ExactOn a b N f)
    (df K : ℝ) (hK : 0 ≤ K) :
    cosPut df K (cosSeries a b N f (uPutR a b)) = df * ∫ y, max (K - K * Real.exp y) 0 * f y := by
  rw [cosSeries_exact a b hab N f hf putPay (continuous_putPay.intervalIntegrable a b) (uPutR a b)
    (fun k _ => uPutR_eq_integral a b hab ha hb k)]
  unfold cosPut cosPricing
  rw [mul_left_comm, ← integral_const_mul]
  congr 1
  refine integral_congr_ae (Filter.Eventually.of_forall fun y => ?_)
  simp only [putPay]
  have : K - K * Real.exp y = K * (1 - Real.exp y) := by ring
  rw [this, ← mul_assoc, mul_max_of_nonneg _ _ hK, mul_zero]

/-- **COS digital = df·P(S_T > K)** -/
theorem cos_digital_exact (a b : ℝ) (hab : a < b) (ha : a ≤ 0) (hb : 0 ≤ b) (N : ℕ) (f : ℝ → ℝ)
    (hf : ExactOn a b N f) (df : ℝ) :
    cosDigital df (cosSeries a b N f (vDigR a b)) = df * ∫ y, (if 0 < y then 1 else 0) * f y := by
  rw [cosSeries_exact a b hab N f hf digPay (monotone_digPay.intervalIntegrable) (vDigR a b)
    (fun k _ => vDigR_eq_integral a b hab ha hb k)]
  rfl

/-- **the number the code takes from the characteristic function**: for an integrable density `f` with
`φ(u) = ∫ f(y) e^{iuy} dy` (`Cos.cfOf f u`), `Re(φ(u)·e^{-iua}) = ∫ f(y) cos(u (y-a)) dy`
(cosmethod.py:136-139: `(phi_s * exp_s).real`, the coefficients and weights being real) -/
theorem cos_transform_real_part (f : ℝ → ℝ) (hf : Integrable f) (u a : ℝ) :
    (cfOf f u * Complex.exp (-(Complex.I * (u * a)))).re = ∫ y, f y * Real.cos (u * (y - a)) :=
  cf_re_eq f hf u a

/-- … which under (T) is `reCoef a b f k` at the k-th COS frequency: the series of the exactness theorems is the series the
code evaluates from the characteristic function -/
theorem cos_transform_is_reCoef (f : ℝ → ℝ) (hf : Integrable f) (a b : ℝ) (hab : a ≤ b)
    (hsupp : ∀ y, y ∉ Set.Icc a b → f y = 0) (k : ℕ) :
    (cfOf f (freq a b k) * Complex.exp (-(Complex.I * (freq a b k * a)))).re = reCoef a b f k :=
  cf_re_eq_reCoef f hf a b hab hsupp k

/-- non-vacuity of (T) ∧ (S): the uniform density on `[a,b]` is its own one-term cosine expansion -/
example (a b : ℝ) : ExactOn a b 1 (fun y => if y ∈ Set.Icc a b then 1 / (b - a) else 0) := by
  classical
  refine ⟨fun y hy => by simp [hy], ⟨fun _ => 2 / (b - a), fun y hy => ?_⟩⟩
  simp [hy, cosPoly, wt, cosK, freq]
  ring

end exact

/-! ## (e) from the series to the spec level: general terminal laws, and transfer of the shape

`Law.TLaw m`: weight `ρ ≥ 0` of mass 1 w.r.t. a reference measure `m`, terminal spot `S ≥ 0` measurable with finite mean.
`Cos.logLaw g …` is the law of `S_T = e^z` for a log-density `g`; `Cos.shiftDensity g K y = g (y + log K)` is the density
of the log-moneyness the COS formula expands at the strike `K`.

Remark (why the transfer is stated with an error ε): for two different strikes the code uses the same `[a,b]` for
`y = log(S_T/K)`, so (T) ∧ (S) cannot hold at both (a trigonometric polynomial vanishing on an interval vanishes).  The
shape of the COS prices across strikes is therefore obtained as: each price is within ε(K) = |series error| +
|truncation error| of the spec price (`cos_series_is_partial_sum`), and a function within ε of the spec call has the
spec shape up to 2ε (`law_shape_transfer`).  A bound on ε(K) for the five families is the part that is NOT proved. -/

section law
open Cos Law MeasureTheory

variable {Ω : Type} [MeasurableSpace Ω] {m : Measure Ω} (L : TLaw m)

theorem law_call_antitone (df : ℝ) (hdf : 0 ≤ df) {K1 K2 : ℝ} (h : K1 ≤ K2) : L.call df K2 ≤ L.call df K1 :=
  L.call_antitone df hdf h

theorem law_call_convex (df : ℝ) (hdf : 0 ≤ df) (K1 K2 t : ℝ) (h0 : 0 ≤ t) (h1 : t ≤ 1) :
    L.call df (t * K1 + (1 - t) * K2) ≤ t * L.call df K1 + (1 - t) * L.call df K2 :=
  L.call_convex df hdf K1 K2 t h0 h1

theorem law_parity (df K : ℝ) : L.call df K - L.put df K = df * (L.fwd - K) := L.parity df K

theorem law_call_band (df : ℝ) (hdf : 0 ≤ df) (K : ℝ) (hK : 0 ≤ K) :
    df * max (L.fwd - K) 0 ≤ L.call df K ∧ L.call df K ≤ df * L.fwd := L.call_band df hdf K hK

theorem law_put_band (df : ℝ) (hdf : 0 ≤ df) (K : ℝ) (hK : 0 ≤ K) :
    df * max (K - L.fwd) 0 ≤ L.put df K ∧ L.put df K ≤ df * K := L.put_band df hdf K hK

theorem law_call_spread (df : ℝ) (hdf : 0 ≤ df) {K1 K2 : ℝ} (h : K1 ≤ K2) :
    0 ≤ L.call df K1 - L.call df K2 ∧ L.call df K1 - L.call df K2 ≤ df * (K2 - K1) := L.call_spread df hdf h

theorem law_digital_antitone (df : ℝ) (hdf : 0 ≤ df) {K1 K2 : ℝ} (h : K1 ≤ K2) : L.digital df K2 ≤ L.digital df K1 :=
  L.digital_antitone df hdf h

theorem law_digital_range (df : ℝ) (hdf : 0 ≤ df) (K : ℝ) : 0 ≤ L.digital df K ∧ L.digital df K ≤ df :=
  L.digital_range df hdf K

/-- any price function within `ε` of the spec call on a set of strikes has bounds, monotonicity, slope and convexity up to
`ε` / `2ε` there — the form in which the harness checks the shape of the numerical prices -/
theorem law_shape_transfer (df : ℝ) (hdf : 0 ≤ df) (c : ℝ → ℝ) (ε : ℝ) (Ks : Set ℝ)
    (h : ∀ K ∈ Ks, |c K - L.call df K| ≤ ε) :
    (∀ K ∈ Ks, 0 ≤ K → df * max (L.fwd - K) 0 - ε ≤ c K ∧ c K ≤ df * L.fwd + ε) ∧
    (∀ K1 ∈ Ks, ∀ K2 ∈ Ks, K1 ≤ K2 → c K2 ≤ c K1 + 2 * ε ∧ c K1 - c K2 ≤ df * (K2 - K1) + 2 * ε) ∧
    (∀ K1 ∈ Ks, ∀ K2 ∈ Ks, ∀ t, 0 ≤ t → t ≤ 1 → t * K1 + (1 - t) * K2 ∈ Ks →
      c (t * K1 + (1 - t) * K2) ≤ t * c K1 + (1 - t) * c K2 + 2 * ε) :=
  L.shape_transfer df hdf c ε Ks h

variable (g : ℝ → ℝ) (hg0 : ∀ z, 0 ≤ g z) (hgi : Integrable g) (hm : ∫ z, g z = 1)
  (hS : Integrable (fun z => Real.exp z * g z))

/-- **COS put = spec put** of the law of `S_T = e^z` under (T) ∧ (S) at the strike `K` -/
theorem cos_put_eq_spec_put (a b : ℝ) (hab : a < b) (ha : a ≤ 0) (hb : 0 ≤ b) (N : ℕ) (K : ℝ) (hK : 0 < K)
    (hex : ExactOn a b N (shiftDensity g K)) (df : ℝ) :
    cosPut df K (cosSeries a b N (shiftDensity g K) (uPutR a b)) = (logLaw g hg0 hgi hm hS).put df K :=
  cosPut_eq_spec g hg0 hgi hm hS a b hab ha hb N K hK hex df

/-- **COS call = spec call** when moreover the pricer's forward is the mean of the law -/
theorem cos_call_eq_spec_call (a b : ℝ) (hab : a < b) (ha : a ≤ 0) (hb : 0 ≤ b) (N : ℕ) (K : ℝ) (hK : 0 < K)
    (hex : ExactOn a b N (shiftDensity g K)) (df fwd : ℝ) (hfwd : fwd = (logLaw g hg0 hgi hm hS).fwd) :
    cosCall df fwd K (cosSeries a b N (shiftDensity g K) (uPutR a b)) = (logLaw g hg0 hgi hm hS).call df K :=
  cosCall_eq_spec g hg0 hgi hm hS a b hab ha hb N K hK hex df fwd hfwd

/-- **COS digital = spec digital** -/
theorem cos_digital_eq_spec_digital (a b : ℝ) (hab : a < b) (ha : a ≤ 0) (hb : 0 ≤ b) (N : ℕ) (K : ℝ) (hK : 0 < K)
    (hex : ExactOn a b N (shiftDensity g K)) (df : ℝ) :
    cosDigital df (cosSeries a b N (shiftDensity g K) (vDigR a b)) = (logLaw g hg0 hgi hm hS).digital df K :=
  cosDigital_eq_spec g hg0 hgi hm hS a b hab ha hb N K hK hex df

/-- hence at such a strike the COS call lies in the no-arbitrage band -/
theorem cos_call_band_exact (a b : ℝ) (hab : a < b) (ha : a ≤ 0) (hb : 0 ≤ b) (N : ℕ) (K : ℝ) (hK : 0 < K)
    (hex : ExactOn a b N (shiftDensity g K)) (df fwd : ℝ) (hdf : 0 ≤ df) (hfwd : fwd = (logLaw g hg0 hgi hm hS).fwd) :
    df * max (fwd - K) 0 ≤ cosCall df fwd K (cosSeries a b N (shiftDensity g K) (uPutR a b)) ∧
    cosCall df fwd K (cosSeries a b N (shiftDensity g K) (uPutR a b)) ≤ df * fwd := by
  rw [cos_call_eq_spec_call g hg0 hgi hm hS a b hab ha hb N K hK hex df fwd hfwd, hfwd]
  exact (logLaw g hg0 hgi hm hS).call_band df hdf K hK.le

/-- non-vacuity of the whole hypothesis set of `cos_put_eq_spec_put` / `cos_call_eq_spec_call`: the uniform log-density on
`[-1,1]` at the strike `K = 1` -/
example : ∃ g : ℝ → ℝ, (∀ z, 0 ≤ g z) ∧ Integrable g ∧ ∫ z, g z = 1 ∧ Integrable (fun z => Real.exp z * g z) ∧
    ExactOn (-1) 1 1 (shiftDensity g 1) := by
  have hfin : volume (Set.Icc (-1:ℝ) 1) ≠ ⊤ := by simp [Real.volume_Icc]
  refine ⟨Set.indicator (Set.Icc (-1) 1) (fun _ => 1/2), ?_, ?_, ?_, ?_, ?_⟩
  · intro z; exact Set.indicator_nonneg (fun _ _ => by norm_num) z
  · exact (integrable_indicator_iff measurableSet_Icc).mpr (integrableOn_const hfin)
  · rw [integral_indicator measurableSet_Icc, setIntegral_const]
    simp [Real.volume_real_Icc]; norm_num
  · have h : IntegrableOn (fun z => Real.exp z * (1/2)) (Set.Icc (-1:ℝ) 1) :=
      (by fun_prop : Continuous fun z : ℝ => Real.exp z * (1/2)).continuousOn.integrableOn_Icc
    refine ((integrable_indicator_iff measurableSet_Icc).mpr h).congr (Filter.Eventually.of_forall fun z => ?_)
    by_cases hz : z ∈ Set.Icc (-1:ℝ) 1 <;> simp [Set.indicator, hz]
  · refine ⟨fun y hy => ?_, ⟨fun _ => 1, fun y hy => ?_⟩⟩
    · simp [shiftDensity, Set.indicator, hy]
    · simp [shiftDensity, Set.indicator, hy, cosPoly, wt, cosK, freq]

end law

/-! ## (f) Black–Scholes closed form as a function of the strike (model's `bsRegular`, `bsDigitalRegular` over ℝ)

`BS.NormalLike Φ φ c`: `Φ' = φ`, `φ x = c·exp(-x²/2)`, `c > 0`.  `BS.callK Φ df F sd K = bsRegular Φ 1 df F K (log(F/K)) sd`,
`BS.digitalK Φ df F' sd K = bsDigitalRegular Φ df (log(F'/K)) sd`. -/

section bs
open BS

variable {Φ φ : ℝ → ℝ} {c : ℝ}

/-- the digital's own `d2` (cfblackscholes.py:120) is `_call_put`'s `d2 = d1 - sd` (any field) -/
theorem bs_digital_arg_is_d2 (lg sd : ℝ) : bsDigitalArg lg sd = bsD2 lg sd := digitalArg_eq_d2 lg sd

/-- **digital = −∂call/∂K** -/
theorem bs_digital_is_minus_dcall_dK (h : NormalLike Φ φ c) (df F sd K : ℝ) (hF : 0 < F) (hK : 0 < K) (hsd : 0 < sd) :
    HasDerivAt (callK Φ df F sd) (-(digitalK Φ df F sd K)) K := hasDerivAt_callK h df F sd K hF hK hsd

theorem bs_call_antitone (h : NormalLike Φ φ c) (h0 : ∀ x, 0 ≤ Φ x) (df F sd : ℝ) (hdf : 0 ≤ df) (hF : 0 < F)
    (hsd : 0 < sd) : AntitoneOn (callK Φ df F sd) (Set.Ioi 0) := callK_antitoneOn h h0 df F sd hdf hF hsd

theorem bs_call_convex (h : NormalLike Φ φ c) (df F sd : ℝ) (hdf : 0 ≤ df) (hF : 0 < F) (hsd : 0 < sd) :
    ConvexOn ℝ (Set.Ioi 0) (callK Φ df F sd) := callK_convexOn h df F sd hdf hF hsd

theorem bs_call_slope (h : NormalLike Φ φ c) (h0 : ∀ x, 0 ≤ Φ x) (h1 : ∀ x, Φ x ≤ 1) (df F sd K : ℝ) (hdf : 0 ≤ df)
    (hF : 0 < F) (hK : 0 < K) (hsd : 0 < sd) :
    -df ≤ deriv (callK Φ df F sd) K ∧ deriv (callK Φ df F sd) K ≤ 0 := callK_slope h h0 h1 df F sd K hdf hF hK hsd

theorem bs_digital_antitone (h : NormalLike Φ φ c) (df F sd : ℝ) (hdf : 0 ≤ df) (hF : 0 < F) (hsd : 0 < sd) :
    AntitoneOn (digitalK Φ df F sd) (Set.Ioi 0) := digitalK_antitoneOn h df F sd hdf hF hsd

/-- the forward inside the digital is determined by the call: any other forward contradicts digital = −∂call/∂K -/
theorem bs_digital_forward_unique (h : NormalLike Φ φ c) (df F F' sd K : ℝ) (hdf : 0 < df) (hF : 0 < F) (hF' : 0 < F')
    (hK : 0 < K) (hsd : 0 < sd) (hD : HasDerivAt (callK Φ df F sd) (-(digitalK Φ df F' sd K)) K) : F' = F :=
  digital_forward_unique h df F F' sd K hdf hF hF' hK hsd hD

/-- a dividend yield dropped from the digital's `d2` (seeded change C18-c) is a contradiction -/
theorem bs_dropped_dividend_contradiction (h : NormalLike Φ φ c) (df spot r q T sd K : ℝ) (hdf : 0 < df)
    (hspot : 0 < spot) (hq : q ≠ 0) (hT : 0 < T) (hK : 0 < K) (hsd : 0 < sd) :
    ¬ HasDerivAt (callK Φ df (spot * Real.exp ((r - q) * T)) sd) (-(digitalK Φ df (spot * Real.exp (r * T)) sd K)) K :=
  dropped_dividend_contradiction h df spot r q T sd K hdf hspot hq hT hK hsd

/-- non-vacuity of `NormalLike`: `Φ(x) = 1/2 + ∫_0^x e^{-t²/2} dt` -/
example : ∃ Φ φ : ℝ → ℝ, NormalLike Φ φ 1 := by
  have hc : Continuous fun t : ℝ => Real.exp (-(t ^ 2) / 2) := by fun_prop
  refine ⟨fun x => 1 / 2 + ∫ t in (0:ℝ)..x, Real.exp (-(t ^ 2) / 2), fun x => Real.exp (-(x ^ 2) / 2), ⟨fun x => ?_, fun x => by ring, one_pos⟩⟩
  have := intervalIntegral.integral_hasDerivAt_right (hc.intervalIntegrable 0 x) (hc.stronglyMeasurableAtFilter _ _)
    hc.continuousAt
  simpa using this.const_add (1 / 2)

end bs

end Rpylib.Pricers
