/-
C14 — Index/state enumerations are bijections: every admissible state exactly once.   Property theorems only.
Model: RpylibModel/Model/Pairing.lean (anchors: rpylib/distribution/pairing.py, rpylib/tools/generic.py).
Helper lemmas: Proofs/Lemmas/C14*.lean.

Model part 2: RpylibModel/Model/PairingHyperbolic.lean (anchors: pairing.py:138-192 `HyperbolicPairing`, numerical/numbers.py).
-/
import RpylibModel.Proofs.Lemmas.C14Fold
import RpylibModel.Proofs.Lemmas.C14Z1d
import RpylibModel.Proofs.Lemmas.C14Lazy
import RpylibModel.Proofs.Lemmas.C14States
import RpylibModel.Proofs.Lemmas.C14RS
import RpylibModel.Proofs.Lemmas.C14Frontier
import RpylibModel.Proofs.Lemmas.C14Hyperbolic
import RpylibModel.Proofs.Lemmas.C14History
import RpylibModel.Proofs.Lemmas.C14Bound

namespace Rpylib.Pairing

/-! ## 1. exact roots -/

/-- `_integer_root(z, n)` is the integer n-th root: the largest `m` with `m^n ≤ z` -/
theorem iroot_exact (z n : Nat) (hn : 1 ≤ n) : (iroot z n) ^ n ≤ z ∧ z < (iroot z n + 1) ^ n := iroot_spec z n hn

/-! ## 2. the 2-d pairings and their projections are mutually inverse (all naturals) -/

theorem pair_proj_cantor (z : Nat) : cantorPair (cantorProj z).1 (cantorProj z).2 = z := cantor_pair_proj z
theorem proj_pair_cantor (x y : Nat) : cantorProj (cantorPair x y) = (x, y) := cantor_proj_pair x y
theorem pair_proj_rs2 (z : Nat) : rs2Pair (rs2Proj z).1 (rs2Proj z).2 = z := rs2_pair_proj z
theorem proj_pair_rs2 (x y : Nat) : rs2Proj (rs2Pair x y) = (x, y) := rs2_proj_pair x y
theorem pair_proj_szudzik (z : Nat) : szudzikPair (szudzikProj z).1 (szudzikProj z).2 = z := szudzik_pair_proj z
theorem proj_pair_szudzik (x y : Nat) : szudzikProj (szudzikPair x y) = (x, y) := szudzik_proj_pair x y
theorem pair_proj_pepis (z : Nat) : pepisPair (pepisProj z).1 (pepisProj z).2 = z := pepis_pair_proj z
theorem proj_pair_pepis (x y : Nat) : pepisProj (pepisPair x y) = (x, y) := pepis_proj_pair x y

/-! ## 3. ℕ ↔ ℤ folding -/

theorem toZ_ofZ (n : Int) : toZ (ofZ n) = n := toZ_ofZ' n
theorem ofZ_toZ (z : Nat) : ofZ (toZ z) = z := ofZ_toZ' z

/-! ## 4. d coordinates, every d ≥ 1: `Pairing.pairing` / `Pairing.projection(·, d)` (the base-class extension used by
Cantor (d = 2 only in the code), Szudzik, Pepis–Kalmár) and `RosenbergStrong.pairing / projection` are mutually inverse -/

theorem maxL_replicate_zero (d : Nat) : maxL (List.replicate d 0) = 0 := by
  induction d with
  | zero => rfl
  | succ d ih => simp only [List.replicate_succ, maxL_cons, ih]; rfl

/-- Rosenberg–Strong in every dimension d ≥ 1 (`RosenbergStrong.pairing / projection`, induction on d) -/
theorem pair_proj_rs (z d : Nat) (hd : 1 ≤ d) : rsPair (rsProj z d) = z := by
  simp only [rsPair, rsProj, List.reverse_reverse]; exact (rs_proj_spec d z hd).2.2

theorem proj_pair_rs (xs : List Nat) (hx : xs ≠ []) : rsProj (rsPair xs) xs.length = xs := by
  have h := rs_proj_pair xs.reverse (by simpa using hx)
  simp only [List.length_reverse] at h
  simp only [rsPair, rsProj, h, List.reverse_reverse]

/-- the d = 2 instance is the static `pairing2d` -/
theorem rsPair_two (x y : Nat) : rsPair [x, y] = rs2Pair x y := by
  have h : rsPair [x, y] = x + max y (max x 0) * max y (max x 0) ^ 1 +
      (max y (max x 0) - y) * ((max y (max x 0) + 1) ^ 1 - max y (max x 0) ^ 1) := by
    show rsPairR [y, x] = _
    rw [rsPairR_cons y [x] (by simp)]; rfl
  rw [h]; unfold rs2Pair
  have e1 : max y (max x 0) = max x y := by omega
  rw [e1, Nat.pow_one, Nat.pow_one, Nat.mul_add]
  have e2 : max x y + 1 - max x y = 1 := by omega
  rw [e2]
  generalize max x y * max x y = q
  omega

theorem rs_ndBij (d : Nat) (hd : 1 ≤ d) : NdBij rsPair rsProj d := by
  refine ⟨fun z => ?_, fun z => pair_proj_rs z d hd, fun xs hx => ?_, ?_⟩
  · simp only [rsProj, List.length_reverse]; exact (rs_proj_spec d z hd).1
  · have : xs ≠ [] := by intro hc; subst hc; simp at hx; omega
    rw [← hx]; exact proj_pair_rs xs this
  · simp only [rsPair, List.reverse_replicate]
    have hne : List.replicate d 0 ≠ [] := by
      intro hc; have := congrArg List.length hc; simp at this; omega
    have := (rs_shell (List.replicate d 0) hne).2
    rw [maxL_replicate_zero] at this
    simp at this
    exact this

theorem pairN_bijection (k : Kind) (d : Nat) (hd : 1 ≤ d) : NdBij k.pairN k.projD d := by
  cases k with
  | cantor => exact cantor.ndBij cantor_isBij (by decide) d hd
  | rs2 => exact rs2.ndBij rs2_isBij (by decide) d hd
  | rs => exact rs_ndBij d hd
  | szudzik => exact szudzik.ndBij szudzik_isBij (by decide) d hd
  | pepis => exact pepis.ndBij pepis_isBij (by decide) d hd

/-! ## 5. ℤ^d with the origin omitted: every non-zero state exactly once, `pair` inverts `project` -/

/-- for any pairing that is a bijection ℕ ↔ ℕ^d: `project` never yields the origin, `pair ∘ project = id`,
and every non-zero state of ℤ^d is `project i` for exactly one `i` (namely `pair v`) -/
theorem zd_enumerates_nonzero_once {pairN : List Nat → Nat} {projD : Nat → Nat → List Nat} {d : Nat}
    (h : NdBij pairN projD d) :
    (∀ i, (zdProject projD 1 d i).length = d ∧ zdProject projD 1 d i ≠ List.replicate d 0 ∧
          zdPair pairN 1 (zdProject projD 1 d i) = i) ∧
    (∀ v : List Int, v.length = d → v ≠ List.replicate d 0 →
          (∃! i : Nat, zdProject projD 1 d i = v) ∧ ∃ i : Nat, zdPair pairN 1 v = i ∧ zdProject projD 1 d i = v) :=
  ⟨fun i => ⟨zd_length h i, zd_project_ne_zero h i, zd_pair_project h i⟩,
   fun v hl hv => ⟨zd_exactly_once h v hl hv, zd_project_pair h v hl hv⟩⟩

/-- instance: Cantor, Rosenberg–Strong (both forms), Szudzik, Pepis–Kalmár in every dimension d ≥ 1 -/
theorem zd_enumerates_nonzero_once_kind (k : Kind) (d : Nat) (hd : 1 ≤ d) (v : List Int)
    (hl : v.length = d) (hv : v ≠ List.replicate d 0) : ∃! i : Nat, zdProject k.projD 1 d i = v :=
  zd_exactly_once (pairN_bijection k d hd) v hl hv

/-! ## 6. the interval `[-L, R]` (`PairingToZ1d`), every L, R > 0 -/

/-- pure-function model (= the code asked in increasing index order, see `z1d_machine_increasing`): the indices
`0 … L+R-1` hit every non-zero state of `[-L, R]` exactly once and `pair` inverts `project` -/
theorem z1d_enumerates_interval_once (L R : Nat) (hL : 0 < L) (hR : 0 < R) :
    (∀ i, i < L + R → -(L : Int) ≤ z1dProject L R 1 i ∧ z1dProject L R 1 i ≤ R ∧ z1dProject L R 1 i ≠ 0 ∧
        z1dPair L R 1 (z1dProject L R 1 i) = i) ∧
    (∀ v : Int, -(L : Int) ≤ v → v ≤ R → v ≠ 0 → ∃! i : Nat, i < L + R ∧ z1dProject L R 1 i = v) := by
  refine ⟨fun i hi => ?_, fun v h1 h2 h0 => ?_⟩
  · obtain ⟨a, b, c⟩ := z1d_mem L R i hL hR hi
    exact ⟨a, b, c, z1d_pair_project' L R i hL hR hi⟩
  · obtain ⟨i, hi, _, hv⟩ := z1d_project_pair' L R v hL hR h1 h2 h0
    refine ⟨i, ⟨hi, hv⟩, fun j ⟨hj, hjv⟩ => ?_⟩
    have a := z1d_pair_project' L R i hL hR hi
    have b := z1d_pair_project' L R j hL hR hj
    rw [hv] at a; rw [hjv] at b
    omega

/-- `project ∘ pair = id` on the non-zero states of the interval -/
theorem z1d_project_pair (L R : Nat) (hL : 0 < L) (hR : 0 < R) (v : Int) (h1 : -(L : Int) ≤ v) (h2 : v ≤ R)
    (h0 : v ≠ 0) : ∃ i : Nat, i < L + R ∧ z1dPair L R 1 v = i ∧ z1dProject L R 1 i = v :=
  z1d_project_pair' L R v hL hR h1 h2 h0

/-- with the origin kept (`omit_zero=False`): `0 … L+R` ↔ all states of `[-L, R]` -/
theorem z1d_keep_zero_bijection (L R : Nat) (hL : 0 < L) (hR : 0 < R) :
    (∀ i, i ≤ L + R → -(L : Int) ≤ z1dProject L R 0 i ∧ z1dProject L R 0 i ≤ R ∧
        z1dPair L R 0 (z1dProject L R 0 i) = i) ∧
    (∀ v : Int, -(L : Int) ≤ v → v ≤ R → ∃ i : Nat, i ≤ L + R ∧ z1dPair L R 0 v = i ∧ z1dProject L R 0 i = v) :=
  ⟨fun i hi => ⟨(z1d0_mem L R i hL hR hi).1, (z1d0_mem L R i hL hR hi).2, z1d0_pair_project L R i hL hR hi⟩,
   fun v h1 h2 => z1d0_project_pair L R v hL hR h1 h2⟩

/-- the object as coded (`_switch`, `_kk`, `@cache`), asked `project(0), project(1), …, project(n-1)` in this order
on a fresh object, returns the pure function's values -/
theorem z1d_machine_increasing (L R o : Nat) (ho : o ≤ 1) (hL : 0 < L) (hR : 0 < R) (n : Nat) :
    (z1dRun L R o Z1dState.fresh (List.range n)).2 = (List.range n).map (z1dProject L R o) := by
  rw [List.range_eq_range']
  exact z1dRun_range' L R o ho hL hR n 0 _ (z1dInv_fresh L R o ho hL hR)


/-- the `@cache` of `project` is modelled as a memo of the first answer per index that is never evicted: a repeated ask
returns the first answer, for every object state and every history in between.  (A bounded cache would not have this
property: the recomputed answer comes from the moved-on `_kk`.) -/
theorem z1d_memo_stable (L R o : Nat) (s : Z1dState) (i : Nat) (hist : List Nat) :
    (z1dStep L R o (z1dRun L R o (z1dStep L R o s i).1 hist).1 i).2 = (z1dStep L R o s i).2 :=
  z1d_memo_stable' L R o s i hist

/-- FULL STATEMENT THAT DOES NOT HOLD (property: "all call orders of the stateful projections"):
  `∀ history, (z1dRun L R o fresh history).2 = history.map (z1dProject L R o)`.
Negation witness on `[-2, 5]`: asked `project(6)` first, the object answers 4 (not 5); `project(5)` then answers 4 as
well: state 4 twice, state 5 never; asked in increasing order the same two indices give 4, 5. -/
theorem z1d_order_counterexample :
    (z1dRun 2 5 1 Z1dState.fresh [6, 5]).2 = [4, 4] ∧
    (z1dRun 2 5 1 Z1dState.fresh [5, 6]).2 = [4, 5] ∧
    [z1dProject 2 5 1 6, z1dProject 2 5 1 5] = [5, 4] := by decide

/-! ## 7. `lazy_indices_product`: every index tuple of the given sizes exactly once (all lists of sizes) -/

theorem lazyProduct_length (sizes : List Nat) : (lazyProduct sizes).length = prodL sizes :=
  lazyProduct_length' sizes

/-- every yielded tuple is an index tuple of the given sizes -/
theorem lazyProduct_sound (sizes : List Nat) (n : Nat) (t : List Nat) (h : (lazyProduct sizes)[n]? = some t) :
    Below t sizes := by
  rw [lazyProduct_getElem?] at h
  by_cases c : n < prodL sizes
  · simp only [c, if_true, Option.some.injEq] at h; subst h; exact lazyNth_below sizes n c
  · simp [c] at h

/-- every index tuple of the given sizes is yielded at exactly one position -/
theorem lazyProduct_exactly_once (sizes : List Nat) (t : List Nat) (h : Below t sizes) :
    ∃! n : Nat, (lazyProduct sizes)[n]? = some t := by
  refine ⟨undigits sizes t, ?_, fun m hm => ?_⟩
  · beta_reduce
    rw [lazyProduct_getElem?]; simp [undigits_lt sizes t h, lazyNth_undigits sizes t h]
  · beta_reduce at hm
    rw [lazyProduct_getElem?] at hm
    by_cases c : m < prodL sizes
    · simp only [c, if_true, Option.some.injEq] at hm
      rw [← hm, undigits_lazyNth sizes m c]
    · simp [c] at hm

/-! ## 8. `StatesManager.project_index_to_state_increment`, asked x = 0, 1, 2, … on a fresh object

`adm i` = "`project(i)` is inside grid and domain"; `bound` = exclusive end of the search (`max_frontier_indices + 1`).
`(smRun adm bound n).2` = what the calls `0 … n-1` returned (`some j` = state of index `j`, `none` = exhaustion). -/

/-- an admissible index below the bound has been returned exactly once as soon as `n` calls, `n > j`, were made -/
theorem sm_returned_once (adm : Nat → Bool) (bound j n : Nat) (hj : j < bound) (ha : adm j = true) (hn : j < n) :
    (smRun adm bound n).2.count (some j) = 1 := by
  obtain ⟨h1, _, h3⟩ := smRun_inv adm bound n
  rw [h3 j]; simp [hj, ha]; omega

/-- no index is ever returned twice; what is returned is admissible and below the bound -/
theorem sm_at_most_once (adm : Nat → Bool) (bound j n : Nat) :
    (smRun adm bound n).2.count (some j) ≤ 1 ∧
    (0 < (smRun adm bound n).2.count (some j) → j < bound ∧ adm j = true) := by
  obtain ⟨_, _, h3⟩ := smRun_inv adm bound n
  rw [h3 j]
  split_ifs with c
  · exact ⟨Nat.le_refl _, fun _ => ⟨c.2.1, c.2.2⟩⟩
  · exact ⟨by omega, fun h => by omega⟩

/-- exhaustion is signalled at the latest by call number `bound` … -/
theorem sm_exhausts (adm : Nat → Bool) (bound n : Nat) (hn : bound ≤ n) :
    (smStep adm bound (-1) (smRun adm bound n).1 n).2 = none := by
  obtain ⟨h1, _, _⟩ := smRun_inv adm bound n
  unfold smStep
  have hne : ¬ ((n : Int) = -1) := by omega
  have e : bound - max n (smRun adm bound n).1 = 0 := by omega
  simp only [hne, if_false, e, scan]

/-- … and never before every admissible index below the bound has been returned -/
theorem sm_no_early_exhaustion (adm : Nat → Bool) (bound n : Nat)
    (h : (smStep adm bound (-1) (smRun adm bound n).1 n).2 = none) (j : Nat) (hj : j < bound) (ha : adm j = true) :
    (smRun adm bound n).2.count (some j) = 1 := by
  obtain ⟨h1, _, h3⟩ := smRun_inv adm bound n
  rw [h3 j]
  unfold smStep at h
  have hne : ¬ ((n : Int) = -1) := by omega
  have hmax : max n (smRun adm bound n).1 = (smRun adm bound n).1 := by omega
  simp only [hne, if_false, hmax] at h
  cases hs : scan adm (smRun adm bound n).1 (bound - (smRun adm bound n).1) with
  | some j' => rw [hs] at h; simp at h
  | none =>
    have hn := scan_none adm _ _ hs
    by_cases c : j < (smRun adm bound n).1
    · simp [c, hj, ha]
    · have := hn j (by omega) (by omega)
      rw [ha] at this; cases this

/-- an index at or beyond the bound is never returned -/
theorem sm_never_beyond_bound (adm : Nat → Bool) (bound j n : Nat) (hj : bound ≤ j) :
    (smRun adm bound n).2.count (some j) = 0 := by
  obtain ⟨_, _, h3⟩ := smRun_inv adm bound n
  rw [h3 j]
  have : ¬ j < bound := by omega
  simp [this]

/-! ### 1-d grid with `L` states left and `R` states right of the origin, `PairingToZ1d((-L, R))` -/

def sm1dAdm (L R i : Nat) : Bool := inBox L [L + R + 1] [z1dProject L R 1 i]
/-- `max_frontier_indices + 1` as the code computes it from `pair(-L)` and `pair(R)` -/
def sm1dBound (L R : Nat) : Nat := (maxFrontier (fun v => z1dPair L R 1 (v.headD 0)) L [L + R + 1] + 1).toNat

theorem sm1d_bound (L R : Nat) (hL : 0 < L) (hR : 0 < R) : sm1dBound L R = L + R := by
  have e1 : z1dPair L R 1 (-(L : Int)) = if L ≤ R then 2 * (L : Int) - 1 else (R : Int) + L - 1 := by
    unfold z1dPair ofZ; split_ifs <;> omega
  have e2 : z1dPair L R 1 (((L + R + 1 : Nat) : Int) - 1 - L) = if R ≤ L then 2 * (R : Int) - 2 else (R : Int) + L - 1 := by
    unfold z1dPair ofZ; split_ifs <;> omega
  simp only [sm1dBound, maxFrontier, List.reverse_cons, List.reverse_nil, List.nil_append, List.headD_cons, e1, e2]
  split_ifs <;> omega

theorem sm1d_adm (L R i : Nat) (hL : 0 < L) (hR : 0 < R) (hi : i < L + R) : sm1dAdm L R i = true := by
  obtain ⟨a, b, _⟩ := z1d_mem L R i hL hR hi
  simp only [sm1dAdm, inBox, Bool.and_true, Bool.and_eq_true, decide_eq_true_eq]
  omega

/-- **each in-grid non-origin state exactly once, then exhaustion** (1-d): every state `v ≠ 0` of `[-L, R]` is the state
of exactly one returned index; the calls `0 … L+R-1` return the `L+R` states, call `L+R` and all later calls signal
exhaustion and no call before does -/
theorem states_manager_1d (L R : Nat) (hL : 0 < L) (hR : 0 < R) :
    (∀ v : Int, -(L : Int) ≤ v → v ≤ R → v ≠ 0 →
        ∃ j : Nat, z1dProject L R 1 j = v ∧
          ∀ n, L + R ≤ n → (smRun (sm1dAdm L R) (sm1dBound L R) n).2.count (some j) = 1) ∧
    (∀ j n, (smRun (sm1dAdm L R) (sm1dBound L R) n).2.count (some j) ≤ 1 ∧
        (0 < (smRun (sm1dAdm L R) (sm1dBound L R) n).2.count (some j) →
          -(L : Int) ≤ z1dProject L R 1 j ∧ z1dProject L R 1 j ≤ R ∧ z1dProject L R 1 j ≠ 0)) ∧
    (∀ n, L + R ≤ n → (smStep (sm1dAdm L R) (sm1dBound L R) (-1) (smRun (sm1dAdm L R) (sm1dBound L R) n).1 n).2 = none) ∧
    (∀ n, n < L + R → (smStep (sm1dAdm L R) (sm1dBound L R) (-1) (smRun (sm1dAdm L R) (sm1dBound L R) n).1 n).2 ≠ none) := by
  have hb := sm1d_bound L R hL hR
  refine ⟨fun v h1 h2 h0 => ?_, fun j n => ?_, fun n hn => ?_, fun n hn hc => ?_⟩
  · obtain ⟨j, hj, _, hv⟩ := z1d_project_pair' L R v hL hR h1 h2 h0
    exact ⟨j, hv, fun n hn => sm_returned_once _ _ j n (by omega) (sm1d_adm L R j hL hR hj) (by omega)⟩
  · obtain ⟨a, b⟩ := sm_at_most_once (sm1dAdm L R) (sm1dBound L R) j n
    refine ⟨a, fun h => ?_⟩
    obtain ⟨c, _⟩ := b h
    exact z1d_mem L R j hL hR (by omega)
  · exact sm_exhausts _ _ n (by omega)
  · have hall : ∀ i, i < sm1dBound L R → sm1dAdm L R i = true := fun i hi => sm1d_adm L R i hL hR (by omega)
    rw [smRun_all_adm _ _ hall n (by omega)] at hc
    rw [smStep_all_adm _ _ n hall (by omega)] at hc
    simp at hc

/-! ### box grid (common origin index `o`, axis sizes `ns`) with `PairingToZd`, zero omitted -/

def smBoxAdm (projD : Nat → Nat → List Nat) (o : Nat) (ns : List Nat) (i : Nat) : Bool :=
  inBox o ns (zdProject projD 1 ns.length i)

/-- **each in-box non-origin state exactly once, then exhaustion** for any pairing that is a bijection ℕ ↔ ℕ^d,
*under the hypothesis that the search bound exceeds every in-box index* (`hb`).  Since /repo commit 94bedf1 the bound the
code computes (`smBoxBound`, from `max_inside_index`) satisfies `hb` for every pairing: `states_manager_box_all`. -/
theorem states_manager_box {pairN : List Nat → Nat} {projD : Nat → Nat → List Nat} (o : Nat) (ns : List Nat)
    (h : NdBij pairN projD ns.length) (bound : Nat)
    (hb : ∀ v, inBox o ns v = true → v ≠ List.replicate ns.length 0 → zdPair pairN 1 v < bound) :
    (∀ v, inBox o ns v = true → v ≠ List.replicate ns.length 0 →
        ∃ j : Nat, zdPair pairN 1 v = j ∧ zdProject projD 1 ns.length j = v ∧
          ∀ n, j < n → (smRun (smBoxAdm projD o ns) bound n).2.count (some j) = 1) ∧
    (∀ j n, (smRun (smBoxAdm projD o ns) bound n).2.count (some j) ≤ 1 ∧
        (0 < (smRun (smBoxAdm projD o ns) bound n).2.count (some j) →
          inBox o ns (zdProject projD 1 ns.length j) = true ∧
          zdProject projD 1 ns.length j ≠ List.replicate ns.length 0)) ∧
    (∀ n, bound ≤ n → (smStep (smBoxAdm projD o ns) bound (-1) (smRun (smBoxAdm projD o ns) bound n).1 n).2 = none) ∧
    (∀ n, (smStep (smBoxAdm projD o ns) bound (-1) (smRun (smBoxAdm projD o ns) bound n).1 n).2 = none →
        ∀ v, inBox o ns v = true → v ≠ List.replicate ns.length 0 →
          ∃ j : Nat, zdProject projD 1 ns.length j = v ∧ (smRun (smBoxAdm projD o ns) bound n).2.count (some j) = 1) := by
  refine ⟨fun v hv hv0 => ?_, fun j n => ?_, fun n hn => sm_exhausts _ _ n hn, fun n hnone v hv hv0 => ?_⟩
  · obtain ⟨j, hj, hp⟩ := zd_project_pair h v (inBox_length o ns v hv) hv0
    have hlt := hb v hv hv0
    refine ⟨j, hj, hp, fun n hn => sm_returned_once _ _ j n (by omega) ?_ hn⟩
    simp only [smBoxAdm, hp, hv]
  · obtain ⟨a, b⟩ := sm_at_most_once (smBoxAdm projD o ns) bound j n
    exact ⟨a, fun hc => ⟨(b hc).2, zd_project_ne_zero h j⟩⟩
  · obtain ⟨j, hj, hp⟩ := zd_project_pair h v (inBox_length o ns v hv) hv0
    have hlt := hb v hv hv0
    refine ⟨j, hp, sm_no_early_exhaustion _ _ n hnone j (by omega) ?_⟩
    simp only [smBoxAdm, hp, hv]


/-- the PRE-94bedf1 search bound: `max(frontier_states) + 1` (the frontier list itself is unchanged by the fix and is still
what `_sample_frontier_state_increment` draws from) -/
def smBoxBoundFrontier (pairN : List Nat → Nat) (o : Nat) (ns : List Nat) : Nat := (maxFrontier (zdPair pairN 1) o ns + 1).toNat

/-- the search bound as the code computes it since 94bedf1: `max(max(frontier_states), max_inside_index) + 1` -/
def smBoxBound (pairN : List Nat → Nat) (o : Nat) (ns : List Nat) : Nat := (maxEnum (zdPair pairN 1) o ns + 1).toNat

/-- the code's bound exceeds the index of every state of the box: every pairing, every box of dimension ≥ 2, any axis sizes -/
theorem code_bound_exceeds_box (pairN : List Nat → Nat) (o : Nat) (ns : List Nat) (hd : 2 ≤ ns.length) (v : List Int)
    (hv : inBox o ns v = true) : zdPair pairN 1 v < (smBoxBound pairN o ns : Int) :=
  lt_maxEnum_succ (zdPair pairN 1) o ns hd v hv

/-- the code's bound is attained: it is never larger than needed by more than the frontier (no index beyond
`max(frontier, inside, 0)` is searched) -/
theorem code_bound_ge_frontier (pairN : List Nat → Nat) (o : Nat) (ns : List Nat) :
    smBoxBoundFrontier pairN o ns ≤ smBoxBound pairN o ns := by
  unfold smBoxBoundFrontier smBoxBound maxEnum
  split <;> omega

/-- **each in-box non-origin state exactly once, then exhaustion, with the bound the code computes**, for ANY pairing that
is a bijection ℕ ↔ ℕ^d, on every box of dimension ≥ 2 (any origin index, any axis sizes) -/
theorem states_manager_box_code_bound {pairN : List Nat → Nat} {projD : Nat → Nat → List Nat} (o : Nat) (ns : List Nat)
    (hd : 2 ≤ ns.length) (h : NdBij pairN projD ns.length) :
    (∀ v, inBox o ns v = true → v ≠ List.replicate ns.length 0 →
        ∃ j : Nat, zdPair pairN 1 v = j ∧ zdProject projD 1 ns.length j = v ∧
          ∀ n, j < n → (smRun (smBoxAdm projD o ns) (smBoxBound pairN o ns) n).2.count (some j) = 1) ∧
    (∀ j n, (smRun (smBoxAdm projD o ns) (smBoxBound pairN o ns) n).2.count (some j) ≤ 1 ∧
        (0 < (smRun (smBoxAdm projD o ns) (smBoxBound pairN o ns) n).2.count (some j) →
          inBox o ns (zdProject projD 1 ns.length j) = true ∧
          zdProject projD 1 ns.length j ≠ List.replicate ns.length 0)) ∧
    (∀ n, smBoxBound pairN o ns ≤ n →
        (smStep (smBoxAdm projD o ns) (smBoxBound pairN o ns) (-1) (smRun (smBoxAdm projD o ns) (smBoxBound pairN o ns) n).1 n).2 = none) ∧
    (∀ n, (smStep (smBoxAdm projD o ns) (smBoxBound pairN o ns) (-1) (smRun (smBoxAdm projD o ns) (smBoxBound pairN o ns) n).1 n).2 = none →
        ∀ v, inBox o ns v = true → v ≠ List.replicate ns.length 0 →
          ∃ j : Nat, zdProject projD 1 ns.length j = v ∧
            (smRun (smBoxAdm projD o ns) (smBoxBound pairN o ns) n).2.count (some j) = 1) :=
  states_manager_box o ns h (smBoxBound pairN o ns) (fun v hv _ => code_bound_exceeds_box pairN o ns hd v hv)

/-- instance: Cantor, Rosenberg–Strong (both forms; the factory's pairing for d ≥ 3), Szudzik (the factory's pairing for
d = 2), Pepis–Kalmár — every kind, every dimension ≥ 2, the code's own bound -/
theorem states_manager_box_all (k : Kind) (o : Nat) (ns : List Nat) (hd : 2 ≤ ns.length) :
    (∀ v, inBox o ns v = true → v ≠ List.replicate ns.length 0 →
        ∃ j : Nat, zdPair k.pairN 1 v = j ∧ zdProject k.projD 1 ns.length j = v ∧
          ∀ n, j < n → (smRun (smBoxAdm k.projD o ns) (smBoxBound k.pairN o ns) n).2.count (some j) = 1) ∧
    (∀ j n, (smRun (smBoxAdm k.projD o ns) (smBoxBound k.pairN o ns) n).2.count (some j) ≤ 1 ∧
        (0 < (smRun (smBoxAdm k.projD o ns) (smBoxBound k.pairN o ns) n).2.count (some j) →
          inBox o ns (zdProject k.projD 1 ns.length j) = true ∧
          zdProject k.projD 1 ns.length j ≠ List.replicate ns.length 0)) ∧
    (∀ n, smBoxBound k.pairN o ns ≤ n →
        (smStep (smBoxAdm k.projD o ns) (smBoxBound k.pairN o ns) (-1) (smRun (smBoxAdm k.projD o ns) (smBoxBound k.pairN o ns) n).1 n).2 = none) ∧
    (∀ n, (smStep (smBoxAdm k.projD o ns) (smBoxBound k.pairN o ns) (-1) (smRun (smBoxAdm k.projD o ns) (smBoxBound k.pairN o ns) n).1 n).2 = none →
        ∀ v, inBox o ns v = true → v ≠ List.replicate ns.length 0 →
          ∃ j : Nat, zdProject k.projD 1 ns.length j = v ∧
            (smRun (smBoxAdm k.projD o ns) (smBoxBound k.pairN o ns) n).2.count (some j) = 1) :=
  states_manager_box_code_bound o ns hd (pairN_bijection k ns.length (by omega))

/-- non-vacuity and the repaired case: on the 3×3×3 box around the origin Rosenberg–Strong's state (-1, 0, 0) has index 25,
beyond every frontier index (20); the code's bound is now 26 -/
example : inBox 1 [3, 3, 3] [-1, 0, 0] = true ∧ zdPair rsPair 1 [-1, 0, 0] = 25 ∧ smBoxBound rsPair 1 [3, 3, 3] = 26 := by decide +kernel

/-- Szudzik, Cantor and Pepis–Kalmár are monotone in the last coordinate, hence already the frontier indices exceed every
in-box index (boxes of dimension ≥ 2, any axis sizes): for them the fix does not change the bound's adequacy.  (No longer
needed as a hypothesis provider: `states_manager_box_all`.) -/
theorem monotone_frontier_bound (k : Kind) (hk : k = .szudzik ∨ k = .cantor ∨ k = .pepis) (o : Nat)
    (first : List Nat) (nL : Nat) (hf : first ≠ []) (v : List Int) (hv : inBox o (first ++ [nL]) v = true) :
    zdPair k.pairN 1 v < (smBoxBoundFrontier k.pairN o (first ++ [nL]) : Int) := by
  have h : zdPair k.pairN 1 v ≤ maxFrontier (zdPair k.pairN 1) o (first ++ [nL]) := by
    rcases hk with rfl | rfl | rfl
    · exact frontier_bound_of_mono szudzik szudzik_mono_right o first nL hf v hv
    · exact frontier_bound_of_mono cantor cantor_mono_right o first nL hf v hv
    · exact frontier_bound_of_mono pepis pepis_mono_right o first nL hf v hv
  unfold smBoxBoundFrontier
  omega

/-- WITNESS ABOUT THE PRE-FIX BOUND `max(frontier_states)` (what /repo computed before 94bedf1; recorded finding
C14-rs-frontier-bound, now fixed): with Rosenberg–Strong it did NOT exceed every in-box index.  On the 3×3 grid the in-box
state (-1, 0) has index 7 but the largest *frontier* index is 6; on the 3×3×3 grid (-1, 0, 0) has index 25, the largest
frontier index is 20.  By `sm_never_beyond_bound` these states were never returned.  The bound computed now covers them. -/
theorem rs_frontier_bound_prefix_witness :
    (inBox 1 [3, 3] [-1, 0] = true ∧ zdPair rsPair 1 [-1, 0] = 7 ∧ maxFrontier (zdPair rsPair 1) 1 [3, 3] = 6 ∧
      maxEnum (zdPair rsPair 1) 1 [3, 3] = 7) ∧
    (inBox 1 [3, 3, 3] [-1, 0, 0] = true ∧ zdPair rsPair 1 [-1, 0, 0] = 25 ∧
      maxFrontier (zdPair rsPair 1) 1 [3, 3, 3] = 20 ∧ maxEnum (zdPair rsPair 1) 1 [3, 3, 3] = 25) := by decide +kernel


/-! ## 9. `HyperbolicPairing` (pairing.py:138-192; numbers.py `a_n`, `upper_bound_a_n`)

The model `hypPair` / `hypProj` uses `a_n` as coded (`aN`, the `O(√n)` closed form), the exact inverse `upperBound` of
`a_n` (the code's float bracket + bisection is modelled by its exact result, as `_integer_root` is), the trial-division
factorisation `factor` (for `sympy.factorint`) and `mult` (for `sympy.multiplicity`). -/

/-- **Dirichlet's hyperbola method**: `a_n(n)` as coded, `2 Σ_{k≤⌊√n⌋} ⌊n/k⌋ - ⌊√n⌋²`, is `Σ_{k≤n} ⌊n/k⌋` -/
theorem aN_hyperbola (n : Nat) : aN n = ∑ k ∈ Finset.Icc 1 n, n / k := aN_eq_sum n

/-- `a_n` is the divisor summatory function: its increments are the divisor counts, `a_n(0) = 0` -/
theorem aN_divisor_summatory (n : Nat) :
    aN 0 = 0 ∧ aN (n + 1) = aN n + ((Finset.Icc 1 (n + 1)).filter (fun k => k ∣ n + 1)).card :=
  ⟨aN_zero, aN_succ n⟩

/-- `upper_bound_a_n(z)` (exact result) is the unique `n ≥ 1` with `a_n(n-1) ≤ z < a_n(n)` -/
theorem upperBound_exact (z : Nat) :
    (1 ≤ upperBound z ∧ aN (upperBound z - 1) ≤ z ∧ z < aN (upperBound z)) ∧
    ∀ n, 1 ≤ n → aN (n - 1) ≤ z → z < aN n → upperBound z = n :=
  ⟨upperBound_spec z, fun n hn h1 h2 => upperBound_unique z n hn h1 h2⟩

/-- the trial division is the prime factorisation with strictly increasing primes (`sorted(factorint(n).items())`) -/
theorem factor_is_factorisation (n : Nat) (hn : 1 ≤ n) : GoodF (factor n) ∧ nOf (factor n) = n := factor_spec n hn

/-- **mixed radix = divisors**: for a factorisation `fs` (increasing primes) the mixed-radix digits of the offsets
`0 … Π(e_i+1) - 1` enumerate the divisors of `n = Π p_i^e_i` exactly once, and the pairing's offset loop is the inverse -/
theorem offsets_enumerate_divisors_once (fs : List (Nat × Nat)) (hg : GoodF fs) :
    (∀ off, off < prodL (radices fs) →
        prodPow fs (lazyNth (radices fs) off) ∣ nOf fs ∧ hypEncode (prodPow fs (lazyNth (radices fs) off)) 1 fs = off) ∧
    (∀ x, x ∣ nOf fs → ∃! off, off < prodL (radices fs) ∧ prodPow fs (lazyNth (radices fs) off) = x) := by
  refine ⟨fun off h => ⟨(decode_spec fs hg off h).1, (decode_spec fs hg off h).2.2⟩, fun x hx => ?_⟩
  obtain ⟨i1, i2⟩ := encode_spec fs hg x hx
  refine ⟨hypEncode x 1 fs, ⟨i1, i2⟩, fun off ⟨h1, h2⟩ => ?_⟩
  have := (decode_spec fs hg off h1).2.2
  rw [h2] at this; exact this.symm

example : GoodF [(2, 3), (3, 2), (5, 1)] ∧ nOf [(2, 3), (3, 2), (5, 1)] = 360 :=
  ⟨⟨Nat.prime_two, by simp, Nat.prime_three, by simp, Nat.prime_five, by simp, trivial⟩, by decide⟩

/-- block `n ≥ 1` of the enumeration has exactly `d(n) = Π(e_i+1)` indices -/
theorem aN_block_size (n : Nat) (hn : 1 ≤ n) : aN n = aN (n - 1) + prodL (radices (factor n)) := aN_block n hn

/-- **`HyperbolicPairing` is a bijection ℕ ↔ ℕ²** (model with exact inverse of `a_n` and exact factorisation):
`pairing2d ∘ projection2d = id` for all naturals … -/
theorem pair_proj_hyperbolic (z : Nat) : hypPair (hypProj z).1 (hypProj z).2 = z := hyp_pair_proj z

/-- … and `projection2d ∘ pairing2d = id` for all pairs of naturals -/
theorem proj_pair_hyperbolic (x y : Nat) : hypProj (hypPair x y) = (x, y) := hyp_proj_pair x y

theorem hypPair_zero : hypPair 0 0 = 0 := by decide

/-- `Pairing.pairing / projection(·, d)` (the base-class fold, which `HyperbolicPairing` inherits) with the hyperbolic
pairing is a bijection ℕ ↔ ℕ^d for every d ≥ 1 -/
theorem hyperbolic_ndBij (d : Nat) (hd : 1 ≤ d) : NdBij hyperbolic.pairN hyperbolic.projD d :=
  hyperbolic.ndBij ⟨hyp_pair_proj, hyp_proj_pair⟩ hypPair_zero d hd

/-- `PairingToZd(HyperbolicPairing(), d)`, zero omitted: every non-zero state of ℤ^d exactly once -/
theorem zd_enumerates_nonzero_once_hyperbolic (d : Nat) (hd : 1 ≤ d) (v : List Int)
    (hl : v.length = d) (hv : v ≠ List.replicate d 0) : ∃! i : Nat, zdProject hyperbolic.projD 1 d i = v :=
  zd_exactly_once (hyperbolic_ndBij d hd) v hl hv

/-! ## 10. `StatesManager.project_index_to_state_increment` for ARBITRARY call histories and the `max_logged` reset

`smRunList adm bound maxLogged nxt xs` = the object with skip pointer `nxt` asked the history `xs`.
`NoReset maxLogged xs`: no argument of the history equals `max_logged` (always true for the default `max_logged = -1`). -/

/-- without reset, ANY history: the pointer advances by at least one per call; every returned index is admissible, below
the bound, not below the start pointer; the returned indices are strictly increasing along the history -/
theorem sm_history_invariant (adm : Nat → Bool) (bound : Nat) (maxLogged : Int) (xs : List Nat) (nxt : Nat)
    (h : NoReset maxLogged xs) :
    nxt + xs.length ≤ (smRunList adm bound maxLogged nxt xs).1 ∧
    (∀ j, some j ∈ (smRunList adm bound maxLogged nxt xs).2 →
      nxt ≤ j ∧ j < (smRunList adm bound maxLogged nxt xs).1 ∧ j < bound ∧ adm j = true) ∧
    ((smRunList adm bound maxLogged nxt xs).2.filterMap id).Pairwise (· < ·) :=
  smRunList_noreset_inv adm bound maxLogged xs nxt h

/-- without reset no index is returned twice, whatever the history -/
theorem sm_history_at_most_once (adm : Nat → Bool) (bound : Nat) (maxLogged : Int) (xs : List Nat) (nxt : Nat)
    (h : NoReset maxLogged xs) (j : Nat) : (smRunList adm bound maxLogged nxt xs).2.count (some j) ≤ 1 :=
  smRunList_noreset_count_le_one adm bound maxLogged xs nxt h j

example : NoReset (-1) [3, 0, 7] := noReset_neg_one _

/-- what one call answers (reset or not): the first admissible index in `[max x pointer, bound)`, else exhaustion -/
theorem sm_call_first_admissible (adm : Nat → Bool) (bound : Nat) (maxLogged : Int) (nxt x j : Nat) :
    (smStep adm bound maxLogged nxt x).2 = some j ↔
      (max x (smPtr maxLogged nxt x) ≤ j ∧ j < bound ∧ adm j = true ∧
        ∀ i, max x (smPtr maxLogged nxt x) ≤ i → i < j → adm i = false) :=
  smStep_eq_some_iff adm bound maxLogged nxt x j

/-- exhaustion is sticky without reset -/
theorem sm_history_exhaustion_sticky (adm : Nat → Bool) (bound : Nat) (maxLogged : Int) (xs : List Nat) (nxt : Nat)
    (h : NoReset maxLogged xs) (i k : Nat) (hik : i ≤ k) (hk : k < xs.length)
    (hi : (smRunList adm bound maxLogged nxt xs).2[i]? = some none) :
    (smRunList adm bound maxLogged nxt xs).2[k]? = some none :=
  smRunList_none_sticky adm bound maxLogged xs nxt h i k hik hk hi

/-- a history on a fresh object that never asks beyond the number of calls made so far (`x_k ≤ k`; this covers
repetitions, going back, and every non-decreasing history without jumps: `sm_history_no_jump`) answers exactly like
`0, 1, …, len-1`: all the theorems of section 8 transfer -/
theorem sm_history_never_skipping (adm : Nat → Bool) (bound : Nat) (xs : List Nat)
    (h : ∀ (k x : Nat), xs[k]? = some x → x ≤ k) :
    smRunList adm bound (-1) 0 xs = smRun adm bound xs.length := smRunList_never_skipping adm bound xs h

theorem sm_history_no_jump (adm : Nat → Bool) (bound : Nat) (xs : List Nat)
    (h0 : ∀ x : Nat, xs[0]? = some x → x = 0)
    (hs : ∀ (k x y : Nat), xs[k]? = some x → xs[k + 1]? = some y → y ≤ x + 1) :
    smRunList adm bound (-1) 0 xs = smRun adm bound xs.length := smRunList_no_jump adm bound xs h0 hs

example : smRunList (fun i => i % 2 == 0) 5 (-1) 0 [0, 0, 1, 3, 2] = smRun (fun i => i % 2 == 0) 5 5 := by decide

/-- exactly once, then exhaustion, for never-skipping histories: when such a history has signalled exhaustion every
admissible index below the bound has been returned exactly once -/
theorem sm_history_never_skipping_complete (adm : Nat → Bool) (bound : Nat) (xs : List Nat)
    (h : ∀ (k x : Nat), xs[k]? = some x → x ≤ k) (hn : none ∈ (smRunList adm bound (-1) 0 xs).2)
    (j : Nat) (hb : j < bound) (ha : adm j = true) : (smRunList adm bound (-1) 0 xs).2.count (some j) = 1 :=
  smRunList_never_skipping_complete adm bound xs h hn j hb ha

/-- a call that asks beyond the pointer loses what it jumps over: an index below the argument of a call that was not
returned before is never returned afterwards (no reset) -/
theorem sm_history_skipped_lost (adm : Nat → Bool) (bound : Nat) (maxLogged : Int) (nxt x : Nat)
    (pre xs : List Nat) (hnr : NoReset maxLogged (x :: xs)) (i : Nat) (hi : i < x)
    (hpre : some i ∉ (smRunList adm bound maxLogged nxt pre).2) :
    some i ∉ (smRunList adm bound maxLogged nxt (pre ++ x :: xs)).2 :=
  smRunList_skipped_never_returned' adm bound maxLogged nxt x pre xs hnr i hi hpre

/-- FULL STATEMENT THAT DOES NOT HOLD: "for every non-decreasing history on a fresh object every admissible index below
the bound is returned exactly once before exhaustion".  Witness: everything admissible, bound 3, history 1, 2, 3, 4:
answers 1, 2, exhausted, exhausted; index 0 is never returned. -/
theorem sm_history_skip_witness :
    (smRunList (fun _ => true) 3 (-1) 0 [1, 2, 3, 4]).2 = [some 1, some 2, none, none] ∧
    (smRunList (fun _ => true) 3 (-1) 0 [1, 2, 3, 4]).2.count (some 0) = 0 ∧
    none ∈ (smRunList (fun _ => true) 3 (-1) 0 [1, 2, 3, 4]).2 ∧
    ¬ (∀ (adm : Nat → Bool) (bound : Nat) (xs : List Nat) (j : Nat),
        xs.Pairwise (· ≤ ·) → none ∈ (smRunList adm bound (-1) 0 xs).2 → adm j = true → j < bound →
        (smRunList adm bound (-1) 0 xs).2.count (some j) = 1) := sm_history_skip_counterexample

/-- the reset: a call with `x = max_logged` (then calls without reset) answers like a FRESH object, whatever happened before -/
theorem sm_reset_is_fresh (adm : Nat → Bool) (bound : Nat) (maxLogged : Int) (nxt x : Nat) (pre seg : List Nat)
    (hx : (x : Int) = maxLogged) (hnr : NoReset maxLogged seg) :
    (smRunList adm bound maxLogged nxt (pre ++ x :: seg)).2 =
      (smRunList adm bound maxLogged nxt pre).2 ++ (smRunList adm bound (-1) 0 (x :: seg)).2 :=
  smRunList_reset_segment adm bound maxLogged nxt x pre seg hx hnr

/-- between two resets: strictly increasing, at most once, not below the reset argument -/
theorem sm_reset_segment (adm : Nat → Bool) (bound : Nat) (maxLogged : Int) (nxt x : Nat)
    (seg : List Nat) (hx : (x : Int) = maxLogged) (hnr : NoReset maxLogged seg) :
    ((smRunList adm bound maxLogged nxt (x :: seg)).2.filterMap id).Pairwise (· < ·) ∧
    (∀ j, (smRunList adm bound maxLogged nxt (x :: seg)).2.count (some j) ≤ 1) ∧
    (∀ j, some j ∈ (smRunList adm bound maxLogged nxt (x :: seg)).2 → x ≤ j ∧ j < bound ∧ adm j = true) :=
  smRunList_reset_segment_increasing adm bound maxLogged nxt x seg hx hnr

example : ((2 : Nat) : Int) = 2 ∧ NoReset 2 [0, 3] := by
  refine ⟨rfl, fun x hx => ?_⟩
  simp only [List.mem_cons, List.not_mem_nil, or_false] at hx
  rcases hx with rfl | rfl <;> decide

/-- every history, resets included: whatever is returned is admissible, below the bound and not below the argument -/
theorem sm_any_history_sound (adm : Nat → Bool) (bound : Nat) (maxLogged : Int) (xs : List Nat) (nxt k j : Nat)
    (h : (smRunList adm bound maxLogged nxt xs).2[k]? = some (some j)) :
    ∃ x, xs[k]? = some x ∧ x ≤ j ∧ j < bound ∧ adm j = true := smRunList_any_history adm bound maxLogged xs nxt k j h

/-- FULL STATEMENTS THAT DO NOT HOLD once the reset is used: "no index is returned twice" and "exhaustion is sticky".
Witnesses: everything admissible, `max_logged = 0`: bound 3, history 0, 1, 0 returns index 0 twice; bound 2, history
0, 1, 2, 0 answers 0, 1, exhausted, 0. -/
theorem sm_reset_witnesses :
    (smRunList (fun _ => true) 3 0 0 [0, 1, 0] = (1, [some 0, some 1, some 0]) ∧
     (smRunList (fun _ => true) 3 0 0 [0, 1, 0]).2.count (some 0) = 2) ∧
    (smRunList (fun _ => true) 2 0 0 [0, 1, 2, 0]).2 = [some 0, some 1, none, some 0] :=
  ⟨⟨sm_reset_repeats_counterexample.1, sm_reset_repeats_counterexample.2.1⟩, sm_reset_revives_counterexample⟩


/-- the reset in the inversion sampler's call pattern (calls `0 … max_logged-1`, then `max_logged` once its storage is full,
inversion.py:52-60): when an inadmissible index was skipped before, the reset call returns an index that was already
returned.  Witness: odd indices inadmissible, `max_logged = 2`: calls 0, 1, 2 return indices 0, 2, 2. -/
theorem sm_reset_sampler_pattern_witness :
    (smRunList (fun i => i % 2 == 0) 10 2 0 [0, 1, 2]).2 = [some 0, some 2, some 2] := by decide

end Rpylib.Pairing
