/-
C07 — Standard Monte-Carlo price, error and control-variate adjustment are textbook.
Property theorems about RpylibModel/Model/Stats.lean, for every number of paths and every sample.
The theorems live in the lemma files imported here (one payoff component: Lemmas/C07Basic.lean; vector payoffs, k controls,
the two-control kernel incl. the pseudo-inverse branch: Lemmas/C07Vec.lean).
-/
import RpylibModel.Proofs.Lemmas.C07Basic
import RpylibModel.Proofs.Lemmas.C07Vec
