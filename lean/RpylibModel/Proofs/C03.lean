/-
C03 — Level coupling keeps the coarse path in the previous level's law (telescoping).   Property theorems only.
Model: RpylibModel/Model/Coupling.lean (+ Model/Grid.lean `refine`, Model/Cells.lean `rate`, `intensity1d`, `rateNd`).
Helper lemmas: Proofs/Lemmas/C03Basic.lean, C03Nd.lean, C03Sub.lean (sub-cells, any axes), C03Nd3.lean, C03Nd3Flow.lean (d = 3),
C03Axes.lean (d = 2, two different axes).

Quantification (1-d): every coarse axis `axc` (`AxisOK`: strictly increasing, 0 at the interior index `o`), every
cell-boundary function strictly inside its gap (`Between`) with `mid a a = a` (`MidIdem`), every interval mass that is
additive and non-negative on intervals strictly on one side of 0 (`IsMass`); the fine axis is `refine mid axc`, its origin
`2 * o`.  The coupled coarse rate `coupledRate` is the sum over *all* fine states of (fine rate) x (probability that
`coupling_state` sends the state to y).
-/
import RpylibModel.Proofs.Lemmas.C03Basic
import RpylibModel.Proofs.Lemmas.C03Nd
import RpylibModel.Proofs.Lemmas.C03Cex
import RpylibModel.Proofs.Lemmas.C03Nd3Flow
import RpylibModel.Proofs.Lemmas.C03Axes

set_option linter.dupNamespace false
set_option linter.unusedVariables false
set_option linter.unusedSectionVars false

namespace Rpylib.Coupling
open Rpylib.Grid Rpylib.Cells Finset

/-! ### fine jumps on coarse states are copied, the others move to an adjacent coarse state -/

/-- the value `coupling_state` returns is the grid value at the index `couple1dIdx` -/
theorem couple1d_value (mid : ℚ → ℚ → ℚ) (ax : List ℚ) (o : ℕ) (m : ℚ → ℚ → ℚ) (inc : ℤ) (u : ℚ) :
    couple1d mid ax o m inc u =
      pt ax (couple1dIdx ax.length (posOf o inc) inc (decide (u < pRight mid ax m (posOf o inc)))) := by
  unfold couple1d couple1dIdx
  by_cases h : inc % 2 = 0
  · simp [h]
  · by_cases hu : u < pRight mid ax m (posOf o inc)
    · simp [h, hu, rightPoint, pt]
    · simp [h, hu, leftPoint, pt]

/-- an even increment is returned unchanged, whatever the uniform -/
theorem even_copied (mid : ℚ → ℚ → ℚ) (ax : List ℚ) (o : ℕ) (m : ℚ → ℚ → ℚ) (inc : ℤ) (u : ℚ) (he : inc % 2 = 0) :
    couple1d mid ax o m inc u = pt ax (posOf o inc) ∧
    ∀ n b, couple1dIdx n (posOf o inc) inc b = posOf o inc := by
  constructor
  · unfold couple1d; simp [he]
  · intro n b; unfold couple1dIdx; simp [he]

/-- an odd increment from the (even) origin `2 * o` of a refined grid lands on an interior odd index k and is moved to
    k + 1 or k - 1: both are even indices, i.e. states of the coarse grid, adjacent to the fine state -/
theorem odd_adjacent (mid : ℚ → ℚ → ℚ) (ax : List ℚ) (o : ℕ) (m : ℚ → ℚ → ℚ) (inc : ℤ) (u : ℚ) (ho : inc % 2 ≠ 0)
    (hpos : 0 ≤ (2 * o : ℤ) + inc) (hlt : posOf (2 * o) inc + 1 < ax.length) :
    let k := posOf (2 * o) inc
    k % 2 = 1 ∧
    (couple1d mid ax (2 * o) m inc u = pt ax (k + 1) ∨ couple1d mid ax (2 * o) m inc u = pt ax (k - 1)) ∧
    ∀ b, (couple1dIdx ax.length k inc b = k + 1 ∨ couple1dIdx ax.length k inc b = k - 1) ∧
      couple1dIdx ax.length k inc b % 2 = 0 := by
  intro k
  have hk : (k : ℤ) = 2 * o + inc := by
    show ((((2 * o : ℕ) : ℤ) + inc).toNat : ℤ) = _
    rw [Int.toNat_of_nonneg (by push_cast; exact hpos)]; push_cast; ring
  have hodd : k % 2 = 1 := by omega
  have hidx : ∀ b, (couple1dIdx ax.length k inc b = k + 1 ∨ couple1dIdx ax.length k inc b = k - 1) := by
    intro b; unfold couple1dIdx; rw [if_neg ho]
    cases b
    · right; simp
    · left; simp; omega
  refine ⟨hodd, ?_, fun b => ⟨hidx b, ?_⟩⟩
  · rw [couple1d_value]
    rcases hidx (decide (u < pRight mid ax m (posOf (2 * o) inc))) with h | h
    · left; rw [h]
    · right; rw [h]
  · rcases hidx b with h | h <;> rw [h] <;> omega

/-- the even-indexed states of the refined axis are the axis that was refined -/
theorem coarsen_refine (mid : ℚ → ℚ → ℚ) (ax : List ℚ) : coarsen (refine mid ax) = ax := by
  induction ax with
  | nil => rfl
  | cons x t ih =>
    cases t with
    | nil => rfl
    | cons y r => simp only [refine, coarsen]; rw [ih]

/-! ### telescoping, one axis -/

section one_axis
variable (mid : ℚ → ℚ → ℚ) (hm : Between mid) (hi : MidIdem mid) (axc : List ℚ) (o : ℕ) (hax : AxisOK axc o)
  (m : ℚ → ℚ → ℚ) (hM : IsMass m)
include hm hi hax hM

/-- the mass the odd fine state 2j-1 sends to its right neighbour 2j is the mass between the lower boundary of the
    coarse cell j and the lower boundary of the fine cell 2j (nothing for j = 0: both boundaries are the axis end) -/
theorem left_part (j : ℕ) (hj : j < axc.length) :
    (if 0 < j then sentRight mid (refine mid axc) (2 * o) m (2 * j - 1) else 0) =
      m (cellLo mid axc j) (cellLo mid (refine mid axc) (2 * j)) := by
  have hf := refine_axisOK mid hm axc o hax
  have hlen := refine_len mid axc
  by_cases h0 : 0 < j
  · rw [if_pos h0, sentRight_eq mid hm hi _ _ hf m hM (2 * j - 1) (by omega) (by omega)]
    unfold valRight
    rw [cells_tile mid _ (2 * j - 1) (by omega), show 2 * j - 1 + 1 = 2 * j by omega, coarse_cellLo mid axc j h0 hj]
  · have : j = 0 := by omega
    subst this
    rw [if_neg h0, (cells_ends mid hi axc (by omega)).1, (cells_ends mid hi _ (by omega)).1,
      show 0 = 2 * 0 from rfl, pt_refine_even]
    have hneg := strictInc_lt axc hax.inc 0 o hax.lo (by have := hax.hi; omega)
    rw [hax.zero] at hneg
    exact (mass_point_zero m hM _ (ne_of_lt hneg)).symm

theorem right_part (j : ℕ) (hj : j < axc.length) :
    (if 2 * j + 1 < (refine mid axc).length then sentLeft mid (refine mid axc) (2 * o) m (2 * j + 1) else 0) =
      m (cellHi mid (refine mid axc) (2 * j)) (cellHi mid axc j) := by
  have hf := refine_axisOK mid hm axc o hax
  have hlen := refine_len mid axc
  by_cases h1 : j + 1 < axc.length
  · rw [if_pos (by omega), sentLeft_eq mid hm hi _ _ hf m hM (2 * j + 1) (by omega) (by omega)]
    unfold valLeft
    rw [← cells_tile mid _ (2 * j) (by omega), coarse_cellHi mid axc j h1]
  · have hjl : j = axc.length - 1 := by omega
    have hl2 : 2 * j = (refine mid axc).length - 1 := by omega
    rw [if_neg (by omega), hl2, (cells_ends mid hi _ (by omega)).2, ← hl2, pt_refine_even, hjl,
      (cells_ends mid hi axc (by omega)).2]
    have hpos := strictInc_lt axc hax.inc o (axc.length - 1) (by have := hax.hi; omega) (by omega)
    rw [hax.zero] at hpos
    exact (mass_point_zero m hM _ (ne_of_gt hpos)).symm

/-- coarse boundary ≤ fine boundary ≤ fine boundary ≤ coarse boundary -/
theorem nested_cells (j : ℕ) (hj : j < axc.length) :
    cellLo mid axc j ≤ cellLo mid (refine mid axc) (2 * j) ∧
    cellLo mid (refine mid axc) (2 * j) ≤ cellHi mid (refine mid axc) (2 * j) ∧
    cellHi mid (refine mid axc) (2 * j) ≤ cellHi mid axc j := by
  have hf := refine_axisOK mid hm axc o hax
  have hlen := refine_len mid axc
  have hfi := hf.inc
  refine ⟨?_, ?_, ?_⟩
  · by_cases h0 : 0 < j
    · rw [coarse_cellLo mid axc j h0 hj, ← show 2 * j - 1 + 1 = 2 * j by omega,
        ← cells_tile mid _ (2 * j - 1) (by omega)]
      exact pt_le_cellHi mid hm hi _ hfi _ (by omega)
    · have : j = 0 := by omega
      subst this
      rw [(cells_ends mid hi axc (by omega)).1, (cells_ends mid hi _ (by omega)).1, show 0 = 2 * 0 from rfl,
        pt_refine_even]
  · exact le_trans (cellLo_le_pt mid hm hi _ hfi _ (by omega)) (pt_le_cellHi mid hm hi _ hfi _ (by omega))
  · by_cases h1 : j + 1 < axc.length
    · rw [coarse_cellHi mid axc j h1, cells_tile mid _ (2 * j) (by omega)]
      exact cellLo_le_pt mid hm hi _ hfi _ (by omega)
    · have hjl : j = axc.length - 1 := by omega
      have hl2 : 2 * j = (refine mid axc).length - 1 := by omega
      rw [hl2, (cells_ends mid hi _ (by omega)).2, ← hl2, pt_refine_even, hjl, (cells_ends mid hi axc (by omega)).2]

/-- **telescoping, 1-d**: for every coarse state j other than the origin, the fine rate of 2j, plus what the odd
    neighbour 2j-1 sends to the right, plus what 2j+1 sends to the left (a missing neighbour contributes nothing),
    is the rate of j in the chain built on the un-refined grid -/
theorem telescoping_1d (j : ℕ) (hj : j < axc.length) (hjo : j ≠ o) :
    coupledRate mid (refine mid axc) (2 * o) m (2 * j) = rate mid axc o m j ∧
    coupledRate mid (refine mid axc) (2 * o) m (2 * j) =
      rate mid (refine mid axc) (2 * o) m (2 * j) +
        (if 0 < j then sentRight mid (refine mid axc) (2 * o) m (2 * j - 1) else 0) +
        (if j + 1 < axc.length then sentLeft mid (refine mid axc) (2 * o) m (2 * j + 1) else 0) := by
  have hlen := refine_len mid axc
  have h3 := coupledRate_three mid (refine mid axc) (2 * o) m j (by omega)
  have hcond : (if 2 * j + 1 < (refine mid axc).length then sentLeft mid (refine mid axc) (2 * o) m (2 * j + 1) else 0) =
      (if j + 1 < axc.length then sentLeft mid (refine mid axc) (2 * o) m (2 * j + 1) else 0) := by
    by_cases h : j + 1 < axc.length
    · rw [if_pos h, if_pos (by omega)]
    · rw [if_neg h, if_neg (by omega)]
  refine ⟨?_, by rw [h3, hcond]⟩
  rw [h3, left_part mid hm hi axc o hax m hM j hj, right_part mid hm hi axc o hax m hM j hj]
  obtain ⟨n1, n2, n3⟩ := nested_cells mid hm hi axc o hax m hM j hj
  have haw := cell_away mid hm hi axc o hax j hj hjo
  unfold rate
  rw [if_neg hjo, if_neg (by omega : ¬ 2 * j = 2 * o)]
  rw [hM.add _ _ _ n1 (le_trans n2 n3) haw, hM.add _ _ _ n2 n3 (away_sub haw n1 (le_refl _))]
  ring

/-- the rate at which the coupled coarse component is sent to the origin (it then does not jump): the two half cells
    next to the fine origin cell -/
theorem mass_sent_to_origin :
    coupledRate mid (refine mid axc) (2 * o) m (2 * o) =
      sentRight mid (refine mid axc) (2 * o) m (2 * o - 1) + sentLeft mid (refine mid axc) (2 * o) m (2 * o + 1) ∧
    coupledRate mid (refine mid axc) (2 * o) m (2 * o) =
      m (hLeft mid axc o) (hLeft mid (refine mid axc) (2 * o)) +
        m (hRight mid (refine mid axc).length (refine mid axc) (2 * o)) (hRight mid axc.length axc o) := by
  have hlen := refine_len mid axc
  have hlo := hax.lo
  have hhi := hax.hi
  have hf := refine_axisOK mid hm axc o hax
  have h3 := coupledRate_three mid (refine mid axc) (2 * o) m o (by omega)
  have r0 : rate mid (refine mid axc) (2 * o) m (2 * o) = 0 := by unfold rate; simp
  constructor
  · rw [h3, r0, if_pos hlo, if_pos (by omega)]; ring
  · rw [h3, r0, left_part mid hm hi axc o hax m hM o (by omega), right_part mid hm hi axc o hax m hM o (by omega),
      (origin_cell mid axc o hax.zero).1, (origin_cell mid axc o hax.zero).2,
      (origin_cell mid _ (2 * o) hf.zero).1, (origin_cell mid _ (2 * o) hf.zero).2]
    ring

/-- **λ_c = λ_f − (mass sent to 0)**: the intensity of the chain on the un-refined grid is the intensity of the fine
    chain minus the rate of fine jumps that the coupling maps to "no coarse jump" -/
theorem intensity_coarse :
    intensity1d mid axc o m =
      intensity1d mid (refine mid axc) (2 * o) m - coupledRate mid (refine mid axc) (2 * o) m (2 * o) := by
  have hlen := refine_len mid axc
  have hlo := hax.lo
  have hhi := hax.hi
  have hf := refine_axisOK mid hm axc o hax
  rw [(mass_sent_to_origin mid hm hi axc o hax m hM).2]
  obtain ⟨n1, n2, n3⟩ := nested_cells mid hm hi axc o hax m hM o (by omega)
  rw [(origin_cell mid axc o hax.zero).1, (origin_cell mid _ (2 * o) hf.zero).1] at n1
  rw [(origin_cell mid axc o hax.zero).2, (origin_cell mid _ (2 * o) hf.zero).2] at n3
  have e0 : pt (refine mid axc) 0 = pt axc 0 := by rw [show 0 = 2 * 0 from rfl, pt_refine_even]
  have e1 : pt (refine mid axc) ((refine mid axc).length - 1) = pt axc (axc.length - 1) := by
    rw [show (refine mid axc).length - 1 = 2 * (axc.length - 1) by omega, pt_refine_even]
  -- the coarse origin cell's lower boundary is negative, its upper boundary positive
  have cL := cell_inside_truncation mid hm hi axc o hax o (by omega)
  rw [(origin_cell mid axc o hax.zero).1, (origin_cell mid axc o hax.zero).2] at cL
  have sic := state_in_cell mid hm hi axc hax.inc o (by omega)
  rw [(origin_cell mid axc o hax.zero).1, (origin_cell mid axc o hax.zero).2, hax.zero] at sic
  have sif := state_in_cell mid hm hi _ hf.inc (2 * o) (by omega)
  rw [(origin_cell mid _ (2 * o) hf.zero).1, (origin_cell mid _ (2 * o) hf.zero).2, hf.zero] at sif
  have hneg : hLeft mid (refine mid axc) (2 * o) < 0 := sif.2.2.1 (by omega)
  have hpos : 0 < hRight mid (refine mid axc).length (refine mid axc) (2 * o) := sif.2.2.2 (by omega)
  unfold intensity1d parts
  simp only [List.drop_succ_cons, List.drop_zero, List.map_cons, List.map_nil, List.sum_cons, List.sum_nil]
  rw [e0, e1, hM.add (pt axc 0) (hLeft mid axc o) (hLeft mid (refine mid axc) (2 * o)) cL.1 n1 (Or.inl hneg),
    hM.add (hRight mid (refine mid axc).length (refine mid axc) (2 * o)) (hRight mid axc.length axc o)
      (pt axc (axc.length - 1)) n3 cL.2 (Or.inr hpos)]
  ring

/-- zero-mass cells, explicitly: an odd fine state of rate 0 has two half cells of mass 0, and contributes 0 to both
    neighbours whatever number the implementation's `0/0` stands for -/
theorem zero_rate_contributes_nothing (k : ℕ) (hk : k < (refine mid axc).length) (hodd : k % 2 = 1)
    (h0 : rate mid (refine mid axc) (2 * o) m k = 0) :
    valLeft mid (refine mid axc) m k = 0 ∧ valRight mid (refine mid axc) m k = 0 ∧
    sentRight mid (refine mid axc) (2 * o) m k = 0 ∧ sentLeft mid (refine mid axc) (2 * o) m k = 0 ∧
    ∀ p : ℚ, rate mid (refine mid axc) (2 * o) m k * p = 0 := by
  have hf := refine_axisOK mid hm axc o hax
  obtain ⟨e, hL, hR⟩ := rate_split mid hm hi _ _ hf m hM k hk (by omega)
  refine ⟨by linarith, by linarith, by unfold sentRight; rw [if_pos h0], by unfold sentLeft; rw [if_pos h0], ?_⟩
  intro p; rw [h0]; ring

/-- non-zero cells: the flows are literally rate x probability with the probability the code computes -/
theorem nonzero_rate_flows (k : ℕ) (h0 : rate mid (refine mid axc) (2 * o) m k ≠ 0) :
    sentRight mid (refine mid axc) (2 * o) m k =
      rate mid (refine mid axc) (2 * o) m k * pRight mid (refine mid axc) m k ∧
    sentLeft mid (refine mid axc) (2 * o) m k =
      rate mid (refine mid axc) (2 * o) m k * (1 - pRight mid (refine mid axc) m k) := by
  unfold sentRight sentLeft; rw [if_neg h0, if_neg h0]; exact ⟨rfl, rfl⟩

/-- `probability_to_right_jump` is a probability on every odd fine state of non-zero rate -/
theorem pRight_mem_unit (k : ℕ) (hk : k < (refine mid axc).length) (hodd : k % 2 = 1)
    (h0 : rate mid (refine mid axc) (2 * o) m k ≠ 0) :
    0 ≤ pRight mid (refine mid axc) m k ∧ pRight mid (refine mid axc) m k ≤ 1 := by
  have hf := refine_axisOK mid hm axc o hax
  obtain ⟨e, hL, hR⟩ := rate_split mid hm hi _ _ hf m hM k hk (by omega)
  have hpos : 0 < valLeft mid (refine mid axc) m k + valRight mid (refine mid axc) m k := by
    rcases lt_or_eq_of_le (add_nonneg hL hR) with h | h
    · exact h
    · exact absurd (by rw [e]; exact h.symm) h0
  unfold pRight
  exact ⟨div_nonneg hR (le_of_lt hpos), by rw [div_le_iff₀ hpos]; linarith⟩

/-- the chain truncates the measure to `[axis[0], axis[-1]]`; refinement keeps both ends, so the coarse and the fine
    chain work with the same truncated measure, and all of the above applies to it -/
theorem chainMass_refine : chainMass (refine mid axc) m = chainMass axc m := by
  have hlen := refine_len mid axc
  have hhi := hax.hi
  unfold chainMass
  rw [show 0 = 2 * 0 from rfl, pt_refine_even, show (refine mid axc).length - 1 = 2 * (axc.length - 1) by omega,
    pt_refine_even]

theorem telescoping_1d_chain (j : ℕ) (hj : j < axc.length) (hjo : j ≠ o) :
    coupledRate mid (refine mid axc) (2 * o) (chainMass (refine mid axc) m) (2 * j) =
      rate mid axc o (chainMass axc m) j := by
  rw [chainMass_refine mid hm hi axc o hax m hM]
  exact (telescoping_1d mid hm hi axc o hax _ (chainMass_isMass mid hm hi axc o hax m hM) j hj hjo).1

end one_axis

/-- all levels: after any number k of refinements of a well-formed axis the next refinement telescopes -/
theorem telescoping_1d_all_levels (mid : ℚ → ℚ → ℚ) (hm : Between mid) (hi : MidIdem mid) (ax : List ℚ) (o : ℕ)
    (hax : AxisOK ax o) (m : ℚ → ℚ → ℚ) (hM : IsMass m) (k : ℕ) (j : ℕ) (hj : j < (refineN mid k ax).length)
    (hjo : j ≠ 2 ^ k * o) :
    coupledRate mid (refineN mid (k + 1) ax) (2 ^ (k + 1) * o) m (2 * j) = rate mid (refineN mid k ax) (2 ^ k * o) m j := by
  have hk := refineN_axisOK mid hm k ax o hax
  have e : refineN mid (k + 1) ax = refine mid (refineN mid k ax) := by
    clear hj hjo hk hax
    induction k generalizing ax with
    | zero => rfl
    | succ k ih => rw [refineN, ih (refine mid ax)]; rfl
  rw [e, show 2 ^ (k + 1) * o = 2 * (2 ^ k * o) by rw [pow_succ]; ring]
  exact (telescoping_1d mid hm hi _ _ hk m hM j hj hjo).1

/-! ### levels -/

theorem gridRefineN_succ (mid : ℚ → ℚ → ℚ) (k : ℕ) (g : Grid) :
    Grid.Grid.refineN mid (k + 1) g = (Grid.Grid.refineN mid k g).refine mid := by
  induction k generalizing g with
  | zero => rfl
  | succ k ih => rw [Grid.Grid.refineN, ih (g.refine mid)]; rfl

theorem levelAt_grid {D : Type} (zero : D) (mid : ℚ → ℚ → ℚ) (chain : Grid → ChainParams D) (g : Grid) (l : ℕ) :
    (levelAt zero mid chain g l).grid = Grid.Grid.refineN mid l g ∧ (levelAt zero mid chain g l).level = l ∧
    (levelAt zero mid chain g l).fine = chain (Grid.Grid.refineN mid l g) ∧
    (levelAt zero mid chain g l).diffFine = (chain (Grid.Grid.refineN mid l g)).diff := by
  induction l with
  | zero => exact ⟨rfl, rfl, rfl, rfl⟩
  | succ l ih =>
    obtain ⟨h1, h2, h3, h4⟩ := ih
    have e : (levelAt zero mid chain g (l + 1)).grid = Grid.Grid.refineN mid (l + 1) g := by
      show ((levelAt zero mid chain g l).grid).refine mid = _
      rw [h1, gridRefineN_succ]
    refine ⟨e, ?_, ?_, ?_⟩
    · show (levelAt zero mid chain g l).level + 1 = l + 1
      rw [h2]
    · show chain (((levelAt zero mid chain g l).grid).refine mid) = _
      rw [h1, gridRefineN_succ]
    · show (chain (((levelAt zero mid chain g l).grid).refine mid)).diff = _
      rw [h1, gridRefineN_succ]

/-- **levels**: after l + 1 calls of `next_level` the fine process lives on the (l+1)-times refined grid, the coarse
    diffusion coefficient is the fine one of level l, and the frozen coarse deterministic path is the deterministic
    path of the level-l chain (its spot and its drift) -/
theorem levels_induct {D : Type} (zero : D) (mid : ℚ → ℚ → ℚ) (chain : Grid → ChainParams D) (g : Grid) (l : ℕ) :
    let L := levelAt zero mid chain g (l + 1)
    let prev := chain (Grid.Grid.refineN mid l g)
    L.grid = Grid.Grid.refineN mid (l + 1) g ∧
    L.diffFine = (chain (Grid.Grid.refineN mid (l + 1) g)).diff ∧
    L.diffCoarse = prev.diff ∧
    L.diffCoarse = (levelAt zero mid chain g l).diffFine ∧
    L.frozen = some (prev.x0, prev.drift) ∧
    (∀ t, coarsePath L t = some (prev.detPath t)) := by
  intro L prev
  obtain ⟨h1, h2, h3, h4⟩ := levelAt_grid zero mid chain g l
  obtain ⟨k1, k2, k3, k4⟩ := levelAt_grid zero mid chain g (l + 1)
  have hc : L.diffCoarse = (levelAt zero mid chain g l).diffFine := rfl
  have hfz : L.frozen = some (prev.x0, prev.drift) := by
    show some ((levelAt zero mid chain g l).fine.detPath 0,
      (levelAt zero mid chain g l).fine.detPath 1 - (levelAt zero mid chain g l).fine.detPath 0) = _
    rw [h3]; unfold ChainParams.detPath; congr 2 <;> ring
  refine ⟨k1, k4, by rw [hc, h4], hc, hfz, ?_⟩
  intro t
  unfold coarsePath; rw [hfz]; rfl

/-- the same Brownian increments feed both components: the coarse diffusion path of the coupling at level l + 1 is,
    increment list by increment list, the diffusion path the stand-alone level-l chain builds from the same `w` -/
theorem same_brownian_increments (mid : ℚ → ℚ → ℚ) (chain : Grid → ChainParams ℚ) (g : Grid) (l : ℕ)
    (sqrtDts w : List ℚ) :
    (diffPaths (levelAt 0 mid chain g (l + 1)) sqrtDts w).2 =
      diffPath (chain (Grid.Grid.refineN mid l g)).diff sqrtDts w ∧
    (diffPaths (levelAt 0 mid chain g (l + 1)) sqrtDts w).2 = (diffPaths (levelAt 0 mid chain g l) sqrtDts w).1 ∧
    (diffPaths (levelAt 0 mid chain g (l + 1)) sqrtDts w).1 =
      diffPath (chain (Grid.Grid.refineN mid (l + 1) g)).diff sqrtDts w := by
  obtain ⟨_, _, h3, _, _, _⟩ := levels_induct (0 : ℚ) mid chain g l
  obtain ⟨_, h2, _⟩ := levels_induct (0 : ℚ) mid chain g l
  refine ⟨?_, ?_, ?_⟩
  · show diffPath (levelAt 0 mid chain g (l + 1)).diffCoarse sqrtDts w = _
    rw [h3]
  · rfl
  · show diffPath (levelAt 0 mid chain g (l + 1)).diffFine sqrtDts w = _
    rw [h2]

/-- the refined grid of every level is well formed (C13) -/
theorem levels_wellFormed {D : Type} (zero : D) (mid : ℚ → ℚ → ℚ) (hm : Between mid) (ho : MidAtOrigin mid)
    (chain : Grid → ChainParams D) (g : Grid) (hg : WellFormed g) (l : ℕ) :
    WellFormed (levelAt zero mid chain g l).grid := by
  rw [(levelAt_grid zero mid chain g l).1]
  exact Grid.Grid.refineN_wellFormed mid hm ho l g hg

/-! ### the SDE coupling (`CouplingSDE`): the record kept by `next_level` -/

/-- invariant of `CouplingSDE` after l calls of `next_level` -/
theorem sdeLevelAt_inv (mid : ℚ → ℚ → ℚ) (chain : Grid → ChainParams ℚ) (g : Grid) (l : ℕ) :
    let S := sdeLevelAt mid chain g l
    S.level = l ∧ S.drv.level = l ∧ S.drv.grid = Grid.Grid.refineN mid l g ∧
    S.drv.fine = chain (Grid.Grid.refineN mid l g) ∧ S.drv.diffFine = (chain (Grid.Grid.refineN mid l g)).diff ∧
    S.mcDriftH = (chain (Grid.Grid.refineN mid l g)).drift ∧ S.epsH = (Grid.Grid.refineN mid l g).h := by
  induction l with
  | zero => exact ⟨rfl, rfl, rfl, rfl, rfl, rfl, rfl⟩
  | succ l ih =>
    obtain ⟨h1, h2, h3, h4, h5, h6, h7⟩ := ih
    have eg : (sdeLevelAt mid chain g (l + 1)).drv.grid = Grid.Grid.refineN mid (l + 1) g := by
      show ((sdeLevelAt mid chain g l).drv.grid).refine mid = _
      rw [h3, gridRefineN_succ]
    refine ⟨?_, ?_, eg, ?_, ?_, ?_, ?_⟩
    · show (sdeLevelAt mid chain g l).level + 1 = l + 1
      rw [h1]
    · show (sdeLevelAt mid chain g l).drv.level + 1 = l + 1
      rw [h2]
    · show chain (((sdeLevelAt mid chain g l).drv.grid).refine mid) = _
      rw [h3, gridRefineN_succ]
    · show (chain (((sdeLevelAt mid chain g l).drv.grid).refine mid)).diff = _
      rw [h3, gridRefineN_succ]
    · show (chain (((sdeLevelAt mid chain g l).drv.grid).refine mid)).drift = _
      rw [h3, gridRefineN_succ]
    · show (sdeLevelAt mid chain g l).drv.grid.h / 2 = _
      rw [h3, gridRefineN_succ]; rfl

/-- **levels of the SDE coupling**: after l + 1 calls of `CouplingSDE.next_level` the fine component is driven by the
    level-(l+1) driver chain (its CTMC drift, its diffusion coefficient), the coarse component by exactly the quantities of
    the level-l driver chain - those the fine component used one level earlier -, both read the same Brownian increments
    through the driver coupling, and the maximum time step is the Blumenthal-Getoor power of the current spatial step -/
theorem sde_levels_induct (mid : ℚ → ℚ → ℚ) (chain : Grid → ChainParams ℚ) (g : Grid) (l : ℕ) :
    let S := sdeLevelAt mid chain g (l + 1)
    let prev := chain (Grid.Grid.refineN mid l g)
    let cur := chain (Grid.Grid.refineN mid (l + 1) g)
    S.level = l + 1 ∧ S.drv.grid = Grid.Grid.refineN mid (l + 1) g ∧
    S.mcDriftH = cur.drift ∧ S.drv.diffFine = cur.diff ∧
    S.mcDrift2H = some prev.drift ∧ S.drv.diffCoarse = prev.diff ∧
    sdeUses S 0 = some (cur.drift, cur.diff) ∧
    sdeUses S 1 = some (prev.drift, prev.diff) ∧
    sdeUses S 1 = sdeUses (sdeLevelAt mid chain g l) 0 ∧
    S.epsH = (Grid.Grid.refineN mid (l + 1) g).h ∧ S.epsH = (sdeLevelAt mid chain g l).epsH / 2 := by
  intro S prev cur
  obtain ⟨a1, a2, a3, a4, a5, a6, a7⟩ := sdeLevelAt_inv mid chain g l
  obtain ⟨b1, b2, b3, b4, b5, b6, b7⟩ := sdeLevelAt_inv mid chain g (l + 1)
  have c2 : S.mcDrift2H = some prev.drift := by
    show some (sdeLevelAt mid chain g l).mcDriftH = _
    rw [a6]
  have dc : S.drv.diffCoarse = prev.diff := by
    show (sdeLevelAt mid chain g l).drv.diffFine = _
    rw [a5]
  have u0 : sdeUses S 0 = some (cur.drift, cur.diff) := by
    unfold sdeUses; rw [if_pos rfl, b6, b5]
  have u1 : sdeUses S 1 = some (prev.drift, prev.diff) := by
    unfold sdeUses; rw [if_neg (by decide), c2, dc]; rfl
  refine ⟨b1, b3, b6, b5, c2, dc, u0, u1, ?_, b7, ?_⟩
  · rw [u1]; unfold sdeUses; rw [if_pos rfl, a6, a5]
  · show (sdeLevelAt mid chain g l).drv.grid.h / 2 = _
    rw [a3, a7]

/-- the coarse diffusion path of the SDE's driver at level l + 1 is the fine one of level l for the same `w` -/
theorem sde_same_brownian_increments (mid : ℚ → ℚ → ℚ) (chain : Grid → ChainParams ℚ) (g : Grid) (l : ℕ)
    (sqrtDts w : List ℚ) :
    (diffPaths (sdeLevelAt mid chain g (l + 1)).drv sqrtDts w).2 = (diffPaths (sdeLevelAt mid chain g l).drv sqrtDts w).1 :=
  rfl

/-- the negation of a "frozen level-0 coarse drift": with a chain whose drift changes with the level, the coarse drift of
    level 2 is the level-1 drift, not the level-0 one -/
example : (sdeLevelAt amid (fun g => ⟨g.h, g.h * 3, 0⟩) ⟨[[-1, 0, 1]], 1, 1⟩ 2).mcDrift2H = some (3 / 2) ∧
    (sdeLevelAt amid (fun g => ⟨g.h, g.h * 3, 0⟩) ⟨[[-1, 0, 1]], 1, 1⟩ 0).mcDriftH = 3 ∧
    sdeUses (sdeLevelAt amid (fun g => ⟨g.h, g.h * 3, 0⟩) ⟨[[-1, 0, 1]], 1, 1⟩ 2) 1 = some (3 / 2, 1 / 2) ∧
    sdeUses (sdeLevelAt amid (fun g => ⟨g.h, g.h * 3, 0⟩) ⟨[[-1, 0, 1]], 1, 1⟩ 2) 0 = some (3 / 4, 1 / 4) := by
  decide +kernel

/-! ### n-d, written out for d = 2 on a grid whose two axes are equal (every grid constructor builds such grids) -/

/-- an odd coordinate of the increment points at an interior position other than the origin (automatic on a refined
    grid: the origin index and the last index are even) -/
def OddInterior (ax : List ℚ) (o : ℕ) (i : ℤ) : Prop :=
  i % 2 ≠ 0 → 0 < posOf o i ∧ posOf o i + 1 < ax.length ∧ posOf o i ≠ o

theorem pt_ne_zero (ax : List ℚ) (o : ℕ) (hax : AxisOK ax o) (c : ℕ) (hc : c < ax.length) (hco : c ≠ o) : pt ax c ≠ 0 := by
  have hon : o < ax.length := by have := hax.hi; omega
  rcases Nat.lt_or_gt_of_ne hco with h | h
  · have := strictInc_lt ax hax.inc c o h hon
    rw [hax.zero] at this; exact ne_of_lt this
  · have := strictInc_lt ax hax.inc o c h hc
    rw [hax.zero] at this; exact ne_of_gt this

section two_d
variable (ax : List ℚ) (o : ℕ) (hax : AxisOK ax o) (m : MarginMass)
  (h0 : IsMass (fun a b => m [0] [(a, b)])) (h1 : IsMass (fun a b => m [1] [(a, b)]))
  (h01 : IsBoxMass2 (fun a b c d => m [0, 1] [(a, b), (c, d)]))
include hax h0 h1 h01

/-- one odd coordinate: the two half-cell masses of the margin add up to the margin mass of the cell -/
theorem corner_sum_one_axis (μ : ℚ → ℚ → ℚ) (hμ : IsMass μ) (c : ℕ) (hc0 : 0 < c) (hc1 : c + 1 < ax.length) (hco : c ≠ o)
    (hT : μ (cellLo amid ax c) (cellHi amid ax c) ≠ 0) :
    μ (cellLo amid ax c) (pt ax c) / μ (cellLo amid ax c) (cellHi amid ax c) +
      μ (pt ax c) (cellHi amid ax c) / μ (cellLo amid ax c) (cellHi amid ax c) = 1 := by
  have l1 := cellLo_le_pt amid amid_between amid_idem ax hax.inc c (by omega)
  have l2 : pt ax c ≤ cellHi amid ax c := pt_le_cellHi amid amid_between amid_idem ax hax.inc c (by omega)
  have haw := cell_away amid amid_between amid_idem ax o hax c (by omega) hco
  rw [← add_div, ← hμ.add _ _ _ l1 l2 haw, div_self hT]

/-- **the corner probabilities of `__coupling_state` sum to 1** for every family of margin masses (so the
    `raise ValueError("… Numerical error? …")` after the loop is unreachable in exact arithmetic for u ≤ 1) -/
theorem corner_probs_sum_one (i1 i2 : ℤ) (hodd : i1 % 2 ≠ 0 ∨ i2 % 2 ≠ 0)
    (hi1 : OddInterior ax o i1) (hi2 : OddInterior ax o i2)
    (hT : m (oddAxes [i1, i2]) (totalBox [ax, ax] (oddAxes [i1, i2]) (posNd o [i1, i2])) ≠ 0) :
    (cornerProbs [ax, ax] o m [i1, i2]).sum = 1 := by
  by_cases p1 : i1 % 2 = 0 <;> by_cases p2 : i2 % 2 = 0
  · tauto
  · obtain ⟨a0, a1, ao⟩ := hi2 p2
    have hS : oddAxes [i1, i2] = [1] := by rw [oddAxes_two]; simp [p1, p2]
    obtain ⟨c1, c2, c3⟩ := half_cells ax hax.inc _ a0 a1
    rw [hS, totalBox_01, c3] at hT
    rw [cornerProbs_01 ax o m i1 i2 p1 p2, c1, c2, c3]
    simp only [List.sum_cons, List.sum_nil, add_zero]
    exact corner_sum_one_axis ax o hax m h0 h1 h01 _ h1 _ a0 a1 ao hT
  · obtain ⟨a0, a1, ao⟩ := hi1 p1
    have hS : oddAxes [i1, i2] = [0] := by rw [oddAxes_two]; simp [p1, p2]
    obtain ⟨c1, c2, c3⟩ := half_cells ax hax.inc _ a0 a1
    rw [hS, totalBox_10, c3] at hT
    rw [cornerProbs_10 ax o m i1 i2 p1 p2, c1, c2, c3]
    simp only [List.sum_cons, List.sum_nil, add_zero]
    exact corner_sum_one_axis ax o hax m h0 h1 h01 _ h0 _ a0 a1 ao hT
  · obtain ⟨a0, a1, ao⟩ := hi1 p1
    obtain ⟨b0, b1, bo⟩ := hi2 p2
    have hS : oddAxes [i1, i2] = [0, 1] := by rw [oddAxes_two]; simp [p1, p2]
    obtain ⟨c1, c2, c3⟩ := half_cells ax hax.inc _ a0 a1
    obtain ⟨d1, d2, d3⟩ := half_cells ax hax.inc _ b0 b1
    rw [hS, totalBox_11, c3, d3] at hT
    rw [cornerProbs_11 ax o m i1 i2 p1 p2]
    simp only [c1, c2, c3, d1, d2, d3, List.sum_cons, List.sum_nil, add_zero]
    set c := posOf o i1
    set d := posOf o i2
    have lc1 := cellLo_le_pt amid amid_between amid_idem ax hax.inc c (by omega)
    have lc2 : pt ax c ≤ cellHi amid ax c := pt_le_cellHi amid amid_between amid_idem ax hax.inc c (by omega)
    have ld1 := cellLo_le_pt amid amid_between amid_idem ax hax.inc d (by omega)
    have ld2 : pt ax d ≤ cellHi amid ax d := pt_le_cellHi amid amid_between amid_idem ax hax.inc d (by omega)
    have awc := cell_away amid amid_between amid_idem ax o hax c (by omega) ao
    have awd := cell_away amid amid_between amid_idem ax o hax d (by omega) bo
    have vc := pt_ne_zero ax o hax c (by omega) ao
    have vd := pt_ne_zero ax o hax d (by omega) bo
    have A1 := h01.add1 _ _ _ _ _ lc1 lc2 (le_trans ld1 ld2) vc (Or.inl awc)
    have A2 := h01.add2 (cellLo amid ax c) (pt ax c) _ _ _ lc1 ld1 ld2 vd (Or.inr awd)
    have A3 := h01.add2 (pt ax c) (cellHi amid ax c) _ _ _ lc2 ld1 ld2 vd (Or.inr awd)
    rw [← add_div, ← add_div, ← add_div]
    rw [A1, A2, A3] at hT ⊢
    rw [div_eq_iff (by intro h; exact hT (by linarith))]; ring

/-- hence `__coupling_state` returns a state for every uniform u ≤ 1 -/
theorem coupleNd_never_raises (i1 i2 : ℤ) (hi1 : OddInterior ax o i1) (hi2 : OddInterior ax o i2)
    (hT : m (oddAxes [i1, i2]) (totalBox [ax, ax] (oddAxes [i1, i2]) (posNd o [i1, i2])) ≠ 0) (u : ℚ) (hu : u ≤ 1) :
    (coupleNd [ax, ax] o m [i1, i2] u).isSome := by
  unfold coupleNd
  by_cases hE : (oddAxes [i1, i2]).isEmpty
  · simp [hE]
  · have hodd : i1 % 2 ≠ 0 ∨ i2 % 2 ≠ 0 := by
      by_contra hc
      have hc' := not_or.mp hc
      apply hE; rw [oddAxes_two]; simp [not_not.mp hc'.1, not_not.mp hc'.2]
    have hs := corner_probs_sum_one ax o hax m h0 h1 h01 i1 i2 hodd hi1 hi2 hT
    simp only [hE, Bool.false_eq_true, if_false]
    have hsum : (((signs (oddAxes [i1, i2]).length).map (fun p =>
        (cornerProb [ax, ax] m (oddAxes [i1, i2]) (posNd o [i1, i2]) p,
          cornerRes [ax, ax] (oddAxes [i1, i2]) (posNd o [i1, i2]) p))).map Prod.fst).sum = 1 := by
      rw [List.map_map]; exact hs
    apply pickCorner_some
    · rw [hsum]; linarith
    · intro hnil; rw [hnil] at hsum; simp at hsum

end two_d

/-! ### independent components: the margin-based corner probabilities are exact -/

section independent
variable (axc : List ℚ) (o : ℕ) (hax : AxisOK axc o) (m : MarginMass) (m1 m2 : ℚ → ℚ → ℚ)
  (hM1 : IsMass m1) (hM2 : IsMass m2) (hC : CarriedByAxes m m1 m2)
include hax hM1 hM2 hC

theorem refine_len_odd : (refine amid axc).length % 2 = 1 := by
  rw [refine_len]; have := hax.hi; omega

/-- **telescoping, n-d, mass carried by the axes**: the coupled coarse rate of every coarse state on the first axis is
    its rate in the chain built on the un-refined grid -/
theorem telescoping_nd_independent (I : ℕ) (hI : I < axc.length) (hIo : I ≠ o) :
    coupledRate2 [refine amid axc, refine amid axc] (2 * o) m [2 * I, 2 * o] =
      rateNd amid [axc, axc] o (joint 2 m) [I, o] := by
  have hf := refine_axisOK amid amid_between axc o hax
  have hlo := refine_len_odd axc o hax m m1 m2 hM1 hM2 hC
  have hlen := refine_len amid axc
  rw [rate_on_axis1 axc o hax m m1 m2 hC I hI,
    ← (telescoping_1d amid amid_between amid_idem axc o hax m1 hM1 I hI hIo).1]
  unfold coupledRate2 coupledRate
  simp only [List.getD_cons_zero, List.getD_cons_succ]
  rw [sum_map_range, sum_map_range]
  apply sum_congr rfl
  intro i hi'
  have hi'' := mem_range.mp hi'
  rw [sum_map_range, ← flow_on_axis1 _ o hf hlo m m1 m2 hM1 hM2 hC i (2 * I) hi'']
  rw [sum_eq_single (2 * o)]
  · intro j hj hjo
    have hj' := mem_range.mp hj
    by_cases hio : i = 2 * o
    · rw [hio]; exact flow_axis2_to_axis1 _ o hf hlo m m1 m2 hM1 hM2 hC j (2 * I) (by omega)
    · unfold flowNd
      simp only [List.length_cons, List.length_nil, Nat.zero_add, Nat.reduceAdd]
      rw [rate_off_axes _ (2 * o) hf m m1 m2 hC i j hi'' hj' hio hjo]; simp
  · intro h; exfalso; apply h; rw [mem_range]; have := hax.hi; omega

/-- the same on the second axis -/
theorem telescoping_nd_independent_axis2 (J : ℕ) (hJ : J < axc.length) (hJo : J ≠ o) :
    coupledRate2 [refine amid axc, refine amid axc] (2 * o) m [2 * o, 2 * J] =
      rateNd amid [axc, axc] o (joint 2 m) [o, J] := by
  have hf := refine_axisOK amid amid_between axc o hax
  have hlo := refine_len_odd axc o hax m m1 m2 hM1 hM2 hC
  have hlen := refine_len amid axc
  have hon : 2 * o < (refine amid axc).length := by have := hax.hi; omega
  rw [rate_on_axis2 axc o hax m m1 m2 hC J hJ,
    ← (telescoping_1d amid amid_between amid_idem axc o hax m2 hM2 J hJ hJo).1]
  unfold coupledRate2 coupledRate
  simp only [List.getD_cons_zero, List.getD_cons_succ]
  rw [sum_map_range, sum_map_range]
  rw [sum_eq_single (2 * o)]
  · rw [sum_map_range]
    apply sum_congr rfl
    intro j hj
    exact flow_on_axis2 _ o hf hlo m m1 m2 hM1 hM2 hC j (2 * J) (mem_range.mp hj)
  · intro i hi' hio
    have hi'' := mem_range.mp hi'
    rw [sum_map_range]
    apply sum_eq_zero
    intro j hj
    have hj' := mem_range.mp hj
    by_cases hjo : j = 2 * o
    · rw [hjo]; exact flow_axis1_to_axis2 _ o hf hlo m m1 m2 hM1 hM2 hC i (2 * J) (by omega)
    · unfold flowNd
      simp only [List.length_cons, List.length_nil, Nat.zero_add, Nat.reduceAdd]
      rw [rate_off_axes _ (2 * o) hf m m1 m2 hC i j hi'' hj' hio hjo]; simp
  · intro h; exfalso; exact h (mem_range.mpr hon)

/-- … and off the axes: coarse states off both axes have rate 0 in the coarse chain and receive nothing -/
theorem telescoping_nd_independent_off (I J : ℕ) (hI : I < axc.length) (hJ : J < axc.length) (hIo : I ≠ o) (hJo : J ≠ o) :
    coupledRate2 [refine amid axc, refine amid axc] (2 * o) m [2 * I, 2 * J] = 0 ∧
    rateNd amid [axc, axc] o (joint 2 m) [I, J] = 0 := by
  have hf := refine_axisOK amid amid_between axc o hax
  have hlo := refine_len_odd axc o hax m m1 m2 hM1 hM2 hC
  refine ⟨?_, rate_off_axes axc o hax m m1 m2 hC I J hI hJ hIo hJo⟩
  unfold coupledRate2
  simp only [List.getD_cons_zero, List.getD_cons_succ]
  rw [sum_map_range]
  apply sum_eq_zero
  intro i hi'
  rw [sum_map_range]
  apply sum_eq_zero
  intro j hj
  have hi'' := mem_range.mp hi'
  have hj' := mem_range.mp hj
  by_cases hax' : i = 2 * o ∨ j = 2 * o
  · exact flow_axis_to_off _ o hf hlo m m1 m2 hM1 hM2 hC i j (2 * I) (2 * J) hax' (by omega) (by omega) (by omega) (by omega)
  · have hax'' := not_or.mp hax'
    unfold flowNd
    simp only [List.length_cons, List.length_nil, Nat.zero_add, Nat.reduceAdd]
    rw [rate_off_axes _ (2 * o) hf m m1 m2 hC i j hi'' hj' hax''.1 hax''.2]; simp

end independent

/-! ### the sum over `states` the driver evaluates (`coupledRateNd`) is the double / triple sum of the theorems -/

theorem coupledRateNd_two (a b : List ℚ) (o : ℕ) (m : MarginMass) (ys : List ℕ) :
    coupledRateNd [a, b] o m ys = coupledRate2 [a, b] o m ys := by
  unfold coupledRateNd coupledRate2 states
  simp only [List.map_cons, List.map_nil, List.getD_cons_zero, List.getD_cons_succ]
  rw [cartesian_two, sum_map_flatMap]
  simp only [List.map_map, Function.comp_def]

theorem coupledRateNd_three (a b c : List ℚ) (o : ℕ) (m : MarginMass) (ys : List ℕ) :
    coupledRateNd [a, b, c] o m ys = coupledRate3 [a, b, c] o m ys := by
  unfold coupledRateNd coupledRate3 states
  simp only [List.map_cons, List.map_nil, List.getD_cons_zero, List.getD_cons_succ]
  rw [cartesian_three, sum_map_flatMap]
  simp only [sum_map_flatMap, List.map_map, Function.comp_def]

/-! ### n-d, written out for d = 3 on a grid whose three axes are equal: all seven parities of the increment -/

theorem oddInterior_split (ax : List ℚ) (o : ℕ) (hax : AxisOK ax o) (i : ℤ) (hi : OddInterior ax o i) (hp : i % 2 ≠ 0) :
    CellSplit ax (posOf o i) ∧ halfLo ax (posOf o i) = (cellLo amid ax (posOf o i), pt ax (posOf o i)) ∧
      halfHi ax (posOf o i) = (pt ax (posOf o i), cellHi amid ax (posOf o i)) ∧
      wholeCell ax (posOf o i) = (cellLo amid ax (posOf o i), cellHi amid ax (posOf o i)) := by
  obtain ⟨a0, a1, ao⟩ := hi hp
  exact ⟨cellSplit_of ax o hax _ (by omega) ao, half_cells ax hax.inc _ a0 a1⟩

section three_d
variable (ax : List ℚ) (o : ℕ) (hax : AxisOK ax o) (m : MarginMass)
  (h0 : IsMass (fun a b => m [0] [(a, b)])) (h1 : IsMass (fun a b => m [1] [(a, b)]))
  (h2 : IsMass (fun a b => m [2] [(a, b)]))
  (h01 : IsBoxMass2 (fun a b c d => m [0, 1] [(a, b), (c, d)]))
  (h02 : IsBoxMass2 (fun a b c d => m [0, 2] [(a, b), (c, d)]))
  (h12 : IsBoxMass2 (fun a b c d => m [1, 2] [(a, b), (c, d)]))
  (h012 : IsBoxMass3 (fun a b c d e f => m [0, 1, 2] [(a, b), (c, d), (e, f)]))
include hax h0 h1 h2 h01 h02 h12 h012

/-- **d = 3: the 2 / 4 / 8 corner probabilities of `__coupling_state` sum to 1** whichever coordinates of the increment are
    odd (one, two or three of them), for every family of margin masses: the margins of one coordinate are interval masses,
    those of two coordinates rectangle masses, the joint one a box mass -/
theorem corner_probs_sum_one_3d (i1 i2 i3 : ℤ) (hodd : i1 % 2 ≠ 0 ∨ i2 % 2 ≠ 0 ∨ i3 % 2 ≠ 0)
    (hi1 : OddInterior ax o i1) (hi2 : OddInterior ax o i2) (hi3 : OddInterior ax o i3)
    (hT : m (oddAxes [i1, i2, i3]) (totalBox [ax, ax, ax] (oddAxes [i1, i2, i3]) (posNd o [i1, i2, i3])) ≠ 0) :
    (cornerProbs [ax, ax, ax] o m [i1, i2, i3]).sum = 1 := by
  by_cases p1 : i1 % 2 = 0 <;> by_cases p2 : i2 % 2 = 0 <;> by_cases p3 : i3 % 2 = 0
  · tauto
  · obtain ⟨sc, c1, c2, c3⟩ := oddInterior_split ax o hax i3 hi3 p3
    have hS : oddAxes [i1, i2, i3] = [2] := by rw [oddAxes_three]; simp [p1, p2, p3]
    rw [hS, totalBox3_1 ax o i1 i2 i3 2 (by omega)] at hT
    simp only [List.getD_cons_succ, List.getD_cons_zero, c3] at hT
    rw [cornerProbs3_001 ax o m i1 i2 i3 p1 p2 p3, c1, c2, c3]
    simp only [List.sum_cons, List.sum_nil, add_zero]
    exact div_sum2 _ _ _ (halves_sum _ h2 ax _ sc) hT
  · obtain ⟨sc, c1, c2, c3⟩ := oddInterior_split ax o hax i2 hi2 p2
    have hS : oddAxes [i1, i2, i3] = [1] := by rw [oddAxes_three]; simp [p1, p2, p3]
    rw [hS, totalBox3_1 ax o i1 i2 i3 1 (by omega)] at hT
    simp only [List.getD_cons_succ, List.getD_cons_zero, c3] at hT
    rw [cornerProbs3_010 ax o m i1 i2 i3 p1 p2 p3, c1, c2, c3]
    simp only [List.sum_cons, List.sum_nil, add_zero]
    exact div_sum2 _ _ _ (halves_sum _ h1 ax _ sc) hT
  · obtain ⟨sc, c1, c2, c3⟩ := oddInterior_split ax o hax i2 hi2 p2
    obtain ⟨sd, d1, d2, d3⟩ := oddInterior_split ax o hax i3 hi3 p3
    have hS : oddAxes [i1, i2, i3] = [1, 2] := by rw [oddAxes_three]; simp [p1, p2, p3]
    rw [hS, totalBox3_2 ax o i1 i2 i3 1 2 (by omega) (by omega)] at hT
    simp only [List.getD_cons_succ, List.getD_cons_zero, c3, d3] at hT
    rw [cornerProbs3_011 ax o m i1 i2 i3 p1 p2 p3]
    simp only [c1, c2, c3, d1, d2, d3, List.sum_cons, List.sum_nil, add_zero]
    rw [← add_assoc, ← add_assoc]
    exact div_sum4 _ _ _ _ _ (quarters_sum _ h12 ax ax _ _ sc sd) hT
  · obtain ⟨sc, c1, c2, c3⟩ := oddInterior_split ax o hax i1 hi1 p1
    have hS : oddAxes [i1, i2, i3] = [0] := by rw [oddAxes_three]; simp [p1, p2, p3]
    rw [hS, totalBox3_1 ax o i1 i2 i3 0 (by omega)] at hT
    simp only [List.getD_cons_zero, c3] at hT
    rw [cornerProbs3_100 ax o m i1 i2 i3 p1 p2 p3, c1, c2, c3]
    simp only [List.sum_cons, List.sum_nil, add_zero]
    exact div_sum2 _ _ _ (halves_sum _ h0 ax _ sc) hT
  · obtain ⟨sc, c1, c2, c3⟩ := oddInterior_split ax o hax i1 hi1 p1
    obtain ⟨sd, d1, d2, d3⟩ := oddInterior_split ax o hax i3 hi3 p3
    have hS : oddAxes [i1, i2, i3] = [0, 2] := by rw [oddAxes_three]; simp [p1, p2, p3]
    rw [hS, totalBox3_2 ax o i1 i2 i3 0 2 (by omega) (by omega)] at hT
    simp only [List.getD_cons_succ, List.getD_cons_zero, c3, d3] at hT
    rw [cornerProbs3_101 ax o m i1 i2 i3 p1 p2 p3]
    simp only [c1, c2, c3, d1, d2, d3, List.sum_cons, List.sum_nil, add_zero]
    rw [← add_assoc, ← add_assoc]
    exact div_sum4 _ _ _ _ _ (quarters_sum _ h02 ax ax _ _ sc sd) hT
  · obtain ⟨sc, c1, c2, c3⟩ := oddInterior_split ax o hax i1 hi1 p1
    obtain ⟨sd, d1, d2, d3⟩ := oddInterior_split ax o hax i2 hi2 p2
    have hS : oddAxes [i1, i2, i3] = [0, 1] := by rw [oddAxes_three]; simp [p1, p2, p3]
    rw [hS, totalBox3_2 ax o i1 i2 i3 0 1 (by omega) (by omega)] at hT
    simp only [List.getD_cons_succ, List.getD_cons_zero, c3, d3] at hT
    rw [cornerProbs3_110 ax o m i1 i2 i3 p1 p2 p3]
    simp only [c1, c2, c3, d1, d2, d3, List.sum_cons, List.sum_nil, add_zero]
    rw [← add_assoc, ← add_assoc]
    exact div_sum4 _ _ _ _ _ (quarters_sum _ h01 ax ax _ _ sc sd) hT
  · obtain ⟨sc, c1, c2, c3⟩ := oddInterior_split ax o hax i1 hi1 p1
    obtain ⟨sd, d1, d2, d3⟩ := oddInterior_split ax o hax i2 hi2 p2
    obtain ⟨se, e1, e2, e3⟩ := oddInterior_split ax o hax i3 hi3 p3
    have hS : oddAxes [i1, i2, i3] = [0, 1, 2] := by rw [oddAxes_three]; simp [p1, p2, p3]
    rw [hS, totalBox3_3, c3, d3, e3] at hT
    rw [cornerProbs3_111 ax o m i1 i2 i3 p1 p2 p3]
    simp only [c1, c2, c3, d1, d2, d3, e1, e2, e3, List.sum_cons, List.sum_nil, add_zero]
    simp only [← add_assoc]
    exact div_sum8 _ _ _ _ _ _ _ _ _ (eighths_sum _ h012 ax ax ax _ _ _ sc sd se) hT

/-- hence the 3-d `__coupling_state` returns a state for every uniform u ≤ 1 -/
theorem coupleNd_never_raises_3d (i1 i2 i3 : ℤ) (hi1 : OddInterior ax o i1) (hi2 : OddInterior ax o i2)
    (hi3 : OddInterior ax o i3)
    (hT : m (oddAxes [i1, i2, i3]) (totalBox [ax, ax, ax] (oddAxes [i1, i2, i3]) (posNd o [i1, i2, i3])) ≠ 0)
    (u : ℚ) (hu : u ≤ 1) :
    (coupleNd [ax, ax, ax] o m [i1, i2, i3] u).isSome := by
  unfold coupleNd
  by_cases hE : (oddAxes [i1, i2, i3]).isEmpty
  · simp [hE]
  · have hodd : i1 % 2 ≠ 0 ∨ i2 % 2 ≠ 0 ∨ i3 % 2 ≠ 0 := by
      by_contra hc
      have hc1 : i1 % 2 = 0 := by tauto
      have hc2 : i2 % 2 = 0 := by tauto
      have hc3 : i3 % 2 = 0 := by tauto
      apply hE; rw [oddAxes_three]; simp [hc1, hc2, hc3]
    have hs := corner_probs_sum_one_3d ax o hax m h0 h1 h2 h01 h02 h12 h012 i1 i2 i3 hodd hi1 hi2 hi3 hT
    simp only [hE, Bool.false_eq_true, if_false]
    have hsum : (((signs (oddAxes [i1, i2, i3]).length).map (fun p =>
        (cornerProb [ax, ax, ax] m (oddAxes [i1, i2, i3]) (posNd o [i1, i2, i3]) p,
          cornerRes [ax, ax, ax] (oddAxes [i1, i2, i3]) (posNd o [i1, i2, i3]) p))).map Prod.fst).sum = 1 := by
      rw [List.map_map]; exact hs
    apply pickCorner_some
    · rw [hsum]; linarith
    · intro hnil; rw [hnil] at hsum; simp at hsum

end three_d

/-! ### d = 3, independent components: the margin-based corner probabilities are exact -/

section independent3
variable (axc : List ℚ) (o : ℕ) (hax : AxisOK axc o) (m : MarginMass) (m1 m2 m3 : ℚ → ℚ → ℚ)
  (hM1 : IsMass m1) (hM2 : IsMass m2) (hM3 : IsMass m3) (hC : CarriedByAxes3 m m1 m2 m3)
include hax hM1 hM2 hM3 hC

theorem refine_len_odd3 : (refine amid axc).length % 2 = 1 := by
  rw [refine_len]; have := hax.hi; omega

/-- **telescoping, d = 3, mass carried by the axes**: the coupled coarse rate of every coarse state on the first axis is
    its rate in the chain built on the un-refined grid -/
theorem telescoping_nd_independent_3d (I : ℕ) (hI : I < axc.length) (hIo : I ≠ o) :
    coupledRate3 [refine amid axc, refine amid axc, refine amid axc] (2 * o) m [2 * I, 2 * o, 2 * o] =
      rateNd amid [axc, axc, axc] o (joint 3 m) [I, o, o] := by
  have hf := refine_axisOK amid amid_between axc o hax
  have hlo := refine_len_odd3 axc o hax m m1 m2 m3 hM1 hM2 hM3 hC
  have hlen := refine_len amid axc
  have hon : 2 * o < (refine amid axc).length := by have := hax.hi; omega
  rw [rate3_on_axis1 axc o hax m m1 m2 m3 hC I hI,
    ← (telescoping_1d amid amid_between amid_idem axc o hax m1 hM1 I hI hIo).1]
  unfold coupledRate3 coupledRate
  simp only [List.getD_cons_zero, List.getD_cons_succ]
  rw [sum_map_range, sum_map_range]
  apply sum_congr rfl
  intro i hi'
  have hi'' := mem_range.mp hi'
  rw [sum_map_range, ← flow3_on_axis1 _ o hf hlo m m1 m2 m3 hM1 hM2 hM3 hC i (2 * I) hi'']
  rw [sum_eq_single (2 * o)]
  · rw [sum_map_range, sum_eq_single (2 * o)]
    · intro k hk hko
      exact flow3_zero_to_axis1 _ o hf hlo m m1 m2 m3 hM1 hM2 hM3 hC i (2 * o) k (2 * I) hi'' hon (mem_range.mp hk)
        (by omega) (Or.inr hko)
    · intro h; exact absurd (mem_range.mpr hon) h
  · intro j hj hjo
    rw [sum_map_range]
    apply sum_eq_zero
    intro k hk
    exact flow3_zero_to_axis1 _ o hf hlo m m1 m2 m3 hM1 hM2 hM3 hC i j k (2 * I) hi'' (mem_range.mp hj) (mem_range.mp hk)
      (by omega) (Or.inl hjo)
  · intro h; exact absurd (mem_range.mpr hon) h

/-- the same on the second axis -/
theorem telescoping_nd_independent_3d_axis2 (J : ℕ) (hJ : J < axc.length) (hJo : J ≠ o) :
    coupledRate3 [refine amid axc, refine amid axc, refine amid axc] (2 * o) m [2 * o, 2 * J, 2 * o] =
      rateNd amid [axc, axc, axc] o (joint 3 m) [o, J, o] := by
  have hf := refine_axisOK amid amid_between axc o hax
  have hlo := refine_len_odd3 axc o hax m m1 m2 m3 hM1 hM2 hM3 hC
  have hlen := refine_len amid axc
  have hon : 2 * o < (refine amid axc).length := by have := hax.hi; omega
  rw [rate3_on_axis2 axc o hax m m1 m2 m3 hC J hJ,
    ← (telescoping_1d amid amid_between amid_idem axc o hax m2 hM2 J hJ hJo).1]
  unfold coupledRate3 coupledRate
  simp only [List.getD_cons_zero, List.getD_cons_succ]
  rw [sum_map_range, sum_map_range, sum_eq_single (2 * o)]
  · rw [sum_map_range]
    apply sum_congr rfl
    intro j hj
    have hj' := mem_range.mp hj
    rw [sum_map_range, ← flow3_on_axis2 _ o hf hlo m m1 m2 m3 hM1 hM2 hM3 hC j (2 * J) hj', sum_eq_single (2 * o)]
    · intro k hk hko
      exact flow3_zero_to_axis2 _ o hf hlo m m1 m2 m3 hM1 hM2 hM3 hC (2 * o) j k (2 * J) hon hj' (mem_range.mp hk)
        (by omega) (Or.inr hko)
    · intro h; exact absurd (mem_range.mpr hon) h
  · intro i hi' hio
    rw [sum_map_range]
    apply sum_eq_zero
    intro j hj
    rw [sum_map_range]
    apply sum_eq_zero
    intro k hk
    exact flow3_zero_to_axis2 _ o hf hlo m m1 m2 m3 hM1 hM2 hM3 hC i j k (2 * J) (mem_range.mp hi') (mem_range.mp hj)
      (mem_range.mp hk) (by omega) (Or.inl hio)
  · intro h; exact absurd (mem_range.mpr hon) h

/-- … and on the third axis -/
theorem telescoping_nd_independent_3d_axis3 (K : ℕ) (hK : K < axc.length) (hKo : K ≠ o) :
    coupledRate3 [refine amid axc, refine amid axc, refine amid axc] (2 * o) m [2 * o, 2 * o, 2 * K] =
      rateNd amid [axc, axc, axc] o (joint 3 m) [o, o, K] := by
  have hf := refine_axisOK amid amid_between axc o hax
  have hlo := refine_len_odd3 axc o hax m m1 m2 m3 hM1 hM2 hM3 hC
  have hlen := refine_len amid axc
  have hon : 2 * o < (refine amid axc).length := by have := hax.hi; omega
  rw [rate3_on_axis3 axc o hax m m1 m2 m3 hC K hK,
    ← (telescoping_1d amid amid_between amid_idem axc o hax m3 hM3 K hK hKo).1]
  unfold coupledRate3 coupledRate
  simp only [List.getD_cons_zero, List.getD_cons_succ]
  rw [sum_map_range, sum_map_range, sum_eq_single (2 * o)]
  · rw [sum_map_range, sum_eq_single (2 * o)]
    · rw [sum_map_range]
      apply sum_congr rfl
      intro k hk
      exact flow3_on_axis3 _ o hf hlo m m1 m2 m3 hM1 hM2 hM3 hC k (2 * K) (mem_range.mp hk)
    · intro j hj hjo
      rw [sum_map_range]
      apply sum_eq_zero
      intro k hk
      exact flow3_zero_to_axis3 _ o hf hlo m m1 m2 m3 hM1 hM2 hM3 hC (2 * o) j k (2 * K) hon (mem_range.mp hj)
        (mem_range.mp hk) (by omega) (Or.inr hjo)
    · intro h; exact absurd (mem_range.mpr hon) h
  · intro i hi' hio
    rw [sum_map_range]
    apply sum_eq_zero
    intro j hj
    rw [sum_map_range]
    apply sum_eq_zero
    intro k hk
    exact flow3_zero_to_axis3 _ o hf hlo m m1 m2 m3 hM1 hM2 hM3 hC i j k (2 * K) (mem_range.mp hi') (mem_range.mp hj)
      (mem_range.mp hk) (by omega) (Or.inl hio)
  · intro h; exact absurd (mem_range.mpr hon) h

/-- … and off the axes: a coarse state with two or three coordinates off the origin has rate 0 in the coarse chain and
    receives nothing -/
theorem telescoping_nd_independent_3d_off (I J K : ℕ) (hI : I < axc.length) (hJ : J < axc.length) (hK : K < axc.length)
    (h : (I ≠ o ∧ J ≠ o) ∨ (I ≠ o ∧ K ≠ o) ∨ (J ≠ o ∧ K ≠ o)) :
    coupledRate3 [refine amid axc, refine amid axc, refine amid axc] (2 * o) m [2 * I, 2 * J, 2 * K] = 0 ∧
    rateNd amid [axc, axc, axc] o (joint 3 m) [I, J, K] = 0 := by
  have hf := refine_axisOK amid amid_between axc o hax
  have hlo := refine_len_odd3 axc o hax m m1 m2 m3 hM1 hM2 hM3 hC
  refine ⟨?_, rate3_off_axes axc o hax m m1 m2 m3 hC I J K hI hJ hK h⟩
  unfold coupledRate3
  simp only [List.getD_cons_zero, List.getD_cons_succ]
  rw [sum_map_range]
  apply sum_eq_zero
  intro i hi'
  rw [sum_map_range]
  apply sum_eq_zero
  intro j hj
  rw [sum_map_range]
  apply sum_eq_zero
  intro k hk
  exact flow3_zero_to_off _ o hf hlo m m1 m2 m3 hM1 hM2 hM3 hC i j k _ _ _ (mem_range.mp hi') (mem_range.mp hj)
    (mem_range.mp hk) (by omega)

end independent3

/-! ### d = 2 on a grid whose two axes differ (`CTMCCredit` with one threshold per margin) -/

/-- the first axis has, around position d, the same neighbours as the second -/
def AgreeAt (ax1 ax2 : List ℚ) (d : ℕ) : Prop :=
  d + 1 < ax1.length ∧ pt ax1 (d - 1) = pt ax2 (d - 1) ∧ pt ax1 (d + 1) = pt ax2 (d + 1)

section two_d_axes
variable (ax1 ax2 : List ℚ) (o : ℕ) (hax1 : AxisOK ax1 o) (hax2 : AxisOK ax2 o) (m : MarginMass)
  (h0 : IsMass (fun a b => m [0] [(a, b)])) (h1 : IsMass (fun a b => m [1] [(a, b)]))
  (h01 : IsBoxMass2 (fun a b c d => m [0, 1] [(a, b), (c, d)]))
include hax1 hax2 h0 h1 h01

/- Full-strength statement, FALSE of the code as written (`axes_counterexample`):
     (hodd : i1 % 2 ≠ 0 ∨ i2 % 2 ≠ 0) → (cornerProbs [ax1, ax2] o m [i1, i2]).sum = 1   for all well-formed ax1, ax2.
   What holds: the sum is 1 whenever the first coordinate is odd (each projected coordinate is then read from its own
   axis), and, when only the second coordinate is odd, as soon as the first axis has the same neighbours there. -/
theorem corner_probs_sum_one_axes_partial (i1 i2 : ℤ)
    (hcase : i1 % 2 ≠ 0 ∨ (i2 % 2 ≠ 0 ∧ AgreeAt ax1 ax2 (posOf o i2)))
    (hi1 : OddInterior ax1 o i1) (hi2 : OddInterior ax2 o i2)
    (hT : m (oddAxes [i1, i2]) (totalBox [ax1, ax2] (oddAxes [i1, i2]) (posNd o [i1, i2])) ≠ 0) :
    (cornerProbs [ax1, ax2] o m [i1, i2]).sum = 1 := by
  by_cases p1 : i1 % 2 = 0 <;> by_cases p2 : i2 % 2 = 0
  · tauto
  · obtain ⟨sd, d1, d2, d3⟩ := oddInterior_split ax2 o hax2 i2 hi2 p2
    obtain ⟨a0, a1, ao⟩ := hi2 p2
    have hag : AgreeAt ax1 ax2 (posOf o i2) := by tauto
    obtain ⟨x1, x2, x3⟩ := halfX_of_agree ax1 ax2 _ a0 hag.1 a1 hag.2.1 hag.2.2
    have hS : oddAxes [i1, i2] = [1] := by rw [oddAxes_two]; simp [p1, p2]
    rw [hS, totalBoxA_01, x3, d3] at hT
    rw [cornerProbsA_01 ax1 ax2 o m i1 i2 p1 p2, x1, x2, x3, d1, d2, d3]
    simp only [List.sum_cons, List.sum_nil, add_zero]
    exact div_sum2 _ _ _ (halves_sum _ h1 ax2 _ sd) hT
  · obtain ⟨sc, c1, c2, c3⟩ := oddInterior_split ax1 o hax1 i1 hi1 p1
    have hS : oddAxes [i1, i2] = [0] := by rw [oddAxes_two]; simp [p1, p2]
    rw [hS, totalBoxA_10, c3] at hT
    rw [cornerProbsA_10 ax1 ax2 o m i1 i2 p1 p2, c1, c2, c3]
    simp only [List.sum_cons, List.sum_nil, add_zero]
    exact div_sum2 _ _ _ (halves_sum _ h0 ax1 _ sc) hT
  · obtain ⟨sc, c1, c2, c3⟩ := oddInterior_split ax1 o hax1 i1 hi1 p1
    obtain ⟨sd, d1, d2, d3⟩ := oddInterior_split ax2 o hax2 i2 hi2 p2
    have hS : oddAxes [i1, i2] = [0, 1] := by rw [oddAxes_two]; simp [p1, p2]
    rw [hS, totalBoxA_11, c3, d3] at hT
    rw [cornerProbsA_11 ax1 ax2 o m i1 i2 p1 p2]
    simp only [c1, c2, c3, d1, d2, d3, List.sum_cons, List.sum_nil, add_zero]
    rw [← add_assoc, ← add_assoc]
    exact div_sum4 _ _ _ _ _ (quarters_sum _ h01 ax1 ax2 _ _ sc sd) hT

end two_d_axes

/-- **where the coupled value is read from**: when the first coordinate is odd (alone or with the second) the value
    returned for a corner is the grid state that corner stands for; when only the second coordinate is odd, the second
    component of the returned value is a point of the *first* axis (`grid[projected_position + p]` indexes the axes by the
    position in the projected tuple), whereas the grid state is on the second axis -/
theorem corner_values_axes (ax1 ax2 : List ℚ) (c d : ℕ) (s t : ℤ) :
    cornerRes [ax1, ax2] [0] [c, d] [s] = valuesAt [ax1, ax2] (cornerIdx [0] [c, d] [s]) ∧
    cornerRes [ax1, ax2] [0, 1] [c, d] [s, t] = valuesAt [ax1, ax2] (cornerIdx [0, 1] [c, d] [s, t]) ∧
    cornerRes [ax1, ax2] [1] [c, d] [s] = [pt ax1 c, pt ax1 (posOf d s)] ∧
    valuesAt [ax1, ax2] (cornerIdx [1] [c, d] [s]) = [pt ax1 c, pt ax2 (posOf d s)] := by
  refine ⟨?_, ?_, cornerResA_01 ax1 ax2 c d s, ?_⟩
  · rw [cornerResA_10]; simp [valuesAt, cornerIdx, List.range_succ]
  · rw [cornerResA_11]; simp [valuesAt, cornerIdx, List.range_succ]
  · simp [valuesAt, cornerIdx, List.range_succ]

section independent_axes
variable (ax1c ax2c : List ℚ) (o : ℕ) (hax1 : AxisOK ax1c o) (hax2 : AxisOK ax2c o) (m : MarginMass) (m1 m2 : ℚ → ℚ → ℚ)
  (hM1 : IsMass m1) (hM2 : IsMass m2) (hC : CarriedByAxes m m1 m2)
include hax1 hax2 hM1 hM2 hC

/- Full-strength statement, FALSE of the code as written (`axes_counterexample`): the same for the coarse states
   `[2 * o, 2 * J]` of the second axis.  What holds: -/
/-- **telescoping, d = 2, two different axes, mass carried by the axes**: the coupled coarse rate of every coarse state on
    the *first* axis is its rate in the chain built on the un-refined grid -/
theorem telescoping_nd_independent_axes_partial (I : ℕ) (hI : I < ax1c.length) (hIo : I ≠ o) :
    coupledRate2 [refine amid ax1c, refine amid ax2c] (2 * o) m [2 * I, 2 * o] =
      rateNd amid [ax1c, ax2c] o (joint 2 m) [I, o] := by
  have hf1 := refine_axisOK amid amid_between ax1c o hax1
  have hf2 := refine_axisOK amid amid_between ax2c o hax2
  have hlo : (refine amid ax1c).length % 2 = 1 := by rw [refine_len]; have := hax1.hi; omega
  have hlen := refine_len amid ax1c
  have hlen2 := refine_len amid ax2c
  rw [rateA_on_axis1 ax1c ax2c o hax1 hax2 m m1 m2 hC I hI,
    ← (telescoping_1d amid amid_between amid_idem ax1c o hax1 m1 hM1 I hI hIo).1]
  unfold coupledRate2 coupledRate
  simp only [List.getD_cons_zero, List.getD_cons_succ]
  rw [sum_map_range, sum_map_range]
  apply sum_congr rfl
  intro i hi'
  have hi'' := mem_range.mp hi'
  rw [sum_map_range, ← flowA_on_axis1 _ _ o hf1 hf2 hlo m m1 m2 hM1 hM2 hC i (2 * I) hi'']
  rw [sum_eq_single (2 * o)]
  · intro j hj hjo
    have hj' := mem_range.mp hj
    by_cases hio : i = 2 * o
    · rw [hio]; exact flowA_axis2_to_axis1 _ _ o hf1 hf2 hlo m m1 m2 hM1 hM2 hC j (2 * I) (by omega)
    · unfold flowNd
      simp only [List.length_cons, List.length_nil, Nat.zero_add, Nat.reduceAdd]
      rw [rateA_off_axes _ _ (2 * o) hf1 hf2 m m1 m2 hC i j hi'' hj' hio hjo]; simp
  · intro h; exfalso; apply h; rw [mem_range]; have := hax2.hi; omega

end independent_axes

/-! ### dependent components: the margin-based corner probabilities are *not* exact (negation witness) -/

/-- **counter-example, 2-d**: for the measure carried by the segment `{(x, 2x)}` (complete dependence; a measure:
    `line_margin0`, `line_margin1`, `line_joint`), coarse axis `[-1, 0, 1]`, the coupled coarse component jumps to the
    coarse state `(0, 1)` at rate 5/16 while the chain built on the un-refined grid jumps there at rate 1/4; the fine state
    `(0, 1/2)` is split 1/2 : 1/2 by the margin of the odd coordinate although its whole joint mass lies in the lower half -/
theorem telescoping_nd_counterexample :
    coupledRate2 [cexFine, cexFine] 2 lineMargin [2, 4] = 5 / 16 ∧
    rateNd amid [cexCoarse, cexCoarse] 1 (joint 2 lineMargin) [1, 2] = 1 / 4 ∧
    coupledRate2 [cexFine, cexFine] 2 lineMargin [2, 4] ≠ rateNd amid [cexCoarse, cexCoarse] 1 (joint 2 lineMargin) [1, 2] ∧
    cornerProbs [cexFine, cexFine] 2 lineMargin [0, 1] = [1 / 2, 1 / 2] ∧
    lineMargin [0, 1] [(-1 / 4, 1 / 4), (1 / 4, 1 / 2)] = 1 / 8 ∧ lineMargin [0, 1] [(-1 / 4, 1 / 4), (1 / 2, 3 / 4)] = 0 := by
  decide +kernel

/-- the witness satisfies every hypothesis of `corner_probs_sum_one` -/
theorem counterexample_is_a_measure :
    AxisOK cexFine 2 ∧ IsMass (fun a b => lineMargin [0] [(a, b)]) ∧ IsMass (fun a b => lineMargin [1] [(a, b)]) ∧
    IsBoxMass2 (fun a b c d => lineMargin [0, 1] [(a, b), (c, d)]) :=
  ⟨⟨by decide +kernel, by decide, by decide +kernel, by decide +kernel⟩, line_margin0, line_margin1, line_joint⟩

/-! ### non-vacuity -/

/-- 1-d, Lebesgue-like mass `1/x²` (`invSq` of C01): coarse axis `[-2, -1, 0, 1, 3]`, the coupled rate of the coarse state 3
    (fine index 6) is the coarse rate, and the probability to go right from the fine state 7 is what the code computes -/
example : coupledRate amid (refine amid [-2, -1, 0, 1, 3]) 4 (fun a b => 1 / a - 1 / b) 6 =
    rate amid [-2, -1, 0, 1, 3] 2 (fun a b => 1 / a - 1 / b) 3 := by decide +kernel

example : pRight amid (refine amid [-2, -1, 0, 1, 3]) (fun a b => 1 / a - 1 / b) 7 = 3 / 8 := by decide +kernel

example : couple1d amid (refine amid [-2, -1, 0, 1, 3]) 4 (fun a b => 1 / a - 1 / b) 3 (2 / 7) = 3 ∧
    couple1d amid (refine amid [-2, -1, 0, 1, 3]) 4 (fun a b => 1 / a - 1 / b) 3 (4 / 7) = 1 ∧
    couple1d amid (refine amid [-2, -1, 0, 1, 3]) 4 (fun a b => 1 / a - 1 / b) 2 (4 / 7) = 1 := by decide +kernel

example : coupleNd [cexFine, cexFine] 2 lineMargin [1, 1] (1 / 3) = some [0, 1] ∧
    coupleNd [cexFine, cexFine] 2 lineMargin [0, 1] (3 / 4) = some [0, 1] := by decide +kernel

/-! ### non-vacuity of the n-d hypotheses (d = 2, 3) -/

theorem lebesgue_isMass : IsMass (fun a b => b - a) :=
  ⟨fun a b c _ _ _ => by ring, fun a b h _ => by linarith⟩

theorem straddles_of {a b : ℚ} (ha : a < 0) (hb : 0 < b) : straddles a b = true := by
  simp [straddles, ha, hb]

theorem not_straddles_of_away {a b : ℚ} (h : Away a b) : straddles a b = false := by
  unfold straddles
  rcases h with h | h
  · have : ¬ 0 < b := by linarith
    simp [this]
  · have : ¬ a < 0 := by linarith
    simp [this]

/-- the hypotheses of `telescoping_nd_independent` are satisfiable (`indepMargin`: Lebesgue margins, mass on the axes) -/
theorem indepMargin_carried2 : CarriedByAxes indepMargin (fun a b => b - a) (fun a b => b - a) := by
  refine ⟨fun a b => rfl, fun a b => rfl, ?_, ?_, ?_⟩
  · intro a b c d h hc hd
    show (if straddles c d then b - a else 0) + (if straddles a b then d - c else 0) = b - a
    rw [straddles_of hc hd, not_straddles_of_away h]; simp
  · intro a b c d ha hb h
    show (if straddles c d then b - a else 0) + (if straddles a b then d - c else 0) = d - c
    rw [straddles_of ha hb, not_straddles_of_away h]; simp
  · intro a b c d h1 h2
    show (if straddles c d then b - a else 0) + (if straddles a b then d - c else 0) = 0
    rw [not_straddles_of_away h1, not_straddles_of_away h2]; simp

/-- … and those of `telescoping_nd_independent_3d` -/
theorem indepMargin_carried3 :
    CarriedByAxes3 indepMargin (fun a b => b - a) (fun a b => b - a) (fun a b => b - a) := by
  have key : ∀ a b c d e f : ℚ, indepMargin [0, 1, 2] [(a, b), (c, d), (e, f)] =
      (if straddles c d && straddles e f then b - a else 0) + (if straddles a b && straddles e f then d - c else 0) +
        (if straddles a b && straddles c d then f - e else 0) := fun _ _ _ _ _ _ => rfl
  refine ⟨fun a b => rfl, fun a b => rfl, fun a b => rfl, ?_, ?_, ?_, ?_, ?_, ?_⟩
  · intro a b c d e f h hc hd he hf
    rw [key, straddles_of hc hd, straddles_of he hf, not_straddles_of_away h]; simp
  · intro a b c d e f ha hb h he hf
    rw [key, straddles_of ha hb, straddles_of he hf, not_straddles_of_away h]; simp
  · intro a b c d e f ha hb hc hd h
    rw [key, straddles_of ha hb, straddles_of hc hd, not_straddles_of_away h]; simp
  · intro a b c d e f h1 h2
    rw [key, not_straddles_of_away h1, not_straddles_of_away h2]; simp
  · intro a b c d e f h1 h2
    rw [key, not_straddles_of_away h1, not_straddles_of_away h2]; simp
  · intro a b c d e f h1 h2
    rw [key, not_straddles_of_away h1, not_straddles_of_away h2]; simp

theorem lebMargin_one (s : ℕ) (a b : ℚ) : lebMargin [s] [(a, b)] = b - a := by
  simp [lebMargin]

theorem lebMargin_two (s t : ℕ) (a b c d : ℚ) : lebMargin [s, t] [(a, b), (c, d)] = (b - a) * (d - c) := by
  simp [lebMargin]

theorem lebMargin_three (S : List ℕ) (a b c d e f : ℚ) :
    lebMargin S [(a, b), (c, d), (e, f)] = (b - a) * (d - c) * (f - e) := by
  simp [lebMargin]; ring

/-- the hypotheses of `corner_probs_sum_one` / `corner_probs_sum_one_3d` are satisfiable (Lebesgue measure) -/
theorem lebMargin_masses :
    (∀ s, IsMass (fun a b => lebMargin [s] [(a, b)])) ∧
    (∀ s t, IsBoxMass2 (fun a b c d => lebMargin [s, t] [(a, b), (c, d)])) ∧
    IsBoxMass3 (fun a b c d e f => lebMargin [0, 1, 2] [(a, b), (c, d), (e, f)]) := by
  refine ⟨fun s => ?_, fun s t => ?_, ?_⟩
  · simp only [lebMargin_one]; exact lebesgue_isMass
  · simp only [lebMargin_two]; exact lebesgue_isBoxMass2
  · simp only [lebMargin_three]; exact lebesgue_isBoxMass3

/-- d = 3 on the fine grid `[-1, -1/2, 0, 1/2, 1]^3`: three / two / one odd coordinates, and two couplings -/
example : cornerProbs [cexFine, cexFine, cexFine] 2 lebMargin [1, 1, 1] = [1/8, 1/8, 1/8, 1/8, 1/8, 1/8, 1/8, 1/8] ∧
    cornerProbs [cexFine, cexFine, cexFine] 2 lebMargin [-1, 0, 1] = [1/4, 1/4, 1/4, 1/4] ∧
    cornerProbs [cexFine, cexFine, cexFine] 2 lebMargin [2, -1, 0] = [1/2, 1/2] ∧
    coupleNd [cexFine, cexFine, cexFine] 2 lebMargin [1, -1, 1] (7 / 16) = some [0, 0, 1] ∧
    coupleNd [cexFine, cexFine, cexFine] 2 lebMargin [2, -1, 0] (3 / 4) = some [1, 0, 0] := by decide +kernel

/-- d = 3, independent components: the coarse state `(1, 0, 0)` (fine index `[4, 2, 2]`) receives its coarse rate 1/2 -/
example : coupledRate3 [cexFine, cexFine, cexFine] 2 indepMargin [4, 2, 2] = 1 / 2 ∧
    rateNd amid [cexCoarse, cexCoarse, cexCoarse] 1 (joint 3 indepMargin) [2, 1, 1] = 1 / 2 ∧
    coupledRate3 [cexFine, cexFine, cexFine] 2 indepMargin [2, 2, 0] = 1 / 2 ∧
    coupledRate3 [cexFine, cexFine, cexFine] 2 indepMargin [4, 0, 2] = 0 := by decide +kernel

/-! ### two different axes: negation witness and non-vacuity -/

/-- **negation witness, two different axes** (fine axes `cexFineA`, `cexFineB`, Lebesgue margins / Lebesgue mass on the
    axes).  For the fine state `(0, 3/8)` (increment `[0, 3]`: only the second coordinate odd) the code reads the neighbours
    1 and 2 of the *first* axis: the two "probabilities" are 5/8 and 13/8; the coupled value for u = 3/4 is `(0, 2)`,
    and 2 is not a point of the second axis, whose states adjacent to 3/8 are 1/4 and 1/2; with independent components the
    coarse state `(0, 1/2)` receives 17/64 instead of its rate 1/8.  All hypotheses of the partial theorems other than
    "first coordinate odd / same neighbours" hold (`lebMargin_masses`, `indepMargin_carried2`). -/
theorem axes_counterexample :
    AxisOK cexFineA 4 ∧ AxisOK cexFineB 4 ∧ AxisOK cexCoarseA 2 ∧ AxisOK cexCoarseB 2 ∧
    cornerProbs [cexFineA, cexFineB] 4 lebMargin [0, 3] = [5 / 8, 13 / 8] ∧
    (cornerProbs [cexFineA, cexFineB] 4 lebMargin [0, 3]).sum ≠ 1 ∧
    coupleNd [cexFineA, cexFineB] 4 lebMargin [0, 3] (3 / 4) = some [0, 2] ∧ (2 : ℚ) ∉ cexFineB ∧
    pt cexFineB 7 = 3 / 8 ∧ pt cexFineB 6 = 1 / 4 ∧ pt cexFineB 8 = 1 / 2 ∧
    coupledRate2 [cexFineA, cexFineB] 4 indepMargin [4, 8] = 17 / 64 ∧
    rateNd amid [cexCoarseA, cexCoarseB] 2 (joint 2 indepMargin) [2, 4] = 1 / 8 := by
  refine ⟨⟨by decide +kernel, by decide, by decide +kernel, by decide +kernel⟩,
    ⟨by decide +kernel, by decide, by decide +kernel, by decide +kernel⟩,
    ⟨by decide +kernel, by decide, by decide +kernel, by decide +kernel⟩,
    ⟨by decide +kernel, by decide, by decide +kernel, by decide +kernel⟩, ?_⟩
  decide +kernel

/-- non-vacuity of the partial theorems on the same two axes: first coordinate odd -/
example : cornerProbs [cexFineA, cexFineB] 4 lebMargin [3, 0] = [1 / 2, 1 / 2] ∧
    cornerProbs [cexFineA, cexFineB] 4 lebMargin [3, 3] = [1 / 4, 1 / 4, 1 / 4, 1 / 4] ∧
    coupleNd [cexFineA, cexFineB] 4 lebMargin [3, 3] (5 / 8) = some [2, 1 / 4] ∧
    coupledRate2 [cexFineA, cexFineB] 4 indepMargin [8, 4] = 1 / 2 ∧
    rateNd amid [cexCoarseA, cexCoarseB] 2 (joint 2 indepMargin) [4, 2] = 1 / 2 := by decide +kernel

end Rpylib.Coupling
