/-
C10 — Exponent, triplet, cumulants and simulation drifts describe one same process.      Property theorems only.
Model: RpylibModel/Model/Triplet.lean.  Proved: the drift conversion between representations is path-independent and
reversible (every measure, finite or infinite variation); the martingale algebra of the three pricing routes; and, over ℝ / ℂ
(Lemmas/C10*.lean, on top of C09's densities), for the jump-diffusion families HEM, Merton and Black–Scholes:
  * the coded pure-jump exponent IS the Lévy–Khintchine integral ∫ (e^{z x} − 1) ν(dx) of the model's own density — HEM for
    every complex z with −η₂ < Re z < η₁, Merton for every complex z (so both the moment-generating argument z = s and the
    characteristic argument z = i u), hence `levy_exponent(u)` = i u a − σ²u²/2 + ∫ (e^{iux} − 1) ν(dx) in the declared (ZERO)
    representation, κ(1) = ∫ (e^x − 1) ν(dx), and the direct / cf martingale statements about that integral;
  * the coded cumulants 1, 2, 4, 6 are the derivatives at 0 of s ↦ a s + σ²s²/2 + ∫ (e^{s x} − 1) ν(dx) (every order has a
    closed form: `hem_cgf_iteratedDeriv`, `merton_cgf_iteratedDeriv`); the first two are the mean / second moment of ν.
NOT proved (compared numerically by harness/props/c10.py): the same statements for VG / CGMY (gamma / incomplete-gamma
closed forms, no Mathlib counterpart), and the exponent in the non-declared representations as an integral (only the drift
bookkeeping `exponent_rep_invariant` is proved).
-/
import RpylibModel.Model.Triplet
import RpylibModel.Proofs.Lemmas.C10Cgf
import RpylibModel.Proofs.Lemmas.C10Complex
import Mathlib.Tactic.Linarith
import Mathlib.Tactic.Ring
import Mathlib.Tactic.FieldSimp
import Mathlib.Algebra.Order.Field.Rat

namespace Rpylib.Triplet

/-! ### representation changes -/

/-- one `set_representation`: new drift = old drift − offset(old representation) + offset(new representation) -/
theorem setRep_drift (m : Meas) (t : Trip) (r : Rep) :
    (setRep m t r).a = t.a - cRep m t.rep + cRep m r ∧ (setRep m t r).rep = r := by
  obtain ⟨a, rep⟩ := t
  cases hf : m.fv <;> cases rep <;> cases r <;>
    simp [setRep, driftMapping, canonicalDrift, zeroDrift, centerDrift, tildeDrift, cRep, hf] <;> ring

/-- the conserved quantity of a walk: the canonical (ONEONE) drift -/
theorem walk_invariant (m : Meas) (rs : List Rep) (t : Trip) :
    (walk m t rs).a - cRep m (walk m t rs).rep = t.a - cRep m t.rep := by
  induction rs generalizing t with
  | nil => rfl
  | cons r rest ih =>
    have h := setRep_drift m t r
    simp only [walk, List.foldl_cons] at ih ⊢
    rw [ih (setRep m t r), h.1, h.2]; ring

theorem walk_rep (m : Meas) (rs : List Rep) (r : Rep) (t : Trip) : (walk m t (rs ++ [r])).rep = r := by
  simp only [walk, List.foldl_append, List.foldl_cons, List.foldl_nil]
  exact (setRep_drift m _ r).2

/-- **the final drift is a function of (original drift, original representation, last representation) only** -/
theorem walk_drift (m : Meas) (rs : List Rep) (r : Rep) (t : Trip) :
    (walk m t (rs ++ [r])).a = t.a - cRep m t.rep + cRep m r := by
  have h := walk_invariant m (rs ++ [r]) t
  rw [walk_rep] at h
  linarith

/-- **setRep_path_independent**: two histories of representation changes ending in the same representation give the
    same triplet drift — for every measure, finite or infinite variation -/
theorem setRep_path_independent (m : Meas) (rs₁ rs₂ : List Rep) (r : Rep) (t : Trip) :
    walk m t (rs₁ ++ [r]) = walk m t (rs₂ ++ [r]) := by
  have e1 : ∀ x y : Trip, x.a = y.a → x.rep = y.rep → x = y := by
    intro x y h1 h2; cases x; cases y; simp_all
  exact e1 _ _ (by rw [walk_drift, walk_drift]) (by rw [walk_rep, walk_rep])

/-- **setRep_reversible**: every history that ends in the original representation returns the original drift -/
theorem setRep_reversible (m : Meas) (rs : List Rep) (t : Trip) : walk m t (rs ++ [t.rep]) = t := by
  have e1 : ∀ x y : Trip, x.a = y.a → x.rep = y.rep → x = y := by
    intro x y h1 h2; cases x; cases y; simp_all
  exact e1 _ _ (by rw [walk_drift]; ring) (walk_rep m rs t.rep t)

/-- the two flags spelled out -/
theorem setRep_reversible_finite_variation (mid tails : Rat) (rs : List Rep) (t : Trip) :
    walk ⟨mid, tails, true⟩ t (rs ++ [t.rep]) = t := setRep_reversible _ rs t
theorem setRep_reversible_infinite_variation (mid tails : Rat) (rs : List Rep) (t : Trip) :
    walk ⟨mid, tails, false⟩ t (rs ++ [t.rep]) = t := setRep_reversible _ rs t

/-- the exponent does not depend on the representation: drift + jump part of ψ(−i) is conserved by `setRep` -/
theorem exponent_rep_invariant (m : Meas) (j11 : Rat) (t : Trip) (r : Rep) :
    (setRep m t r).a + jumpExp m j11 (setRep m t r).rep = t.a + jumpExp m j11 t.rep := by
  have h := setRep_drift m t r
  rw [h.1, h.2]; unfold jumpExp; ring

/-- **the exponent is a function of the ORIGINAL drift and representation only**: along every history of representation
    changes on one triplet, current drift + jump part in the current representation is what it was at construction
    (this is why `levy_exponent` may keep `_original_drift` together with its hard-wired native jump exponent) -/
theorem exponent_walk_invariant (m : Meas) (j11 : Rat) (rs : List Rep) (t : Trip) :
    (walk m t rs).a + jumpExp m j11 (walk m t rs).rep = t.a + jumpExp m j11 t.rep := by
  have h := walk_invariant m rs t
  unfold jumpExp; linarith

/-- negation witness (regression "levy_exponent reads the CURRENT triplet drift but keeps the native jump exponent"):
    after one conversion the value differs from the exponent of the process by the moved first-moment integral -/
theorem exponent_current_drift_native_jump_shifts (m : Meas) (j11 : Rat) (t : Trip) (r : Rep) :
    (setRep m t r).a + jumpExp m j11 t.rep = (t.a + jumpExp m j11 t.rep) + (cRep m r - cRep m t.rep) := by
  rw [(setRep_drift m t r).1]; ring

theorem exponent_current_drift_native_jump_wrong :
    ∃ (m : Meas) (j11 : Rat) (t : Trip) (r : Rep), (setRep m t r).a + jumpExp m j11 t.rep ≠ t.a + jumpExp m j11 t.rep := by
  refine ⟨⟨1/3, 1/7, true⟩, 0, ⟨0, .zero⟩, .center, ?_⟩
  decide +kernel

/-- negation witness (mutation "CENTER conversion sign flipped"): the round trip ZERO → CENTER → ZERO no longer returns -/
theorem center_flipped_not_reversible :
    ∃ (m : Meas) (t : Trip), setRepFlipped m (setRepFlipped m t .center) t.rep ≠ t := by
  refine ⟨⟨0, 1, true⟩, ⟨0, .zero⟩, ?_⟩
  decide +kernel

/-! ### martingale algebra of the three routes -/

/-- **cf_route_martingale**: with ω = −ψ(−i), the drift r − d + ω plus ψ(−i) is r − d -/
theorem cf_route_martingale (r d a sigma kappa1 : Rat) :
    expDrift r d (omega a sigma kappa1) + psiMinusI a sigma kappa1 = r - d := by
  unfold expDrift omega; ring

/-- HEM: the coded pure-jump exponent at 1 is λ·ξ with the cached `_xi` -/
theorem hem_kappa_one (lam p eta1 eta2 : Rat) : hemKappa lam p eta1 eta2 1 = lam * hemXi p eta1 eta2 := rfl

theorem direct_route_martingale_BS (r d sigma : Rat) :
    processDriftDirectBS r d sigma + sigma * sigma / 2 + 0 = r - d := by
  unfold processDriftDirectBS; ring

theorem direct_route_martingale_Merton (r d sigma lam e : Rat) :
    processDriftDirectMerton r d sigma lam e + sigma * sigma / 2 + mertonKappa1 lam e = r - d := by
  unfold processDriftDirectMerton mertonKappa1; ring

theorem direct_route_martingale_HEM (r d sigma lam p eta1 eta2 : Rat) :
    processDriftDirectHEM r d sigma lam p eta1 eta2 + sigma * sigma / 2 + hemKappa lam p eta1 eta2 1 = r - d := by
  rw [hem_kappa_one]; unfold processDriftDirectHEM; ring

/-- the direct-simulation drift is the cf-route drift plus the triplet drift of the ZERO representation (uncompensated
    compound-Poisson jumps are simulated): both routes simulate the same process -/
theorem direct_eq_cf_plus_zero_drift_HEM (r d sigma lam p eta1 eta2 : Rat) :
    processDriftDirectHEM r d sigma lam p eta1 eta2 =
      expDrift r d (omega (hemTripletA lam p eta1 eta2) sigma (hemKappa lam p eta1 eta2 1)) + hemTripletA lam p eta1 eta2 := by
  rw [hem_kappa_one]; unfold processDriftDirectHEM expDrift omega psiMinusI; ring

theorem direct_eq_cf_plus_zero_drift_Merton (r d sigma lam muJ e : Rat) :
    processDriftDirectMerton r d sigma lam e =
      expDrift r d (omega (mertonTripletA lam muJ) sigma (mertonKappa1 lam e)) + mertonTripletA lam muJ := by
  unfold processDriftDirectMerton expDrift omega psiMinusI mertonKappa1; ring

theorem direct_eq_cf_plus_zero_drift_BS (r d sigma : Rat) :
    processDriftDirectBS r d sigma = expDrift r d (omega 0 sigma 0) + 0 := by
  unfold processDriftDirectBS expDrift omega psiMinusI; ring

/-- negation witness (finding #13, fixed by 203f837): the pre-fix HEM drift overshoots by σ²/2 … -/
theorem hem_prefix_gap (r d sigma lam p eta1 eta2 : Rat) :
    processDriftDirectHEMPrefix r d lam p eta1 eta2 + sigma * sigma / 2 + hemKappa lam p eta1 eta2 1
      = r - d + sigma * sigma / 2 := by
  rw [hem_kappa_one]; unfold processDriftDirectHEMPrefix; ring

/-- … e.g. forward rate 0.02125 instead of 0.02 with the default parameters (σ = 0.05) -/
theorem hem_prefix_not_martingale :
    ∃ r d sigma lam p eta1 eta2 : Rat,
      processDriftDirectHEMPrefix r d lam p eta1 eta2 + sigma * sigma / 2 + hemKappa lam p eta1 eta2 1 ≠ r - d := by
  refine ⟨1/50, 0, 1/20, 3, 3/5, 20, 25, ?_⟩
  rw [hem_prefix_gap]; norm_num

/-- Markov-chain route, bookkeeping: the chain's drift plus its mean jump per unit time is the model drift plus the
    tilde drift plus the compensated first moment -/
theorem ctmc_bookkeeping (modelDrift aTilde muTilde muH : Rat) :
    ctmcDrift modelDrift aTilde muTilde muH + muH = modelDrift + aTilde + muTilde := by
  unfold ctmcDrift; ring

/-- **ctmc_route_martingale**: the chain is built on the triplet converted to TILDE; whatever the original
    representation, drift() + a_tilde + σ²/2 + ∫(e^x − 1 − x h_tilde)ν = r − d when ω was computed from the original triplet -/
theorem ctmc_route_martingale (m : Meas) (r d sigma j11 : Rat) (t : Trip) :
    expDrift r d (omega t.a sigma (jumpExp m j11 t.rep)) + (setRep m t .tilde).a + sigma * sigma / 2
      + jumpExp m j11 .tilde = r - d := by
  have h := exponent_rep_invariant m j11 t .tilde
  rw [(setRep_drift m t .tilde).2] at h
  unfold expDrift omega psiMinusI
  linarith

/-! ### non-vacuity (representation walks) -/

example : walk ⟨1/3, -1/7, true⟩ ⟨5, .zero⟩ [.center, .oneone, .tilde, .center] = ⟨5 + 1/3 - 1/7, .center⟩ := by
  decide +kernel

example : (setRep ⟨1/3, -1/7, false⟩ ⟨5, .center⟩ .tilde).a = 5 + 1/7 := by decide +kernel


/-! ## the coded exponents are Lévy–Khintchine integrals of the densities (ℝ / ℂ) -/

open Real MeasureTheory Rpylib.Integrals

theorem hemKappa_cast (lam p eta1 eta2 s : ℚ) :
    ((hemKappa lam p eta1 eta2 s : ℚ) : ℝ) = hemKappaR lam p eta1 eta2 s := by
  unfold hemKappa hemKappaR; push_cast; ring

/-- **hem_kappa_is_LK_integral**: M's (= the code's, hem.py:216-219) rational function is the moment-generating
    Lévy–Khintchine integral of the HEM density (hem.py:55-62) over ℝ (the density is 0 at 0), every −η₂ < s < η₁ -/
theorem hem_kappa_is_LK_integral (lam p eta1 eta2 s : ℚ) (h1 : 0 < eta1) (h2 : 0 < eta2) (hs : -eta2 < s ∧ s < eta1) :
    ((hemKappa lam p eta1 eta2 s : ℚ) : ℝ) = ∫ x : ℝ, (exp (s * x) - 1) * hemDensity lam p eta1 eta2 x := by
  rw [hemKappa_cast, hem_LK_integral_real]
  · exact_mod_cast h1
  · exact_mod_cast h2
  · constructor
    · exact_mod_cast hs.1
    · exact_mod_cast hs.2

/-- … and the integrand is integrable (the equality above is not an equality of junk values) -/
theorem hem_LK_integrable (lam p eta1 eta2 s : ℚ) (h1 : 0 < eta1) (h2 : 0 < eta2) (hs : -eta2 < s ∧ s < eta1) :
    Integrable (fun x : ℝ => (exp (s * x) - 1) * hemDensity lam p eta1 eta2 x) := by
  apply integrable_hemLK_real
  · exact_mod_cast h1
  · exact_mod_cast h2
  · constructor
    · exact_mod_cast hs.1
    · exact_mod_cast hs.2

/-- **complex argument** (real parameters): every z in the strip −η₂ < Re z < η₁ -/
theorem hem_kappa_is_LK_integral_complex (lam p eta1 eta2 : ℝ) (z : ℂ) (h1 : 0 < eta1) (h2 : 0 < eta2)
    (hz : -eta2 < z.re ∧ z.re < eta1) :
    ∫ x : ℝ, (Complex.exp (z * x) - 1) * (hemDensity lam p eta1 eta2 x : ℂ)
      = lam * (p * eta1 / (eta1 - z) + (1 - p) * eta2 / (eta2 + z) - 1) :=
  hem_LK_integral_complex lam p eta1 eta2 z h1 h2 hz

/-- `LevyModel.levy_exponent(w)` of the HEM model as coded (levymodel.py:402-410 with hem.py:216-219) -/
noncomputable def hemLevyExponent (a sigma lam p eta1 eta2 : ℝ) (w : ℂ) : ℂ :=
  Complex.I * w * a - (w * sigma) ^ 2 / 2 + hemKappaC lam p eta1 eta2 (Complex.I * w)

/-- **hem_levy_exponent_is_LK**: the coded characteristic exponent is the Lévy–Khintchine formula of the declared triplet
    (a, σ, ν, ZERO) — for every complex w with −η₂ < −Im w < η₁, in particular every real u and w = −i -/
theorem hem_levy_exponent_is_LK (a sigma lam p eta1 eta2 : ℝ) (w : ℂ) (h1 : 0 < eta1) (h2 : 0 < eta2)
    (hw : -eta2 < -w.im ∧ -w.im < eta1) :
    hemLevyExponent a sigma lam p eta1 eta2 w
      = Complex.I * w * a - sigma ^ 2 * w ^ 2 / 2
        + ∫ x : ℝ, (Complex.exp (Complex.I * w * x) - 1) * (hemDensity lam p eta1 eta2 x : ℂ) := by
  have hre : (Complex.I * w).re = -w.im := by simp
  have h := hem_LK_integral_complex lam p eta1 eta2 (Complex.I * w) h1 h2 (by rw [hre]; exact hw)
  unfold hemLevyExponent
  rw [← h]
  simp only [hemLKIntegrand]
  ring

theorem hem_levy_exponent_is_LK_real (a sigma lam p eta1 eta2 u : ℝ) (h1 : 0 < eta1) (h2 : 0 < eta2) :
    hemLevyExponent a sigma lam p eta1 eta2 u
      = Complex.I * u * a - sigma ^ 2 * (u : ℂ) ^ 2 / 2
        + ∫ x : ℝ, (Complex.exp (Complex.I * u * x) - 1) * (hemDensity lam p eta1 eta2 x : ℂ) :=
  hem_levy_exponent_is_LK a sigma lam p eta1 eta2 u h1 h2 (by simp [h1, h2])

/-- κ(1) = λ ξ = ∫ (e^x − 1) ν(dx) when η₁ > 1 (the cached `_xi`, hem.py:37) -/
theorem hem_xi_is_LK_integral (lam p eta1 eta2 : ℚ) (h1 : 1 < eta1) (h2 : 0 < eta2) :
    ((lam * hemXi p eta1 eta2 : ℚ) : ℝ) = ∫ x : ℝ, (exp x - 1) * hemDensity lam p eta1 eta2 x := by
  have h := hem_kappa_is_LK_integral lam p eta1 eta2 1 (by linarith) h2 ⟨by linarith, h1⟩
  rw [hem_kappa_one] at h
  simpa using h

/-- **direct_route_martingale_HEM_integral**: drift of the direct simulation + σ²/2 + ∫ (e^x − 1) ν(dx) = r − d under the
    exact jump law of the model's density -/
theorem direct_route_martingale_HEM_integral (r d sigma lam p eta1 eta2 : ℚ) (h1 : 1 < eta1) (h2 : 0 < eta2) :
    ((processDriftDirectHEM r d sigma lam p eta1 eta2 : ℚ) : ℝ) + (sigma : ℝ) * sigma / 2
      + ∫ x : ℝ, (exp x - 1) * hemDensity lam p eta1 eta2 x = r - d := by
  rw [← hem_xi_is_LK_integral lam p eta1 eta2 h1 h2]
  unfold processDriftDirectHEM; push_cast; ring

/-- **cf_route_martingale_HEM_integral**: with ω computed by the code from the rational function, the drift r − d + ω plus the
    Lévy–Khintchine value at −i (a + σ²/2 + ∫ (e^x − 1) ν(dx)) is r − d -/
theorem cf_route_martingale_HEM_integral (r d a sigma lam p eta1 eta2 : ℚ) (h1 : 1 < eta1) (h2 : 0 < eta2) :
    ((expDrift r d (omega a sigma (hemKappa lam p eta1 eta2 1)) : ℚ) : ℝ) + (a + (sigma : ℝ) * sigma / 2
      + ∫ x : ℝ, (exp x - 1) * hemDensity lam p eta1 eta2 x) = r - d := by
  rw [← hem_xi_is_LK_integral lam p eta1 eta2 h1 h2, hem_kappa_one]
  unfold expDrift omega psiMinusI; push_cast; ring

/-- the pre-fix drift (finding #13) misses the forward rate by σ²/2 under the exact jump law -/
theorem hem_prefix_gap_integral (r d sigma lam p eta1 eta2 : ℚ) (h1 : 1 < eta1) (h2 : 0 < eta2) :
    ((processDriftDirectHEMPrefix r d lam p eta1 eta2 : ℚ) : ℝ) + (sigma : ℝ) * sigma / 2
      + ∫ x : ℝ, (exp x - 1) * hemDensity lam p eta1 eta2 x = r - d + (sigma : ℝ) * sigma / 2 := by
  rw [← hem_xi_is_LK_integral lam p eta1 eta2 h1 h2]
  unfold processDriftDirectHEMPrefix; push_cast; ring

/-! ### Merton -/

theorem mertonKappaArg_cast (mu sigmaJ s : ℚ) :
    ((mertonKappaArg mu sigmaJ s : ℚ) : ℝ) = mu * s + (sigmaJ : ℝ) ^ 2 * (s : ℝ) ^ 2 / 2 := by
  unfold mertonKappaArg; push_cast; ring

/-- **merton_kappa_is_LK_integral**: λ(e^{arg} − 1) with M's rational `mertonKappaArg` (merton.py:183-186) is the
    moment-generating Lévy–Khintchine integral of the Gaussian jump density (merton.py:44-47), every real s -/
theorem merton_kappa_is_LK_integral (lam mu sigmaJ s : ℚ) (hs : 0 < sigmaJ) :
    (lam : ℝ) * (exp ((mertonKappaArg mu sigmaJ s : ℚ) : ℝ) - 1)
      = ∫ x : ℝ, (exp (s * x) - 1) * mertonDensity lam mu sigmaJ x := by
  rw [merton_LK_integral_real lam mu sigmaJ s (by exact_mod_cast hs), mertonKappaArg_cast]
  rfl

theorem merton_LK_integrable (lam mu sigmaJ : ℝ) (hs : 0 < sigmaJ) (z : ℂ) :
    Integrable (fun x : ℝ => (Complex.exp (z * x) - 1) * (mertonDensity lam mu sigmaJ x : ℂ)) :=
  integrable_mertonLK lam mu sigmaJ hs z

/-- **complex argument** (real parameters): every complex z -/
theorem merton_kappa_is_LK_integral_complex (lam mu sigmaJ : ℝ) (hs : 0 < sigmaJ) (z : ℂ) :
    ∫ x : ℝ, (Complex.exp (z * x) - 1) * (mertonDensity lam mu sigmaJ x : ℂ)
      = lam * (Complex.exp (mu * z + sigmaJ ^ 2 * z ^ 2 / 2) - 1) :=
  merton_LK_integral_complex lam mu sigmaJ hs z

/-- `LevyModel.levy_exponent(w)` of the Merton model as coded (levymodel.py:402-410 with merton.py:183-186, x = i w) -/
noncomputable def mertonLevyExponent (a sigma lam mu sigmaJ : ℝ) (w : ℂ) : ℂ :=
  Complex.I * w * a - (w * sigma) ^ 2 / 2
    + lam * (Complex.exp (mu * (Complex.I * w) + (sigmaJ * (Complex.I * w)) ^ 2 / 2) - 1)

/-- **merton_levy_exponent_is_LK**: the coded characteristic exponent is the Lévy–Khintchine formula of the declared triplet
    (a, σ, ν, ZERO), every complex w -/
theorem merton_levy_exponent_is_LK (a sigma lam mu sigmaJ : ℝ) (hs : 0 < sigmaJ) (w : ℂ) :
    mertonLevyExponent a sigma lam mu sigmaJ w
      = Complex.I * w * a - sigma ^ 2 * w ^ 2 / 2
        + ∫ x : ℝ, (Complex.exp (Complex.I * w * x) - 1) * (mertonDensity lam mu sigmaJ x : ℂ) := by
  rw [merton_kappa_is_LK_integral_complex lam mu sigmaJ hs (Complex.I * w)]
  unfold mertonLevyExponent
  ring_nf

/-- merton.py:193-210 over ℝ (`e` of M's `processDriftDirectMerton` is exp(μ_J + σ_J²/2)) -/
noncomputable def processDriftDirectMertonR (r d sigma lam mu sigmaJ : ℝ) : ℝ :=
  r - d - sigma ^ 2 / 2 - lam * (exp (mu + sigmaJ ^ 2 / 2) - 1)

theorem processDriftDirectMerton_cast (r d sigma lam e : ℚ) (mu sigmaJ : ℝ) (he : (e : ℝ) = exp (mu + sigmaJ ^ 2 / 2)) :
    ((processDriftDirectMerton r d sigma lam e : ℚ) : ℝ) = processDriftDirectMertonR r d sigma lam mu sigmaJ := by
  unfold processDriftDirectMerton processDriftDirectMertonR; push_cast; rw [he]; ring

/-- **direct_route_martingale_Merton_integral**: drift of the direct simulation + σ²/2 + ∫ (e^x − 1) ν(dx) = r − d -/
theorem direct_route_martingale_Merton_integral (r d sigma lam mu sigmaJ : ℝ) (hs : 0 < sigmaJ) :
    processDriftDirectMertonR r d sigma lam mu sigmaJ + sigma ^ 2 / 2
      + ∫ x : ℝ, (exp x - 1) * mertonDensity lam mu sigmaJ x = r - d := by
  have h := merton_LK_integral_real lam mu sigmaJ 1 hs
  simp only [one_mul] at h
  rw [h]
  unfold processDriftDirectMertonR mertonKappaR
  simp only [mul_one, one_pow]
  ring

/-- the Rat model's drift, whenever its abstract `e` is the real e^{μ_J + σ_J²/2} -/
theorem direct_route_martingale_Merton_integral_model (r d sigma lam e : ℚ) (mu sigmaJ : ℝ) (hs : 0 < sigmaJ)
    (he : (e : ℝ) = exp (mu + sigmaJ ^ 2 / 2)) :
    ((processDriftDirectMerton r d sigma lam e : ℚ) : ℝ) + (sigma : ℝ) ^ 2 / 2
      + ∫ x : ℝ, (exp x - 1) * mertonDensity lam mu sigmaJ x = r - d := by
  rw [processDriftDirectMerton_cast r d sigma lam e mu sigmaJ he]
  exact direct_route_martingale_Merton_integral r d sigma lam mu sigmaJ hs

/-! ### Black–Scholes: ν = 0 (blackscholes.py:38-63), `levy_exponent_pure_jump = 0` -/

theorem bs_kappa_is_LK_integral (z : ℂ) : ∫ x : ℝ, (Complex.exp (z * x) - 1) * ((0 : ℝ) : ℂ) = 0 := by simp

theorem direct_route_martingale_BS_integral (r d sigma : ℚ) :
    ((processDriftDirectBS r d sigma : ℚ) : ℝ) + (sigma : ℝ) * sigma / 2 + ∫ x : ℝ, (exp x - 1) * (0 : ℝ) = r - d := by
  unfold processDriftDirectBS; simp

/-! ## the coded cumulants are the derivatives at 0 of the Lévy–Khintchine cumulant generating exponent -/

/-- HEM, all orders: n-th derivative at 0 of s ↦ a s + σ²s²/2 + ∫ (e^{sx} − 1) ν(dx) -/
theorem hem_cumulants_all_orders (a sigma lam p eta1 eta2 : ℝ) (h1 : 0 < eta1) (h2 : 0 < eta2) (n : ℕ) :
    iteratedDeriv n (hemCgfLK a sigma lam p eta1 eta2) 0
      = polyD a sigma n 0 + (lam * (Nat.factorial n) * (p * eta1 / eta1 ^ (n + 1) + (-1) ^ n * ((1 - p) * eta2) / eta2 ^ (n + 1))
          - (if n = 0 then lam else 0)) := by
  rw [hem_cgf_iteratedDeriv a sigma lam p eta1 eta2 h1 h2 n 0 (zero_mem_strip eta1 eta2 h1 h2)]
  simp only [hemKappaD, sub_zero, add_zero]

theorem hem_cumulant1_is_derivative (a sigma lam p eta1 eta2 t : ℚ) (h1 : 0 < eta1) (h2 : 0 < eta2) :
    ((hemCumulant1 a lam p eta1 eta2 t : ℚ) : ℝ) = iteratedDeriv 1 (hemCgfLK a sigma lam p eta1 eta2) 0 * t := by
  have e1 : (eta1 : ℝ) ≠ 0 := by exact_mod_cast h1.ne'
  have e2 : (eta2 : ℝ) ≠ 0 := by exact_mod_cast h2.ne'
  rw [hem_cumulants_all_orders a sigma lam p eta1 eta2 (by exact_mod_cast h1) (by exact_mod_cast h2)]
  have hf : ((Nat.factorial 1 : ℕ) : ℝ) = 1 := by norm_num [Nat.factorial]
  rw [hf, if_neg (by norm_num)]
  simp only [hemCumulant1, polyD]; push_cast; field_simp; ring

/-- the same with `deriv` spelled out -/
theorem hem_cumulant1_is_deriv (a sigma lam p eta1 eta2 t : ℚ) (h1 : 0 < eta1) (h2 : 0 < eta2) :
    ((hemCumulant1 a lam p eta1 eta2 t : ℚ) : ℝ) = deriv (hemCgfLK a sigma lam p eta1 eta2) 0 * t := by
  rw [hem_cumulant1_is_derivative a sigma lam p eta1 eta2 t h1 h2, iteratedDeriv_one]

theorem hem_cumulant2_is_derivative (a sigma lam p eta1 eta2 t : ℚ) (h1 : 0 < eta1) (h2 : 0 < eta2) :
    ((hemCumulant2 sigma lam p eta1 eta2 t : ℚ) : ℝ) = iteratedDeriv 2 (hemCgfLK a sigma lam p eta1 eta2) 0 * t := by
  have e1 : (eta1 : ℝ) ≠ 0 := by exact_mod_cast h1.ne'
  have e2 : (eta2 : ℝ) ≠ 0 := by exact_mod_cast h2.ne'
  rw [hem_cumulants_all_orders a sigma lam p eta1 eta2 (by exact_mod_cast h1) (by exact_mod_cast h2)]
  have hf : ((Nat.factorial 2 : ℕ) : ℝ) = 2 := by norm_num [Nat.factorial]
  rw [hf, if_neg (by norm_num)]
  simp only [hemCumulant2, p2, polyD]; push_cast; field_simp; ring

theorem hem_cumulant2_is_deriv (a sigma lam p eta1 eta2 t : ℚ) (h1 : 0 < eta1) (h2 : 0 < eta2) :
    ((hemCumulant2 sigma lam p eta1 eta2 t : ℚ) : ℝ) = deriv (deriv (hemCgfLK a sigma lam p eta1 eta2)) 0 * t := by
  rw [hem_cumulant2_is_derivative a sigma lam p eta1 eta2 t h1 h2, iteratedDeriv_succ, iteratedDeriv_one]

theorem hem_cumulant4_is_derivative (a sigma lam p eta1 eta2 t : ℚ) (h1 : 0 < eta1) (h2 : 0 < eta2) :
    ((hemCumulant4 lam p eta1 eta2 t : ℚ) : ℝ) = iteratedDeriv 4 (hemCgfLK a sigma lam p eta1 eta2) 0 * t := by
  have e1 : (eta1 : ℝ) ≠ 0 := by exact_mod_cast h1.ne'
  have e2 : (eta2 : ℝ) ≠ 0 := by exact_mod_cast h2.ne'
  rw [hem_cumulants_all_orders a sigma lam p eta1 eta2 (by exact_mod_cast h1) (by exact_mod_cast h2)]
  have hf : ((Nat.factorial 4 : ℕ) : ℝ) = 24 := by norm_num [Nat.factorial]
  rw [hf, if_neg (by norm_num)]
  simp only [hemCumulant4, p4, polyD]; push_cast; field_simp; ring

theorem hem_cumulant6_is_derivative (a sigma lam p eta1 eta2 t : ℚ) (h1 : 0 < eta1) (h2 : 0 < eta2) :
    ((hemCumulant6 lam p eta1 eta2 t : ℚ) : ℝ) = iteratedDeriv 6 (hemCgfLK a sigma lam p eta1 eta2) 0 * t := by
  have e1 : (eta1 : ℝ) ≠ 0 := by exact_mod_cast h1.ne'
  have e2 : (eta2 : ℝ) ≠ 0 := by exact_mod_cast h2.ne'
  rw [hem_cumulants_all_orders a sigma lam p eta1 eta2 (by exact_mod_cast h1) (by exact_mod_cast h2)]
  have hf : ((Nat.factorial 6 : ℕ) : ℝ) = 720 := by norm_num [Nat.factorial]
  rw [hf, if_neg (by norm_num)]
  simp only [hemCumulant6, p6, polyD]; push_cast; field_simp; ring

/-- the coded cumulants 1, 2 are drift + mean and σ² + second moment of the jump density itself (C09's integrals) -/
theorem hem_cumulant12_are_moments (a sigma lam p eta1 eta2 t : ℚ) (h1 : 0 < eta1) (h2 : 0 < eta2) :
    ((hemCumulant1 a lam p eta1 eta2 t : ℚ) : ℝ) = (a + ∫ x : ℝ, x ^ 1 * hemDensity lam p eta1 eta2 x) * t ∧
    ((hemCumulant2 sigma lam p eta1 eta2 t : ℚ) : ℝ) = ((sigma : ℝ) ^ 2 + ∫ x : ℝ, x ^ 2 * hemDensity lam p eta1 eta2 x) * t := by
  have h1' : (0 : ℝ) < eta1 := by exact_mod_cast h1
  have h2' : (0 : ℝ) < eta2 := by exact_mod_cast h2
  have hz := zero_mem_strip (eta1 : ℝ) eta2 h1' h2'
  constructor
  · rw [hem_moment_eq_deriv 1 le_rfl (by norm_num) lam p eta1 eta2 h1' h2', hem_cumulant1_is_derivative a sigma lam p eta1 eta2 t h1 h2,
      hem_cgf_iteratedDeriv a sigma lam p eta1 eta2 h1' h2' 1 0 hz]
    simp only [polyD]; ring
  · rw [hem_moment_eq_deriv 2 (by norm_num) le_rfl lam p eta1 eta2 h1' h2', hem_cumulant2_is_derivative a sigma lam p eta1 eta2 t h1 h2,
      hem_cgf_iteratedDeriv a sigma lam p eta1 eta2 h1' h2' 2 0 hz]
    simp only [polyD]

/-- Merton, all orders -/
theorem merton_cumulants_all_orders (a sigma lam mu sigmaJ : ℝ) (hs : 0 < sigmaJ) (n : ℕ) (hn : n ≠ 0) :
    iteratedDeriv n (mertonCgfLK a sigma lam mu sigmaJ) 0
      = polyD a sigma n 0 + lam * (mertonP mu (sigmaJ ^ 2) n).eval 0 := by
  rw [merton_cgf_iteratedDeriv a sigma lam mu sigmaJ hs n 0, mertonKappaD_at_zero lam mu sigmaJ n hn]

theorem merton_cumulant1_is_derivative (a sigma lam mu sigmaJ t : ℚ) (hs : 0 < sigmaJ) :
    ((mertonCumulant1 a lam mu t : ℚ) : ℝ) = iteratedDeriv 1 (mertonCgfLK a sigma lam mu sigmaJ) 0 * t := by
  rw [merton_cumulants_all_orders a sigma lam mu sigmaJ (by exact_mod_cast hs) 1 (by norm_num), mertonP_one]
  simp only [mertonCumulant1, polyD]; push_cast; ring

theorem merton_cumulant2_is_derivative (a sigma lam mu sigmaJ t : ℚ) (hs : 0 < sigmaJ) :
    ((mertonCumulant2 sigma lam mu sigmaJ t : ℚ) : ℝ) = iteratedDeriv 2 (mertonCgfLK a sigma lam mu sigmaJ) 0 * t := by
  rw [merton_cumulants_all_orders a sigma lam mu sigmaJ (by exact_mod_cast hs) 2 (by norm_num), mertonP_two]
  simp only [mertonCumulant2, p2, polyD]; push_cast; ring

theorem merton_cumulant4_is_derivative (a sigma lam mu sigmaJ t : ℚ) (hs : 0 < sigmaJ) :
    ((mertonCumulant4 lam mu sigmaJ t : ℚ) : ℝ) = iteratedDeriv 4 (mertonCgfLK a sigma lam mu sigmaJ) 0 * t := by
  rw [merton_cumulants_all_orders a sigma lam mu sigmaJ (by exact_mod_cast hs) 4 (by norm_num), mertonP_four]
  simp only [mertonCumulant4, p2, p4, polyD]; push_cast; ring

theorem merton_cumulant6_is_derivative (a sigma lam mu sigmaJ t : ℚ) (hs : 0 < sigmaJ) :
    ((mertonCumulant6 lam mu sigmaJ t : ℚ) : ℝ) = iteratedDeriv 6 (mertonCgfLK a sigma lam mu sigmaJ) 0 * t := by
  rw [merton_cumulants_all_orders a sigma lam mu sigmaJ (by exact_mod_cast hs) 6 (by norm_num), mertonP_six]
  simp only [mertonCumulant6, p2, p4, p6, polyD]; push_cast; ring

/-- Black–Scholes (ν = 0): cumulants 1, 2 are a, σ²; every higher one is 0 (blackscholes.py:66-88) -/
theorem bs_cumulants_are_derivatives (a sigma t : ℚ) (n : ℕ) :
    iteratedDeriv n (fun s : ℝ => (a : ℝ) * s + (sigma : ℝ) ^ 2 * s ^ 2 / 2 + ∫ x : ℝ, (exp (s * x) - 1) * (0 : ℝ)) 0 * (t : ℝ)
      = match n with
        | 0 => 0
        | 1 => ((bsCumulant1 a t : ℚ) : ℝ)
        | 2 => ((bsCumulant2 sigma t : ℚ) : ℝ)
        | _ => 0 := by
  have h := iteratedDeriv_of_chain isOpen_univ (polyD a sigma) (fun k v _ => hasDerivAt_polyD a sigma k v)
    (fun s : ℝ => (a : ℝ) * s + (sigma : ℝ) ^ 2 * s ^ 2 / 2 + ∫ x : ℝ, (exp (s * x) - 1) * (0 : ℝ))
    (fun v _ => by simp [polyD]) n 0 (Set.mem_univ _)
  rw [h]
  match n with
  | 0 => simp [polyD]
  | 1 => simp [polyD, bsCumulant1]
  | 2 => simp only [polyD, bsCumulant2]; push_cast; ring
  | (k + 3) => simp [polyD]

/-- **hem_cgf_model_is_LK**: M's rational `hemCgf` (= the code's `levy_exponent(-i s)`, Drivers/C10 `hemcgf`) is the
    Lévy–Khintchine cumulant generating exponent whose derivatives at 0 are the coded cumulants -/
theorem hem_cgf_model_is_LK (a sigma lam p eta1 eta2 s : ℚ) (h1 : 0 < eta1) (h2 : 0 < eta2) (hs : -eta2 < s ∧ s < eta1) :
    ((hemCgf a sigma lam p eta1 eta2 s : ℚ) : ℝ) = hemCgfLK a sigma lam p eta1 eta2 s := by
  unfold hemCgfLK
  rw [← hem_kappa_is_LK_integral lam p eta1 eta2 s h1 h2 hs]
  unfold hemCgf cgfOf; push_cast; ring

/-- Merton: `cgfOf a σ s 0` + λ(e^{arg} − 1) with M's rational `arg` is the Lévy–Khintchine cumulant generating exponent -/
theorem merton_cgf_model_is_LK (a sigma lam mu sigmaJ s : ℚ) (hs : 0 < sigmaJ) :
    ((cgfOf a sigma s 0 : ℚ) : ℝ) + (lam : ℝ) * (exp ((mertonKappaArg mu sigmaJ s : ℚ) : ℝ) - 1)
      = mertonCgfLK a sigma lam mu sigmaJ s := by
  unfold mertonCgfLK
  rw [← merton_kappa_is_LK_integral lam mu sigmaJ s hs]
  unfold cgfOf; push_cast; ring

/-! ### what the driver prints for a complex argument is the Lévy–Khintchine formula -/

/-- **hem_levy_exponent_model_is_LK**: M's exact rational real / imaginary parts of `levy_exponent(u + i v)` (the numbers
    Drivers/C10 `levyexp hem` prints and harness/props/c10.py compares with the code) are the Lévy–Khintchine formula of the
    declared triplet (a, σ, ν, ZERO) with the model's own density, for all rational parameters and −η₂ < −v < η₁ -/
theorem hem_levy_exponent_model_is_LK (a sigma lam p eta1 eta2 u v : ℚ) (h1 : 0 < eta1) (h2 : 0 < eta2)
    (hv : -eta2 < -v ∧ -v < eta1) :
    (((levyExpRe a sigma u v (hemKappaRe lam p eta1 eta2 (-v) u) : ℚ) : ℝ) : ℂ)
      + ((levyExpIm a sigma u v (hemKappaIm lam p eta1 eta2 (-v) u) : ℚ) : ℝ) * Complex.I
    = Complex.I * ((u : ℝ) + (v : ℝ) * Complex.I) * ((a : ℝ) : ℂ)
        - ((sigma : ℝ) : ℂ) ^ 2 * ((u : ℝ) + (v : ℝ) * Complex.I) ^ 2 / 2
        + ∫ x : ℝ, (Complex.exp (Complex.I * ((u : ℝ) + (v : ℝ) * Complex.I) * x) - 1) * (hemDensity lam p eta1 eta2 x : ℂ) := by
  have h1' : (0 : ℝ) < eta1 := by exact_mod_cast h1
  have h2' : (0 : ℝ) < eta2 := by exact_mod_cast h2
  have hv1 : -(eta2 : ℝ) < -(v : ℝ) := by exact_mod_cast hv.1
  have hv2 : -(v : ℝ) < eta1 := by exact_mod_cast hv.2
  have n1 : ((eta1 : ℝ) - ((-v : ℚ) : ℝ)) ^ 2 + (u : ℝ) ^ 2 ≠ 0 := by
    have : 0 < (eta1 : ℝ) - ((-v : ℚ) : ℝ) := by push_cast; linarith
    positivity
  have n2 : ((eta2 : ℝ) + ((-v : ℚ) : ℝ)) ^ 2 + (u : ℝ) ^ 2 ≠ 0 := by
    have : 0 < (eta2 : ℝ) + ((-v : ℚ) : ℝ) := by push_cast; linarith
    positivity
  have hk := hemKappaC_re_im lam p eta1 eta2 (-v) u n1 n2
  rw [← I_mul_w u v] at hk
  rw [← levyExp_re_im a sigma u v _ _ _ hk]
  have hw : -(eta2 : ℝ) < -((u : ℝ) + (v : ℝ) * Complex.I).im ∧ -((u : ℝ) + (v : ℝ) * Complex.I).im < eta1 := by
    simp only [Complex.add_im, Complex.ofReal_im, Complex.mul_im, Complex.ofReal_re, Complex.I_im, Complex.I_re,
      mul_one, mul_zero, add_zero, zero_add]
    exact ⟨hv1, hv2⟩
  have h := hem_levy_exponent_is_LK a sigma lam p eta1 eta2 ((u : ℝ) + (v : ℝ) * Complex.I) h1' h2' hw
  unfold hemLevyExponent at h
  rw [h]

/-- **merton_levy_exponent_model_is_LK**: with M's rational `mertonArgRe/Im` (the argument of the single `exp`), the coded
    `levy_exponent(u + i v)` of Merton is the Lévy–Khintchine formula of (a, σ, ν, ZERO), every rational u, v -/
theorem merton_levy_exponent_model_is_LK (a sigma lam mu sigmaJ u v : ℚ) (hs : 0 < sigmaJ) :
    Complex.I * ((u : ℝ) + (v : ℝ) * Complex.I) * ((a : ℝ) : ℂ)
        - (((u : ℝ) + (v : ℝ) * Complex.I) * ((sigma : ℝ) : ℂ)) ^ 2 / 2
        + ((lam : ℝ) : ℂ) * (Complex.exp (((mertonArgRe mu sigmaJ (-v) u : ℚ) : ℝ) + ((mertonArgIm mu sigmaJ (-v) u : ℚ) : ℝ) * Complex.I) - 1)
    = Complex.I * ((u : ℝ) + (v : ℝ) * Complex.I) * ((a : ℝ) : ℂ)
        - ((sigma : ℝ) : ℂ) ^ 2 * ((u : ℝ) + (v : ℝ) * Complex.I) ^ 2 / 2
        + ∫ x : ℝ, (Complex.exp (Complex.I * ((u : ℝ) + (v : ℝ) * Complex.I) * x) - 1) * (mertonDensity lam mu sigmaJ x : ℂ) := by
  have hs' : (0 : ℝ) < sigmaJ := by exact_mod_cast hs
  rw [← mertonArg_re_im mu sigmaJ (-v) u, ← I_mul_w u v,
    merton_kappa_is_LK_integral_complex lam mu sigmaJ hs' (Complex.I * ((u : ℝ) + (v : ℝ) * Complex.I))]
  ring

/-! ### non-vacuity (the hypotheses are satisfiable: default HEM / Merton parameters) -/

example : ((hemKappa 3 (3/5) 20 25 1 : ℚ) : ℝ)
    = ∫ x : ℝ, (exp (((1 : ℚ) : ℝ) * x) - 1) * hemDensity ((3 : ℚ) : ℝ) ((3/5 : ℚ) : ℝ) ((20 : ℚ) : ℝ) ((25 : ℚ) : ℝ) x :=
  hem_kappa_is_LK_integral 3 (3/5) 20 25 1 (by norm_num) (by norm_num) (by norm_num)

example : hemKappa 3 (3/5) 20 25 1 = 12 / 247 := by decide +kernel

example : ((processDriftDirectHEM (1/50) 0 (1/20) 3 (3/5) 20 25 : ℚ) : ℝ) + (((1/20 : ℚ)) : ℝ) * ((1/20 : ℚ) : ℝ) / 2
    + ∫ x : ℝ, (exp x - 1) * hemDensity ((3 : ℚ) : ℝ) ((3/5 : ℚ) : ℝ) ((20 : ℚ) : ℝ) ((25 : ℚ) : ℝ) x
      = ((1/50 : ℚ) : ℝ) - ((0 : ℚ) : ℝ) :=
  direct_route_martingale_HEM_integral (1/50) 0 (1/20) 3 (3/5) 20 25 (by norm_num) (by norm_num)

example : (1 : ℝ) * (exp ((mertonKappaArg (-1/2) 1 1 : ℚ) : ℝ) - 1) = 0 := by
  have : mertonKappaArg (-1/2) 1 1 = 0 := by decide +kernel
  rw [this]; simp

/-- the Rat model's Merton drift with e = 1 is a genuine instance (μ_J = −1/2, σ_J = 1) -/
example : ((processDriftDirectMerton (1/50) 0 (1/5) 2 1 : ℚ) : ℝ) + (((1/5 : ℚ)) : ℝ) ^ 2 / 2
    + ∫ x : ℝ, (exp x - 1) * mertonDensity ((2 : ℚ) : ℝ) (-1/2) 1 x = ((1/50 : ℚ) : ℝ) - ((0 : ℚ) : ℝ) :=
  direct_route_martingale_Merton_integral_model (1/50) 0 (1/5) 2 1 (-1/2) 1 (by norm_num) (by norm_num)

end Rpylib.Triplet
