/-
C10 — Exponent, triplet, cumulants and simulation drifts describe one same process.      Property theorems only.
Model: RpylibModel/Model/Triplet.lean.  Proved: the drift conversion between representations is path-independent and
reversible (every measure, finite or infinite variation); the martingale algebra of the three pricing routes.
NOT proved (compared numerically by harness/props/c10.py): exponent = Lévy–Khintchine integral of the density,
cumulants = derivatives of the exponent, κ_X(1) as an integral of the density.
-/
import RpylibModel.Model.Triplet
import Mathlib.Tactic.Linarith
import Mathlib.Tactic.Ring
import Mathlib.Tactic.FieldSimp
import Mathlib.Algebra.Order.Field.Rat

namespace Rpylib.Triplet

/-! ### representation changes -/

/-- one `set_representation`: new drift = old drift − offset(old representation) + offset(new representation) -/
theorem setRep_drift (m : Meas) (t : Trip) (r : Rep) :
    (setRep m t r).a = t.a - cRep m t.rep + cRep m r ∧ (setRep m t r).rep = r := by
  obtain ⟨a, rep⟩ := t
  cases hf : m.fv <;> cases rep <;> cases r <;>
    simp [setRep, driftMapping, canonicalDrift, zeroDrift, centerDrift, tildeDrift, cRep, hf] <;> ring

/-- the conserved quantity of a walk: the canonical (ONEONE) drift -/
theorem walk_invariant (m : Meas) (rs : List Rep) (t : Trip) :
    (walk m t rs).a - cRep m (walk m t rs).rep = t.a - cRep m t.rep := by
  induction rs generalizing t with
  | nil => rfl
  | cons r rest ih =>
    have h := setRep_drift m t r
    simp only [walk, List.foldl_cons] at ih ⊢
    rw [ih (setRep m t r), h.1, h.2]; ring

theorem walk_rep (m : Meas) (rs : List Rep) (r : Rep) (t : Trip) : (walk m t (rs ++ [r])).rep = r := by
  simp only [walk, List.foldl_append, List.foldl_cons, List.foldl_nil]
  exact (setRep_drift m _ r).2

/-- **the final drift is a function of (original drift, original representation, last representation) only** -/
theorem walk_drift (m : Meas) (rs : List Rep) (r : Rep) (t : Trip) :
    (walk m t (rs ++ [r])).a = t.a - cRep m t.rep + cRep m r := by
  have h := walk_invariant m (rs ++ [r]) t
  rw [walk_rep] at h
  linarith

/-- **setRep_path_independent**: two histories of representation changes ending in the same representation give the
    same triplet drift — for every measure, finite or infinite variation -/
theorem setRep_path_independent (m : Meas) (rs₁ rs₂ : List Rep) (r : Rep) (t : Trip) :
    walk m t (rs₁ ++ [r]) = walk m t (rs₂ ++ [r]) := by
  have e1 : ∀ x y : Trip, x.a = y.a → x.rep = y.rep → x = y := by
    intro x y h1 h2; cases x; cases y; simp_all
  exact e1 _ _ (by rw [walk_drift, walk_drift]) (by rw [walk_rep, walk_rep])

/-- **setRep_reversible**: every history that ends in the original representation returns the original drift -/
theorem setRep_reversible (m : Meas) (rs : List Rep) (t : Trip) : walk m t (rs ++ [t.rep]) = t := by
  have e1 : ∀ x y : Trip, x.a = y.a → x.rep = y.rep → x = y := by
    intro x y h1 h2; cases x; cases y; simp_all
  exact e1 _ _ (by rw [walk_drift]; ring) (walk_rep m rs t.rep t)

/-- the two flags spelled out -/
theorem setRep_reversible_finite_variation (mid tails : Rat) (rs : List Rep) (t : Trip) :
    walk ⟨mid, tails, true⟩ t (rs ++ [t.rep]) = t := setRep_reversible _ rs t
theorem setRep_reversible_infinite_variation (mid tails : Rat) (rs : List Rep) (t : Trip) :
    walk ⟨mid, tails, false⟩ t (rs ++ [t.rep]) = t := setRep_reversible _ rs t

/-- the exponent does not depend on the representation: drift + jump part of ψ(−i) is conserved by `setRep` -/
theorem exponent_rep_invariant (m : Meas) (j11 : Rat) (t : Trip) (r : Rep) :
    (setRep m t r).a + jumpExp m j11 (setRep m t r).rep = t.a + jumpExp m j11 t.rep := by
  have h := setRep_drift m t r
  rw [h.1, h.2]; unfold jumpExp; ring

/-- **the exponent is a function of the ORIGINAL drift and representation only**: along every history of representation
    changes on one triplet, current drift + jump part in the current representation is what it was at construction
    (this is why `levy_exponent` may keep `_original_drift` together with its hard-wired native jump exponent) -/
theorem exponent_walk_invariant (m : Meas) (j11 : Rat) (rs : List Rep) (t : Trip) :
    (walk m t rs).a + jumpExp m j11 (walk m t rs).rep = t.a + jumpExp m j11 t.rep := by
  have h := walk_invariant m rs t
  unfold jumpExp; linarith

/-- negation witness (regression "levy_exponent reads the CURRENT triplet drift but keeps the native jump exponent"):
    after one conversion the value differs from the exponent of the process by the moved first-moment integral -/
theorem exponent_current_drift_native_jump_shifts (m : Meas) (j11 : Rat) (t : Trip) (r : Rep) :
    (setRep m t r).a + jumpExp m j11 t.rep = (t.a + jumpExp m j11 t.rep) + (cRep m r - cRep m t.rep) := by
  rw [(setRep_drift m t r).1]; ring

theorem exponent_current_drift_native_jump_wrong :
    ∃ (m : Meas) (j11 : Rat) (t : Trip) (r : Rep), (setRep m t r).a + jumpExp m j11 t.rep ≠ t.a + jumpExp m j11 t.rep := by
  refine ⟨⟨1/3, 1/7, true⟩, 0, ⟨0, .zero⟩, .center, ?_⟩
  decide +kernel

/-- negation witness (mutation "CENTER conversion sign flipped"): the round trip ZERO → CENTER → ZERO no longer returns -/
theorem center_flipped_not_reversible :
    ∃ (m : Meas) (t : Trip), setRepFlipped m (setRepFlipped m t .center) t.rep ≠ t := by
  refine ⟨⟨0, 1, true⟩, ⟨0, .zero⟩, ?_⟩
  decide +kernel

/-! ### martingale algebra of the three routes -/

/-- **cf_route_martingale**: with ω = −ψ(−i), the drift r − d + ω plus ψ(−i) is r − d -/
theorem cf_route_martingale (r d a sigma kappa1 : Rat) :
    expDrift r d (omega a sigma kappa1) + psiMinusI a sigma kappa1 = r - d := by
  unfold expDrift omega; ring

/-- HEM: the coded pure-jump exponent at 1 is λ·ξ with the cached `_xi` -/
theorem hem_kappa_one (lam p eta1 eta2 : Rat) : hemKappa lam p eta1 eta2 1 = lam * hemXi p eta1 eta2 := rfl

theorem direct_route_martingale_BS (r d sigma : Rat) :
    processDriftDirectBS r d sigma + sigma * sigma / 2 + 0 = r - d := by
  unfold processDriftDirectBS; ring

theorem direct_route_martingale_Merton (r d sigma lam e : Rat) :
    processDriftDirectMerton r d sigma lam e + sigma * sigma / 2 + mertonKappa1 lam e = r - d := by
  unfold processDriftDirectMerton mertonKappa1; ring

theorem direct_route_martingale_HEM (r d sigma lam p eta1 eta2 : Rat) :
    processDriftDirectHEM r d sigma lam p eta1 eta2 + sigma * sigma / 2 + hemKappa lam p eta1 eta2 1 = r - d := by
  rw [hem_kappa_one]; unfold processDriftDirectHEM; ring

/-- the direct-simulation drift is the cf-route drift plus the triplet drift of the ZERO representation (uncompensated
    compound-Poisson jumps are simulated): both routes simulate the same process -/
theorem direct_eq_cf_plus_zero_drift_HEM (r d sigma lam p eta1 eta2 : Rat) :
    processDriftDirectHEM r d sigma lam p eta1 eta2 =
      expDrift r d (omega (hemTripletA lam p eta1 eta2) sigma (hemKappa lam p eta1 eta2 1)) + hemTripletA lam p eta1 eta2 := by
  rw [hem_kappa_one]; unfold processDriftDirectHEM expDrift omega psiMinusI; ring

theorem direct_eq_cf_plus_zero_drift_Merton (r d sigma lam muJ e : Rat) :
    processDriftDirectMerton r d sigma lam e =
      expDrift r d (omega (mertonTripletA lam muJ) sigma (mertonKappa1 lam e)) + mertonTripletA lam muJ := by
  unfold processDriftDirectMerton expDrift omega psiMinusI mertonKappa1; ring

theorem direct_eq_cf_plus_zero_drift_BS (r d sigma : Rat) :
    processDriftDirectBS r d sigma = expDrift r d (omega 0 sigma 0) + 0 := by
  unfold processDriftDirectBS expDrift omega psiMinusI; ring

/-- negation witness (finding #13, fixed by 203f837): the pre-fix HEM drift overshoots by σ²/2 … -/
theorem hem_prefix_gap (r d sigma lam p eta1 eta2 : Rat) :
    processDriftDirectHEMPrefix r d lam p eta1 eta2 + sigma * sigma / 2 + hemKappa lam p eta1 eta2 1
      = r - d + sigma * sigma / 2 := by
  rw [hem_kappa_one]; unfold processDriftDirectHEMPrefix; ring

/-- … e.g. forward rate 0.02125 instead of 0.02 with the default parameters (σ = 0.05) -/
theorem hem_prefix_not_martingale :
    ∃ r d sigma lam p eta1 eta2 : Rat,
      processDriftDirectHEMPrefix r d lam p eta1 eta2 + sigma * sigma / 2 + hemKappa lam p eta1 eta2 1 ≠ r - d := by
  refine ⟨1/50, 0, 1/20, 3, 3/5, 20, 25, ?_⟩
  rw [hem_prefix_gap]; norm_num

/-- Markov-chain route, bookkeeping: the chain's drift plus its mean jump per unit time is the model drift plus the
    tilde drift plus the compensated first moment -/
theorem ctmc_bookkeeping (modelDrift aTilde muTilde muH : Rat) :
    ctmcDrift modelDrift aTilde muTilde muH + muH = modelDrift + aTilde + muTilde := by
  unfold ctmcDrift; ring

/-- **ctmc_route_martingale**: the chain is built on the triplet converted to TILDE; whatever the original
    representation, drift() + a_tilde + σ²/2 + ∫(e^x − 1 − x h_tilde)ν = r − d when ω was computed from the original triplet -/
theorem ctmc_route_martingale (m : Meas) (r d sigma j11 : Rat) (t : Trip) :
    expDrift r d (omega t.a sigma (jumpExp m j11 t.rep)) + (setRep m t .tilde).a + sigma * sigma / 2
      + jumpExp m j11 .tilde = r - d := by
  have h := exponent_rep_invariant m j11 t .tilde
  rw [(setRep_drift m t .tilde).2] at h
  unfold expDrift omega psiMinusI
  linarith

/-! ### non-vacuity -/

example : walk ⟨1/3, -1/7, true⟩ ⟨5, .zero⟩ [.center, .oneone, .tilde, .center] = ⟨5 + 1/3 - 1/7, .center⟩ := by
  decide +kernel

example : (setRep ⟨1/3, -1/7, false⟩ ⟨5, .center⟩ .tilde).a = 5 + 1/7 := by decide +kernel

end Rpylib.Triplet
