/-
Helper lemmas for C02, alias sampler: the draw function on arbitrary tables and its cells.
-/
import RpylibModel.Model.Samplers.Alias
import Mathlib.Tactic.Linarith
import Mathlib.Tactic.Ring
import Mathlib.Tactic.FieldSimp
import Mathlib.Algebra.Order.Field.Rat

namespace Rpylib.Alias

theorem floor_toNat_eq {r : Rat} {x : Nat} (h1 : (x : Rat) ≤ r) (h2 : r < (x : Rat) + 1) : r.floor.toNat = x := by
  have a : (x : Int) ≤ r.floor := Rat.le_floor_iff.mpr (by exact_mod_cast h1)
  have b : r.floor < (x : Int) + 1 := Rat.floor_lt_iff.mpr (by push_cast; exact h2)
  omega

theorem floor_toNat_bounds {r : Rat} (h0 : 0 ≤ r) : (r.floor.toNat : Rat) ≤ r ∧ r < (r.floor.toNat : Rat) + 1 := by
  have hf : (0 : Int) ≤ r.floor := Rat.le_floor_iff.mpr (by exact_mod_cast h0)
  have hc : ((r.floor.toNat : Nat) : Rat) = ((r.floor : Int) : Rat) := by
    have : ((r.floor.toNat : Nat) : Int) = r.floor := Int.toNat_of_nonneg hf
    exact_mod_cast congrArg (fun z : Int => (z : Rat)) this
  rw [hc]
  refine ⟨Rat.floor_le r, ?_⟩
  have := Rat.lt_floor_add_one r
  push_cast at this; exact this

theorem clamp01_bounds (x : Rat) : 0 ≤ clamp01 x ∧ clamp01 x ≤ 1 := by
  unfold clamp01; split_ifs <;> constructor <;> linarith

/-- for `v ∈ [0,1)` the test `v < q` is the test `v < clamp01 q` -/
theorem lt_clamp_iff {v q : Rat} (h0 : 0 ≤ v) (h1 : v < 1) : v < clamp01 q ↔ v < q := by
  unfold clamp01; split_ifs <;> constructor <;> intro h <;> linarith

/-- the column of `u` -/
def col (t : Tables) (u : Rat) : Nat := ((t.K : Rat) * u).floor.toNat

theorem col_bounds (t : Tables) (hK : 0 < t.K) {u : Rat} (h0 : 0 ≤ u) (h1 : u < 1) :
    col t u < t.K ∧ (col t u : Rat) / t.K ≤ u ∧ u < ((col t u : Rat) + 1) / t.K := by
  have hKq : (0 : Rat) < t.K := by exact_mod_cast hK
  have hb := floor_toNat_bounds (r := (t.K : Rat) * u) (mul_nonneg hKq.le h0)
  refine ⟨?_, ?_, ?_⟩
  · have : ((col t u : Nat) : Rat) < t.K := by
      have : (t.K : Rat) * u < t.K := by nlinarith
      exact lt_of_le_of_lt hb.1 this
    exact_mod_cast this
  · rw [div_le_iff₀ hKq]; unfold col; linarith [hb.1]
  · rw [lt_div_iff₀ hKq]; unfold col; linarith [hb.2]

theorem draw_eq (t : Tables) (u : Rat) :
    draw t u = if (t.K : Rat) * u - (col t u : Rat) < t.q (col t u) then col t u else t.J (col t u) := rfl

/-- a `u` inside column `x` has `col t u = x` -/
theorem col_of_mem (t : Tables) (hK : 0 < t.K) {u : Rat} {x : Nat} (h1 : (x : Rat) / t.K ≤ u)
    (h2 : u < ((x : Rat) + 1) / t.K) : col t u = x := by
  have hKq : (0 : Rat) < t.K := by exact_mod_cast hK
  apply floor_toNat_eq
  · rw [div_le_iff₀ hKq] at h1; linarith
  · rw [lt_div_iff₀ hKq] at h2; linarith

/-- total length of the cells of `k` contributed by a list of columns -/
theorem lengthOf_columns (K : Nat) (q : Nat → Rat) (J : Nat → Nat) (k : Nat) (l : List Nat) :
    lengthOf (l.flatMap (fun x =>
        [(x, (x : Rat) / K, ((x : Rat) + clamp01 (q x)) / K), (J x, ((x : Rat) + clamp01 (q x)) / K, ((x : Rat) + 1) / K)])) k
      = (l.map (fun x => (if x = k then clamp01 (q x) else 0) + (if J x = k then 1 - clamp01 (q x) else 0))).sum / K := by
  induction l with
  | nil => simp [lengthOf]
  | cons x xs ih =>
    unfold lengthOf at ih ⊢
    simp only [List.flatMap_cons, List.map_append, List.sum_append, List.map_cons, List.map_nil, List.sum_cons,
      List.sum_nil]
    rw [ih]
    have e1 : ((x : Rat) + clamp01 (q x)) / K - (x : Rat) / K = clamp01 (q x) / K := by rw [← sub_div]; ring
    have e2 : ((x : Rat) + 1) / K - ((x : Rat) + clamp01 (q x)) / K = (1 - clamp01 (q x)) / K := by rw [← sub_div]; ring
    simp only [e1, e2]
    split_ifs <;> ring

end Rpylib.Alias

namespace Rpylib.Alias

theorem list_sum_nonneg : ∀ (l : List Rat), (∀ x ∈ l, 0 ≤ x) → 0 ≤ l.sum
  | [], _ => by simp
  | a :: l, h => by
    have := list_sum_nonneg l (fun x hx => h x (by simp [hx]))
    have := h a (by simp)
    simp only [List.sum_cons]; linarith

theorem sum_eq_zero_of_nonneg : ∀ (l : List Rat), (∀ x ∈ l, 0 ≤ x) → l.sum = 0 → ∀ x ∈ l, x = 0
  | [], _, _ => by simp
  | a :: l, h, hs => by
    have ha : 0 ≤ a := h a (by simp)
    have hl : 0 ≤ l.sum := list_sum_nonneg l (fun x hx => h x (by simp [hx]))
    simp only [List.sum_cons] at hs
    have ha0 : a = 0 := by linarith
    have hl0 : l.sum = 0 := by linarith
    intro x hx
    rcases List.mem_cons.mp hx with rfl | hx
    · exact ha0
    · exact sum_eq_zero_of_nonneg l (fun y hy => h y (by simp [hy])) hl0 x hx

/-- generic: if all cells have `lo ≤ hi` and the cells of `k` have total length 0, no `u` lies in a cell of `k` -/
theorem no_cell_of_length_zero (cs : List (Nat × Rat × Rat)) (k : Nat) (hcs : ∀ c ∈ cs, c.2.1 ≤ c.2.2)
    (h0 : lengthOf cs k = 0) (u : Rat) : ¬ ∃ c ∈ cs, c.1 = k ∧ c.2.1 ≤ u ∧ u < c.2.2 := by
  rintro ⟨c, hc, hk, h1, h2⟩
  have := sum_eq_zero_of_nonneg _ (by
    intro x hx
    obtain ⟨c', hc', rfl⟩ := List.mem_map.mp hx
    have := hcs c' hc'
    split_ifs <;> linarith) h0 (c.2.2 - c.2.1) (List.mem_map.mpr ⟨c, hc, by simp [hk]⟩)
  linarith

end Rpylib.Alias
