/-
C16 — the discount curve over an arbitrary linearly ordered field `K` (in particular the real numbers).
`dfCurveK` is the model's `dfCurve` (RpylibModel/Model/Sde.lean) with `Rat` replaced by `K`; at `K = ℚ` it *is*
`dfCurve` (theorem `dfCurveK_rat`).  The Lipschitz bound and the ε-δ continuity statement are proved for every such
field, hence over ℝ.
-/
import RpylibModel.Model.Sde
import Mathlib.Tactic.Linarith
import Mathlib.Tactic.Ring
import Mathlib.Tactic.FieldSimp
import Mathlib.Algebra.Order.Field.Basic
import Mathlib.Algebra.Order.Field.Rat
import Mathlib.Data.Real.Basic

namespace Rpylib.Sde

set_option linter.unusedSectionVars false

section generic
variable {K : Type} [Field K] [LinearOrder K] [IsStrictOrderedRing K]

def prodToK : Nat → (Nat → K) → K
  | 0, _ => 1
  | n + 1, f => prodToK n f * f n

def searchLeftK : List K → K → Nat
  | [], _ => 0
  | T :: r, t => if T < t then searchLeftK r t + 1 else 0

def auxAtK (x T : Nat → K) (pos : Nat) (t : K) : K :=
  if pos = 0 then 1 + x 0 * t
  else (1 + x 0 * T 0) * prodToK (pos - 1) (fun k => 1 + x k * (T (k + 1) - T k)) * (1 + x (pos - 1) * (t - T (pos - 1)))

def nthK (l : List K) (i : Nat) : K := l.getD i 0

/-- `model.df(t)` with times, rates and tenors in `K` -/
def dfCurveK (x0 tenors : List K) (t : K) : K :=
  1 / auxAtK (nthK x0) (nthK tenors) (searchLeftK tenors t) t

theorem prodToK_succ (n : Nat) (f : Nat → K) : prodToK (n + 1) f = prodToK n f * f n := rfl

theorem prodToK_ge_one (n : Nat) (f : Nat → K) (h : ∀ i, i < n → 1 ≤ f i) : 1 ≤ prodToK n f := by
  induction n with
  | zero => simp [prodToK]
  | succ n ih =>
    rw [prodToK_succ]
    have h1 := ih (fun i hi => h i (by omega))
    have h2 := h n (by omega)
    nlinarith

theorem auxAtK_succ (x T : Nat → K) (q : Nat) (t : K) :
    auxAtK x T (q + 1) t
      = (1 + x 0 * T 0) * prodToK q (fun k => 1 + x k * (T (k + 1) - T k)) * (1 + x q * (t - T q)) := by
  simp [auxAtK]

theorem auxK_continuous_at_tenors (x T : Nat → K) (p : Nat) : auxAtK x T (p + 1) (T p) = auxAtK x T p (T p) := by
  cases p with
  | zero => simp [auxAtK, prodToK]
  | succ q => rw [auxAtK_succ, auxAtK_succ, prodToK_succ]; ring

theorem auxK_affine_on_piece (x T : Nat → K) (p : Nat) (s t : K) :
    auxAtK x T p t = auxAtK x T p s
      + (if p = 0 then x 0
         else (1 + x 0 * T 0) * prodToK (p - 1) (fun k => 1 + x k * (T (k + 1) - T k)) * x (p - 1)) * (t - s) := by
  cases p with
  | zero => simp [auxAtK]; ring
  | succ q => rw [auxAtK_succ, auxAtK_succ]; simp; ring

structure CurveK (x T : Nat → K) (n : Nat) : Prop where
  rate_nonneg : ∀ i, 0 ≤ x i
  first_nonneg : 0 ≤ T 0
  sorted : ∀ i, i + 1 < n → T i ≤ T (i + 1)

theorem headK_ge_one {x T : Nat → K} {n : Nat} (h : CurveK x T n) (q : Nat) (hq : q + 1 ≤ n) :
    1 ≤ (1 + x 0 * T 0) * prodToK q (fun k => 1 + x k * (T (k + 1) - T k)) := by
  have h0 : 1 ≤ 1 + x 0 * T 0 := by have := mul_nonneg (h.rate_nonneg 0) h.first_nonneg; linarith
  have h1 : 1 ≤ prodToK q (fun k => 1 + x k * (T (k + 1) - T k)) := by
    apply prodToK_ge_one; intro i hi
    have := h.sorted i (by omega)
    have := mul_nonneg (h.rate_nonneg i) (sub_nonneg.mpr this); linarith
  nlinarith

theorem auxAtK_mono_t {x T : Nat → K} {n : Nat} (h : CurveK x T n) (p : Nat) (hp : p ≤ n) (s t : K) (hst : s ≤ t) :
    auxAtK x T p s ≤ auxAtK x T p t := by
  cases p with
  | zero =>
    simp only [auxAtK, if_true]
    have := mul_le_mul_of_nonneg_left hst (h.rate_nonneg 0); linarith
  | succ q =>
    rw [auxAtK_succ, auxAtK_succ]
    have hA := headK_ge_one h q hp
    have hx := h.rate_nonneg q
    have : x q * (s - T q) ≤ x q * (t - T q) := mul_le_mul_of_nonneg_left (by linarith) hx
    apply mul_le_mul_of_nonneg_left (by linarith) (by linarith)

theorem auxAtK_ge_one {x T : Nat → K} {n : Nat} (h : CurveK x T n) (p : Nat) (hp : p ≤ n) (t : K) (ht : 0 ≤ t)
    (hlt : ∀ i, i < p → T i ≤ t) : 1 ≤ auxAtK x T p t := by
  cases p with
  | zero =>
    simp only [auxAtK, if_true]
    have := mul_nonneg (h.rate_nonneg 0) ht; linarith
  | succ q =>
    rw [auxAtK_succ]
    have hA := headK_ge_one h q hp
    have hl : 1 ≤ 1 + x q * (t - T q) := by
      have := mul_nonneg (h.rate_nonneg q) (sub_nonneg.mpr (hlt q (by omega))); linarith
    nlinarith

theorem searchLeftK_le_length (l : List K) (t : K) : searchLeftK l t ≤ l.length := by
  induction l with
  | nil => simp [searchLeftK]
  | cons a r ih => simp only [searchLeftK]; split <;> simp; omega

theorem searchLeftK_lt (l : List K) (t : K) (i : Nat) (hi : i < searchLeftK l t) : nthK l i < t := by
  induction l generalizing i with
  | nil => simp [searchLeftK] at hi
  | cons a r ih =>
    simp only [searchLeftK] at hi
    split at hi
    · cases i with
      | zero => simpa [nthK]
      | succ i => have := ih i (by omega); simpa [nthK] using this
    · omega

theorem searchLeftK_ge (l : List K) (t : K) (h : searchLeftK l t < l.length) : t ≤ nthK l (searchLeftK l t) := by
  induction l with
  | nil => simp at h
  | cons a r ih =>
    simp only [searchLeftK] at h ⊢
    split
    · rename_i hlt
      simp only [hlt, if_true, List.length_cons] at h
      have := ih (by omega); simpa [nthK] using this
    · rename_i hlt
      simp only [nthK, List.getD_cons_zero]; exact not_lt.mp hlt

theorem searchLeftK_mono (l : List K) (s t : K) (h : s ≤ t) : searchLeftK l s ≤ searchLeftK l t := by
  induction l with
  | nil => simp [searchLeftK]
  | cons a r ih =>
    simp only [searchLeftK]
    by_cases h1 : a < s
    · have h2 : a < t := lt_of_lt_of_le h1 h
      simp [h1, h2]; exact ih
    · simp [h1]

theorem inv_sub_inv_leK {A B σ R δ : K} (hA : 0 < A) (hB : 1 ≤ B) (hAB : B = A + σ * δ) (hσ : σ ≤ R * A)
    (hδ : 0 ≤ δ) (hR : 0 ≤ R) : 1 / A - 1 / B ≤ R * δ := by
  have hB0 : 0 < B := by linarith
  rw [div_sub_div _ _ hA.ne' hB0.ne', div_le_iff₀ (mul_pos hA hB0)]
  have h1 : σ * δ ≤ R * A * δ := mul_le_mul_of_nonneg_right hσ hδ
  have h2 : 0 ≤ R * A * δ := mul_nonneg (mul_nonneg hR hA.le) hδ
  have h3 : R * A * δ ≤ R * A * δ * B := le_mul_of_one_le_right h2 hB
  have e : R * δ * (A * B) = R * A * δ * B := by ring
  rw [e]; linarith

theorem dfK_lipschitz_on_piece {x T : Nat → K} {n : Nat} (h : CurveK x T n) {R : K} (hR : ∀ i, x i ≤ R) (p : Nat)
    (hp : p ≤ n) (s t : K) (h0 : 0 ≤ s) (hst : s ≤ t) (hlow : ∀ i, i < p → T i ≤ s) :
    1 / auxAtK x T p s - 1 / auxAtK x T p t ≤ R * (t - s) := by
  have hR0 : 0 ≤ R := le_trans (h.rate_nonneg 0) (hR 0)
  have hA1 : 1 ≤ auxAtK x T p s := auxAtK_ge_one h p hp s h0 hlow
  have hB1 : 1 ≤ auxAtK x T p t := le_trans hA1 (auxAtK_mono_t h p hp s t hst)
  refine inv_sub_inv_leK (by linarith) hB1 (auxK_affine_on_piece x T p s t) ?_ (sub_nonneg.mpr hst) hR0
  cases p with
  | zero =>
    simp only [if_true]
    have := mul_le_mul_of_nonneg_left hA1 hR0
    have := hR 0; linarith
  | succ q =>
    simp only [Nat.succ_ne_zero, if_false, Nat.add_sub_cancel]
    rw [auxAtK_succ]
    have hH := headK_ge_one h q hp
    set H := (1 + x 0 * T 0) * prodToK q (fun k => 1 + x k * (T (k + 1) - T k)) with hHd
    have ha : 1 ≤ 1 + x q * (s - T q) := by
      have := mul_nonneg (h.rate_nonneg q) (sub_nonneg.mpr (hlow q (by omega))); linarith
    have h1 : H * x q ≤ H * R := mul_le_mul_of_nonneg_left (hR q) (by linarith)
    have h2 : H * R ≤ H * R * (1 + x q * (s - T q)) := le_mul_of_one_le_right (mul_nonneg (by linarith) hR0) ha
    have e : R * (H * (1 + x q * (s - T q))) = H * R * (1 + x q * (s - T q)) := by ring
    rw [e]; linarith

/-- crossing `k` tenors: both the drop `≥ 0` and the bound -/
theorem dfK_chain {x T : Nat → K} {n : Nat} (h : CurveK x T n) {R : K} (hR : ∀ i, x i ≤ R) (k : Nat) :
    ∀ (p : Nat) (s t : K), p + k ≤ n → 0 ≤ s → s ≤ t → (∀ i, i < p → T i ≤ s) → (0 < k → s ≤ T p) →
      (∀ i, i < p + k → T i ≤ t) →
      1 / auxAtK x T (p + k) t ≤ 1 / auxAtK x T p s ∧ 1 / auxAtK x T p s - 1 / auxAtK x T (p + k) t ≤ R * (t - s) := by
  induction k with
  | zero =>
    intro p s t hp h0 hst hlow _ _
    refine ⟨?_, dfK_lipschitz_on_piece h hR p hp s t h0 hst hlow⟩
    have hA1 : 1 ≤ auxAtK x T p s := auxAtK_ge_one h p hp s h0 hlow
    exact one_div_le_one_div_of_le (by linarith) (auxAtK_mono_t h p hp s t hst)
  | succ k ih =>
    intro p s t hp h0 hst hlow hs hlt
    have hsT : s ≤ T p := hs (by omega)
    have hTt : T p ≤ t := hlt p (by omega)
    have hA1 : 1 ≤ auxAtK x T p s := auxAtK_ge_one h p (by omega) s h0 hlow
    have hm : 1 / auxAtK x T p (T p) ≤ 1 / auxAtK x T p s :=
      one_div_le_one_div_of_le (by linarith) (auxAtK_mono_t h p (by omega) s (T p) hsT)
    have h1 := dfK_lipschitz_on_piece h hR p (by omega) s (T p) h0 hsT hlow
    obtain ⟨g2, h2⟩ := ih (p + 1) (T p) t (by omega) (le_trans h0 hsT) hTt
      (by
        intro i hi
        by_cases hip : i < p
        · exact le_trans (hlow i hip) hsT
        · have : i = p := by omega
          subst this; exact le_refl _)
      (fun _ => h.sorted p (by omega)) (fun i hi => hlt i (by omega))
    rw [auxK_continuous_at_tenors] at h2 g2
    have e : p + (k + 1) = p + 1 + k := by omega
    rw [e]
    have e2 : R * (t - s) = R * (T p - s) + R * (t - T p) := by ring
    rw [e2]
    exact ⟨le_trans g2 hm, by linarith⟩

theorem nthK_nonneg (l : List K) (h : ∀ r ∈ l, 0 ≤ r) (i : Nat) : 0 ≤ nthK l i := by
  unfold nthK
  by_cases hi : i < l.length
  · rw [List.getD_eq_getElem?_getD, List.getElem?_eq_getElem hi]; exact h _ (List.getElem_mem hi)
  · rw [List.getD_eq_getElem?_getD, List.getElem?_eq_none (by omega)]; simp

theorem nthK_le_of_forall (l : List K) (R : K) (h : ∀ r ∈ l, r ≤ R) (hR : 0 ≤ R) (i : Nat) : nthK l i ≤ R := by
  unfold nthK
  by_cases hi : i < l.length
  · rw [List.getD_eq_getElem?_getD, List.getElem?_eq_getElem hi]; exact h _ (List.getElem_mem hi)
  · rw [List.getD_eq_getElem?_getD, List.getElem?_eq_none (by omega)]; simpa using hR

/-- tenors sorted (what the constructor guarantees) -/
def SortedTK (tenors : List K) : Prop := ∀ i, i + 1 < tenors.length → nthK tenors i ≤ nthK tenors (i + 1)

/-- **Lipschitz bound over `K`**: for `0 ≤ s ≤ t`, `0 ≤ df(s) − df(t) ≤ R·(t − s)` with `R` any bound of the rates -/
theorem dfK_lipschitz (x0 tenors : List K) (hx : ∀ r ∈ x0, 0 ≤ r) (hT : ∀ T ∈ tenors, 0 ≤ T) (hs : SortedTK tenors)
    (R : K) (hR0 : 0 ≤ R) (hR : ∀ r ∈ x0, r ≤ R) (s t : K) (h0 : 0 ≤ s) (hst : s ≤ t) :
    0 ≤ dfCurveK x0 tenors s - dfCurveK x0 tenors t ∧ dfCurveK x0 tenors s - dfCurveK x0 tenors t ≤ R * (t - s) := by
  unfold dfCurveK
  have hm := searchLeftK_mono tenors s t hst
  obtain ⟨k, hk⟩ : ∃ k, searchLeftK tenors t = searchLeftK tenors s + k := ⟨_, (Nat.add_sub_cancel' hm).symm⟩
  rw [hk]
  have hc : CurveK (nthK x0) (nthK tenors) tenors.length := ⟨nthK_nonneg x0 hx, nthK_nonneg tenors hT 0, hs⟩
  obtain ⟨g, l⟩ := dfK_chain hc (nthK_le_of_forall x0 R hR hR0) k (searchLeftK tenors s) s t
    (by rw [← hk]; exact searchLeftK_le_length _ _) h0 hst
    (fun i hi => le_of_lt (searchLeftK_lt tenors s i hi))
    (fun hk0 => by
      apply searchLeftK_ge
      have := searchLeftK_le_length tenors t; omega)
    (fun i hi => by rw [← hk] at hi; exact le_of_lt (searchLeftK_lt tenors t i hi))
  exact ⟨by linarith, l⟩

theorem dfK_lipschitz_abs (x0 tenors : List K) (hx : ∀ r ∈ x0, 0 ≤ r) (hT : ∀ T ∈ tenors, 0 ≤ T) (hs : SortedTK tenors)
    (R : K) (hR0 : 0 ≤ R) (hR : ∀ r ∈ x0, r ≤ R) (s t : K) (hs0 : 0 ≤ s) (ht0 : 0 ≤ t) :
    |dfCurveK x0 tenors s - dfCurveK x0 tenors t| ≤ R * |s - t| := by
  rcases le_total s t with hst | hts
  · obtain ⟨h1, h2⟩ := dfK_lipschitz x0 tenors hx hT hs R hR0 hR s t hs0 hst
    rw [abs_of_nonneg h1, abs_of_nonpos (by linarith)]; linarith
  · obtain ⟨h1, h2⟩ := dfK_lipschitz x0 tenors hx hT hs R hR0 hR t s ht0 hts
    rw [abs_of_nonpos (by linarith), abs_of_nonneg (by linarith)]; linarith

theorem exists_rate_bound (x0 : List K) (hx : ∀ r ∈ x0, 0 ≤ r) : ∃ R : K, 0 < R ∧ ∀ r ∈ x0, r ≤ R := by
  induction x0 with
  | nil => exact ⟨1, one_pos, by simp⟩
  | cons a l ih =>
    obtain ⟨R, hRp, hRl⟩ := ih (fun r hr => hx r (by simp [hr]))
    have ha : 0 ≤ a := hx a (by simp)
    refine ⟨R + a, by linarith, ?_⟩
    intro r hr
    simp only [List.mem_cons] at hr
    rcases hr with rfl | hr
    · linarith
    · have := hRl r hr; linarith

/-- **ε-δ continuity over `K`** (uniform on `[0, ∞)`) -/
theorem dfK_continuous_eps_delta (x0 tenors : List K) (hx : ∀ r ∈ x0, 0 ≤ r) (hT : ∀ T ∈ tenors, 0 ≤ T)
    (hs : SortedTK tenors) (ε : K) (hε : 0 < ε) :
    ∃ δ : K, 0 < δ ∧ ∀ s t : K, 0 ≤ s → 0 ≤ t → |s - t| < δ →
      |dfCurveK x0 tenors s - dfCurveK x0 tenors t| < ε := by
  obtain ⟨R, hRpos, hR⟩ := exists_rate_bound x0 hx
  refine ⟨ε / R, div_pos hε hRpos, ?_⟩
  intro s t hs0 ht0 hd
  have hl := dfK_lipschitz_abs x0 tenors hx hT hs R hRpos.le hR s t hs0 ht0
  have : R * |s - t| < R * (ε / R) := mul_lt_mul_of_pos_left hd hRpos
  have e : R * (ε / R) = ε := by field_simp
  linarith

end generic

/-! ### the instance at `ℚ` is the executable model -/

theorem prodToK_rat (n : Nat) (f : Nat → Rat) : prodToK n f = prodTo n f := by
  induction n with
  | zero => rfl
  | succ n ih => simp [prodToK, prodTo, ih]

theorem searchLeftK_rat (l : List Rat) (t : Rat) : searchLeftK l t = searchLeft l t := by
  induction l with
  | nil => rfl
  | cons a r ih => simp [searchLeftK, searchLeft, ih]

theorem dfCurveK_rat (x0 tenors : List Rat) (t : Rat) : dfCurveK x0 tenors t = dfCurve x0 tenors t := by
  unfold dfCurveK dfCurve aux auxAtK auxAt
  rw [searchLeftK_rat, prodToK_rat]
  rfl

/-! ### the instance at `ℝ` -/

/-- **the discount factor with real times, rates and tenors is continuous on `[0, ∞)`, ε-δ** -/
theorem df_real_continuous_eps_delta (x0 tenors : List ℝ) (hx : ∀ r ∈ x0, 0 ≤ r) (hT : ∀ T ∈ tenors, 0 ≤ T)
    (hs : SortedTK tenors) (ε : ℝ) (hε : 0 < ε) :
    ∃ δ : ℝ, 0 < δ ∧ ∀ s t : ℝ, 0 ≤ s → 0 ≤ t → |s - t| < δ →
      |dfCurveK x0 tenors s - dfCurveK x0 tenors t| < ε :=
  dfK_continuous_eps_delta x0 tenors hx hT hs ε hε

/-- … with the explicit modulus: `|df(s) − df(t)| ≤ (max rate)·|s − t|` over ℝ -/
theorem df_real_lipschitz (x0 tenors : List ℝ) (hx : ∀ r ∈ x0, 0 ≤ r) (hT : ∀ T ∈ tenors, 0 ≤ T)
    (hs : SortedTK tenors) (R : ℝ) (hR0 : 0 ≤ R) (hR : ∀ r ∈ x0, r ≤ R) (s t : ℝ) (hs0 : 0 ≤ s) (ht0 : 0 ≤ t) :
    |dfCurveK x0 tenors s - dfCurveK x0 tenors t| ≤ R * |s - t| :=
  dfK_lipschitz_abs x0 tenors hx hT hs R hR0 hR s t hs0 ht0

end Rpylib.Sde
