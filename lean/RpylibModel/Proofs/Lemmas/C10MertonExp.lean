/-
C10, Merton: the Lévy–Khintchine integral ∫ (e^{z x} − 1) ν(dx) of the Gaussian jump density (`mertonDensity`, merton.py:44-47,
the definition C09 uses) equals the coded λ(e^{μ z + σ² z²/2} − 1) (merton.py:183-186) for EVERY complex z.
Mathlib: `integral_cexp_quadratic` (∫ e^{b x² + c x + d} for Re b < 0).
-/
import RpylibModel.Proofs.Lemmas.C09Special
import Mathlib.Analysis.SpecialFunctions.Gaussian.FourierTransform

namespace Rpylib.Triplet
open Real MeasureTheory Set Rpylib.Integrals

theorem cpow_half_two_pi_sigma_sq (sigma : ℝ) (hs : 0 < sigma) :
    ((2 * π * sigma ^ 2 : ℝ) : ℂ) ^ (1 / 2 : ℂ) = ((sigma * √(2 * π) : ℝ) : ℂ) := by
  have h0 : (0 : ℝ) ≤ 2 * π * sigma ^ 2 := by positivity
  have e : (1 / 2 : ℂ) = ((1 / 2 : ℝ) : ℂ) := by push_cast; ring
  rw [e, ← Complex.ofReal_cpow h0, ← Real.sqrt_eq_rpow, Real.sqrt_mul (by positivity), Real.sqrt_sq hs.le, mul_comm]

/-- e^{z x} · (Merton density) as a complex Gaussian -/
theorem merton_exp_mul_density (lam mu sigma : ℝ) (hs : 0 < sigma) (z : ℂ) (x : ℝ) :
    Complex.exp (z * x) * (mertonDensity lam mu sigma x : ℂ)
      = ((lam / (sigma * √(2 * π)) : ℝ) : ℂ) *
        Complex.exp ((-(1 / (2 * sigma ^ 2) : ℝ) : ℂ) * (x : ℂ) ^ 2 + (z + ((mu / sigma ^ 2 : ℝ) : ℂ)) * x
          + ((-(mu ^ 2 / (2 * sigma ^ 2)) : ℝ) : ℂ)) := by
  unfold mertonDensity
  push_cast
  rw [mul_left_comm, ← Complex.exp_add]
  congr 2
  have hs' : (sigma : ℂ) ≠ 0 := by exact_mod_cast hs.ne'
  field_simp
  ring

theorem integrable_merton_exp (lam mu sigma : ℝ) (hs : 0 < sigma) (z : ℂ) :
    Integrable (fun x : ℝ => Complex.exp (z * x) * (mertonDensity lam mu sigma x : ℂ)) := by
  have hb : ((-(1 / (2 * sigma ^ 2) : ℝ) : ℂ)).re < 0 := by
    simp only [Complex.neg_re, Complex.ofReal_re]; have : 0 < 1 / (2 * sigma ^ 2) := by positivity
    linarith
  have h := (integrable_cexp_quadratic' hb (z + ((mu / sigma ^ 2 : ℝ) : ℂ)) ((-(mu ^ 2 / (2 * sigma ^ 2)) : ℝ) : ℂ)).const_mul
    (((lam / (sigma * √(2 * π)) : ℝ) : ℂ))
  refine h.congr (Filter.Eventually.of_forall (fun x => ?_))
  exact (merton_exp_mul_density lam mu sigma hs z x).symm

/-- the Gaussian integral behind Merton's exponent: ∫ e^{z x} ν(dx) = λ e^{μ z + σ² z²/2} for every complex z -/
theorem integral_merton_exp (lam mu sigma : ℝ) (hs : 0 < sigma) (z : ℂ) :
    ∫ x : ℝ, Complex.exp (z * x) * (mertonDensity lam mu sigma x : ℂ)
      = (lam : ℂ) * Complex.exp (mu * z + sigma ^ 2 * z ^ 2 / 2) := by
  have hb : ((-(1 / (2 * sigma ^ 2) : ℝ) : ℂ)).re < 0 := by
    simp only [Complex.neg_re, Complex.ofReal_re]; have : 0 < 1 / (2 * sigma ^ 2) := by positivity
    linarith
  have hs' : (sigma : ℂ) ≠ 0 := by exact_mod_cast hs.ne'
  have hsq : (√(2 * π) : ℝ) ≠ 0 := by positivity
  have hsq' : ((√(2 * π) : ℝ) : ℂ) ≠ 0 := by exact_mod_cast hsq
  simp_rw [merton_exp_mul_density lam mu sigma hs z]
  rw [integral_const_mul, integral_cexp_quadratic hb]
  have hpi : (π : ℂ) / -((-(1 / (2 * sigma ^ 2) : ℝ) : ℂ)) = ((2 * π * sigma ^ 2 : ℝ) : ℂ) := by
    push_cast; field_simp
  rw [hpi, cpow_half_two_pi_sigma_sq sigma hs]
  have hexp : ((-(mu ^ 2 / (2 * sigma ^ 2)) : ℝ) : ℂ) - (z + ((mu / sigma ^ 2 : ℝ) : ℂ)) ^ 2 / (4 * ((-(1 / (2 * sigma ^ 2) : ℝ) : ℂ)))
      = mu * z + sigma ^ 2 * z ^ 2 / 2 := by
    push_cast; field_simp; ring
  rw [hexp]
  push_cast
  field_simp

/-- the Lévy–Khintchine integrand of Merton's pure-jump exponent at a complex argument -/
noncomputable def mertonLKIntegrand (lam mu sigma : ℝ) (z : ℂ) (x : ℝ) : ℂ :=
  (Complex.exp (z * x) - 1) * (mertonDensity lam mu sigma x : ℂ)

/-- merton.py `levy_exponent_pure_jump` at a complex argument -/
noncomputable def mertonKappaC (lam mu sigma : ℝ) (z : ℂ) : ℂ :=
  lam * (Complex.exp (mu * z + sigma ^ 2 * z ^ 2 / 2) - 1)

theorem integrable_mertonLK (lam mu sigma : ℝ) (hs : 0 < sigma) (z : ℂ) :
    Integrable (mertonLKIntegrand lam mu sigma z) := by
  have h0 := integrable_merton_exp lam mu sigma hs 0
  have h := (integrable_merton_exp lam mu sigma hs z).sub h0
  refine h.congr (Filter.Eventually.of_forall (fun x => ?_))
  simp only [mertonLKIntegrand, Pi.sub_apply, zero_mul, Complex.exp_zero]; ring

/-- **Merton: the Lévy–Khintchine integral of the Gaussian density is the coded exponential**, every complex argument -/
theorem merton_LK_integral_complex (lam mu sigma : ℝ) (hs : 0 < sigma) (z : ℂ) :
    ∫ x, mertonLKIntegrand lam mu sigma z x = mertonKappaC lam mu sigma z := by
  have h0 := integrable_merton_exp lam mu sigma hs 0
  have hz := integrable_merton_exp lam mu sigma hs z
  have e : mertonLKIntegrand lam mu sigma z = fun x : ℝ =>
      Complex.exp (z * x) * (mertonDensity lam mu sigma x : ℂ) - Complex.exp ((0:ℂ) * x) * (mertonDensity lam mu sigma x : ℂ) := by
    funext x; simp only [mertonLKIntegrand, zero_mul, Complex.exp_zero]; ring
  rw [e, integral_sub hz h0, integral_merton_exp lam mu sigma hs z, integral_merton_exp lam mu sigma hs 0]
  unfold mertonKappaC
  simp only [mul_zero, ne_eq, OfNat.ofNat_ne_zero, not_false_eq_true, zero_pow, zero_div, add_zero, Complex.exp_zero]
  ring

/-- the coded closed form at a real argument -/
noncomputable def mertonKappaR (lam mu sigma s : ℝ) : ℝ := lam * (exp (mu * s + sigma ^ 2 * s ^ 2 / 2) - 1)

theorem mertonKappaC_ofReal (lam mu sigma s : ℝ) :
    mertonKappaC lam mu sigma (s : ℂ) = ((mertonKappaR lam mu sigma s : ℝ) : ℂ) := by
  unfold mertonKappaC mertonKappaR; push_cast; ring

/-- real argument: ∫ (e^{s x} − 1) ν(dx) = λ(e^{μ s + σ² s²/2} − 1) for every real s -/
theorem merton_LK_integral_real (lam mu sigma s : ℝ) (hs : 0 < sigma) :
    ∫ x, (exp (s * x) - 1) * mertonDensity lam mu sigma x = mertonKappaR lam mu sigma s := by
  apply Complex.ofReal_injective
  rw [← mertonKappaC_ofReal, ← merton_LK_integral_complex lam mu sigma hs (s : ℂ), ← integral_complex_ofReal]
  congr 1; funext x
  simp only [mertonLKIntegrand]; push_cast; ring

end Rpylib.Triplet
