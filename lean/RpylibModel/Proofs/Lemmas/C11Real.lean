/-
Helper lemmas for C11: over ℝ, for every θ > 0, the generator pair `g u = |u|^(-θ)`, `psi s = s^(-1/θ)` of the coded
Clayton copula satisfies `ClaytonGen` — in particular `s ↦ s^(-1/θ)` is convex on (0,∞) (negative power), which gives
the slope hypothesis.  Real powers are Mathlib's `Real.rpow`.
-/
import RpylibModel.Proofs.Lemmas.C11Clayton
import RpylibModel.Proofs.Lemmas.C11Convex
import Mathlib.Analysis.SpecialFunctions.Pow.Real
import Mathlib.Analysis.Convex.SpecificFunctions.Basic

set_option linter.unusedSectionVars false

namespace Rpylib.Copula

open Real Set in
/-- a non-positive real power is convex on (0,∞): `x^p = exp(p·log x)`, `log` concave, `exp` convex and increasing -/
theorem convexOn_rpow_nonpos {p : ℝ} (hp : p ≤ 0) : ConvexOn ℝ (Ioi 0) (fun x : ℝ => x ^ p) := by
  refine ⟨convex_Ioi 0, ?_⟩
  intro x hx y hy a b ha hb hab
  have hx' : 0 < x := hx
  have hy' : 0 < y := hy
  have hz : 0 < a • x + b • y := (convex_Ioi (0 : ℝ)) hx hy ha hb hab
  have hlog := strictConcaveOn_log_Ioi.concaveOn.2 hx hy ha hb hab
  have hexp := convexOn_exp.2 (mem_univ (log x * p)) (mem_univ (log y * p)) ha hb hab
  simp only [smul_eq_mul] at *
  rw [rpow_def_of_pos hz, rpow_def_of_pos hx', rpow_def_of_pos hy']
  refine le_trans (exp_le_exp.mpr ?_) hexp
  nlinarith [mul_le_mul_of_nonpos_right hlog hp]

/-- the generator pair of the coded Clayton copula for a real θ -/
noncomputable def genReal (θ : ℝ) : Gen ℝ :=
  { g := fun a => |a| ^ (-θ), psi := fun s => s ^ (-(1 / θ)), isZero := fun a => decide (a = 0),
    isNeg := fun a => decide (a < 0) }

/-- **every θ > 0**: `|u|^(-θ)`, `s^(-1/θ)` is a Clayton generator pair -/
theorem genReal_clayton (θ : ℝ) (hθ : 0 < θ) : ClaytonGen (genReal θ) where
  isZero_iff a := by simp [genReal]
  isNeg_iff a := by simp [genReal]
  g_even a := by simp [genReal]
  g_pos a h := by simp only [genReal]; exact Real.rpow_pos_of_pos (abs_pos.mpr h.ne') _
  g_anti a b ha hab := by
    have hb : 0 < b := lt_of_lt_of_le ha hab
    simp only [genReal, abs_of_pos ha, abs_of_pos hb]
    exact Real.rpow_le_rpow_of_nonpos ha hab (by linarith)
  psi_g a h := by
    simp only [genReal, abs_of_pos h]
    rw [← Real.rpow_mul h.le]
    have : -θ * -(1 / θ) = 1 := by field_simp
    rw [this, Real.rpow_one]
  psi_nonneg s h := by simp only [genReal]; exact Real.rpow_nonneg h.le _
  psi_anti s t hs hst := by
    simp only [genReal]
    have hp : -(1 / θ) ≤ 0 := by
      have : 0 < 1 / θ := by positivity
      linarith
    exact Real.rpow_le_rpow_of_nonpos hs hst hp
  psi_slope s t δ hs hst hδ := by
    have hp : -(1 / θ) ≤ 0 := by
      have : 0 < 1 / θ := by positivity
      linarith
    exact slope_of_convexOn (fun s : ℝ => s ^ (-(1 / θ))) (convexOn_rpow_nonpos hp) s t δ hs hst hδ

end Rpylib.Copula
