/-
C19 helper: the closed-form legs of the credit default swap as integrals against the exponential law of the default
time (density θ e^{−θt}, survival e^{−θT}), over ℝ by the fundamental theorem of calculus.  The integrands are the
model's own pathwise payoff (`cdsDefaultedF`, `cdsSurvivedF` of Model/Credit.lean, payoff.py:379-390) with the
discounting function `df(t) = e^{−rt}`; the right-hand sides are the model's closed forms (`defaultLegF`, `fixedLegF`,
`presentValueF`, cflevymodel.py:58-65).  The property-level statement is `cds_legs_are_expectations` in Proofs/C19.lean.
-/
import RpylibModel.Model.Credit
import Mathlib.MeasureTheory.Integral.IntervalIntegral.FundThmCalculus
import Mathlib.Analysis.SpecialFunctions.ExpDeriv
import Mathlib.Tactic.Linarith
import Mathlib.Tactic.Ring
import Mathlib.Tactic.FieldSimp

namespace Rpylib.Credit.Legs
open Real intervalIntegral

theorem hasDerivAt_expNeg (c t : ℝ) : HasDerivAt (fun t => exp (-c * t)) (-c * exp (-c * t)) t := by
  have h : HasDerivAt (fun t : ℝ => -c * t) (-c) t := by simpa using (hasDerivAt_id t).const_mul (-c)
  refine h.exp.congr_deriv ?_
  ring

theorem exp_split (r θ t : ℝ) : exp (-(r + θ) * t) = exp (-r * t) * exp (-θ * t) := by
  rw [← exp_add]; congr 1; ring

/-- P(τ ≤ T) for τ ~ Exp(θ): ∫₀ᵀ θ e^{−θt} dt = 1 − e^{−θT} (every θ, θ = 0 included) -/
theorem default_probability (θ T : ℝ) : ∫ t in (0:ℝ)..T, θ * exp (-θ * t) = 1 - exp (-θ * T) := by
  have hd : ∀ t ∈ Set.uIcc (0:ℝ) T, HasDerivAt (fun t => -exp (-θ * t)) (θ * exp (-θ * t)) t := by
    intro t _
    refine (hasDerivAt_expNeg θ t).neg.congr_deriv ?_
    ring
  have hint : IntervalIntegrable (fun t => θ * exp (-θ * t)) MeasureTheory.volume 0 T :=
    (by fun_prop : Continuous fun t => θ * exp (-θ * t)).intervalIntegrable 0 T
  rw [integral_eq_sub_of_hasDerivAt hd hint]
  simp
  ring

/-- ∫₀ᵀ e^{−ct} dt = (1 − e^{−cT})/c -/
theorem integral_exp_neg (c T : ℝ) (hc : c ≠ 0) : ∫ t in (0:ℝ)..T, exp (-c * t) = (1 - exp (-c * T)) / c := by
  have hd : ∀ t ∈ Set.uIcc (0:ℝ) T, HasDerivAt (fun t => -(1 / c) * exp (-c * t)) (exp (-c * t)) t := by
    intro t _
    refine ((hasDerivAt_expNeg c t).const_mul (-(1 / c))).congr_deriv ?_
    field_simp
  have hint : IntervalIntegrable (fun t => exp (-c * t)) MeasureTheory.volume 0 T :=
    (by fun_prop : Continuous fun t => exp (-c * t)).intervalIntegrable 0 T
  rw [integral_eq_sub_of_hasDerivAt hd hint]
  simp
  field_simp
  ring

/-- default leg: E[(1−R) e^{−rτ} 1{τ ≤ T}] = (1−R)(1 − e^{−(r+θ)T}) θ/(r+θ) -/
theorem default_leg_integral (θ r R T : ℝ) (h : r + θ ≠ 0) :
    ∫ t in (0:ℝ)..T, (1 - R) * exp (-r * t) * (θ * exp (-θ * t)) = defaultLegF (exp (-(r + θ) * T)) θ r R := by
  have hd : ∀ t ∈ Set.uIcc (0:ℝ) T, HasDerivAt (fun t => -((1 - R) * θ / (r + θ)) * exp (-(r + θ) * t))
      ((1 - R) * exp (-r * t) * (θ * exp (-θ * t))) t := by
    intro t _
    refine ((hasDerivAt_expNeg (r + θ) t).const_mul (-((1 - R) * θ / (r + θ)))).congr_deriv ?_
    rw [exp_split]; field_simp
  have hint : IntervalIntegrable (fun t => (1 - R) * exp (-r * t) * (θ * exp (-θ * t))) MeasureTheory.volume 0 T :=
    (by fun_prop : Continuous fun t => (1 - R) * exp (-r * t) * (θ * exp (-θ * t))).intervalIntegrable 0 T
  rw [integral_eq_sub_of_hasDerivAt hd hint]
  unfold defaultLegF
  simp
  field_simp
  ring

/-- fixed leg per unit of spread, as the code's pathwise payoff computes it: premium `(1 − e^{−r min(T,τ)})/r` accrued
until default or maturity; E[·] = (1 − e^{−(r+θ)T})/(r+θ) -/
theorem fixed_leg_integral (θ r T : ℝ) (hr : r ≠ 0) (h : r + θ ≠ 0) :
    (∫ t in (0:ℝ)..T, (1 - exp (-r * t)) / r * (θ * exp (-θ * t))) + (1 - exp (-r * T)) / r * exp (-θ * T)
      = fixedLegF (exp (-(r + θ) * T)) θ r := by
  have hd : ∀ t ∈ Set.uIcc (0:ℝ) T,
      HasDerivAt (fun t => -(1 / r) * exp (-θ * t) + θ / (r * (r + θ)) * exp (-(r + θ) * t))
        ((1 - exp (-r * t)) / r * (θ * exp (-θ * t))) t := by
    intro t _
    have h1 := (hasDerivAt_expNeg θ t).const_mul (-(1 / r))
    have h2 := (hasDerivAt_expNeg (r + θ) t).const_mul (θ / (r * (r + θ)))
    refine (h1.add h2).congr_deriv ?_
    rw [exp_split]; field_simp; ring
  have hint : IntervalIntegrable (fun t => (1 - exp (-r * t)) / r * (θ * exp (-θ * t))) MeasureTheory.volume 0 T :=
    (by fun_prop : Continuous fun t => (1 - exp (-r * t)) / r * (θ * exp (-θ * t))).intervalIntegrable 0 T
  rw [integral_eq_sub_of_hasDerivAt hd hint]
  unfold fixedLegF
  rw [exp_split]
  simp
  field_simp
  ring

/-- the same leg in survival form: E[∫₀^{min(τ,T)} e^{−rt} dt] = ∫₀ᵀ e^{−rt} P(τ > t) dt -/
theorem fixed_leg_survival_form (θ r T : ℝ) (h : r + θ ≠ 0) :
    ∫ t in (0:ℝ)..T, exp (-r * t) * exp (-θ * t) = fixedLegF (exp (-(r + θ) * T)) θ r := by
  have e : (fun t => exp (-r * t) * exp (-θ * t)) = fun t => exp (-(r + θ) * t) := by
    funext t; rw [exp_split]
  rw [e, integral_exp_neg (r + θ) T h]
  rfl

/-- **expected value of the pathwise payoff**: `E[CDS.evaluate(τ)]` for τ ~ Exp(θ) — the integral of the payoff of a
default at `t ≤ T` against the density θ e^{−θt}, plus the no-default payoff times the survival probability e^{−θT} — is
the closed-form present value `default_leg − s · fixed_leg`, per `df(T)` (the payoff class divides by `df(T)` because
the Monte-Carlo engine discounts afterwards) -/
theorem expected_payoff (θ r R s T : ℝ) (hr : r ≠ 0) (h : r + θ ≠ 0) :
    (∫ t in (0:ℝ)..T, cdsDefaultedF R s r (exp (-r * T)) (exp (-r * t)) * (θ * exp (-θ * t)))
        + cdsSurvivedF s r (exp (-r * T)) * exp (-θ * T)
      = presentValueF (exp (-(r + θ) * T)) θ r R s / exp (-r * T) := by
  have hD : exp (-r * T) ≠ 0 := (exp_pos _).ne'
  have e : (fun t => cdsDefaultedF R s r (exp (-r * T)) (exp (-r * t)) * (θ * exp (-θ * t)))
      = fun t => 1 / exp (-r * T) * ((1 - R) * exp (-r * t) * (θ * exp (-θ * t)))
          - s / exp (-r * T) * ((1 - exp (-r * t)) / r * (θ * exp (-θ * t))) := by
    funext t; unfold cdsDefaultedF; field_simp
  have h1 : IntervalIntegrable (fun t => (1 - R) * exp (-r * t) * (θ * exp (-θ * t))) MeasureTheory.volume 0 T :=
    (by fun_prop : Continuous fun t => (1 - R) * exp (-r * t) * (θ * exp (-θ * t))).intervalIntegrable 0 T
  have h2 : IntervalIntegrable (fun t => (1 - exp (-r * t)) / r * (θ * exp (-θ * t))) MeasureTheory.volume 0 T :=
    (by fun_prop : Continuous fun t => (1 - exp (-r * t)) / r * (θ * exp (-θ * t))).intervalIntegrable 0 T
  rw [e, integral_sub (h1.const_mul _) (h2.const_mul _), integral_const_mul, integral_const_mul,
    default_leg_integral θ r R T h, eq_sub_of_add_eq (fixed_leg_integral θ r T hr h)]
  unfold presentValueF cdsSurvivedF
  field_simp
  ring

end Rpylib.Credit.Legs
