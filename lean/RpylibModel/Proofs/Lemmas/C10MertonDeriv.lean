/-
C10, Merton: every derivative in s of the coded λ(e^{μ s + σ² s²/2} − 1) is λ P_n(s) e^{μ s + σ² s²/2} with
P₀ = 1, P_{n+1} = P_n' + (μ + σ² X) P_n; P₁(0), P₂(0), P₄(0), P₆(0) are the moments of the Gaussian jump that
merton.py:118-157 hard-codes.
-/
import RpylibModel.Proofs.Lemmas.C10Chain
import Mathlib.Analysis.Calculus.Deriv.Polynomial
import Mathlib.Analysis.SpecialFunctions.ExpDeriv

namespace Rpylib.Triplet
open Real Set Filter Topology Polynomial

/-- the polynomial factor of the n-th derivative of s ↦ e^{μ s + σ² s²/2}: P₀ = 1, P_{n+1} = P_n' + (μ + σ² X) P_n -/
noncomputable def mertonP (mu v : ℝ) : ℕ → ℝ[X]
  | 0 => 1
  | n + 1 => derivative (mertonP mu v n) + (C mu + C v * X) * mertonP mu v n

/-- n-th derivative in s of Merton's coded pure-jump exponent λ(e^{μ s + σ² s²/2} − 1) -/
noncomputable def mertonKappaD (lam mu sigma : ℝ) (n : ℕ) (s : ℝ) : ℝ :=
  lam * ((mertonP mu (sigma ^ 2) n).eval s * exp (mu * s + sigma ^ 2 * s ^ 2 / 2) - (if n = 0 then 1 else 0))

theorem hasDerivAt_mertonKappaD (lam mu sigma : ℝ) (n : ℕ) (s : ℝ) :
    HasDerivAt (mertonKappaD lam mu sigma n) (mertonKappaD lam mu sigma (n + 1) s) s := by
  have hg : HasDerivAt (fun v : ℝ => mu * v + sigma ^ 2 * v ^ 2 / 2) (mu + sigma ^ 2 * s) s := by
    have h := ((hasDerivAt_id s).const_mul mu).add ((((hasDerivAt_id s).pow 2).const_mul (sigma ^ 2)).div_const 2)
    refine h.congr_deriv ?_
    simp only [id]; ring
  have he := hg.exp
  have hp := (mertonP mu (sigma ^ 2) n).hasDerivAt s
  have h := ((hp.mul he).sub_const (if n = 0 then (1:ℝ) else 0)).const_mul lam
  refine h.congr_deriv ?_
  simp only [mertonKappaD, mertonP, Nat.succ_ne_zero, if_false, eval_add, eval_mul, eval_C, eval_X, sub_zero]
  ring

theorem mertonP_one (mu v : ℝ) : (mertonP mu v 1).eval 0 = mu := by
  simp [mertonP]

theorem mertonP_two (mu v : ℝ) : (mertonP mu v 2).eval 0 = mu ^ 2 + v := by
  simp [mertonP]; ring

theorem mertonP_four (mu v : ℝ) :
    (mertonP mu v 4).eval 0 = mu ^ 4 + 3 * v ^ 2 + 6 * mu ^ 2 * v := by
  simp [mertonP]; ring

theorem mertonP_six (mu v : ℝ) :
    (mertonP mu v 6).eval 0 = 45 * v ^ 2 * mu ^ 2 + 15 * v * mu ^ 4 + mu ^ 6 + 15 * v ^ 3 := by
  simp [mertonP]; ring

end Rpylib.Triplet
