/-
Helper lemmas for C03 (n-d, written out for d = 2 on a grid whose axes are equal): the corner probabilities and the
send probabilities of `__coupling_state` spelled out by parity of the increment, the half cells of an odd position.
-/
import RpylibModel.Proofs.Lemmas.C03Basic

set_option linter.dupNamespace false
set_option linter.unusedSectionVars false
set_option linter.unusedVariables false

namespace Rpylib.Coupling
open Rpylib.Grid Rpylib.Cells Finset

theorem oddAxes_two (i1 i2 : ℤ) :
    oddAxes [i1, i2] = (if i1 % 2 ≠ 0 then [0] else []) ++ (if i2 % 2 ≠ 0 then [1] else []) := by
  unfold oddAxes
  simp [List.range_succ, List.filter_cons]
  split_ifs <;> simp_all

/-! ### corner probabilities by parity -/

/-- the two half intervals and the cell the code builds around the position c of one axis -/
def halfLo (ax : List ℚ) (c : ℕ) : ℚ × ℚ :=
  (min (pt ax c) (amid (pt ax (posOf c (-1))) (pt ax c)), max (pt ax c) (amid (pt ax (posOf c (-1))) (pt ax c)))

def halfHi (ax : List ℚ) (c : ℕ) : ℚ × ℚ :=
  (min (pt ax c) (amid (pt ax (posOf c 1)) (pt ax c)), max (pt ax c) (amid (pt ax (posOf c 1)) (pt ax c)))

def wholeCell (ax : List ℚ) (c : ℕ) : ℚ × ℚ :=
  (amid (leftPoint ax c) (pt ax c), amid (pt ax c) (rightPoint ax c))

theorem cornerProbs_10 (ax : List ℚ) (o : ℕ) (m : MarginMass) (i1 i2 : ℤ) (h1 : i1 % 2 ≠ 0) (h2 : i2 % 2 = 0) :
    cornerProbs [ax, ax] o m [i1, i2] =
      [m [0] [halfLo ax (posOf o i1)] / m [0] [wholeCell ax (posOf o i1)],
       m [0] [halfHi ax (posOf o i1)] / m [0] [wholeCell ax (posOf o i1)]] := by
  unfold cornerProbs halfLo halfHi wholeCell
  rw [oddAxes_two]
  simp [h1, h2, signs, cartesian, cornerProb, cornerBox, totalBox, projVal, projPos, posNd, cornerVal, midT,
    projLeftPt, projRightPt, List.range_succ]

theorem cornerProbs_01 (ax : List ℚ) (o : ℕ) (m : MarginMass) (i1 i2 : ℤ) (h1 : i1 % 2 = 0) (h2 : i2 % 2 ≠ 0) :
    cornerProbs [ax, ax] o m [i1, i2] =
      [m [1] [halfLo ax (posOf o i2)] / m [1] [wholeCell ax (posOf o i2)],
       m [1] [halfHi ax (posOf o i2)] / m [1] [wholeCell ax (posOf o i2)]] := by
  unfold cornerProbs halfLo halfHi wholeCell
  rw [oddAxes_two]
  simp [h1, h2, signs, cartesian, cornerProb, cornerBox, totalBox, projVal, projPos, posNd, cornerVal, midT,
    projLeftPt, projRightPt, List.range_succ]

theorem cornerProbs_11 (ax : List ℚ) (o : ℕ) (m : MarginMass) (i1 i2 : ℤ) (h1 : i1 % 2 ≠ 0) (h2 : i2 % 2 ≠ 0) :
    cornerProbs [ax, ax] o m [i1, i2] =
      let c := posOf o i1
      let d := posOf o i2
      let T := m [0, 1] [wholeCell ax c, wholeCell ax d]
      [m [0, 1] [halfLo ax c, halfLo ax d] / T, m [0, 1] [halfLo ax c, halfHi ax d] / T,
       m [0, 1] [halfHi ax c, halfLo ax d] / T, m [0, 1] [halfHi ax c, halfHi ax d] / T] := by
  unfold cornerProbs halfLo halfHi wholeCell
  rw [oddAxes_two]
  simp [h1, h2, signs, cartesian, cornerProb, cornerBox, totalBox, projVal, projPos, posNd, cornerVal, midT,
    projLeftPt, projRightPt, List.range_succ]

/-! ### where a fine state is sent -/

theorem sendProb_00 (ax : List ℚ) (o : ℕ) (m : MarginMass) (i j : ℕ) (y : List ℕ)
    (h1 : ((i : ℤ) - o) % 2 = 0) (h2 : ((j : ℤ) - o) % 2 = 0) :
    sendProbNd [ax, ax] o m [i, j] y = if [i, j] = y then 1 else 0 := by
  unfold sendProbNd
  simp only [List.map_cons, List.map_nil]
  rw [oddAxes_two]
  simp [h1, h2]

theorem sendProb_10 (ax : List ℚ) (o : ℕ) (m : MarginMass) (i j : ℕ) (y : List ℕ)
    (h1 : ((i : ℤ) - o) % 2 ≠ 0) (h2 : ((j : ℤ) - o) % 2 = 0) :
    sendProbNd [ax, ax] o m [i, j] y =
      (if [posOf i (-1), j] = y then cornerProb [ax, ax] m [0] [i, j] [-1] else 0) +
      (if [posOf i 1, j] = y then cornerProb [ax, ax] m [0] [i, j] [1] else 0) := by
  unfold sendProbNd
  simp only [List.map_cons, List.map_nil]
  rw [oddAxes_two]
  simp [h1, h2, signs, cartesian, cornerIdx, List.range_succ, List.filter_cons]
  split_ifs <;> simp_all

theorem sendProb_01 (ax : List ℚ) (o : ℕ) (m : MarginMass) (i j : ℕ) (y : List ℕ)
    (h1 : ((i : ℤ) - o) % 2 = 0) (h2 : ((j : ℤ) - o) % 2 ≠ 0) :
    sendProbNd [ax, ax] o m [i, j] y =
      (if [i, posOf j (-1)] = y then cornerProb [ax, ax] m [1] [i, j] [-1] else 0) +
      (if [i, posOf j 1] = y then cornerProb [ax, ax] m [1] [i, j] [1] else 0) := by
  unfold sendProbNd
  simp only [List.map_cons, List.map_nil]
  rw [oddAxes_two]
  simp [h1, h2, signs, cartesian, cornerIdx, List.range_succ, List.filter_cons]
  split_ifs <;> simp_all

theorem cornerProb_10 (ax : List ℚ) (m : MarginMass) (i j : ℕ) :
    cornerProb [ax, ax] m [0] [i, j] [-1] = m [0] [halfLo ax i] / m [0] [wholeCell ax i] ∧
    cornerProb [ax, ax] m [0] [i, j] [1] = m [0] [halfHi ax i] / m [0] [wholeCell ax i] := by
  unfold halfLo halfHi wholeCell
  constructor <;>
  simp [cornerProb, cornerBox, totalBox, projVal, projPos, cornerVal, midT, projLeftPt, projRightPt]

theorem cornerProb_01 (ax : List ℚ) (m : MarginMass) (i j : ℕ) :
    cornerProb [ax, ax] m [1] [i, j] [-1] = m [1] [halfLo ax j] / m [1] [wholeCell ax j] ∧
    cornerProb [ax, ax] m [1] [i, j] [1] = m [1] [halfHi ax j] / m [1] [wholeCell ax j] := by
  unfold halfLo halfHi wholeCell
  constructor <;>
  simp [cornerProb, cornerBox, totalBox, projVal, projPos, cornerVal, midT, projLeftPt, projRightPt]

/-! ### the half cells of an interior position -/

theorem amid_comm (a b : ℚ) : amid a b = amid b a := by unfold amid; ring

section axis
variable (ax : List ℚ) (hs : StrictInc ax)
include hs

/-- for an interior position the boxes the code builds are the two halves of the state's own cell -/
theorem half_cells (c : ℕ) (h0 : 0 < c) (h1 : c + 1 < ax.length) :
    halfLo ax c = (cellLo amid ax c, pt ax c) ∧ halfHi ax c = (pt ax c, cellHi amid ax c) ∧
    wholeCell ax c = (cellLo amid ax c, cellHi amid ax c) := by
  have e1 : posOf c (-1) = c - 1 := by unfold posOf; omega
  have e2 : posOf c 1 = c + 1 := by unfold posOf; omega
  have lo : cellLo amid ax c = amid (pt ax (c - 1)) (pt ax c) := rfl
  have hi' : cellHi amid ax c = amid (pt ax c) (pt ax (c + 1)) := by
    unfold cellHi; rw [cellHiN_lt amid _ ax c h1]
  have s1 := strictInc_step ax hs (c - 1) (by omega)
  rw [show c - 1 + 1 = c by omega] at s1
  have s2 := strictInc_step ax hs c h1
  have b1 := amid_between _ _ s1
  have b2 := amid_between _ _ s2
  rw [← lo] at b1
  rw [← hi'] at b2
  refine ⟨?_, ?_, ?_⟩
  · unfold halfLo; rw [e1, ← lo, min_eq_right (le_of_lt b1.2), max_eq_left (le_of_lt b1.2)]
  · unfold halfHi; rw [e2, amid_comm, ← hi', min_eq_left (le_of_lt b2.1), max_eq_right (le_of_lt b2.1)]
  · unfold wholeCell
    have hr : rightPoint ax c = pt ax (c + 1) := by unfold rightPoint pt; rw [Nat.min_eq_right (by omega)]
    rw [leftPoint_eq, hr, ← lo, ← hi']

end axis

/-! ### rates and total boxes, d = 2 -/

theorem joint_two (m : MarginMass) : joint 2 m = m [0, 1] := by
  unfold joint; simp [List.range_succ]

theorem rateNd_joint_two (ax : List ℚ) (o : ℕ) (m : MarginMass) (i j : ℕ) :
    rateNd amid [ax, ax] o (joint 2 m) [i, j] =
      if i = o ∧ j = o then 0
      else m [0, 1] [(cellLo amid ax i, cellHi amid ax i), (cellLo amid ax j, cellHi amid ax j)] := by
  rw [joint_two]
  unfold rateNd cellBox
  simp

theorem totalBox_10 (ax : List ℚ) (o : ℕ) (i1 i2 : ℤ) :
    totalBox [ax, ax] [0] (posNd o [i1, i2]) = [wholeCell ax (posOf o i1)] := by
  unfold wholeCell
  simp [totalBox, projVal, projPos, posNd, midT, projLeftPt, projRightPt]

theorem totalBox_01 (ax : List ℚ) (o : ℕ) (i1 i2 : ℤ) :
    totalBox [ax, ax] [1] (posNd o [i1, i2]) = [wholeCell ax (posOf o i2)] := by
  unfold wholeCell
  simp [totalBox, projVal, projPos, posNd, midT, projLeftPt, projRightPt]

theorem totalBox_11 (ax : List ℚ) (o : ℕ) (i1 i2 : ℤ) :
    totalBox [ax, ax] [0, 1] (posNd o [i1, i2]) = [wholeCell ax (posOf o i1), wholeCell ax (posOf o i2)] := by
  unfold wholeCell
  simp [totalBox, projVal, projPos, posNd, midT, projLeftPt, projRightPt, List.range_succ]

/-! ### `pickCorner` -/

theorem pickCorner_some (u : ℚ) (l : List (ℚ × List ℚ)) (acc : ℚ) (h : u ≤ acc + (l.map Prod.fst).sum)
    (hne : l ≠ []) : (pickCorner u l acc).isSome := by
  induction l generalizing acc with
  | nil => exact absurd rfl hne
  | cons x t ih =>
    obtain ⟨p, res⟩ := x
    unfold pickCorner
    by_cases hu : u ≤ acc + p
    · rw [if_pos hu]; rfl
    · rw [if_neg hu]
      cases t with
      | nil => simp at h; exact absurd h hu
      | cons y t' =>
        apply ih
        · simp only [List.map_cons, List.sum_cons] at h ⊢; linarith
        · simp

end Rpylib.Coupling

namespace Rpylib.Coupling
open Rpylib.Grid Rpylib.Cells Finset

/-! ### a Lévy measure carried by the coordinate axes (independent components), d = 2 -/

/-- `m` is the family of margin masses of the measure `m1 ⊗ δ0 + δ0 ⊗ m2`, stated on the boxes the chain uses
    (every side either strictly on one side of 0 or strictly straddling it) -/
structure CarriedByAxes (m : MarginMass) (m1 m2 : ℚ → ℚ → ℚ) : Prop where
  margin1 : ∀ a b, m [0] [(a, b)] = m1 a b
  margin2 : ∀ c d, m [1] [(c, d)] = m2 c d
  on1 : ∀ a b c d, Away a b → c < 0 → 0 < d → m [0, 1] [(a, b), (c, d)] = m1 a b
  on2 : ∀ a b c d, a < 0 → 0 < b → Away c d → m [0, 1] [(a, b), (c, d)] = m2 c d
  off : ∀ a b c d, Away a b → Away c d → m [0, 1] [(a, b), (c, d)] = 0

theorem parity_even (o i : ℕ) (h : i % 2 = 0) : ((i : ℤ) - ((2 * o : ℕ) : ℤ)) % 2 = 0 := by omega
theorem parity_odd (o i : ℕ) (h : i % 2 = 1) : ((i : ℤ) - ((2 * o : ℕ) : ℤ)) % 2 ≠ 0 := by omega

theorem pair_ne {a b c d : ℕ} (h : a ≠ c ∨ b ≠ d) : ¬ [a, b] = [c, d] := by
  intro e; simp at e; omega

section indep0
variable (ax : List ℚ) (o : ℕ) (hax : AxisOK ax o) (m : MarginMass) (m1 m2 : ℚ → ℚ → ℚ) (hC : CarriedByAxes m m1 m2)
include hax hC

theorem origin_cell_straddles : cellLo amid ax (o) < 0 ∧ 0 < cellHi amid ax (o) := by
  have s := state_in_cell amid amid_between amid_idem ax hax.inc (o) (by have := hax.hi; omega)
  rw [hax.zero] at s
  exact ⟨s.2.2.1 hax.lo, s.2.2.2 hax.hi⟩

/-- the rate of a state on the first axis is the 1-d rate of the first margin -/
theorem rate_on_axis1 (i : ℕ) (hi' : i < ax.length) :
    rateNd amid [ax, ax] (o) (joint 2 m) [i, o] = rate amid ax (o) m1 i := by
  rw [rateNd_joint_two]
  unfold rate
  by_cases h : i = o
  · simp [h]
  · rw [if_neg (by tauto), if_neg h]
    obtain ⟨s1, s2⟩ := origin_cell_straddles ax o hax m m1 m2 hC
    exact hC.on1 _ _ _ _ (cell_away amid amid_between amid_idem ax (o) hax i hi' h) s1 s2

theorem rate_on_axis2 (j : ℕ) (hj : j < ax.length) :
    rateNd amid [ax, ax] (o) (joint 2 m) [o, j] = rate amid ax (o) m2 j := by
  rw [rateNd_joint_two]
  unfold rate
  by_cases h : j = o
  · simp [h]
  · rw [if_neg (by tauto), if_neg h]
    obtain ⟨s1, s2⟩ := origin_cell_straddles ax o hax m m1 m2 hC
    exact hC.on2 _ _ _ _ s1 s2 (cell_away amid amid_between amid_idem ax (o) hax j hj h)

/-- a state off both axes has rate 0 -/
theorem rate_off_axes (i j : ℕ) (hi' : i < ax.length) (hj : j < ax.length) (h1 : i ≠ o) (h2 : j ≠ o) :
    rateNd amid [ax, ax] (o) (joint 2 m) [i, j] = 0 := by
  rw [rateNd_joint_two, if_neg (by tauto)]
  exact hC.off _ _ _ _ (cell_away amid amid_between amid_idem ax (o) hax i hi' h1)
    (cell_away amid amid_between amid_idem ax (o) hax j hj h2)

end indep0

section indep
variable (ax : List ℚ) (o : ℕ) (hax : AxisOK ax (2 * o)) (hlen : ax.length % 2 = 1)
  (m : MarginMass) (m1 m2 : ℚ → ℚ → ℚ) (hM1 : IsMass m1) (hM2 : IsMass m2) (hC : CarriedByAxes m m1 m2)
include hax hlen hM1 hM2 hC

/-- **on the first axis the 2-d coupling is the 1-d coupling of the first margin**: flow for flow -/
theorem flow_on_axis1 (i y : ℕ) (hi' : i < ax.length) :
    flowNd [ax, ax] (2 * o) m [i, 2 * o] [y, 2 * o] = flow1d amid ax (2 * o) m1 i y := by
  have hr := rate_on_axis1 ax (2 * o) hax m m1 m2 hC i hi'
  unfold flowNd flow1d
  simp only [List.length_cons, List.length_nil, Nat.zero_add, Nat.reduceAdd]
  rw [hr]
  by_cases hpar : i % 2 = 0
  · rw [if_pos hpar, sendProb_00 ax (2 * o) m i (2 * o) _ (parity_even o i hpar) (by omega)]
    by_cases hy : i = y
    · subst hy; simp; intro h; exact h.symm
    · have : ¬ [i, 2 * o] = [y, 2 * o] := by simp [hy]
      rw [if_neg this, if_neg hy]; simp
  · have hodd : i % 2 = 1 := by omega
    have hne : i ≠ 2 * o := by omega
    have h0 : 0 < i := by omega
    have h1 : i + 1 < ax.length := by omega
    obtain ⟨e, hL, hR⟩ := rate_split amid amid_between amid_idem ax (2 * o) hax m1 hM1 i hi' hne
    obtain ⟨c1, c2, c3⟩ := half_cells ax hax.inc i h0 h1
    rw [if_neg hpar, sendProb_10 ax (2 * o) m i (2 * o) _ (parity_odd o i hodd) (by omega),
      (cornerProb_10 ax m i (2 * o)).1, (cornerProb_10 ax m i (2 * o)).2, c1, c2, c3, hC.margin1, hC.margin1, hC.margin1]
    have e1 : posOf i (-1) = i - 1 := by unfold posOf; omega
    have e2 : posOf i 1 = i + 1 := by unfold posOf; omega
    rw [e1, e2]
    have cell_eq : m1 (cellLo amid ax i) (cellHi amid ax i) = valLeft amid ax m1 i + valRight amid ax m1 i := by
      rw [← e]; unfold rate; rw [if_neg hne]
    have vL : m1 (cellLo amid ax i) (pt ax i) = valLeft amid ax m1 i := rfl
    have vR : m1 (pt ax i) (cellHi amid ax i) = valRight amid ax m1 i := rfl
    rw [cell_eq, vL, vR]
    unfold sentRight sentLeft pRight
    by_cases hz : rate amid ax (2 * o) m1 i = 0
    · simp [hz]
    · rw [if_neg hz, if_neg hz, if_neg hz]
      have hne0 : valLeft amid ax m1 i + valRight amid ax m1 i ≠ 0 := by rw [← e]; exact hz
      have cL : ([i - 1, 2 * o] = [y, 2 * o]) = (i = y + 1) := by
        apply propext; simp; omega
      have cR : ([i + 1, 2 * o] = [y, 2 * o]) = (i + 1 = y) := by
        apply propext; simp
      simp only [cL, cR]
      by_cases a1 : i = y + 1 <;> by_cases a2 : i + 1 = y
      · omega
      · simp only [if_pos a1, if_neg a2]; rw [e]; field_simp; ring
      · simp only [if_neg a1, if_pos a2]; ring
      · simp only [if_neg a1, if_neg a2]; ring

/-- a state on the second axis is never sent to a state `[y, 2o]` with `y ≠ 2o` -/
theorem flow_axis2_to_axis1 (j y : ℕ) (hy : y ≠ 2 * o) :
    flowNd [ax, ax] (2 * o) m [2 * o, j] [y, 2 * o] = 0 := by
  unfold flowNd
  simp only
  split_ifs with hr
  · rfl
  · have hs : sendProbNd [ax, ax] (2 * o) m [2 * o, j] [y, 2 * o] = 0 := by
      by_cases hpar : j % 2 = 0
      · rw [sendProb_00 ax (2 * o) m (2 * o) j _ (by omega) (parity_even o j hpar), if_neg (pair_ne (by omega))]
      · rw [sendProb_01 ax (2 * o) m (2 * o) j _ (by omega) (parity_odd o j (by omega)),
          if_neg (pair_ne (by omega)), if_neg (pair_ne (by omega))]; ring
    rw [hs]; ring

/-- **on the second axis the 2-d coupling is the 1-d coupling of the second margin**: flow for flow -/
theorem flow_on_axis2 (i y : ℕ) (hi' : i < ax.length) :
    flowNd [ax, ax] (2 * o) m [2 * o, i] [2 * o, y] = flow1d amid ax (2 * o) m2 i y := by
  have hr := rate_on_axis2 ax (2 * o) hax m m1 m2 hC i hi'
  unfold flowNd flow1d
  simp only [List.length_cons, List.length_nil, Nat.zero_add, Nat.reduceAdd]
  rw [hr]
  by_cases hpar : i % 2 = 0
  · rw [if_pos hpar, sendProb_00 ax (2 * o) m (2 * o) i _ (by omega) (parity_even o i hpar)]
    by_cases hy : i = y
    · subst hy; simp; intro h; exact h.symm
    · have : ¬ [2 * o, i] = [2 * o, y] := by simp [hy]
      rw [if_neg this, if_neg hy]; simp
  · have hodd : i % 2 = 1 := by omega
    have hne : i ≠ 2 * o := by omega
    have h0 : 0 < i := by omega
    have h1 : i + 1 < ax.length := by omega
    obtain ⟨e, hL, hR⟩ := rate_split amid amid_between amid_idem ax (2 * o) hax m2 hM2 i hi' hne
    obtain ⟨c1, c2, c3⟩ := half_cells ax hax.inc i h0 h1
    rw [if_neg hpar, sendProb_01 ax (2 * o) m (2 * o) i _ (by omega) (parity_odd o i hodd),
      (cornerProb_01 ax m (2 * o) i).1, (cornerProb_01 ax m (2 * o) i).2, c1, c2, c3, hC.margin2, hC.margin2, hC.margin2]
    have e1 : posOf i (-1) = i - 1 := by unfold posOf; omega
    have e2 : posOf i 1 = i + 1 := by unfold posOf; omega
    rw [e1, e2]
    have cell_eq : m2 (cellLo amid ax i) (cellHi amid ax i) = valLeft amid ax m2 i + valRight amid ax m2 i := by
      rw [← e]; unfold rate; rw [if_neg hne]
    have vL : m2 (cellLo amid ax i) (pt ax i) = valLeft amid ax m2 i := rfl
    have vR : m2 (pt ax i) (cellHi amid ax i) = valRight amid ax m2 i := rfl
    rw [cell_eq, vL, vR]
    unfold sentRight sentLeft pRight
    by_cases hz : rate amid ax (2 * o) m2 i = 0
    · simp [hz]
    · rw [if_neg hz, if_neg hz, if_neg hz]
      have hne0 : valLeft amid ax m2 i + valRight amid ax m2 i ≠ 0 := by rw [← e]; exact hz
      have cL : ([2 * o, i - 1] = [2 * o, y]) = (i = y + 1) := by
        apply propext; simp; omega
      have cR : ([2 * o, i + 1] = [2 * o, y]) = (i + 1 = y) := by
        apply propext; simp
      simp only [cL, cR]
      by_cases a1 : i = y + 1 <;> by_cases a2 : i + 1 = y
      · omega
      · simp only [if_pos a1, if_neg a2]; rw [e]; field_simp; ring
      · simp only [if_neg a1, if_pos a2]; ring
      · simp only [if_neg a1, if_neg a2]; ring

/-- a state on the first axis is never sent to a state `[2o, y]` with `y ≠ 2o` -/
theorem flow_axis1_to_axis2 (j y : ℕ) (hy : y ≠ 2 * o) :
    flowNd [ax, ax] (2 * o) m [j, 2 * o] [2 * o, y] = 0 := by
  unfold flowNd
  simp only
  split_ifs with hr
  · rfl
  · have hs : sendProbNd [ax, ax] (2 * o) m [j, 2 * o] [2 * o, y] = 0 := by
      by_cases hpar : j % 2 = 0
      · rw [sendProb_00 ax (2 * o) m j (2 * o) _ (parity_even o j hpar) (by omega), if_neg (pair_ne (by omega))]
      · rw [sendProb_10 ax (2 * o) m j (2 * o) _ (parity_odd o j (by omega)) (by omega),
          if_neg (pair_ne (by omega)), if_neg (pair_ne (by omega))]; ring
    rw [hs]; ring

/-- no state on an axis is sent to a state off both axes -/
theorem flow_axis_to_off (i j y z : ℕ) (hax' : i = 2 * o ∨ j = 2 * o) (hy : y ≠ 2 * o) (hz : z ≠ 2 * o)
    (hy2 : y % 2 = 0) (hz2 : z % 2 = 0) :
    flowNd [ax, ax] (2 * o) m [i, j] [y, z] = 0 := by
  unfold flowNd
  simp only
  split_ifs with hr
  · rfl
  · have hs : sendProbNd [ax, ax] (2 * o) m [i, j] [y, z] = 0 := by
      by_cases hpi : i % 2 = 0 <;> by_cases hpj : j % 2 = 0
      · rw [sendProb_00 ax (2 * o) m i j _ (parity_even o i hpi) (parity_even o j hpj), if_neg (pair_ne (by omega))]
      · rw [sendProb_01 ax (2 * o) m i j _ (parity_even o i hpi) (parity_odd o j (by omega)),
          if_neg (pair_ne (by omega)), if_neg (pair_ne (by omega))]; ring
      · rw [sendProb_10 ax (2 * o) m i j _ (parity_odd o i (by omega)) (parity_even o j hpj),
          if_neg (pair_ne (by omega)), if_neg (pair_ne (by omega))]; ring
      · omega
    rw [hs]; ring

end indep

end Rpylib.Coupling
