/-
C14 helper lemmas: the exact integer root, square-root characterisations.
-/
import RpylibModel.Model.Pairing
import Mathlib.Data.Nat.Sqrt
import Mathlib.Tactic.Linarith
import Mathlib.Tactic.Ring

namespace Rpylib.Pairing

theorem irootAux_spec (n z : Nat) : ∀ (k lo hi : Nat), hi - lo ≤ k → lo < hi → lo ^ n ≤ z → z < hi ^ n →
    (irootAux n z lo hi) ^ n ≤ z ∧ z < (irootAux n z lo hi + 1) ^ n := by
  intro k
  induction k with
  | zero => intro lo hi h1 h2; omega
  | succ k ih =>
    intro lo hi hk hlt hlo hhi
    rw [irootAux]
    by_cases h : lo + 1 < hi
    · simp only [h, if_true]
      by_cases hm : ((lo + hi) / 2) ^ n ≤ z
      · simp only [hm, if_true]
        exact ih _ _ (by omega) (by omega) hm hhi
      · simp only [hm, if_false]
        exact ih _ _ (by omega) (by omega) hlo (by omega)
    · simp only [h, if_false]
      have : hi = lo + 1 := by omega
      subst this
      exact ⟨hlo, hhi⟩

/-- `iroot z n` is the exact integer n-th root for `n ≥ 1` -/
theorem iroot_spec (z n : Nat) (hn : 1 ≤ n) : (iroot z n) ^ n ≤ z ∧ z < (iroot z n + 1) ^ n := by
  unfold iroot
  apply irootAux_spec n z (z + 1) 0 (z + 1) (by omega) (by omega)
  · rw [Nat.zero_pow (by omega)]; omega
  · calc z < z + 1 := by omega
      _ = (z + 1) ^ 1 := by ring
      _ ≤ (z + 1) ^ n := Nat.pow_le_pow_right (by omega) hn

/-- uniqueness: anything that satisfies the specification is the root -/
theorem iroot_unique (z n m : Nat) (hn : 1 ≤ n) (h1 : m ^ n ≤ z) (h2 : z < (m + 1) ^ n) : iroot z n = m := by
  obtain ⟨a, b⟩ := iroot_spec z n hn
  have hn0 : n ≠ 0 := by omega
  have l1 : iroot z n < m + 1 := by
    by_contra hc
    have : (m + 1) ^ n ≤ (iroot z n) ^ n := Nat.pow_le_pow_left (by omega) n
    omega
  have l2 : m < iroot z n + 1 := by
    by_contra hc
    have : (iroot z n + 1) ^ n ≤ m ^ n := Nat.pow_le_pow_left (by omega) n
    omega
  omega

theorem iroot_two (z : Nat) : iroot z 2 = Nat.sqrt z :=
  iroot_unique z 2 _ (by omega) (Nat.sqrt_le' z) (Nat.lt_succ_sqrt' z)

/-- square root from a sandwich -/
theorem sqrt_of_sandwich (z m : Nat) (h1 : m * m ≤ z) (h2 : z < (m + 1) * (m + 1)) : Nat.sqrt z = m :=
  (Nat.eq_sqrt.mpr ⟨h1, h2⟩).symm

end Rpylib.Pairing
