/-
Lemmas about the Python built-ins of `Basic/PyPrelude.lean` used by the source-derived definitions of C01
(`Generated/SrcC01.lean`): indexing, `enumerate`, `zeros`, and the shape of a loop that fills a vector entry by entry
(`for k, x in enumerate(xs): if c: q[k] = v`).  Nothing here mentions a generated definition.
-/
import RpylibModel.Basic.PyPrelude
import RpylibModel.Proofs.Lemmas.C01Basic

set_option linter.unusedVariables false
set_option linter.unusedSectionVars false

namespace Rpylib.SrcTie.C01
open Rpylib.Py Rpylib.Grid Rpylib.Cells

/-! ### max / min / indexing -/

theorem rmax_eq (a b : Rat) : rmax a b = max a b := by
  unfold rmax; split_ifs with h
  · exact (max_eq_right (le_of_lt h)).symm
  · exact (max_eq_left (not_lt.mp h)).symm

theorem rmin_eq (a b : Rat) : rmin a b = min a b := by
  unfold rmin; split_ifs with h
  · exact (min_eq_right (le_of_lt h)).symm
  · exact (min_eq_left (not_lt.mp h)).symm

theorem imax_eq (a b : Int) : imax a b = max a b := by
  unfold imax; split_ifs with h <;> omega

theorem imin_eq (a b : Int) : imin a b = min a b := by
  unfold imin; split_ifs with h <;> omega

/-- `xs[k]` for a natural `k` -/
theorem idx_nat (xs : List Rat) (k : Nat) : idx xs (k : Int) = pt xs k := by
  unfold idx pt
  rw [if_neg (by omega)]
  simp only [Int.toNat_natCast]
  rfl

theorem idx_of_nonneg (xs : List Rat) (k : Int) (hk : 0 ≤ k) : idx xs k = pt xs k.toNat := by
  obtain ⟨n, rfl⟩ := Int.eq_ofNat_of_zero_le hk
  rw [idx_nat]; simp

/-- `xs[-1]` -/
theorem idx_neg_one (xs : List Rat) : idx xs (-1) = pt xs (xs.length - 1) := by
  unfold idx pt
  rw [if_pos (by omega)]
  rfl

/-- `xs[0]`, `xs[1]` of a literal list (any element type) -/
theorem idx_zero_cons {α : Type} [Inhabited α] (x : α) (xs : List α) : idx (x :: xs) 0 = x := by
  simp [idx]

theorem idx_one_cons {α : Type} [Inhabited α] (x y : α) (xs : List α) : idx (x :: y :: xs) 1 = y := by
  simp [idx]

/-! ### `zeros`, `enumerate` -/

theorem zeros_eq (n : Nat) : zeros (n : Int) = List.replicate n (0 : Rat) := by
  unfold zeros; simp

theorem range_zero_nat (n : Nat) : Rpylib.Py.range 0 (n : Int) = (List.range n).map (fun (k : Nat) => (k : Int)) := by
  unfold Rpylib.Py.range
  simp

theorem enumerate_eq {α : Type} (xs : List α) :
    enumerate xs = List.zipWith (fun (k : Nat) x => ((k : Int), x)) (List.range xs.length) xs := by
  unfold enumerate
  rw [range_zero_nat, List.zip_map_left]
  simp only [List.zip_eq_zipWith, List.map_zipWith]
  rfl

theorem enumerate_length {α : Type} (xs : List α) : (enumerate xs).length = xs.length := by
  rw [enumerate_eq]; simp

theorem enumerate_getElem {α : Type} (xs : List α) (i : Nat) (h : i < (enumerate xs).length) :
    (enumerate xs)[i] = ((i : Int), xs[i]'(by rw [enumerate_length] at h; exact h)) := by
  simp only [enumerate_eq, List.getElem_zipWith, List.getElem_range]

/-! ### a loop that fills a vector: `for p in items: if c(p): q[key(p)] = v(p)` where the keys are 0, 1, 2, … -/

theorem set_append_length (pre : List Rat) (a : Rat) (rest : List Rat) (v : Rat) :
    setAt (pre ++ a :: rest) (pre.length : Int) v = pre ++ v :: rest := by
  unfold setAt
  rw [if_neg (by omega)]
  simp

theorem foldl_fill_aux {ι : Type} (key : ι → Int) (c : ι → Prop) [DecidablePred c] (v : ι → Rat)
    (step : List Rat → ι → List Rat) (hstep : ∀ st p, step st p = if c p then setAt st (key p) (v p) else st) :
    ∀ (items : List ι) (pre init : List Rat), init.length = items.length →
      (∀ i (h : i < items.length), key items[i] = ((pre.length + i : Nat) : Int)) →
      items.foldl step (pre ++ init) = pre ++ List.zipWith (fun p a => if c p then v p else a) items init := by
  intro items
  induction items with
  | nil => intro pre init hl _; cases init with
    | nil => simp
    | cons a t => simp at hl
  | cons p ps ih =>
    intro pre init hl hk
    cases init with
    | nil => simp at hl
    | cons a rest =>
      have hk0 : key p = (pre.length : Int) := by
        have := hk 0 (by simp)
        simpa only [List.getElem_cons_zero, Nat.add_zero] using this
      have e : step (pre ++ a :: rest) p = (pre ++ [if c p then v p else a]) ++ rest := by
        rw [hstep, hk0, set_append_length]
        split_ifs <;> simp
      rw [List.foldl_cons, e, ih (pre ++ [if c p then v p else a]) rest (by simpa using hl)]
      · simp
      · intro i h
        have := hk (i + 1) (by simpa using h)
        simp only [List.getElem_cons_succ] at this
        rw [this]; simp only [List.length_append, List.length_cons, List.length_nil]; congr 1; omega

/-- the loop over `enumerate(xs)` starting from `np.zeros(len(xs))` -/
theorem foldl_enumerate_fill (xs : List Rat) (c : Int → Rat → Prop) [∀ k x, Decidable (c k x)] (v : Int → Rat → Rat)
    (step : List Rat → Int × Rat → List Rat)
    (hstep : ∀ st k x, step st (k, x) = if c k x then setAt st k (v k x) else st) :
    (enumerate xs).foldl step (zeros (xs.length : Int))
      = (List.range xs.length).map (fun (k : Nat) => if c (k : Int) (pt xs k) then v (k : Int) (pt xs k) else 0) := by
  have h := foldl_fill_aux (ι := Int × Rat) Prod.fst (fun p => c p.1 p.2) (fun p => v p.1 p.2) step
    (by intro st p; rcases p with ⟨k, x⟩; exact hstep st k x) (enumerate xs) [] (zeros (xs.length : Int))
    (by rw [zeros_eq, enumerate_length]; simp)
    (by intro i h; rw [enumerate_getElem]; simp)
  simp only [List.nil_append] at h
  rw [h, zeros_eq]
  apply List.ext_getElem
  · simp [enumerate_length]
  · intro i h1 h2
    have hi : i < xs.length := by simpa using h2
    simp only [List.getElem_zipWith, List.getElem_map, List.getElem_range, List.getElem_replicate, enumerate_getElem]
    have : xs[i] = pt xs i := by unfold pt; simp [hi]
    rw [this]

/-- the same loop written over the positions: `for k in range(len(xs))` -/
theorem foldl_range_fill (n : Nat) (c : Int → Prop) [DecidablePred c] (v : Int → Rat)
    (step : List Rat → Int → List Rat) (hstep : ∀ st k, step st k = if c k then setAt st k (v k) else st) :
    (Rpylib.Py.range 0 (n : Int)).foldl step (zeros (n : Int))
      = (List.range n).map (fun (k : Nat) => if c (k : Int) then v (k : Int) else 0) := by
  have h := foldl_fill_aux (ι := Int) id c v step hstep (Rpylib.Py.range 0 (n : Int)) [] (zeros (n : Int))
    (by rw [zeros_eq, range_zero_nat]; simp)
    (by intro i h; simp [range_zero_nat])
  simp only [List.nil_append] at h
  rw [h, zeros_eq, range_zero_nat]
  apply List.ext_getElem
  · simp
  · intro i h1 h2
    simp

/-- a comprehension over `enumerate(xs)` -/
theorem map_enumerate {β : Type} (xs : List Rat) (f : Int × Rat → β) :
    (enumerate xs).map f = (List.range xs.length).map (fun (k : Nat) => f ((k : Int), pt xs k)) := by
  apply List.ext_getElem
  · simp [enumerate_length]
  · intro i h1 h2
    have hi : i < xs.length := by simpa using h2
    simp only [List.getElem_map, List.getElem_range, enumerate_getElem]
    have : xs[i] = pt xs i := by unfold pt; simp [hi]
    rw [this]

/-! ### sums of a list given by its entries -/

theorem getD_map_range (F : ℕ → ℚ) (n k : ℕ) (hk : k < n) : ((List.range n).map F).getD k 0 = F k := by
  simp [List.getD_eq_getElem?_getD, hk]

end Rpylib.SrcTie.C01
