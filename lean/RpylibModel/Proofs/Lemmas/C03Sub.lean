/-
Helper lemmas for C03 (n-d): the 2 / 4 / 8 sub-cells the code builds around an interior odd position tile the cell of that
position, for any axes (each coordinate has its own axis).  Used by the d = 2 theorems on unequal axes and by d = 3.
-/
import RpylibModel.Proofs.Lemmas.C03Nd

set_option linter.dupNamespace false
set_option linter.unusedSectionVars false
set_option linter.unusedVariables false

namespace Rpylib.Coupling
open Rpylib.Grid Rpylib.Cells Finset

/-- what is known of an interior position c ≠ o of a well-formed axis: its cell is split at the state value, which is not
    0, and lies strictly on one side of 0 -/
structure CellSplit (ax : List ℚ) (c : ℕ) : Prop where
  lo : cellLo amid ax c ≤ pt ax c
  hi : pt ax c ≤ cellHi amid ax c
  away : Away (cellLo amid ax c) (cellHi amid ax c)
  ne : pt ax c ≠ 0

theorem cellSplit_of (ax : List ℚ) (o : ℕ) (hax : AxisOK ax o) (c : ℕ) (hc : c < ax.length) (hco : c ≠ o) :
    CellSplit ax c := by
  refine ⟨cellLo_le_pt amid amid_between amid_idem ax hax.inc c hc,
    pt_le_cellHi amid amid_between amid_idem ax hax.inc c hc,
    cell_away amid amid_between amid_idem ax o hax c hc hco, ?_⟩
  have hon : o < ax.length := by have := hax.hi; omega
  rcases Nat.lt_or_gt_of_ne hco with h | h
  · have := strictInc_lt ax hax.inc c o h hon
    rw [hax.zero] at this; exact ne_of_lt this
  · have := strictInc_lt ax hax.inc o c h hc
    rw [hax.zero] at this; exact ne_of_gt this

/-- one coordinate: the two half cells -/
theorem halves_sum (μ : ℚ → ℚ → ℚ) (hμ : IsMass μ) (ax : List ℚ) (c : ℕ) (hc : CellSplit ax c) :
    μ (cellLo amid ax c) (pt ax c) + μ (pt ax c) (cellHi amid ax c) = μ (cellLo amid ax c) (cellHi amid ax c) :=
  (hμ.add _ _ _ hc.lo hc.hi hc.away).symm

/-- two coordinates: the four quarter cells (the order is that of `product([-1, 1], repeat=2)`) -/
theorem quarters_sum (μ : ℚ → ℚ → ℚ → ℚ → ℚ) (hμ : IsBoxMass2 μ) (ax1 ax2 : List ℚ) (c d : ℕ)
    (hc : CellSplit ax1 c) (hd : CellSplit ax2 d) :
    μ (cellLo amid ax1 c) (pt ax1 c) (cellLo amid ax2 d) (pt ax2 d) +
      μ (cellLo amid ax1 c) (pt ax1 c) (pt ax2 d) (cellHi amid ax2 d) +
      μ (pt ax1 c) (cellHi amid ax1 c) (cellLo amid ax2 d) (pt ax2 d) +
      μ (pt ax1 c) (cellHi amid ax1 c) (pt ax2 d) (cellHi amid ax2 d) =
    μ (cellLo amid ax1 c) (cellHi amid ax1 c) (cellLo amid ax2 d) (cellHi amid ax2 d) := by
  have A1 := hμ.add1 _ _ _ _ _ hc.lo hc.hi (le_trans hd.lo hd.hi) hc.ne (Or.inr hd.away)
  have A2 := hμ.add2 (cellLo amid ax1 c) (pt ax1 c) _ _ _ hc.lo hd.lo hd.hi hd.ne (Or.inr hd.away)
  have A3 := hμ.add2 (pt ax1 c) (cellHi amid ax1 c) _ _ _ hc.hi hd.lo hd.hi hd.ne (Or.inr hd.away)
  rw [A1, A2, A3]; ring

/-- three coordinates: the eight sub-cells (order of `product([-1, 1], repeat=3)`) -/
theorem eighths_sum (μ : ℚ → ℚ → ℚ → ℚ → ℚ → ℚ → ℚ) (hμ : IsBoxMass3 μ) (ax1 ax2 ax3 : List ℚ) (c d e : ℕ)
    (hc : CellSplit ax1 c) (hd : CellSplit ax2 d) (he : CellSplit ax3 e) :
    μ (cellLo amid ax1 c) (pt ax1 c) (cellLo amid ax2 d) (pt ax2 d) (cellLo amid ax3 e) (pt ax3 e) +
      μ (cellLo amid ax1 c) (pt ax1 c) (cellLo amid ax2 d) (pt ax2 d) (pt ax3 e) (cellHi amid ax3 e) +
      μ (cellLo amid ax1 c) (pt ax1 c) (pt ax2 d) (cellHi amid ax2 d) (cellLo amid ax3 e) (pt ax3 e) +
      μ (cellLo amid ax1 c) (pt ax1 c) (pt ax2 d) (cellHi amid ax2 d) (pt ax3 e) (cellHi amid ax3 e) +
      μ (pt ax1 c) (cellHi amid ax1 c) (cellLo amid ax2 d) (pt ax2 d) (cellLo amid ax3 e) (pt ax3 e) +
      μ (pt ax1 c) (cellHi amid ax1 c) (cellLo amid ax2 d) (pt ax2 d) (pt ax3 e) (cellHi amid ax3 e) +
      μ (pt ax1 c) (cellHi amid ax1 c) (pt ax2 d) (cellHi amid ax2 d) (cellLo amid ax3 e) (pt ax3 e) +
      μ (pt ax1 c) (cellHi amid ax1 c) (pt ax2 d) (cellHi amid ax2 d) (pt ax3 e) (cellHi amid ax3 e) =
    μ (cellLo amid ax1 c) (cellHi amid ax1 c) (cellLo amid ax2 d) (cellHi amid ax2 d) (cellLo amid ax3 e) (cellHi amid ax3 e) := by
  have hce := le_trans hc.lo hc.hi
  have hde := le_trans hd.lo hd.hi
  have hee := le_trans he.lo he.hi
  have aw : ∀ {a b y z : ℚ}, Away a b ∨ Away y z ∨ Away (cellLo amid ax3 e) (cellHi amid ax3 e) := Or.inr (Or.inr he.away)
  have A1 := hμ.add1 _ _ _ _ _ _ _ hc.lo hc.hi hde hee hc.ne (aw (a := cellLo amid ax1 c) (b := cellHi amid ax1 c))
  have B1 := hμ.add2 (cellLo amid ax1 c) (pt ax1 c) _ _ _ _ _ hc.lo hd.lo hd.hi hee hd.ne aw
  have B2 := hμ.add2 (pt ax1 c) (cellHi amid ax1 c) _ _ _ _ _ hc.hi hd.lo hd.hi hee hd.ne aw
  have C1 := hμ.add3 (cellLo amid ax1 c) (pt ax1 c) (cellLo amid ax2 d) (pt ax2 d) _ _ _ hc.lo hd.lo he.lo he.hi he.ne aw
  have C2 := hμ.add3 (cellLo amid ax1 c) (pt ax1 c) (pt ax2 d) (cellHi amid ax2 d) _ _ _ hc.lo hd.hi he.lo he.hi he.ne aw
  have C3 := hμ.add3 (pt ax1 c) (cellHi amid ax1 c) (cellLo amid ax2 d) (pt ax2 d) _ _ _ hc.hi hd.lo he.lo he.hi he.ne aw
  have C4 := hμ.add3 (pt ax1 c) (cellHi amid ax1 c) (pt ax2 d) (cellHi amid ax2 d) _ _ _ hc.hi hd.hi he.lo he.hi he.ne aw
  rw [A1, B1, B2, C1, C2, C3, C4]; ring

/-- masses that sum to a non-zero total give probabilities that sum to 1 -/
theorem div_sum2 (a b T : ℚ) (h : a + b = T) (hT : T ≠ 0) : a / T + b / T = 1 := by
  rw [← add_div, h, div_self hT]

theorem div_sum4 (a b c d T : ℚ) (h : a + b + c + d = T) (hT : T ≠ 0) : a / T + b / T + c / T + d / T = 1 := by
  rw [← add_div, ← add_div, ← add_div, h, div_self hT]

theorem div_sum8 (a b c d e f g k T : ℚ) (h : a + b + c + d + e + f + g + k = T) (hT : T ≠ 0) :
    a / T + b / T + c / T + d / T + e / T + f / T + g / T + k / T = 1 := by
  rw [← add_div, ← add_div, ← add_div, ← add_div, ← add_div, ← add_div, ← add_div, h, div_self hT]

end Rpylib.Coupling
