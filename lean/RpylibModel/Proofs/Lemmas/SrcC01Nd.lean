/-
List lemmas for the n-d part of the source-derived tie of C01: coordinatewise maps over `enumerate`, `itertools.product(*…)`
(`Py.cartesian`), `zip(*…)` (`Py.transpose`), a running sum.  Nothing here mentions a generated definition.
-/
import RpylibModel.Proofs.Lemmas.SrcC01Lists
import RpylibModel.Proofs.Lemmas.C01Nd

set_option linter.unusedVariables false
set_option linter.unusedSectionVars false

namespace Rpylib.SrcTie.C01
open Rpylib.Py Rpylib.Grid Rpylib.Cells

/-! ### indexing, coordinatewise maps -/

theorem idx_nat_gen {α : Type} [Inhabited α] (xs : List α) (k : Nat) (h : k < xs.length) : idx xs (k : Int) = xs[k] := by
  unfold idx
  rw [if_neg (by omega)]
  simp [List.getD_eq_getElem?_getD, h]

/-- `f(k, c) for k, c in enumerate(cs)` -/
theorem map_enumerate_gen {α β : Type} (cs : List α) (f : Int × α → β) :
    (enumerate cs).map f = List.zipWith (fun (i : Nat) c => f ((i : Int), c)) (List.range cs.length) cs := by
  rw [enumerate_eq, List.map_zipWith]

/-- `g(axes[k], c) for k, c in enumerate(cs)` is the coordinatewise `g` -/
theorem map_enumerate_axes {α β : Type} (axes : List (List Rat)) (cs : List α) (f : Int × α → β) (g : List Rat → α → β)
    (hfg : ∀ (k : Int) c, f (k, c) = g (idx axes k) c) (h : cs.length ≤ axes.length) :
    (enumerate cs).map f = List.zipWith g axes cs := by
  rw [map_enumerate_gen]
  apply List.ext_getElem
  · simp; omega
  · intro i h1 h2
    have hi : i < cs.length := by simp at h1; omega
    simp only [List.getElem_zipWith, List.getElem_range]
    rw [hfg, idx_nat_gen axes i (by omega)]

theorem zipWith_zipWith_same {α β γ δ ε : Type} (f : γ → δ → ε) (g : α → β → γ) (h : α → β → δ) :
    ∀ (as : List α) (bs : List β),
      List.zipWith f (List.zipWith g as bs) (List.zipWith h as bs) = List.zipWith (fun a b => f (g a b) (h a b)) as bs := by
  intro as
  induction as with
  | nil => intro bs; simp
  | cons a t ih => intro bs; cases bs with
    | nil => simp
    | cons b u => simp [ih]

theorem zip_zipWith_same {α β γ δ : Type} (g : α → β → γ) (h : α → β → δ) (as : List α) (bs : List β) :
    List.zip (List.zipWith g as bs) (List.zipWith h as bs) = List.zipWith (fun a b => (g a b, h a b)) as bs := by
  rw [List.zip_eq_zipWith, zipWith_zipWith_same]

/-! ### `product(*…)`, `zip(*…)`, running sums -/

theorem py_cartesian_eq {α : Type} : ∀ ls : List (List α), Rpylib.Py.cartesian ls = Rpylib.Cells.cartesian ls := by
  intro ls
  induction ls with
  | nil => rfl
  | cons xs rest ih => simp only [Rpylib.Py.cartesian, Rpylib.Cells.cartesian, ih]

/-- an interval `(a, b)` the way the code writes it: the list `[a, b]` -/
def ivl (I : Rat × Rat) : List Rat := [I.1, I.2]

theorem foldl_min_two (ls : List (Rat × Rat)) : ((ls.map ivl).map List.length).foldl min 2 = 2 := by
  induction ls with
  | nil => rfl
  | cons I t ih => simpa [ivl] using ih

/-- `a, b = zip(*c_set)` for a tuple of intervals `[lo, hi]`: `a` collects the lower ends, `b` the upper ends -/
theorem transpose_ivl (box : List (Rat × Rat)) :
    idx (transpose (box.map ivl)) 0 = box.map Prod.fst ∧ idx (transpose (box.map ivl)) 1 = box.map Prod.snd := by
  cases box with
  | nil => simp [transpose, idx]; rfl
  | cons I t =>
    have h2 : ((t.map ivl).map List.length).foldl min 2 = 2 := foldl_min_two t
    simp only [List.map_cons, transpose]
    have e : (ivl I).length = 2 := rfl
    rw [e, h2]
    simp only [List.range, List.range.loop, List.map_cons, List.map_nil, idx_zero_cons, idx_one_cons, List.map_map]
    constructor
    · simp [ivl]
    · simp [ivl]

theorem foldl_add_eq_sum {α : Type} (f : α → Rat) (l : List α) (a : Rat) :
    l.foldl (fun acc x => acc + f x) a = a + (l.map f).sum := by
  induction l generalizing a with
  | nil => simp
  | cons x t ih => simp [ih, add_assoc]

theorem zip_map_fst_snd {α β : Type} (l : List (α × β)) : List.zip (l.map Prod.fst) (l.map Prod.snd) = l := by
  induction l with
  | nil => rfl
  | cons p t ih => simp [ih]

/-- `cartesian` commutes with a map applied to every element -/
theorem cartesian_map_elems {α β : Type} (f : α → β) : ∀ ls : List (List α),
    Rpylib.Cells.cartesian (ls.map (List.map f)) = (Rpylib.Cells.cartesian ls).map (List.map f) := by
  intro ls
  induction ls with
  | nil => simp [Rpylib.Cells.cartesian]
  | cons xs rest ih =>
    simp only [List.map_cons, cartesian_cons, ih, List.flatMap_map, List.map_flatMap, List.map_map]
    congr 1

end Rpylib.SrcTie.C01
