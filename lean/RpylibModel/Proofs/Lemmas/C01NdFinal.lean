/-
C01 in general dimension d, part 3: the chain's own cells and blocks in terms of the boundary sequences, and the block sum.
-/
import RpylibModel.Proofs.Lemmas.C01NdStates
import Mathlib.Data.List.Forall2

set_option linter.dupNamespace false
set_option linter.unusedSectionVars false
set_option linter.unusedVariables false

namespace Rpylib.Cells
open Rpylib.Grid Finset

theorem mem_cartesian_map {α β : Type} (g : β → List α) (bs : List β) (t : List α) :
    t ∈ cartesian (bs.map g) ↔ List.Forall₂ (fun x b => x ∈ g b) t bs := by
  rw [mem_cartesian, List.forall₂_map_right_iff]

/-- the cell box of a state is made of consecutive boundaries of each axis -/
theorem cellBox_eq_cellsOf (mid : ℚ → ℚ → ℚ) : ∀ (t : List ℕ) (axes : List (List ℚ)),
    List.Forall₂ (fun i ax => i < ax.length) t axes → cellBox mid axes t = cellsOf (axes.map (bndOf mid)) t := by
  intro t axes h
  induction h with
  | nil => simp [cellBox, cellsOf]
  | @cons i ax t' rest hi _ ih =>
    have e : cellBox mid (ax :: rest) (i :: t') = (cellLo mid ax i, cellHi mid ax i) :: cellBox mid rest t' := by
      simp [cellBox]
    rw [e, ih]
    simp only [cellsOf, List.map_cons, List.zipWith_cons_cons, bndOf]
    unfold cellHi
    rw [cellLo_eq_bnd mid _ ax i hi, cellHiN_eq_bnd mid _ ax i hi]

/-- indices of a product of ranges of a grid lie on the axes -/
theorem idx_on_axes (o : ℕ) : ∀ (R : List (ℕ × ℕ)) (axes : List (List ℚ)),
    List.Forall₂ (fun r ax => r ∈ idxRanges ax o) R axes → (∀ ax ∈ axes, o + 1 < ax.length) →
    ∀ t, List.Forall₂ (fun i r => i ∈ rangeList r) t R → List.Forall₂ (fun i ax => i < ax.length) t axes := by
  intro R axes h
  induction h with
  | nil => intro _ t ht; cases ht; exact List.Forall₂.nil
  | @cons r ax R' rest hr _ ih =>
    intro hax t ht
    cases ht with
    | @cons i _ t' _ hi ht' =>
      refine List.Forall₂.cons ?_ (ih (fun a ha => hax a (List.mem_cons_of_mem _ ha)) t' ht')
      have hn := hax ax (List.mem_cons_self)
      unfold idxRanges at hr
      unfold rangeList at hi
      have hi' := List.mem_range'_1.mp hi
      simp only [List.mem_cons, List.not_mem_nil, or_false] at hr
      rcases hr with rfl | rfl | rfl <;> simp at hi' <;> omega

section axis
variable (mid : ℚ → ℚ → ℚ) (hm : Between mid) (hi : MidIdem mid)
include hm hi

theorem goodRange_of_mem (ax : List ℚ) (o : ℕ) (hax : AxisOK ax o) (r : ℕ × ℕ) (hr : r ∈ idxRanges ax o) :
    GoodRange (bndOf mid ax) r := by
  have hlo := hax.lo
  have hhi := hax.hi
  have hq : r.2 ≤ ax.length ∧ r.1 < r.2 := by
    unfold idxRanges at hr
    simp only [List.mem_cons, List.not_mem_nil, or_false] at hr
    rcases hr with rfl | rfl | rfl <;> simp <;> omega
  refine ⟨hq.2, ?_, ?_⟩
  · intro i _ h2; exact bnd_mono_step mid hm hi ax hax.inc i (by omega)
  · intro i _ h2; exact bnd_ne_zero mid hm hi ax o hax i (by omega)

theorem hull_away_of_nonCentre (ax : List ℚ) (o : ℕ) (hax : AxisOK ax o) (r : ℕ × ℕ) (hr : r ∈ idxRanges ax o)
    (hne : r ≠ (o, o + 1)) : Away (bndOf mid ax r.1) (bndOf mid ax r.2) := by
  have hlo := hax.lo
  have hhi := hax.hi
  unfold idxRanges at hr
  simp only [List.mem_cons, List.not_mem_nil, or_false] at hr
  rcases hr with rfl | rfl | rfl
  · exact absurd rfl hne
  · exact range_away mid hm hi ax o hax 0 o (by omega) (by omega)
  · exact range_away mid hm hi ax o hax (o + 1) ax.length (le_refl _) (by omega)

/-- `parts` of an axis (centre, left, right intervals of `compute_intensity_of_jumps`) are the hulls of its three index ranges -/
theorem parts_eq_hulls (ax : List ℚ) (o : ℕ) (hax : AxisOK ax o) :
    parts mid ax.length ax o = (idxRanges ax o).map (fun r => (bndOf mid ax r.1, bndOf mid ax r.2)) := by
  have hon : o < ax.length := by have := hax.hi; omega
  have hn : 0 < ax.length := by omega
  unfold parts idxRanges bndOf
  simp only [List.map_cons, List.map_nil]
  rw [hLeft_eq_bnd mid _ ax o hon hax.zero, hRight_eq_bnd mid _ ax o hon hax.zero,
    ← bnd_zero mid hm hi ax hax.inc hn, ← bnd_last mid hm hi ax hax.inc hn]

end axis

/-- `cartesian` commutes with an axis-wise map -/
theorem cartesian_map_axiswise {α β γ : Type} (idx : α → List β) (g : α → β → γ) : ∀ axes : List α,
    cartesian (axes.map (fun ax => (idx ax).map (g ax))) = (cartesian (axes.map idx)).map (fun R => List.zipWith g axes R) := by
  intro axes
  induction axes with
  | nil => simp [cartesian]
  | cons ax rest ih =>
    simp only [List.map_cons, cartesian_cons, ih, List.flatMap_map, List.map_flatMap, List.map_map]
    congr 1

section main
variable (mid : ℚ → ℚ → ℚ) (hm : Between mid) (hi : MidIdem mid) (axes : List (List ℚ)) (o : ℕ)
  (hax : ∀ ax ∈ axes, AxisOK ax o)
include hm hi hax

/-- the blocks of `compute_intensity_of_jumps` are the hulls of the products of index ranges, all-centre one dropped -/
theorem blocks_eq_hulls :
    blocks mid axes o =
      ((cartesian (axes.map (fun ax => idxRanges ax o))).drop 1).map (hullsOf (axes.map (bndOf mid))) := by
  unfold blocks
  have e : axes.map (fun ax => parts mid ax.length ax o) =
      axes.map (fun ax => (idxRanges ax o).map (fun r => (bndOf mid ax r.1, bndOf mid ax r.2))) :=
    List.map_congr_left (fun ax h => parts_eq_hulls mid hm hi ax o (hax ax h))
  rw [e, cartesian_map_axiswise (fun ax => idxRanges ax o) (fun ax r => (bndOf mid ax r.1, bndOf mid ax r.2)) axes,
    ← List.map_drop]
  apply List.map_congr_left
  intro R _
  unfold hullsOf
  rw [List.zipWith_map_left]

/-- **block sum, any dimension**: over a product of index ranges other than the all-centre one, the rates add up to the
    mass of the hull -/
theorem block_sum_nd (m : Box → ℚ) (hM : IsBoxMassN m) (R : List (ℕ × ℕ))
    (hR : List.Forall₂ (fun r ax => r ∈ idxRanges ax o) R axes) (hN : NonCentre o R) :
    ((cartesian (R.map rangeList)).map (rateNd mid axes o m)).sum = m (hullsOf (axes.map (bndOf mid)) R) := by
  have hlen : ∀ ax ∈ axes, o + 1 < ax.length := fun ax h => (hax ax h).hi
  -- every state of the product is a non-origin state on the axes: its rate is the mass of its cell box
  have hrate : ∀ t ∈ cartesian (R.map rangeList), rateNd mid axes o m t = m ([] ++ cellsOf (axes.map (bndOf mid)) t) := by
    intro t ht
    have hne := origin_not_in_nonCentre o axes R hR hN t ht
    unfold rateNd
    rw [if_neg hne, List.nil_append,
      cellBox_eq_cellsOf mid t axes (idx_on_axes o R axes hR hlen t ((mem_cartesian_map rangeList R t).mp ht))]
  rw [list_sum_congr _ _ _ hrate]
  have hgood : List.Forall₂ GoodRange (axes.map (bndOf mid)) R := by
    rw [List.forall₂_map_left_iff]
    have : ∀ (R : List (ℕ × ℕ)) (axes : List (List ℚ)), List.Forall₂ (fun r ax => r ∈ idxRanges ax o) R axes →
        (∀ ax ∈ axes, AxisOK ax o) → List.Forall₂ (fun ax r => GoodRange (bndOf mid ax) r) axes R := by
      intro R axes h
      induction h with
      | nil => intro _; exact List.Forall₂.nil
      | cons hr _ ih =>
        intro h'
        exact List.Forall₂.cons (goodRange_of_mem mid hm hi _ o (h' _ (List.mem_cons_self)) _ hr)
          (ih (fun a ha => h' a (List.mem_cons_of_mem _ ha)))
    exact this R axes hR hax
  have haway : BoxAway ([] ++ hullsOf (axes.map (bndOf mid)) R) := by
    rw [List.nil_append]
    have : ∀ (R : List (ℕ × ℕ)) (axes : List (List ℚ)), List.Forall₂ (fun r ax => r ∈ idxRanges ax o) R axes →
        (∀ ax ∈ axes, AxisOK ax o) → NonCentre o R → BoxAway (hullsOf (axes.map (bndOf mid)) R) := by
      intro R axes h
      induction h with
      | nil => intro _ hN; obtain ⟨r, hr, _⟩ := hN; simp at hr
      | @cons r ax R' rest hr _ ih =>
        intro h' hN
        obtain ⟨r0, hr0, hne⟩ := hN
        simp only [hullsOf, List.map_cons, List.zipWith_cons_cons]
        rcases List.mem_cons.mp hr0 with rfl | hmem
        · exact ⟨_, List.mem_cons_self, hull_away_of_nonCentre mid hm hi ax o (h' _ (List.mem_cons_self)) _ hr hne⟩
        · obtain ⟨I, hI, hw⟩ := ih (fun a ha => h' a (List.mem_cons_of_mem _ ha)) ⟨r0, hmem, hne⟩
          exact ⟨I, List.mem_cons_of_mem _ hI, hw⟩
    exact this R axes hR hax hN
  have := grid_sum_nd m hM (axes.map (bndOf mid)) R hgood [] (by intro I hI; simp at hI) haway
  rw [this, List.nil_append]

/-- **Σ over all states of a d-dimensional product grid of the rates = the intensity `compute_intensity_of_jumps` reports**
    (the 3^d − 1 blocks), for every d -/
theorem sum_rates_eq_intensity_nd (m : Box → ℚ) (hM : IsBoxMassN m) :
    (qTensor mid axes o m).sum = intensityNd mid axes o m := by
  have hlen : ∀ ax ∈ axes, o < ax.length := fun ax h => by have := (hax ax h).hi; omega
  obtain ⟨T, hT, hN⟩ := ranges_head_tail o axes (fun ax h => ⟨(hax ax h).lo, (hax ax h).hi⟩)
  unfold qTensor intensityNd
  rw [states_split o axes hlen, blocks_eq_hulls mid hm hi axes o hax, hT]
  simp only [List.map_cons, List.sum_cons, List.drop_succ_cons, List.drop_zero]
  -- the all-centre product is the origin alone, rate 0
  have hc : ((cartesian ((axes.map (fun _ => (o, o + 1))).map rangeList)).map (rateNd mid axes o m)).sum = 0 := by
    rw [centre_product]; simp [rateNd]
  rw [hc, zero_add, List.map_map]
  apply list_sum_congr
  intro R hRT
  have hRmem : R ∈ cartesian (axes.map (fun ax => idxRanges ax o)) := by rw [hT]; exact List.mem_cons_of_mem _ hRT
  have hR : List.Forall₂ (fun r ax => r ∈ idxRanges ax o) R axes :=
    (mem_cartesian_map (fun ax => idxRanges ax o) axes R).mp hRmem
  exact block_sum_nd mid hm hi axes o hax m hM R hR (hN R hRT)

end main

end Rpylib.Cells
