/-
C02, alias construction (`create_alias`, alias.py:55-94): the Walker/Vose loop as coded (LIFO stacks, two clean-up
loops) builds tables whose induced law is the input vector.  Invariant over `mainLoop`, by induction on the fuel.
-/
import RpylibModel.Model.Samplers.Alias
import RpylibModel.Proofs.Lemmas.C02Alias
import Mathlib.Algebra.BigOperators.Intervals
import Mathlib.Algebra.BigOperators.Ring.Finset
import Mathlib.Tactic.Linarith
import Mathlib.Tactic.Ring
import Mathlib.Tactic.FieldSimp
import Mathlib.Algebra.Order.Field.Rat

namespace Rpylib.Alias
open Finset

theorem upd_same {α} (f : Nat → α) (i : Nat) (v : α) : upd f i v i = v := by simp [upd]
theorem upd_other {α} (f : Nat → α) {i j : Nat} (v : α) (h : j ≠ i) : upd f i v j = f j := by simp [upd, h]

theorem map_upd_sum (q : Nat → Rat) (i : Nat) (v : Rat) : ∀ l : List Nat, i ∉ l → (l.map (upd q i v)).sum = (l.map q).sum
  | [], _ => rfl
  | x :: xs, h => by
    have hx : x ≠ i := fun e => h (by simp [e])
    have hxs : i ∉ xs := fun e => h (by simp [e])
    simp only [List.map_cons, List.sum_cons, upd_other q v hx, map_upd_sum q i v xs hxs]

theorem list_range_sum (f : Nat → Rat) : ∀ n, ((List.range n).map f).sum = ∑ x ∈ range n, f x := by
  intro n
  induction n with
  | zero => simp
  | succ n ih => rw [List.range_succ, List.map_append, List.sum_append, ih, Finset.sum_range_succ]; simp

/-- the "done" part of the Vose invariant for target `k`: what the finished columns `j` (not on a stack) with alias `k`
    give to `k` -/
def doneSum (K : Nat) (s : BState) (k : Nat) : Rat :=
  ∑ j ∈ range K, (if (j ∉ s.smaller ∧ j ∉ s.greater) ∧ s.J j = k then 1 - s.q j else 0)

structure Inv (K : Nat) (p : Nat → Rat) (s : BState) : Prop where
  ndS : s.smaller.Nodup
  ndG : s.greater.Nodup
  disj : ∀ j, j ∈ s.smaller → j ∉ s.greater
  ltS : ∀ j, j ∈ s.smaller → j < K
  ltG : ∀ j, j ∈ s.greater → j < K
  a : ∀ k, k < K → (K : Rat) * p k = s.q k + doneSum K s k
  b : ∀ j, j < K → j ∉ s.smaller → j ∉ s.greater → 0 ≤ s.q j ∧ s.q j < 1
  cS : ∀ j, j ∈ s.smaller → 0 ≤ s.q j ∧ s.q j < 1
  cG : ∀ j, j ∈ s.greater → 1 ≤ s.q j
  e : (s.smaller.map s.q).sum + (s.greater.map s.q).sum = (s.smaller.length : Rat) + s.greater.length

/-- parts (a) and (b) after one step, for any new pair of stacks with the right membership -/
theorem step_ab {K : Nat} {p : Nat → Rat} {q : Nat → Rat} {J : Nat → Nat} {small great : Nat} {ss gs sm' gr' : List Nat}
    (h : Inv K p ⟨q, J, small :: ss, great :: gs⟩)
    (hmem : ∀ j, (j ∉ sm' ∧ j ∉ gr') ↔ (j ≠ great ∧ j ∉ ss ∧ j ∉ gs)) :
    (∀ k, k < K → (K : Rat) * p k = upd q great (q great + q small - 1) k +
        doneSum K ⟨upd q great (q great + q small - 1), upd J small great, sm', gr'⟩ k) ∧
    (∀ j, j < K → j ∉ sm' → j ∉ gr' → 0 ≤ upd q great (q great + q small - 1) j ∧ upd q great (q great + q small - 1) j < 1) := by
  have hsg : small ≠ great := fun e => h.disj small (by simp) (by simp [e])
  have hs_ss : small ∉ ss := (List.nodup_cons.mp h.ndS).1
  have hs_gs : small ∉ gs := fun e => h.disj small (by simp) (by simp [e])
  have hsK : small < K := h.ltS small (by simp)
  have hcs := h.cS small (by simp)
  constructor
  · intro k hk
    have hterm : ∀ j, (if (j ∉ sm' ∧ j ∉ gr') ∧ upd J small great j = k then 1 - upd q great (q great + q small - 1) j else 0)
        = (if (j ∉ small :: ss ∧ j ∉ great :: gs) ∧ J j = k then 1 - q j else 0) +
          (if j = small then (if great = k then 1 - q small else 0) else 0) := by
      intro j
      by_cases hj : j = small
      · rw [hj]
        have c1 : (small ∉ sm' ∧ small ∉ gr') := (hmem small).mpr ⟨hsg, hs_ss, hs_gs⟩
        have c2 : ¬ ((small ∉ small :: ss ∧ small ∉ great :: gs) ∧ J small = k) := fun hh => hh.1.1 (by simp)
        rw [if_neg c2, if_pos rfl, zero_add, upd_same, upd_other q _ hsg]
        by_cases hgk : great = k
        · rw [if_pos ⟨c1, hgk⟩, if_pos hgk]
        · rw [if_neg (fun hh => hgk hh.2), if_neg hgk]
      · rw [if_neg hj, add_zero, upd_other J _ hj]
        by_cases hc : (j ∉ sm' ∧ j ∉ gr')
        · obtain ⟨g1, g2, g3⟩ := (hmem j).mp hc
          have hc' : (j ∉ small :: ss ∧ j ∉ great :: gs) := by
            constructor <;> simp [hj, g1, g2, g3]
          rw [upd_other q _ g1]
          by_cases hJ : J j = k
          · rw [if_pos ⟨hc, hJ⟩, if_pos ⟨hc', hJ⟩]
          · rw [if_neg (fun hh => hJ hh.2), if_neg (fun hh => hJ hh.2)]
        · have hc' : ¬ (j ∉ small :: ss ∧ j ∉ great :: gs) := by
            intro hh
            apply hc
            apply (hmem j).mpr
            refine ⟨fun e => hh.2 (by simp [e]), fun e => hh.1 (by simp [e]), fun e => hh.2 (by simp [e])⟩
          rw [if_neg (fun hh => hc hh.1), if_neg (fun hh => hc' hh.1)]
    have hD : doneSum K ⟨upd q great (q great + q small - 1), upd J small great, sm', gr'⟩ k
        = doneSum K ⟨q, J, small :: ss, great :: gs⟩ k + (if great = k then 1 - q small else 0) := by
      unfold doneSum
      simp only []
      rw [Finset.sum_congr rfl (fun j _ => hterm j), Finset.sum_add_distrib, Finset.sum_ite_eq' (range K) small]
      simp [hsK]
    rw [hD, h.a k hk]
    by_cases hgk : great = k
    · subst hgk; rw [upd_same, if_pos rfl]; simp only []; ring
    · rw [upd_other q _ (fun e => hgk e.symm), if_neg hgk]; simp only []; ring
  · intro j hj h1 h2
    obtain ⟨g1, g2, g3⟩ := (hmem j).mp ⟨h1, h2⟩
    rw [upd_other q _ g1]
    by_cases hjs : j = small
    · rw [hjs]; exact hcs
    · exact h.b j hj (by simp [hjs, g2]) (by simp [g1, g3])

/-- one iteration of the main loop (alias.py:72-81) preserves the invariant, in both branches -/
theorem step_inv {K : Nat} {p : Nat → Rat} {q : Nat → Rat} {J : Nat → Nat} {small great : Nat} {ss gs : List Nat}
    (h : Inv K p ⟨q, J, small :: ss, great :: gs⟩) :
    (q great + q small - 1 < 1 → Inv K p ⟨upd q great (q great + q small - 1), upd J small great, great :: ss, gs⟩) ∧
    (¬ q great + q small - 1 < 1 → Inv K p ⟨upd q great (q great + q small - 1), upd J small great, ss, great :: gs⟩) := by
  have hsg : small ≠ great := fun e => h.disj small (by simp) (by simp [e])
  have hs_ss : small ∉ ss := (List.nodup_cons.mp h.ndS).1
  have hndss : ss.Nodup := (List.nodup_cons.mp h.ndS).2
  have hg_gs : great ∉ gs := (List.nodup_cons.mp h.ndG).1
  have hndgs : gs.Nodup := (List.nodup_cons.mp h.ndG).2
  have hg_ss : great ∉ ss := fun e => h.disj great (by simp [e]) (by simp)
  have hcs := h.cS small (by simp)
  have hcg := h.cG great (by simp)
  have he := h.e
  simp only [List.map_cons, List.sum_cons, List.length_cons, Nat.cast_add, Nat.cast_one] at he
  constructor
  · intro hlt
    obtain ⟨a', b'⟩ := step_ab (sm' := great :: ss) (gr' := gs) h (by
      intro j; simp only [List.mem_cons, not_or]; tauto)
    refine ⟨List.nodup_cons.mpr ⟨hg_ss, hndss⟩, hndgs, ?_, ?_, ?_, a', b', ?_, ?_, ?_⟩
    · intro j hj hjg
      rcases List.mem_cons.mp hj with rfl | hj
      · exact hg_gs hjg
      · exact h.disj j (by simp [hj]) (by simp [hjg])
    · intro j hj
      rcases List.mem_cons.mp hj with rfl | hj
      · exact h.ltG _ (by simp)
      · exact h.ltS j (by simp [hj])
    · intro j hj; exact h.ltG j (by simp [hj])
    · intro j hj
      rcases List.mem_cons.mp hj with rfl | hj
      · simp only [upd_same]; constructor <;> linarith [hcs.1, hcs.2]
      · have : j ≠ great := fun e => hg_ss (e ▸ hj)
        simp only [upd_other q _ this]; exact h.cS j (by simp [hj])
    · intro j hj
      have : j ≠ great := fun e => hg_gs (e ▸ hj)
      simp only [upd_other q _ this]; exact h.cG j (by simp [hj])
    · simp only [List.map_cons, List.sum_cons, List.length_cons, Nat.cast_add, Nat.cast_one, upd_same,
        map_upd_sum q great _ ss hg_ss, map_upd_sum q great _ gs hg_gs]
      linarith
  · intro hge
    obtain ⟨a', b'⟩ := step_ab (sm' := ss) (gr' := great :: gs) h (by
      intro j; simp only [List.mem_cons, not_or]; tauto)
    refine ⟨hndss, h.ndG, ?_, ?_, h.ltG, a', b', ?_, ?_, ?_⟩
    · intro j hj; exact h.disj j (by simp [hj])
    · intro j hj; exact h.ltS j (by simp [hj])
    · intro j hj
      have : j ≠ great := fun e => hg_ss (e ▸ hj)
      simp only [upd_other q _ this]; exact h.cS j (by simp [hj])
    · intro j hj
      rcases List.mem_cons.mp hj with rfl | hj
      · simp only [upd_same]; linarith
      · have : j ≠ great := fun e => hg_gs (e ▸ hj)
        simp only [upd_other q _ this]; exact h.cG j (by simp [hj])
    · simp only [List.map_cons, List.sum_cons, List.length_cons, Nat.cast_add, Nat.cast_one, upd_same,
        map_upd_sum q great _ ss hg_ss, map_upd_sum q great _ gs hg_gs]
      linarith

theorem mainLoop_inv {K : Nat} {p : Nat → Rat} : ∀ (fuel : Nat) (s : BState), Inv K p s → Inv K p (mainLoop fuel s) := by
  intro fuel
  induction fuel with
  | zero => intro s h; exact h
  | succ fuel ih =>
    intro s h
    obtain ⟨q, J, sm, gr⟩ := s
    cases gr with
    | nil => simpa [mainLoop] using h
    | cons great gs =>
      cases sm with
      | nil => simpa [mainLoop] using h
      | cons small ss =>
        obtain ⟨h1, h2⟩ := step_inv h
        simp only [mainLoop]
        split
        · rename_i hlt; exact ih _ (h1 hlt)
        · rename_i hge; exact ih _ (h2 hge)

/-- with fuel ≥ number of stacked indices the loop ends because a stack is empty (never because of the fuel) -/
theorem mainLoop_ends : ∀ (fuel : Nat) (s : BState), s.smaller.length + s.greater.length ≤ fuel →
    (mainLoop fuel s).smaller = [] ∨ (mainLoop fuel s).greater = [] := by
  intro fuel
  induction fuel with
  | zero =>
    intro s h
    have : s.smaller.length = 0 := by omega
    left; simpa [mainLoop] using List.length_eq_zero_iff.mp this
  | succ fuel ih =>
    intro s h
    obtain ⟨q, J, sm, gr⟩ := s
    cases gr with
    | nil => right; simp [mainLoop]
    | cons great gs =>
      cases sm with
      | nil => left; simp [mainLoop]
      | cons small ss =>
        simp only [mainLoop]
        simp only [List.length_cons] at h
        split
        · exact ih _ (by simp only [List.length_cons]; omega)
        · exact ih _ (by simp only [List.length_cons]; omega)


/-! ### the classification loop (alias.py:65-70) -/

theorem classify_spec (q : Nat → Rat) : ∀ n,
    (∀ j, (j ∈ (classify q n).1 ∨ j ∈ (classify q n).2) ↔ j < n) ∧
    (classify q n).1.Nodup ∧ (classify q n).2.Nodup ∧
    (∀ j, j ∈ (classify q n).1 → j ∉ (classify q n).2) ∧
    (∀ j, j ∈ (classify q n).1 → q j < 1) ∧ (∀ j, j ∈ (classify q n).2 → 1 ≤ q j) ∧
    (((classify q n).1.map q).sum + ((classify q n).2.map q).sum = ∑ l ∈ range n, q l) ∧
    ((classify q n).1.length + (classify q n).2.length = n) := by
  intro n
  induction n with
  | zero => simp [classify]
  | succ n ih =>
    rcases hc : classify q n with ⟨sm, gr⟩
    rw [hc] at ih
    obtain ⟨m, n1, n2, dj, c1, c2, sm_, ln⟩ := ih
    simp only at m n1 n2 dj c1 c2 sm_ ln
    have hnsm : n ∉ sm := fun e => by have := (m n).mp (Or.inl e); omega
    have hngr : n ∉ gr := fun e => by have := (m n).mp (Or.inr e); omega
    by_cases hq : q n < 1
    · have e : classify q (n + 1) = (n :: sm, gr) := by simp [classify, hc, hq]
      rw [e]; simp only
      refine ⟨?_, List.nodup_cons.mpr ⟨hnsm, n1⟩, n2, ?_, ?_, c2, ?_, ?_⟩
      · intro j; simp only [List.mem_cons]
        have := m j
        constructor
        · rintro ((rfl | h) | h)
          · omega
          · have := this.mp (Or.inl h); omega
          · have := this.mp (Or.inr h); omega
        · intro h
          rcases Nat.lt_succ_iff_lt_or_eq.mp h with h | h
          · rcases this.mpr h with h | h
            · exact Or.inl (Or.inr h)
            · exact Or.inr h
          · exact Or.inl (Or.inl h)
      · intro j hj
        rcases List.mem_cons.mp hj with rfl | hj
        · exact hngr
        · exact dj j hj
      · intro j hj
        rcases List.mem_cons.mp hj with rfl | hj
        · exact hq
        · exact c1 j hj
      · rw [Finset.sum_range_succ, ← sm_]; simp only [List.map_cons, List.sum_cons]; ring
      · simp only [List.length_cons]; omega
    · have e : classify q (n + 1) = (sm, n :: gr) := by simp [classify, hc, hq]
      rw [e]; simp only
      refine ⟨?_, n1, List.nodup_cons.mpr ⟨hngr, n2⟩, ?_, c1, ?_, ?_, ?_⟩
      · intro j; simp only [List.mem_cons]
        have := m j
        constructor
        · rintro (h | (rfl | h))
          · have := this.mp (Or.inl h); omega
          · omega
          · have := this.mp (Or.inr h); omega
        · intro h
          rcases Nat.lt_succ_iff_lt_or_eq.mp h with h | h
          · rcases this.mpr h with h | h
            · exact Or.inl h
            · exact Or.inr (Or.inr h)
          · exact Or.inr (Or.inl h)
      · intro j hj hjg
        rcases List.mem_cons.mp hjg with rfl | hjg
        · exact hnsm hj
        · exact dj j hj hjg
      · intro j hj
        rcases List.mem_cons.mp hj with rfl | hj
        · exact not_lt.mp hq
        · exact c2 j hj
      · rw [Finset.sum_range_succ, ← sm_]; simp only [List.map_cons, List.sum_cons]; ring
      · simp only [List.length_cons]; omega

/-- the invariant holds when the main loop starts: nothing is finished, `q = K p`, `Σ q = K` -/
theorem init_inv (K : Nat) (p : Nat → Rat) (hp : ∀ l, l < K → 0 ≤ p l) (hsum : ∑ l ∈ range K, p l = 1) :
    Inv K p ⟨fun l => p l * K, fun _ => 0, (classify (fun l => p l * K) K).1, (classify (fun l => p l * K) K).2⟩ := by
  obtain ⟨m, n1, n2, dj, c1, c2, sm_, ln⟩ := classify_spec (fun l => p l * K) K
  refine ⟨n1, n2, dj, fun j hj => (m j).mp (Or.inl hj), fun j hj => (m j).mp (Or.inr hj), ?_, ?_, ?_, c2, ?_⟩
  · intro k hk
    have : doneSum K ⟨fun l => p l * K, fun _ => 0, (classify (fun l => p l * K) K).1, (classify (fun l => p l * K) K).2⟩ k = 0 := by
      unfold doneSum
      apply Finset.sum_eq_zero
      intro j hj
      have hjK : j < K := Finset.mem_range.mp hj
      rw [if_neg]
      intro hh
      rcases (m j).mpr hjK with h | h
      · exact hh.1.1 h
      · exact hh.1.2 h
    rw [this]; simp only []; ring
  · intro j hj h1 h2
    rcases (m j).mpr hj with h | h
    · exact absurd h h1
    · exact absurd h h2
  · intro j hj
    have hjK : j < K := (m j).mp (Or.inl hj)
    exact ⟨mul_nonneg (hp j hjK) (Nat.cast_nonneg K), c1 j hj⟩
  · simp only at sm_ ⊢
    rw [sm_, ← Finset.sum_mul, hsum, one_mul]
    have : ((classify (fun l => p l * K) K).1.length : Rat) + ((classify (fun l => p l * K) K).2.length : Rat) = ((((classify (fun l => p l * K) K).1.length + (classify (fun l => p l * K) K).2.length : Nat)) : Rat) := by
      push_cast; ring
    rw [this, ln]

/-! ### the end of the loop and the clean-up loops (alias.py:84-92) -/

theorem sum_le_length (f : Nat → Rat) : ∀ l : List Nat, (∀ x, x ∈ l → f x ≤ 1) → (l.map f).sum ≤ l.length
  | [], _ => by simp
  | x :: xs, h => by
    have := sum_le_length f xs (fun y hy => h y (by simp [hy]))
    have := h x (by simp)
    simp only [List.map_cons, List.sum_cons, List.length_cons, Nat.cast_add, Nat.cast_one]; linarith

theorem length_le_sum (f : Nat → Rat) : ∀ l : List Nat, (∀ x, x ∈ l → 1 ≤ f x) → (l.length : Rat) ≤ (l.map f).sum
  | [], _ => by simp
  | x :: xs, h => by
    have := length_le_sum f xs (fun y hy => h y (by simp [hy]))
    have := h x (by simp)
    simp only [List.map_cons, List.sum_cons, List.length_cons, Nat.cast_add, Nat.cast_one]; linarith

/-- all entries < 1 and sum = length: the list is empty -/
theorem nil_of_lt_one (f : Nat → Rat) : ∀ l : List Nat, (∀ x, x ∈ l → f x < 1) → (l.map f).sum = l.length → l = []
  | [], _, _ => rfl
  | x :: xs, h, hs => by
    have := sum_le_length f xs (fun y hy => (h y (by simp [hy])).le)
    have := h x (by simp)
    simp only [List.map_cons, List.sum_cons, List.length_cons, Nat.cast_add, Nat.cast_one] at hs; linarith

/-- all entries ≥ 1 and sum = length: every entry is 1 -/
theorem all_one_of_ge_one (f : Nat → Rat) : ∀ l : List Nat, (∀ x, x ∈ l → 1 ≤ f x) → (l.map f).sum = l.length →
    ∀ x, x ∈ l → f x = 1
  | [], _, _ => by simp
  | x :: xs, h, hs => by
    have h1 := length_le_sum f xs (fun y hy => h y (by simp [hy]))
    have h2 := h x (by simp)
    simp only [List.map_cons, List.sum_cons, List.length_cons, Nat.cast_add, Nat.cast_one] at hs
    intro y hy
    rcases List.mem_cons.mp hy with rfl | hy
    · linarith
    · exact all_one_of_ge_one f xs (fun z hz => h z (by simp [hz])) (by linarith) y hy

theorem setOnes_apply : ∀ (l : List Nat) (q : Nat → Rat) (j : Nat), setOnes q l j = if j ∈ l then 1 else q j
  | [], q, j => by simp [setOnes]
  | i :: is, q, j => by
    rw [setOnes, setOnes_apply is (upd q i 1) j]
    by_cases h1 : j ∈ is
    · simp [h1]
    · by_cases h2 : j = i
      · subst h2; simp [h1, upd_same]
      · simp [h1, h2, upd_other q _ h2]

theorem clamp01_id {y : Rat} (h0 : 0 ≤ y) (h1 : y ≤ 1) : clamp01 y = y := by
  unfold clamp01; rw [if_neg (not_lt.mpr h0), if_neg (not_lt.mpr h1)]

/-- from the invariant at a state where one stack is empty: the law of the final tables -/
theorem final_law_of_inv {K : Nat} (hK : 0 < K) {p : Nat → Rat} {s : BState} (h : Inv K p s)
    (hend : s.smaller = [] ∨ s.greater = []) (k : Nat) (hk : k < K) :
    lawOfTables ⟨K, setOnes (setOnes s.q s.greater) s.smaller, s.J⟩ k = p k := by
  -- every index still on a stack has q = 1 (exact arithmetic): the clean-up loops change nothing
  have hlive : ∀ j, (j ∈ s.smaller ∨ j ∈ s.greater) → s.q j = 1 := by
    have he := h.e
    rcases hend with h0 | h0
    · rw [h0] at he; simp only [List.map_nil, List.sum_nil, List.length_nil, Nat.cast_zero, zero_add] at he
      have hall := all_one_of_ge_one s.q s.greater h.cG he
      intro j hj
      rcases hj with hj | hj
      · rw [h0] at hj; simp at hj
      · exact hall j hj
    · rw [h0] at he; simp only [List.map_nil, List.sum_nil, List.length_nil, Nat.cast_zero, add_zero] at he
      have hnil := nil_of_lt_one s.q s.smaller (fun x hx => (h.cS x hx).2) he
      intro j hj
      rcases hj with hj | hj
      · rw [hnil] at hj; simp at hj
      · rw [h0] at hj; simp at hj
  have hqf : ∀ j, setOnes (setOnes s.q s.greater) s.smaller j = s.q j := by
    intro j
    rw [setOnes_apply, setOnes_apply]
    by_cases h1 : j ∈ s.smaller
    · rw [if_pos h1, hlive j (Or.inl h1)]
    · rw [if_neg h1]
      by_cases h2 : j ∈ s.greater
      · rw [if_pos h2, hlive j (Or.inr h2)]
      · rw [if_neg h2]
  have hrange : ∀ j, j < K → 0 ≤ s.q j ∧ s.q j ≤ 1 := by
    intro j hj
    by_cases h1 : j ∈ s.smaller
    · rw [hlive j (Or.inl h1)]; norm_num
    · by_cases h2 : j ∈ s.greater
      · rw [hlive j (Or.inr h2)]; norm_num
      · have := h.b j hj h1 h2; exact ⟨this.1, this.2.le⟩
  unfold lawOfTables
  simp only []
  rw [list_range_sum]
  have hterm : ∀ x, x ∈ range K →
      (if x = k then clamp01 (setOnes (setOnes s.q s.greater) s.smaller x) else 0) +
        (if s.J x = k then 1 - clamp01 (setOnes (setOnes s.q s.greater) s.smaller x) else 0)
      = (if x = k then s.q x else 0) + (if (x ∉ s.smaller ∧ x ∉ s.greater) ∧ s.J x = k then 1 - s.q x else 0) := by
    intro x hx
    have hxK : x < K := Finset.mem_range.mp hx
    rw [hqf x, clamp01_id (hrange x hxK).1 (hrange x hxK).2]
    congr 1
    by_cases hJ : s.J x = k
    · by_cases hl : (x ∉ s.smaller ∧ x ∉ s.greater)
      · rw [if_pos hJ, if_pos ⟨hl, hJ⟩]
      · rw [if_pos hJ, if_neg (fun hh => hl hh.1)]
        have : x ∈ s.smaller ∨ x ∈ s.greater := by
          by_contra hc; exact hl ⟨fun e => hc (Or.inl e), fun e => hc (Or.inr e)⟩
        rw [hlive x this]; ring
    · rw [if_neg hJ, if_neg (fun hh => hJ hh.2)]
  rw [Finset.sum_congr rfl hterm, Finset.sum_add_distrib, Finset.sum_ite_eq' (range K) k]
  have ha := h.a k hk
  unfold doneSum at ha
  rw [if_pos (Finset.mem_range.mpr hk), ← ha]
  have hKq : (K : Rat) ≠ 0 := by exact_mod_cast (Nat.pos_iff_ne_zero.mp hK)
  field_simp

/-- **alias construction**: `create_alias` as coded realises the input vector, for every size and every vector -/
theorem build_law_finset (K : Nat) (hK : 0 < K) (p : Nat → Rat) (hp : ∀ l, l < K → 0 ≤ p l)
    (hsum : ∑ l ∈ range K, p l = 1) (k : Nat) (hk : k < K) : lawOfTables (build K p) k = p k := by
  have hI := init_inv K p hp hsum
  have hln := (classify_spec (fun l => p l * K) K).2.2.2.2.2.2.2
  have hb : build K p = ⟨K, setOnes (setOnes (mainLoop K ⟨fun l => p l * K, fun _ => 0,
      (classify (fun l => p l * K) K).1, (classify (fun l => p l * K) K).2⟩).q
        (mainLoop K ⟨fun l => p l * K, fun _ => 0, (classify (fun l => p l * K) K).1, (classify (fun l => p l * K) K).2⟩).greater)
        (mainLoop K ⟨fun l => p l * K, fun _ => 0, (classify (fun l => p l * K) K).1, (classify (fun l => p l * K) K).2⟩).smaller,
      (mainLoop K ⟨fun l => p l * K, fun _ => 0, (classify (fun l => p l * K) K).1, (classify (fun l => p l * K) K).2⟩).J⟩ := by
    unfold build; rfl
  rw [hb]
  exact final_law_of_inv hK (mainLoop_inv K _ hI) (mainLoop_ends K _ (by simp only []; omega)) k hk

end Rpylib.Alias
