/-
Helper lemma for C11: a function convex on (0,∞) has the slope property required by `ClaytonGen.psi_slope`
(increments over a fixed step increase with the base point).
-/
import Mathlib.Analysis.Convex.Slope
import Mathlib.Tactic.Linarith

namespace Rpylib.Copula

theorem slope_of_convexOn {K : Type} [Field K] [LinearOrder K] [IsStrictOrderedRing K] (f : K → K)
    (hf : ConvexOn K (Set.Ioi 0) f) (s t δ : K) (hs : 0 < s) (hst : s ≤ t) (hδ : 0 ≤ δ) :
    f (s + δ) - f s ≤ f (t + δ) - f t := by
  rcases eq_or_lt_of_le hδ with rfl | hδ
  · simp
  rcases eq_or_lt_of_le hst with rfl | hst
  · exact le_rfl
  have ht : 0 < t := lt_trans hs hst
  have m1 : s ∈ Set.Ioi (0 : K) := hs
  have m2 : s + δ ∈ Set.Ioi (0 : K) := by show 0 < s + δ; linarith
  have m3 : t ∈ Set.Ioi (0 : K) := ht
  have m4 : t + δ ∈ Set.Ioi (0 : K) := by show 0 < t + δ; linarith
  -- slope(s, s+δ) ≤ slope(s, t+δ) ≤ slope(t, t+δ)
  have h1 := hf.secant_mono m1 m2 m4 (by linarith [hδ] : s + δ ≠ s) (by intro h; linarith : t + δ ≠ s) (by linarith)
  have h2 := hf.secant_mono m4 m1 m3 (by intro h; linarith : s ≠ t + δ) (by intro h; linarith : t ≠ t + δ) hst.le
  have e1 : s + δ - s = δ := by ring
  have e2 : t - (t + δ) = -δ := by ring
  rw [e1] at h1
  rw [e2] at h2
  have h3 : (f s - f (t + δ)) / (s - (t + δ)) = (f (t + δ) - f s) / (t + δ - s) := by
    rw [← neg_div_neg_eq]; congr 1 <;> ring
  have h4 : (f t - f (t + δ)) / -δ = (f (t + δ) - f t) / δ := by
    rw [← neg_div_neg_eq]; congr 1 <;> ring
  rw [h3, h4] at h2
  have := le_trans h1 h2
  rwa [div_le_div_iff_of_pos_right hδ] at this

end Rpylib.Copula
