/-
C18 — exactness of the COS formula (helper file).  For a log-moneyness density `f` that
  (T) vanishes outside [a,b]                                   ("no truncation error") and
  (S) equals a cosine expansion with N terms on [a,b]          ("no series error"),
the series the code evaluates — `Σ'_{k<N} Re(φ(u_k) e^{-i u_k a}) · V_k` with the model's own coefficient formulas
`uPut`/`chiOf`/`psiOf`/`vDigital` — equals `∫ payoff · f` exactly: orthogonality of the cosine system + the
coefficient integrals of Lemmas/C18Integrals.lean.
-/
import RpylibModel.Model.Pricers
import RpylibModel.Proofs.Lemmas.C18Ortho
import Mathlib.MeasureTheory.Integral.Bochner.Set

namespace Rpylib.Pricers.Cos
open Real intervalIntegral Finset Rpylib.Pricers.Integrals MeasureTheory

/-! ### the model's first-term-halved list sum as a weighted Finset sum -/

theorem list_sum_map_range (t : ℕ → ℝ) (n : ℕ) : ((List.range n).map t).sum = ∑ k ∈ range n, t k := by
  induction n with
  | zero => simp
  | succ n ih => rw [List.range_succ, List.map_append, List.sum_append, ih, sum_range_succ]; simp

theorem halfFirstSum_range (t : ℕ → ℝ) (N : ℕ) :
    halfFirstSum ((List.range N).map t) = ∑ k ∈ range N, wt k * t k := by
  cases N with
  | zero => simp [halfFirstSum]
  | succ n =>
    rw [List.range_succ_eq_map, List.map_cons, List.map_map, sum_range_succ']
    simp only [halfFirstSum]
    rw [list_sum_map_range]
    have : ∀ k ∈ range n, wt (k + 1) * t (k + 1) = (t ∘ Nat.succ) k := by
      intro k _; simp [wt]
    rw [sum_congr rfl this]
    simp [wt]; ring

/-! ### the hypotheses and the series -/

/-- "no truncation error and no series error" for the log-moneyness density `f` on the COS interval [a,b] with N terms -/
structure ExactOn (a b : ℝ) (N : ℕ) (f : ℝ → ℝ) : Prop where
  /-- (T) the density is supported in the truncation interval -/
  supp : ∀ y, y ∉ Set.Icc a b → f y = 0
  /-- (S) on the interval the density equals its cosine expansion with N terms -/
  series : ∃ A : ℕ → ℝ, ∀ y ∈ Set.Icc a b, f y = cosPoly a b N A y

/-- the transform value of the k-th term, `Re(φ(u_k)·e^{-i u_k a}) = ∫_a^b f(y) cos(u_k (y-a)) dy`
(cosmethod.py:136-137: `phi_s * exp_s` at the frequency `cst[k]`; see `cf_re_eq` in Proofs/C18.lean) -/
noncomputable def reCoef (a b : ℝ) (f : ℝ → ℝ) (k : ℕ) : ℝ := ∫ y in a..b, f y * cosK a b k y

/-- the density coefficient `F_k = 2/(b-a) · Re(φ(u_k) e^{-i u_k a})` (cosmethod.py:78, `fk` of `density`) -/
noncomputable def fCoef (a b : ℝ) (f : ℝ → ℝ) (k : ℕ) : ℝ := 2 / (b - a) * reCoef a b f k

/-- `sum(phi_s * weights * vk * exp_s).real` (cosmethod.py:137-139) through the model's `halfFirstSum` -/
noncomputable def cosSeries (a b : ℝ) (N : ℕ) (f : ℝ → ℝ) (V : ℕ → ℝ) : ℝ :=
  halfFirstSum ((List.range N).map fun k => reCoef a b f k * V k)

/-- integral over ℝ of a function vanishing outside [a,b] -/
theorem integral_eq_interval (g : ℝ → ℝ) (a b : ℝ) (hab : a ≤ b) (hg : ∀ y, y ∉ Set.Icc a b → g y = 0) :
    ∫ y, g y = ∫ y in a..b, g y := by
  rw [intervalIntegral.integral_of_le hab, ← integral_Icc_eq_integral_Ioc,
    setIntegral_eq_integral_of_forall_compl_eq_zero hg]

/-- **COS is exact under (T) and (S)** for any interval-integrable payoff `v` whose coefficients are
`V k = 2/(b-a) ∫_a^b v cos_k` -/
theorem cosSeries_exact (a b : ℝ) (hab : a < b) (N : ℕ) (f : ℝ → ℝ) (hf : ExactOn a b N f)
    (v : ℝ → ℝ) (hv : IntervalIntegrable v volume a b) (V : ℕ → ℝ)
    (hV : ∀ k < N, V k = 2 / (b - a) * ∫ y in a..b, v y * cosK a b k y) :
    cosSeries a b N f V = ∫ y, v y * f y := by
  obtain ⟨A, hA⟩ := hf.series
  have hIcc : Set.uIcc a b = Set.Icc a b := Set.uIcc_of_le hab.le
  rw [integral_eq_interval _ a b hab.le (fun y hy => by rw [hf.supp y hy, mul_zero])]
  have e1 : ∫ y in a..b, v y * f y = ∫ y in a..b, v y * cosPoly a b N A y :=
    integral_congr (fun y hy => by rw [hIcc] at hy; simp only [hA y hy])
  have e2 : ∀ k, reCoef a b f k = ∫ y in a..b, cosPoly a b N A y * cosK a b k y := fun k =>
    integral_congr (fun y hy => by rw [hIcc] at hy; simp only [hA y hy])
  rw [e1, cos_parseval a b hab N A v hv]
  unfold cosSeries
  rw [halfFirstSum_range]
  refine sum_congr rfl fun k hk => ?_
  rw [e2 k, hV k (mem_range.mp hk)]

/-- **what the COS series computes for ANY `f`** (no hypothesis on `f`): the integral over [a,b] of the payoff against the
N-term cosine partial sum of `f` built from the coefficients `F_k = 2/(b-a)·reCoef k`.  Hence
`COS − ∫ v f = ∫_a^b v·(P_N f − f) − ∫_{ℝ∖[a,b]} v f` : series error and truncation error are the only two terms (a third
one, `reCoef` taken from the transform over ℝ instead of over [a,b], vanishes under (T)). -/
theorem cosSeries_eq_partialSum (a b : ℝ) (hab : a < b) (N : ℕ) (f : ℝ → ℝ)
    (v : ℝ → ℝ) (hv : IntervalIntegrable v volume a b) (V : ℕ → ℝ)
    (hV : ∀ k < N, V k = 2 / (b - a) * ∫ y in a..b, v y * cosK a b k y) :
    cosSeries a b N f V = ∫ y in a..b, v y * cosPoly a b N (fun k => 2 / (b - a) * reCoef a b f k) y := by
  have hL : b - a ≠ 0 := by linarith
  rw [cos_parseval a b hab N _ v hv]
  unfold cosSeries
  rw [halfFirstSum_range]
  refine sum_congr rfl fun k hk => ?_
  have hc := coeff_cosPoly a b hab N (fun k => 2 / (b - a) * reCoef a b f k) k (mem_range.mp hk)
  have : ∫ y in a..b, cosPoly a b N (fun k => 2 / (b - a) * reCoef a b f k) y * cosK a b k y = reCoef a b f k := by
    have h2 : (2 / (b - a)) ≠ 0 := by positivity
    exact mul_left_cancel₀ h2 hc
  rw [this, hV k (mem_range.mp hk)]

/-- the density coefficients computed from the transform are the expansion coefficients (no aliasing) -/
theorem fCoef_exact (a b : ℝ) (hab : a < b) (N : ℕ) (A : ℕ → ℝ) (f : ℝ → ℝ)
    (hA : ∀ y ∈ Set.Icc a b, f y = cosPoly a b N A y) (k : ℕ) (hk : k < N) : fCoef a b f k = A k := by
  have hIcc : Set.uIcc a b = Set.Icc a b := Set.uIcc_of_le hab.le
  unfold fCoef reCoef
  rw [← coeff_cosPoly a b hab N A k hk]
  congr 1
  exact integral_congr (fun y hy => by rw [hIcc] at hy; simp only [hA y hy])

/-! ### the payoff coefficients of the code are the payoff's cosine coefficients -/

/-- `COSPricer.u_put(k, a, b)` over ℝ: the model's `uPut`, `chiOf`, `psiOf` fed with the real transcendental values
(cosmethod.py:120-127: `2/(b-a) * (-xi(k,a,b,a,0) + psi(k,a,b,a,0))`) -/
noncomputable def uPutR (a b : ℝ) (k : ℕ) : ℝ :=
  uPut a b
    (chiOf (freq a b k) (cos (freq a b k * (0 - a))) (sin (freq a b k * (0 - a))) (exp 0)
      (cos (freq a b k * (a - a))) (sin (freq a b k * (a - a))) (exp a))
    (psiOf (k == 0) (freq a b k) (sin (freq a b k * (0 - a))) (sin (freq a b k * (a - a))) a 0)

/-- digital coefficients over ℝ (cosmethod.py:207: `2/(b-a) * psi(k,a,b,0,b)`) -/
noncomputable def vDigR (a b : ℝ) (k : ℕ) : ℝ :=
  vDigital a b (psiOf (k == 0) (freq a b k) (sin (freq a b k * (b - a))) (sin (freq a b k * (0 - a))) 0 b)

theorem freq_ne_zero (a b : ℝ) (hab : a < b) (k : ℕ) (hk : k ≠ 0) : freq a b k ≠ 0 := by
  unfold freq
  have h1 : (k : ℝ) ≠ 0 := by exact_mod_cast hk
  have h2 : b - a ≠ 0 := by linarith
  have := Real.pi_ne_zero
  positivity

/-- strike-normalised put payoff in log-moneyness `y = log(S_T/K)` -/
noncomputable def putPay (y : ℝ) : ℝ := max (1 - exp y) 0

/-- digital payoff in log-moneyness: pays 1 iff `S_T > K` -/
noncomputable def digPay (y : ℝ) : ℝ := if 0 < y then 1 else 0

theorem continuous_putPay : Continuous putPay := by unfold putPay; fun_prop

theorem monotone_digPay : Monotone digPay := by
  intro x y h
  unfold digPay
  by_cases hx : 0 < x
  · have : 0 < y := lt_of_lt_of_le hx h
    simp [hx, this]
  · simp only [hx, if_false]; split <;> norm_num

/-- `∫_a^b (1-e^y)^+ cos_k = ∫_a^0 (1-e^y) cos_k` for `a ≤ 0 ≤ b` -/
theorem integral_putPay_cosK (a b : ℝ) (ha : a ≤ 0) (hb : 0 ≤ b) (k : ℕ) :
    ∫ y in a..b, putPay y * cosK a b k y = ∫ y in a..(0:ℝ), (1 - exp y) * cosK a b k y := by
  have hc : Continuous fun y => putPay y * cosK a b k y := continuous_putPay.mul (continuous_cosK a b k)
  rw [← integral_add_adjacent_intervals (hc.intervalIntegrable a 0) (hc.intervalIntegrable 0 b)]
  have e1 : ∫ y in a..(0:ℝ), putPay y * cosK a b k y = ∫ y in a..(0:ℝ), (1 - exp y) * cosK a b k y := by
    refine integral_congr (fun y hy => ?_)
    rw [Set.uIcc_of_le ha] at hy
    have : exp y ≤ 1 := Real.exp_le_one_iff.mpr hy.2
    simp only [putPay]
    rw [max_eq_left (by linarith)]
  have e2 : ∫ y in (0:ℝ)..b, putPay y * cosK a b k y = 0 := by
    have : ∫ y in (0:ℝ)..b, putPay y * cosK a b k y = ∫ _y in (0:ℝ)..b, (0:ℝ) := by
      refine integral_congr (fun y hy => ?_)
      rw [Set.uIcc_of_le hb] at hy
      have : 1 ≤ exp y := Real.one_le_exp_iff.mpr hy.1
      simp only [putPay]
      rw [max_eq_right (by linarith), zero_mul]
    rw [this]; simp
  rw [e1, e2, add_zero]

/-- **`u_put(k,a,b)` is the k-th cosine coefficient of the put payoff on [a,b]**, every k (incl. the `k = 0` branch) -/
theorem uPutR_eq_integral (a b : ℝ) (hab : a < b) (ha : a ≤ 0) (hb : 0 ≤ b) (k : ℕ) :
    uPutR a b k = 2 / (b - a) * ∫ y in a..b, putPay y * cosK a b k y := by
  rw [integral_putPay_cosK a b ha hb k]
  unfold uPutR cosK
  by_cases hk : k = 0
  · subst hk
    have h0 : freq a b 0 = 0 := by simp [freq]
    have h1 : IntervalIntegrable (fun y => cos (freq a b 0 * (y - a))) volume a 0 :=
      (by fun_prop : Continuous fun y => cos (freq a b 0 * (y - a))).intervalIntegrable a 0
    have h2 : IntervalIntegrable (fun y => exp y * cos (freq a b 0 * (y - a))) volume a 0 :=
      (by fun_prop : Continuous fun y => exp y * cos (freq a b 0 * (y - a))).intervalIntegrable a 0
    have e : (fun y => (1 - exp y) * cos (freq a b 0 * (y - a)))
        = fun y => cos (freq a b 0 * (y - a)) - exp y * cos (freq a b 0 * (y - a)) := by
      funext y; ring
    rw [e, intervalIntegral.integral_sub h1 h2, chi_integral (freq a b 0) a a 0]
    have e3 : ∫ y in a..(0:ℝ), cos (freq a b 0 * (y - a)) = 0 - a := by rw [h0]; simp
    rw [e3]
    simp only [uPut, psiOf, beq_self_eq_true, if_true]
    ring
  · have hu := freq_ne_zero a b hab k hk
    have hb0 : (k == 0) = false := by simpa using hk
    rw [hb0]
    exact (uput_integral (freq a b k) a b hu).symm

/-- **the digital coefficients are the cosine coefficients of `1_{y>0}` on [a,b]**, every k -/
theorem vDigR_eq_integral (a b : ℝ) (hab : a < b) (ha : a ≤ 0) (hb : 0 ≤ b) (k : ℕ) :
    vDigR a b k = 2 / (b - a) * ∫ y in a..b, digPay y * cosK a b k y := by
  have hd : ∀ c d : ℝ, IntervalIntegrable (fun y => digPay y * cosK a b k y) volume c d := fun c d =>
    (monotone_digPay.intervalIntegrable (a := c) (b := d)).mul_continuousOn (continuous_cosK a b k).continuousOn
  rw [← integral_add_adjacent_intervals (hd a 0) (hd 0 b)]
  have e1 : ∫ y in a..(0:ℝ), digPay y * cosK a b k y = 0 := by
    have : ∫ y in a..(0:ℝ), digPay y * cosK a b k y = ∫ _y in a..(0:ℝ), (0:ℝ) := by
      refine integral_congr (fun y hy => ?_)
      rw [Set.uIcc_of_le ha] at hy
      have : ¬ (0 < y) := not_lt.mpr hy.2
      simp [digPay, this]
    rw [this]; simp
  have e2 : ∫ y in (0:ℝ)..b, digPay y * cosK a b k y = ∫ y in (0:ℝ)..b, cosK a b k y := by
    refine integral_congr_uIoo (fun y hy => ?_)
    rw [Set.uIoo_of_le hb] at hy
    simp [digPay, hy.1]
  rw [e1, e2, zero_add]
  unfold vDigR cosK
  by_cases hk : k = 0
  · subst hk
    have h0 : freq a b 0 = 0 := by simp [freq]
    rw [h0]
    simp [vDigital, psiOf]
  · have hu := freq_ne_zero a b hab k hk
    have hb0 : (k == 0) = false := by simpa using hk
    rw [hb0]
    exact (vdigital_integral (freq a b k) a b hu).symm

end Rpylib.Pricers.Cos
