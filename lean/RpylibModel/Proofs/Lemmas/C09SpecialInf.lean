/-
C09, Merton and VG mass with an infinite end point.  The value of the special function at infinity is one more
explicit hypothesis (`Tendsto erf atTop (𝓝 1)`, `Tendsto erf atBot (𝓝 (-1))`, `Tendsto E1 atTop (𝓝 0)`), as
scipy evaluates `erf(±inf) = ±1` and the code drops `exp1(inf)` (merton.py:65-78, variancegamma.py:129-139).
-/
import RpylibModel.Proofs.Lemmas.C09Special
import RpylibModel.Proofs.Lemmas.C09Improper

namespace Rpylib.Integrals
open Real MeasureTheory Filter Topology

theorem mertonDensity_nonneg (lam mu sigma x : ℝ) (hl : 0 ≤ lam) (hs : 0 < sigma) : 0 ≤ mertonDensity lam mu sigma x := by
  unfold mertonDensity; positivity

theorem tendsto_erfAux_atTop (erf : ℝ → ℝ) (hlim : Tendsto erf atTop (𝓝 1)) (mu sigma : ℝ) (hs : 0 < sigma) :
    Tendsto (erfAux erf mu sigma) atTop (𝓝 1) := by
  have hpos : 0 < sigma * √2 := by positivity
  have h1 : Tendsto (fun x : ℝ => (x - mu) / (sigma * √2)) atTop atTop :=
    (tendsto_atTop_add_const_right atTop (-mu) tendsto_id).atTop_div_const hpos
  exact hlim.comp h1

/-- Merton mass on (a, ∞): `0.5 λ (1 − erf((a−μ)/(σ√2)))` -/
theorem integral_Ioi_merton_mass (erf : ℝ → ℝ) (herf : ∀ x, HasDerivAt erf (2 / √π * exp (-x ^ 2)) x)
    (hlim : Tendsto erf atTop (𝓝 1)) (lam mu sigma : ℝ) (hl : 0 ≤ lam) (hs : 0 < sigma) (a : ℝ) :
    ∫ x in Set.Ioi a, mertonDensity lam mu sigma x = 0.5 * lam * (1 - erfAux erf mu sigma a) := by
  have hπ : (√π : ℝ) ≠ 0 := by positivity
  have h2 : (√2 : ℝ) ≠ 0 := by positivity
  have hderiv : ∀ x ∈ Set.Ici a, HasDerivAt (fun v => 0.5 * lam * erfAux erf mu sigma v) (mertonDensity lam mu sigma x) x := by
    intro x _
    have h := (hasDerivAt_erfAux erf herf mu sigma x).const_mul (0.5 * lam)
    refine h.congr_deriv ?_
    have hs' := hs.ne'
    unfold mertonDensity; rw [sqrt_two_pi]; field_simp; ring
  have hpos : ∀ x ∈ Set.Ioi a, 0 ≤ mertonDensity lam mu sigma x := fun x _ => mertonDensity_nonneg lam mu sigma x hl hs
  have hl' : Tendsto (fun v => 0.5 * lam * erfAux erf mu sigma v) atTop (𝓝 (0.5 * lam * 1)) :=
    (tendsto_erfAux_atTop erf hlim mu sigma hs).const_mul (0.5 * lam)
  rw [integral_Ioi_of_hasDerivAt_of_nonneg' hderiv hpos hl']
  ring

/-- Merton mass on (−∞, b]: `0.5 λ (erf((b−μ)/(σ√2)) + 1)` -/
theorem integral_Iic_merton_mass (erf : ℝ → ℝ) (herf : ∀ x, HasDerivAt erf (2 / √π * exp (-x ^ 2)) x)
    (hlim : Tendsto erf atBot (𝓝 (-1))) (lam mu sigma : ℝ) (hl : 0 ≤ lam) (hs : 0 < sigma) (b : ℝ) :
    ∫ x in Set.Iic b, mertonDensity lam mu sigma x = 0.5 * lam * (erfAux erf mu sigma b - (-1)) := by
  -- reflect: erf₂ x = −erf (−x) satisfies the same ODE and tends to 1 at +∞
  let erf2 : ℝ → ℝ := fun x => -erf (-x)
  have herf2 : ∀ x, HasDerivAt erf2 (2 / √π * exp (-x ^ 2)) x := by
    intro x
    have h := ((herf (-x)).comp x (hasDerivAt_neg x)).neg
    have e : -(2 / √π * exp (-(-x) ^ 2) * -1) = 2 / √π * exp (-x ^ 2) := by
      rw [neg_sq]; ring
    exact h.congr_deriv e
  have hlim2 : Tendsto erf2 atTop (𝓝 1) := by
    have h := (hlim.comp tendsto_neg_atTop_atBot).neg
    simpa [erf2] using h
  have hrefl : ∫ x in Set.Iic b, mertonDensity lam mu sigma x
      = ∫ x in Set.Iic b, (fun y => mertonDensity lam (-mu) sigma y) (-x) := by
    congr 1; funext x
    simp only [mertonDensity]
    have : (-x - -mu) ^ 2 = (x - mu) ^ 2 := by ring
    rw [this]
  rw [hrefl, integral_comp_neg_Iic b (fun y => mertonDensity lam (-mu) sigma y),
    integral_Ioi_merton_mass erf2 herf2 hlim2 lam (-mu) sigma hl hs (-b)]
  have : erfAux erf2 (-mu) sigma (-b) = -erfAux erf mu sigma b := by
    simp only [erfAux, erf2]
    have : -((-b - -mu) / (sigma * √2)) = (b - mu) / (sigma * √2) := by ring
    rw [this]
  rw [this]; ring

theorem vgDensity_nonneg (c lp lm x : ℝ) (hc : 0 ≤ c) : 0 ≤ vgDensity c lp lm x := by
  unfold vgDensity
  split_ifs with h1 h2
  · exact div_nonneg (mul_nonneg hc (exp_pos _).le) (abs_nonneg x)
  · exact div_nonneg (mul_nonneg hc (exp_pos _).le) h2.le
  · exact le_rfl

/-- VG mass on (a, ∞), a > 0: `c · E1(λ₊ a)` (variancegamma.py:129-133) -/
theorem integral_Ioi_vg_mass (E1 : ℝ → ℝ) (hE1 : ∀ x, 0 < x → HasDerivAt E1 (-exp (-x) / x) x)
    (hlim : Tendsto E1 atTop (𝓝 0)) (c lp lm : ℝ) (hc : 0 ≤ c) (hlp : 0 < lp) (a : ℝ) (ha : 0 < a) :
    ∫ x in Set.Ioi a, vgDensity c lp lm x = c * E1 (lp * a) := by
  have hderiv : ∀ x ∈ Set.Ici a, HasDerivAt (fun v => -c * E1 (lp * v)) (vgDensity c lp lm x) x := by
    intro x hx
    have hx0 : 0 < x := lt_of_lt_of_le ha hx
    have hlin : HasDerivAt (fun v : ℝ => lp * v) lp x := by simpa using (hasDerivAt_id x).const_mul lp
    have h := ((hE1 (lp * x) (mul_pos hlp hx0)).comp x hlin).const_mul (-c)
    refine h.congr_deriv ?_
    have : ¬ x < 0 := not_lt.mpr hx0.le
    simp only [vgDensity, this, hx0, if_true, if_false]
    field_simp
  have hpos : ∀ x ∈ Set.Ioi a, 0 ≤ vgDensity c lp lm x := fun x _ => vgDensity_nonneg c lp lm x hc
  have hl' : Tendsto (fun v => -c * E1 (lp * v)) atTop (𝓝 (-c * 0)) :=
    (hlim.comp (tendsto_lin_atTop lp hlp)).const_mul (-c)
  rw [integral_Ioi_of_hasDerivAt_of_nonneg' hderiv hpos hl']
  ring

/-- VG mass on (−∞, b], b < 0: `c · E1(−λ₋ b)` (variancegamma.py:135-139) -/
theorem integral_Iic_vg_mass (E1 : ℝ → ℝ) (hE1 : ∀ x, 0 < x → HasDerivAt E1 (-exp (-x) / x) x)
    (hlim : Tendsto E1 atTop (𝓝 0)) (c lp lm : ℝ) (hc : 0 ≤ c) (hlm : 0 < lm) (b : ℝ) (hb : b < 0) :
    ∫ x in Set.Iic b, vgDensity c lp lm x = c * E1 (-lm * b) := by
  have hrefl : ∫ x in Set.Iic b, vgDensity c lp lm x = ∫ x in Set.Iic b, (fun y => vgDensity c lm lp y) (-x) := by
    apply setIntegral_congr_fun measurableSet_Iic
    intro x hx
    have hx0 : x < 0 := lt_of_le_of_lt hx hb
    have h1 : ¬ -x < 0 := by linarith
    have h2 : 0 < -x := by linarith
    simp only [vgDensity, hx0, h1, h2, if_true, if_false, abs_of_neg hx0]
  rw [hrefl, integral_comp_neg_Iic b (fun y => vgDensity c lm lp y),
    integral_Ioi_vg_mass E1 hE1 hlim c lm lp hc hlm (-b) (by linarith)]
  congr 2; ring

end Rpylib.Integrals
