/-
C09, Merton mass / first / second moment with infinite end points (merton.py:65-114): the antiderivatives `mertonF k`
(k = 0, 1, 2) of x^k · density, their limits at ±∞ under the hypotheses `erf → ±1`, integrability of x^k · density
(Gaussian moments, Mathlib), hence the improper integrals over (a, ∞), (−∞, b] and ℝ.
-/
import RpylibModel.Proofs.Lemmas.C09SpecialInf
import RpylibModel.Proofs.Lemmas.C09Ext
import Mathlib.Analysis.SpecialFunctions.Gaussian.GaussianIntegral
import Mathlib.MeasureTheory.Group.Integral

namespace Rpylib.Integrals
open Real MeasureTheory Filter Topology Set

/-- λ × the antiderivative of x^k · density that the code evaluates at a finite end point
    (k = 0: merton.py:65-78, k = 1: 87-90, k = 2: 101-112) -/
noncomputable def mertonF (erf : ℝ → ℝ) (k : ℕ) (lam mu sigma x : ℝ) : ℝ :=
  match k with
  | 0 => 0.5 * lam * erfAux erf mu sigma x
  | 1 => lam * mertonAuxX erf mu sigma x
  | _ => lam * mertonAuxXX erf mu sigma x

/-- … and at an infinite end point: erf(±∞) = s = ±1, the Gaussian term is 0 (numpy: exp(−inf) = 0 for k = 1; dropped
    explicitly for k = 2, merton.py:107-108) -/
noncomputable def mertonFInf (k : ℕ) (lam mu sigma s : ℝ) : ℝ :=
  match k with
  | 0 => 0.5 * lam * s
  | 1 => lam * (0.5 * mu * s)
  | _ => lam * (0.5 * (mu ^ 2 + sigma ^ 2) * s)

theorem hasDerivAt_mertonF (erf : ℝ → ℝ) (herf : ∀ x, HasDerivAt erf (2 / √π * exp (-x ^ 2)) x)
    (k : ℕ) (hk : k ≤ 2) (lam mu sigma : ℝ) (hs : sigma ≠ 0) (x : ℝ) :
    HasDerivAt (mertonF erf k lam mu sigma) (x ^ k * mertonDensity lam mu sigma x) x := by
  have hπ : (√π : ℝ) ≠ 0 := by positivity
  have h2 : (√2 : ℝ) ≠ 0 := by positivity
  interval_cases k
  · have h := (hasDerivAt_erfAux erf herf mu sigma x).const_mul (0.5 * lam)
    have hf : mertonF erf 0 lam mu sigma = fun v => 0.5 * lam * erfAux erf mu sigma v := by funext v; rfl
    rw [hf]
    refine h.congr_deriv ?_
    unfold mertonDensity; rw [sqrt_two_pi]; field_simp; ring
  · have he := (hasDerivAt_erfAux erf herf mu sigma x).const_mul (0.5 * mu)
    have hg := (hasDerivAt_gauss mu sigma x).const_mul (sigma / √(2 * π))
    have h := (he.sub hg).const_mul lam
    have hf : mertonF erf 1 lam mu sigma = fun v => lam * (0.5 * mu * erfAux erf mu sigma v
        - sigma / √(2 * π) * exp (-(v - mu) ^ 2 / (2 * sigma ^ 2))) := by funext v; rfl
    rw [hf]
    refine h.congr_deriv ?_
    unfold mertonDensity; rw [sqrt_two_pi]; field_simp; ring
  · have he := (hasDerivAt_erfAux erf herf mu sigma x).const_mul (0.5 * (mu ^ 2 + sigma ^ 2))
    have hlin : HasDerivAt (fun v : ℝ => sigma / √(2 * π) * (mu + v)) (sigma / √(2 * π) * 1) x :=
      ((hasDerivAt_id x).const_add mu).const_mul _
    have hg := hlin.mul (hasDerivAt_gauss mu sigma x)
    have h := (he.sub hg).const_mul lam
    have hf : mertonF erf 2 lam mu sigma = fun v => lam * (0.5 * (mu ^ 2 + sigma ^ 2) * erfAux erf mu sigma v
        - sigma / √(2 * π) * (mu + v) * exp (-(v - mu) ^ 2 / (2 * sigma ^ 2))) := by funext v; rfl
    rw [hf]
    refine h.congr_deriv ?_
    unfold mertonDensity; rw [sqrt_two_pi]; field_simp; ring

/-- along any filter on which (x−μ)²/(2σ²) → ∞ the Gaussian factor and (μ+x) × the Gaussian factor tend to 0 -/
theorem tendsto_gauss_terms {l : Filter ℝ} (mu sigma : ℝ) (hs : sigma ≠ 0)
    (hl : Tendsto (fun x : ℝ => (x - mu) ^ 2 / (2 * sigma ^ 2)) l atTop) :
    Tendsto (fun x => exp (-(x - mu) ^ 2 / (2 * sigma ^ 2))) l (𝓝 0) ∧
      Tendsto (fun x => (mu + x) * exp (-(x - mu) ^ 2 / (2 * sigma ^ 2))) l (𝓝 0) := by
  have h1 : Tendsto (fun x => exp (-(x - mu) ^ 2 / (2 * sigma ^ 2))) l (𝓝 0) := by
    refine (tendsto_exp_neg_atTop_nhds_zero.comp hl).congr (fun x => ?_)
    simp only [Function.comp, neg_div]
  have h2 : Tendsto (fun x => (x - mu) ^ 2 / (2 * sigma ^ 2) * exp (-(x - mu) ^ 2 / (2 * sigma ^ 2))) l (𝓝 0) := by
    refine ((tendsto_pow_mul_exp_neg_atTop_nhds_zero 1).comp hl).congr (fun x => ?_)
    simp only [Function.comp, neg_div, pow_one]
  refine ⟨h1, ?_⟩
  have hbound : Tendsto (fun x => (2 * |mu| + 1) * exp (-(x - mu) ^ 2 / (2 * sigma ^ 2))
      + 2 * sigma ^ 2 * ((x - mu) ^ 2 / (2 * sigma ^ 2) * exp (-(x - mu) ^ 2 / (2 * sigma ^ 2)))) l (𝓝 0) := by
    have := (h1.const_mul (2 * |mu| + 1)).add (h2.const_mul (2 * sigma ^ 2))
    simpa using this
  refine squeeze_zero_norm (fun x => ?_) hbound
  have hE : 0 < exp (-(x - mu) ^ 2 / (2 * sigma ^ 2)) := exp_pos _
  have hs2 : (2 * sigma ^ 2) ≠ 0 := by positivity
  have e : 2 * sigma ^ 2 * ((x - mu) ^ 2 / (2 * sigma ^ 2) * exp (-(x - mu) ^ 2 / (2 * sigma ^ 2)))
      = (x - mu) ^ 2 * exp (-(x - mu) ^ 2 / (2 * sigma ^ 2)) := by field_simp
  rw [e, Real.norm_eq_abs, abs_mul, abs_of_pos hE, ← add_mul]
  apply mul_le_mul_of_nonneg_right _ hE.le
  have h3 : |mu + x| ≤ 2 * |mu| + |x - mu| := by
    have : mu + x = 2 * mu + (x - mu) := by ring
    rw [this]
    calc |2 * mu + (x - mu)| ≤ |2 * mu| + |x - mu| := abs_add_le _ _
      _ = 2 * |mu| + |x - mu| := by rw [abs_mul]; norm_num
  have h4 : |x - mu| ≤ 1 + (x - mu) ^ 2 := by
    have := sq_abs (x - mu)
    nlinarith [abs_nonneg (x - mu), sq_nonneg (|x - mu| - 1)]
  linarith

theorem tendsto_sq_atTop (mu sigma : ℝ) (hs : sigma ≠ 0) :
    Tendsto (fun x : ℝ => (x - mu) ^ 2 / (2 * sigma ^ 2)) atTop atTop := by
  have h1 : Tendsto (fun x : ℝ => x - mu) atTop atTop := tendsto_atTop_add_const_right atTop (-mu) tendsto_id
  have h2 : Tendsto (fun x : ℝ => (x - mu) ^ 2) atTop atTop := (tendsto_pow_atTop (by norm_num : (2 : ℕ) ≠ 0)).comp h1
  exact h2.atTop_div_const (by positivity)

theorem tendsto_sq_atBot (mu sigma : ℝ) (hs : sigma ≠ 0) :
    Tendsto (fun x : ℝ => (x - mu) ^ 2 / (2 * sigma ^ 2)) atBot atTop := by
  have h1 : Tendsto (fun x : ℝ => mu - x) atBot atTop := by
    have := tendsto_atTop_add_const_left atBot mu tendsto_neg_atBot_atTop
    exact this.congr (fun x => by ring)
  have h2 : Tendsto (fun x : ℝ => (mu - x) ^ 2) atBot atTop := (tendsto_pow_atTop (by norm_num : (2 : ℕ) ≠ 0)).comp h1
  have h3 : Tendsto (fun x : ℝ => (x - mu) ^ 2) atBot atTop := h2.congr (fun x => by ring)
  exact h3.atTop_div_const (by positivity)

theorem tendsto_erfAux_atBot (erf : ℝ → ℝ) (hlim : Tendsto erf atBot (𝓝 (-1))) (mu sigma : ℝ) (hs : 0 < sigma) :
    Tendsto (erfAux erf mu sigma) atBot (𝓝 (-1)) := by
  have hpos : 0 < sigma * √2 := by positivity
  have h1 : Tendsto (fun x : ℝ => (x - mu) / (sigma * √2)) atBot atBot :=
    (tendsto_atBot_add_const_right atBot (-mu) tendsto_id).atBot_div_const hpos
  exact hlim.comp h1

/-- the limit of the antiderivative along a filter on which erfAux → s and (x−μ)² → ∞ -/
theorem tendsto_mertonF {l : Filter ℝ} (erf : ℝ → ℝ) (k : ℕ) (hk : k ≤ 2) (lam mu sigma s : ℝ) (hs : sigma ≠ 0)
    (he : Tendsto (erfAux erf mu sigma) l (𝓝 s))
    (hl : Tendsto (fun x : ℝ => (x - mu) ^ 2 / (2 * sigma ^ 2)) l atTop) :
    Tendsto (mertonF erf k lam mu sigma) l (𝓝 (mertonFInf k lam mu sigma s)) := by
  obtain ⟨g1, g2⟩ := tendsto_gauss_terms mu sigma hs hl
  interval_cases k
  · exact he.const_mul (0.5 * lam)
  · have h := ((he.const_mul (0.5 * mu)).sub (g1.const_mul (sigma / √(2 * π)))).const_mul lam
    simp only [mul_zero, sub_zero] at h
    exact h
  · have h := ((he.const_mul (0.5 * (mu ^ 2 + sigma ^ 2))).sub (g2.const_mul (sigma / √(2 * π)))).const_mul lam
    simp only [mul_zero, sub_zero] at h
    refine h.congr (fun x => ?_)
    simp only [mertonF, mertonAuxXX]; ring

/-- x^k · density is integrable on ℝ for k ≤ 2 (Gaussian moments) -/
theorem integrable_merton (k : ℕ) (hk : k ≤ 2) (lam mu sigma : ℝ) (hs : sigma ≠ 0) :
    Integrable (fun x : ℝ => x ^ k * mertonDensity lam mu sigma x) := by
  have hbpos : 0 < 1 / (2 * sigma ^ 2) := by positivity
  have g0 : Integrable (fun y : ℝ => exp (-(1 / (2 * sigma ^ 2)) * y ^ 2)) := integrable_exp_neg_mul_sq hbpos
  have g1 : Integrable (fun y : ℝ => y * exp (-(1 / (2 * sigma ^ 2)) * y ^ 2)) := integrable_mul_exp_neg_mul_sq hbpos
  have g2 : Integrable (fun y : ℝ => y ^ 2 * exp (-(1 / (2 * sigma ^ 2)) * y ^ 2)) := by
    have h := integrable_rpow_mul_exp_neg_mul_sq hbpos (s := 2) (by norm_num)
    simpa [Real.rpow_two] using h
  have hy : Integrable (fun y : ℝ => (y + mu) ^ k * (lam / (sigma * √(2 * π)) * exp (-(1 / (2 * sigma ^ 2)) * y ^ 2))) := by
    interval_cases k
    · have h := g0.const_mul (lam / (sigma * √(2 * π)))
      refine h.congr (ae_of_all _ (fun y => ?_))
      simp
    · have h := (g1.add (g0.const_mul mu)).const_mul (lam / (sigma * √(2 * π)))
      refine h.congr (ae_of_all _ (fun y => ?_))
      simp only [Pi.add_apply, pow_one]; ring
    · have h := ((g2.add (g1.const_mul (2 * mu))).add (g0.const_mul (mu ^ 2))).const_mul (lam / (sigma * √(2 * π)))
      refine h.congr (ae_of_all _ (fun y => ?_))
      simp only [Pi.add_apply]; ring
  have h := hy.comp_sub_right mu
  refine h.congr (ae_of_all _ (fun x => ?_))
  simp only [mertonDensity, sub_add_cancel]
  have e : -(1 / (2 * sigma ^ 2)) * (x - mu) ^ 2 = -(x - mu) ^ 2 / (2 * sigma ^ 2) := by ring
  rw [e]

theorem integral_Ioi_merton (erf : ℝ → ℝ) (herf : ∀ x, HasDerivAt erf (2 / √π * exp (-x ^ 2)) x)
    (hlim : Tendsto erf atTop (𝓝 1)) (k : ℕ) (hk : k ≤ 2) (lam mu sigma : ℝ) (hs : 0 < sigma) (a : ℝ) :
    ∫ x in Ioi a, x ^ k * mertonDensity lam mu sigma x = mertonFInf k lam mu sigma 1 - mertonF erf k lam mu sigma a :=
  integral_Ioi_of_hasDerivAt_of_tendsto' (fun x _ => hasDerivAt_mertonF erf herf k hk lam mu sigma hs.ne' x)
    (integrable_merton k hk lam mu sigma hs.ne').integrableOn
    (tendsto_mertonF erf k hk lam mu sigma 1 hs.ne' (tendsto_erfAux_atTop erf hlim mu sigma hs) (tendsto_sq_atTop mu sigma hs.ne'))

theorem integral_Iic_merton (erf : ℝ → ℝ) (herf : ∀ x, HasDerivAt erf (2 / √π * exp (-x ^ 2)) x)
    (hlim : Tendsto erf atBot (𝓝 (-1))) (k : ℕ) (hk : k ≤ 2) (lam mu sigma : ℝ) (hs : 0 < sigma) (b : ℝ) :
    ∫ x in Iic b, x ^ k * mertonDensity lam mu sigma x = mertonF erf k lam mu sigma b - mertonFInf k lam mu sigma (-1) :=
  integral_Iic_of_hasDerivAt_of_tendsto' (fun x _ => hasDerivAt_mertonF erf herf k hk lam mu sigma hs.ne' x)
    (integrable_merton k hk lam mu sigma hs.ne').integrableOn
    (tendsto_mertonF erf k hk lam mu sigma (-1) hs.ne' (tendsto_erfAux_atBot erf hlim mu sigma hs) (tendsto_sq_atBot mu sigma hs.ne'))

theorem integral_interval_merton (erf : ℝ → ℝ) (herf : ∀ x, HasDerivAt erf (2 / √π * exp (-x ^ 2)) x)
    (k : ℕ) (hk : k ≤ 2) (lam mu sigma : ℝ) (hs : sigma ≠ 0) (a b : ℝ) :
    ∫ x in a..b, x ^ k * mertonDensity lam mu sigma x = mertonF erf k lam mu sigma b - mertonF erf k lam mu sigma a :=
  intervalIntegral.integral_eq_sub_of_hasDerivAt (fun x _ => hasDerivAt_mertonF erf herf k hk lam mu sigma hs x)
    ((continuous_merton k lam mu sigma).intervalIntegrable a b)

theorem integral_univ_merton (erf : ℝ → ℝ) (herf : ∀ x, HasDerivAt erf (2 / √π * exp (-x ^ 2)) x)
    (hlimT : Tendsto erf atTop (𝓝 1)) (hlimB : Tendsto erf atBot (𝓝 (-1))) (k : ℕ) (hk : k ≤ 2) (lam mu sigma : ℝ)
    (hs : 0 < sigma) :
    ∫ x, x ^ k * mertonDensity lam mu sigma x = mertonFInf k lam mu sigma 1 - mertonFInf k lam mu sigma (-1) := by
  have hint := integrable_merton k hk lam mu sigma hs.ne'
  rw [← intervalIntegral.integral_Iic_add_Ioi (b := 0) hint.integrableOn hint.integrableOn,
    integral_Iic_merton erf herf hlimB k hk lam mu sigma hs 0, integral_Ioi_merton erf herf hlimT k hk lam mu sigma hs 0]
  ring

/-- the antiderivative at an extended end point, as the code evaluates it -/
noncomputable def mertonFE (erf : ℝ → ℝ) (k : ℕ) (lam mu sigma : ℝ) : ExtRat → ℝ
  | .fin u => mertonF erf k lam mu sigma u
  | .posInf => mertonFInf k lam mu sigma 1
  | .negInf => mertonFInf k lam mu sigma (-1)

/-- all end-point shapes at once -/
theorem integral_eSet_merton (erf : ℝ → ℝ) (herf : ∀ x, HasDerivAt erf (2 / √π * exp (-x ^ 2)) x)
    (hlimT : Tendsto erf atTop (𝓝 1)) (hlimB : Tendsto erf atBot (𝓝 (-1))) (k : ℕ) (hk : k ≤ 2) (lam mu sigma : ℝ)
    (hs : 0 < sigma) (a b : ExtRat) (hab : ELe a b) (hpr : Proper a b) :
    ∫ x in eSet a b, x ^ k * mertonDensity lam mu sigma x = mertonFE erf k lam mu sigma b - mertonFE erf k lam mu sigma a := by
  obtain ⟨h1, h2⟩ := hpr
  cases a with
  | posInf => exact absurd rfl h1
  | negInf =>
    cases b with
    | negInf => exact absurd rfl h2
    | fin b => exact integral_Iic_merton erf herf hlimB k hk lam mu sigma hs b
    | posInf =>
      simp only [eSet, Measure.restrict_univ]
      exact integral_univ_merton erf herf hlimT hlimB k hk lam mu sigma hs
  | fin a =>
    cases b with
    | negInf => exact absurd rfl h2
    | posInf => exact integral_Ioi_merton erf herf hlimT k hk lam mu sigma hs a
    | fin b =>
      have hab' : a ≤ b := (ELe_fin a b).mp hab
      rw [← intervalIntegral_eq_eSet _ a b hab']
      exact integral_interval_merton erf herf k hk lam mu sigma hs.ne' a b

end Rpylib.Integrals
