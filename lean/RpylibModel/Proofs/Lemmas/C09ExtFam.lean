/-
C09, extended end points, per family: integrability of x^n e^{-α|x|}, x^k · HEM density and x^(m+1) · VG density on the two
half-lines, sign-free half-line values for HEM, and the congruences VG x^(m+1)·density = ±c · x^m e^{-λ|x|} on subsets of a
half-line.  Feeds `ext_of_sides` (C09Ext.lean).
-/
import RpylibModel.Proofs.Lemmas.C09Ext
import RpylibModel.Proofs.Lemmas.C09Vg
import Mathlib.MeasureTheory.Group.Integral

namespace Rpylib.Integrals
open Real MeasureTheory Set Filter Topology

/-- integrability on (−∞, 0] from integrability of the reflected function on (0, ∞) -/
theorem integrableOn_Iic_of_reflect {f g : ℝ → ℝ} (hg : IntegrableOn g (Ioi 0)) (h : ∀ x, x < 0 → f x = g (-x)) :
    IntegrableOn f (Iic 0) := by
  rw [integrableOn_Iic_iff_integrableOn_Iio]
  have h1 : IntegrableOn (fun x => g (-x)) (Iio 0) := by
    have := IntegrableOn.comp_neg_Iio (c := (0 : ℝ)) (f := g) (by simpa using hg)
    exact this
  exact h1.congr_fun (fun x hx => (h x hx).symm) measurableSet_Iio

theorem integrableOn_cmul {f : ℝ → ℝ} {s : Set ℝ} (h : IntegrableOn f s) (c : ℝ) : IntegrableOn (fun x => c * f x) s :=
  h.const_mul c

theorem integrableOn_Ioi_xn_exp_lin (n : ℕ) (α : ℝ) (hα : 0 < α) :
    IntegrableOn (fun x : ℝ => x ^ n * exp (-(α * x))) (Ioi 0) := by
  apply integrableOn_Ioi_deriv_of_nonneg' (g := fun u => -H n α u) (l := 0)
  · intro x _
    have h := (hasDerivAt_H n α hα.ne' x).neg
    rw [neg_neg] at h
    exact h
  · intro x hx
    have : (0 : ℝ) ≤ x := le_of_lt hx
    positivity
  · simpa using (tendsto_H n α hα).neg

theorem integrableOn_Ioi_xn_exp (n : ℕ) (α : ℝ) (hα : 0 < α) :
    IntegrableOn (fun x : ℝ => x ^ n * exp (-(α * |x|))) (Ioi 0) :=
  (integrableOn_Ioi_xn_exp_lin n α hα).congr_fun (fun x hx => by simp only [abs_of_pos (show (0 : ℝ) < x from hx)])
    measurableSet_Ioi

theorem integrableOn_Iic_xn_exp (n : ℕ) (α : ℝ) (hα : 0 < α) :
    IntegrableOn (fun x : ℝ => x ^ n * exp (-(α * |x|))) (Iic 0) := by
  apply integrableOn_Iic_of_reflect (g := fun y : ℝ => (-1) ^ n * (y ^ n * exp (-(α * |y|))))
    (integrableOn_cmul (integrableOn_Ioi_xn_exp n α hα) _)
  intro x _
  simp only [abs_neg]
  rw [neg_pow x n]
  have e : ((-1 : ℝ)) ^ n * ((-1) ^ n * x ^ n * exp (-(α * |x|))) = ((-1) ^ n * (-1) ^ n) * (x ^ n * exp (-(α * |x|))) := by ring
  rw [e, ← mul_pow]; norm_num

/-! ### HEM -/

theorem hem_on_pos (k : ℕ) (lam p eta1 eta2 x : ℝ) (hx : 0 < x) :
    x ^ k * hemDensity lam p eta1 eta2 x = lam * p * eta1 * (x ^ k * exp (-(eta1 * x))) := by
  have : ¬ x < 0 := not_lt.mpr hx.le
  simp only [hemDensity, hx, this, if_true, if_false]; ring

theorem hem_on_neg (k : ℕ) (lam p eta1 eta2 x : ℝ) (hx : x < 0) :
    x ^ k * hemDensity lam p eta1 eta2 x = lam * (1 - p) * eta2 * (x ^ k * exp (eta2 * x)) := by
  have : ¬ 0 < x := not_lt.mpr hx.le
  simp only [hemDensity, hx, this, if_true, if_false]; ring

theorem integrableOn_Ioi_hem (k : ℕ) (lam p eta1 eta2 : ℝ) (h1 : 0 < eta1) :
    IntegrableOn (fun x : ℝ => x ^ k * hemDensity lam p eta1 eta2 x) (Ioi 0) :=
  (integrableOn_cmul (integrableOn_Ioi_xn_exp_lin k eta1 h1) (lam * p * eta1)).congr_fun
    (fun x hx => (hem_on_pos k lam p eta1 eta2 x hx).symm) measurableSet_Ioi

theorem integrableOn_Iic_hem (k : ℕ) (lam p eta1 eta2 : ℝ) (h2 : 0 < eta2) :
    IntegrableOn (fun x : ℝ => x ^ k * hemDensity lam p eta1 eta2 x) (Iic 0) := by
  apply integrableOn_Iic_of_reflect (g := fun y : ℝ => lam * (1 - p) * eta2 * (-1) ^ k * (y ^ k * exp (-(eta2 * y))))
    (integrableOn_cmul (integrableOn_Ioi_xn_exp_lin k eta2 h2) _)
  intro x hx
  rw [hem_on_neg k lam p eta1 eta2 x hx, neg_pow x k]
  have e1 : -(eta2 * -x) = eta2 * x := by ring
  rw [e1]
  have e : lam * (1 - p) * eta2 * (-1) ^ k * ((-1) ^ k * x ^ k * exp (eta2 * x))
      = ((-1 : ℝ) ^ k * (-1) ^ k) * (lam * (1 - p) * eta2 * (x ^ k * exp (eta2 * x))) := by ring
  rw [e, ← mul_pow]; norm_num

/-- `∫_{(a,∞)} x^k · HEM density = −Phi(a)` for a ≥ 0, η₁ > 0 — no sign condition on λ, p -/
theorem integral_Ioi_hem' (k : ℕ) (hk : k ≤ 2) (lam p eta1 eta2 : ℝ) (h1 : 0 < eta1) (a : ℝ) (ha : 0 ≤ a) :
    ∫ x in Ioi a, x ^ k * hemDensity lam p eta1 eta2 x = -Phi k (lam * p) eta1 a := by
  have hcongr : ∫ x in Ioi a, x ^ k * hemDensity lam p eta1 eta2 x
      = ∫ x in Ioi a, lam * p * eta1 * x ^ k * exp (-(eta1 * x)) := by
    apply setIntegral_congr_fun measurableSet_Ioi
    intro x hx
    beta_reduce
    rw [hem_on_pos k lam p eta1 eta2 x (lt_of_le_of_lt ha hx)]; ring
  have hint : IntegrableOn (fun x : ℝ => lam * p * eta1 * x ^ k * exp (-(eta1 * x))) (Ioi a) := by
    have h := (integrableOn_cmul (integrableOn_Ioi_xn_exp_lin k eta1 h1) (lam * p * eta1)).mono_set (Ioi_subset_Ioi ha)
    exact h.congr_fun (fun x _ => by ring) measurableSet_Ioi
  rw [hcongr, integral_Ioi_of_hasDerivAt_of_tendsto' (fun x _ => hasDerivAt_Phi k hk (lam * p) eta1 h1.ne' x) hint
    (tendsto_Phi k hk (lam * p) eta1 h1)]
  ring

/-- `∫_{(-∞,b]} x^k · HEM density = −Phi_k(λ(1−p), −η₂, b)` for b ≤ 0, η₂ > 0 — no sign condition on λ, p -/
theorem integral_Iic_hem' (k : ℕ) (hk : k ≤ 2) (lam p eta1 eta2 : ℝ) (h2 : 0 < eta2) (b : ℝ) (hb : b ≤ 0) :
    ∫ x in Iic b, x ^ k * hemDensity lam p eta1 eta2 x = -Phi k (lam * (1 - p)) (-eta2) b := by
  have h1 : ∫ x in Iic b, x ^ k * hemDensity lam p eta1 eta2 x
      = ∫ x in Iic b, (fun y : ℝ => (-y) ^ k * hemDensity lam p eta1 eta2 (-y)) (-x) := by
    congr 1; funext x; simp only [neg_neg]
  rw [h1, integral_comp_neg_Iic b (fun y : ℝ => (-y) ^ k * hemDensity lam p eta1 eta2 (-y))]
  have hcongr : ∫ y in Ioi (-b), (-y) ^ k * hemDensity lam p eta1 eta2 (-y)
      = ∫ y in Ioi (-b), (-1) ^ k * (lam * (1 - p) * eta2 * y ^ k * exp (-(eta2 * y))) := by
    apply setIntegral_congr_fun measurableSet_Ioi
    intro y hy
    have hy0 : 0 < y := lt_of_le_of_lt (by linarith) hy
    have e := hem_on_neg k lam p eta1 eta2 (-y) (by linarith)
    beta_reduce
    rw [e, neg_pow y k]
    have : eta2 * -y = -(eta2 * y) := by ring
    rw [this]; ring
  have hint : IntegrableOn (fun x : ℝ => lam * (1 - p) * eta2 * x ^ k * exp (-(eta2 * x))) (Ioi (-b)) := by
    have h := (integrableOn_cmul (integrableOn_Ioi_xn_exp_lin k eta2 h2) (lam * (1 - p) * eta2)).mono_set
      (Ioi_subset_Ioi (by linarith : (0 : ℝ) ≤ -b))
    exact h.congr_fun (fun x _ => by ring) measurableSet_Ioi
  rw [hcongr, MeasureTheory.integral_const_mul,
    integral_Ioi_of_hasDerivAt_of_tendsto' (fun x _ => hasDerivAt_Phi k hk (lam * (1 - p)) eta2 h2.ne' x) hint
      (tendsto_Phi k hk (lam * (1 - p)) eta2 h2), Phi_neg_eta k hk]
  ring

/-! ### variance gamma, x^(m+1) · density -/

theorem integrableOn_Ioi_vg (m : ℕ) (c lp lm : ℝ) (hlp : 0 < lp) :
    IntegrableOn (fun x : ℝ => x ^ (m + 1) * vgDensity c lp lm x) (Ioi 0) :=
  (integrableOn_cmul (integrableOn_Ioi_xn_exp m lp hlp) c).congr_fun
    (fun x hx => (vg_pointwise_pos m c lp lm x hx).symm) measurableSet_Ioi

theorem integrableOn_Iic_vg (m : ℕ) (c lp lm : ℝ) (hlm : 0 < lm) :
    IntegrableOn (fun x : ℝ => x ^ (m + 1) * vgDensity c lp lm x) (Iic 0) := by
  rw [integrableOn_Iic_iff_integrableOn_Iio]
  have h := (integrableOn_cmul (integrableOn_Iic_xn_exp m lm hlm) (-c)).mono_set Iio_subset_Iic_self
  exact h.congr_fun (fun x hx => (vg_pointwise_neg m c lp lm x hx).symm) measurableSet_Iio

/-- on a measurable subset of (0, ∞): `∫ x^(m+1)·ν = c ∫ x^m e^{-λ₊|x|}` -/
theorem setIntegral_vg_pos (m : ℕ) (c lp lm : ℝ) (s : Set ℝ) (hs : MeasurableSet s) (hsub : s ⊆ Ioi 0) :
    ∫ x in s, x ^ (m + 1) * vgDensity c lp lm x = c * ∫ x in s, x ^ m * exp (-(lp * |x|)) := by
  rw [← MeasureTheory.integral_const_mul]
  exact setIntegral_congr_fun hs (fun x hx => vg_pointwise_pos m c lp lm x (hsub hx))

/-- on a measurable subset of (−∞, 0] (the point 0 is Lebesgue-null): `∫ x^(m+1)·ν = −c ∫ x^m e^{-λ₋|x|}` -/
theorem setIntegral_vg_neg (m : ℕ) (c lp lm : ℝ) (s : Set ℝ) (hs : MeasurableSet s) (hsub : s ⊆ Iic 0) :
    ∫ x in s, x ^ (m + 1) * vgDensity c lp lm x = -c * ∫ x in s, x ^ m * exp (-(lm * |x|)) := by
  rw [← MeasureTheory.integral_const_mul]
  apply setIntegral_congr_ae hs
  have hnull : ∀ᵐ x ∂(volume : Measure ℝ), x ∉ ({0} : Set ℝ) := (Set.countable_singleton (0 : ℝ)).ae_notMem volume
  filter_upwards [hnull] with x hx0 hx
  have hxne : x ≠ 0 := by simpa using hx0
  exact vg_pointwise_neg m c lp lm x (lt_of_le_of_ne (hsub hx) hxne)

end Rpylib.Integrals
