/-
Helper lemmas for C02, binary search tree on an implicit heap: cells of an arbitrary threshold table.
-/
import RpylibModel.Model.Samplers.Bst
import Mathlib.Tactic.Linarith
import Mathlib.Algebra.Order.Field.Rat

namespace Rpylib.Bst

theorem cellsFrom_bounds (K : Nat) (bst : Nat → Rat) : ∀ (fuel ptr : Nat) (lo hi : Rat),
    ∀ c ∈ cellsFrom K bst fuel ptr lo hi, lo ≤ c.2.1 ∧ c.2.2 ≤ hi ∧ c.2.1 < c.2.2 := by
  intro fuel
  induction fuel with
  | zero =>
    intro ptr lo hi c hc
    simp only [cellsFrom] at hc
    split_ifs at hc with h
    · simp at hc; subst hc; exact ⟨le_refl _, le_refl _, h⟩
    · simp at hc
  | succ fuel ih =>
    intro ptr lo hi c hc
    simp only [cellsFrom] at hc
    split_ifs at hc with h1 h2
    · rcases List.mem_append.mp hc with h | h
      · obtain ⟨a, b, c'⟩ := ih _ _ _ c h
        exact ⟨a, le_trans b (min_le_left _ _), c'⟩
      · obtain ⟨a, b, c'⟩ := ih _ _ _ c h
        exact ⟨le_trans (le_max_left _ _) a, b, c'⟩
    · simp at hc; subst hc; exact ⟨le_refl _, le_refl _, h2⟩
    · simp at hc

theorem descend_cells (K : Nat) (bst : Nat → Rat) (u : Rat) : ∀ (fuel ptr : Nat) (lo hi : Rat),
    K < ptr * 2 ^ fuel → lo ≤ u → u < hi →
    (∃ c ∈ cellsFrom K bst fuel ptr lo hi, c.1 = descend K bst u fuel ptr ∧ c.2.1 ≤ u ∧ u < c.2.2) ∧
    (∀ c ∈ cellsFrom K bst fuel ptr lo hi, c.2.1 ≤ u → u < c.2.2 → c.1 = descend K bst u fuel ptr) := by
  intro fuel
  induction fuel with
  | zero =>
    intro ptr lo hi hf h1 h2
    have hlt : lo < hi := lt_of_le_of_lt h1 h2
    simp only [cellsFrom, descend, if_pos hlt]
    exact ⟨⟨(ptr - K - 1, lo, hi), by simp, rfl, h1, h2⟩, by intro c hc _ _; simp at hc; subst hc; rfl⟩
  | succ fuel ih =>
    intro ptr lo hi hf h1 h2
    simp only [cellsFrom, descend]
    by_cases hp : ptr ≤ K
    · simp only [if_pos hp]
      have hfl : K < (2 * ptr) * 2 ^ fuel := by rw [pow_succ] at hf; nlinarith
      have hfr : K < (2 * ptr + 1) * 2 ^ fuel := by
        have : 0 < 2 ^ fuel := Nat.pow_pos (by omega)
        nlinarith
      by_cases hu : u < bst ptr
      · simp only [if_pos hu]
        obtain ⟨⟨c, hc, e1, e2, e3⟩, hb⟩ := ih (2 * ptr) lo (min hi (bst ptr)) hfl h1 (lt_min h2 hu)
        refine ⟨⟨c, List.mem_append.mpr (Or.inl hc), e1, e2, e3⟩, ?_⟩
        intro c' hc' hl hr
        rcases List.mem_append.mp hc' with h | h
        · exact hb c' h hl hr
        · have := (cellsFrom_bounds K bst _ _ _ _ c' h).1
          have : bst ptr ≤ c'.2.1 := le_trans (le_max_right _ _) this
          linarith
      · simp only [if_neg hu]
        have hu' : bst ptr ≤ u := not_lt.mp hu
        obtain ⟨⟨c, hc, e1, e2, e3⟩, hb⟩ := ih (2 * ptr + 1) (max lo (bst ptr)) hi hfr (max_le h1 hu') h2
        refine ⟨⟨c, List.mem_append.mpr (Or.inr hc), e1, e2, e3⟩, ?_⟩
        intro c' hc' hl hr
        rcases List.mem_append.mp hc' with h | h
        · have := (cellsFrom_bounds K bst _ _ _ _ c' h).2.1
          have : c'.2.2 ≤ bst ptr := le_trans this (min_le_right _ _)
          linarith
        · exact hb c' h hl hr
    · simp only [if_neg hp]
      have hlt : lo < hi := lt_of_le_of_lt h1 h2
      simp only [if_pos hlt]
      exact ⟨⟨(ptr - K - 1, lo, hi), by simp, rfl, h1, h2⟩, by intro c hc _ _; simp at hc; subst hc; rfl⟩

end Rpylib.Bst
