/-
C10, calculus helper: a chain of derivatives `D n ↦ D (n+1)` on an open set pins every iterated derivative of any function
that agrees with `D 0` on that set; the polynomial part `a s + σ² s²/2` of a cumulant generating exponent.
-/
import Mathlib.Analysis.Calculus.IteratedDeriv.Lemmas
import Mathlib.Analysis.Calculus.Deriv.Pow
import Mathlib.Analysis.Calculus.Deriv.Add
import Mathlib.Analysis.Calculus.Deriv.Mul

namespace Rpylib.Triplet
open Real Set Filter Topology

/-- a chain of derivatives on an open set pins every iterated derivative of any function that agrees with the head of the
    chain on that set -/
theorem iteratedDeriv_of_chain {S : Set ℝ} (hS : IsOpen S) (D : ℕ → ℝ → ℝ)
    (hD : ∀ n, ∀ s ∈ S, HasDerivAt (D n) (D (n + 1) s) s) (F : ℝ → ℝ) (hF : EqOn F (D 0) S) :
    ∀ n, ∀ s ∈ S, iteratedDeriv n F s = D n s := by
  intro n
  induction n with
  | zero => intro s hs; simpa [iteratedDeriv_zero] using hF hs
  | succ n ih =>
    intro s hs
    rw [iteratedDeriv_succ]
    have hev : iteratedDeriv n F =ᶠ[𝓝 s] D n := by
      filter_upwards [hS.mem_nhds hs] with y hy using ih y hy
    rw [hev.deriv_eq]
    exact (hD n s hs).deriv

/-- the polynomial part `a s + σ² s²/2` of the cumulant generating function and its derivatives -/
noncomputable def polyD (a sigma : ℝ) : ℕ → ℝ → ℝ
  | 0 => fun s => a * s + sigma ^ 2 * s ^ 2 / 2
  | 1 => fun s => a + sigma ^ 2 * s
  | 2 => fun _ => sigma ^ 2
  | _ => fun _ => 0

theorem hasDerivAt_polyD (a sigma : ℝ) (n : ℕ) (s : ℝ) : HasDerivAt (polyD a sigma n) (polyD a sigma (n + 1) s) s := by
  match n with
  | 0 =>
    have h := ((hasDerivAt_id s).const_mul a).add ((((hasDerivAt_id s).pow 2).const_mul (sigma ^ 2)).div_const 2)
    refine h.congr_deriv ?_
    simp only [polyD, id]; ring
  | 1 =>
    have h := ((hasDerivAt_id s).const_mul (sigma ^ 2)).const_add a
    refine h.congr_deriv ?_
    simp only [polyD]; ring
  | 2 => simpa [polyD] using hasDerivAt_const s (sigma ^ 2)
  | (k + 3) => simpa [polyD] using hasDerivAt_const s (0 : ℝ)

/-- sum of two chains -/
theorem hasDerivAt_chain_add (D E : ℕ → ℝ → ℝ) (n : ℕ) (s : ℝ) (hD : HasDerivAt (D n) (D (n + 1) s) s)
    (hE : HasDerivAt (E n) (E (n + 1) s) s) :
    HasDerivAt (fun v => D n v + E n v) (D (n + 1) s + E (n + 1) s) s := hD.add hE

end Rpylib.Triplet
