/-
C01 in general dimension d, part 2: the states of a product grid decompose into the 3^d products of (centre, left, right)
index ranges; the all-centre product is the origin alone; every other product is away from the origin; the hulls of the
other 3^d − 1 products are exactly the `blocks` of `compute_intensity_of_jumps`, in its order.
-/
import RpylibModel.Proofs.Lemmas.C01Nd

set_option linter.dupNamespace false
set_option linter.unusedSectionVars false
set_option linter.unusedVariables false

namespace Rpylib.Cells
open Rpylib.Grid Finset

/-- centre, left, right index ranges of one axis (half-open), in the order of `parts` / `partsIdx` -/
def idxRanges (ax : List ℚ) (o : ℕ) : List (ℕ × ℕ) := [(o, o + 1), (0, o), (o + 1, ax.length)]

/-- the boundary sequence of an axis -/
def bndOf (mid : ℚ → ℚ → ℚ) (ax : List ℚ) : ℕ → ℚ := bnd mid ax.length ax

theorem rangeList_centre (o : ℕ) : rangeList (o, o + 1) = [o] := by
  unfold rangeList; simp [List.range'_succ]

/-- one axis: a sum over all indices is the sum over the three ranges -/
theorem sum_idxRanges (ax : List ℚ) (o : ℕ) (ho : o < ax.length) (K : ℕ → ℚ) :
    ((idxRanges ax o).map (fun r => ((rangeList r).map K).sum)).sum = ((List.range ax.length).map K).sum := by
  unfold idxRanges rangeList
  simp only [List.map_cons, List.map_nil, List.sum_cons, List.sum_nil, sum_map_range']
  rw [sum_map_range, sum_range_three K o _ ho]
  have e1 : o + (o + 1 - o) = o + 1 := by omega
  have e2 : 0 + (o - 0) = o := by omega
  have e3 : o + 1 + (ax.length - (o + 1)) = ax.length := by omega
  rw [e1, e2, e3]; ring

/-- **the states of a product grid are the disjoint union of the 3^d products of index ranges** (as an identity of sums,
    for every summand `F`) -/
theorem states_split (o : ℕ) : ∀ (axes : List (List ℚ)), (∀ ax ∈ axes, o < ax.length) → ∀ F : List ℕ → ℚ,
    ((states axes).map F).sum =
      ((cartesian (axes.map (fun ax => idxRanges ax o))).map (fun R => ((cartesian (R.map rangeList)).map F).sum)).sum := by
  intro axes
  induction axes with
  | nil => intro _ F; simp [states, cartesian]
  | cons ax rest ih =>
    intro h F
    have ho : o < ax.length := h ax (List.mem_cons_self)
    have hrest : ∀ a ∈ rest, o < a.length := fun a ha => h a (List.mem_cons_of_mem _ ha)
    have hs : states (ax :: rest) = cartesian (List.range ax.length :: rest.map (fun a => List.range a.length)) := rfl
    rw [hs, sum_cartesian_cons, List.map_cons, sum_cartesian_cons]
    -- left: apply the induction hypothesis under the outer sum
    have hL : ∀ i ∈ List.range ax.length,
        ((cartesian (rest.map (fun a => List.range a.length))).map (fun t => F (i :: t))).sum =
          ((cartesian (rest.map (fun a => idxRanges a o))).map
            (fun R' => ((cartesian (R'.map rangeList)).map (fun t => F (i :: t))).sum)).sum :=
      fun i _ => ih hrest (fun t => F (i :: t))
    rw [list_sum_congr _ _ _ hL]
    -- right: open the first coordinate of every product, then swap the two inner sums
    have hR : ∀ r ∈ idxRanges ax o,
        ((cartesian (rest.map (fun a => idxRanges a o))).map
            (fun R' => ((cartesian ((r :: R').map rangeList)).map F).sum)).sum =
          ((rangeList r).map (fun i => ((cartesian (rest.map (fun a => idxRanges a o))).map
            (fun R' => ((cartesian (R'.map rangeList)).map (fun t => F (i :: t))).sum)).sum)).sum := by
      intro r _
      have e : ∀ R' : List (ℕ × ℕ), ((cartesian ((r :: R').map rangeList)).map F).sum =
          ((rangeList r).map (fun i => ((cartesian (R'.map rangeList)).map (fun t => F (i :: t))).sum)).sum := by
        intro R'; rw [List.map_cons, sum_cartesian_cons]
      simp only [e]
      exact list_sum_comm _ _ _
    rw [list_sum_congr _ _ _ hR]
    exact (sum_idxRanges ax o ho _).symm

/-! ### the all-centre product and the others -/

/-- some range of the tuple is not the centre -/
def NonCentre (o : ℕ) (R : List (ℕ × ℕ)) : Prop := ∃ r ∈ R, r ≠ (o, o + 1)

theorem idxRanges_ne_nil (o : ℕ) (axes : List (List ℚ)) : ∀ l ∈ axes.map (fun ax => idxRanges ax o), l ≠ [] := by
  intro l hl
  obtain ⟨ax, _, rfl⟩ := List.mem_map.mp hl
  simp [idxRanges]

/-- the products of ranges: the all-centre one first, then 3^d − 1 products each having a non-centre range -/
theorem ranges_head_tail (o : ℕ) : ∀ axes : List (List ℚ), (∀ ax ∈ axes, 0 < o ∧ o + 1 < ax.length) →
    ∃ T, cartesian (axes.map (fun ax => idxRanges ax o)) = axes.map (fun _ => (o, o + 1)) :: T ∧ ∀ R ∈ T, NonCentre o R := by
  intro axes
  induction axes with
  | nil => intro _; exact ⟨[], by simp [cartesian], by simp⟩
  | cons ax rest ih =>
    intro h
    obtain ⟨T, hT, hN⟩ := ih (fun a ha => h a (List.mem_cons_of_mem _ ha))
    obtain ⟨h0, h1⟩ := h ax (List.mem_cons_self)
    refine ⟨T.map (fun t => (o, o + 1) :: t) ++
      ((rest.map (fun _ => (o, o + 1)) :: T).map (fun t => (0, o) :: t) ++
        (rest.map (fun _ => (o, o + 1)) :: T).map (fun t => (o + 1, ax.length) :: t)), ?_, ?_⟩
    · rw [List.map_cons, cartesian_cons, hT]
      simp [idxRanges]
    · intro R hR
      rcases List.mem_append.mp hR with h2 | h2
      · obtain ⟨t, ht, rfl⟩ := List.mem_map.mp h2
        obtain ⟨r, hr, hne⟩ := hN t ht
        exact ⟨r, List.mem_cons_of_mem _ hr, hne⟩
      · rcases List.mem_append.mp h2 with h3 | h3
        · obtain ⟨t, _, rfl⟩ := List.mem_map.mp h3
          exact ⟨(0, o), List.mem_cons_self, by intro e; simp at e⟩
        · obtain ⟨t, _, rfl⟩ := List.mem_map.mp h3
          exact ⟨(o + 1, ax.length), List.mem_cons_self, by intro e; simp at e⟩

/-- the all-centre product contains the origin alone -/
theorem centre_product (o : ℕ) (axes : List (List ℚ)) :
    cartesian ((axes.map (fun _ => (o, o + 1))).map rangeList) = [axes.map (fun _ => o)] := by
  induction axes with
  | nil => simp [cartesian]
  | cons ax rest ih =>
    simp only [List.map_cons] at ih ⊢
    rw [cartesian_cons, ih, rangeList_centre]
    simp

/-- a product with a non-centre range does not contain the origin -/
theorem origin_not_in_nonCentre (o : ℕ) : ∀ (axes : List (List ℚ)) (R : List (ℕ × ℕ)),
    List.Forall₂ (fun r ax => r ∈ idxRanges ax o) R axes → NonCentre o R →
    ∀ t ∈ cartesian (R.map rangeList), t ≠ axes.map (fun _ => o) := by
  intro axes R h
  induction h with
  | nil => intro hN; obtain ⟨r, hr, _⟩ := hN; simp at hr
  | @cons r ax R' rest hr hrest ih =>
    intro hN t ht hEq
    rw [List.map_cons, cartesian_cons, List.mem_flatMap] at ht
    obtain ⟨i, hi, ht'⟩ := ht
    obtain ⟨t', ht'', rfl⟩ := List.mem_map.mp ht'
    simp only [List.map_cons, List.cons.injEq] at hEq
    obtain ⟨hio, ht'o⟩ := hEq
    obtain ⟨r0, hr0, hne⟩ := hN
    rcases List.mem_cons.mp hr0 with rfl | hmem
    · -- the non-centre range is the first one: it does not contain o
      subst hio
      unfold idxRanges at hr
      unfold rangeList at hi
      have hi' := List.mem_range'_1.mp hi
      simp only [List.mem_cons, List.not_mem_nil, or_false] at hr
      rcases hr with rfl | rfl | rfl
      · exact hne rfl
      · simp at hi'
      · simp at hi'
    · exact ih ⟨r0, hmem, hne⟩ t' ht'' ht'o

end Rpylib.Cells
