/-
C14 helper lemmas: the mixed-radix decoding of `lazy_indices_product`.
-/
import RpylibModel.Proofs.Lemmas.C14Roots

namespace Rpylib.Pairing

/-- `t` is an index tuple of the given sizes: same length, `t_k < sizes_k` -/
def Below : List Nat → List Nat → Prop
  | [], [] => True
  | t :: ts, m :: ms => t < m ∧ Below ts ms
  | _, _ => False

/-- the index that the mixed-radix decoding sends to `t` -/
def undigits : List Nat → List Nat → Nat
  | m :: ms, t :: ts => t + m * undigits ms ts
  | _, _ => 0

theorem digitsFrom_shift (sizes : List Nat) : ∀ (den n : Nat),
    digitsFrom den sizes n = digitsFrom 1 sizes (n / den) := by
  induction sizes with
  | nil => intro den n; rfl
  | cons m ms ih =>
    intro den n
    simp only [digitsFrom]
    rw [ih (den * m) n, ih (1 * m) (n / den), Nat.div_one, Nat.one_mul, Nat.div_div_eq_div_mul]

/-- the decoding is the usual digit recursion: least significant digit first -/
theorem lazyNth_cons (m : Nat) (ms : List Nat) (n : Nat) : lazyNth (m :: ms) n = n % m :: lazyNth ms (n / m) := by
  simp only [lazyNth, digitsFrom]
  rw [digitsFrom_shift ms (1 * m) n, Nat.div_one, Nat.one_mul]

theorem lazyNth_nil (n : Nat) : lazyNth [] n = [] := rfl

theorem lazyNth_below (sizes : List Nat) : ∀ n, n < prodL sizes → Below (lazyNth sizes n) sizes := by
  induction sizes with
  | nil => intro n _; trivial
  | cons m ms ih =>
    intro n hn
    rw [lazyNth_cons]
    simp only [prodL] at hn
    have hm : 0 < m := by
      rcases Nat.eq_zero_or_pos m with h | h
      · subst h; simp at hn
      · exact h
    refine ⟨Nat.mod_lt _ hm, ih _ ?_⟩
    exact Nat.div_lt_of_lt_mul hn

theorem undigits_lazyNth (sizes : List Nat) : ∀ n, n < prodL sizes → undigits sizes (lazyNth sizes n) = n := by
  induction sizes with
  | nil => intro n hn; simp only [prodL] at hn; simp only [undigits]; omega
  | cons m ms ih =>
    intro n hn
    rw [lazyNth_cons]
    simp only [prodL] at hn
    simp only [undigits]
    rw [ih _ (Nat.div_lt_of_lt_mul hn)]
    exact Nat.mod_add_div n m

theorem undigits_lt (sizes : List Nat) : ∀ t, Below t sizes → undigits sizes t < prodL sizes := by
  induction sizes with
  | nil => intro t h; cases t <;> simp [undigits, prodL]
  | cons m ms ih =>
    intro t h
    cases t with
    | nil => exact absurd h (by simp [Below])
    | cons a ts =>
      obtain ⟨ha, hts⟩ := h
      have := ih ts hts
      simp only [undigits, prodL]
      calc a + m * undigits ms ts < m + m * undigits ms ts := by omega
        _ = m * (undigits ms ts + 1) := by ring
        _ ≤ m * prodL ms := Nat.mul_le_mul_left m this

theorem lazyNth_undigits (sizes : List Nat) : ∀ t, Below t sizes → lazyNth sizes (undigits sizes t) = t := by
  induction sizes with
  | nil => intro t h; cases t with
    | nil => rfl
    | cons a ts => exact absurd h (by simp [Below])
  | cons m ms ih =>
    intro t h
    cases t with
    | nil => exact absurd h (by simp [Below])
    | cons a ts =>
      obtain ⟨ha, hts⟩ := h
      rw [lazyNth_cons]
      simp only [undigits]
      have hm : 0 < m := by omega
      rw [Nat.add_mul_mod_self_left, Nat.mod_eq_of_lt ha, Nat.add_mul_div_left _ _ hm, Nat.div_eq_of_lt ha,
        Nat.zero_add, ih ts hts]

theorem lazyProduct_length' (sizes : List Nat) : (lazyProduct sizes).length = prodL sizes := by
  simp [lazyProduct]

theorem lazyProduct_getElem? (sizes : List Nat) (n : Nat) :
    (lazyProduct sizes)[n]? = if n < prodL sizes then some (lazyNth sizes n) else none := by
  unfold lazyProduct
  rw [List.getElem?_map]
  by_cases h : n < prodL sizes
  · simp [h]
  · simp [h]

end Rpylib.Pairing
