/-
C14 helper lemmas: ℕ ↔ ℤ folding, the generic extension of a 2-d pairing to d coordinates, and the ℤ^d enumeration
built from any bijection ℕ ↔ ℕ^d.
-/
import RpylibModel.Proofs.Lemmas.C14TwoD

namespace Rpylib.Pairing

/-! ### folding -/

/-- `projection_to_z` without the product -/
theorem toZ_eq (z : Nat) : toZ z = if z % 2 = 0 then -((z / 2 : Nat) : Int) else ((z / 2 : Nat) : Int) + 1 := by
  unfold toZ
  rcases Nat.mod_two_eq_zero_or_one z with h | h
  · rw [h]; simp
  · rw [h]; simp

theorem toZ_ofZ' (n : Int) : toZ (ofZ n) = n := by
  rw [toZ_eq]; unfold ofZ
  split <;> split <;> omega

theorem ofZ_toZ' (z : Nat) : ofZ (toZ z) = z := by
  rw [toZ_eq]; unfold ofZ
  split <;> split <;> omega

theorem ofZ_eq_zero (n : Int) : ofZ n = 0 ↔ n = 0 := by
  unfold ofZ
  split <;> omega

theorem map_toZ_ofZ (xs : List Int) : (xs.map ofZ).map toZ = xs := by
  induction xs with
  | nil => rfl
  | cons x t ih => simp only [List.map_cons, toZ_ofZ', ih]

theorem map_ofZ_toZ (xs : List Nat) : (xs.map toZ).map ofZ = xs := by
  induction xs with
  | nil => rfl
  | cons x t ih => simp only [List.map_cons, ofZ_toZ', ih]

theorem map_ofZ_zero (d : Nat) : (List.replicate d (0 : Int)).map ofZ = List.replicate d 0 := by
  induction d with
  | zero => rfl
  | succ d ih => simp only [List.replicate_succ, List.map_cons, ih]; rfl

theorem map_toZ_zero (d : Nat) : (List.replicate d (0 : Nat)).map toZ = List.replicate d 0 := by
  induction d with
  | zero => rfl
  | succ d ih => simp only [List.replicate_succ, List.map_cons, ih]; rfl

/-! ### a 2-d bijection extends to every dimension (base class `Pairing`) -/

structure P2.IsBij (P : P2) : Prop where
  pair_proj : ∀ z, P.pair (P.proj z).1 (P.proj z).2 = z
  proj_pair : ∀ x y, P.proj (P.pair x y) = (x, y)

theorem cantor_isBij : cantor.IsBij := ⟨cantor_pair_proj, cantor_proj_pair⟩
theorem rs2_isBij : rs2.IsBij := ⟨rs2_pair_proj, rs2_proj_pair⟩
theorem szudzik_isBij : szudzik.IsBij := ⟨szudzik_pair_proj, szudzik_proj_pair⟩
theorem pepis_isBij : pepis.IsBij := ⟨pepis_pair_proj, pepis_proj_pair⟩

theorem P2.projN_length (P : P2) (z k : Nat) : (P.projN z k).length = k + 1 := by
  induction k with
  | zero => rfl
  | succ k ih =>
    rw [P2.projN]
    cases h : P.projN z k with
    | nil => rw [h] at ih; simp at ih
    | cons p q => rw [h] at ih; simp only [List.length_cons] at ih ⊢; omega

theorem P2.pairN_projN (P : P2) (hP : P.IsBij) (z k : Nat) : P.pairN (P.projN z k) = z := by
  induction k with
  | zero => rfl
  | succ k ih =>
    rw [P2.projN]
    cases h : P.projN z k with
    | nil => have := P.projN_length z k; rw [h] at this; simp at this
    | cons p q =>
      rw [h] at ih
      simp only [P2.pairN, List.foldl_cons, hP.pair_proj] at ih ⊢
      exact ih

theorem P2.projN_pairN (P : P2) (hP : P.IsBij) (rest : List Nat) :
    ∀ x, P.projN (P.pairN (x :: rest)) rest.length = x :: rest := by
  induction rest with
  | nil => intro x; rfl
  | cons r rs ih =>
    intro x
    have h := ih (P.pair x r)
    simp only [P2.pairN, List.foldl_cons, List.length_cons] at h ⊢
    rw [P2.projN, h]
    simp only [hP.proj_pair]

/-! ### bijections ℕ ↔ ℕ^d and the enumeration of ℤ^d without the origin -/

/-- `pairN` / `projD · d` are mutually inverse between ℕ and the d-tuples, the zero tuple carrying index 0 -/
structure NdBij (pairN : List Nat → Nat) (projD : Nat → Nat → List Nat) (d : Nat) : Prop where
  len : ∀ z, (projD z d).length = d
  pair_proj : ∀ z, pairN (projD z d) = z
  proj_pair : ∀ xs, xs.length = d → projD (pairN xs) d = xs
  zero : pairN (List.replicate d 0) = 0

theorem P2.ndBij (P : P2) (hP : P.IsBij) (h0 : P.pair 0 0 = 0) (d : Nat) (hd : 1 ≤ d) : NdBij P.pairN P.projD d := by
  obtain ⟨k, rfl⟩ : ∃ k, d = k + 1 := ⟨d - 1, by omega⟩
  refine ⟨fun z => ?_, fun z => ?_, fun xs hx => ?_, ?_⟩
  · simp only [P2.projD, Nat.add_sub_cancel]; exact P.projN_length z k
  · simp only [P2.projD, Nat.add_sub_cancel]; exact P.pairN_projN hP z k
  · cases xs with
    | nil => simp at hx
    | cons x rest =>
      simp only [List.length_cons] at hx
      have : k = rest.length := by omega
      subst this
      simp only [P2.projD, Nat.add_sub_cancel]; exact P.projN_pairN hP rest x
  · simp only [List.replicate_succ, P2.pairN]
    clear hd
    induction k with
    | zero => rfl
    | succ k ih => simp only [List.replicate_succ, List.foldl_cons, h0]; exact ih

section Zd
variable {pairN : List Nat → Nat} {projD : Nat → Nat → List Nat} {d : Nat}

theorem zd_length (h : NdBij pairN projD d) (i : Nat) : (zdProject projD 1 d i).length = d := by
  simp only [zdProject, List.length_map, h.len]

/-- index-of-state inverts state-of-index -/
theorem zd_pair_project (h : NdBij pairN projD d) (i : Nat) : zdPair pairN 1 (zdProject projD 1 d i) = i := by
  simp only [zdPair, zdProject, map_ofZ_toZ, h.pair_proj]; omega

/-- the origin is never produced -/
theorem zd_project_ne_zero (h : NdBij pairN projD d) (i : Nat) : zdProject projD 1 d i ≠ List.replicate d 0 := by
  intro hc
  have h1 : projD (i + 1) d = List.replicate d 0 := by
    have := congrArg (List.map ofZ) hc
    simp only [zdProject, map_ofZ_toZ, map_ofZ_zero] at this
    exact this
  have h2 := h.pair_proj (i + 1)
  rw [h1, h.zero] at h2
  omega

/-- every non-zero state is produced, at the index `pair` says -/
theorem zd_project_pair (h : NdBij pairN projD d) (v : List Int) (hl : v.length = d) (hv : v ≠ List.replicate d 0) :
    ∃ i : Nat, zdPair pairN 1 v = (i : Int) ∧ zdProject projD 1 d i = v := by
  have hn : pairN (v.map ofZ) ≠ 0 := by
    intro hc
    have h1 := h.proj_pair (v.map ofZ) (by simp [hl])
    rw [hc] at h1
    have h2 := h.proj_pair (List.replicate d 0) (by simp)
    rw [h.zero] at h2
    rw [h2] at h1
    have := congrArg (List.map toZ) h1
    rw [map_toZ_ofZ, map_toZ_zero] at this
    exact hv this.symm
  refine ⟨pairN (v.map ofZ) - 1, by simp only [zdPair]; omega, ?_⟩
  have e : pairN (v.map ofZ) - 1 + 1 = pairN (v.map ofZ) := by omega
  simp only [zdProject, e, h.proj_pair (v.map ofZ) (by simp [hl]), map_toZ_ofZ]

/-- every non-zero state of ℤ^d exactly once -/
theorem zd_exactly_once (h : NdBij pairN projD d) (v : List Int) (hl : v.length = d) (hv : v ≠ List.replicate d 0) :
    ∃! i : Nat, zdProject projD 1 d i = v := by
  obtain ⟨i, _, hi⟩ := zd_project_pair h v hl hv
  refine ⟨i, hi, fun j hj => ?_⟩
  have a := zd_pair_project h i
  have b := zd_pair_project h j
  rw [hi] at a; rw [hj] at b
  omega

end Zd

end Rpylib.Pairing
