/-
C09: the real value of the model's closed forms (`Terms` = Σ c·exp e) and the casts ℚ → ℝ of the polynomial part.
-/
import RpylibModel.Proofs.Lemmas.C09XnExp
import Mathlib.Data.Rat.Cast.Order
import Mathlib.Algebra.Order.Field.Rat

namespace Rpylib.Integrals
open Real

/-- real value of a list of exponential terms: `Σ c · exp e` -/
noncomputable def evalTerms (ts : Terms) : ℝ := (ts.map (fun t => ((t.1 : ℚ) : ℝ) * exp ((t.2 : ℚ) : ℝ))).sum

@[simp] theorem evalTerms_nil : evalTerms [] = 0 := by simp [evalTerms]

@[simp] theorem evalTerms_cons (t : ℚ × ℚ) (ts : Terms) :
    evalTerms (t :: ts) = (t.1 : ℝ) * exp (t.2 : ℝ) + evalTerms ts := by simp [evalTerms]

@[simp] theorem evalTerms_append (s t : Terms) : evalTerms (s ++ t) = evalTerms s + evalTerms t := by
  simp [evalTerms]

theorem evalTerms_scale (k : ℚ) (t : Terms) : evalTerms (scaleTerms k t) = (k : ℝ) * evalTerms t := by
  induction t with
  | nil => simp [scaleTerms]
  | cons h t ih =>
    have : scaleTerms k (h :: t) = (k * h.1, h.2) :: scaleTerms k t := by simp [scaleTerms]
    rw [this, evalTerms_cons, evalTerms_cons, ih]; push_cast; ring

theorem eval_pair_neg (t u : ℚ × ℚ) :
    evalTerms [t, negTerm u] = (t.1 : ℝ) * exp (t.2 : ℝ) - (u.1 : ℝ) * exp (u.2 : ℝ) := by
  simp [negTerm]; ring

theorem cast_rabs (x : ℚ) : ((rabs x : ℚ) : ℝ) = |(x : ℝ)| := by
  unfold rabs
  split_ifs with h
  · have : (x : ℝ) < 0 := by exact_mod_cast h
    rw [abs_of_neg this]; push_cast; ring
  · have : (0 : ℝ) ≤ x := by exact_mod_cast (not_lt.mp h)
    rw [abs_of_nonneg this]

theorem cast_expPartial (n : ℕ) (y : ℚ) : ((expPartial n y : ℚ) : ℝ) = SR n (y : ℝ) := by
  induction n with
  | zero => simp [expPartial, SR]
  | succ n ih => simp only [expPartial, SR]; push_cast; rw [ih]

theorem cast_helperSum (n : ℕ) (x : ℚ) : ((helperSum n x : ℚ) : ℝ) = (fact n : ℝ) * SR n |(x : ℝ)| := by
  unfold helperSum; push_cast; rw [cast_expPartial, cast_rabs]

/-- value of one `helper(u)` term of `integral_xn_exp_minus_x`: `sign · H(|u|)` -/
theorem eval_xnHelper (n : ℕ) (α s u : ℚ) (hα : 0 < α) :
    ((xnHelper helperSum n α s u).1 : ℝ) * exp ((xnHelper helperSum n α s u).2 : ℝ) = (s : ℝ) * H n (α : ℝ) |(u : ℝ)| := by
  have hα' : (0 : ℝ) < α := by exact_mod_cast hα
  simp only [xnHelper, H]
  push_cast
  rw [cast_helperSum, cast_rabs]
  push_cast
  have e1 : |(u : ℝ) * (α : ℝ)| = (α : ℝ) * |(u : ℝ)| := by rw [abs_mul, abs_of_pos hα']; ring
  have e2 : -(|(u : ℝ)| * (α : ℝ)) = -((α : ℝ) * |(u : ℝ)|) := by ring
  rw [e1, e2]
  ring

end Rpylib.Integrals
