/-
Helper lemmas for C17, interest-rate and basket payoffs (Rainbow, Bond, Cap, Ratchet, Swaption): products, cumulative
products and weighted sums of lists of rationals.  No property theorem lives here.
-/
import RpylibModel.Model.Payoff
import RpylibModel.Proofs.Lemmas.C17Basic
import Mathlib.Tactic.Linarith
import Mathlib.Tactic.Ring
import Mathlib.Tactic.FieldSimp
import Mathlib.Algebra.Order.Field.Rat

namespace Rpylib.Payoff

theorem listSum_nil : listSum [] = 0 := rfl
theorem listSum_cons (x : Rat) (l : List Rat) : listSum (x :: l) = x + listSum l := rfl
theorem listProd_nil : listProd [] = 1 := rfl
theorem listProd_cons (x : Rat) (l : List Rat) : listProd (x :: l) = x * listProd l := rfl

theorem listProd_pos (l : List Rat) (h : ∀ x ∈ l, 0 < x) : 0 < listProd l := by
  induction l with
  | nil => simp [listProd_nil]
  | cons x t ih =>
    rw [listProd_cons]
    exact mul_pos (h x (by simp)) (ih (fun y hy => h y (by simp [hy])))

theorem listProd_nonneg (l : List Rat) (h : ∀ x ∈ l, 0 ≤ x) : 0 ≤ listProd l := by
  induction l with
  | nil => simp [listProd_nil]
  | cons x t ih =>
    rw [listProd_cons]
    exact mul_nonneg (h x (by simp)) (ih (fun y hy => h y (by simp [hy])))

theorem listSum_nonneg (l : List Rat) (h : ∀ x ∈ l, 0 ≤ x) : 0 ≤ listSum l := by
  induction l with
  | nil => simp [listSum_nil]
  | cons x t ih =>
    rw [listSum_cons]
    exact add_nonneg (h x (by simp)) (ih (fun y hy => h y (by simp [hy])))

theorem listSum_eq_zero (l : List Rat) (h : ∀ x ∈ l, x = 0) : listSum l = 0 := by
  induction l with
  | nil => rfl
  | cons x t ih => rw [listSum_cons, h x (by simp), ih (fun y hy => h y (by simp [hy]))]; simp

/-- every entry of `cumprodFrom a l` is non-negative when `a` and the factors are -/
theorem cumprodFrom_nonneg (l : List Rat) : ∀ a : Rat, 0 ≤ a → (∀ x ∈ l, 0 ≤ x) → ∀ y ∈ cumprodFrom a l, 0 ≤ y := by
  induction l with
  | nil => intro a _ _ y hy; simp [cumprodFrom] at hy
  | cons x t ih =>
    intro a ha h y hy
    simp only [cumprodFrom, List.mem_cons] at hy
    have hx : 0 ≤ a * x := mul_nonneg ha (h x (by simp))
    rcases hy with rfl | hy
    · exact hx
    · exact ih (a * x) hx (fun z hz => h z (by simp [hz])) y hy

theorem cumprod_nonneg (l : List Rat) (h : ∀ x ∈ l, 0 ≤ x) : ∀ y ∈ cumprod l, 0 ≤ y :=
  cumprodFrom_nonneg l 1 (by norm_num) h

theorem cumprodFrom_length (l : List Rat) : ∀ a, (cumprodFrom a l).length = l.length := by
  induction l with
  | nil => intro a; rfl
  | cons x t ih => intro a; simp [cumprodFrom, ih]

/-- `aux[-1]` of the cumulative product is the full product -/
theorem lastOf_cumprodFrom (l : List Rat) : ∀ a, l ≠ [] → lastOf (cumprodFrom a l) = a * listProd l := by
  induction l with
  | nil => intro a h; exact absurd rfl h
  | cons x t ih =>
    intro a _
    cases t with
    | nil => simp [cumprodFrom, lastOf, listProd]
    | cons y r =>
      have := ih (a * x) (by simp)
      simp only [cumprodFrom] at this ⊢
      simp only [lastOf]
      rw [this, listProd_cons, listProd_cons, listProd_cons]; ring

theorem lastOf_cumprod (l : List Rat) (h : l ≠ []) : lastOf (cumprod l) = listProd l := by
  unfold cumprod; rw [lastOf_cumprodFrom l 1 h]; ring

/-- Σ aᵢ bᵢ ≥ 0 for non-negative entries (lists of any lengths: `zipWith` truncates) -/
theorem dot_nonneg (a : List Rat) : ∀ b : List Rat, (∀ x ∈ a, 0 ≤ x) → (∀ y ∈ b, 0 ≤ y) →
    0 ≤ listSum (List.zipWith (· * ·) a b) := by
  induction a with
  | nil => intro b _ _; simp [listSum_nil]
  | cons x t ih =>
    intro b ha hb
    cases b with
    | nil => simp [listSum_nil]
    | cons y s =>
      simp only [List.zipWith_cons_cons, listSum_cons]
      exact add_nonneg (mul_nonneg (ha x (by simp)) (hb y (by simp)))
        (ih s (fun z hz => ha z (by simp [hz])) (fun z hz => hb z (by simp [hz])))

/-- Σ f'(dᵢ,lᵢ) bᵢ ≤ Σ f(dᵢ,lᵢ) bᵢ when f' ≤ f on the deltas that occur and the weights are non-negative -/
theorem dot_zipWith_le (f f' : Rat → Rat → Rat) (ds : List Rat) : ∀ (ls b : List Rat),
    (∀ d ∈ ds, ∀ l, f' d l ≤ f d l) → (∀ y ∈ b, 0 ≤ y) →
    listSum (List.zipWith (· * ·) (List.zipWith f' ds ls) b) ≤ listSum (List.zipWith (· * ·) (List.zipWith f ds ls) b) := by
  induction ds with
  | nil => intro ls b _ _; simp
  | cons d t ih =>
    intro ls b hf hb
    cases ls with
    | nil => simp
    | cons l s =>
      cases b with
      | nil => simp
      | cons y r =>
        simp only [List.zipWith_cons_cons, listSum_cons]
        have h1 := mul_le_mul_of_nonneg_right (hf d (by simp) l) (hb y (by simp))
        have h2 := ih s r (fun d' hd' => hf d' (by simp [hd'])) (fun z hz => hb z (by simp [hz]))
        linarith

/-- Σ (cᵢ − fᵢ) aᵢ = Σ cᵢ aᵢ − Σ fᵢ aᵢ for `c`, `f` of equal length -/
theorem dot_sub (c : List Rat) : ∀ (f a : List Rat), c.length = f.length →
    listSum (List.zipWith (· * ·) (List.zipWith (· - ·) c f) a)
      = listSum (List.zipWith (· * ·) c a) - listSum (List.zipWith (· * ·) f a) := by
  induction c with
  | nil => intro f a h; cases f with
    | nil => simp [listSum_nil]
    | cons _ _ => simp at h
  | cons x t ih =>
    intro f a h
    cases f with
    | nil => simp at h
    | cons y s =>
      cases a with
      | nil => simp [listSum_nil]
      | cons z r =>
        simp only [List.zipWith_cons_cons, listSum_cons]
        rw [ih s r (by simpa using h)]; ring

/-- pointwise c ≤ c' (same length) and non-negative weights: Σ cᵢ aᵢ ≤ Σ c'ᵢ aᵢ -/
theorem dot_le_of_forall₂ (c c' : List Rat) (h : List.Forall₂ (· ≤ ·) c c') : ∀ a : List Rat, (∀ y ∈ a, 0 ≤ y) →
    listSum (List.zipWith (· * ·) c a) ≤ listSum (List.zipWith (· * ·) c' a) := by
  induction h with
  | nil => intro a _; simp
  | cons hxy _ ih =>
    intro a ha
    cases a with
    | nil => simp
    | cons z r =>
      simp only [List.zipWith_cons_cons, listSum_cons]
      have h1 := mul_le_mul_of_nonneg_right hxy (ha z (by simp))
      have h2 := ih r (fun w hw => ha w (by simp [hw]))
      linarith

theorem listSum_map_mul (l : List Rat) (f : Rat) : listSum (l.map (· * f)) = listSum l * f := by
  induction l with
  | nil => simp [listSum_nil]
  | cons x t ih => simp only [List.map_cons, listSum_cons, ih]; ring

theorem zipWith_mul_nonneg (a : List Rat) : ∀ b : List Rat, (∀ x ∈ a, 0 ≤ x) → (∀ y ∈ b, 0 ≤ y) →
    ∀ z ∈ List.zipWith (· * ·) a b, 0 ≤ z := by
  induction a with
  | nil => intro b _ _ z hz; simp at hz
  | cons x t ih =>
    intro b ha hb z hz
    cases b with
    | nil => simp at hz
    | cons y s =>
      simp only [List.zipWith_cons_cons, List.mem_cons] at hz
      rcases hz with rfl | hz
      · exact mul_nonneg (ha x (by simp)) (hb y (by simp))
      · exact ih s (fun w hw => ha w (by simp [hw])) (fun w hw => hb w (by simp [hw])) z hz

theorem rmax_nonneg_right (a : Rat) : 0 ≤ rmax a 0 := by unfold rmax; split_ifs <;> linarith
theorem rmax_nonneg_left (a : Rat) : 0 ≤ rmax 0 a := by unfold rmax; split_ifs <;> linarith
theorem rmax_mul_nonneg (a f : Rat) (hf : 0 ≤ f) : rmax a 0 * f = rmax (a * f) 0 := by
  unfold rmax
  by_cases h : a < 0
  · have : a * f ≤ 0 := mul_nonpos_of_nonpos_of_nonneg h.le hf
    rcases lt_or_eq_of_le this with h' | h'
    · simp [h, h']
    · simp [h, h']
  · have : 0 ≤ a * f := mul_nonneg (not_lt.mp h) hf
    simp [h, not_lt.mpr this]
theorem rmax_mono_left (a b : Rat) (h : a ≤ b) : rmax a 0 ≤ rmax b 0 := by
  unfold rmax; split_ifs <;> linarith

theorem mem_accr_pos (deltas rates : List Rat) (hd : ∀ d ∈ deltas, 0 ≤ d) (hl : ∀ l ∈ rates, 0 ≤ l) :
    ∀ x ∈ accr deltas rates, 0 < x := by
  induction deltas generalizing rates with
  | nil => intro x hx; simp [accr] at hx
  | cons d t ih =>
    cases rates with
    | nil => intro x hx; simp [accr] at hx
    | cons l s =>
      intro x hx
      simp only [accr, List.zipWith_cons_cons, List.mem_cons] at hx
      rcases hx with rfl | hx
      · have := mul_nonneg (hd d (by simp)) (hl l (by simp)); linarith
      · exact ih s (fun d' hd' => hd d' (by simp [hd'])) (fun l' hl' => hl l' (by simp [hl'])) x hx

/-- the product of the accrual factors is non-decreasing in every rate -/
theorem listProd_accr_le (deltas : List Rat) : ∀ L L' : List Rat, List.Forall₂ (· ≤ ·) L L' → (∀ d ∈ deltas, 0 ≤ d) →
    (∀ l ∈ L, 0 ≤ l) → listProd (accr deltas L) ≤ listProd (accr deltas L') := by
  induction deltas with
  | nil => intro L L' _ _ _; simp [accr]
  | cons d t ih =>
    intro L L' h hd hl
    cases h with
    | nil => simp [accr]
    | @cons l l' s s' hll hss =>
      simp only [accr, List.zipWith_cons_cons, listProd_cons]
      have hd0 := hd d (by simp)
      have hl0 := hl l (by simp)
      have ht : ∀ d' ∈ t, 0 ≤ d' := fun d' hd' => hd d' (by simp [hd'])
      have hs : ∀ x ∈ s, 0 ≤ x := fun x hx => hl x (by simp [hx])
      have ih' := ih s s' hss ht hs
      have hp : 0 ≤ listProd (accr t s) := (listProd_pos _ (mem_accr_pos t s ht hs)).le
      have h1 : 1 + d * l ≤ 1 + d * l' := by nlinarith
      have h2 : 0 ≤ 1 + d * l := by nlinarith
      have : listProd (List.zipWith (fun d l => 1 + d * l) t s) = listProd (accr t s) := rfl
      have e' : listProd (List.zipWith (fun d l => 1 + d * l) t s') = listProd (accr t s') := rfl
      rw [this, e']
      calc (1 + d * l) * listProd (accr t s) ≤ (1 + d * l) * listProd (accr t s') := mul_le_mul_of_nonneg_left ih' h2
        _ ≤ (1 + d * l') * listProd (accr t s') := mul_le_mul_of_nonneg_right h1 (le_trans hp ih')

theorem dot_map_mul (c : Rat) (a : List Rat) : ∀ b : List Rat,
    listSum (List.zipWith (· * ·) a (b.map (c * ·))) = c * listSum (List.zipWith (· * ·) a b) := by
  induction a with
  | nil => intro b; simp [listSum_nil]
  | cons x t ih =>
    intro b
    cases b with
    | nil => simp [listSum_nil]
    | cons y s => simp only [List.map_cons, List.zipWith_cons_cons, listSum_cons, ih s]; ring

end Rpylib.Payoff
