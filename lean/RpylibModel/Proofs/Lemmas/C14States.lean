/-
C14 helper lemmas: `StatesManager.project_index_to_state_increment` asked x = 0, 1, 2, … on a fresh object.
-/
import RpylibModel.Proofs.Lemmas.C14Roots

namespace Rpylib.Pairing

theorem scan_some (adm : Nat → Bool) : ∀ (f a j : Nat), scan adm a f = some j →
    a ≤ j ∧ j < a + f ∧ adm j = true ∧ ∀ i, a ≤ i → i < j → adm i = false := by
  intro f
  induction f with
  | zero => intro a j h; simp [scan] at h
  | succ f ih =>
    intro a j h
    rw [scan] at h
    by_cases c : adm a = true
    · simp only [c, if_true, Option.some.injEq] at h
      subst h
      exact ⟨Nat.le_refl _, by omega, c, fun i h1 h2 => by omega⟩
    · simp only [c, if_false, Bool.false_eq_true] at h
      obtain ⟨h1, h2, h3, h4⟩ := ih (a + 1) j h
      refine ⟨by omega, by omega, h3, fun i hi1 hi2 => ?_⟩
      by_cases e : i = a
      · subst e; simpa using c
      · exact h4 i (by omega) hi2

theorem scan_none (adm : Nat → Bool) : ∀ (f a : Nat), scan adm a f = none →
    ∀ i, a ≤ i → i < a + f → adm i = false := by
  intro f
  induction f with
  | zero => intro a _ i h1 h2; omega
  | succ f ih =>
    intro a h i h1 h2
    rw [scan] at h
    by_cases c : adm a = true
    · simp [c] at h
    · simp only [c, if_false, Bool.false_eq_true] at h
      by_cases e : i = a
      · subst e; simpa using c
      · exact ih (a + 1) h i (by omega) (by omega)

/-- what has been returned after the calls `x = 0 … n-1`: every admissible index below the skip pointer (and below the
bound) exactly once, nothing else -/
def SmInv (adm : Nat → Bool) (bound n : Nat) (r : Nat × List (Option Nat)) : Prop :=
  n ≤ r.1 ∧ r.2.length = n ∧
  ∀ j, r.2.count (some j) = if j < r.1 ∧ j < bound ∧ adm j = true then 1 else 0

theorem smRun_inv (adm : Nat → Bool) (bound : Nat) : ∀ n, SmInv adm bound n (smRun adm bound n) := by
  intro n
  induction n with
  | zero => exact ⟨Nat.le_refl _, rfl, fun j => by simp [smRun]⟩
  | succ n ih =>
    obtain ⟨h1, h2, h3⟩ := ih
    have e : smRun adm bound (n + 1) = ((smStep adm bound (-1) (smRun adm bound n).1 n).1,
        (smRun adm bound n).2 ++ [(smStep adm bound (-1) (smRun adm bound n).1 n).2]) := rfl
    rw [e]
    generalize smRun adm bound n = r at *
    obtain ⟨nxt, outs⟩ := r
    simp only at h1 h2 h3
    have hne : ¬ ((n : Int) = -1) := by omega
    have hmax : max n nxt = nxt := by omega
    show SmInv adm bound (n + 1) ((smStep adm bound (-1) nxt n).1, outs ++ [(smStep adm bound (-1) nxt n).2])
    unfold smStep
    simp only [hne, if_false, hmax]
    cases hs : scan adm nxt (bound - nxt) with
    | none =>
      have hn := scan_none adm _ _ hs
      refine ⟨by simp only []; omega, by simp [h2], fun j => ?_⟩
      simp only [List.count_append, h3 j]
      have : List.count (some j) [(none : Option Nat)] = 0 := by simp
      rw [this, Nat.add_zero]
      by_cases c : j < nxt
      · have : j < max nxt bound + 1 := by omega
        simp [c, this]
      · by_cases cb : j < bound
        · have := hn j (by omega) (by omega)
          simp [c, this]
        · simp [c, cb]
    | some j' =>
      obtain ⟨s1, s2, s3, s4⟩ := scan_some adm _ _ _ hs
      refine ⟨by simp only []; omega, by simp [h2], fun j => ?_⟩
      simp only [List.count_append, h3 j]
      by_cases e : j = j'
      · subst e
        have hb : j < bound := by omega
        have : List.count (some j) [some j] = 1 := by simp
        rw [this]
        have c : ¬ j < nxt := by omega
        simp [c, hb, s3]
      · have : List.count (some j) [some j'] = 0 := by
          simp only [List.count_singleton]; simp; exact fun h => e h.symm
        rw [this, Nat.add_zero]
        by_cases c : j < nxt
        · have : j < j' + 1 := by omega
          simp [c, this]
        · by_cases c2 : j < j'
          · have := s4 j (by omega) c2
            simp [c, this]
          · have : ¬ j < j' + 1 := by omega
            simp [c, this]

/-- when every index below the bound is admissible, call `n < bound` returns index `n` -/
theorem smStep_all_adm (adm : Nat → Bool) (bound n : Nat) (h : ∀ i, i < bound → adm i = true) (hn : n < bound) :
    smStep adm bound (-1) n n = (n + 1, some n) := by
  unfold smStep
  have hne : ¬ ((n : Int) = -1) := by omega
  obtain ⟨f, hf⟩ : ∃ f, bound - n = f + 1 := ⟨bound - n - 1, by omega⟩
  simp only [hne, if_false, Nat.max_self, hf, scan, h n hn, if_true]

theorem smRun_all_adm (adm : Nat → Bool) (bound : Nat) (h : ∀ i, i < bound → adm i = true) :
    ∀ n, n ≤ bound → smRun adm bound n = (n, (List.range n).map some) := by
  intro n
  induction n with
  | zero => intro _; rfl
  | succ n ih =>
    intro hn
    have e : smRun adm bound (n + 1) = ((smStep adm bound (-1) (smRun adm bound n).1 n).1,
        (smRun adm bound n).2 ++ [(smStep adm bound (-1) (smRun adm bound n).1 n).2]) := rfl
    rw [e, ih (by omega)]
    simp only [smStep_all_adm adm bound n h (by omega), List.range_succ, List.map_append, List.map_cons, List.map_nil]

end Rpylib.Pairing
