/-
Helper lemmas for C03 (d = 3, equal axes, measure carried by the coordinate axes): where `__coupling_state` sends a state
that lies on a coordinate axis, flow for flow the 1-d coupling of that margin.
-/
import RpylibModel.Proofs.Lemmas.C03Nd3

set_option linter.dupNamespace false
set_option linter.unusedSectionVars false
set_option linter.unusedVariables false
set_option linter.unusedSimpArgs false

namespace Rpylib.Coupling
open Rpylib.Grid Rpylib.Cells Finset

theorem triple_ne {a b c a' b' c' : ℕ} (h : a ≠ a' ∨ b ≠ b' ∨ c ≠ c') : ¬ [a, b, c] = [a', b', c'] := by
  intro e; simp at e; omega

/-! ### where a fine state with at most one odd coordinate is sent -/

section send
variable (ax : List ℚ) (o : ℕ) (m : MarginMass) (i j k : ℕ) (y : List ℕ)

theorem sendProb3_000 (h1 : ((i : ℤ) - o) % 2 = 0) (h2 : ((j : ℤ) - o) % 2 = 0) (h3 : ((k : ℤ) - o) % 2 = 0) :
    sendProbNd [ax, ax, ax] o m [i, j, k] y = if [i, j, k] = y then 1 else 0 := by
  unfold sendProbNd
  simp only [List.map_cons, List.map_nil]
  rw [oddAxes_three]
  simp [h1, h2, h3]

theorem sendProb3_100 (h1 : ((i : ℤ) - o) % 2 ≠ 0) (h2 : ((j : ℤ) - o) % 2 = 0) (h3 : ((k : ℤ) - o) % 2 = 0) :
    sendProbNd [ax, ax, ax] o m [i, j, k] y =
      (if [posOf i (-1), j, k] = y then cornerProb [ax, ax, ax] m [0] [i, j, k] [-1] else 0) +
      (if [posOf i 1, j, k] = y then cornerProb [ax, ax, ax] m [0] [i, j, k] [1] else 0) := by
  unfold sendProbNd
  simp only [List.map_cons, List.map_nil]
  rw [oddAxes_three]
  simp [h1, h2, h3, signs, cartesian, cornerIdx, List.range_succ, List.filter_cons]
  split_ifs <;> simp_all

theorem sendProb3_010 (h1 : ((i : ℤ) - o) % 2 = 0) (h2 : ((j : ℤ) - o) % 2 ≠ 0) (h3 : ((k : ℤ) - o) % 2 = 0) :
    sendProbNd [ax, ax, ax] o m [i, j, k] y =
      (if [i, posOf j (-1), k] = y then cornerProb [ax, ax, ax] m [1] [i, j, k] [-1] else 0) +
      (if [i, posOf j 1, k] = y then cornerProb [ax, ax, ax] m [1] [i, j, k] [1] else 0) := by
  unfold sendProbNd
  simp only [List.map_cons, List.map_nil]
  rw [oddAxes_three]
  simp [h1, h2, h3, signs, cartesian, cornerIdx, List.range_succ, List.filter_cons]
  split_ifs <;> simp_all

theorem sendProb3_001 (h1 : ((i : ℤ) - o) % 2 = 0) (h2 : ((j : ℤ) - o) % 2 = 0) (h3 : ((k : ℤ) - o) % 2 ≠ 0) :
    sendProbNd [ax, ax, ax] o m [i, j, k] y =
      (if [i, j, posOf k (-1)] = y then cornerProb [ax, ax, ax] m [2] [i, j, k] [-1] else 0) +
      (if [i, j, posOf k 1] = y then cornerProb [ax, ax, ax] m [2] [i, j, k] [1] else 0) := by
  unfold sendProbNd
  simp only [List.map_cons, List.map_nil]
  rw [oddAxes_three]
  simp [h1, h2, h3, signs, cartesian, cornerIdx, List.range_succ, List.filter_cons]
  split_ifs <;> simp_all

/-- one odd coordinate s: the two corner probabilities are the half-cell masses of the margin s over its cell mass -/
theorem cornerProb3_one (s : ℕ) (hs : s < 3) :
    cornerProb [ax, ax, ax] m [s] [i, j, k] [-1] =
      m [s] [halfLo ax ([i, j, k].getD s 0)] / m [s] [wholeCell ax ([i, j, k].getD s 0)] ∧
    cornerProb [ax, ax, ax] m [s] [i, j, k] [1] =
      m [s] [halfHi ax ([i, j, k].getD s 0)] / m [s] [wholeCell ax ([i, j, k].getD s 0)] := by
  unfold halfLo halfHi wholeCell
  obtain rfl | rfl | rfl : s = 0 ∨ s = 1 ∨ s = 2 := by omega
  all_goals constructor <;>
    simp [cornerProb, cornerBox, totalBox, projVal, projPos, cornerVal, midT, projLeftPt, projRightPt]

end send

/-! ### rates, d = 3 -/

theorem joint_three (m : MarginMass) : joint 3 m = m [0, 1, 2] := by
  unfold joint; simp [List.range_succ]

theorem rateNd_joint_three (ax : List ℚ) (o : ℕ) (m : MarginMass) (i j k : ℕ) :
    rateNd amid [ax, ax, ax] o (joint 3 m) [i, j, k] =
      if i = o ∧ j = o ∧ k = o then 0
      else m [0, 1, 2] [(cellLo amid ax i, cellHi amid ax i), (cellLo amid ax j, cellHi amid ax j),
        (cellLo amid ax k, cellHi amid ax k)] := by
  rw [joint_three]
  unfold rateNd cellBox
  simp

/-- `m` is the family of margin masses of `m1 ⊗ δ0 ⊗ δ0 + δ0 ⊗ m2 ⊗ δ0 + δ0 ⊗ δ0 ⊗ m3`, stated on the boxes the chain uses
    (every side either strictly on one side of 0 or strictly straddling it) -/
structure CarriedByAxes3 (m : MarginMass) (m1 m2 m3 : ℚ → ℚ → ℚ) : Prop where
  margin1 : ∀ a b, m [0] [(a, b)] = m1 a b
  margin2 : ∀ a b, m [1] [(a, b)] = m2 a b
  margin3 : ∀ a b, m [2] [(a, b)] = m3 a b
  on1 : ∀ a b c d e f, Away a b → c < 0 → 0 < d → e < 0 → 0 < f → m [0, 1, 2] [(a, b), (c, d), (e, f)] = m1 a b
  on2 : ∀ a b c d e f, a < 0 → 0 < b → Away c d → e < 0 → 0 < f → m [0, 1, 2] [(a, b), (c, d), (e, f)] = m2 c d
  on3 : ∀ a b c d e f, a < 0 → 0 < b → c < 0 → 0 < d → Away e f → m [0, 1, 2] [(a, b), (c, d), (e, f)] = m3 e f
  off12 : ∀ a b c d e f, Away a b → Away c d → m [0, 1, 2] [(a, b), (c, d), (e, f)] = 0
  off13 : ∀ a b c d e f, Away a b → Away e f → m [0, 1, 2] [(a, b), (c, d), (e, f)] = 0
  off23 : ∀ a b c d e f, Away c d → Away e f → m [0, 1, 2] [(a, b), (c, d), (e, f)] = 0

section rates
variable (ax : List ℚ) (o : ℕ) (hax : AxisOK ax o) (m : MarginMass) (m1 m2 m3 : ℚ → ℚ → ℚ)
  (hC : CarriedByAxes3 m m1 m2 m3)
include hax hC

theorem origin_straddles : cellLo amid ax o < 0 ∧ 0 < cellHi amid ax o := by
  have s := state_in_cell amid amid_between amid_idem ax hax.inc o (by have := hax.hi; omega)
  rw [hax.zero] at s
  exact ⟨s.2.2.1 hax.lo, s.2.2.2 hax.hi⟩

theorem rate3_on_axis1 (i : ℕ) (hi' : i < ax.length) :
    rateNd amid [ax, ax, ax] o (joint 3 m) [i, o, o] = rate amid ax o m1 i := by
  rw [rateNd_joint_three]
  unfold rate
  by_cases h : i = o
  · simp [h]
  · rw [if_neg (by tauto), if_neg h]
    obtain ⟨s1, s2⟩ := origin_straddles ax o hax m m1 m2 m3 hC
    exact hC.on1 _ _ _ _ _ _ (cell_away amid amid_between amid_idem ax o hax i hi' h) s1 s2 s1 s2

theorem rate3_on_axis2 (j : ℕ) (hj : j < ax.length) :
    rateNd amid [ax, ax, ax] o (joint 3 m) [o, j, o] = rate amid ax o m2 j := by
  rw [rateNd_joint_three]
  unfold rate
  by_cases h : j = o
  · simp [h]
  · rw [if_neg (by tauto), if_neg h]
    obtain ⟨s1, s2⟩ := origin_straddles ax o hax m m1 m2 m3 hC
    exact hC.on2 _ _ _ _ _ _ s1 s2 (cell_away amid amid_between amid_idem ax o hax j hj h) s1 s2

theorem rate3_on_axis3 (k : ℕ) (hk : k < ax.length) :
    rateNd amid [ax, ax, ax] o (joint 3 m) [o, o, k] = rate amid ax o m3 k := by
  rw [rateNd_joint_three]
  unfold rate
  by_cases h : k = o
  · simp [h]
  · rw [if_neg (by tauto), if_neg h]
    obtain ⟨s1, s2⟩ := origin_straddles ax o hax m m1 m2 m3 hC
    exact hC.on3 _ _ _ _ _ _ s1 s2 s1 s2 (cell_away amid amid_between amid_idem ax o hax k hk h)

/-- a state with two or three coordinates off the origin has rate 0 -/
theorem rate3_off_axes (i j k : ℕ) (hi' : i < ax.length) (hj : j < ax.length) (hk : k < ax.length)
    (h : (i ≠ o ∧ j ≠ o) ∨ (i ≠ o ∧ k ≠ o) ∨ (j ≠ o ∧ k ≠ o)) :
    rateNd amid [ax, ax, ax] o (joint 3 m) [i, j, k] = 0 := by
  rw [rateNd_joint_three, if_neg (by omega)]
  have aw := fun c hc hco => cell_away amid amid_between amid_idem ax o hax c hc hco
  rcases h with ⟨a, b⟩ | ⟨a, b⟩ | ⟨a, b⟩
  · exact hC.off12 _ _ _ _ _ _ (aw i hi' a) (aw j hj b)
  · exact hC.off13 _ _ _ _ _ _ (aw i hi' a) (aw k hk b)
  · exact hC.off23 _ _ _ _ _ _ (aw j hj a) (aw k hk b)

end rates

/-! ### the flow of an odd state on an axis is the 1-d flow of that margin -/

/-- common core: `r * (p_left, p_right)` written with the margin's half-cell masses is `sentLeft / sentRight` -/
theorem odd_flow_core (ax : List ℚ) (o : ℕ) (hax : AxisOK ax (2 * o)) (μ : ℚ → ℚ → ℚ) (hμ : IsMass μ) (i y : ℕ)
    (hi' : i < ax.length) (hne : i ≠ 2 * o) (A B : Prop) [Decidable A] [Decidable B] (hA : A ↔ i = y + 1)
    (hB : B ↔ i + 1 = y) :
    (if rate amid ax (2 * o) μ i = 0 then 0 else rate amid ax (2 * o) μ i *
      ((if A then μ (cellLo amid ax i) (pt ax i) / μ (cellLo amid ax i) (cellHi amid ax i) else 0) +
       (if B then μ (pt ax i) (cellHi amid ax i) / μ (cellLo amid ax i) (cellHi amid ax i) else 0))) =
    (if i + 1 = y then sentRight amid ax (2 * o) μ i else 0) + (if i = y + 1 then sentLeft amid ax (2 * o) μ i else 0) := by
  obtain ⟨e, hL, hR⟩ := rate_split amid amid_between amid_idem ax (2 * o) hax μ hμ i hi' hne
  have cell_eq : μ (cellLo amid ax i) (cellHi amid ax i) = valLeft amid ax μ i + valRight amid ax μ i := by
    rw [← e]; unfold rate; rw [if_neg hne]
  have vL : μ (cellLo amid ax i) (pt ax i) = valLeft amid ax μ i := rfl
  have vR : μ (pt ax i) (cellHi amid ax i) = valRight amid ax μ i := rfl
  rw [cell_eq, vL, vR]
  unfold sentRight sentLeft pRight
  by_cases hz : rate amid ax (2 * o) μ i = 0
  · simp [hz]
  · rw [if_neg hz, if_neg hz, if_neg hz]
    have hne0 : valLeft amid ax μ i + valRight amid ax μ i ≠ 0 := by rw [← e]; exact hz
    have cA : A = (i = y + 1) := propext hA
    have cB : B = (i + 1 = y) := propext hB
    subst cA cB
    by_cases a1 : i = y + 1 <;> by_cases a2 : i + 1 = y
    · omega
    · simp only [if_pos a1, if_neg a2]; rw [e]; field_simp; ring
    · simp only [if_neg a1, if_pos a2]; ring
    · simp only [if_neg a1, if_neg a2]; ring

section indep3
variable (ax : List ℚ) (o : ℕ) (hax : AxisOK ax (2 * o)) (hlen : ax.length % 2 = 1)
  (m : MarginMass) (m1 m2 m3 : ℚ → ℚ → ℚ) (hM1 : IsMass m1) (hM2 : IsMass m2) (hM3 : IsMass m3)
  (hC : CarriedByAxes3 m m1 m2 m3)
include hax hlen hM1 hM2 hM3 hC

/-- **on axis 1 the 3-d coupling is the 1-d coupling of margin 1**: flow for flow -/
theorem flow3_on_axis1 (i y : ℕ) (hi' : i < ax.length) :
    flowNd [ax, ax, ax] (2 * o) m [i, 2 * o, 2 * o] [y, 2 * o, 2 * o] = flow1d amid ax (2 * o) m1 i y := by
  have hr := rate3_on_axis1 ax (2 * o) hax m m1 m2 m3 hC i hi'
  unfold flowNd flow1d
  simp only [List.length_cons, List.length_nil, Nat.zero_add, Nat.reduceAdd]
  rw [hr]
  by_cases hpar : i % 2 = 0
  · rw [if_pos hpar, sendProb3_000 ax (2 * o) m _ _ _ _ (parity_even o i hpar) (by omega) (by omega)]
    by_cases hy : i = y
    · subst hy; simp; intro h; exact h.symm
    · have : ¬ [i, 2 * o, 2 * o] = [y, 2 * o, 2 * o] := by simp [hy]
      rw [if_neg this, if_neg hy]; simp
  · have hodd : i % 2 = 1 := by omega
    have hne : i ≠ 2 * o := by omega
    have h0 : 0 < i := by omega
    have h1 : i + 1 < ax.length := by omega
    obtain ⟨c1, c2, c3⟩ := half_cells ax hax.inc i h0 h1
    rw [if_neg hpar, sendProb3_100 ax (2 * o) m _ _ _ _ (parity_odd o i hodd) (by omega) (by omega),
      (cornerProb3_one ax m _ _ _ 0 (by omega)).1, (cornerProb3_one ax m _ _ _ 0 (by omega)).2]
    simp only [List.getD_cons_zero, List.getD_cons_succ]
    rw [c1, c2, c3, hC.margin1, hC.margin1, hC.margin1]
    have e1 : posOf i (-1) = i - 1 := by unfold posOf; omega
    have e2 : posOf i 1 = i + 1 := by unfold posOf; omega
    rw [e1, e2]
    exact odd_flow_core ax o hax m1 hM1 i y hi' hne _ _ (by simp; omega) (by simp)

/-- a state on axis 1 is only ever sent to states on axis 1 -/
theorem flow3_axis1_stays (i y1 y2 y3 : ℕ) (h : y2 ≠ 2 * o ∨ y3 ≠ 2 * o) :
    flowNd [ax, ax, ax] (2 * o) m [i, 2 * o, 2 * o] [y1, y2, y3] = 0 := by
  unfold flowNd
  simp only
  split_ifs with hr
  · rfl
  · have hs : sendProbNd [ax, ax, ax] (2 * o) m [i, 2 * o, 2 * o] [y1, y2, y3] = 0 := by
      by_cases hpar : i % 2 = 0
      · rw [sendProb3_000 ax (2 * o) m _ _ _ _ (parity_even o i hpar) (by omega) (by omega), if_neg (triple_ne (by omega))]
      · rw [sendProb3_100 ax (2 * o) m _ _ _ _ (parity_odd o i (by omega)) (by omega) (by omega),
          if_neg (triple_ne (by omega)), if_neg (triple_ne (by omega))]; ring
    rw [hs]; ring

/-- **on axis 2 the 3-d coupling is the 1-d coupling of margin 2**: flow for flow -/
theorem flow3_on_axis2 (i y : ℕ) (hi' : i < ax.length) :
    flowNd [ax, ax, ax] (2 * o) m [2 * o, i, 2 * o] [2 * o, y, 2 * o] = flow1d amid ax (2 * o) m2 i y := by
  have hr := rate3_on_axis2 ax (2 * o) hax m m1 m2 m3 hC i hi'
  unfold flowNd flow1d
  simp only [List.length_cons, List.length_nil, Nat.zero_add, Nat.reduceAdd]
  rw [hr]
  by_cases hpar : i % 2 = 0
  · rw [if_pos hpar, sendProb3_000 ax (2 * o) m _ _ _ _ (by omega) (parity_even o i hpar) (by omega)]
    by_cases hy : i = y
    · subst hy; simp; intro h; exact h.symm
    · have : ¬ [2 * o, i, 2 * o] = [2 * o, y, 2 * o] := by simp [hy]
      rw [if_neg this, if_neg hy]; simp
  · have hodd : i % 2 = 1 := by omega
    have hne : i ≠ 2 * o := by omega
    have h0 : 0 < i := by omega
    have h1 : i + 1 < ax.length := by omega
    obtain ⟨c1, c2, c3⟩ := half_cells ax hax.inc i h0 h1
    rw [if_neg hpar, sendProb3_010 ax (2 * o) m _ _ _ _ (by omega) (parity_odd o i hodd) (by omega),
      (cornerProb3_one ax m _ _ _ 1 (by omega)).1, (cornerProb3_one ax m _ _ _ 1 (by omega)).2]
    simp only [List.getD_cons_zero, List.getD_cons_succ]
    rw [c1, c2, c3, hC.margin2, hC.margin2, hC.margin2]
    have e1 : posOf i (-1) = i - 1 := by unfold posOf; omega
    have e2 : posOf i 1 = i + 1 := by unfold posOf; omega
    rw [e1, e2]
    exact odd_flow_core ax o hax m2 hM2 i y hi' hne _ _ (by simp; omega) (by simp)

/-- a state on axis 2 is only ever sent to states on axis 2 -/
theorem flow3_axis2_stays (i y1 y2 y3 : ℕ) (h : y1 ≠ 2 * o ∨ y3 ≠ 2 * o) :
    flowNd [ax, ax, ax] (2 * o) m [2 * o, i, 2 * o] [y1, y2, y3] = 0 := by
  unfold flowNd
  simp only
  split_ifs with hr
  · rfl
  · have hs : sendProbNd [ax, ax, ax] (2 * o) m [2 * o, i, 2 * o] [y1, y2, y3] = 0 := by
      by_cases hpar : i % 2 = 0
      · rw [sendProb3_000 ax (2 * o) m _ _ _ _ (by omega) (parity_even o i hpar) (by omega), if_neg (triple_ne (by omega))]
      · rw [sendProb3_010 ax (2 * o) m _ _ _ _ (by omega) (parity_odd o i (by omega)) (by omega),
          if_neg (triple_ne (by omega)), if_neg (triple_ne (by omega))]; ring
    rw [hs]; ring

/-- **on axis 3 the 3-d coupling is the 1-d coupling of margin 3**: flow for flow -/
theorem flow3_on_axis3 (i y : ℕ) (hi' : i < ax.length) :
    flowNd [ax, ax, ax] (2 * o) m [2 * o, 2 * o, i] [2 * o, 2 * o, y] = flow1d amid ax (2 * o) m3 i y := by
  have hr := rate3_on_axis3 ax (2 * o) hax m m1 m2 m3 hC i hi'
  unfold flowNd flow1d
  simp only [List.length_cons, List.length_nil, Nat.zero_add, Nat.reduceAdd]
  rw [hr]
  by_cases hpar : i % 2 = 0
  · rw [if_pos hpar, sendProb3_000 ax (2 * o) m _ _ _ _ (by omega) (by omega) (parity_even o i hpar)]
    by_cases hy : i = y
    · subst hy; simp; intro h; exact h.symm
    · have : ¬ [2 * o, 2 * o, i] = [2 * o, 2 * o, y] := by simp [hy]
      rw [if_neg this, if_neg hy]; simp
  · have hodd : i % 2 = 1 := by omega
    have hne : i ≠ 2 * o := by omega
    have h0 : 0 < i := by omega
    have h1 : i + 1 < ax.length := by omega
    obtain ⟨c1, c2, c3⟩ := half_cells ax hax.inc i h0 h1
    rw [if_neg hpar, sendProb3_001 ax (2 * o) m _ _ _ _ (by omega) (by omega) (parity_odd o i hodd),
      (cornerProb3_one ax m _ _ _ 2 (by omega)).1, (cornerProb3_one ax m _ _ _ 2 (by omega)).2]
    simp only [List.getD_cons_zero, List.getD_cons_succ]
    rw [c1, c2, c3, hC.margin3, hC.margin3, hC.margin3]
    have e1 : posOf i (-1) = i - 1 := by unfold posOf; omega
    have e2 : posOf i 1 = i + 1 := by unfold posOf; omega
    rw [e1, e2]
    exact odd_flow_core ax o hax m3 hM3 i y hi' hne _ _ (by simp; omega) (by simp)

/-- a state on axis 3 is only ever sent to states on axis 3 -/
theorem flow3_axis3_stays (i y1 y2 y3 : ℕ) (h : y1 ≠ 2 * o ∨ y2 ≠ 2 * o) :
    flowNd [ax, ax, ax] (2 * o) m [2 * o, 2 * o, i] [y1, y2, y3] = 0 := by
  unfold flowNd
  simp only
  split_ifs with hr
  · rfl
  · have hs : sendProbNd [ax, ax, ax] (2 * o) m [2 * o, 2 * o, i] [y1, y2, y3] = 0 := by
      by_cases hpar : i % 2 = 0
      · rw [sendProb3_000 ax (2 * o) m _ _ _ _ (by omega) (by omega) (parity_even o i hpar), if_neg (triple_ne (by omega))]
      · rw [sendProb3_001 ax (2 * o) m _ _ _ _ (by omega) (by omega) (parity_odd o i (by omega)),
          if_neg (triple_ne (by omega)), if_neg (triple_ne (by omega))]; ring
    rw [hs]; ring

/-- a fine state that is not on the first axis sends nothing to a non-origin state of the first axis -/
theorem flow3_zero_to_axis1 (i j k y : ℕ) (hi' : i < ax.length) (hj : j < ax.length) (hk : k < ax.length)
    (hy : y ≠ 2 * o) (hjk : j ≠ 2 * o ∨ k ≠ 2 * o) :
    flowNd [ax, ax, ax] (2 * o) m [i, j, k] [y, 2 * o, 2 * o] = 0 := by
  by_cases h2 : (i ≠ 2 * o ∧ j ≠ 2 * o) ∨ (i ≠ 2 * o ∧ k ≠ 2 * o) ∨ (j ≠ 2 * o ∧ k ≠ 2 * o)
  · unfold flowNd
    simp only [List.length_cons, List.length_nil, Nat.zero_add, Nat.reduceAdd]
    rw [rate3_off_axes _ (2 * o) hax m m1 m2 m3 hC i j k hi' hj hk h2]; simp
  · have hi0 : i = 2 * o := by omega
    subst hi0
    by_cases hj0 : j = 2 * o
    · subst hj0
      exact flow3_axis3_stays _ o hax hlen m m1 m2 m3 hM1 hM2 hM3 hC k y _ _ (Or.inl hy)
    · have hk0 : k = 2 * o := by omega
      subst hk0
      exact flow3_axis2_stays _ o hax hlen m m1 m2 m3 hM1 hM2 hM3 hC j y _ _ (Or.inl hy)

theorem flow3_zero_to_axis2 (i j k y : ℕ) (hi' : i < ax.length) (hj : j < ax.length) (hk : k < ax.length)
    (hy : y ≠ 2 * o) (hik : i ≠ 2 * o ∨ k ≠ 2 * o) :
    flowNd [ax, ax, ax] (2 * o) m [i, j, k] [2 * o, y, 2 * o] = 0 := by
  by_cases h2 : (i ≠ 2 * o ∧ j ≠ 2 * o) ∨ (i ≠ 2 * o ∧ k ≠ 2 * o) ∨ (j ≠ 2 * o ∧ k ≠ 2 * o)
  · unfold flowNd
    simp only [List.length_cons, List.length_nil, Nat.zero_add, Nat.reduceAdd]
    rw [rate3_off_axes _ (2 * o) hax m m1 m2 m3 hC i j k hi' hj hk h2]; simp
  · have hj0 : j = 2 * o := by omega
    subst hj0
    by_cases hi0 : i = 2 * o
    · subst hi0
      exact flow3_axis3_stays _ o hax hlen m m1 m2 m3 hM1 hM2 hM3 hC k _ y _ (Or.inr hy)
    · have hk0 : k = 2 * o := by omega
      subst hk0
      exact flow3_axis1_stays _ o hax hlen m m1 m2 m3 hM1 hM2 hM3 hC i _ y _ (Or.inl hy)

theorem flow3_zero_to_axis3 (i j k y : ℕ) (hi' : i < ax.length) (hj : j < ax.length) (hk : k < ax.length)
    (hy : y ≠ 2 * o) (hij : i ≠ 2 * o ∨ j ≠ 2 * o) :
    flowNd [ax, ax, ax] (2 * o) m [i, j, k] [2 * o, 2 * o, y] = 0 := by
  by_cases h2 : (i ≠ 2 * o ∧ j ≠ 2 * o) ∨ (i ≠ 2 * o ∧ k ≠ 2 * o) ∨ (j ≠ 2 * o ∧ k ≠ 2 * o)
  · unfold flowNd
    simp only [List.length_cons, List.length_nil, Nat.zero_add, Nat.reduceAdd]
    rw [rate3_off_axes _ (2 * o) hax m m1 m2 m3 hC i j k hi' hj hk h2]; simp
  · have hk0 : k = 2 * o := by omega
    subst hk0
    by_cases hi0 : i = 2 * o
    · subst hi0
      exact flow3_axis2_stays _ o hax hlen m m1 m2 m3 hM1 hM2 hM3 hC j _ _ y (Or.inr hy)
    · have hj0 : j = 2 * o := by omega
      subst hj0
      exact flow3_axis1_stays _ o hax hlen m m1 m2 m3 hM1 hM2 hM3 hC i _ _ y (Or.inr hy)

/-- no fine state sends anything to a state with two or three coordinates off the origin -/
theorem flow3_zero_to_off (i j k y1 y2 y3 : ℕ) (hi' : i < ax.length) (hj : j < ax.length) (hk : k < ax.length)
    (hy : (y1 ≠ 2 * o ∧ y2 ≠ 2 * o) ∨ (y1 ≠ 2 * o ∧ y3 ≠ 2 * o) ∨ (y2 ≠ 2 * o ∧ y3 ≠ 2 * o)) :
    flowNd [ax, ax, ax] (2 * o) m [i, j, k] [y1, y2, y3] = 0 := by
  by_cases h2 : (i ≠ 2 * o ∧ j ≠ 2 * o) ∨ (i ≠ 2 * o ∧ k ≠ 2 * o) ∨ (j ≠ 2 * o ∧ k ≠ 2 * o)
  · unfold flowNd
    simp only [List.length_cons, List.length_nil, Nat.zero_add, Nat.reduceAdd]
    rw [rate3_off_axes _ (2 * o) hax m m1 m2 m3 hC i j k hi' hj hk h2]; simp
  · by_cases hi0 : i = 2 * o
    · subst hi0
      by_cases hj0 : j = 2 * o
      · subst hj0
        exact flow3_axis3_stays _ o hax hlen m m1 m2 m3 hM1 hM2 hM3 hC k _ _ _ (by omega)
      · have hk0 : k = 2 * o := by omega
        subst hk0
        exact flow3_axis2_stays _ o hax hlen m m1 m2 m3 hM1 hM2 hM3 hC j _ _ _ (by omega)
    · have hj0 : j = 2 * o := by omega
      have hk0 : k = 2 * o := by omega
      subst hj0 hk0
      exact flow3_axis1_stays _ o hax hlen m m1 m2 m3 hM1 hM2 hM3 hC i _ _ _ (by omega)

end indep3

end Rpylib.Coupling
