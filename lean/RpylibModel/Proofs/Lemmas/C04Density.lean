/-
C04: the hypotheses of `variance_gap` / `mean_gap` are satisfied by every measure that has a density.

`f : ℝ → ℝ` is a Lévy density in the weakest sense the chain needs (`IsLevyDensity`): non-negative away from 0 and
interval-integrable on every interval that lies strictly on one side of 0 (nothing is asked at or across 0: infinite
activity, infinite variation are instances).  Its interval moments
    `densMoment n f a b = ∫_a^b x^n f(x) dx`   (n = 0 mass, n = 1 first moment, n = 2 second moment)
satisfy, as theorems over ℝ: additivity and non-negativity on one-sided intervals (`IsMassV` with `V = ℝ`), the sandwich
laws `a·m ≤ m1 ≤ b·m` (any a ≤ b on one side), `a²·m ≤ m2 ≤ b²·m` (0 < a ≤ b), `b²·m ≤ m2 ≤ a²·m` (a ≤ b < 0):
`IsFirstMomentV`, `IsSecondMomentV`.  Hence `variance_gap_real` / `mean_gap_real`: the variance / mean gap of the
chain for density-based masses holds with *no* hypothesis on the masses.
-/
import RpylibModel.Proofs.Lemmas.C04Field
import Mathlib.MeasureTheory.Integral.IntervalIntegral.Basic
import Mathlib.MeasureTheory.Measure.Lebesgue.Basic
import Mathlib.Topology.Algebra.Monoid

set_option linter.dupNamespace false
set_option linter.unusedSectionVars false
set_option linter.unusedVariables false

namespace Rpylib.Drift
open Rpylib.Grid Rpylib.Cells Finset MeasureTheory

/-- a Lévy density as far as the chain is concerned -/
structure IsLevyDensity (f : ℝ → ℝ) : Prop where
  nonneg : ∀ x, x ≠ 0 → 0 ≤ f x
  integrable : ∀ a b : ℝ, a ≤ b → (b < 0 ∨ 0 < a) → IntervalIntegrable f volume a b

/-- `∫_a^b x^n f(x) dx` at rational end points (floats) -/
noncomputable def densMoment (n : ℕ) (f : ℝ → ℝ) (a b : ℚ) : ℝ := ∫ x in (a : ℝ)..(b : ℝ), x ^ n * f x

theorem densMoment_zero (f : ℝ → ℝ) (a b : ℚ) : densMoment 0 f a b = ∫ x in (a : ℝ)..(b : ℝ), f x := by
  unfold densMoment; simp

/-! ### real end points -/

theorem ne_zero_of_mem {a b x : ℝ} (haw : b < 0 ∨ 0 < a) (hx : x ∈ Set.Icc a b) : x ≠ 0 := by
  rcases haw with h | h
  · exact ne_of_lt (lt_of_le_of_lt hx.2 h)
  · exact ne_of_gt (lt_of_lt_of_le h hx.1)

section real
variable {f : ℝ → ℝ} (hf : IsLevyDensity f)
include hf

theorem moment_intervalIntegrable (n : ℕ) (a b : ℝ) (hab : a ≤ b) (haw : b < 0 ∨ 0 < a) :
    IntervalIntegrable (fun x => x ^ n * f x) volume a b :=
  (hf.integrable a b hab haw).continuousOn_mul (continuous_pow n).continuousOn

theorem moment_add (n : ℕ) (a b c : ℝ) (hab : a ≤ b) (hbc : b ≤ c) (haw : c < 0 ∨ 0 < a) :
    ∫ x in a..c, x ^ n * f x = (∫ x in a..b, x ^ n * f x) + ∫ x in b..c, x ^ n * f x := by
  have h1 : b < 0 ∨ 0 < a := haw.imp (fun h => lt_of_le_of_lt hbc h) id
  have h2 : c < 0 ∨ 0 < b := haw.imp id (fun h => lt_of_lt_of_le h hab)
  exact (intervalIntegral.integral_add_adjacent_intervals (moment_intervalIntegrable hf n a b hab h1)
    (moment_intervalIntegrable hf n b c hbc h2)).symm

theorem mass_nonneg (a b : ℝ) (hab : a ≤ b) (haw : b < 0 ∨ 0 < a) : 0 ≤ ∫ x in a..b, f x :=
  intervalIntegral.integral_nonneg hab (fun x hx => hf.nonneg x (ne_zero_of_mem haw hx))

theorem even_moment_nonneg (n : ℕ) (hn : Even n) (a b : ℝ) (hab : a ≤ b) (haw : b < 0 ∨ 0 < a) :
    0 ≤ ∫ x in a..b, x ^ n * f x :=
  intervalIntegral.integral_nonneg hab
    (fun x hx => mul_nonneg (hn.pow_nonneg x) (hf.nonneg x (ne_zero_of_mem haw hx)))

/-- a pointwise sandwich `lo ≤ x^n ≤ hi` on `[a, b]` passes to the integrals -/
theorem moment_sandwich (n : ℕ) (a b lo hi : ℝ) (hab : a ≤ b) (haw : b < 0 ∨ 0 < a)
    (hb : ∀ x ∈ Set.Icc a b, lo ≤ x ^ n ∧ x ^ n ≤ hi) :
    lo * (∫ x in a..b, f x) ≤ ∫ x in a..b, x ^ n * f x ∧ ∫ x in a..b, x ^ n * f x ≤ hi * ∫ x in a..b, f x := by
  have i0 := hf.integrable a b hab haw
  have i1 := moment_intervalIntegrable hf n a b hab haw
  constructor
  · rw [← intervalIntegral.integral_const_mul]
    refine intervalIntegral.integral_mono_on hab (i0.const_mul lo) i1 (fun x hx => ?_)
    exact mul_le_mul_of_nonneg_right (hb x hx).1 (hf.nonneg x (ne_zero_of_mem haw hx))
  · rw [← intervalIntegral.integral_const_mul]
    refine intervalIntegral.integral_mono_on hab i1 (i0.const_mul hi) (fun x hx => ?_)
    exact mul_le_mul_of_nonneg_right (hb x hx).2 (hf.nonneg x (ne_zero_of_mem haw hx))

/-- first moment: `a·m ≤ m1 ≤ b·m` on every one-sided interval, whatever the side -/
theorem first_moment_sandwich (a b : ℝ) (hab : a ≤ b) (haw : b < 0 ∨ 0 < a) :
    a * (∫ x in a..b, f x) ≤ ∫ x in a..b, x ^ 1 * f x ∧ ∫ x in a..b, x ^ 1 * f x ≤ b * ∫ x in a..b, f x :=
  moment_sandwich hf 1 a b a b hab haw (fun x hx => by simpa using hx)

/-- second moment on the positive side: `a²·m ≤ m2 ≤ b²·m` -/
theorem second_moment_sandwich_pos (a b : ℝ) (ha : 0 < a) (hab : a ≤ b) :
    a ^ 2 * (∫ x in a..b, f x) ≤ ∫ x in a..b, x ^ 2 * f x ∧ ∫ x in a..b, x ^ 2 * f x ≤ b ^ 2 * ∫ x in a..b, f x :=
  moment_sandwich hf 2 a b (a ^ 2) (b ^ 2) hab (Or.inr ha) (fun x hx => by
    have h1 : 0 ≤ x := le_trans ha.le hx.1
    constructor <;> nlinarith [hx.1, hx.2])

/-- second moment on the negative side: `b²·m ≤ m2 ≤ a²·m` -/
theorem second_moment_sandwich_neg (a b : ℝ) (hab : a ≤ b) (hb : b < 0) :
    b ^ 2 * (∫ x in a..b, f x) ≤ ∫ x in a..b, x ^ 2 * f x ∧ ∫ x in a..b, x ^ 2 * f x ≤ a ^ 2 * ∫ x in a..b, f x :=
  moment_sandwich hf 2 a b (b ^ 2) (a ^ 2) hab (Or.inl hb) (fun x hx => by
    have h1 : x ≤ 0 := le_trans hx.2 hb.le
    constructor <;> nlinarith [hx.1, hx.2])

/-- the general even/odd power on the positive side (`0 < a`): `aⁿ·m ≤ m_n ≤ bⁿ·m` -/
theorem moment_sandwich_pos (n : ℕ) (a b : ℝ) (ha : 0 < a) (hab : a ≤ b) :
    a ^ n * (∫ x in a..b, f x) ≤ ∫ x in a..b, x ^ n * f x ∧ ∫ x in a..b, x ^ n * f x ≤ b ^ n * ∫ x in a..b, f x :=
  moment_sandwich hf n a b (a ^ n) (b ^ n) hab (Or.inr ha) (fun x hx =>
    ⟨pow_le_pow_left₀ ha.le hx.1 n, pow_le_pow_left₀ (le_trans ha.le hx.1) hx.2 n⟩)

end real

/-! ### rational end points: the hypotheses of the chain theorems -/

theorem away_cast {a b : ℚ} (h : Away a b) : ((b : ℝ) < 0 ∨ (0 : ℝ) < a) := by
  rcases h with h | h
  · left; exact_mod_cast h
  · right; exact_mod_cast h

section rat
variable {f : ℝ → ℝ} (hf : IsLevyDensity f)
include hf

/-- **the interval masses of a density are a mass** (ℝ-analogue of `IsMass`) -/
theorem densMoment_isMassV : IsMassV (densMoment 0 f) := by
  constructor
  · intro a b c hab hbc haw
    unfold densMoment
    exact moment_add hf 0 a b c (by exact_mod_cast hab) (by exact_mod_cast hbc) (away_cast haw)
  · intro a b hab haw
    rw [densMoment_zero]
    exact mass_nonneg hf a b (by exact_mod_cast hab) (away_cast haw)

/-- every moment is additive on one-sided intervals -/
theorem densMoment_add (n : ℕ) (a b c : ℚ) (hab : a ≤ b) (hbc : b ≤ c) (haw : Away a c) :
    densMoment n f a c = densMoment n f a b + densMoment n f b c := by
  unfold densMoment
  exact moment_add hf n a b c (by exact_mod_cast hab) (by exact_mod_cast hbc) (away_cast haw)

/-- **`x f(x) dx` satisfies the first-moment hypothesis** -/
theorem densMoment_isFirstMomentV : IsFirstMomentV (densMoment 0 f) (densMoment 1 f) := by
  constructor
  · exact densMoment_add hf 1
  · intro a b hab haw
    rw [densMoment_zero]
    exact first_moment_sandwich hf a b (by exact_mod_cast hab) (away_cast haw)

/-- **`x² f(x) dx` satisfies the second-moment hypothesis** -/
theorem densMoment_isSecondMomentV : IsSecondMomentV (densMoment 0 f) (densMoment 2 f) := by
  refine ⟨⟨densMoment_add hf 2, ?_⟩, ?_, ?_⟩
  · intro a b hab haw
    exact even_moment_nonneg hf 2 (by decide) a b (by exact_mod_cast hab) (away_cast haw)
  · intro a b ha hab
    rw [densMoment_zero]
    exact second_moment_sandwich_pos hf a b (by exact_mod_cast ha) (by exact_mod_cast hab)
  · intro a b hab hb
    rw [densMoment_zero]
    exact second_moment_sandwich_neg hf a b (by exact_mod_cast hab) (by exact_mod_cast hb)

variable (mid : ℚ → ℚ → ℚ) (hm : Between mid) (hi : MidIdem mid) (ax : List ℚ) (o : ℕ) (hax : AxisOK ax o)
include hm hi hax

/-- **variance gap for a measure with a density, no hypothesis on the masses**: the second moment of the jumps of the
    chain whose rates are the cell integrals of `f` differs from `∫ x² f` over the truncated support minus the origin's
    cell by at most the weighted oscillation of x² -/
theorem variance_gap_real :
    |∑ k ∈ range ax.length, ((pt ax k : ℚ) : ℝ) ^ 2 * rateV mid ax o (densMoment 0 f) k -
        ((∫ x in ((pt ax 0 : ℚ) : ℝ)..((hLeft mid ax o : ℚ) : ℝ), x ^ 2 * f x) +
          ∫ x in ((hRight mid ax.length ax o : ℚ) : ℝ)..((pt ax (ax.length - 1) : ℚ) : ℝ), x ^ 2 * f x)| ≤
      ∑ k ∈ range ax.length, ((oscSq mid ax k : ℚ) : ℝ) * rateV mid ax o (densMoment 0 f) k :=
  variance_gap_V mid hm hi ax o hax _ _ (densMoment_isMassV hf) (densMoment_isSecondMomentV hf)

/-- **mean gap for a measure with a density** -/
theorem mean_gap_real :
    |∑ k ∈ range ax.length, (((pt ax k : ℚ) : ℝ) * rateV mid ax o (densMoment 0 f) k - rateV mid ax o (densMoment 1 f) k)| ≤
      ∑ k ∈ range ax.length, ((cellHi mid ax k - cellLo mid ax k : ℚ) : ℝ) * rateV mid ax o (densMoment 0 f) k :=
  mean_gap_V mid hm hi ax o hax _ _ (densMoment_isMassV hf) (densMoment_isFirstMomentV hf)

/-- the rates of the chain of a density are non-negative and sum to the mass of the truncated support minus the
    origin's cell (C01's statement for density-based masses) -/
theorem sum_rates_real :
    (∀ k, k < ax.length → 0 ≤ rateV mid ax o (densMoment 0 f) k) ∧
    ∑ k ∈ range ax.length, rateV mid ax o (densMoment 0 f) k =
      (∫ x in ((pt ax 0 : ℚ) : ℝ)..((hLeft mid ax o : ℚ) : ℝ), f x) +
        ∫ x in ((hRight mid ax.length ax o : ℚ) : ℝ)..((pt ax (ax.length - 1) : ℚ) : ℝ), f x := by
  refine ⟨fun k hk => rates_nonneg_V mid hm hi ax o hax _ (densMoment_isMassV hf) k hk, ?_⟩
  rw [sum_rates_eq_intensity_1d_V mid hm hi ax o hax _ (densMoment_isMassV hf)]
  unfold intensity1dV
  rw [densMoment_zero, densMoment_zero]

end rat

/-! ### non-vacuity: densities with infinite activity and infinite variation are instances -/

/-- `f(x) = 1` (Lebesgue) -/
theorem isLevyDensity_one : IsLevyDensity (fun _ => (1 : ℝ)) :=
  ⟨fun _ _ => zero_le_one, fun a b _ _ => intervalIntegrable_const⟩

/-- `f(x) = 1/x²` away from 0 (infinite activity *and* infinite variation: `∫ |x| f = ∞` near 0): continuous on every
    one-sided interval, hence an instance -/
theorem isLevyDensity_invSq : IsLevyDensity (fun x : ℝ => 1 / x ^ 2) := by
  constructor
  · intro x _; positivity
  · intro a b hab haw
    apply ContinuousOn.intervalIntegrable
    rw [Set.uIcc_of_le hab]
    intro x hx
    have hx0 : x ≠ 0 := ne_zero_of_mem haw hx
    exact ((continuousAt_const).div (continuousAt_id.pow 2) (pow_ne_zero 2 hx0)).continuousWithinAt

end Rpylib.Drift
