/-
Helper lemmas for C11: the abstract-generator Clayton copula `claytonOf` in d = 3 (coded scale 2^(2-3) = 1/2) is
3-increasing.  Same plan as d = 2 (C11Clayton.lean): generator coordinates `X u ∈ [0,∞]` on the closed positive octant,
`F(u,v,w) = η/2 · Φ₃(X u, X v, X w)` with `Φ₃(x,y,w) = ψ(x+y+w)` (0 when a coordinate is ∞); `X` reverses the order,
so the volume of a box is minus a third-order difference of `ψ`, which is ≥ 0 because `ψ` is non-negative,
non-increasing, convex and has non-positive third-order differences (`Slope3`: complete monotonicity up to order 3 of
`s ↦ s^(-1/θ)`).  The other octants follow by reflection (each reflection swaps η and 1−η and flips the sign).
-/
import RpylibModel.Proofs.Lemmas.C11Clayton
import RpylibModel.Proofs.Lemmas.C11Vol3

set_option linter.unusedSectionVars false
set_option linter.unusedSimpArgs false

namespace Rpylib.Copula

variable {K : Type} [Field K] [LinearOrder K] [IsStrictOrderedRing K]

/-- third-order differences of `psi` over non-negative steps are ≤ 0 on (0,∞) -/
def Slope3 (psi : K → K) : Prop :=
  ∀ s h1 h2 h3, 0 < s → 0 ≤ h1 → 0 ≤ h2 → 0 ≤ h3 →
    psi (s + h1 + h2 + h3) - psi (s + h1 + h2) - psi (s + h1 + h3) - psi (s + h2 + h3)
      + psi (s + h1) + psi (s + h2) + psi (s + h3) - psi s ≤ 0

/-- the 3-d abstract Clayton copula with the coded scale -/
def F3 (G : Gen K) (eta : K) (u v w : Ext K) : K := claytonOf G (1 / 2) eta [u, v, w]

def Phi3 (psi : K → K) : Option K → Option K → Option K → K
  | some x, some y, some w => psi (x + (y + w))
  | _, _, _ => 0

/-- `Φ₃` has non-negative (sign-adjusted) third-order increments on `[0,∞]³` as long as the smallest corner is not 0 -/
theorem Phi3_increasing {G : Gen K} (hG : ClaytonGen G) (h3 : Slope3 G.psi) (x1 x2 y1 y2 w1 w2 : Option K)
    (hx : leT x1 x2) (hy : leT y1 y2) (hw : leT w1 w2) (nx : nn x1) (ny : nn y1) (nw : nn w1)
    (h0 : ∀ x y w, x1 = some x → y1 = some y → w1 = some w → 0 < x + (y + w)) :
    0 ≤ Phi3 G.psi x1 y1 w1 - Phi3 G.psi x2 y1 w1 - Phi3 G.psi x1 y2 w1 - Phi3 G.psi x1 y1 w2
      + Phi3 G.psi x2 y2 w1 + Phi3 G.psi x2 y1 w2 + Phi3 G.psi x1 y2 w2 - Phi3 G.psi x2 y2 w2 := by
  rcases x1 with _ | x1
  · rcases x2 with _ | x2
    · simp [Phi3]
    · exact absurd hx (by simp [leT])
  rcases y1 with _ | y1
  · rcases y2 with _ | y2
    · cases x2 <;> simp [Phi3]
    · exact absurd hy (by simp [leT])
  rcases w1 with _ | w1
  · rcases w2 with _ | w2
    · cases x2 <;> cases y2 <;> simp [Phi3]
    · exact absurd hw (by simp [leT])
  have hpos : 0 < x1 + (y1 + w1) := h0 x1 y1 w1 rfl rfl rfl
  simp only [nn] at nx ny nw
  set s := x1 + (y1 + w1) with hs
  rcases x2 with _ | x2 <;> rcases y2 with _ | y2 <;> rcases w2 with _ | w2 <;> simp only [Phi3, leT] at *
  · have := hG.psi_nonneg _ hpos; linarith
  · -- only w2 finite
    have := hG.psi_anti s (x1 + (y1 + w2)) hpos (by rw [hs]; linarith); linarith
  · have := hG.psi_anti s (x1 + (y2 + w1)) hpos (by rw [hs]; linarith); linarith
  · -- y2, w2 finite
    have := hG.psi_slope s (x1 + (y1 + w2)) (y2 - y1) hpos (by rw [hs]; linarith) (by linarith)
    have e1 : s + (y2 - y1) = x1 + (y2 + w1) := by rw [hs]; ring
    have e2 : x1 + (y1 + w2) + (y2 - y1) = x1 + (y2 + w2) := by ring
    rw [e1, e2] at this; linarith
  · have := hG.psi_anti s (x2 + (y1 + w1)) hpos (by rw [hs]; linarith); linarith
  · have := hG.psi_slope s (x1 + (y1 + w2)) (x2 - x1) hpos (by rw [hs]; linarith) (by linarith)
    have e1 : s + (x2 - x1) = x2 + (y1 + w1) := by rw [hs]; ring
    have e2 : x1 + (y1 + w2) + (x2 - x1) = x2 + (y1 + w2) := by ring
    rw [e1, e2] at this; linarith
  · have := hG.psi_slope s (x1 + (y2 + w1)) (x2 - x1) hpos (by rw [hs]; linarith) (by linarith)
    have e1 : s + (x2 - x1) = x2 + (y1 + w1) := by rw [hs]; ring
    have e2 : x1 + (y2 + w1) + (x2 - x1) = x2 + (y2 + w1) := by ring
    rw [e1, e2] at this; linarith
  · have := h3 s (x2 - x1) (y2 - y1) (w2 - w1) hpos (by linarith) (by linarith) (by linarith)
    have e1 : s + (x2 - x1) + (y2 - y1) + (w2 - w1) = x2 + (y2 + w2) := by rw [hs]; ring
    have e2 : s + (x2 - x1) + (y2 - y1) = x2 + (y2 + w1) := by rw [hs]; ring
    have e3 : s + (x2 - x1) + (w2 - w1) = x2 + (y1 + w2) := by rw [hs]; ring
    have e4 : s + (y2 - y1) + (w2 - w1) = x1 + (y2 + w2) := by rw [hs]; ring
    have e5 : s + (x2 - x1) = x2 + (y1 + w1) := by rw [hs]; ring
    have e6 : s + (y2 - y1) = x1 + (y2 + w1) := by rw [hs]; ring
    have e7 : s + (w2 - w1) = x1 + (y1 + w2) := by rw [hs]; ring
    rw [e1, e2, e3, e4, e5, e6, e7] at this; linarith

/-- a non-negative extended argument: either 0 (generator coordinate ∞) or a non-negative generator coordinate -/
theorem arg_of_nonneg {G : Gen K} (hG : ClaytonGen G) (w : Ext K) (hw : Ext.LE (.fin 0) w) :
    (G.argZero w = true ∧ X G w = none) ∨ (G.argZero w = false ∧ ∃ x, X G w = some x ∧ G.arg w = (false, x)) := by
  rcases w with _ | a | _
  · exact absurd hw (by simp [Ext.LE])
  · by_cases h0 : a = 0
    · left; simp [Gen.argZero, X, h0, (hG.isZero_iff 0).mpr rfl]
    · right
      have hz : G.isZero a = false := by
        rcases hzz : G.isZero a with _ | _
        · rfl
        · exact absurd ((hG.isZero_iff a).mp hzz) h0
      have hn : G.isNeg a = false := by
        rcases hnn : G.isNeg a with _ | _
        · rfl
        · exact absurd ((hG.isNeg_iff a).mp hnn) (not_lt.mpr hw)
      exact ⟨by simp [Gen.argZero, hz], G.g a, by simp [X, h0], by simp [Gen.arg, hn]⟩
  · right; exact ⟨by simp [Gen.argZero], 0, by simp [X], by simp [Gen.arg]⟩

/-- on the closed positive octant `F = η/2 · Φ₃(X u, X v, X w)` -/
theorem F3_pos {G : Gen K} (hG : ClaytonGen G) (eta : K) (u v w : Ext K) (hu : Ext.LE (.fin 0) u)
    (hv : Ext.LE (.fin 0) v) (hw : Ext.LE (.fin 0) w) :
    F3 G eta u v w = 1 / 2 * eta * Phi3 G.psi (X G u) (X G v) (X G w) := by
  rcases arg_of_nonneg hG u hu with ⟨zu, xu⟩ | ⟨zu, x, xu, au⟩ <;>
    rcases arg_of_nonneg hG v hv with ⟨zv, xv⟩ | ⟨zv, y, xv, av⟩ <;>
    rcases arg_of_nonneg hG w hw with ⟨zw, xw⟩ | ⟨zw, t, xw, aw⟩
  · simp [F3, claytonOf, zu, xu, Phi3]
  · simp [F3, claytonOf, zu, xu, Phi3]
  · simp [F3, claytonOf, zu, xu, Phi3]
  · simp [F3, claytonOf, zu, xu, Phi3]
  · simp [F3, claytonOf, zv, xv, xu, Phi3]
  · simp [F3, claytonOf, zv, xv, xu, Phi3]
  · simp [F3, claytonOf, zw, xw, xu, xv, Phi3]
  · simp [F3, claytonOf, claytonG, sumG, countNeg, zu, zv, zw, xu, xv, xw, au, av, aw, Phi3]; ring

/-- admissible box: no corner has three infinite entries -/
def Adm3 (a1 b1 a2 b2 a3 b3 : Ext K) : Prop :=
  (a1.isInf = false ∧ b1.isInf = false) ∨ (a2.isInf = false ∧ b2.isInf = false) ∨
    (a3.isInf = false ∧ b3.isInf = false)

/-! ### the closed positive octant -/

theorem oct_ppp {G : Gen K} (hG : ClaytonGen G) (h3 : Slope3 G.psi) (eta : K) (h0 : 0 ≤ eta) (a1 b1 a2 b2 a3 b3 : Ext K)
    (hP : Adm3 a1 b1 a2 b2 a3 b3) (l1 : Ext.LE a1 b1) (l2 : Ext.LE a2 b2) (l3 : Ext.LE a3 b3)
    (z1 : Ext.LE (.fin 0) a1) (z2 : Ext.LE (.fin 0) a2) (z3 : Ext.LE (.fin 0) a3) :
    0 ≤ V3 (F3 G eta) a1 b1 a2 b2 a3 b3 := by
  have zb1 := Ext.LE_trans z1 l1
  have zb2 := Ext.LE_trans z2 l2
  have zb3 := Ext.LE_trans z3 l3
  unfold V3
  rw [F3_pos hG eta _ _ _ zb1 zb2 zb3, F3_pos hG eta _ _ _ z1 zb2 zb3, F3_pos hG eta _ _ _ zb1 z2 zb3,
    F3_pos hG eta _ _ _ zb1 zb2 z3, F3_pos hG eta _ _ _ z1 z2 zb3, F3_pos hG eta _ _ _ z1 zb2 z3,
    F3_pos hG eta _ _ _ zb1 z2 z3, F3_pos hG eta _ _ _ z1 z2 z3]
  have key := Phi3_increasing hG h3 (X G b1) (X G a1) (X G b2) (X G a2) (X G b3) (X G a3) (X_anti hG _ _ z1 l1)
    (X_anti hG _ _ z2 l2) (X_anti hG _ _ z3 l3) (X_nn hG _ zb1) (X_nn hG _ zb2) (X_nn hG _ zb3) (by
      intro x y w hx hy hw
      have nx := X_nn hG _ zb1; have ny := X_nn hG _ zb2; have nw := X_nn hG _ zb3
      rw [hx] at nx; rw [hy] at ny; rw [hw] at nw; simp only [nn] at nx ny nw
      rcases hP with ⟨_, hb⟩ | ⟨_, hb⟩ | ⟨_, hb⟩
      · rcases b1 with _ | b | _
        · simp [Ext.isInf] at hb
        · have := X_fin_pos hG b zb1 x hx; linarith
        · simp [Ext.isInf] at hb
      · rcases b2 with _ | b | _
        · simp [Ext.isInf] at hb
        · have := X_fin_pos hG b zb2 y hy; linarith
        · simp [Ext.isInf] at hb
      · rcases b3 with _ | b | _
        · simp [Ext.isInf] at hb
        · have := X_fin_pos hG b zb3 w hw; linarith
        · simp [Ext.isInf] at hb)
  have h2 : (0 : K) ≤ 1 / 2 * eta := by positivity
  nlinarith [mul_nonneg h2 key]

/-! ### reflections -/

theorem F3_eval (G : Gen K) (eta : K) (u v w : Ext K) :
    F3 G eta u v w = if (G.argZero u || (G.argZero v || G.argZero w)) then 0
      else 1 / 2 * G.psi ((G.arg u).2 + ((G.arg v).2 + (G.arg w).2)) *
        (if (xor (G.arg u).1 (xor (G.arg v).1 (G.arg w).1)) = false then eta else -(1 - eta)) := by
  simp only [F3, claytonOf, claytonG, sumG, countNeg, List.any_cons, List.any_nil, Bool.or_false, List.map]
  rcases (G.arg u).1 <;> rcases (G.arg v).1 <;> rcases (G.arg w).1 <;> simp

theorem F3_neg1 {G : Gen K} (hG : ClaytonGen G) (eta : K) (u v w : Ext K) :
    F3 G eta (Ext.neg u) v w = -F3 G (1 - eta) u v w := by
  rw [F3_eval, F3_eval, argZero_neg hG]
  rcases hz : G.argZero u with _ | _
  · rw [arg_neg hG u hz]
    rcases (G.argZero v || G.argZero w) with _ | _
    · rcases (G.arg u).1 <;> rcases (G.arg v).1 <;> rcases (G.arg w).1 <;> simp <;> ring
    · simp
  · simp

theorem F3_neg2 {G : Gen K} (hG : ClaytonGen G) (eta : K) (u v w : Ext K) :
    F3 G eta u (Ext.neg v) w = -F3 G (1 - eta) u v w := by
  rw [F3_eval, F3_eval, argZero_neg hG]
  rcases hz : G.argZero v with _ | _
  · rw [arg_neg hG v hz]
    rcases G.argZero u with _ | _ <;> rcases G.argZero w with _ | _
    · rcases (G.arg u).1 <;> rcases (G.arg v).1 <;> rcases (G.arg w).1 <;> simp <;> ring
    · simp
    · simp
    · simp
  · simp

theorem F3_neg3 {G : Gen K} (hG : ClaytonGen G) (eta : K) (u v w : Ext K) :
    F3 G eta u v (Ext.neg w) = -F3 G (1 - eta) u v w := by
  rw [F3_eval, F3_eval, argZero_neg hG]
  rcases hz : G.argZero w with _ | _
  · rw [arg_neg hG w hz]
    rcases G.argZero u with _ | _ <;> rcases G.argZero v with _ | _
    · rcases (G.arg u).1 <;> rcases (G.arg v).1 <;> rcases (G.arg w).1 <;> simp <;> ring
    · simp
    · simp
    · simp
  · simp

theorem V3_refl1 {G : Gen K} (hG : ClaytonGen G) (eta : K) (a1 b1 a2 b2 a3 b3 : Ext K) :
    V3 (F3 G eta) a1 b1 a2 b2 a3 b3 = V3 (F3 G (1 - eta)) (Ext.neg b1) (Ext.neg a1) a2 b2 a3 b3 := by
  have e : ∀ u v w, F3 G eta u v w = -F3 G (1 - eta) (Ext.neg u) v w := by
    intro u v w; rw [← F3_neg1 hG, Ext.neg_neg]
  unfold V3; rw [e b1 b2 b3, e a1 b2 b3, e b1 a2 b3, e b1 b2 a3, e a1 a2 b3, e a1 b2 a3, e b1 a2 a3, e a1 a2 a3]; ring

theorem V3_refl2 {G : Gen K} (hG : ClaytonGen G) (eta : K) (a1 b1 a2 b2 a3 b3 : Ext K) :
    V3 (F3 G eta) a1 b1 a2 b2 a3 b3 = V3 (F3 G (1 - eta)) a1 b1 (Ext.neg b2) (Ext.neg a2) a3 b3 := by
  have e : ∀ u v w, F3 G eta u v w = -F3 G (1 - eta) u (Ext.neg v) w := by
    intro u v w; rw [← F3_neg2 hG, Ext.neg_neg]
  unfold V3; rw [e b1 b2 b3, e a1 b2 b3, e b1 a2 b3, e b1 b2 a3, e a1 a2 b3, e a1 b2 a3, e b1 a2 a3, e a1 a2 a3]; ring

theorem V3_refl3 {G : Gen K} (hG : ClaytonGen G) (eta : K) (a1 b1 a2 b2 a3 b3 : Ext K) :
    V3 (F3 G eta) a1 b1 a2 b2 a3 b3 = V3 (F3 G (1 - eta)) a1 b1 a2 b2 (Ext.neg b3) (Ext.neg a3) := by
  have e : ∀ u v w, F3 G eta u v w = -F3 G (1 - eta) u v (Ext.neg w) := by
    intro u v w; rw [← F3_neg3 hG, Ext.neg_neg]
  unfold V3; rw [e b1 b2 b3, e a1 b2 b3, e b1 a2 b3, e b1 b2 a3, e a1 a2 b3, e a1 b2 a3, e b1 a2 a3, e a1 a2 a3]; ring

theorem Adm3_refl1 {a1 b1 a2 b2 a3 b3 : Ext K} (h : Adm3 a1 b1 a2 b2 a3 b3) :
    Adm3 (Ext.neg b1) (Ext.neg a1) a2 b2 a3 b3 := by
  unfold Adm3 at *; rw [Ext.isInf_neg, Ext.isInf_neg]; tauto

theorem Adm3_refl2 {a1 b1 a2 b2 a3 b3 : Ext K} (h : Adm3 a1 b1 a2 b2 a3 b3) :
    Adm3 a1 b1 (Ext.neg b2) (Ext.neg a2) a3 b3 := by
  unfold Adm3 at *; rw [Ext.isInf_neg, Ext.isInf_neg]; tauto

theorem Adm3_refl3 {a1 b1 a2 b2 a3 b3 : Ext K} (h : Adm3 a1 b1 a2 b2 a3 b3) :
    Adm3 a1 b1 a2 b2 (Ext.neg b3) (Ext.neg a3) := by
  unfold Adm3 at *; rw [Ext.isInf_neg, Ext.isInf_neg]; tauto

/-- the abstract-generator Clayton copula (d = 3, coded scale 1/2) gives non-negative volume to every admissible box
    of the extended space: any sign pattern, straddling or not, infinite end points included -/
theorem F3_three_increasing {G : Gen K} (hG : ClaytonGen G) (h3 : Slope3 G.psi) (eta : K) (h0 : 0 ≤ eta) (h1 : eta ≤ 1)
    (a1 b1 a2 b2 a3 b3 : Ext K) (hP : Adm3 a1 b1 a2 b2 a3 b3) (l1 : Ext.LE a1 b1) (l2 : Ext.LE a2 b2)
    (l3 : Ext.LE a3 b3) : 0 ≤ V3 (F3 G eta) a1 b1 a2 b2 a3 b3 := by
  have h1' : 0 ≤ 1 - eta := by linarith
  have e11 : 1 - (1 - eta) = eta := by ring
  refine three_increasing_of_octants Ext.LE (.fin 0) (Ext.LE_refl _) Ext.LE_total0 (F3 G eta) Adm3 ?_ ?_ ?_ ?_
    a1 b1 a2 b2 a3 b3 hP l1 l2 l3
  · intro a1 b1 a2 b2 a3 b3 h; unfold Adm3 at *; simp only [Ext.isInf]; tauto
  · intro a1 b1 a2 b2 a3 b3 h; unfold Adm3 at *; simp only [Ext.isInf]; tauto
  · intro a1 b1 a2 b2 a3 b3 h; unfold Adm3 at *; simp only [Ext.isInf]; tauto
  · intro a1 b1 a2 b2 a3 b3 hP l1 l2 l3 s1 s2 s3
    rcases s1 with s1 | s1 <;> rcases s2 with s2 | s2 <;> rcases s3 with s3 | s3
    · rw [V3_refl1 hG, V3_refl2 hG, V3_refl3 hG, e11]
      exact oct_ppp hG h3 _ h1' _ _ _ _ _ _ (Adm3_refl3 (Adm3_refl2 (Adm3_refl1 hP))) (Ext.LE_neg l1) (Ext.LE_neg l2)
        (Ext.LE_neg l3) (Ext.neg_nonneg s1) (Ext.neg_nonneg s2) (Ext.neg_nonneg s3)
    · rw [V3_refl1 hG, V3_refl2 hG, e11]
      exact oct_ppp hG h3 eta h0 _ _ _ _ _ _ (Adm3_refl2 (Adm3_refl1 hP)) (Ext.LE_neg l1) (Ext.LE_neg l2) l3
        (Ext.neg_nonneg s1) (Ext.neg_nonneg s2) s3
    · rw [V3_refl1 hG, V3_refl3 hG, e11]
      exact oct_ppp hG h3 eta h0 _ _ _ _ _ _ (Adm3_refl3 (Adm3_refl1 hP)) (Ext.LE_neg l1) l2 (Ext.LE_neg l3)
        (Ext.neg_nonneg s1) s2 (Ext.neg_nonneg s3)
    · rw [V3_refl1 hG]
      exact oct_ppp hG h3 _ h1' _ _ _ _ _ _ (Adm3_refl1 hP) (Ext.LE_neg l1) l2 l3 (Ext.neg_nonneg s1) s2 s3
    · rw [V3_refl2 hG, V3_refl3 hG, e11]
      exact oct_ppp hG h3 eta h0 _ _ _ _ _ _ (Adm3_refl3 (Adm3_refl2 hP)) l1 (Ext.LE_neg l2) (Ext.LE_neg l3) s1
        (Ext.neg_nonneg s2) (Ext.neg_nonneg s3)
    · rw [V3_refl2 hG]
      exact oct_ppp hG h3 _ h1' _ _ _ _ _ _ (Adm3_refl2 hP) l1 (Ext.LE_neg l2) l3 s1 (Ext.neg_nonneg s2) s3
    · rw [V3_refl3 hG]
      exact oct_ppp hG h3 _ h1' _ _ _ _ _ _ (Adm3_refl3 hP) l1 l2 (Ext.LE_neg l3) s1 s2 (Ext.neg_nonneg s3)
    · exact oct_ppp hG h3 eta h0 _ _ _ _ _ _ hP l1 l2 l3 s1 s2 s3

end Rpylib.Copula
