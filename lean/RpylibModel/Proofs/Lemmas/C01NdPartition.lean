/-
C01 in general dimension d, part 4: the combinatorial core stated on its own — the 3^d − 1 products of (centre, left, right)
index ranges other than the all-centre one partition the non-origin states of a product grid; non-negativity of every rate;
`IsBoxMass2/3` and the Lebesgue product measure as instances of `IsBoxMassN`.
-/
import RpylibModel.Proofs.Lemmas.C01NdFinal
import Mathlib.Algebra.Order.BigOperators.GroupWithZero.List

set_option linter.dupNamespace false
set_option linter.unusedSectionVars false
set_option linter.unusedVariables false

namespace Rpylib.Cells
open Rpylib.Grid Finset

theorem mem_states (axes : List (List ℚ)) (t : List ℕ) :
    t ∈ states axes ↔ List.Forall₂ (fun i ax => i < ax.length) t axes := by
  unfold states
  rw [mem_cartesian_map (fun ax => List.range ax.length) axes t]
  simp only [List.mem_range]

/-- one axis: an index on the axis lies in exactly one of the three ranges; it is the centre iff the index is `o` -/
theorem unique_range (ax : List ℚ) (o i : ℕ) (ho : 0 < o ∧ o + 1 < ax.length) (hi : i < ax.length) :
    ∃ r, r ∈ idxRanges ax o ∧ i ∈ rangeList r ∧ (∀ r', r' ∈ idxRanges ax o → i ∈ rangeList r' → r' = r) ∧
      (r = (o, o + 1) ↔ i = o) := by
  have key : ∀ r', r' ∈ idxRanges ax o → (i ∈ rangeList r' ↔ r'.1 ≤ i ∧ i < r'.2) := by
    intro r' hr'
    unfold rangeList
    rw [List.mem_range'_1]
    unfold idxRanges at hr'
    simp only [List.mem_cons, List.not_mem_nil, or_false] at hr'
    rcases hr' with rfl | rfl | rfl <;> simp <;> omega
  have hmem : ∀ r', r' ∈ idxRanges ax o ↔ r' = (o, o + 1) ∨ r' = (0, o) ∨ r' = (o + 1, ax.length) := by
    intro r'; unfold idxRanges; simp
  rcases Nat.lt_trichotomy i o with h | h | h
  · refine ⟨(0, o), (hmem _).mpr (Or.inr (Or.inl rfl)), (key _ ((hmem _).mpr (Or.inr (Or.inl rfl)))).mpr ⟨by simp, h⟩, ?_, ?_⟩
    · intro r' hr' hi'
      have := (key r' hr').mp hi'
      rcases (hmem r').mp hr' with rfl | rfl | rfl
      · simp at this; omega
      · rfl
      · simp at this; omega
    · constructor
      · intro e; simp at e
      · intro e; omega
  · subst h
    refine ⟨(i, i + 1), (hmem _).mpr (Or.inl rfl), (key _ ((hmem _).mpr (Or.inl rfl))).mpr ⟨by simp, by simp⟩, ?_, by simp⟩
    intro r' hr' hi'
    have := (key r' hr').mp hi'
    rcases (hmem r').mp hr' with rfl | rfl | rfl
    · rfl
    · simp at this
    · simp at this
  · refine ⟨(o + 1, ax.length), (hmem _).mpr (Or.inr (Or.inr rfl)),
      (key _ ((hmem _).mpr (Or.inr (Or.inr rfl)))).mpr ⟨by simp; omega, hi⟩, ?_, ?_⟩
    · intro r' hr' hi'
      have := (key r' hr').mp hi'
      rcases (hmem r').mp hr' with rfl | rfl | rfl
      · simp at this; omega
      · simp at this; omega
      · rfl
    · constructor
      · intro e; simp at e
      · intro e; omega

/-- every state lies in exactly one product of ranges; that product is the all-centre one iff the state is the origin -/
theorem unique_product (o : ℕ) : ∀ (t : List ℕ) (axes : List (List ℚ)),
    List.Forall₂ (fun i ax => i < ax.length) t axes → (∀ ax ∈ axes, 0 < o ∧ o + 1 < ax.length) →
    ∃ R, List.Forall₂ (fun r ax => r ∈ idxRanges ax o) R axes ∧ List.Forall₂ (fun i r => i ∈ rangeList r) t R ∧
      (∀ R', List.Forall₂ (fun r ax => r ∈ idxRanges ax o) R' axes → List.Forall₂ (fun i r => i ∈ rangeList r) t R' → R' = R) ∧
      (R = axes.map (fun _ => (o, o + 1)) ↔ t = axes.map (fun _ => o)) := by
  intro t axes h
  induction h with
  | nil =>
    intro _
    refine ⟨[], List.Forall₂.nil, List.Forall₂.nil, ?_, by simp⟩
    intro R' h1 _; cases h1; rfl
  | @cons i ax t' rest hi _ ih =>
    intro hax
    obtain ⟨R, h1, h2, h3, h4⟩ := ih (fun a ha => hax a (List.mem_cons_of_mem _ ha))
    obtain ⟨r, g1, g2, g3, g4⟩ := unique_range ax o i (hax ax (List.mem_cons_self)) hi
    refine ⟨r :: R, List.Forall₂.cons g1 h1, List.Forall₂.cons g2 h2, ?_, ?_⟩
    · intro R' k1 k2
      cases k1 with
      | @cons r' _ R'' _ a1 a2 =>
        cases k2 with
        | cons b1 b2 => rw [g3 r' a1 b1, h3 R'' a2 b2]
    · simp only [List.map_cons, List.cons.injEq]
      rw [g4, h4]

section partition
variable (axes : List (List ℚ)) (o : ℕ) (hax : ∀ ax ∈ axes, 0 < o ∧ o + 1 < ax.length)
include hax

/-- membership in the list of the 3^d − 1 non-centre products, in the order of `blocks` -/
theorem mem_nonCentre_products (R : List (ℕ × ℕ)) :
    R ∈ (cartesian (axes.map (fun ax => idxRanges ax o))).drop 1 ↔
      List.Forall₂ (fun r ax => r ∈ idxRanges ax o) R axes ∧ R ≠ axes.map (fun _ => (o, o + 1)) := by
  obtain ⟨T, hT, hN⟩ := ranges_head_tail o axes hax
  rw [← mem_cartesian_map (fun ax => idxRanges ax o) axes R, hT]
  simp only [List.drop_succ_cons, List.drop_zero, List.mem_cons]
  constructor
  · intro h
    refine ⟨Or.inr h, ?_⟩
    intro e
    obtain ⟨r, hr, hne⟩ := hN R h
    rw [e] at hr
    obtain ⟨_, _, rfl⟩ := List.mem_map.mp hr
    exact hne rfl
  · rintro ⟨h | h, hne⟩
    · exact absurd h hne
    · exact h

/-- **the 3^d − 1 blocks partition the non-origin states of a product grid**: every non-origin index tuple of the grid lies
    in exactly one of the non-centre products of index ranges (whose hulls are `blocks`, in that order) … -/
theorem nonorigin_state_in_exactly_one_block (t : List ℕ) (ht : t ∈ states axes) (hne : t ≠ axes.map (fun _ => o)) :
    ∃ R, R ∈ (cartesian (axes.map (fun ax => idxRanges ax o))).drop 1 ∧ t ∈ cartesian (R.map rangeList) ∧
      ∀ R', R' ∈ (cartesian (axes.map (fun ax => idxRanges ax o))).drop 1 → t ∈ cartesian (R'.map rangeList) → R' = R := by
  obtain ⟨R, h1, h2, h3, h4⟩ := unique_product o t axes ((mem_states axes t).mp ht) hax
  refine ⟨R, (mem_nonCentre_products axes o hax R).mpr ⟨h1, fun e => hne (h4.mp e)⟩,
    (mem_cartesian_map rangeList R t).mpr h2, ?_⟩
  intro R' hR' ht'
  exact h3 R' ((mem_nonCentre_products axes o hax R').mp hR').1 ((mem_cartesian_map rangeList R' t).mp ht')

/-- … the origin lies in none of them, and every tuple of a block is a state of the grid -/
theorem block_states (R : List (ℕ × ℕ)) (hR : R ∈ (cartesian (axes.map (fun ax => idxRanges ax o))).drop 1)
    (t : List ℕ) (ht : t ∈ cartesian (R.map rangeList)) : t ∈ states axes ∧ t ≠ axes.map (fun _ => o) := by
  obtain ⟨h1, hne⟩ := (mem_nonCentre_products axes o hax R).mp hR
  have ht2 := (mem_cartesian_map rangeList R t).mp ht
  refine ⟨(mem_states axes t).mpr (idx_on_axes o R axes h1 (fun ax h => (hax ax h).2) t ht2), ?_⟩
  intro e
  obtain ⟨R0, _, _, g3, g4⟩ := unique_product o t axes
    (idx_on_axes o R axes h1 (fun ax h => (hax ax h).2) t ht2) hax
  have : R = R0 := g3 R h1 ht2
  exact hne (by rw [this]; exact g4.mpr e)

end partition

/-- there are 3^d − 1 blocks -/
theorem cartesian_length {α : Type} : ∀ ls : List (List α), (cartesian ls).length = (ls.map List.length).prod := by
  intro ls
  induction ls with
  | nil => simp [cartesian]
  | cons xs rest ih =>
    rw [cartesian_cons, List.map_cons, List.prod_cons, ← ih]
    induction xs with
    | nil => simp
    | cons x t iht => simp only [List.flatMap_cons, List.length_append, List.length_map, iht, List.length_cons]; ring

theorem blocks_length (mid : ℚ → ℚ → ℚ) (axes : List (List ℚ)) (o : ℕ) : (blocks mid axes o).length = 3 ^ axes.length - 1 := by
  unfold blocks
  rw [List.length_drop, cartesian_length]
  congr 1
  induction axes with
  | nil => simp
  | cons ax rest ih => simp only [List.map_cons, List.prod_cons, List.length_cons, pow_succ, ih]; simp [parts]; ring

/-! ### non-negativity of every rate -/

theorem rates_nonneg_nd (mid : ℚ → ℚ → ℚ) (hm : Between mid) (hi : MidIdem mid) (axes : List (List ℚ)) (o : ℕ)
    (hax : ∀ ax ∈ axes, AxisOK ax o) (m : Box → ℚ) (hM : IsBoxMassN m) (t : List ℕ) (ht : t ∈ states axes) :
    0 ≤ rateNd mid axes o m t := by
  unfold rateNd
  split_ifs with h0
  · exact le_refl _
  · have hidx := (mem_states axes t).mp ht
    rw [cellBox_eq_cellsOf mid t axes hidx]
    -- the cell box is ordered, and away from the origin in a coordinate where the state differs from the origin
    have hord : ∀ (t : List ℕ) (axes : List (List ℚ)), List.Forall₂ (fun i ax => i < ax.length) t axes →
        (∀ ax ∈ axes, AxisOK ax o) → BoxOrdered (cellsOf (axes.map (bndOf mid)) t) := by
      intro t axes h
      induction h with
      | nil => intro _ I hI; simp [cellsOf] at hI
      | @cons i ax t' rest hi' _ ih =>
        intro h' I hI
        simp only [cellsOf, List.map_cons, List.zipWith_cons_cons, List.mem_cons] at hI
        rcases hI with rfl | hI
        · exact bnd_mono_step mid hm hi ax (h' ax (List.mem_cons_self)).inc i hi'
        · exact ih (fun a ha => h' a (List.mem_cons_of_mem _ ha)) I hI
    have haw : ∀ (t : List ℕ) (axes : List (List ℚ)), List.Forall₂ (fun i ax => i < ax.length) t axes →
        (∀ ax ∈ axes, AxisOK ax o) → t ≠ axes.map (fun _ => o) → BoxAway (cellsOf (axes.map (bndOf mid)) t) := by
      intro t axes h
      induction h with
      | nil => intro _ hne; exact absurd rfl hne
      | @cons i ax t' rest hi' _ ih =>
        intro h' hne
        simp only [cellsOf, List.map_cons, List.zipWith_cons_cons]
        by_cases hio : i = o
        · have : t' ≠ rest.map (fun _ => o) := by
            intro e; apply hne; simp [hio, e]
          obtain ⟨I, hI, hw⟩ := ih (fun a ha => h' a (List.mem_cons_of_mem _ ha)) this
          exact ⟨I, List.mem_cons_of_mem _ hI, hw⟩
        · exact ⟨_, List.mem_cons_self,
            range_away mid hm hi ax o (h' ax (List.mem_cons_self)) i (i + 1) (by omega) (by omega)⟩
    exact hM.nonneg _ (hord t axes hidx hax) (haw t axes hidx hax h0)

/-! ### instances of `IsBoxMassN` -/

/-- the Lebesgue product measure in any dimension -/
def lebesgueBox (b : Box) : ℚ := (b.map (fun I => I.2 - I.1)).prod

theorem lebesgueBox_isBoxMassN : IsBoxMassN lebesgueBox := by
  constructor
  · intro pre post a b c _ _ _ _ _ _
    unfold lebesgueBox
    simp only [List.map_append, List.map_cons, List.prod_append, List.prod_cons]
    ring
  · intro b hb _
    unfold lebesgueBox
    apply List.prod_nonneg
    intro x hx
    obtain ⟨I, hI, rfl⟩ := List.mem_map.mp hx
    have := hb I hI
    linarith

/-- a 2-d box mass (`IsBoxMass2`, the hypothesis of the d = 2 theorems) is a box mass in the general sense -/
theorem isBoxMassN_box2 (m : ℚ → ℚ → ℚ → ℚ → ℚ) (hM : IsBoxMass2 m) : IsBoxMassN (box2 m) := by
  constructor
  · intro pre post a b c hab hbc hb hpre hpost haw
    rcases pre with _ | ⟨I, _ | ⟨I', pre⟩⟩
    · rcases post with _ | ⟨J, _ | ⟨J', post⟩⟩
      · simp [box2]
      · simp only [List.nil_append, box2]
        have hJ := hpost J (List.mem_cons_self)
        obtain ⟨K, hK, hw⟩ := haw
        simp only [List.nil_append, List.mem_cons, List.not_mem_nil, or_false] at hK
        refine hM.add1 a b c J.1 J.2 hab hbc hJ hb ?_
        rcases hK with rfl | rfl
        · exact Or.inl hw
        · exact Or.inr hw
      · simp [box2]
    · rcases post with _ | ⟨J, post⟩
      · simp only [List.cons_append, List.nil_append, box2]
        have hI := hpre I (List.mem_cons_self)
        obtain ⟨K, hK, hw⟩ := haw
        simp only [List.cons_append, List.nil_append, List.mem_cons, List.not_mem_nil, or_false] at hK
        refine hM.add2 I.1 I.2 a b c hI hab hbc hb ?_
        rcases hK with rfl | rfl
        · exact Or.inl hw
        · exact Or.inr hw
      · simp [box2]
    · simp [box2]
  · intro b hb haw
    rcases b with _ | ⟨I, _ | ⟨J, _ | ⟨K, rest⟩⟩⟩
    · simp [box2]
    · simp [box2]
    · simp only [box2]
      obtain ⟨K, hK, hw⟩ := haw
      simp only [List.mem_cons, List.not_mem_nil, or_false] at hK
      refine hM.nonneg _ _ _ _ (hb I (List.mem_cons_self)) (hb J (List.mem_cons_of_mem _ List.mem_cons_self)) ?_
      rcases hK with rfl | rfl
      · exact Or.inl hw
      · exact Or.inr hw
    · simp [box2]

end Rpylib.Cells
