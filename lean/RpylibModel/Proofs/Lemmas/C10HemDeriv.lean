/-
C10, HEM: every derivative in s of the coded rational function λ(pη₁/(η₁−s) + (1−p)η₂/(η₂+s) − 1):
`hemKappaD n s = λ n! (pη₁/(η₁−s)^{n+1} + (−1)^n (1−p)η₂/(η₂+s)^{n+1}) − [n = 0] λ`.
-/
import RpylibModel.Proofs.Lemmas.C10Chain
import Mathlib.Analysis.Calculus.Deriv.Inv
import Mathlib.Tactic.FieldSimp

namespace Rpylib.Triplet
open Real Set Filter Topology

/-- HEM: `n`-th derivative in `s` of the coded rational function `λ(pη₁/(η₁−s) + (1−p)η₂/(η₂+s) − 1)` -/
noncomputable def hemKappaD (lam p eta1 eta2 : ℝ) (n : ℕ) (s : ℝ) : ℝ :=
  lam * (Nat.factorial n) * (p * eta1 / (eta1 - s) ^ (n + 1) + (-1) ^ n * ((1 - p) * eta2) / (eta2 + s) ^ (n + 1))
    - (if n = 0 then lam else 0)

theorem hasDerivAt_inv_pow_sub (η : ℝ) (n : ℕ) (s : ℝ) (h : η - s ≠ 0) :
    HasDerivAt (fun v : ℝ => 1 / (η - v) ^ (n + 1)) ((n + 1 : ℕ) / (η - s) ^ (n + 2)) s := by
  have hb : HasDerivAt (fun v : ℝ => η - v) (-1) s := by simpa using (hasDerivAt_id s).const_sub η
  have hp := hb.pow (n + 1)
  have hne : (η - s) ^ (n + 1) ≠ 0 := pow_ne_zero _ h
  have hi := hp.inv hne
  have : (fun v : ℝ => 1 / (η - v) ^ (n + 1)) = fun v => ((η - v) ^ (n + 1))⁻¹ := by funext v; rw [one_div]
  rw [this]
  refine hi.congr_deriv ?_
  simp only [Nat.add_sub_cancel, Pi.pow_apply]
  push_cast
  field_simp
  ring

theorem hasDerivAt_inv_pow_add (η : ℝ) (n : ℕ) (s : ℝ) (h : η + s ≠ 0) :
    HasDerivAt (fun v : ℝ => 1 / (η + v) ^ (n + 1)) (-((n + 1 : ℕ) / (η + s) ^ (n + 2))) s := by
  have hb : HasDerivAt (fun v : ℝ => η + v) 1 s := by simpa using (hasDerivAt_id s).const_add η
  have hp := hb.pow (n + 1)
  have hne : (η + s) ^ (n + 1) ≠ 0 := pow_ne_zero _ h
  have hi := hp.inv hne
  have : (fun v : ℝ => 1 / (η + v) ^ (n + 1)) = fun v => ((η + v) ^ (n + 1))⁻¹ := by funext v; rw [one_div]
  rw [this]
  refine hi.congr_deriv ?_
  simp only [Nat.add_sub_cancel, Pi.pow_apply]
  push_cast
  field_simp
  ring

theorem hasDerivAt_hemKappaD (lam p eta1 eta2 : ℝ) (n : ℕ) (s : ℝ) (h1 : eta1 - s ≠ 0) (h2 : eta2 + s ≠ 0) :
    HasDerivAt (hemKappaD lam p eta1 eta2 n) (hemKappaD lam p eta1 eta2 (n + 1) s) s := by
  have ha := (hasDerivAt_inv_pow_sub eta1 n s h1).const_mul (p * eta1)
  have hb := (hasDerivAt_inv_pow_add eta2 n s h2).const_mul ((-1) ^ n * ((1 - p) * eta2))
  have h := (((ha.add hb).const_mul (lam * (Nat.factorial n))).sub_const (if n = 0 then lam else 0))
  have hf : hemKappaD lam p eta1 eta2 n = fun v => lam * (Nat.factorial n) *
      (p * eta1 * (1 / (eta1 - v) ^ (n + 1)) + (-1) ^ n * ((1 - p) * eta2) * (1 / (eta2 + v) ^ (n + 1)))
        - (if n = 0 then lam else 0) := by
    funext v; unfold hemKappaD; ring
  rw [hf]
  refine h.congr_deriv ?_
  unfold hemKappaD
  simp only [Nat.succ_ne_zero, if_false, Nat.factorial_succ, sub_zero, show n + 1 + 1 = n + 2 from rfl]
  push_cast
  rw [pow_succ (-1 : ℝ) n]
  field_simp

end Rpylib.Triplet
