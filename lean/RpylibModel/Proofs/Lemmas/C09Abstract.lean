/-
C09, abstract part (no analysis): clipping of the truncated measure, the split-at-zero pattern as a difference of one
function `G` of the end point, hence additivity and the sign rules for every family coded that way.
-/
import RpylibModel.Model.Integrals
import Mathlib.Tactic.Linarith
import Mathlib.Tactic.Ring
import Mathlib.Tactic.Abel
import Mathlib.Algebra.Order.Field.Rat
import Mathlib.Algebra.Order.Field.Basic

namespace Rpylib.Integrals
open Rpylib

theorem rmax_eq (a b : Rat) : rmax a b = max a b := by
  unfold rmax; split_ifs with h
  · exact (max_eq_right h.le).symm
  · exact (max_eq_left (not_lt.mp h)).symm

theorem rmin_eq (a b : Rat) : rmin a b = min a b := by
  unfold rmin; split_ifs with h
  · exact (min_eq_right h.le).symm
  · exact (min_eq_left (not_lt.mp h)).symm

/-- order on extended end points as a proposition -/
def ELe (a b : ExtRat) : Prop := ExtRat.le a b = true

theorem ELe_fin (a b : Rat) : ELe (.fin a) (.fin b) ↔ a ≤ b := by
  simp [ELe, ExtRat.le, ExtRat.lt]

/-- the function of the end point whose differences the split pattern returns:
    `G e = tn (min e 0) - tp (max e 0)` with the conventions `tn (-inf) = 0`, `tp (+inf) = 0` -/
def G {β : Type} [Zero β] [Sub β] (F : OneSided β) : ExtRat → β
  | .negInf => 0 - F.tp 0
  | .fin u => if u ≤ 0 then F.tn u - F.tp 0 else F.tn 0 - F.tp u
  | .posInf => F.tn 0 - 0

section
variable {β : Type} [AddCommGroup β]

/-- the coded pattern (a > b error / negative form / positive form / split at 0) is `G b - G a` -/
theorem integrate_eq_G (F : OneSided β) (a b : ExtRat) (hab : ELe a b) :
    integrate F a b = some (G F b - G F a) := by
  cases a with
  | negInf =>
    cases b with
    | negInf => simp [integrate, ExtRat.le, ExtRat.lt, G, negForm, OneSided.tnE]
    | fin b =>
      by_cases hb : b ≤ 0
      · have : ¬ (0 < b) := not_lt.mpr hb
        simp [integrate, ExtRat.le, ExtRat.lt, G, negForm, OneSided.tnE, hb, this]
      · have hb' : 0 < b := not_le.mp hb
        simp [integrate, ExtRat.le, ExtRat.lt, G, negForm, posForm, OneSided.tnE, OneSided.tpE, hb, hb']
        abel
    | posInf =>
      simp [integrate, ExtRat.le, ExtRat.lt, G, negForm, posForm, OneSided.tnE, OneSided.tpE]
  | fin a =>
    cases b with
    | negInf => simp [ELe, ExtRat.le, ExtRat.lt] at hab
    | fin b =>
      have hab' : a ≤ b := (ELe_fin a b).mp hab
      have hnlt : ¬ (b < a) := not_lt.mpr hab'
      by_cases hb : b ≤ 0
      · have ha : a ≤ 0 := le_trans hab' hb
        have : ¬ (0 < b) := not_lt.mpr hb
        simp [integrate, ExtRat.le, ExtRat.lt, G, negForm, OneSided.tnE, hb, ha, this, hnlt]
      · have hb' : 0 < b := not_le.mp hb
        by_cases ha : a < 0
        · have ha' : a ≤ 0 := ha.le
          simp [integrate, ExtRat.le, ExtRat.lt, G, negForm, posForm, OneSided.tnE, OneSided.tpE, hb, hb', ha, ha', hnlt]
          abel
        · have ha0 : 0 ≤ a := not_lt.mp ha
          by_cases haz : a ≤ 0
          · have : a = 0 := le_antisymm haz ha0
            subst this
            simp [integrate, ExtRat.le, ExtRat.lt, G, posForm, OneSided.tpE, hb, hb', hab']
          · simp [integrate, ExtRat.le, ExtRat.lt, G, posForm, OneSided.tpE, hb, hb', ha, haz, hnlt]
    | posInf =>
      by_cases ha : a < 0
      · have ha' : a ≤ 0 := ha.le
        simp [integrate, ExtRat.le, ExtRat.lt, G, negForm, posForm, OneSided.tnE, OneSided.tpE, ha, ha']
        abel
      · have ha0 : 0 ≤ a := not_lt.mp ha
        by_cases haz : a ≤ 0
        · have : a = 0 := le_antisymm haz ha0
          subst this
          simp [integrate, ExtRat.le, ExtRat.lt, G, posForm, OneSided.tpE]
        · simp [integrate, ExtRat.le, ExtRat.lt, G, posForm, OneSided.tpE, ha, haz]
  | posInf =>
    cases b with
    | negInf => simp [ELe, ExtRat.le, ExtRat.lt] at hab
    | fin b => simp [ELe, ExtRat.le, ExtRat.lt] at hab
    | posInf => simp [integrate, ExtRat.le, ExtRat.lt, G, posForm, OneSided.tpE]

theorem integrate_a_gt_b (F : OneSided β) (a b : ExtRat) (h : ¬ ELe a b) : integrate F a b = none := by
  have : ExtRat.lt b a = true := by simpa [ELe, ExtRat.le] using h
  simp [integrate, this]

end

/-! ### sign rules from monotone tails (any linearly ordered field: ℚ, ℝ) -/
section
variable {β : Type} [Field β] [LinearOrder β] [IsStrictOrderedRing β]

/-- tails of a non-negative integrand (even n): `tp u = ∫_u^∞` is ≥ 0 and non-increasing on [0,∞),
    `tn u = ∫_{-∞}^u` is ≥ 0 and non-decreasing on (-∞,0] -/
structure EvenTails (F : OneSided β) : Prop where
  tp_nonneg : ∀ u, 0 ≤ u → 0 ≤ F.tp u
  tp_anti : ∀ u v, 0 ≤ u → u ≤ v → F.tp v ≤ F.tp u
  tn_nonneg : ∀ u, u ≤ 0 → 0 ≤ F.tn u
  tn_mono : ∀ u v, u ≤ v → v ≤ 0 → F.tn u ≤ F.tn v

/-- tails of an integrand with the sign of x (odd n): on the negative side `tn u = ∫_{-∞}^u` is ≤ 0 and non-increasing -/
structure OddTails (F : OneSided β) : Prop where
  tp_nonneg : ∀ u, 0 ≤ u → 0 ≤ F.tp u
  tp_anti : ∀ u v, 0 ≤ u → u ≤ v → F.tp v ≤ F.tp u
  tn_nonpos : ∀ u, u ≤ 0 → F.tn u ≤ 0
  tn_anti : ∀ u v, u ≤ v → v ≤ 0 → F.tn v ≤ F.tn u

theorem G_mono_even (F : OneSided β) (h : EvenTails F) (a b : ExtRat) (hab : ELe a b) : G F a ≤ G F b := by
  have p0 := h.tp_nonneg 0 le_rfl
  have n0 := h.tn_nonneg 0 le_rfl
  cases a with
  | negInf =>
    cases b with
    | negInf => exact le_rfl
    | fin v =>
      by_cases hv : v ≤ 0
      · have := h.tn_nonneg v hv
        simp only [G, hv, if_true]; linarith
      · have hv' : 0 ≤ v := (not_le.mp hv).le
        have := h.tp_anti 0 v le_rfl hv'
        simp only [G, hv, if_false]; linarith
    | posInf => simp only [G]; linarith
  | fin u =>
    cases b with
    | negInf => simp [ELe, ExtRat.le, ExtRat.lt] at hab
    | fin v =>
      have huv : u ≤ v := (ELe_fin u v).mp hab
      by_cases hv : v ≤ 0
      · have hu : u ≤ 0 := le_trans huv hv
        have := h.tn_mono u v huv hv
        simp only [G, hv, hu, if_true]; linarith
      · have hv' : 0 ≤ v := (not_le.mp hv).le
        by_cases hu : u ≤ 0
        · have := h.tn_mono u 0 hu le_rfl
          have := h.tp_anti 0 v le_rfl hv'
          simp only [G, hv, hu, if_true, if_false]; linarith
        · have hu' : 0 ≤ u := (not_le.mp hu).le
          have := h.tp_anti u v hu' huv
          simp only [G, hv, hu, if_false]; linarith
    | posInf =>
      by_cases hu : u ≤ 0
      · have := h.tn_mono u 0 hu le_rfl
        simp only [G, hu, if_true]; linarith
      · have hu' : 0 ≤ u := (not_le.mp hu).le
        have := h.tp_nonneg u hu'
        simp only [G, hu, if_false]; linarith
  | posInf =>
    cases b with
    | negInf => simp [ELe, ExtRat.le, ExtRat.lt] at hab
    | fin v => simp [ELe, ExtRat.le, ExtRat.lt] at hab
    | posInf => exact le_rfl

/-- on the negative half-line the odd-n value is ≤ 0 -/
theorem G_anti_odd_neg (F : OneSided β) (h : OddTails F) (a b : ExtRat) (hab : ELe a b) (hb : ELe b (.fin 0)) :
    G F b ≤ G F a := by
  cases b with
  | posInf => simp [ELe, ExtRat.le, ExtRat.lt] at hb
  | negInf =>
    cases a with
    | negInf => exact le_rfl
    | fin u => simp [ELe, ExtRat.le, ExtRat.lt] at hab
    | posInf => simp [ELe, ExtRat.le, ExtRat.lt] at hab
  | fin v =>
    have hv : v ≤ 0 := (ELe_fin v 0).mp hb
    cases a with
    | posInf => simp [ELe, ExtRat.le, ExtRat.lt] at hab
    | negInf =>
      have := h.tn_nonpos v hv
      simp only [G, hv, if_true]; linarith
    | fin u =>
      have huv : u ≤ v := (ELe_fin u v).mp hab
      have hu : u ≤ 0 := le_trans huv hv
      have := h.tn_anti u v huv hv
      simp only [G, hv, hu, if_true]; linarith

/-- on the positive half-line the value is ≥ 0 (needs only the positive tail) -/
theorem G_mono_pos (F : OneSided β) (hp0 : ∀ u, 0 ≤ u → 0 ≤ F.tp u) (hpa : ∀ u v, 0 ≤ u → u ≤ v → F.tp v ≤ F.tp u)
    (a b : ExtRat) (hab : ELe a b) (ha : ELe (.fin 0) a) : G F a ≤ G F b := by
  cases a with
  | negInf => simp [ELe, ExtRat.le, ExtRat.lt] at ha
  | posInf =>
    cases b with
    | negInf => simp [ELe, ExtRat.le, ExtRat.lt] at hab
    | fin v => simp [ELe, ExtRat.le, ExtRat.lt] at hab
    | posInf => exact le_rfl
  | fin u =>
    have hu0 : 0 ≤ u := (ELe_fin 0 u).mp ha
    cases b with
    | negInf => simp [ELe, ExtRat.le, ExtRat.lt] at hab
    | fin v =>
      have huv : u ≤ v := (ELe_fin u v).mp hab
      have hv0 : 0 ≤ v := le_trans hu0 huv
      by_cases hu : u ≤ 0
      · have hu_eq : u = 0 := le_antisymm hu hu0
        subst hu_eq
        by_cases hv : v ≤ 0
        · have hv_eq : v = 0 := le_antisymm hv hv0
          subst hv_eq; exact le_rfl
        · have := hpa 0 v le_rfl hv0
          simp only [G, hv, le_refl, if_true, if_false]; linarith
      · have hv : ¬ v ≤ 0 := fun hv => hu (le_trans huv hv)
        have := hpa u v hu0 huv
        simp only [G, hv, hu, if_false]; linarith
    | posInf =>
      by_cases hu : u ≤ 0
      · have hu_eq : u = 0 := le_antisymm hu hu0
        subst hu_eq
        have := hp0 0 le_rfl
        simp only [G, le_refl, if_true]; linarith
      · have := hp0 u hu0
        simp only [G, hu, if_false]; linarith

end

end Rpylib.Integrals
